(* VamAcct.v — the accounting invariant of the whole-allocator model (second pass over Vam*.v).
   AInv c v X: the budget counters of the allocator (vam/internal/vulkan DeviceMemoryProperties, model Budget.v)
   equal DEVICE TRUTH: the block counters are the number / bytes of the device memory objects that are live on the
   simulated device, the allocation counters are the number / bytes of the Allocation objects that are allocated
   (slots in X are allocations already released inside a running Free), the heap limits and the allocation count
   limit hold.  The component facts come from BudgetProofs.bstep_inv (the counters follow a ghost truth for
   every operation in the domain); this file shows that the allocator only ever calls the budget functions in
   their domain and with the right arguments.
   Domain (inherited from the Budget component: int64 / int32 counters do not overflow):
     0 <= maxMemoryAllocationCount < 2^31-1, at most 2^22 Allocation objects, request / block sizes < 2^62. *)
From Coq Require Import ZArith List Bool Lia Permutation.
From Arsenal Require Import Util Budget BudgetProofs VamDev VamBlockList Vam VamInvMeta VamInv VamInvUpd VamInvDev VamInvStep VamInvStep2.
Import ListNotations.
Open Scope Z_scope.

(* ---------------------------------------------------------------- (heap, size) lists up to order *)

Lemma perm_cnt l l' h : Permutation l l' -> cnt l h = cnt l' h.
Proof.
  induction 1 as [|[a b] l l' _ IH|[a b] [a' b'] l|l l' l'' _ IH1 _ IH2]; cbn [cnt]; try lia.
Qed.

Lemma perm_sum l l' h : Permutation l l' -> BudgetProofs.sum l h = BudgetProofs.sum l' h.
Proof.
  induction 1 as [|[a b] l l' _ IH|[a b] [a' b'] l|l l' l'' _ IH1 _ IH2]; cbn [BudgetProofs.sum]; try lia.
Qed.

Lemma perm_len l l' : Permutation l l' -> len l = len l'.
Proof. intros H. unfold len. rewrite (Permutation_length H). reflexivity. Qed.

Lemma perm_nonneg l l' : Permutation l l' -> Forall nonneg l -> Forall nonneg l'.
Proof. intros H F. rewrite Forall_forall in *. intros x Hx. apply F. eapply Permutation_in; [apply Permutation_sym; exact H|exact Hx]. Qed.

Lemma pair_eqb_refl x : pair_eqb x x = true.
Proof. unfold pair_eqb. rewrite !Z.eqb_refl. reflexivity. Qed.

Lemma mem_in_In x l : mem_in x l = true <-> In x l.
Proof.
  induction l as [|y l IH]; cbn [mem_in In]; [split; [discriminate|tauto]|].
  rewrite orb_true_iff, IH. split.
  - intros [H|H]; [left; symmetry; apply pair_eqb_eq; exact H|right; exact H].
  - intros [->|H]; [left; apply pair_eqb_refl|right; exact H].
Qed.

Lemma remove1_perm x l : In x l -> Permutation l (x :: remove1 x l).
Proof.
  induction l as [|y l IH]; cbn [remove1 In]; [tauto|]. intros H.
  destruct (pair_eqb x y) eqn:E.
  - apply pair_eqb_eq in E. subst y. apply Permutation_refl.
  - assert (Hin : In x l).
    { destruct H as [->|H]; [rewrite pair_eqb_refl in E; discriminate|exact H]. }
    eapply Permutation_trans; [apply perm_skip; apply IH; exact Hin|apply perm_swap].
Qed.

Lemma remove1_perm' x l l' : Permutation l (x :: l') -> Permutation (remove1 x l) l'.
Proof.
  intros H. assert (Hin : In x l) by (eapply Permutation_in; [apply Permutation_sym; exact H|left; reflexivity]).
  apply Permutation_cons_inv with (a := x). eapply Permutation_trans; [apply Permutation_sym; apply remove1_perm; exact Hin|exact H].
Qed.

Lemma BInv_perm s g ms as' :
  BInv s g -> Permutation (g_mems g) ms -> Permutation (g_allocs g) as' -> BInv s (mkG ms as').
Proof.
  intros [H1 H2 H3 H4 H5 H6 H7 H8] Pm Pa. constructor; cbn [g_mems g_allocs].
  - intros h. rewrite H1. rewrite (perm_cnt _ _ h Pm), (perm_cnt _ _ h Pa), (perm_sum _ _ h Pm), (perm_sum _ _ h Pa). reflexivity.
  - rewrite H2. apply perm_len. exact Pm.
  - eapply perm_nonneg; eauto.
  - eapply perm_nonneg; eauto.
  - intros h. rewrite <- (perm_sum _ _ h Pm). apply H5.
  - rewrite <- (perm_len _ _ Pm). exact H6.
  - intros h. rewrite <- (perm_sum _ _ h Pa). apply H7.
  - intros h. rewrite <- (perm_cnt _ _ h Pa). apply H8.
Qed.

Lemma sum_le_len l h B : Forall (fun p => snd p <= B) l -> 0 <= B -> BudgetProofs.sum l h <= len l * B.
Proof.
  unfold len. induction l as [|[a b] l IH]; intros F HB; cbn [BudgetProofs.sum length]; [lia|].
  inversion F as [|? ? Hx Hr]; subst. cbn in Hx. specialize (IH Hr HB). rewrite Nat2Z.inj_succ. destruct (a =? h); lia.
Qed.

Lemma sum_app l1 l2 h : BudgetProofs.sum (l1 ++ l2) h = BudgetProofs.sum l1 h + BudgetProofs.sum l2 h.
Proof. induction l1 as [|[a b] l IH]; cbn [BudgetProofs.sum app]; [lia|]. rewrite IH. lia. Qed.

Section WithCfg.
Variable c : vcfg.
Hypothesis Hc : cfg_ok c.
(* maxMemoryAllocationCount is a uint32 that memoryCount (uint32, compared as such) must be able to exceed by one *)
Hypothesis Hmax : 0 <= c_maxcount c < 2147483647.
(* PreferredLargeHeapBlockSize *)
Hypothesis Hlarge : 0 <= c_large c < 2 ^ 61.
(* every lemma of the section takes the three hypotheses, used or not: uniform signatures *)
Set Default Proof Using "Hc Hmax Hlarge".

Definition cfgB : bcfg := bcfg_of c.

(* ---------------------------------------------------------------- device truth about memory objects *)

Definition mem_pair (d : dmem) : Z * Z := (type_heap c (dm_type d), dm_size d).
Definition mems_truth (m : mach) : list (Z * Z) := map mem_pair (m_mems m).

Lemma heap_bytes_sum ms h : dev_heap_bytes c ms h = BudgetProofs.sum (map mem_pair ms) h.
Proof. induction ms as [|d ms IH]; cbn [dev_heap_bytes map BudgetProofs.sum mem_pair]; [reflexivity|]. rewrite IH. reflexivity. Qed.

Lemma mems_same_truth m m' : mems_same (m_mems m) (m_mems m') -> mems_truth m' = mems_truth m.
Proof.
  unfold mems_same, mems_truth. generalize (m_mems m) (m_mems m'). induction l as [|d l IH]; intros [|d' l'] H; cbn in *; try discriminate; [reflexivity|].
  injection H as H1 H2 H3 H4. rewrite (IH _ H4). unfold mem_pair. rewrite H2, H3. reflexivity.
Qed.

Definition res_ok (m : mach) : Prop := Forall (fun r => rq_size (rs_req r) < 2 ^ 62) (m_res m).

(* MB m ga: the budget state of the machine follows a ghost truth that is, up to order, the live memory objects
   of the device and the allocation list [ga]; the device never holds more than a heap's size *)
Definition MB (m : mach) (ga : list (Z * Z)) : Prop :=
  exists g, BInv (m_bud m) g /\ Lim cfgB g /\ Cnt cfgB g /\
            Permutation (g_mems g) (mems_truth m) /\ Permutation (g_allocs g) ga /\
            (forall h, BudgetProofs.sum (mems_truth m) h <= heap_size c h) /\
            Forall (fun d => 0 < dm_size d) (m_mems m).

Lemma MB_perm m ga ga' : MB m ga -> Permutation ga ga' -> MB m ga'.
Proof.
  intros (g & B & L & C0 & Pm & Pa & Cap & Pos) P. exists g.
  split; [exact B|]. split; [exact L|]. split; [exact C0|]. split; [exact Pm|]. split; [eapply Permutation_trans; eauto|]. split; assumption.
Qed.

(* the counters, read off *)
Lemma MB_counters m ga : MB m ga ->
  forall h, heaps (m_bud m) h = mkHc (cnt (mems_truth m) h) (cnt ga h) (BudgetProofs.sum (mems_truth m) h) (BudgetProofs.sum ga h).
Proof.
  intros (g & B & _ & _ & Pm & Pa & _) h. rewrite (i_heaps _ _ B h).
  rewrite (perm_cnt _ _ h Pm), (perm_cnt _ _ h Pa), (perm_sum _ _ h Pm), (perm_sum _ _ h Pa). reflexivity.
Qed.

Lemma MB_memcount m ga : MB m ga -> memCount (m_bud m) = zlen (m_mems m).
Proof.
  intros (g & B & _ & _ & Pm & _). rewrite (i_mc _ _ B), (perm_len _ _ Pm). unfold len, mems_truth, zlen. rewrite map_length. reflexivity.
Qed.

(* machine changes that keep the accounting: same objects, a budget state that follows the same truths *)
Definition acct_same (m m' : mach) : Prop :=
  (forall g, BInv (m_bud m) g -> Lim cfgB g -> Cnt cfgB g -> BInv (m_bud m') g) /\ (res_ok m -> res_ok m').

Definition mach_sameA (m m' : mach) : Prop := mach_same m m' /\ acct_same m m'.

Lemma acct_same_refl m : acct_same m m.
Proof. split; auto. Qed.

Lemma acct_same_trans a b d : acct_same a b -> acct_same b d -> acct_same a d.
Proof. intros (A1 & A2) (B1 & B2). split; auto. Qed.

Lemma acct_same_eq m m' : m_bud m' = m_bud m -> m_res m' = m_res m -> acct_same m m'.
Proof. intros E1 E2. split; [rewrite E1; auto|unfold res_ok; rewrite E2; auto]. Qed.

Lemma mach_sameA_refl m : mach_sameA m m.
Proof. split; [apply mach_same_refl|apply acct_same_refl]. Qed.

Lemma mach_sameA_trans a b d : mach_sameA a b -> mach_sameA b d -> mach_sameA a d.
Proof. intros (A1 & A2) (B1 & B2). split; [eapply mach_same_trans; eauto|eapply acct_same_trans; eauto]. Qed.

Lemma mems_same_pos ms ms' : mems_same ms ms' -> Forall (fun d => 0 < dm_size d) ms -> Forall (fun d => 0 < dm_size d) ms'.
Proof using.
  unfold mems_same. revert ms'. induction ms as [|d l IH]; intros [|d' l'] H F; cbn in *; try discriminate; [constructor|].
  injection H as H1 H2 H3 H4. inversion F; subst. constructor; [lia|auto].
Qed.

Lemma MB_same m m' ga : MB m ga -> mach_sameA m m' -> MB m' ga.
Proof.
  intros (g & B & L & C0 & Pm & Pa & Cap & Pos) ((Hms & _) & (Hb & _)).
  exists g. rewrite (mems_same_truth _ _ Hms).
  split; [apply Hb; assumption|]. split; [exact L|]. split; [exact C0|]. split; [exact Pm|]. split; [exact Pa|]. split; [exact Cap|].
  eapply mems_same_pos; eauto.
Qed.

(* ---------------------------------------------------------------- the budget functions, in their domain *)

Lemma heap_size_lookup h : 0 <= h -> heapSize cfgB h = heap_size c h.
Proof.
  intros Hh. unfold cfgB, bcfg_of, cfg_of_lists, heap_size, nth_z. cbn [heapSize]. unfold lookup.
  destruct (h <? 0) eqn:E; [apply Z.ltb_lt in E; lia|].
  generalize (Z.to_nat h). intros n. revert n. induction (c_heaps c) as [|x l IH]; intros [|n]; cbn; auto.
Qed.

Lemma heap_size_lt h : heap_size c h < 2 ^ 39.
Proof.
  unfold heap_size. destruct (nth_z (c_heaps c) h) as [x|] eqn:E; [|lia].
  pose proof (co_heaps _ Hc) as F. rewrite Forall_forall in F. apply (F x). eapply nth_z_in; eauto.
Qed.

(* HeapBudget only refreshes the figures fetched from the driver *)
Lemma heap_budget_sameA m h : mach_sameA m (fst (fst (heap_budget c m h))).
Proof.
  split; [apply heap_budget_same|]. unfold heap_budget.
  destruct (Budget.heap_budget (bcfg_of c) (m_bud m) h (dev_report c m)) as ((b' & r) & cs) eqn:E.
  assert (A : acct_same m (set_bud m b')).
  { split; [|auto]. intros g B L C0. cbn.
    destruct (bstep_inv cfgB (m_bud m) g (OHeapBudget h (dev_report c m)) b' r cs B L C0 eq_refl E) as (B' & _). exact B'. }
  destruct r; exact A.
Qed.

Lemma heap_budget_full_sameA m h : mach_sameA m (fst (heap_budget_full c m h)).
Proof.
  split; [apply heap_budget_full_same|]. unfold heap_budget_full.
  destruct (Budget.heap_budget (bcfg_of c) (m_bud m) h (dev_report c m)) as ((b' & r) & cs) eqn:E.
  assert (A : acct_same m (set_bud m b')).
  { split; [|auto]. intros g B L C0. cbn.
    destruct (bstep_inv cfgB (m_bud m) g (OHeapBudget h (dev_report c m)) b' r cs B L C0 eq_refl E) as (B' & _). exact B'. }
  destruct r; exact A.
Qed.

Lemma cap_sum_bound m ga h : MB m ga -> 0 <= BudgetProofs.sum (mems_truth m) h < 2 ^ 39.
Proof.
  intros (g & B & _ & _ & Pm & _ & Cap & _). split.
  - rewrite <- (perm_sum _ _ h Pm). apply sum_nonneg. apply (i_nn_m _ _ B).
  - pose proof (Cap h). pose proof (heap_size_lt h). lia.
Qed.

(* AllocateVulkanMemory *)
Lemma dev_alloc_bud m ty size ded :
  let '(m1, code, id) := dev_alloc c m ty size ded in
  m_bud m1 = m_bud m /\ m_res m1 = m_res m /\
  (code = 0 -> dev_heap_bytes c (m_mems m) (type_heap c ty) + size <= heap_size c (type_heap c ty)).
Proof.
  unfold dev_alloc. destruct (negb (type_valid c ty)); [cbn; repeat split; auto; discriminate|].
  destruct (size <=? 0); [cbn; repeat split; auto; discriminate|].
  destruct (dev_fault _ _ _) as ((f1 & fired1) & r). destruct (negb (r =? 0)) eqn:Er.
  { cbn. repeat split; auto. intros ->. discriminate. }
  cbn [set_fault m_mems m_fault m_fired m_next].
  destruct (_ && _); [cbn; repeat split; auto; discriminate|].
  destruct (heap_size c (type_heap c ty) <? _) eqn:Eh; [cbn; repeat split; auto; discriminate|].
  apply Z.ltb_ge in Eh. destruct (DEV_TABLE <=? m_next m + 1); cbn; repeat split; auto; discriminate.
Qed.

Lemma alloc_mem_results cfg s h size fault b' r cs :
  Budget.alloc_mem cfg s h size fault = (b', r, cs) ->
  ((r = BErrTooManyObjects \/ r = BErrOutOfDeviceMemory) /\ cs = []) \/
  (cs <> [] /\ ((r = BOk /\ fault = false) \/ (r = BErrDriver /\ fault = true) \/ r = BPanic)).
Proof using.
  unfold Budget.alloc_mem. destruct (maxCount cfg <? _).
  { intros E. injection E as <- <- <-. left. auto. }
  match goal with |- context [match ?x with Some _ => _ | None => _ end] => destruct x as [s2|] end.
  2:{ intros E. injection E as <- <- <-. left. auto. }
  destruct fault.
  - destruct (Budget.remove_block s2 h size) as (s3 & p). intros E. injection E as <- <- <-.
    right. split; [discriminate|]. destruct p; auto.
  - intros E. injection E as <- <- <-. right. split; [discriminate|]. auto.
Qed.

Lemma alloc_vk_MB m ga ty size ded :
  MB m ga -> 0 <= size < 2 ^ 62 ->
  let '(m', r) := alloc_vk c m ty size ded in
  match r with
  | OK id => MB m' ga /\ m_mems m' = m_mems m ++ [mkDmem id ty size false] /\ m_res m' = m_res m
  | ER _ => MB m' ga /\ m_res m' = m_res m
  | PANIC | STUCK => False
  end.
Proof.
  intros HM Hsz. pose proof HM as (g & B & L & C0 & Pm & Pa & Cap & Pos).
  pose proof (dev_alloc_spec c m ty size ded Pos) as DS. pose proof (dev_alloc_bud m ty size ded) as DB.
  unfold alloc_vk. destruct (dev_alloc c m ty size ded) as ((m1 & code) & id). destruct DB as (Eb & Er & Ecap).
  set (h := type_heap c ty) in *.
  pose proof (cap_sum_bound m ga h HM) as Hsb.
  assert (Hok : bop_ok g (OAllocMem h size (negb (code =? 0))) = true).
  { cbn [bop_ok]. rewrite (perm_sum _ _ h Pm), (perm_len _ _ Pm).
    assert (Hlen : len (mems_truth m) <= c_maxcount c).
    { rewrite <- (perm_len _ _ Pm). apply C0. cbn. lia. }
    apply andb_true_intro. split; [apply andb_true_intro; split|]; [apply Z.leb_le|apply Z.ltb_lt|apply Z.ltb_lt]; lia. }
  destruct (Budget.alloc_mem (bcfg_of c) (m_bud m) h size (negb (code =? 0))) as ((b' & r) & cs) eqn:E.
  destruct (bstep_inv cfgB (m_bud m) g (OAllocMem h size (negb (code =? 0))) b' r cs B L C0 Hok E) as (B' & L' & C' & NP).
  assert (Hkeep : forall mm, m_mems mm = m_mems m \/ mach_same m mm -> m_bud mm = b' -> g_upd g (OAllocMem h size (negb (code =? 0))) r = g -> MB mm ga).
  { intros mm Hmm Hbb Hg. rewrite Hg in *. exists g. rewrite Hbb.
    assert (Et : mems_truth mm = mems_truth m).
    { destruct Hmm as [Hmm|(Hmm & _)]; [unfold mems_truth; rewrite Hmm; reflexivity|apply mems_same_truth; exact Hmm]. }
    rewrite Et. split; [exact B'|]. split; [exact L|]. split; [exact C0|]. split; [exact Pm|]. split; [exact Pa|]. split; [exact Cap|].
    destruct Hmm as [Hmm|(Hmm & _)]; [rewrite Hmm; exact Pos|eapply mems_same_pos; eauto]. }
  destruct (alloc_mem_results _ _ _ _ _ _ _ _ E) as [([-> | ->] & ->)|(Hcs & [(-> & Hf)|[(-> & Hf)| ->]])].
  - split; [apply Hkeep; cbn; auto|cbn; auto].
  - split; [apply Hkeep; cbn; auto|cbn; auto].
  - (* the driver was called and succeeded *)
    destruct cs as [|k cs']; [congruence|].
    apply negb_false_iff in Hf. apply Z.eqb_eq in Hf. subst code.
    destruct DS as [(_ & Eid & En & Em & Hs0 & Htv)|(Hne & _)]; [|congruence].
    specialize (Ecap eq_refl). rewrite heap_bytes_sum in Ecap. fold (mems_truth m) in Ecap.
    split; [|cbn; auto].
    exists (g_upd g (OAllocMem h size (negb (0 =? 0))) BOk). cbn [g_upd g_mems g_allocs set_bud m_bud m_mems].
    assert (Et : mems_truth (set_bud m1 b') = mems_truth m ++ [(h, size)]).
    { unfold mems_truth. cbn [set_bud m_mems]. rewrite Em, map_app. reflexivity. }
    rewrite Et. split; [exact B'|]. split; [exact L'|]. split; [exact C'|].
    split; [eapply Permutation_trans; [apply perm_skip; exact Pm|apply Permutation_cons_append]|]. split; [exact Pa|].
    split.
    + intros h'. rewrite sum_app. cbn [BudgetProofs.sum]. destruct (h =? h') eqn:Eh.
      * apply Z.eqb_eq in Eh. subst h'. lia.
      * pose proof (Cap h'). lia.
    + rewrite Em. apply Forall_app. split; [exact Pos|]. constructor; [cbn; lia|constructor].
  - (* the driver was called and failed *)
    destruct cs as [|k cs']; [congruence|].
    apply negb_true_iff in Hf. apply Z.eqb_neq in Hf.
    destruct DS as [(E0 & _)|(_ & Hsame)]; [congruence|].
    split; [apply Hkeep; cbn; auto|cbn; auto].
  - exfalso. apply NP. reflexivity.
Qed.

(* FreeVulkanMemory of a live object with its own type and size *)
Lemma find_mem_perm ms id d : find_mem ms id = Some d -> Permutation ms (d :: remove_mem ms id).
Proof using.
  induction ms as [|x ms IH]; cbn [find_mem remove_mem]; [discriminate|].
  destruct (dm_id x =? id); [intros E; injection E as ->; apply Permutation_refl|].
  intros E. eapply Permutation_trans; [apply perm_skip; apply IH; exact E|apply perm_swap].
Qed.

Lemma free_mem_results s h size b' r cs : Budget.free_mem s h size = (b', r, cs) -> r = BOk \/ r = BPanic.
Proof using. unfold Budget.free_mem. destruct (Budget.remove_block s h size) as (s1 & p). destruct p; intros E; injection E as <- <- <-; auto. Qed.

Lemma free_vk_MB m ga ty size mem d :
  MB m ga -> find_mem (m_mems m) mem = Some d -> type_heap c ty = type_heap c (dm_type d) -> size = dm_size d ->
  let '(m', r) := free_vk c m ty size mem in
  r = OK tt /\ MB m' ga /\ m_mems m' = remove_mem (m_mems m) mem /\ m_res m' = m_res m /\ m_next m' = m_next m.
Proof.
  intros (g & B & L & C0 & Pm & Pa & Cap & Pos) Hf Hty Hsz. unfold free_vk, dev_free. cbn [log_call set_mems m_bud m_mems].
  set (h := type_heap c ty) in *.
  pose proof (find_mem_perm _ _ _ Hf) as Pd.
  assert (Pt : Permutation (mems_truth m) ((h, size) :: map mem_pair (remove_mem (m_mems m) mem))).
  { unfold mems_truth. eapply Permutation_trans; [apply Permutation_map; exact Pd|]. cbn [map]. unfold mem_pair at 1. rewrite <- Hty, <- Hsz. apply Permutation_refl. }
  assert (Hok : bop_ok g (OFreeMem h size) = true).
  { cbn [bop_ok]. apply mem_in_In. eapply Permutation_in; [apply Permutation_sym; exact Pm|].
    eapply Permutation_in; [apply Permutation_sym; exact Pt|left; reflexivity]. }
  destruct (Budget.free_mem (m_bud m) h size) as ((b' & r) & cs) eqn:E.
  destruct (bstep_inv cfgB (m_bud m) g (OFreeMem h size) b' r cs B L C0 Hok E) as (B' & L' & C' & NP).
  destruct (free_mem_results _ _ _ _ _ _ E) as [->| ->]; [|exfalso; apply NP; reflexivity].
  cbn [g_upd] in *. split; [reflexivity|]. split; [|cbn; auto].
  eexists. cbn [set_bud m_bud m_mems]. unfold mems_truth. cbn [set_bud m_mems log_call set_mems].
  split; [exact B'|]. split; [exact L'|]. split; [exact C'|]. cbn [g_mems g_allocs].
  split; [apply remove1_perm'; eapply Permutation_trans; [exact Pm|exact Pt]|]. split; [exact Pa|]. split.
  - intros h'. pose proof (Cap h') as Hc'. rewrite (perm_sum _ _ h' Pt) in Hc'. cbn [BudgetProofs.sum] in Hc'.
    assert (0 <= size).
    { rewrite Hsz. rewrite Forall_forall in Pos. pose proof (Pos d). assert (In d (m_mems m)) by (eapply Permutation_in; [apply Permutation_sym; exact Pd|left; reflexivity]). specialize (H H0). lia. }
    destruct (h =? h'); lia.
  - eapply Permutation_Forall in Pos; [|exact Pd]. inversion Pos; auto.
Qed.

(* AddAllocation / RemoveAllocation *)
Lemma add_allocation_MB m ga h size :
  MB m ga -> 0 <= size -> BudgetProofs.sum ga h + size < 9223372036854775808 -> cnt ga h + 1 < 2147483648 ->
  MB (add_allocation c m h size) ((h, size) :: ga).
Proof.
  intros (g & B & L & C0 & Pm & Pa & Cap & Pos) H0 Hs Hc1. unfold add_allocation.
  assert (Hok : bop_ok g (OAddAlloc h size) = true).
  { cbn [bop_ok]. rewrite (perm_sum _ _ h Pa), (perm_cnt _ _ h Pa).
    apply andb_true_intro. split; [apply andb_true_intro; split|]; [apply Z.leb_le|apply Z.ltb_lt|apply Z.ltb_lt]; lia. }
  destruct (Budget.add_alloc (bcfg_of c) (m_bud m) h size) as ((b' & r) & cs) eqn:E.
  assert (Er : r = BOk) by (unfold Budget.add_alloc in E; injection E as _ <- _; reflexivity).
  destruct (bstep_inv cfgB (m_bud m) g (OAddAlloc h size) b' r cs B L C0 Hok E) as (B' & L' & C' & NP). subst r. cbn [g_upd] in *.
  eexists. cbn [set_bud m_bud]. split; [exact B'|]. split; [exact L'|]. split; [exact C'|]. cbn [g_mems g_allocs].
  split; [exact Pm|]. split; [apply perm_skip; exact Pa|]. split; [exact Cap|exact Pos].
Qed.

Lemma remove_alloc_results cfg s h size b' r cs : Budget.remove_alloc cfg s h size = (b', r, cs) -> r = BOk \/ r = BPanic.
Proof using.
  unfold Budget.remove_alloc. destruct (_ <? 0); [intros E; injection E as <- <- <-; auto|].
  destruct (_ <? 0); intros E; injection E as <- <- <-; auto.
Qed.

Lemma remove_allocation_MB m ga ga' h size :
  MB m ga -> Permutation ga ((h, size) :: ga') ->
  let '(m', r) := remove_allocation c m h size in r = OK tt /\ MB m' ga' /\ m_mems m' = m_mems m /\ m_res m' = m_res m.
Proof.
  intros (g & B & L & C0 & Pm & Pa & Cap & Pos) P. unfold remove_allocation.
  assert (Hok : bop_ok g (ORemoveAlloc h size) = true).
  { cbn [bop_ok]. apply mem_in_In. eapply Permutation_in; [apply Permutation_sym; eapply Permutation_trans; [exact Pa|exact P]|left; reflexivity]. }
  destruct (Budget.remove_alloc (bcfg_of c) (m_bud m) h size) as ((b' & r) & cs) eqn:E.
  destruct (bstep_inv cfgB (m_bud m) g (ORemoveAlloc h size) b' r cs B L C0 Hok E) as (B' & L' & C' & NP).
  destruct (remove_alloc_results _ _ _ _ _ _ _ E) as [->| ->]; [|exfalso; apply NP; reflexivity].
  cbn [g_upd] in *. split; [reflexivity|]. split; [|split; reflexivity].
  eexists. cbn [set_bud m_bud]. split; [exact B'|]. split; [exact L'|]. split; [exact C'|]. cbn [g_mems g_allocs].
  split; [exact Pm|]. split; [apply remove1_perm'; eapply Permutation_trans; [exact Pa|exact P]|]. split; [exact Cap|exact Pos].
Qed.

(* ---------------------------------------------------------------- the other device calls keep the accounting *)

Lemma mach_sameA_of m m' : mach_same m m' -> m_bud m' = m_bud m -> (res_ok m -> res_ok m') -> mach_sameA m m'.
Proof. intros H E1 E2. split; [exact H|]. split; [rewrite E1; auto|exact E2]. Qed.

Ltac msA := apply mach_sameA_of; [|reflexivity|auto].

Lemma mach_sameA_set_fault m f n : mach_sameA m (set_fault m f n).
Proof. msA. apply mach_same_set_fault. Qed.
Lemma mach_sameA_log m k : mach_sameA m (log_call m k).
Proof. msA. apply mach_same_log. Qed.
Lemma mach_sameA_clear m : mach_sameA m (clear_calls m).
Proof. msA. apply mach_same_clear. Qed.

Lemma dev_map_sameA m id : mach_sameA m (fst (dev_map c m id)).
Proof.
  apply mach_sameA_of; [apply dev_map_same| |].
  - unfold dev_map. destruct (find_mem _ _); [|reflexivity]. destruct (negb _); [reflexivity|]. destruct (_ <=? 0); [reflexivity|].
    destruct (dev_fault _ _ _) as ((f1 & fired1) & r). destruct (negb _); reflexivity.
  - unfold dev_map, res_ok. destruct (find_mem _ _); [|auto]. destruct (negb _); [auto|]. destruct (_ <=? 0); [auto|].
    destruct (dev_fault _ _ _) as ((f1 & fired1) & r). destruct (negb _); auto.
Qed.

Lemma dev_unmap_sameA m id : mach_sameA m (dev_unmap m id).
Proof. msA. apply dev_unmap_same. Qed.

Lemma sm_map_sameA m mem s : mach_sameA m (fst (fst (sm_map c m mem s))).
Proof.
  unfold sm_map. pose proof (dev_map_sameA m mem) as H. destruct (dev_map c m mem) as (m1 & code).
  destruct (SyncMem.do_map _ _ _) as ((s' & r) & cs). cbn in *. destruct cs; [apply mach_sameA_refl|exact H].
Qed.

Lemma sm_unmap_sameA m mem s : mach_sameA m (fst (fst (sm_unmap m mem s))).
Proof.
  unfold sm_unmap. destruct (SyncMem.do_unmap _ _) as ((s' & r) & cs). cbn. destruct cs; [apply mach_sameA_refl|apply dev_unmap_sameA].
Qed.

Lemma sm_sub_sameA m mem s : mach_sameA m (fst (sm_sub m mem s)).
Proof.
  unfold sm_sub. destruct (SyncMem.do_sub _) as ((s' & r) & cs). cbn. destruct cs; [apply mach_sameA_refl|apply dev_unmap_sameA].
Qed.

Lemma dev_flush_sameA m inval id off size : mach_sameA m (fst (dev_flush m inval id off size)).
Proof.
  apply mach_sameA_of; [apply dev_flush_same| |]; unfold dev_flush, res_ok; destruct (find_mem _ _); auto;
    destruct (dev_fault _ _ _) as ((f1 & fired1) & r); auto.
Qed.

Lemma res_ok_remove l id : Forall (fun r => rq_size (rs_req r) < 2 ^ 62) l -> Forall (fun r => rq_size (rs_req r) < 2 ^ 62) (remove_res l id).
Proof using. induction 1 as [|x l Hx Hl IH]; cbn; [constructor|]. destruct (rs_id x =? id); [auto|constructor; auto]. Qed.

Lemma res_ok_replace l nr : rq_size (rs_req nr) < 2 ^ 62 ->
  Forall (fun r => rq_size (rs_req r) < 2 ^ 62) l -> Forall (fun r => rq_size (rs_req r) < 2 ^ 62) (replace_res l nr).
Proof using. intros Hn. induction 1 as [|x l Hx Hl IH]; cbn; [constructor|]. destruct (rs_id x =? rs_id nr); constructor; auto. Qed.

Lemma find_res_in l id r : find_res l id = Some r -> In r l.
Proof using. induction l as [|x l IH]; cbn; [discriminate|]. destruct (rs_id x =? id); [intros E; injection E as ->; auto|auto]. Qed.

Lemma dev_create_res_sameA m image kind req : rq_size req < 2 ^ 62 -> mach_sameA m (fst (fst (dev_create_res m image kind req))).
Proof.
  intros Hr. apply mach_sameA_of; [apply dev_create_res_same| |]; unfold dev_create_res, res_ok;
    destruct (dev_fault _ _ _) as ((f1 & fired1) & r); destruct (negb _); auto; destruct (DEV_TABLE <=? _); cbn; auto.
  intros F. apply Forall_app. split; [auto|]. constructor; [cbn; auto|constructor].
Qed.

Lemma dev_destroy_res_sameA m image id : mach_sameA m (dev_destroy_res m image id).
Proof. apply mach_sameA_of; [apply dev_destroy_res_same|reflexivity|]. unfold dev_destroy_res, res_ok. cbn. apply res_ok_remove. Qed.

Lemma dev_requirements_sameA m image id : mach_sameA m (fst (dev_requirements m image id)).
Proof. msA. apply dev_requirements_same. Qed.

Lemma dev_requirements_size m image id : res_ok m -> rq_size (snd (dev_requirements m image id)) < 2 ^ 62.
Proof.
  intros F. unfold dev_requirements. cbn. destruct (find_res (m_res m) id) as [r|] eqn:E; [|cbn; lia].
  unfold res_ok in F. rewrite Forall_forall in F. apply F. eapply find_res_in; eauto.
Qed.

Lemma dev_bind_sameA m image res mem off : mach_sameA m (fst (dev_bind m image res mem off)).
Proof.
  apply mach_sameA_of; [apply dev_bind_same| |]; unfold dev_bind, res_ok.
  - destruct (find_res _ _); [|reflexivity]. destruct (find_mem _ _); [|reflexivity].
    destruct (dev_fault _ _ _) as ((f1 & fired1) & r). destruct (negb _); reflexivity.
  - destruct (find_res _ _) as [r0|] eqn:E; [|auto]. destruct (find_mem _ _); [|auto].
    destruct (dev_fault _ _ _) as ((f1 & fired1) & r). destruct (negb _); cbn; auto.
    intros F. apply res_ok_replace; [|auto]. cbn. rewrite Forall_forall in F. apply F. eapply find_res_in; eauto.
Qed.

Lemma dev_forget_binding_sameA m res : mach_sameA m (dev_forget_binding m res).
Proof.
  unfold dev_forget_binding. destruct (find_res (m_res m) res) as [r|] eqn:E; [|apply mach_sameA_refl].
  apply mach_sameA_of; [split; cbn; [apply mems_same_refl|lia]|reflexivity|]. unfold res_ok. cbn.
  intros F. apply res_ok_replace; [|auto]. cbn. rewrite Forall_forall in F. apply F. eapply find_res_in; eauto.
Qed.

(* ---------------------------------------------------------------- truth about Allocation objects *)

Definition in_zb (s : Z) (X : list Z) : bool := existsb (Z.eqb s) X.

Lemma in_zb_In s X : in_zb s X = true <-> In s X.
Proof using.
  unfold in_zb. rewrite existsb_exists. split.
  - intros (x & Hx & E). apply Z.eqb_eq in E. subst. auto.
  - intros H. exists s. split; [auto|apply Z.eqb_refl].
Qed.

Lemma in_zb_false s X : in_zb s X = false <-> ~ In s X.
Proof using. rewrite <- in_zb_In. destruct (in_zb s X); split; intros H; try congruence; try discriminate; exfalso; auto. Qed.

(* what slot s contributes: its (heap, size) when it is allocated and not already released (X) *)
Definition contrib (v : vam) (X : list Z) (s : Z) : list (Z * Z) :=
  let a := get_alloc v s in
  if a_allocated a && negb (in_zb s X) then [(type_heap c (a_type a), a_size a)] else [].

Definition allocs_truth (v : vam) (X : list Z) : list (Z * Z) :=
  flat_map (contrib v X) (slot_range 0 (length (v_tab v))).

Lemma slot_range_spec n : forall a, NoDup (slot_range a n) /\ forall s, In s (slot_range a n) <-> a <= s < a + Z.of_nat n.
Proof using.
  induction n as [|k IH]; intros a; cbn [slot_range]; [split; [constructor|intros s; split; [intros []|lia]]|].
  destruct (IH (a + 1)) as (Hnd & Hr). split.
  - constructor; [intros H; apply Hr in H; lia|auto].
  - intros s. cbn [In]. rewrite Hr. lia.
Qed.

Lemma flat_map_ext_in {A B} (f g : A -> list B) l : (forall x, In x l -> f x = g x) -> flat_map f l = flat_map g l.
Proof using. induction l as [|x l IH]; cbn; [auto|]. intros H. rewrite (H x) by auto. rewrite IH; auto. Qed.

Lemma flat_map_upd {B} (f f' : Z -> list B) (L : list Z) s p :
  NoDup L -> In s L -> (forall i, In i L -> i <> s -> f' i = f i) -> f s = [] -> f' s = [p] ->
  Permutation (flat_map f' L) (p :: flat_map f L).
Proof using.
  induction L as [|x L IH]; intros Hnd Hin Hoth Hs Hs'; [destruct Hin|].
  inversion Hnd as [|? ? Hx Hnd']; subst. cbn [flat_map]. destruct (Z.eq_dec x s) as [->|Hne].
  - rewrite Hs, Hs'. cbn [app]. apply perm_skip.
    rewrite (flat_map_ext_in f' f L); [apply Permutation_refl|]. intros i Hi. apply Hoth; [right; auto|]. intros ->. contradiction.
  - rewrite (Hoth x) by (auto; left; auto). destruct Hin as [->|Hin]; [congruence|].
    eapply Permutation_trans; [apply Permutation_app_head; apply IH; auto|].
    + intros i Hi. apply Hoth. right. auto.
    + apply Permutation_sym. apply Permutation_middle.
Qed.

Lemma allocs_truth_ext v X v' X' :
  zlen (v_tab v') = zlen (v_tab v) ->
  (forall s, 0 <= s < zlen (v_tab v) -> contrib v' X' s = contrib v X s) -> allocs_truth v' X' = allocs_truth v X.
Proof.
  intros Hl H. unfold allocs_truth. unfold zlen in Hl. apply Nat2Z.inj in Hl. rewrite Hl.
  apply flat_map_ext_in. intros s Hs. apply H. apply (proj2 (slot_range_spec _ 0)) in Hs. unfold zlen. lia.
Qed.

(* one slot starts to count *)
Lemma allocs_truth_add v X v' X' s p :
  zlen (v_tab v') = zlen (v_tab v) -> 0 <= s < zlen (v_tab v) ->
  (forall s', 0 <= s' < zlen (v_tab v) -> s' <> s -> contrib v' X' s' = contrib v X s') ->
  contrib v X s = [] -> contrib v' X' s = [p] ->
  Permutation (allocs_truth v' X') (p :: allocs_truth v X).
Proof.
  intros Hl Hs Hoth H0 H1. unfold allocs_truth. unfold zlen in Hl. apply Nat2Z.inj in Hl. rewrite Hl.
  destruct (slot_range_spec (length (v_tab v)) 0) as (Hnd & Hr).
  apply flat_map_upd with (s := s); auto.
  - apply Hr. unfold zlen in Hs. lia.
  - intros i Hi Hne. apply Hoth; [|auto]. apply Hr in Hi. unfold zlen. lia.
Qed.

Lemma contrib_same v X v' X' s :
  get_alloc v' s = get_alloc v s -> (In s X' <-> In s X) -> contrib v' X' s = contrib v X s.
Proof.
  intros E HX. unfold contrib. rewrite E. replace (in_zb s X') with (in_zb s X); [reflexivity|].
  destruct (in_zb s X) eqn:E1; symmetry; [apply in_zb_In; apply HX; apply in_zb_In; auto|].
  apply in_zb_false. intros H. apply HX in H. apply in_zb_false in E1. contradiction.
Qed.

Lemma contrib_dead v X s : a_allocated (get_alloc v s) = false -> contrib v X s = [].
Proof. intros H. unfold contrib. rewrite H. reflexivity. Qed.

Lemma contrib_X v X s : In s X -> contrib v X s = [].
Proof. intros H. unfold contrib. apply in_zb_In in H. rewrite H. rewrite andb_false_r. reflexivity. Qed.

Lemma contrib_live v X s : a_allocated (get_alloc v s) = true -> ~ In s X ->
  contrib v X s = [(type_heap c (a_type (get_alloc v s)), a_size (get_alloc v s))].
Proof. intros H HX. unfold contrib. apply in_zb_false in HX. rewrite H, HX. reflexivity. Qed.

Lemma allocs_truth_len v X : len (allocs_truth v X) <= zlen (v_tab v).
Proof.
  unfold allocs_truth, len, zlen. generalize 0. induction (length (v_tab v)) as [|k IH]; intros a; cbn [slot_range flat_map]; [cbn; lia|].
  rewrite app_length. specialize (IH (a + 1)). unfold contrib at 1. destruct (_ && _); cbn [length]; lia.
Qed.

(* ---------------------------------------------------------------- the accounting invariant *)

Record AInv (v : vam) (X : list Z) : Prop := mkAInv {
  ai_mb : MB (v_m v) (allocs_truth v X);
  ai_tab : zlen (v_tab v) <= 4194304;
  ai_pref : forall lr l, get_blist v lr = Some l -> 0 <= bl_pref l < 2 ^ 62;
  ai_res : res_ok (v_m v)
}.

Lemma AInv_mach v X m' : AInv v X -> mach_sameA (v_m v) m' -> AInv (set_m v m') X.
Proof.
  intros [A B C0 D] H. constructor.
  - cbn [v_m set_m]. replace (allocs_truth (set_m v m') X) with (allocs_truth v X) by reflexivity. eapply MB_same; eauto.
  - exact B.
  - intros lr l Hg. rewrite get_blist_set_m in Hg. eauto.
  - cbn. apply (proj2 (proj2 H)). exact D.
Qed.

(* changes of the block lists / pools / dedicated lists only *)
Lemma AInv_lists v X v' :
  AInv v X -> v_m v' = v_m v -> v_tab v' = v_tab v ->
  (forall lr l', get_blist v' lr = Some l' -> 0 <= bl_pref l' < 2 ^ 62) -> AInv v' X.
Proof.
  intros [A B C0 D] Em Et Hp. constructor; [|rewrite Et; auto|auto|rewrite Em; auto].
  rewrite Em. replace (allocs_truth v' X) with (allocs_truth v X); [auto|].
  unfold allocs_truth, contrib, get_alloc. rewrite Et. reflexivity.
Qed.

(* the machine-and-table part, and how the rest follows from the frames of the first pass *)
Definition AM (v : vam) (X : list Z) : Prop := MB (v_m v) (allocs_truth v X) /\ res_ok (v_m v).

Lemma AInv_AM v X : AInv v X -> AM v X.
Proof. intros [A _ _ D]. split; auto. Qed.

Definition prefs_ok (v : vam) : Prop := forall lr l, get_blist v lr = Some l -> 0 <= bl_pref l < 2 ^ 62.

Lemma prefs_frame' v v' : prefs_ok v -> lists_frame' v v' -> prefs_ok v'.
Proof.
  intros P F lr l' Hg. destruct (get_blist v lr) as [l|] eqn:E.
  - destruct (lf'_some _ _ F _ _ E) as (l2 & G2 & S). assert (l2 = l') by congruence. subst l2.
    destruct S as (_ & Hp & _). rewrite Hp. eapply P; eauto.
  - rewrite (lf'_none _ _ F _ E) in Hg. discriminate.
Qed.

Lemma prefs_frame v v' : prefs_ok v -> lists_frame v v' -> prefs_ok v'.
Proof. intros P F. eapply prefs_frame'; [exact P|apply lists_frame_weak; exact F]. Qed.

Lemma AInv_frame' v X v' X' S : AInv v X -> AM v' X' -> tab_frame v v' S -> lists_frame' v v' -> AInv v' X'.
Proof.
  intros [A B C0 D] (A' & D') (T & _) F. constructor; auto; [lia|]. eapply prefs_frame'; eauto.
Qed.

Lemma AInv_frame v X v' X' S : AInv v X -> AM v' X' -> tab_frame v v' S -> lists_frame v v' -> AInv v' X'.
Proof. intros A M T F. eapply AInv_frame'; eauto. apply lists_frame_weak. exact F. Qed.

(* the table observations that allocs_truth depends on *)
Lemma allocs_truth_tab v v' X : v_tab v' = v_tab v -> allocs_truth v' X = allocs_truth v X.
Proof. intros E. unfold allocs_truth, contrib, get_alloc. rewrite E. reflexivity. Qed.

Lemma AM_tab v v' X : AM v X -> v_tab v' = v_tab v -> mach_sameA (v_m v) (v_m v') -> AM v' X.
Proof.
  intros (A & D) Et Hm. split; [rewrite (allocs_truth_tab _ _ _ Et); eapply MB_same; eauto|]. apply (proj2 (proj2 Hm)). exact D.
Qed.

(* ---------------------------------------------------------------- sizes of live allocations *)

Lemma mem_size_le_sum ms d : Forall (fun d => 0 < dm_size d) ms -> In d ms ->
  dm_size d <= BudgetProofs.sum (map mem_pair ms) (type_heap c (dm_type d)).
Proof.
  induction ms as [|x ms IH]; intros F Hin; [destruct Hin|]. inversion F as [|? ? Hx Hr]; subst.
  cbn [map BudgetProofs.sum]. unfold mem_pair at 1.
  assert (0 <= BudgetProofs.sum (map mem_pair ms) (type_heap c (dm_type d))).
  { clear - Hr. induction ms as [|y ms IH]; cbn [map BudgetProofs.sum]; [lia|]. inversion Hr; subst. specialize (IH H2). unfold mem_pair at 1. destruct (_ =? _); lia. }
  destruct Hin as [->|Hin].
  - rewrite Z.eqb_refl. lia.
  - specialize (IH Hr Hin). destruct (_ =? _); lia.
Qed.

Lemma mem_size_bound m ga d : MB m ga -> In d (m_mems m) -> 0 < dm_size d < 2 ^ 39.
Proof.
  intros (g & _ & _ & _ & _ & _ & Cap & Pos) Hin. split.
  - rewrite Forall_forall in Pos. auto.
  - pose proof (mem_size_le_sum _ _ Pos Hin). pose proof (Cap (type_heap c (dm_type d))). pose proof (heap_size_lt (type_heap c (dm_type d))).
    unfold mems_truth in *. lia.
Qed.

Lemma slot_size_bound v U X ga s a : VamInvU c v U X -> MB (v_m v) ga -> slot_is v s a -> ~ In s X -> 0 < a_size a < 2 ^ 39.
Proof.
  intros HI HM Sa HX.
  destruct (vi_slots _ _ _ _ HI s a Sa HX) as [(K & l & b & rg & G & Bk & _ & Hrg & _ & _ & Hsz & _)|(K & _ & _ & d & Hf & _ & Hd)].
  - pose proof (bw_meta _ _ (vi_lists _ _ _ _ HI _ _ G)) as Hm. rewrite Forall_forall in Hm.
    destruct (meta_live_sound _ (Hm _ Bk)) as (Hs & _). destruct (Hs _ Hrg) as (H0 & H1 & H2 & _).
    destruct (vi_block_mem _ _ _ _ HI _ _ _ G Bk) as (d & Hf & _ & Hd).
    pose proof (mem_size_bound _ _ d HM (proj1 (find_mem_in _ _ _ Hf))). lia.
  - pose proof (mem_size_bound _ _ d HM (proj1 (find_mem_in _ _ _ Hf))). lia.
Qed.

Lemma allocs_bound v U X ga : VamInvU c v U X -> MB (v_m v) ga -> Forall (fun p => snd p <= 2 ^ 39) (allocs_truth v X).
Proof.
  intros HI HM. apply Forall_forall. intros p Hp. unfold allocs_truth in Hp. apply in_flat_map in Hp.
  destruct Hp as (s & _ & Hp). unfold contrib in Hp.
  destruct (a_allocated (get_alloc v s)) eqn:Ea; [|destruct Hp]. destruct (in_zb s X) eqn:Ex; [destruct Hp|].
  cbn in Hp. destruct Hp as [<-|[]]. cbn [snd].
  pose proof (slot_size_bound v U X ga s _ HI HM (get_alloc_allocated v s Ea) (proj1 (in_zb_false s X) Ex)). lia.
Qed.

(* room in the allocation counters for one more allocation *)
Lemma alloc_room v U X h size :
  VamInvU c v U X -> AInv v X -> size < 2 ^ 39 ->
  BudgetProofs.sum (allocs_truth v X) h + size < 9223372036854775808 /\ cnt (allocs_truth v X) h + 1 < 2147483648.
Proof.
  intros HI [A B _ _] Hs. pose proof (allocs_bound v U X _ HI A) as F. pose proof (allocs_truth_len v X) as Hl.
  pose proof (sum_le_len _ h (2 ^ 39) F ltac:(lia)) as H1. pose proof (cnt_le_len (allocs_truth v X) h) as H2.
  assert (0 <= len (allocs_truth v X)) by (unfold len; lia).
  assert (len (allocs_truth v X) * 2 ^ 39 <= 4194304 * 2 ^ 39) by (apply Z.mul_le_mono_nonneg_r; lia).
  split; lia.
Qed.

(* ---------------------------------------------------------------- the functions that touch the budget *)

Lemma AM_build v v' X m' : MB m' (allocs_truth v X) -> v_m v' = m' -> v_tab v' = v_tab v -> m_res m' = m_res (v_m v) -> res_ok (v_m v) -> AM v' X.
Proof.
  intros A Em Et Er D. split; [rewrite Em, (allocs_truth_tab _ _ _ Et); exact A|]. rewrite Em. unfold res_ok in *. rewrite Er. exact D.
Qed.

(* CreateBlock *)
Lemma create_block_AM v X lr size :
  AM v X -> 0 <= size < 2 ^ 62 ->
  let '(v', r) := create_block c v lr size in
  match r with PANIC => False | _ => AM v' X end.
Proof.
  intros (A & D) Hs. unfold create_block. destruct (get_blist v lr) as [l|]; [|split; assumption].
  pose proof (alloc_vk_MB (v_m v) _ (bl_type l) size 0 A Hs) as K.
  destruct (alloc_vk c (v_m v) (bl_type l) size 0) as (m1 & r). destruct r as [mem|code| |]; auto.
  - destruct K as (K1 & _ & K3). eapply AM_build; [exact K1|rewrite set_blist_m; reflexivity|rewrite set_blist_tab; reflexivity|exact K3|exact D].
  - destruct K as (K1 & K3). eapply AM_build; [exact K1|reflexivity|reflexivity|exact K3|exact D].
  - contradiction.
Qed.

(* deviceMemoryBlock.Destroy of a block whose memory object is live with the block's type and size *)
Lemma destroy_block_AM v X ty b d :
  AM v X -> find_mem (m_mems (v_m v)) (bk_mem b) = Some d ->
  type_heap c ty = type_heap c (dm_type d) -> meta_size (bk_meta b) = dm_size d ->
  let '(v', r) := destroy_block c v ty b in
  match r with
  | OK _ => AM v' X /\ m_mems (v_m v') = remove_mem (m_mems (v_m v)) (bk_mem b) /\ v_tab v' = v_tab v
  | ER _ => v' = v
  | _ => False
  end.
Proof.
  intros (A & D) Hf Hty Hsz. unfold destroy_block. destruct (negb (meta_is_empty (bk_meta b))); [reflexivity|].
  pose proof (free_vk_MB (v_m v) _ ty (meta_size (bk_meta b)) (bk_mem b) d A Hf Hty Hsz) as K.
  destruct (free_vk c (v_m v) ty (meta_size (bk_meta b)) (bk_mem b)) as (m1 & r).
  destruct K as (-> & K1 & K2 & K3 & _). split; [|split; [exact K2|reflexivity]].
  eapply AM_build; [exact K1|reflexivity|reflexivity|exact K3|exact D].
Qed.

Lemma put_block_m v lr b : v_m (put_block v lr b) = v_m v.
Proof using. unfold put_block. destruct (get_blist v lr); [apply set_blist_m|reflexivity]. Qed.
Lemma put_block_tab v lr b : v_tab (put_block v lr b) = v_tab v.
Proof using. unfold put_block. destruct (get_blist v lr); [apply set_blist_tab|reflexivity]. Qed.

Lemma get_alloc_set_same v s a : 0 <= s < zlen (v_tab v) -> get_alloc (set_alloc v s a) s = a.
Proof using. intros H. unfold get_alloc, set_alloc. cbn. rewrite nth_z_set_same by auto. reflexivity. Qed.
Lemma get_alloc_set_other v s a s' : s' <> s -> get_alloc (set_alloc v s a) s' = get_alloc v s'.
Proof using. intros H. unfold get_alloc, set_alloc. cbn. rewrite nth_z_set_other by congruence. reflexivity. Qed.
Lemma zlen_set_alloc v s a : zlen (v_tab (set_alloc v s a)) = zlen (v_tab v).
Proof using. unfold set_alloc, zlen. cbn. rewrite set_nth_z_length. reflexivity. Qed.

(* a slot that does not count is rewritten with something that does not count *)
Lemma allocs_truth_set_dead v X s a :
  contrib v X s = [] -> (a_allocated a = false \/ In s X) -> allocs_truth (set_alloc v s a) X = allocs_truth v X.
Proof.
  intros H0 Ha. apply allocs_truth_ext; [apply zlen_set_alloc|]. intros s' Hs'. destruct (Z.eq_dec s' s) as [->|Hne].
  - rewrite H0. destruct Ha as [Ha|Ha]; [apply contrib_dead; rewrite get_alloc_set_same; auto|apply contrib_X; auto].
  - apply contrib_same; [apply get_alloc_set_other; auto|tauto].
Qed.

(* a slot that did not count becomes an allocation *)
Lemma allocs_truth_set_live v X s a :
  0 <= s < zlen (v_tab v) -> contrib v X s = [] -> a_allocated a = true -> ~ In s X ->
  Permutation (allocs_truth (set_alloc v s a) X) ((type_heap c (a_type a), a_size a) :: allocs_truth v X).
Proof.
  intros Hs H0 Ha HX. apply allocs_truth_add with (s := s); auto.
  - apply zlen_set_alloc.
  - intros s' _ Hne. apply contrib_same; [apply get_alloc_set_other; auto|tauto].
  - rewrite contrib_live; [rewrite get_alloc_set_same by auto; reflexivity|rewrite get_alloc_set_same by auto; auto|auto].
Qed.

(* allocFromBlock + commitAllocationRequest *)
Lemma alloc_from_block_AM v U X lr bid size align flags sub s :
  AInv v X -> VamInvU c v U X -> Bits.pow2 align -> 0 <= s < zlen (v_tab v) -> a_allocated (get_alloc v s) = false ->
  let '(v', r) := alloc_from_block c v lr bid size align flags sub s in
  match r with AFPanic | AFStuck => True | _ => AM v' X end.
Proof.
  intros HA HI Hal Hs Hdead. pose proof (AInv_AM _ _ HA) as HM. unfold alloc_from_block.
  destruct (get_block v lr bid) as [b|] eqn:Hgb; [|exact I].
  destruct (negb (meta_may_have_free (bk_meta b) sub size)); [exact HM|].
  destruct (get_block_in _ _ _ _ Hgb) as (l & Hg & Hb & Hbid).
  pose proof (vi_lists _ _ _ _ HI _ _ Hg) as Hwf. pose proof (bw_nodup _ _ Hwf) as Hnd.
  pose proof (bw_meta _ _ Hwf) as Hmeta. rewrite Forall_forall in Hmeta. pose proof (Hmeta _ Hb) as Hmi.
  destruct (meta_create_request (bk_meta b) size align (fl flags F_UPPER) sub (strategy_of flags)) as [mt1 rq| | |] eqn:Hrq; try exact I; try exact HM.
  pose proof (meta_alloc_spec _ _ _ _ _ _ _ _ s Hmi Hal Hrq) as Hma.
  set (b1 := mkBlock (bk_id b) (bk_mem b) (bk_sm b) mt1).
  destruct (put_block_lookup v lr l b b1 Hg Hnd Hb eq_refl) as (Hg1 & Hb1 & Hgb1).
  set (v1 := put_block v lr b1) in *.
  assert (Em1 : v_m v1 = v_m v) by apply put_block_m. assert (Et1 : v_tab v1 = v_tab v) by apply put_block_tab.
  unfold commit_request. cbn [bk_id b1] in Hgb1. rewrite Hbid in Hgb1. rewrite Hg1, Hgb1.
  pose proof (sm_sub_sameA (v_m v1) (bk_mem b1) (bk_sm b1)) as Hsub.
  destruct (sm_sub (v_m v1) (bk_mem b1) (bk_sm b1)) as (m1 & s1). cbn [fst] in Hsub.
  assert (Hmap : forall m2 s2 (mr : out unit), (if fl flags F_MAPPED then sm_map c m1 (bk_mem b1) s1 else (m1, s1, OK tt)) = (m2, s2, mr) -> mach_sameA m1 m2).
  { intros m2 s2 mr E. destruct (fl flags F_MAPPED).
    - pose proof (sm_map_sameA m1 (bk_mem b1) s1) as H. rewrite E in H. exact H.
    - injection E as <- _ _. apply mach_sameA_refl. }
  destruct (if fl flags F_MAPPED then sm_map c m1 (bk_mem b1) s1 else (m1, s1, OK tt)) as ((m2 & s2) & mr) eqn:Emap.
  specialize (Hmap _ _ _ eq_refl). pose proof (mach_sameA_trans _ _ _ Hsub Hmap) as Hm12. rewrite Em1 in Hm12.
  set (v2 := put_block (set_m v1 m2) lr (mkBlock (bk_id b1) (bk_mem b1) s2 (bk_meta b1))).
  assert (Em2 : v_m v2 = m2) by (unfold v2; rewrite put_block_m; reflexivity).
  assert (Et2 : v_tab v2 = v_tab v) by (unfold v2; rewrite put_block_tab; exact Et1).
  assert (HM2 : AM v2 X) by (eapply AM_tab; [exact HM|exact Et2|rewrite Em2; exact Hm12]).
  destruct mr as [[]|code| |]; try exact I; try exact HM2.
  set (v3 := set_alloc v2 s (alloc_init (mapping_allowed flags))).
  assert (Hc0 : contrib v2 X s = []).
  { apply contrib_dead. unfold get_alloc. rewrite Et2. exact Hdead. }
  assert (HM3 : AM v3 X).
  { destruct HM2 as (A2 & D2). split; [|exact D2]. unfold v3. rewrite (allocs_truth_set_dead v2 X s (alloc_init (mapping_allowed flags)) Hc0 (or_introl eq_refl)). exact A2. }
  cbn [bk_meta b1 bk_id bk_mem] in *.
  destruct (meta_alloc mt1 rq sub s size align) as [(mt2 & h)|code| |] eqn:Ema; try exact I; try exact HM3.
  destruct Hma as (Hmi2 & Hsz2 & off & la & lb & Hla & Hlb).
  destruct (fl flags F_MAPPED && negb (mapping_allowed flags)); [exact I|].
  (* the new allocation *)
  set (a := mkAlloc true 1 (mreq_size rq) align (bl_type l) sub (fl flags F_MAPPED) (mapping_allowed flags) lr bid h (bk_mem b) SyncMem.sm_init false).
  set (v4 := put_block v3 lr (mkBlock (bk_id b) (bk_mem b) s2 mt2)).
  assert (Hsize : 0 < mreq_size rq < 2 ^ 39).
  { destruct (meta_live_sound _ Hmi2) as (Hsd & _).
    destruct (Hsd (new_region h off (mreq_size rq) s align)) as (H0 & H1 & H2 & _); [rewrite Hlb; apply in_app_iff; right; left; reflexivity|].
    cbn in H0, H1, H2. destruct (vi_block_mem _ _ _ _ HI _ _ _ Hg Hb) as (d & Hf & _ & Hd).
    pose proof (mem_size_bound _ _ d (proj1 HM) (proj1 (find_mem_in _ _ _ Hf))). lia. }
  assert (HnotX : ~ In s X).
  { intros Hin. destruct (vi_dang _ _ _ _ HI _ Hin) as (a1 & H1 & _). rewrite (get_alloc_slot _ _ _ H1) in Hdead. destruct H1. congruence. }
  destruct (alloc_room v U X (type_heap c (bl_type l)) (mreq_size rq) HI HA ltac:(lia)) as (R1 & R2).
  assert (Em4 : v_m (set_alloc v4 s a) = m2) by (unfold v4; cbn [set_alloc set_tab v_m]; rewrite put_block_m; unfold v3; cbn; exact Em2).
  change (bl_type (set_blocks l (replace_block (bl_blocks l) b1))) with (bl_type l). fold a. fold v4.
  rewrite Em4. split.
  - cbn [set_m v_m].
    assert (Ht : allocs_truth (set_m (set_alloc v4 s a) (add_allocation c m2 (type_heap c (bl_type l)) (mreq_size rq))) X = allocs_truth (set_alloc v2 s a) X).
    { apply allocs_truth_ext.
      - cbn [set_m v_tab]. rewrite !zlen_set_alloc. unfold v4. rewrite put_block_tab. unfold v3. rewrite zlen_set_alloc. reflexivity.
      - intros s' _. apply contrib_same; [|tauto]. unfold get_alloc. cbn [set_m v_tab set_alloc set_tab]. unfold v4. rewrite put_block_tab. unfold v3. cbn [set_alloc set_tab v_tab].
        destruct (Z.eq_dec s' s) as [->|Hne].
        + assert (Hr : 0 <= s < zlen (v_tab v2)) by (rewrite Et2; auto).
          rewrite !nth_z_set_same; auto. unfold zlen. rewrite set_nth_z_length. exact Hr.
        + rewrite !nth_z_set_other by congruence. reflexivity. }
    rewrite Ht. eapply MB_perm; [apply add_allocation_MB; [eapply MB_same; [exact (proj1 HM)|exact Hm12]|lia|exact R1|exact R2]|].
    apply Permutation_sym. rewrite <- (allocs_truth_tab v v2 X Et2).
    apply (allocs_truth_set_live v2 X s a); auto. rewrite Et2. exact Hs.
  - cbn [set_m v_m]. unfold add_allocation. destruct (Budget.add_alloc _ _ _ _) as ((b' & r0) & cs). cbn. apply (proj2 (proj2 Hm12)). exact (proj2 HM).
Qed.

Lemma replace_block_cases bs nb x : In x (replace_block bs nb) -> x = nb \/ In x bs.
Proof using.
  induction bs as [|y bs IH]; cbn; [intros []|]. destruct (bk_id y =? bk_id nb); cbn.
  - intros [<-|H]; auto.
  - intros [<-|H]; auto. destruct (IH H); auto.
Qed.

(* moving an allocated slot into the released set takes its contribution out *)
Lemma allocs_truth_release v X s a :
  slot_is v s a -> ~ In s X ->
  Permutation (allocs_truth v X) ((type_heap c (a_type a), a_size a) :: allocs_truth v (s :: X)).
Proof.
  intros Sa HX. apply allocs_truth_add with (s := s); auto.
  - eapply slot_is_range; eauto.
  - intros s' _ Hne. apply contrib_same; [reflexivity|]. cbn. split; [auto|]. intros [E|H]; [congruence|auto].
  - apply contrib_X. left. reflexivity.
  - rewrite contrib_live; [rewrite (get_alloc_slot _ _ _ Sa); reflexivity|rewrite (get_alloc_slot _ _ _ Sa); apply Sa|auto].
Qed.

(* the end of freeWithLock / free: the block to delete (if any) is destroyed, then RemoveAllocation *)
Lemma bl_free_tail_AM v3 X s a ty (toDelete : option block) :
  AM v3 X -> slot_is v3 s a -> ~ In s X ->
  (forall db, toDelete = Some db -> exists d, find_mem (m_mems (v_m v3)) (bk_mem db) = Some d /\
       type_heap c ty = type_heap c (dm_type d) /\ meta_size (bk_meta db) = dm_size d) ->
  let '(v4, dr) :=
      match toDelete with
      | None => (v3, OK tt)
      | Some db =>
        match destroy_block c v3 ty db with
        | (v', OK _) => (v', OK tt)
        | (v', STUCK) => (v', STUCK)
        | (v', _) => (v', PANIC)
        end
      end in
  match dr with
  | OK _ =>
    let '(m5, rr) := remove_allocation c (v_m v4) (type_heap c (a_type a)) (a_size a) in
    match rr with OK _ => AM (set_m v4 m5) (s :: X) | ER _ => False | _ => True end
  | _ => True
  end.
Proof.
  intros HM Sa HX Hdel.
  assert (Hrem : forall v4, AM v4 X -> v_tab v4 = v_tab v3 ->
            let '(m5, rr) := remove_allocation c (v_m v4) (type_heap c (a_type a)) (a_size a) in
            match rr with OK _ => AM (set_m v4 m5) (s :: X) | ER _ => False | _ => True end).
  { intros v4 (A4 & D4) Et. assert (Sa4 : slot_is v4 s a) by (unfold slot_is in *; rewrite Et; exact Sa).
    pose proof (remove_allocation_MB (v_m v4) _ (allocs_truth v4 (s :: X)) _ _ A4 (allocs_truth_release v4 X s a Sa4 HX)) as R.
    destruct (remove_allocation c (v_m v4) (type_heap c (a_type a)) (a_size a)) as (m5 & rr).
    destruct R as (-> & R1 & _ & R3). split; [exact R1|]. cbn. unfold res_ok in *. rewrite R3. exact D4. }
  destruct toDelete as [db|]; [|apply Hrem; auto].
  destruct (Hdel db eq_refl) as (d & Hf & Hty & Hsz).
  pose proof (destroy_block_AM v3 X ty db d HM Hf Hty Hsz) as K.
  destruct (destroy_block c v3 ty db) as (v' & r). destruct r as [[]|code| |]; try exact I; try contradiction.
  destruct K as (K1 & _ & K3). apply Hrem; auto.
Qed.

(* memoryBlockList.free *)
Lemma bl_free_AM v U X s a keep :
  AInv v X -> VamInvU c v U X -> slot_is v s a -> ~ In s X -> a_kind a = 1 ->
  let '(v', r) := bl_free c v (a_lref a) s keep in
  match r with
  | OK _ => AM v' (s :: X)
  | ER _ => AM v' X
  | _ => True
  end.
Proof.
  intros HA HI Hsl HnX Hk. pose proof (AInv_AM _ _ HA) as HM. unfold bl_free. rewrite (get_alloc_slot _ _ _ Hsl).
  destruct (vi_slots _ _ _ _ HI s a Hsl HnX) as [(_ & l & b & rg & Hg & Hb & Hid & Hrg & Hh & Htag & _ & _ & _ & Hty)|(K & _)]; [|congruence].
  pose proof (vi_lists _ _ _ _ HI _ _ Hg) as Hwf. pose proof (bw_nodup _ _ Hwf) as Hnd.
  pose proof (bw_meta _ _ Hwf) as Hmeta. rewrite Forall_forall in Hmeta. pose proof (Hmeta _ Hb) as Hmi.
  assert (Hgb : get_block v (a_lref a) (a_blk a) = Some b).
  { unfold get_block. rewrite Hg, <- Hid. apply in_find_block; auto. }
  rewrite Hg, Hgb.
  pose proof (heap_budget_sameA (v_m v) (type_heap c (bl_type l))) as Hbud.
  destruct (heap_budget c (v_m v) (type_heap c (bl_type l))) as ((m1 & usage) & budget). cbn [fst] in Hbud.
  assert (Hun : forall m2 s2 (ur : out unit), (if a_persist a then sm_unmap m1 (bk_mem b) (bk_sm b) else (m1, bk_sm b, OK tt)) = (m2, s2, ur) -> mach_sameA m1 m2).
  { intros m2 s2 ur E. destruct (a_persist a).
    - pose proof (sm_unmap_sameA m1 (bk_mem b) (bk_sm b)) as H. rewrite E in H. exact H.
    - injection E as <- _ _. apply mach_sameA_refl. }
  destruct (if a_persist a then sm_unmap m1 (bk_mem b) (bk_sm b) else (m1, bk_sm b, OK tt)) as ((m2 & s2) & ur) eqn:Eun.
  specialize (Hun _ _ _ eq_refl). pose proof (mach_sameA_trans _ _ _ Hbud Hun) as Hm02.
  set (v2 := put_block (set_m v m2) (a_lref a) (mkBlock (bk_id b) (bk_mem b) s2 (bk_meta b))).
  assert (Em2 : v_m v2 = m2) by (unfold v2; rewrite put_block_m; reflexivity).
  assert (Et2 : v_tab v2 = v_tab v) by (unfold v2; rewrite put_block_tab; reflexivity).
  assert (HM2 : AM v2 X) by (eapply AM_tab; [exact HM|exact Et2|rewrite Em2; exact Hm02]).
  destruct ur as [[]|code| |]; [|exact HM2|exact I|exact I].
  destruct (meta_free_spec (bk_meta b) (a_handle a) Hmi (ex_intro _ rg (conj Hrg Hh))) as (mt' & Hfree & Hmi' & Hsz' & _).
  rewrite Hfree.
  pose proof (sm_sub_sameA (v_m v2) (bk_mem b) s2) as Hsub.
  destruct (sm_sub (v_m v2) (bk_mem b) s2) as (m3 & s3). cbn [fst] in Hsub. rewrite Em2 in Hsub.
  pose proof (mach_sameA_trans _ _ _ Hm02 Hsub) as Hm03.
  set (b' := mkBlock (bk_id b) (bk_mem b) s3 mt').
  set (bs3 := replace_block (bl_blocks l) b').
  match goal with |- context [if ?cnd then (remove_block bs3 (bk_id b'), Some b') else ?rest] =>
    destruct (if cnd then (remove_block bs3 (bk_id b'), Some b') else rest) as (bs4 & toDelete) eqn:Etd end.
  assert (Hdel : forall db, toDelete = Some db -> db = b' \/ In db bs3).
  { intros db ->. revert Etd. match goal with |- (if ?cnd then _ else _) = _ -> _ => destruct cnd end.
    - intros E; injection E as _ <-; auto.
    - match goal with |- (if ?cnd then _ else _) = _ -> _ => destruct cnd end; [|intros E; discriminate].
      destruct (rev bs3) as [|lastb rest] eqn:Erev; [intros E; discriminate|].
      destruct (meta_is_empty (bk_meta lastb)); [|intros E; discriminate].
      intros E; injection E as _ <-. right. apply in_rev. rewrite Erev. left. reflexivity. }
  set (v3 := set_blist (set_m v2 m3) (a_lref a) (incrementally_sort (set_blocks l bs4))).
  assert (Em3 : v_m v3 = m3) by (unfold v3; rewrite set_blist_m; reflexivity).
  assert (Et3 : v_tab v3 = v_tab v) by (unfold v3; rewrite set_blist_tab; exact Et2).
  assert (HM3 : AM v3 X) by (eapply AM_tab; [exact HM|exact Et3|rewrite Em3; exact Hm03]).
  assert (Sa3 : slot_is v3 s a) by (unfold slot_is in *; rewrite Et3; exact Hsl).
  pose proof (bl_free_tail_AM v3 X s a (bl_type l) toDelete HM3 Sa3 HnX) as T.
  match type of T with ?P -> _ => assert (HP : P) end.
  { intros db Hdb.
    assert (Hsrc : exists b0, In b0 (bl_blocks l) /\ bk_mem db = bk_mem b0 /\ meta_size (bk_meta db) = meta_size (bk_meta b0)).
    { destruct (Hdel db Hdb) as [->|Hin]; [exists b; cbn; auto|].
      destruct (replace_block_cases _ _ _ Hin) as [->|Hin']; [exists b; cbn; auto|exists db; auto]. }
    destruct Hsrc as (b0 & Hb0 & Emem & Esz).
    destruct (vi_block_mem _ _ _ _ HI _ _ _ Hg Hb0) as (d & Hf & Hdt & Hds).
    destruct (mems_same_find _ _ _ _ (proj1 (proj1 Hm03)) Hf) as (d' & Hf' & Hk').
    unfold mem_key in Hk'. injection Hk' as _ K2 K3.
    exists d'. rewrite Em3, Emem. split; [exact Hf'|]. split; [rewrite K2, Hdt; reflexivity|rewrite K3, Esz; auto]. }
  specialize (T HP). rewrite Hty in T.
  destruct toDelete as [db|].
  - destruct (destroy_block c v3 (bl_type l) db) as (v4 & r0). destruct r0 as [[]|code| |]; try exact I.
    destruct (remove_allocation c (v_m v4) (type_heap c (bl_type l)) (a_size a)) as (m5 & rr).
    destruct rr as [[]|code| |]; try exact I; [exact T|contradiction].
  - destruct (remove_allocation c (v_m v3) (type_heap c (bl_type l)) (a_size a)) as (m5 & rr).
    destruct rr as [[]|code| |]; try exact I; [exact T|contradiction].
Qed.

(* marking a released slot unallocated *)
Lemma AM_unmark v X s a' : AM v (s :: X) -> a_allocated a' = false -> AM (set_alloc v s a') X.
Proof.
  intros (A & D) Ha. split; [|exact D]. cbn [set_alloc set_tab v_m].
  replace (allocs_truth (set_alloc v s a') X) with (allocs_truth v (s :: X)); [exact A|]. symmetry.
  apply allocs_truth_ext; [apply zlen_set_alloc|]. intros s' Hs'. destruct (Z.eq_dec s' s) as [->|Hne].
  - rewrite contrib_dead by (rewrite get_alloc_set_same; auto). symmetry. apply contrib_X. left. reflexivity.
  - apply contrib_same; [apply get_alloc_set_other; auto|]. cbn. split; [auto|]. intros [E|H]; [congruence|auto].
Qed.

(* the memory object of a dedicated allocation is freed and the allocation leaves the counters *)
Lemma ded_release_AM v X s a d :
  AM v X -> slot_is v s a -> ~ In s X ->
  find_mem (m_mems (v_m v)) (a_mem a) = Some d -> dm_type d = a_type a -> dm_size d = a_size a ->
  let '(m1, fr) := free_vk c (v_m v) (a_type a) (a_size a) (a_mem a) in
  fr = OK tt /\
  let '(m2, rr) := remove_allocation c m1 (type_heap c (a_type a)) (a_size a) in
  rr = OK tt /\ AM (set_m v m2) (s :: X) /\ m_mems m2 = remove_mem (m_mems (v_m v)) (a_mem a).
Proof.
  intros (A & D) Sa HX Hf Hdt Hds.
  pose proof (free_vk_MB (v_m v) _ (a_type a) (a_size a) (a_mem a) d A Hf ltac:(rewrite Hdt; reflexivity) (eq_sym Hds)) as K.
  destruct (free_vk c (v_m v) (a_type a) (a_size a) (a_mem a)) as (m1 & fr). destruct K as (-> & K1 & K2 & K3 & _).
  split; [reflexivity|].
  pose proof (remove_allocation_MB m1 _ (allocs_truth v (s :: X)) _ _ K1 (allocs_truth_release v X s a Sa HX)) as R.
  destruct (remove_allocation c m1 (type_heap c (a_type a)) (a_size a)) as (m2 & rr).
  destruct R as (-> & R1 & R2 & R3). split; [reflexivity|]. split.
  - split; [exact R1|]. cbn. unfold res_ok in *. rewrite R3, K3. exact D.
  - rewrite R2. exact K2.
Qed.

(* allocateDedicatedMemoryPage *)
Lemma ded_page_AM v U X lr ty size sub doMap allowed s ded :
  AInv v X -> VamInvU c v U X -> 0 <= size < 2 ^ 62 ->
  0 <= s < zlen (v_tab v) -> a_allocated (get_alloc v s) = false ->
  let '(v', r) := allocate_dedicated_page c v lr ty size sub doMap allowed s ded in
  match r with OK _ | ER _ => AM v' X | _ => True end.
Proof.
  intros HA HI Hsz Hs Hdead. pose proof (AInv_AM _ _ HA) as (A & D). unfold allocate_dedicated_page.
  pose proof (alloc_vk_MB (v_m v) _ ty size ded A Hsz) as K.
  pose proof (alloc_vk_spec c (v_m v) ty size ded (vi_dev_pos _ _ _ _ HI)) as SP.
  destruct (alloc_vk c (v_m v) ty size ded) as (m1 & r). destruct r as [mem|code| |]; try exact I.
  2:{ destruct K as (K1 & K3). eapply AM_build; [exact K1|reflexivity|reflexivity|exact K3|exact D]. }
  destruct K as (K1 & K2 & K3). destruct SP as (S1 & S2 & _ & S4 & _).
  assert (Hmap : forall m2 s2 (mr : out unit), (if doMap then sm_map c m1 mem SyncMem.sm_init else (m1, SyncMem.sm_init, OK tt)) = (m2, s2, mr) -> mach_sameA m1 m2).
  { intros m2 s2 mr E. destruct doMap.
    - pose proof (sm_map_sameA m1 mem SyncMem.sm_init) as H. rewrite E in H. exact H.
    - injection E as <- _ _. apply mach_sameA_refl. }
  destruct (if doMap then sm_map c m1 mem SyncMem.sm_init else (m1, SyncMem.sm_init, OK tt)) as ((m2 & s2) & mr) eqn:Emap.
  specialize (Hmap _ _ _ eq_refl). pose proof (MB_same _ _ _ K1 Hmap) as K1'.
  assert (D2 : res_ok m2) by (apply (proj2 (proj2 Hmap)); unfold res_ok in *; rewrite K3; exact D).
  assert (Hfm : find_mem (m_mems m1) mem = Some (mkDmem mem ty size false)).
  { rewrite K2, find_mem_app.
    destruct (find_mem (m_mems (v_m v)) mem) as [x|] eqn:E; [|cbn; rewrite Z.eqb_refl; reflexivity].
    destruct (find_mem_in _ _ _ E) as (Hx & Hid). pose proof (vi_dev_next _ _ _ _ HI) as Hn. rewrite Forall_forall in Hn. specialize (Hn x Hx). lia. }
  destruct mr as [[]|code| |]; try exact I.
  - destruct (SyncMem.mapped s2 && negb allowed); [exact I|].
    set (a := mkAlloc true 2 size 0 ty sub (SyncMem.mapped s2) allowed lr (-1) 0 mem s2 false).
    assert (Hsize : 0 < size < 2 ^ 39).
    { pose proof (mem_size_bound m1 _ _ K1 (proj1 (find_mem_in _ _ _ Hfm))) as H. cbn in H. exact H. }
    assert (HnotX : ~ In s X).
    { intros Hin. destruct (vi_dang _ _ _ _ HI _ Hin) as (a1 & H1 & _). rewrite (get_alloc_slot _ _ _ H1) in Hdead. destruct H1. congruence. }
    destruct (alloc_room v U X (type_heap c ty) size HI HA ltac:(lia)) as (R1 & R2).
    cbn [set_alloc set_tab set_m v_m]. split.
    + eapply MB_perm; [apply add_allocation_MB; [exact K1'|lia|exact R1|exact R2]|].
      apply Permutation_sym.
      replace (allocs_truth _ X) with (allocs_truth (set_alloc v s a) X) by reflexivity.
      apply (allocs_truth_set_live v X s a); auto. apply contrib_dead. exact Hdead.
    + unfold add_allocation. destruct (Budget.add_alloc _ _ _ _) as ((b' & r0) & cs). exact D2.
  - (* the mapping failed: the object is freed again *)
    destruct (mems_same_find _ _ _ _ (proj1 (proj1 Hmap)) Hfm) as (d' & Hf' & Hk'). unfold mem_key in Hk'. cbn in Hk'. injection Hk' as _ Kt Ks.
    pose proof (free_vk_MB m2 _ ty size mem d' K1' Hf' ltac:(rewrite Kt; reflexivity) (eq_sym Ks)) as F.
    destruct (free_vk c m2 ty size mem) as (m3 & fr). destruct F as (-> & F1 & _ & F3 & _).
    eapply AM_build; [exact F1|reflexivity|reflexivity| |exact D].
    rewrite F3. clear - Hmap K3 Emap. destruct doMap.
    + unfold sm_map in Emap. destruct (dev_map c m1 mem) as (mm & code0) eqn:Edm. destruct (SyncMem.do_map _ _ _) as ((s' & r') & cs').
      injection Emap as <- _ _. destruct cs'; [exact K3|]. rewrite <- K3.
      assert (m_res mm = m_res m1); [|auto].
      pose proof (f_equal fst Edm) as Ef. cbn in Ef. rewrite <- Ef. unfold dev_map. destruct (find_mem _ _); [|reflexivity].
      destruct (negb _); [reflexivity|]. destruct (_ <=? 0); [reflexivity|]. destruct (dev_fault _ _ _) as ((f1 & fired1) & r1). destruct (negb _); reflexivity.
    + injection Emap as <- _ _. exact K3.
Qed.

(* Destroy of all blocks of a list (block_list.Destroy): each block's memory object is live with the block's size *)
Lemma destroy_blocks_AM bs : forall v X ty,
  AM v X -> NoDup (map bk_mem bs) ->
  (forall b, In b bs -> exists d, find_mem (m_mems (v_m v)) (bk_mem b) = Some d /\
                                   type_heap c ty = type_heap c (dm_type d) /\ meta_size (bk_meta b) = dm_size d) ->
  let '(v', r) := destroy_blocks c v ty bs in
  match r with OK _ | ER _ => AM v' X | _ => False end.
Proof.
  induction bs as [|b tl IH]; intros v X ty HM Hnd Hall; cbn [destroy_blocks]; [exact HM|].
  inversion Hnd as [|? ? Hx Hnd']; subst.
  destruct (Hall b (or_introl eq_refl)) as (d & Hf & Hty & Hsz).
  pose proof (destroy_block_AM v X ty b d HM Hf Hty Hsz) as K.
  destruct (destroy_block c v ty b) as (v1 & r1). destruct r1 as [[]|code| |]; try contradiction.
  - destruct K as (K1 & K2 & K3). apply IH; auto.
    intros b2 Hb2. destruct (Hall b2 (or_intror Hb2)) as (d2 & Hf2 & H2). exists d2. split; [|exact H2].
    rewrite K2, find_remove_mem_other; [exact Hf2|]. intros E. apply Hx. rewrite <- E. apply in_map. exact Hb2.
  - subst v1. exact HM.
Qed.

(* a block taken out of its list is destroyed *)
Lemma remove_destroy_AM v U X lr l b :
  AM v X -> VamInvU c v U X -> get_blist v lr = Some l -> In b (bl_blocks l) ->
  forall l', let '(v', r) := destroy_block c (set_blist v lr l') (bl_type l) b in
  match r with OK _ | ER _ => AM v' X | _ => False end.
Proof.
  intros HM HI Hg Hb l'. destruct (vi_block_mem _ _ _ _ HI _ _ _ Hg Hb) as (d & Hf & Hdt & Hds).
  assert (HM1 : AM (set_blist v lr l') X).
  { eapply AM_tab; [exact HM|apply set_blist_tab|rewrite set_blist_m; apply mach_sameA_refl]. }
  pose proof (destroy_block_AM (set_blist v lr l') X (bl_type l) b d HM1) as K.
  rewrite set_blist_m in K. specialize (K Hf ltac:(rewrite Hdt; reflexivity) (eq_sym Hds)).
  destruct (destroy_block c (set_blist v lr l') (bl_type l) b) as (v' & r). destruct r as [[]|code| |]; auto.
  - apply K.
  - subst v'. exact HM1.
Qed.

(* vam.New *)
Lemma preferred_block_size_bound t : 0 <= preferred_block_size c t < 2 ^ 62.
Proof.
  unfold preferred_block_size. pose proof (heap_size_lt (type_heap c t)) as Hh.
  assert (Hh0 : 0 <= heap_size c (type_heap c t)).
  { unfold heap_size. destruct (nth_z (c_heaps c) (type_heap c t)) as [x|] eqn:E; [|lia].
    pose proof (co_heaps _ Hc) as F. rewrite Forall_forall in F. apply (F x). eapply nth_z_in; eauto. }
  set (raw := if heap_size c (type_heap c t) <=? 1073741824 then Z.quot (heap_size c (type_heap c t)) 8 else if c_large c =? 0 then 268435456 else c_large c).
  assert (Hraw : 0 <= raw < 2 ^ 61).
  { unfold raw. destruct (_ <=? 1073741824).
    - pose proof (Z.quot_pos (heap_size c (type_heap c t)) 8 Hh0 ltac:(lia)). assert (Z.quot (heap_size c (type_heap c t)) 8 <= heap_size c (type_heap c t)) by (apply Z.quot_le_upper_bound; lia). lia.
    - destruct (c_large c =? 0); lia. }
  assert (P32 : Bits.pow2 32) by (exists 5; split; [lia|reflexivity]).
  pose proof (Bits.align_up_bounds raw 32 P32) as ((B1 & B2) & _). lia.
Qed.

Lemma vam_new_AInv nslots v : vam_new c nslots = OK v -> Z.of_nat nslots <= 4194304 -> AInv v [].
Proof.
  unfold vam_new. destruct (negb _); [discriminate|]. destruct (negb _); [discriminate|].
  intros E Hn. injection E as <-. constructor.
  - cbn [v_m]. exists g0. cbn [set_bud m_bud m_mems]. unfold mems_truth. cbn [set_bud m_mems map].
    split; [apply binv_init|]. split; [apply lim0|]. split; [apply cnt0|]. split; [apply Permutation_refl|].
    split.
    + cbn [g0 g_allocs]. unfold allocs_truth. cbn [v_tab]. rewrite repeat_length.
      assert (F : forall n a, flat_map (contrib (mkVam (set_bud (mkMach [] 0 no_fault 0 bzero [] [] 0) (binit (bcfg_of c) (dev_report c (mkMach [] 0 no_fault 0 bzero [] [] 0))))
                   (Select.global_bits false (types_n c)) (init_lists c (Select.global_bits false (types_n c)) (length (c_types c)) 0)
                   (repeat [] (length (c_types c))) [] 0 1 (repeat alloc_zero nslots)) []) (slot_range a n) = []).
      { induction n as [|k IH]; intros a; cbn [slot_range flat_map]; [reflexivity|]. rewrite IH, app_nil_r.
        apply contrib_dead. unfold get_alloc. cbn [v_tab]. destruct (nth_z (repeat alloc_zero nslots) a) as [x|] eqn:Ex; [|reflexivity].
        apply nth_z_in in Ex. apply repeat_spec in Ex. subst. reflexivity. }
      rewrite F. apply Permutation_refl.
    + split; [|constructor]. intros h. cbn. unfold heap_size. destruct (nth_z (c_heaps c) h) as [x|] eqn:Ex; [|lia].
      pose proof (co_heaps _ Hc) as F. rewrite Forall_forall in F. apply (F x). eapply nth_z_in; eauto.
  - cbn [v_tab]. unfold zlen. rewrite repeat_length. exact Hn.
  - intros lr l Hg. destruct lr as [t|uid]; [|cbn in Hg; discriminate]. cbn in Hg.
    destruct (nth_z (init_lists c _ _ 0) t) as [[x|]|] eqn:E; try discriminate. injection Hg as ->.
    destruct (init_lists_spec c _ _ _ _ _ E) as (_ & ->). cbn [bl_pref]. apply preferred_block_size_bound.
  - unfold res_ok. cbn. constructor.
Qed.

End WithCfg.
