(* TlsfInv2Free.v — Free never panics on a live handle and preserves the second invariant. *)
From Coq Require Import ZArith NArith Lia List Bool.
From Arsenal Require Import Util Bits Gran Tlsf TlsfGeom TlsfInv1 TlsfFree TlsfAlloc TlsfStep SizeClass TlsfInv2.
Import ListNotations.
Open Scope Z_scope.

Lemma free_merge_prev_ok t0 b pre post :
  t_chain t0 = pre ++ b :: post -> chain_from 0 (t_chain t0) -> FLt t0 -> b_free b = false ->
  exists t1 m, free_merge_prev t0 b = Some (t1, m) /\ FLt t1.
Proof.
  intros Hc Hch HFL Hbf. unfold free_merge_prev. rewrite Hc in *.
  pose proof (below_of_chain _ _ _ _ Hch) as Hbel.
  destruct (list_last_split pre) as [->|(pre' & p & ->)].
  - cbn [app]. rewrite prev_blk_first by reflexivity. eauto.
  - rewrite prev_blk_app by auto.
    destruct (b_free p) eqn:Hpf; cbn [andb]; [|eauto].
    assert (Hps : 0 < b_size p).
    { apply chain_from_app in Hch. destruct Hch as (Hpre & _).
      apply chain_from_app in Hpre. destruct Hpre as (_ & Hp). cbn in Hp. lia. }
    destruct (Z.eqb_spec (b_size p) 0); [lia|]. cbn [negb].
    rewrite <- app_assoc in Hc, Hch. cbn [app] in Hc, Hch.
    pose proof (below_of_chain _ _ _ _ Hch) as Hbelp.
    destruct (remove_free_block_ok t0 p pre' (b :: post) HFL Hc Hbelp Hpf) as (t1' & -> & HFL1 & Hc1 & Hsr).
    eexists _, _. split; [reflexivity|].
    set (pt := set_blk p (b_off p) (b_size p) false None) in *.
    assert (Hchain1 : chain_from 0 (pre' ++ pt :: b :: post)).
    { apply chain_from_app in Hch. apply chain_from_app. cbn in *. tauto. }
    assert (Hbel' : below (b_off b) pre').
    { apply below_app in Hbel. tauto. }
    eapply FLt_ext; [| | | | | | |exact HFL1]; try reflexivity.
    cbn [with_chain t_chain]. rewrite Hc1.
    rewrite (remove_blk_app (b_off p) pre' pt (b :: post)) by auto.
    rewrite replace_blk_app by auto.
    rewrite !frees_app. cbn [frees filter set_blk b_free pt]. rewrite Hbf. reflexivity.
Qed.

Lemma free_merge_next_ok t1 m pre1 post :
  t_chain t1 = pre1 ++ m :: post -> geom t1 -> FLt t1 -> b_free m = false ->
  t_null t1 = free_blk (b_off (t_null t1)) (b_size (t_null t1)) ->
  exists t', free_merge_next t1 m = FOk t' /\ FLt t' /\
             t_null t' = free_blk (b_off (t_null t')) (b_size (t_null t')).
Proof.
  intros Hc [Hch Hnoff Hnsz Htot Hnfree] HFL Hmf Hnull. unfold free_merge_next.
  rewrite Hc in *.
  pose proof (below_of_chain _ _ _ _ Hch) as Hbel.
  rewrite next_blk_app by auto.
  assert (Hend : chain_end 0 (pre1 ++ m :: post) <= t_size t1) by lia.
  destruct post as [|nx post']; cbn [hd_error].
  - (* successor is the null block *)
    eexists. split; [reflexivity|]. split.
    + eapply FLt_ext; [| | | | | | |exact HFL]; try reflexivity.
      cbn [with_null with_chain t_chain]. rewrite Hc, remove_blk_app by auto.
      rewrite !frees_app. cbn [frees filter]. rewrite Hmf. reflexivity.
    + cbn [with_null t_null]. rewrite Hnull. reflexivity.
  - destruct (b_free nx) eqn:Hnf; cbn [negb].
    + (* free successor *)
      assert (Hc' : t_chain t1 = (pre1 ++ [m]) ++ nx :: post') by (rewrite Hc, <- app_assoc; reflexivity).
      assert (Hch' : chain_from 0 ((pre1 ++ [m]) ++ nx :: post')) by (rewrite <- app_assoc; exact Hch).
      pose proof (below_of_chain _ _ _ _ Hch') as Hbelnx.
      destruct (remove_free_block_ok t1 nx _ _ HFL Hc' Hbelnx Hnf) as (t2 & -> & HFL2 & Hc2 & Hsr2).
      cbn [bind_f].
      rewrite <- app_assoc in Hc2. cbn [app] in Hc2.
      set (nxt := set_blk nx (b_off nx) (b_size nx) false None) in *.
      set (mg := set_blk nx (b_off m) (b_size nx + b_size m) false None).
      assert (Hbelnx' : below (b_off nx) pre1) by (apply below_app in Hbelnx; tauto).
      assert (Hcc : replace_blk (b_off nx) mg (remove_blk (b_off m) (t_chain t2)) = pre1 ++ mg :: post').
      { rewrite Hc2. rewrite (remove_blk_app (b_off m) pre1 m (nxt :: post')) by auto.
        apply (replace_blk_app (b_off nx) mg pre1 nxt post'); auto. }
      rewrite Hcc.
      destruct (chain_merge 0 pre1 m nx post' mg Hch eq_refl ltac:(cbn; lia)) as (Hchm & Hendm).
      destruct (insert_side (t_size t1) pre1 mg post' Hchm ltac:(lia)) as (S1 & S2 & S3).
      destruct Hsr2 as (Hn2 & Hs2 & Hg2 & Ha2).
      assert (HFL2' : FLt (with_chain t2 (pre1 ++ mg :: post'))).
      { eapply FLt_ext; [| | | | | | |exact HFL2]; try reflexivity.
        cbn [with_chain t_chain]. rewrite Hc2. rewrite !frees_app. cbn [frees filter]. rewrite Hmf. reflexivity. }
      destruct (insert_free_block_ok _ mg pre1 post' HFL2' eq_refl S1 eq_refl S2) as (t3 & -> & HFL3 & Hc3 & Hsr3).
      { cbn [with_chain t_size]. rewrite Hs2. exact S3. }
      cbn [bind_f]. eexists. split; [reflexivity|]. split; [exact HFL3|].
      destruct Hsr3 as (Hn3 & _). rewrite Hn3. cbn [with_chain t_null]. rewrite Hn2. exact Hnull.
    + (* taken successor *)
      destruct (insert_side (t_size t1) pre1 m (nx :: post') Hch ltac:(lia)) as (S1 & S2 & S3).
      destruct (insert_free_block_ok t1 m pre1 (nx :: post') HFL Hc S1 Hmf S2 S3) as (t3 & -> & HFL3 & Hc3 & Hsr3).
      cbn [bind_f]. eexists. split; [reflexivity|]. split; [exact HFL3|].
      destruct Hsr3 as (Hn3 & _). rewrite Hn3. exact Hnull.
Qed.

Lemma livef_length_mid pre (b : blk) post :
  b_free b = false -> zlen (livef (pre ++ b :: post)) = zlen (livef pre ++ livef post) + 1.
Proof.
  intros H. rewrite livef_app. unfold livef at 2. cbn [filter]. rewrite H. cbn [negb].
  fold (livef post). rewrite !zlen_app, zlen_cons. lia.
Qed.

Theorem tlsf_free_ok t h b :
  TInv t -> Inv2 t -> find_blk h (t_chain t) = Some b -> b_free b = false ->
  exists t', tlsf_free t h = FOk t' /\ Inv2 t'.
Proof.
  intros [Hinv Hpg] [HFL Hac Hgt Hnull] Hfind Hbf.
  pose proof Hinv as [Hgeo Hgh Hnaf Hlast].
  destruct Hgeo as [Hch Hnoff Hnsz Htot Hnfree].
  destruct (find_blk_split _ _ _ Hfind) as (pre & post & Hc & Hoff & Hbel). subst h.
  assert (Hbb : 0 <= b_off b /\ 1 <= b_size b /\ b_off b + b_size b <= t_size t).
  { pose proof (chain_in_bounds _ _ b Hch ltac:(rewrite Hc; apply in_app_mid; auto)). lia. }
  destruct (free_regions_ok (t_gran t) (t_size t) (b_off b) (b_size b) Hpg Hgt) as (g' & Hfr & Hgh' & Hgg' & Hgl'); try lia.
  assert (Hex : exists t', tlsf_free t (b_off b) = FOk t' /\ FLt t' /\
                           t_null t' = free_blk (b_off (t_null t')) (b_size (t_null t'))).
  { unfold tlsf_free. rewrite Hfind, Hbf, Hfr.
    set (b1 := mkBlk (b_off b) (b_size b) false (b_tag b) 0 0 1).
    set (t0 := mkT _ _ _ _ _ _ _ _ _ _).
    assert (Hc0 : t_chain t0 = pre ++ b1 :: post).
    { unfold t0; cbn [t_chain]. rewrite Hc. apply replace_blk_app; auto. }
    assert (Hch0 : chain_from 0 (pre ++ b1 :: post)).
    { rewrite Hc in Hch. apply (chain_retag 0 pre b post b1 Hch); reflexivity. }
    assert (HFL0 : FLt t0).
    { eapply FLt_ext; [| | | | | | |exact HFL]; try reflexivity.
      rewrite Hc0, Hc. rewrite !frees_app. cbn [frees filter b1 b_free]. rewrite Hbf. reflexivity. }
    assert (Hgh0 : Forall gh_ok (pre ++ b1 :: post)).
    { rewrite Hc in Hgh. apply Forall_app in Hgh. destruct Hgh as (Hg1 & Hg2). inversion Hg2; subst.
      apply Forall_app. split; auto. constructor; auto. apply gh_ok_free_any. lia. }
    assert (Hnaf0 : naf false (pre ++ b1 :: post)).
    { unfold no_adj_free in Hnaf. rewrite Hc in Hnaf. apply naf_app in Hnaf. apply naf_app.
      cbn [naf b_free b1] in *. rewrite Hbf in Hnaf. exact Hnaf. }
    rewrite <- Hc0 in Hch0, Hgh0, Hnaf0.
    destruct (free_merge_prev_ok t0 b1 pre post Hc0 Hch0 HFL0 eq_refl) as (t1 & m & Hp1 & HFL1).
    rewrite Hp1.
    destruct (free_merge_prev_spec t0 b1 pre post t1 m Hc0 Hch0 Hgh0 Hnaf0 eq_refl eq_refl eq_refl Hp1)
      as (pre1 & Hc1 & Hmf & Hmra & Hmrs & Hch1 & Hend1 & Hgh1 & Hnpre1 & Hlpre1 & Hlive1 & Hn1 & Hs1 & Hg1 & Ha1).
    assert (Hgeo1 : geom t1).
    { constructor; auto.
      - rewrite Hn1. unfold t0; cbn [t_null]. rewrite Hnoff, Hc1, Hc.
        replace (pre1 ++ m :: post) with ((pre1 ++ [m]) ++ post) by (rewrite <- app_assoc; reflexivity).
        replace (pre ++ b :: post) with ((pre ++ [b]) ++ post) by (rewrite <- app_assoc; reflexivity).
        rewrite !(chain_end_app _ _ post). f_equal. rewrite Hend1.
        rewrite !chain_end_app. reflexivity.
      - rewrite Hn1. exact Hnsz.
      - rewrite Hn1, Hs1. exact Htot.
      - rewrite Hn1. exact Hnfree. }
    apply (free_merge_next_ok t1 m pre1 post Hc1 Hgeo1 HFL1 Hmf).
    rewrite Hn1. exact Hnull. }
  destruct Hex as (t' & Hfree & HFL' & Hnull'). exists t'. split; [exact Hfree|].
  destruct (tlsf_free_inv1 _ _ _ Hinv Hfree) as (Hinv' & Hs' & Ha' & (b0 & g0 & Hf0 & Hfr0 & Hg0) & pre2 & b2 & post2 & Hc2 & Ho2 & Hbf2 & Hlive2).
  constructor; auto.
  - rewrite Ha', Hac. rewrite !live_livef, Hlive2, Hc2. rewrite livef_length_mid by auto. lia.
  - rewrite Hs', Hg0. rewrite Hfind in Hf0. injection Hf0 as <-. rewrite Hfr in Hfr0. injection Hfr0 as <-.
    eapply gtab_ok_same; eauto.
Qed.

Corollary tlsf_free_inv2 t h t' : TInv t -> Inv2 t -> tlsf_free t h = FOk t' -> Inv2 t'.
Proof.
  intros HT HI Hfree. pose proof Hfree as Hfree'. unfold tlsf_free in Hfree'.
  destruct (find_blk h (t_chain t)) as [b|] eqn:Hf; [|discriminate].
  destruct (b_free b) eqn:Hbf; [discriminate|].
  destruct (tlsf_free_ok t h b HT HI Hf Hbf) as (t'' & E & HI'). congruence.
Qed.
