(* VamAcctThm.v — the accounting theorem: structural + accounting invariant over every API call with every
   fault oracle, and the properties that follow for all histories (C04 budget half, C11 limits). *)
From Coq Require Import ZArith List Bool Lia Permutation.
From Arsenal Require Import Util Budget BudgetProofs VamDev VamBlockList Vam VamInvMeta VamInv VamInvUpd VamInvDev.
From Arsenal Require Import VamInvStep VamInvStep2 VamInvThm VamProps VamAcct VamAcctStep VamAcctStep2.
Import ListNotations.
Open Scope Z_scope.

(* the domain of the budget counters (Budget.v: int64 / int32 arithmetic without overflow) *)
Record cfg_acct (c : vcfg) : Prop := mkCfgAcct {
  ca_ok : cfg_ok c;
  ca_max : 0 <= c_maxcount c < 2147483647;     (* maxMemoryAllocationCount *)
  ca_large : 0 <= c_large c < 2 ^ 61;          (* PreferredLargeHeapBlockSize *)
  ca_atom : 1 <= c_atom c                      (* nonCoherentAtomSize (a power of two >= 1 by the Vulkan specification) *)
}.

(* sizes handed to the allocator: below 2^62 *)
Definition op_dom (o : op) : Prop :=
  match o with
  | OAlloc _ size _ _ _ _ _ _ _ _ => size < 2 ^ 62
  | OAllocN _ _ size _ _ _ _ _ _ _ _ => size < 2 ^ 62
  | OMkPool _ _ blockSize _ _ _ => 0 <= blockSize < 2 ^ 62
  | OCreateBuf _ _ devreq _ _ _ _ _ _ _ _ => rq_size devreq < 2 ^ 62
  | OCreateImg _ _ _ devreq _ _ _ _ _ _ _ => rq_size devreq < 2 ^ 62
  | ORawCreate _ _ devreq => rq_size devreq < 2 ^ 62
  | _ => True
  end.

Section WithCfg.
Variable c : vcfg.
Hypothesis Ha : cfg_acct c.
Let Hc := ca_ok c Ha.
Let Hmax := ca_max c Ha.
Let Hlarge := ca_large c Ha.

Notation VamInvA := (VamAcctStep.VamInvA c).

Definition exec_postA (v v' : vam) (r : out unit) : Prop :=
  match r with PANIC | STUCK => True | _ => VamInvA v' [] [] /\ zlen (v_tab v') = zlen (v_tab v) end.

Lemma exec_invA v o : VamInvA v [] [] -> op_ok v o -> op_dom o -> let '(v', r) := exec c v o in exec_postA v v' r.
Proof.
  intros HI Hok Hd. destruct o; cbn [exec op_ok op_dom] in *.
  - pose proof (allocate_memory_inv c Hc Hmax Hlarge v [] slot size align typeBits usage flags req pref ctb pool HI Hd Hok) as P.
    destruct (allocate_memory c v slot size align typeBits usage flags req pref ctb pool) as (v' & r).
    destruct r as [[]|code| |]; cbn; auto; destruct P as (A & B & _); (split; [auto|eapply tab_frame_len; eauto]).
  - destruct Hok as (H0 & Hn).
    pose proof (allocate_memory_slice_inv c Hc Hmax Hlarge v [] slot n size align typeBits usage flags req pref ctb pool HI Hd H0 Hn) as P.
    destruct (allocate_memory_slice c v slot n size align typeBits usage flags req pref ctb pool) as (v' & r). cbn zeta in P.
    destruct r as [[]|code| |]; cbn; auto; destruct P as (A & B & _); (split; [auto|eapply tab_frame_len; eauto]).
  - pose proof (allocation_free_inv c Hc Hmax Hlarge v slot HI) as P. destruct (allocation_free c v slot) as (v' & r).
    destruct r as [[]|code| |]; cbn in *; auto; destruct P as (A & B); (split; [auto|eapply tab_frame_len; eauto]).
  - unfold free_allocation_slice. destruct (slot_range_nodup (Z.to_nat n) slot) as (Hnd & _).
    assert (Hlive : live_slots v [] (slot_range slot (Z.to_nat n))).
    { intros s Hs. split; [intros []|]. exists (get_alloc v s). apply get_alloc_allocated. auto. }
    pose proof (multi_free_inv c Hc Hmax Hlarge _ v [] HI Hnd Hlive) as P. destruct (multi_free c v _) as (v' & r).
    destruct r as [[]|code| |]; cbn; auto; destruct P as (A & B & _); (split; [auto|eapply tab_frame_len; eauto]).
  - pose proof (allocation_map_inv c Hc Hmax Hlarge v slot HI) as P. destruct (allocation_map c v slot) as (v' & r).
    destruct r as [[]|code| |]; cbn in *; auto; destruct P as (A & B & _); (split; [auto|eapply tab_frame_len; eauto]).
  - pose proof (allocation_unmap_inv c Hc Hmax Hlarge v slot HI) as P. destruct (allocation_unmap v slot) as (v' & r).
    destruct r as [[]|code| |]; cbn in *; auto; destruct P as (A & B & _); (split; [auto|eapply tab_frame_len; eauto]).
  - pose proof (allocation_flush_inv c Hc Hmax Hlarge v inval slot off size HI) as P. destruct (allocation_flush c v inval slot off size) as (v' & r).
    destruct r as [[]|code| |]; cbn in *; auto; destruct P as (A & B & _); (split; [auto|eapply tab_frame_len; eauto]).
  - pose proof (harness_rw_inv c Hc Hmax Hlarge v slot HI) as P. destruct (harness_rw c v slot) as (v' & r).
    destruct r as [[]|code| |]; cbn in *; auto; destruct P as (A & B & _); (split; [auto|eapply tab_frame_len; eauto]).
  - pose proof (create_pool_inv c Hc Hmax Hlarge v ty flags blockSize minB maxB minAlign HI Hd) as P.
    destruct (create_pool c v ty flags blockSize minB maxB minAlign) as (v' & r).
    destruct r as [[]|code| |]; cbn in *; auto; destruct P as (A & B); (split; [auto|eapply tab_frame_len; eauto]).
  - pose proof (rmpool_inv c Hc Hmax Hlarge v uid HI) as P. destruct (pool_destroy c v uid) as (v' & r).
    destruct r as [[]|code| |]; cbn in *; auto; destruct P as (A & B); (split; [auto|eapply tab_frame_len; eauto]).
  - pose proof (build_stats_string_inv c Hc Hmax Hlarge v HI) as P. destruct (build_stats_string c v) as (v' & r).
    destruct r as [[]|code| |]; cbn in *; auto; destruct P as (A & B); (split; [auto|eapply tab_frame_len; eauto]).
  - pose proof (allocator_destroy_inv c Hc Hmax Hlarge v HI) as P. destruct (allocator_destroy c v) as (v' & r).
    destruct r as [[]|code| |]; cbn in *; auto; destruct P as (A & B); (split; [auto|eapply tab_frame_len; eauto]).
  - pose proof (create_buffer_inv c Hc Hmax Hlarge v slot size devreq bufUsage minAlign usage flags req pref ctb pool HI Hd Hok) as P.
    destruct (create_buffer c v slot size devreq bufUsage minAlign usage flags req pref ctb pool) as (v' & r).
    destruct r as [[]|code| |]; cbn in *; auto; destruct P as (A & B); (split; [auto|eapply tab_frame_len; eauto]).
  - pose proof (create_image_inv c Hc Hmax Hlarge v slot tiling width devreq imgUsage usage flags req pref ctb pool HI Hd Hok) as P.
    destruct (create_image c v slot tiling width devreq imgUsage usage flags req pref ctb pool) as (v' & r).
    destruct r as [[]|code| |]; cbn in *; auto; destruct P as (A & B); (split; [auto|eapply tab_frame_len; eauto]).
  - pose proof (destroy_with_resource_inv c Hc Hmax Hlarge v slot image res HI) as P. destruct (destroy_with_resource c v slot image res) as (v' & r).
    destruct r as [[]|code| |]; cbn in *; auto; destruct P as (A & B); (split; [auto|eapply tab_frame_len; eauto]).
  - pose proof (allocate_for_resource_inv c Hc Hmax Hlarge v slot image res usage flags req pref ctb pool HI Hok) as P.
    destruct (allocate_for_resource c v slot image res usage flags req pref ctb pool) as (v' & r).
    destruct r as [[]|code| |]; cbn in *; auto; destruct P as (A & B); (split; [auto|eapply tab_frame_len; eauto]).
  - pose proof (bind_memory_inv c Hc Hmax Hlarge v slot image res off HI) as P. destruct (bind_memory v slot image res off) as (v' & r).
    destruct r as [[]|code| |]; cbn in *; auto; destruct P as (A & B); (split; [auto|eapply tab_frame_len; eauto]).
  - unfold raw_create. pose proof (dev_create_res_sameA c Hc Hmax Hlarge (v_m v) image kind devreq Hd) as H.
    destruct (dev_create_res (v_m v) image kind devreq) as ((m1 & code) & id). cbn [fst] in H.
    assert (P : VamInvA (set_m v m1) [] [] /\ zlen (v_tab (set_m v m1)) = zlen (v_tab v)) by (split; [apply (VamInvA_mach_same c Hc Hmax Hlarge); auto|reflexivity]).
    destruct (code =? 0); exact P.
  - unfold raw_destroy. cbn. split; [apply (VamInvA_mach_same c Hc Hmax Hlarge); [auto|apply (dev_destroy_res_sameA c Hc Hmax Hlarge)]|reflexivity].
Qed.

(* one API call, any fault oracle *)
Theorem step_preservesA v o f :
  VamInvA v [] [] -> op_ok v o -> op_dom o ->
  let '(v', r, calls) := step c v o f in
  r <> RPanic -> r <> RStuck -> VamInvA v' [] [] /\ zlen (v_tab v') = zlen (v_tab v).
Proof.
  intros HI Hok Hd. unfold step.
  set (v0 := set_m v (clear_calls (set_fault (v_m v) f 0))).
  assert (Hms : forall m ff n, mach_sameA c m (clear_calls (set_fault m ff n))).
  { intros m ff n. eapply (mach_sameA_trans c Hc Hmax Hlarge); [apply (mach_sameA_set_fault c Hc Hmax Hlarge)|apply (mach_sameA_clear c Hc Hmax Hlarge)]. }
  assert (I0 : VamInvA v0 [] []) by (apply (VamInvA_mach_same c Hc Hmax Hlarge); [exact HI|apply Hms]).
  assert (Hok0 : op_ok v0 o) by (destruct o; exact Hok).
  pose proof (exec_invA v0 o I0 Hok0 Hd) as E. destruct (exec c v0 o) as (v1 & r).
  intros Hp Hs. destruct r as [[]|code| |]; cbn in Hp, Hs; try congruence; cbn in E; destruct E as (A & B);
    (split; [apply (VamInvA_mach_same c Hc Hmax Hlarge); [exact A|apply Hms]|exact B]).
Qed.

(* reachable states, in the domain of the budget counters *)
Inductive reachA : vam -> Prop :=
| reachA_new nslots v : vam_new c nslots = OK v -> Z.of_nat nslots <= 4194304 -> reachA v
| reachA_step v o f v' r calls :
    reachA v -> op_ok v o -> op_dom o -> step c v o f = (v', r, calls) -> r <> RPanic -> r <> RStuck -> reachA v'.

Lemma reachA_reach v : reachA v -> reach c v.
Proof. induction 1; [eapply reach_new; eauto|eapply reach_step; eauto]. Qed.

Theorem reachA_inv v : reachA v -> VamInvA v [] [].
Proof.
  induction 1 as [nslots v H Hn|v o f v' r calls R IH Hok Hd Hs Hp Hk].
  - eapply (vam_new_inv c Hc Hmax Hlarge); eauto.
  - pose proof (step_preservesA v o f IH Hok Hd) as P. rewrite Hs in P. apply P; auto.
Qed.

(* ---------------------------------------------------------------- C04: the budget counters equal device truth *)

(* number / bytes of the device memory objects that are live on the device, per heap *)
Definition dev_count (v : vam) (h : Z) : Z := cnt (mems_truth c (v_m v)) h.
Definition dev_bytes (v : vam) (h : Z) : Z := BudgetProofs.sum (mems_truth c (v_m v)) h.
(* number / bytes of the Allocation objects that are allocated, per heap of their memory type *)
Definition alloc_count (v : vam) (h : Z) : Z := cnt (allocs_truth c v []) h.
Definition alloc_bytes (v : vam) (h : Z) : Z := BudgetProofs.sum (allocs_truth c v []) h.

Lemma dev_bytes_heap_bytes v h : dev_bytes v h = dev_heap_bytes c (m_mems (v_m v)) h.
Proof. unfold dev_bytes, mems_truth. symmetry. apply (heap_bytes_sum c Hc Hmax Hlarge). Qed.

Theorem budget_equals_truth v :
  reachA v ->
  (forall h, heaps (m_bud (v_m v)) h = mkHc (dev_count v h) (alloc_count v h) (dev_bytes v h) (alloc_bytes v h)) /\
  memCount (m_bud (v_m v)) = zlen (m_mems (v_m v)).
Proof.
  intros R. pose proof (ai_mb _ _ _ (VamAcctStep.va_a _ _ _ _ (reachA_inv v R))) as M. split.
  - intros h. apply (MB_counters c Hc Hmax Hlarge). exact M.
  - eapply (MB_memcount c Hc Hmax Hlarge). exact M.
Qed.

(* HeapBudget's usage figure without the budget extension is the device truth *)
Theorem usage_equals_truth v h :
  reachA v -> budget_active c = false ->
  let '(m', usage, budget) := heap_budget c (v_m v) h in usage = dev_bytes v h.
Proof.
  intros R Hext. destruct (budget_equals_truth v R) as (Hh & _). unfold heap_budget, Budget.heap_budget.
  assert (E : budgetExt (bcfg_of c) = false) by exact Hext. rewrite E. cbn [andb negb fst snd]. rewrite Hh. reflexivity.
Qed.

(* ---------------------------------------------------------------- C11: heap size limits and the allocation count limit *)

Theorem heap_limit_respected v h :
  reachA v -> 0 <= h -> 0 < heapLimit (bcfg_of c) h ->
  dev_bytes v h <= Z.min (heapLimit (bcfg_of c) h) (heap_size c h).
Proof.
  intros R Hh Hl. destruct (ai_mb _ _ _ (VamAcctStep.va_a _ _ _ _ (reachA_inv v R))) as (g & B & L & C0 & Pm & _ & Cap & _).
  unfold dev_bytes. rewrite <- (perm_sum _ _ h Pm). rewrite <- (heap_size_lookup c Hc Hmax Hlarge h Hh). apply L; [exact Hl|].
  rewrite (heap_size_lookup c Hc Hmax Hlarge h Hh). unfold heap_size. destruct (nth_z (c_heaps c) h) as [x|] eqn:E; [|lia].
  pose proof (co_heaps _ Hc) as F. rewrite Forall_forall in F. apply (F x). eapply nth_z_in; eauto.
Qed.

(* the device never holds more than a heap's size either (the simulated driver refuses) *)
Theorem heap_size_respected v h : reachA v -> dev_bytes v h <= heap_size c h.
Proof.
  intros R. destruct (ai_mb _ _ _ (VamAcctStep.va_a _ _ _ _ (reachA_inv v R))) as (g & _ & _ & _ & _ & _ & Cap & _). apply Cap.
Qed.

Theorem count_limit_respected v : reachA v -> zlen (m_mems (v_m v)) <= c_maxcount c.
Proof.
  intros R. destruct (ai_mb _ _ _ (VamAcctStep.va_a _ _ _ _ (reachA_inv v R))) as (g & B & L & C0 & Pm & _).
  assert (E : zlen (m_mems (v_m v)) = len (g_mems g)).
  { rewrite (perm_len _ _ Pm). unfold len, mems_truth, zlen. rewrite map_length. reflexivity. }
  rewrite E. apply C0. cbn. lia.
Qed.

End WithCfg.

(* ---------------------------------------------------------------- non-vacuity *)

(* one 1 MiB heap with a 600000-byte limit, two types, at most 3 memory objects *)
Definition exA_cfg : vcfg :=
  mkVcfg 10 false 1 1 3 false 0 true [mkHeap 1048576 true 600000 1048576 0] [mkType 0 1; mkType 0 6].

Lemma exA_cfg_acct : cfg_acct exA_cfg.
Proof.
  constructor; [constructor|..]; cbn.
  - constructor; [cbn; lia|constructor].
  - constructor; [cbn; lia|constructor; [cbn; lia|constructor]].
  - right. apply Bits.pow2_1.
  - lia.
  - right. apply Bits.pow2_1.
  - lia.
  - lia.
  - lia.
Qed.

(* a block allocation, a dedicated one, a dedicated one refused by the heap limit, one failing in the driver,
   then the first is freed *)
Definition exA_ops : list (op * fault) :=
  [ (OAlloc 0 1000 16 3 0 0 0 0 0 None, no_fault);
    (OAlloc 1 300000 64 3 0 1 0 0 0 None, no_fault);
    (OAlloc 2 400000 64 3 0 1 0 0 0 None, no_fault);
    (OAlloc 2 2000 4 3 0 1 0 0 0 None, mkFault true (-1) 1 0 true);
    (OFree 0, no_fault) ].

Fixpoint exA_run (v : vam) (ops : list (op * fault)) : vam * list result :=
  match ops with
  | [] => (v, [])
  | (o, f) :: tl => let '(v', r, _) := step exA_cfg v o f in let '(vf, rs) := exA_run v' tl in (vf, r :: rs)
  end.

Lemma reachA_run c (Ha : cfg_acct c) : forall ops v,
  reachA c v ->
  (fix ok (v : vam) (ops : list (op * fault)) : Prop :=
     match ops with
     | [] => True
     | (o, f) :: tl => op_ok v o /\ op_dom o /\
                       let '(v', r, _) := step c v o f in r <> RPanic /\ r <> RStuck /\ ok v' tl
     end) v ops ->
  reachA c ((fix run (v : vam) (ops : list (op * fault)) : vam :=
               match ops with [] => v | (o, f) :: tl => let '(v', _, _) := step c v o f in run v' tl end) v ops).
Proof.
  induction ops as [|(o & f) tl IH]; intros v R H; [exact R|].
  destruct H as (Hok & Hd & H). destruct (step c v o f) as ((v' & r) & calls) eqn:E. destruct H as (Hp & Hs & H).
  apply IH; [|exact H]. eapply reachA_step; eauto.
Qed.

Example acct_nonvacuous :
  match vam_new exA_cfg 4 with
  | OK v0 =>
    let '(vf, rs) := exA_run v0 exA_ops in
    reachA exA_cfg vf /\ rs = [ROk; ROk; RErr (-2); RErr (-2); ROk] /\
    heaps (m_bud (v_m vf)) 0 = mkHc 2 1 (16384 + 300000) 300000 /\ zlen (m_mems (v_m vf)) = 2
  | _ => False
  end.
Proof.
  destruct (vam_new exA_cfg 4) as [v0| | |] eqn:E0; try (vm_compute in E0; discriminate).
  assert (R0 : reachA exA_cfg v0) by (eapply reachA_new; [exact E0|cbn; lia]).
  assert (Ev0 : v0 = match vam_new exA_cfg 4 with OK v => v | _ => v0 end) by (rewrite E0; reflexivity).
  pose proof (reachA_run exA_cfg exA_cfg_acct exA_ops v0 R0) as RR.
  destruct (exA_run v0 exA_ops) as (vf & rs) eqn:Er.
  assert (Evf : (vf, rs) = exA_run (match vam_new exA_cfg 4 with OK v => v | _ => v0 end) exA_ops) by (rewrite <- Ev0; auto).
  split.
  - match type of RR with ?P -> reachA _ ?X => assert (EX : X = vf) end.
    { rewrite Ev0. pose proof (f_equal fst Evf) as Ef. cbn [fst] in Ef. rewrite Ef. vm_compute. reflexivity. }
    rewrite <- EX. apply RR. rewrite Ev0. vm_compute.
    repeat split; try discriminate; try reflexivity.
  - pose proof (f_equal snd Evf) as Es. pose proof (f_equal fst Evf) as Ef. cbn [fst snd] in *. rewrite Es, Ef. vm_compute. repeat split; reflexivity.
Qed.
