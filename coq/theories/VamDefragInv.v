(* VamDefragInv.v — the structural invariant through the defragmentation API (Vam.dstep).
   Part 1: BeginDefragmentation and Finish (the block lists are re-sorted by free size, the incremental sort is
   switched off / on): VamInvU is kept. *)
From Coq Require Import ZArith List Bool Lia Permutation.
From Arsenal Require Import Util VamDev VamBlockList VamDefrag Vam VamInvMeta VamInv VamInvUpd VamInvDev VamInvStep VamInvStep2.
From Arsenal Require Tlsf TlsfStep TlsfStep2 TlsfProps Linear LinearInv LinearFree.
Import ListNotations.
Open Scope Z_scope.

(* ---------------------------------------------------------------- SetAllocationUserData on the metadata *)

Definition retag (rg : region) (t : option Z) : region := mkRegion (rg_handle rg) (rg_off rg) (rg_size rg) t (rg_align rg).

Lemma nodup_map_in_eq {A B} (f : A -> B) (l : list A) x y : NoDup (map f l) -> In x l -> In y l -> f x = f y -> x = y.
Proof.
  induction l as [|z l IH]; cbn; [tauto|]. intros Hnd Hx Hy E. inversion Hnd as [|? ? Hz Hr]; subst.
  destruct Hx as [->|Hx], Hy as [->|Hy]; auto.
  - exfalso. apply Hz. rewrite E. apply in_map. exact Hy.
  - exfalso. apply Hz. rewrite <- E. apply in_map. exact Hx.
Qed.

Lemma meta_set_ud_spec mt rg tag :
  MInv mt -> In rg (meta_live mt) ->
  exists mt', meta_set_user_data mt (rg_handle rg) tag = Some mt' /\ MInv mt' /\ meta_size mt' = meta_size mt /\
    exists l1 l2, meta_live mt = l1 ++ rg :: l2 /\ meta_live mt' = l1 ++ retag rg (Some tag) :: l2.
Proof.
  intros HI Hin. destruct (meta_live_sound _ HI) as (_ & Hnd & _).
  destruct mt as [t|l]; cbn [MInv meta_live meta_set_user_data meta_size] in *.
  - destruct HI as [HT H2]. apply in_map_iff in Hin. destruct Hin as (a & <- & Ha). cbn [rg_handle tlsf_region].
    pose proof HT as [Hinv Hpg]. pose proof Hinv as [[Hch _ _ _ _] _ _ _].
    destruct (TlsfProps.live_in_chain _ _ Ha) as (Hc & Hf).
    assert (Es : exists t', Tlsf.set_user_data t (Tlsf.b_off a) (Some tag) = Some t').
    { unfold Tlsf.set_user_data. rewrite (TlsfProps.find_blk_unique _ _ _ Hch Hc), Hf. eauto. }
    destruct Es as (t' & Es). rewrite Es. exists (MTlsf t').
    pose proof (TlsfStep.step_preserves t (Tlsf.OSetUD (Tlsf.b_off a) (Some tag)) HT I) as Hst. cbn [Tlsf.step] in Hst. rewrite Es in Hst.
    cbn [fst snd TlsfStep.live_effect Tlsf.o_kind Tlsf.out] in Hst. destruct Hst as (HT' & (l1 & b & l2 & Hl & Hb & Hl') & Hsz).
    split; [reflexivity|]. split; [split; [exact HT'|eapply TlsfStep2.set_user_data_inv2; eauto]|]. split; [exact Hsz|].
    assert (b = a).
    { assert (Hbin : In b (Tlsf.live t)) by (rewrite Hl; apply in_app_iff; right; left; reflexivity).
      assert (E : tlsf_region b = tlsf_region a).
      { eapply (nodup_map_in_eq rg_handle (map tlsf_region (Tlsf.live t))); [exact Hnd|apply in_map; exact Hbin|apply in_map; exact Ha|cbn; exact Hb]. }
      clear - E Hbin Ha Hnd. apply (nodup_map_in_eq (fun x => rg_handle (tlsf_region x)) (Tlsf.live t)); auto; [rewrite <- map_map; exact Hnd|rewrite E; reflexivity]. }
    subst b. exists (map tlsf_region l1), (map tlsf_region l2). cbn [meta_live]. rewrite Hl, Hl', !map_app. cbn [map]. split; reflexivity.
  - apply in_map_iff in Hin. destruct Hin as (x & <- & Hx). cbn [rg_handle lin_region].
    destruct (LinearFree.set_own_succeeds l x (Some tag) HI Hx) as (l' & Es & HI' & a & b & Hl & Hl').
    pose proof (LinearFree.set_user_data_spec l (Linear.s_off x + 1) (Some tag) HI) as Sp. rewrite Es in *. destruct Sp as (_ & (Hsz & _) & _).
    exists (MLin l'). split; [reflexivity|]. split; [exact HI'|]. split; [exact Hsz|].
    exists (map lin_region a), (map lin_region b). cbn [meta_live]. rewrite Hl, Hl', !map_app. cbn [map]. split; reflexivity.
Qed.

Section WithCfg.
Variable c : vcfg.
Hypothesis Hc : cfg_ok c.

Lemma insert_by_free_perm b bs : Permutation (b :: bs) (insert_by_free b bs).
Proof.
  induction bs as [|x tl IH]; cbn; [apply Permutation_refl|]. destruct (_ <? _); [apply Permutation_refl|].
  eapply Permutation_trans; [apply perm_swap|apply perm_skip; exact IH].
Qed.

Lemma sort_by_free_size_perm bs : Permutation bs (sort_by_free_size bs).
Proof.
  unfold sort_by_free_size.
  assert (H : forall l acc, Permutation (l ++ acc) (fold_left (fun acc b => insert_by_free b acc) l acc)).
  { induction l as [|x l IH]; intros acc; cbn; [apply Permutation_refl|].
    eapply Permutation_trans; [|apply IH]. eapply Permutation_trans; [apply Permutation_middle|].
    apply Permutation_app_head. apply insert_by_free_perm. }
  specialize (H bs []). rewrite app_nil_r in H. exact H.
Qed.

Lemma blist_wf_incsort l b : blist_wf c l -> blist_wf c (set_incsort l b).
Proof. intros [H1 H2 H3 H4 H5 H6 H7]. constructor; cbn; auto. Qed.

(* a list gets a permutation of its blocks and another incrementalSort flag *)
Lemma resort_inv v U X lr l bs flag :
  VamInvU c v U X -> get_blist v lr = Some l -> Permutation (bl_blocks l) bs ->
  let v' := set_blist v lr (set_incsort (set_blocks l bs) flag) in
  VamInvU c v' U X /\ tab_frame v v' [] /\ lists_frame v v'.
Proof.
  intros HI Hg P. cbn zeta. split; [|split].
  - eapply VamInvU_set_equiv; eauto.
    + apply blist_wf_incsort. apply blist_wf_perm; auto. eapply vi_lists; eauto.
    + cbn. apply perm_equiv. auto.
  - apply tab_frame_set_blist.
  - eapply lists_frame_set_blist; eauto. unfold blist_cfg_same. cbn. repeat split; lia.
Qed.

Lemma prepare_list_inv v U X lr :
  VamInvU c v U X -> VamInvU c (prepare_list v lr) U X /\ tab_frame v (prepare_list v lr) [] /\ lists_frame v (prepare_list v lr).
Proof.
  intros HI. unfold prepare_list. destruct (get_blist v lr) as [l|] eqn:Hg.
  - apply (resort_inv v U X lr l _ false HI Hg). apply sort_by_free_size_perm.
  - split; [auto|split; [apply tab_frame_refl|apply lists_frame_refl]].
Qed.

Lemma prepare_lists_inv lrs : forall v U X,
  VamInvU c v U X -> let v' := fold_left prepare_list lrs v in VamInvU c v' U X /\ tab_frame v v' [] /\ lists_frame v v'.
Proof.
  induction lrs as [|lr tl IH]; intros v U X HI; cbn [fold_left]; [split; [auto|split; [apply tab_frame_refl|apply lists_frame_refl]]|].
  destruct (prepare_list_inv v U X lr HI) as (I1 & T1 & L1). destruct (IH _ U X I1) as (I2 & T2 & L2). cbn zeta in *.
  split; [auto|]. split; [eapply tab_frame_trans_same; eauto|eapply lists_frame_trans; eauto].
Qed.

(* Allocator.BeginDefragmentation *)
Lemma defrag_begin_inv v flags pool maxBytes maxAllocs :
  VamInvU c v [] [] ->
  let '(v', r) := defrag_begin c v flags pool maxBytes maxAllocs in
  VamInvU c v' [] [] /\ tab_frame v v' [] /\ lists_frame v v'.
Proof.
  intros HI. unfold defrag_begin.
  assert (Hrefl : VamInvU c v [] [] /\ tab_frame v v [] /\ lists_frame v v) by (split; [auto|split; [apply tab_frame_refl|apply lists_frame_refl]]).
  destruct (_ || _); [exact Hrefl|]. destruct (_ =? 3); [exact Hrefl|].
  destruct (match pool with Some uid => list_is_linear v (LPool uid) | None => false end); [exact Hrefl|].
  match goal with |- context [fold_left prepare_list ?lrs v] => pose proof (prepare_lists_inv lrs v [] [] HI) as P end. cbn zeta in P.
  destruct (negb _); exact P.
Qed.

(* Finish *)
Lemma defrag_finish_inv v run :
  VamInvU c v [] [] -> let '(v', st) := defrag_finish v run in VamInvU c v' [] [] /\ tab_frame v v' [] /\ lists_frame v v'.
Proof.
  intros HI. unfold defrag_finish.
  assert (H : forall dcs w, VamInvU c w [] [] ->
            let w' := fold_left (fun v' dc => match get_blist v' (dc_lr dc) with Some l => set_blist v' (dc_lr dc) (set_incsort l true) | None => v' end) dcs w in
            VamInvU c w' [] [] /\ tab_frame w w' [] /\ lists_frame w w').
  { induction dcs as [|dc tl IH]; intros w Iw; cbn [fold_left]; [split; [auto|split; [apply tab_frame_refl|apply lists_frame_refl]]|].
    assert (S1 : let w1 := match get_blist w (dc_lr dc) with Some l => set_blist w (dc_lr dc) (set_incsort l true) | None => w end in
                 VamInvU c w1 [] [] /\ tab_frame w w1 [] /\ lists_frame w w1).
    { destruct (get_blist w (dc_lr dc)) as [l|] eqn:Hg; [|split; [auto|split; [apply tab_frame_refl|apply lists_frame_refl]]].
      assert (E : set_incsort l true = set_incsort (set_blocks l (bl_blocks l)) true) by (destruct l; reflexivity). rewrite E.
      apply (resort_inv w [] [] (dc_lr dc) l (bl_blocks l) true Iw Hg). apply Permutation_refl. }
    cbn zeta in S1. destruct S1 as (I1 & T1 & L1). destruct (IH _ I1) as (I2 & T2 & L2). cbn zeta in *.
    split; [auto|]. split; [eapply tab_frame_trans_same; eauto|eapply lists_frame_trans; eauto]. }
  apply H. exact HI.
Qed.


(* ---------------------------------------------------------------- several Allocation objects and one list change together *)

(* The general form of "the regions of list lr tagged with the slots in S change together with those slots"
   (swapBlockAllocation: S = the two objects; a collecting pass: S = the new temporaries, the table grows).
   v' is given by its observations.  Slots outside S keep their contents; the old and new contents of the slots
   in S are block allocations of list lr (or nothing); regions not tagged with a slot of S are kept; every region
   of the new list is such an old one or belongs to the new contents of a slot of S. *)
Lemma VamInvU_updateS v v' U X lr l0 l' (S : list Z) :
  VamInvU c v U X -> get_blist v lr = Some l0 ->
  (forall lr1, get_blist v' lr1 = get_blist (set_blist v lr l') lr1) ->
  (forall lr1, get_dedlist v' lr1 = get_dedlist v lr1) -> v_m v' = v_m v ->
  length (v_lists v') = length (v_lists v) -> length (v_ded v') = length (v_ded v) ->
  map p_uid (v_pools v') = map p_uid (v_pools v) -> map p_id (v_pools v') = map p_id (v_pools v) ->
  v_next_uid v' = v_next_uid v -> v_next_pool_id v' = v_next_pool_id v ->
  blist_wf c l' -> bl_type l' = bl_type l0 ->
  (forall b0, In b0 (bl_blocks l0) -> exists b', In b' (bl_blocks l') /\ shape_same b0 b') ->
  (forall b', In b' (bl_blocks l') -> exists b0, In b0 (bl_blocks l0) /\ shape_same b0 b') ->
  (forall s, ~ In s S -> nth_z (v_tab v') s = nth_z (v_tab v) s) ->
  (forall s, In s S -> ~ In s X) ->
  (forall s a, In s S -> slot_is v s a -> a_kind a = 1 /\ a_lref a = lr) ->
  (forall s a', In s S -> slot_is v' s a' -> a_kind a' = 1 /\ block_alloc_ok v' s a') ->
  (forall b0 b' rg, In b0 (bl_blocks l0) -> In b' (bl_blocks l') -> bk_id b0 = bk_id b' ->
       In rg (meta_live (bk_meta b0)) -> (forall s, rg_tag rg = Some s -> ~ In s S) -> In rg (meta_live (bk_meta b'))) ->
  (forall b' rg, In b' (bl_blocks l') -> In rg (meta_live (bk_meta b')) ->
       (exists b0, In b0 (bl_blocks l0) /\ bk_id b0 = bk_id b' /\ In rg (meta_live (bk_meta b0)) /\ (forall s, rg_tag rg = Some s -> ~ In s S)) \/
       (exists s a', rg_tag rg = Some s /\ In s S /\ slot_is v' s a' /\ a_kind a' = 1 /\ a_lref a' = lr /\ a_blk a' = bk_id b' /\
                     a_handle a' = rg_handle rg)) ->
  (forall s a', In s S -> slot_is v' s a' -> Bits.pow2 (a_align a')) ->
  bl_minalign l' = bl_minalign l0 ->
  (forall s a' l1, In s S -> slot_is v' s a' -> get_blist v' (a_lref a') = Some l1 -> bl_minalign l1 <= a_align a') ->
  VamInvU c v' U X.
Proof.
  intros HI H0 Hg' Hd' Hm' Hll Hdl Hpu Hpi Hnu Hnp Hwf Hty Hfw Hbw Hoth0 HSX Hold Hnew Hkeep Hreg Hpow Hmal HminS.
  inv_fields HI.
  assert (Hcases := get_set_blist_cases v lr l0 l').
  assert (Hoth : forall s1 a1, ~ In s1 S -> (slot_is v' s1 a1 <-> slot_is v s1 a1)).
  { intros s1 a1 Hn. unfold slot_is. rewrite Hoth0 by exact Hn. tauto. }
  assert (Hded : forall s1 a1, a_kind a1 = 2 -> (slot_is v' s1 a1 <-> slot_is v s1 a1)).
  { intros s1 a1 Hk. destruct (in_dec Z.eq_dec s1 S) as [Hin|Hn]; [|apply Hoth; exact Hn]. split; intros H.
    - destruct (Hnew _ _ Hin H) as (K & _). congruence.
    - destruct (Hold _ _ Hin H) as (K & _). congruence. }
  assert (Hblk : forall lr1 l1 b1, get_blist v' lr1 = Some l1 -> In b1 (bl_blocks l1) ->
            exists l2 b2, get_blist v lr1 = Some l2 /\ In b2 (bl_blocks l2) /\ shape_same b2 b1 /\ bl_type l2 = bl_type l1 /\
                          (lr1 <> lr -> l2 = l1 /\ b2 = b1) /\ (lr1 = lr -> l2 = l0 /\ l1 = l')).
  { intros lr1 l1 b1 Hg Hb. rewrite Hg' in Hg. destruct (Hcases _ _ H0 Hg) as [(-> & ->)|(Hne & Hgo)].
    - destruct (Hbw _ Hb) as (b0 & Hb0 & Hsh). exists l0, b0.
      split; [auto|]. split; [auto|]. split; [exact Hsh|]. split; [congruence|]. split; [tauto|auto].
    - exists l1, b1. split; [auto|]. split; [auto|]. split; [unfold shape_same; auto|]. split; [auto|]. split; [auto|tauto]. }
  constructor.
  - congruence.
  - congruence.
  - intros t l H. rewrite Hg' in H. destruct (Hcases _ _ H0 H) as [(E & ->)|(Hne & Hg)]; [subst lr; rewrite Hty; eauto|eauto].
  - intros lr1 l1 H. rewrite Hg' in H. destruct (Hcases _ _ H0 H) as [(-> & ->)|(Hne & Hg)]; eauto.
  - rewrite Hpu. auto.
  - rewrite Hnu. eapply Forall_map_eq with (f := p_uid) (P := fun u => u < v_next_uid v); [symmetry; exact Hpu|reflexivity|exact I_pu].
  - rewrite Hpi, Hnp. destruct I_pi as (Hn & Hf). split; [auto|].
    eapply Forall_map_eq with (f := p_id) (P := fun u => u < v_next_pool_id v); [symmetry; exact Hpi|reflexivity|exact Hf].
  - rewrite Hm'. auto.
  - rewrite Hm'. auto.
  - rewrite Hm'. intros lr1 l1 b1 Hg Hb. destruct (Hblk _ _ _ Hg Hb) as (l2 & b2 & Hg2 & Hb2 & (Hi & Hmm & Hsz) & Ht & _).
    destruct (I_bm _ _ _ Hg2 Hb2) as (d & Hf & Hdt & Hds). exists d. split; [congruence|]. split; congruence.
  - intros lr1 l1 b1 lr2 l2 b2 Hg1 Hb1 Hg2 Hb2 Hmm.
    destruct (Hblk _ _ _ Hg1 Hb1) as (k1 & c1 & Hk1 & Hc1 & (Hi1 & Hm1 & _) & _).
    destruct (Hblk _ _ _ Hg2 Hb2) as (k2 & c2 & Hk2 & Hc2 & (Hi2 & Hm2 & _) & _).
    destruct (I_bi _ _ _ _ _ _ Hk1 Hc1 Hk2 Hc2 ltac:(congruence)). split; [auto|congruence].
  - intros s1 a1 lr1 l1 b1 Hsl Hk Hg Hb. apply Hded in Hsl; auto.
    destruct (Hblk _ _ _ Hg Hb) as (k1 & c1 & Hk1 & Hc1 & (Hi1 & Hm1 & _) & _). rewrite <- Hm1. eauto.
  - intros s1 a1 s2 a2 H1 K1 H2 K2. apply Hded in H1; auto. apply Hded in H2; auto. eauto.
  - rewrite Hm'. intros d Hd. destruct (I_do d Hd) as [(lr1 & l1 & b1 & Hg & Hb & Hmm)|(s1 & a1 & Hsl & Hk & Hmm)].
    + left. destruct (lref_eq_dec lr1 lr) as [->|Hne].
      * assert (l1 = l0) by congruence. subst l1. destruct (Hfw _ Hb) as (b' & Hb' & _ & Hm2 & _).
        exists lr, l', b'. rewrite Hg'. split; [eapply get_set_blist_same; eauto|]. split; [auto|congruence].
      * exists lr1, l1, b1. rewrite Hg'. rewrite get_set_blist_other by congruence. auto.
    + right. exists s1, a1. split; [apply Hded; auto|auto].
  - intros s1 a1 Hsl HX. destruct (in_dec Z.eq_dec s1 S) as [Hin|Hn].
    + destruct (Hnew _ _ Hin Hsl) as (K & R). left. split; auto.
    + apply Hoth in Hsl; auto.
      destruct (I_sl s1 a1 Hsl HX) as [(Hk & l & b & rg & Hg & Hb & Hid & Hrg & Hh & Htag & R)|(Hk & R1 & R2 & R3)].
      * left. split; [auto|]. destruct (lref_eq_dec (a_lref a1) lr) as [E|Hne1].
        -- rewrite E in Hg. assert (l = l0) by congruence. subst l.
           destruct (Hfw _ Hb) as (b' & Hb' & Hi' & Hm2 & Hz2).
           exists l', b', rg. rewrite Hg', E. split; [eapply get_set_blist_same; eauto|].
           split; [auto|]. split; [congruence|].
           split; [eapply Hkeep; eauto; intros s2 E2; rewrite Htag in E2; injection E2 as <-; exact Hn|].
           destruct R as (R4 & R5 & R6 & R7). repeat split; auto; congruence.
        -- exists l, b, rg. rewrite Hg'. rewrite get_set_blist_other by congruence. repeat split; auto; apply R.
      * right. split; [auto|]. split; [rewrite Hd'; auto|]. split; [|rewrite Hm'; auto].
        destruct R2 as (l & Hg & Ht). destruct (lref_eq_dec (a_lref a1) lr) as [E|Hne1].
        -- exists l'. rewrite Hg', E. split; [eapply get_set_blist_same; eauto|]. rewrite E in Hg. congruence.
        -- exists l. rewrite Hg'. rewrite get_set_blist_other by congruence. auto.
  - intros lr1 l1 b1 rg Hg Hb Hrg. rewrite Hg' in Hg. destruct (Hcases _ _ H0 Hg) as [(-> & ->)|(Hne & Hgo)].
    + destruct (Hreg _ _ Hb Hrg) as [(b0 & Hb0 & Hi & Hr0 & Htag)|(s & a' & Htag & Hin & Sa' & Hk & R)].
      * destruct (I_tg _ _ _ _ H0 Hb0 Hr0) as (s1 & a1 & T1 & T2 & T3). exists s1, a1. split; [auto|].
        split; [apply Hoth; [apply Htag; exact T1|auto]|]. rewrite <- Hi. auto.
      * exists s, a'. auto.
    + destruct (I_tg _ _ _ _ Hgo Hb Hrg) as (s1 & a1 & T1 & T2 & T3 & T4 & T5). exists s1, a1. split; [auto|].
      split; [|auto]. destruct (in_dec Z.eq_dec s1 S) as [Hin|Hn]; [|apply Hoth; auto].
      exfalso. apply Hne. rewrite <- T4. apply (Hold _ _ Hin T2).
  - intros lr1 s1 Hin. rewrite Hd' in Hin. destruct (I_dd _ _ Hin) as (a1 & R1 & R2 & R3). exists a1.
    split; [apply Hded; auto|auto].
  - intros lr1. rewrite Hd'. auto.
  - intros s1 Hin. destruct (I_ur _ Hin) as (a1 & R1 & R2 & R3). exists a1. split; [apply Hded; auto|]. split; [auto|]. rewrite Hd'. auto.
  - intros s1 Hin. destruct (I_dg _ Hin) as (a1 & R1 & R2). exists a1. split; [|auto]. apply Hoth; [|auto]. intros HS. apply (HSX _ HS). exact Hin.
  - intros s1 lr1 l1 b1 rg Hin Hg Hb Hrg. rewrite Hg' in Hg. destruct (Hcases _ _ H0 Hg) as [(-> & ->)|(Hne & Hgo)].
    + destruct (Hreg _ _ Hb Hrg) as [(b0 & Hb0 & Hi & Hr0 & Htag)|(s & a' & Htag & HinS & _)].
      * eapply I_dt2; eauto.
      * rewrite Htag. intros E. injection E as <-. apply (HSX _ HinS). exact Hin.
    + eapply I_dt2; eauto.
  - rewrite Hm'. auto.
  - rewrite Hm'. auto.
  - intros s1 a1 S1 K1. destruct (in_dec Z.eq_dec s1 S) as [Hin|Hn]; [eapply Hpow; eauto|apply Hoth in S1; eauto].
  - intros s1 a1 l1 S1 HnX K1 G1. destruct (in_dec Z.eq_dec s1 S) as [Hin|Hn]; [eapply HminS; eauto|].
    apply Hoth in S1; [|exact Hn]. rewrite Hg' in G1. destruct (Hcases _ _ H0 G1) as [(E & ->)|(Hne & Hgo)].
    + rewrite Hmal. apply (I_ma s1 a1 l0 S1 HnX K1). rewrite E. exact H0.
    + eapply I_ma; eauto.
Qed.


(* ---------------------------------------------------------------- Allocation.swapBlockAllocation *)

Lemma meta_set_ud_g mt h tag mt' : meta_set_user_data mt h tag = Some mt' -> meta_g mt' = meta_g mt.
Proof.
  destruct mt as [t|l]; cbn [meta_set_user_data].
  - unfold Tlsf.set_user_data. destruct (Tlsf.find_blk h (Tlsf.t_chain t)) as [b|]; [|discriminate].
    destruct (Tlsf.b_free b); [discriminate|]. intros E. injection E as <-. destruct t; reflexivity.
  - unfold Linear.set_user_data. destruct (Linear.find_suballocation l (h - 1)) as [i|i| |]; try discriminate.
    + destruct (Linear.nth_z (Linear.first l) i); [|cbn; discriminate]. intros E. injection E as <-. destruct l as [? ? ? ? ? sw ? ? ? ? ?]; destruct sw; reflexivity.
    + destruct (Linear.nth_z (Linear.second l) i); [|cbn; discriminate]. intros E. injection E as <-. destruct l as [? ? ? ? ? sw ? ? ? ? ?]; destruct sw; reflexivity.
Qed.

(* SetAllocationUserData on block B of list lr *)
Lemma set_ud_step v lr l B R tag :
  get_blist v lr = Some l -> blist_wf c l -> In B (bl_blocks l) -> In R (meta_live (bk_meta B)) ->
  exists mt' la lb,
    let B1 := mkBlock (bk_id B) (bk_mem B) (bk_sm B) mt' in
    set_block_user_data v lr (bk_id B) (rg_handle R) tag = Some (put_block v lr B1) /\
    MInv mt' /\ meta_size mt' = meta_size (bk_meta B) /\
    meta_live (bk_meta B) = la ++ R :: lb /\ meta_live mt' = la ++ retag R (Some tag) :: lb /\
    get_blist (put_block v lr B1) lr = Some (set_blocks l (replace_block (bl_blocks l) B1)) /\
    blist_wf c (set_blocks l (replace_block (bl_blocks l) B1)).
Proof.
  intros Hg Hwf HB HR. pose proof (bw_meta _ _ Hwf) as Hm. rewrite Forall_forall in Hm.
  destruct (meta_set_ud_spec (bk_meta B) R tag (Hm _ HB) HR) as (mt' & Es & HI' & Hsz & la & lb & Hl & Hl').
  exists mt', la, lb. cbn zeta. unfold set_block_user_data, get_block. rewrite Hg, (in_find_block _ _ (bw_nodup _ _ Hwf) HB), Es.
  split; [reflexivity|]. split; [exact HI'|]. split; [exact Hsz|]. split; [exact Hl|]. split; [exact Hl'|].
  split.
  - apply (put_block_lookup v lr l B (mkBlock (bk_id B) (bk_mem B) (bk_sm B) mt') Hg (bw_nodup _ _ Hwf) HB eq_refl).
  - pose proof (bw_g _ _ Hwf) as Hgg. rewrite Forall_forall in Hgg.
    apply blist_wf_replace; auto; cbn; first [apply in_map; exact HB|rewrite (meta_set_ud_g _ _ _ _ Es); auto].
Qed.


(* everything but the block lists and the table *)
Definition same_rest (w w' : vam) : Prop :=
  (forall lr1, get_dedlist w' lr1 = get_dedlist w lr1) /\ v_m w' = v_m w /\
  length (v_lists w') = length (v_lists w) /\ length (v_ded w') = length (v_ded w) /\
  map p_uid (v_pools w') = map p_uid (v_pools w) /\ map p_id (v_pools w') = map p_id (v_pools w) /\
  v_next_uid w' = v_next_uid w /\ v_next_pool_id w' = v_next_pool_id w.

Lemma same_rest_refl w : same_rest w w.
Proof. unfold same_rest. auto 10. Qed.

Lemma same_rest_trans a b d : same_rest a b -> same_rest b d -> same_rest a d.
Proof.
  intros (A1 & A2 & A3 & A4 & A5 & A6 & A7 & A8) (B1 & B2 & B3 & B4 & B5 & B6 & B7 & B8). unfold same_rest.
  split; [intros; rewrite B1; apply A1|]. repeat split; congruence.
Qed.

Lemma same_rest_set_blist w lr l : same_rest w (set_blist w lr l).
Proof.
  unfold same_rest. split; [intros; apply set_blist_dedlist|]. split; [apply set_blist_m|]. split; [apply set_blist_lists_len|].
  split; [rewrite set_blist_ded; reflexivity|]. split; [apply set_blist_uids|]. split; [apply set_blist_pids|].
  split; [apply set_blist_next_uid|apply set_blist_next_pid].
Qed.

Lemma same_rest_put_block w lr b : same_rest w (put_block w lr b).
Proof. unfold put_block. destruct (get_blist w lr); [apply same_rest_set_blist|apply same_rest_refl]. Qed.

Lemma same_rest_set_tab w tab : same_rest w (set_tab w tab).
Proof. unfold same_rest. cbn. split; [intros; apply get_dedlist_set_tab|]. auto 10. Qed.

Lemma put_block_other w lr b lr1 : lr1 <> lr -> get_blist (put_block w lr b) lr1 = get_blist w lr1.
Proof. intros H. unfold put_block. destruct (get_blist w lr); [apply get_set_blist_other; congruence|reflexivity]. Qed.

Lemma put_block_tab'' w lr b : v_tab (put_block w lr b) = v_tab w.
Proof. unfold put_block. destruct (get_blist w lr); [apply set_blist_tab|reflexivity]. Qed.


Definition swapped (a b : alloc) : alloc :=
  mkAlloc (a_allocated a) (a_kind a) (a_size a) (a_align a) (a_type a) (a_sub a) (a_persist a)
          (a_mapallowed a) (a_lref b) (a_blk b) (a_handle b) (a_mem b) (a_sm a) (a_temp a).

Lemma in_mid_other {A} (l1 l2 : list A) x x' y : In y (l1 ++ x :: l2) -> y <> x -> In y (l1 ++ x' :: l2).
Proof. intros H Hn. apply in_app_iff in H. apply in_app_iff. destruct H as [H|[E|H]]; [auto|congruence|right; right; auto]. Qed.

Lemma in_mid_cases {A} (l1 l2 : list A) x x' y : In y (l1 ++ x' :: l2) -> y = x' \/ In y (l1 ++ x :: l2).
Proof. intros H. apply in_app_iff in H. destruct H as [H|[E|H]]; [right; apply in_app_iff; auto|left; auto|right; apply in_app_iff; right; right; auto]. Qed.

Lemma in_mid_nodup {A B} (f : A -> B) (l1 l2 : list A) x x' y :
  NoDup (map f (l1 ++ x :: l2)) -> In y (l1 ++ x' :: l2) -> y = x' \/ (In y (l1 ++ x :: l2) /\ y <> x).
Proof.
  intros Hnd H. rewrite map_app in Hnd. cbn [map] in Hnd. apply NoDup_remove_2 in Hnd.
  apply in_app_iff in H. destruct H as [H|[E|H]]; [right|left; auto|right].
  - split; [apply in_app_iff; auto|]. intros ->. apply Hnd. apply in_app_iff. left. apply in_map. exact H.
  - split; [apply in_app_iff; right; right; auto|]. intros ->. apply Hnd. apply in_app_iff. right. apply in_map. exact H.
Qed.

Lemma swap_inv v U X s t a b lr :
  VamInvU c v U X -> s <> t -> slot_is v s a -> slot_is v t b -> ~ In s X -> ~ In t X ->
  a_kind a = 1 -> a_kind b = 1 -> a_lref a = lr -> a_lref b = lr -> a_size a = a_size b -> a_align a = a_align b ->
  let '(v', r) := swap_block_allocation v s t in
  r = OK tt /\ VamInvU c v' U X /\ lists_frame v v' /\ zlen (v_tab v') = zlen (v_tab v) /\
  (forall s1, s1 <> s -> s1 <> t -> nth_z (v_tab v') s1 = nth_z (v_tab v) s1) /\
  get_alloc v' s = swapped a b /\ get_alloc v' t = swapped b a.
Proof.
  intros HI Hst Sa Sb HXs HXt Ka Kb La Lb Esz Eal.
  destruct (vi_slots _ _ _ _ HI s a Sa HXs) as [(_ & l & Ba & Ra & Hg & HBa & Hida & HRa & Hha & Htaga & Hsza & Hala & Hmema & Htya)|(K & _)]; [|congruence].
  destruct (vi_slots _ _ _ _ HI t b Sb HXt) as [(_ & l2 & Bb & Rb & Hg2 & HBb & Hidb & HRb & Hhb & Htagb & Hszb & Halb & Hmemb & Htyb)|(K & _)]; [|congruence].
  rewrite La in Hg. rewrite Lb in Hg2. assert (l2 = l) by congruence. subst l2. clear Hg2.
  pose proof (vi_lists _ _ _ _ HI _ _ Hg) as Hwf. pose proof (bw_nodup _ _ Hwf) as Hnd.
  assert (Hrs : 0 <= s < zlen (v_tab v)) by (eapply slot_is_range; eauto).
  assert (Hrt : 0 <= t < zlen (v_tab v)) by (eapply slot_is_range; eauto).
  unfold swap_block_allocation. rewrite (get_alloc_slot _ _ _ Sa), (get_alloc_slot _ _ _ Sb).
  assert (Ec : negb (a_kind a =? 1) || negb (a_kind b =? 1) = false) by (rewrite Ka, Kb; reflexivity). rewrite Ec. clear Ec.
  (* the region of s gets the tag t *)
  destruct (set_ud_step v lr l Ba Ra t Hg Hwf HBa HRa) as (mt1 & la & lb & E1 & Hm1 & Hz1 & Hl1 & Hl1' & Hg1 & Hwf1).
  cbn zeta in *.
  assert (E1' : set_block_user_data v (a_lref a) (a_blk a) (a_handle a) t = Some (put_block v lr (mkBlock (bk_id Ba) (bk_mem Ba) (bk_sm Ba) mt1))) by (rewrite La, <- Hida, <- Hha; exact E1).
  rewrite E1'. clear E1'.
  set (Ba1 := mkBlock (bk_id Ba) (bk_mem Ba) (bk_sm Ba) mt1) in *.
  set (l1 := set_blocks l (replace_block (bl_blocks l) Ba1)) in *.
  set (v1 := put_block v lr Ba1) in *.
  fold (swapped a b). fold (swapped b a).
  set (v2 := set_alloc (set_alloc v1 s (swapped a b)) t (swapped b a)).
  assert (Hg2 : get_blist v2 lr = Some l1) by (unfold v2; rewrite !get_blist_set_alloc; exact Hg1).
  (* the block of t's region in the new list *)
  set (Bb1 := if bk_id Bb =? bk_id Ba then Ba1 else Bb).
  assert (HBb1 : In Bb1 (bl_blocks l1) /\ bk_id Bb1 = bk_id Bb /\ bk_mem Bb1 = bk_mem Bb /\ In Rb (meta_live (bk_meta Bb1))).
  { unfold Bb1. destruct (bk_id Bb =? bk_id Ba) eqn:E.
    - apply Z.eqb_eq in E. assert (Bb = Ba).
      { pose proof (in_find_block _ _ Hnd HBb) as F1. pose proof (in_find_block _ _ Hnd HBa) as F2. rewrite E in F1. congruence. }
      subst Bb. split; [unfold l1; cbn; apply replace_block_in; cbn; apply in_map; exact HBa|]. split; [reflexivity|]. split; [reflexivity|].
      cbn [bk_meta Ba1]. rewrite Hl1'. eapply in_mid_other; [rewrite <- Hl1; exact HRb|]. intros ->. congruence.
    - apply Z.eqb_neq in E. split; [unfold l1; cbn; apply replace_block_keeps; auto|auto]. }
  destruct HBb1 as (HBb1 & Hidb1 & Hmemb1 & HRb1).
  destruct (set_ud_step v2 lr l1 Bb1 Rb s Hg2 Hwf1 HBb1 HRb1) as (mt2 & lc & ld & E2 & Hm2 & Hz2 & Hl2 & Hl2' & Hg3 & Hwf2).
  cbn zeta in *.
  assert (E2' : set_block_user_data v2 (a_lref (swapped a b)) (a_blk (swapped a b)) (a_handle (swapped a b)) s = Some (put_block v2 lr (mkBlock (bk_id Bb1) (bk_mem Bb1) (bk_sm Bb1) mt2))) by (cbn [a_lref a_blk a_handle swapped]; rewrite Lb, <- Hidb, <- Hidb1, <- Hhb; exact E2).
  fold v2. rewrite E2'. clear E2'.
  set (Bb2 := mkBlock (bk_id Bb1) (bk_mem Bb1) (bk_sm Bb1) mt2) in *.
  set (l3 := set_blocks l1 (replace_block (bl_blocks l1) Bb2)) in *.
  set (v3 := put_block v2 lr Bb2) in *.
  split; [reflexivity|].
  (* the table of the result *)
  assert (Et3 : v_tab v3 = set_nth_z (set_nth_z (v_tab v) s (swapped a b)) t (swapped b a)).
  { unfold v3. rewrite put_block_tab''. unfold v2. cbn [set_alloc set_tab v_tab]. unfold v1. rewrite put_block_tab''. reflexivity. }
  assert (Hts : nth_z (v_tab v3) s = Some (swapped a b)).
  { rewrite Et3, nth_z_set_other by congruence. apply nth_z_set_same. exact Hrs. }
  assert (Htt : nth_z (v_tab v3) t = Some (swapped b a)).
  { rewrite Et3. apply nth_z_set_same. unfold zlen. rewrite set_nth_z_length. exact Hrt. }
  assert (Hto : forall s1, s1 <> s -> s1 <> t -> nth_z (v_tab v3) s1 = nth_z (v_tab v) s1).
  { intros s1 H1 H2. rewrite Et3, !nth_z_set_other by congruence. reflexivity. }
  assert (Hrest : same_rest v v3).
  { eapply same_rest_trans; [apply same_rest_put_block|]. eapply same_rest_trans; [|apply same_rest_put_block].
    eapply same_rest_trans; apply same_rest_set_tab. }
  assert (Hgl : forall lr1, get_blist v3 lr1 = get_blist (set_blist v lr l3) lr1).
  { intros lr1. destruct (lref_eq_dec lr1 lr) as [->|Hne].
    - rewrite Hg3. symmetry. eapply get_set_blist_same; eauto.
    - rewrite get_set_blist_other by congruence. unfold v3. rewrite put_block_other by auto. unfold v2. rewrite !get_blist_set_alloc.
      unfold v1. apply put_block_other. auto. }
  (* the blocks of the new list *)
  (* uniqueness of the two regions *)
  pose proof (bw_meta _ _ Hwf) as Hmeta. rewrite Forall_forall in Hmeta.
  assert (Huniq_s : forall b0 rg, In b0 (bl_blocks l) -> In rg (meta_live (bk_meta b0)) -> rg_tag rg = Some s -> b0 = Ba /\ rg = Ra).
  { intros b0 rg Hb0 Hrg Htg. destruct (vi_tags _ _ _ _ HI _ _ _ _ Hg Hb0 Hrg) as (s1 & a1 & T1 & T2 & _ & _ & T5 & T6).
    rewrite Htg in T1. injection T1 as <-. assert (a1 = a) by (destruct T2, Sa; congruence). subst a1.
    assert (b0 = Ba).
    { pose proof (in_find_block _ _ Hnd Hb0) as F1. pose proof (in_find_block _ _ Hnd HBa) as F2. rewrite <- T5, <- Hida in F1. congruence. }
    subst b0. split; [reflexivity|]. destruct (meta_live_sound _ (Hmeta _ HBa)) as (_ & Hndh & _).
    eapply (nodup_map_in_eq rg_handle); eauto. congruence. }
  assert (Huniq_t : forall b0 rg, In b0 (bl_blocks l) -> In rg (meta_live (bk_meta b0)) -> rg_tag rg = Some t -> b0 = Bb /\ rg = Rb).
  { intros b0 rg Hb0 Hrg Htg. destruct (vi_tags _ _ _ _ HI _ _ _ _ Hg Hb0 Hrg) as (s1 & a1 & T1 & T2 & _ & _ & T5 & T6).
    rewrite Htg in T1. injection T1 as <-. assert (a1 = b) by (destruct T2, Sb; congruence). subst a1.
    assert (b0 = Bb).
    { pose proof (in_find_block _ _ Hnd Hb0) as F1. pose proof (in_find_block _ _ Hnd HBb) as F2. rewrite <- T5, <- Hidb in F1. congruence. }
    subst b0. split; [reflexivity|]. destruct (meta_live_sound _ (Hmeta _ HBb)) as (_ & Hndh & _).
    eapply (nodup_map_in_eq rg_handle); eauto. congruence. }
  assert (Hab : Ra <> Rb) by (intros E; rewrite E in Htaga; congruence).
  destruct (meta_live_sound _ (Hmeta _ HBa)) as (_ & NDa & _). destruct (meta_live_sound _ (Hmeta _ HBb)) as (_ & NDb & _).
  destruct (meta_live_sound _ Hm1) as (_ & ND1 & _).
  assert (Hnd1 : NoDup (map bk_id (bl_blocks l1))) by (apply (bw_nodup _ _ Hwf1)).
  assert (HB1same : bk_id Bb = bk_id Ba -> Bb = Ba /\ Bb1 = Ba1).
  { intros E. assert (Bb = Ba) by (pose proof (in_find_block _ _ Hnd HBb) as F1; pose proof (in_find_block _ _ Hnd HBa) as F2; rewrite E in F1; congruence).
    split; [auto|]. unfold Bb1. apply Z.eqb_eq in E. rewrite E. reflexivity. }
  assert (HB1diff : bk_id Bb <> bk_id Ba -> Bb1 = Bb).
  { intros E. unfold Bb1. apply Z.eqb_neq in E. rewrite E. reflexivity. }
  (* the blocks of the new list *)
  assert (Hblocks : forall b3, In b3 (bl_blocks l3) ->
            exists b0, In b0 (bl_blocks l) /\ shape_same b0 b3 /\
              (forall rg, In rg (meta_live (bk_meta b3)) ->
                 (In rg (meta_live (bk_meta b0)) /\ rg <> Ra /\ rg <> Rb) \/
                 (rg = retag Ra (Some t) /\ b0 = Ba) \/ (rg = retag Rb (Some s) /\ b0 = Bb)) /\
              (forall rg, In rg (meta_live (bk_meta b0)) -> rg <> Ra -> rg <> Rb -> In rg (meta_live (bk_meta b3))) /\
              (b0 = Ba -> In (retag Ra (Some t)) (meta_live (bk_meta b3))) /\
              (b0 = Bb -> In (retag Rb (Some s)) (meta_live (bk_meta b3)))).
  { intros b3 Hb3. unfold l3 in Hb3. cbn [bl_blocks set_blocks] in Hb3.
    destruct (in_replace_block _ _ _ Hnd1 Hb3) as [(-> & _)|(Hb31 & Hne3)].
    - (* the block that held t's region *)
      exists Bb. split; [exact HBb|].
      split.
      { unfold shape_same, Bb2. cbn. rewrite Hidb1, Hmemb1, Hz2. split; [auto|]. split; [auto|].
        destruct (Z.eq_dec (bk_id Bb) (bk_id Ba)) as [E|E].
        - destruct (HB1same E) as (-> & ->). cbn. congruence.
        - rewrite (HB1diff E). reflexivity. }
      cbn [bk_meta Bb2]. rewrite Hl2'.
      destruct (Z.eq_dec (bk_id Bb) (bk_id Ba)) as [E|E].
      + destruct (HB1same E) as (EBb & EB). subst Bb. rewrite EB in *. cbn [bk_meta Ba1] in Hl2.
        split; [|split; [|split]].
        * intros rg Hrg. destruct (in_mid_nodup rg_handle lc ld Rb _ rg ltac:(rewrite <- Hl2; exact ND1) Hrg) as [->|(Hin1 & Hn1)]; [right; right; auto|].
          rewrite <- Hl2, Hl1' in Hin1. destruct (in_mid_nodup rg_handle la lb Ra _ rg ltac:(rewrite <- Hl1; exact NDa) Hin1) as [->|(Hin0 & Hn0)]; [right; left; auto|].
          left. rewrite Hl1. auto.
        * intros rg Hrg Hna Hnb. eapply in_mid_other; [rewrite <- Hl2, Hl1'; eapply in_mid_other; [rewrite <- Hl1; exact Hrg|exact Hna]|exact Hnb].
        * intros _. eapply in_mid_other; [rewrite <- Hl2, Hl1'; apply in_app_iff; right; left; reflexivity|].
          intros Eq2. assert (rg_handle Ra = rg_handle Rb) by (rewrite <- Eq2; reflexivity).
          apply Hab. exact (nodup_map_in_eq rg_handle _ Ra Rb NDa HRa HRb H).
        * intros _. apply in_app_iff. right. left. reflexivity.
      + pose proof (HB1diff E) as EB. rewrite EB in *. split; [|split; [|split]].
        * intros rg Hrg. destruct (in_mid_nodup rg_handle lc ld Rb _ rg ltac:(rewrite <- Hl2; exact NDb) Hrg) as [->|(Hin1 & Hn1)]; [right; right; auto|].
          left. rewrite Hl2. split; [exact Hin1|]. split; [|exact Hn1]. intros ->.
          destruct (Huniq_s Bb Ra HBb ltac:(rewrite Hl2; exact Hin1) Htaga) as (EE & _). congruence.
        * intros rg Hrg _ Hnb. eapply in_mid_other; [rewrite <- Hl2; exact Hrg|exact Hnb].
        * intros EE. congruence.
        * intros _. apply in_app_iff. right. left. reflexivity.
    - (* a block of the list after the first step *)
      unfold l1 in Hb31. cbn [bl_blocks set_blocks] in Hb31.
      destruct (in_replace_block _ _ _ Hnd Hb31) as [(-> & _)|(Hb30 & Hne0)].
      + (* the block that held s's region (and not t's) *)
        assert (Hdiff : bk_id Bb <> bk_id Ba).
        { intros E. apply Hne3. unfold Bb2. cbn [bk_id]. rewrite Hidb1, E. reflexivity. }
        exists Ba. split; [exact HBa|]. split; [unfold shape_same, Ba1; cbn; auto|]. cbn [bk_meta Ba1]. rewrite Hl1'.
        split; [|split; [|split]].
        * intros rg Hrg. destruct (in_mid_nodup rg_handle la lb Ra _ rg ltac:(rewrite <- Hl1; exact NDa) Hrg) as [->|(Hin0 & Hn0)]; [right; left; auto|].
          left. rewrite Hl1. split; [exact Hin0|]. split; [exact Hn0|]. intros ->.
          destruct (Huniq_t Ba Rb HBa ltac:(rewrite Hl1; exact Hin0) Htagb) as (EE & _). congruence.
        * intros rg Hrg Hna _. eapply in_mid_other; [rewrite <- Hl1; exact Hrg|exact Hna].
        * intros _. apply in_app_iff. right. left. reflexivity.
        * intros EE. congruence.
      + (* an untouched block *)
        exists b3. split; [exact Hb30|]. split; [unfold shape_same; auto|].
        assert (Hn3a : b3 <> Ba) by (intros ->; apply Hne0; reflexivity).
        assert (Hn3b : b3 <> Bb) by (intros ->; apply Hne3; unfold Bb2; cbn [bk_id]; rewrite Hidb1; reflexivity).
        split; [|split; [|split]].
        * intros rg Hrg. left. split; [exact Hrg|]. split; intros ->.
          -- destruct (Huniq_s b3 Ra Hb30 Hrg Htaga) as (EE & _). congruence.
          -- destruct (Huniq_t b3 Rb Hb30 Hrg Htagb) as (EE & _). congruence.
        * auto.
        * intros EE. congruence.
        * intros EE. congruence. }
  assert (Hids3 : map bk_id (bl_blocks l3) = map bk_id (bl_blocks l)).
  { unfold l3, l1. cbn [bl_blocks set_blocks]. rewrite !replace_block_ids. reflexivity. }
  assert (Hsame_id : forall b0 b3, In b0 (bl_blocks l) -> In b3 (bl_blocks l3) -> bk_id b0 = bk_id b3 ->
            shape_same b0 b3 /\
            (forall rg, In rg (meta_live (bk_meta b3)) ->
               (In rg (meta_live (bk_meta b0)) /\ rg <> Ra /\ rg <> Rb) \/ (rg = retag Ra (Some t) /\ b0 = Ba) \/ (rg = retag Rb (Some s) /\ b0 = Bb)) /\
            (forall rg, In rg (meta_live (bk_meta b0)) -> rg <> Ra -> rg <> Rb -> In rg (meta_live (bk_meta b3))) /\
            (b0 = Ba -> In (retag Ra (Some t)) (meta_live (bk_meta b3))) /\ (b0 = Bb -> In (retag Rb (Some s)) (meta_live (bk_meta b3)))).
  { intros b0 b3 Hb0 Hb3 Eid. destruct (Hblocks b3 Hb3) as (b0' & Hb0' & Hsh & R).
    assert (b0' = b0).
    { pose proof (in_find_block _ _ Hnd Hb0) as F1. pose proof (in_find_block _ _ Hnd Hb0') as F2. destruct Hsh as (Ei & _). rewrite Ei, <- Eid in F2. congruence. }
    subst b0'. split; [exact Hsh|exact R]. }
  assert (Hfw : forall b0, In b0 (bl_blocks l) -> exists b3, In b3 (bl_blocks l3) /\ shape_same b0 b3).
  { intros b0 Hb0. assert (Hin : In (bk_id b0) (map bk_id (bl_blocks l3))) by (rewrite Hids3; apply in_map; exact Hb0).
    apply in_map_iff in Hin. destruct Hin as (b3 & Eid & Hb3). exists b3. split; [exact Hb3|]. apply (Hsame_id b0 b3 Hb0 Hb3 (eq_sym Eid)). }
  assert (Hbw : forall b3, In b3 (bl_blocks l3) -> exists b0, In b0 (bl_blocks l) /\ shape_same b0 b3).
  { intros b3 Hb3. destruct (Hblocks b3 Hb3) as (b0 & Hb0 & Hsh & _). eauto. }
  assert (Sa3 : slot_is v3 s (swapped a b)) by (split; [exact Hts|cbn; apply Sa]).
  assert (Sb3 : slot_is v3 t (swapped b a)) by (split; [exact Htt|cbn; apply Sb]).
  assert (I3 : VamInvU c v3 U X).
  { destruct Hrest as (R1 & R2 & R3 & R4 & R5 & R6 & R7 & R8).
    apply (VamInvU_updateS v v3 U X lr l l3 [s; t] HI Hg Hgl R1 R2 R3 R4 R5 R6 R7 R8 Hwf2 eq_refl Hfw Hbw).
    - intros s1 Hn. apply Hto; intros ->; apply Hn; cbn; auto.
    - intros s1 [<-|[<-|[]]]; auto.
    - intros s1 a1 [<-|[<-|[]]] S1; [assert (a1 = a) by (destruct S1, Sa; congruence)|assert (a1 = b) by (destruct S1, Sb; congruence)]; subst; auto.
    - intros s1 a1 [<-|[<-|[]]] S1.
      + assert (a1 = swapped a b) by (destruct S1, Sa3; congruence). subst a1. split; [exact Ka|].
        destruct (Hfw Bb HBb) as (b3 & Hb3 & Hsh). destruct (Hsame_id Bb b3 HBb Hb3 (proj1 Hsh)) as (_ & _ & _ & _ & HRb3).
        exists l3, b3, (retag Rb (Some s)). cbn [swapped a_lref a_blk a_handle a_size a_align a_mem a_type].
        rewrite Lb. split; [exact Hg3|]. split; [exact Hb3|]. split; [destruct Hsh as (E & _); congruence|]. split; [apply HRb3; reflexivity|].
        unfold retag. cbn [rg_handle rg_tag rg_size rg_align]. destruct Hsh as (_ & Em & _).
        split; [exact Hhb|]. split; [reflexivity|]. split; [congruence|]. split; [congruence|]. split; [congruence|exact Htya].
      + assert (a1 = swapped b a) by (destruct S1, Sb3; congruence). subst a1. split; [exact Kb|].
        destruct (Hfw Ba HBa) as (b3 & Hb3 & Hsh). destruct (Hsame_id Ba b3 HBa Hb3 (proj1 Hsh)) as (_ & _ & _ & HRa3 & _).
        exists l3, b3, (retag Ra (Some t)). cbn [swapped a_lref a_blk a_handle a_size a_align a_mem a_type].
        rewrite La. split; [exact Hg3|]. split; [exact Hb3|]. split; [destruct Hsh as (E & _); congruence|]. split; [apply HRa3; reflexivity|].
        unfold retag. cbn [rg_handle rg_tag rg_size rg_align]. destruct Hsh as (_ & Em & _).
        split; [exact Hha|]. split; [reflexivity|]. split; [congruence|]. split; [congruence|]. split; [congruence|exact Htyb].
    - intros b0 b3 rg Hb0 Hb3 Eid Hrg Htag. destruct (Hsame_id b0 b3 Hb0 Hb3 Eid) as (_ & _ & Hp & _). apply Hp; [exact Hrg| |].
      + intros ->. apply (Htag s Htaga). left. reflexivity.
      + intros ->. apply (Htag t Htagb). right. left. reflexivity.
    - intros b3 rg Hb3 Hrg. destruct (Hblocks b3 Hb3) as (b0 & Hb0 & Hsh & Hc3 & _).
      destruct (Hc3 rg Hrg) as [(Hin0 & Hna & Hnb)|[(-> & ->)|(-> & ->)]].
      + left. exists b0. split; [exact Hb0|]. split; [apply Hsh|]. split; [exact Hin0|].
        intros s1 Htg [<-|[<-|[]]].
        * destruct (Huniq_s b0 rg Hb0 Hin0 Htg) as (_ & E). contradiction.
        * destruct (Huniq_t b0 rg Hb0 Hin0 Htg) as (_ & E). contradiction.
      + right. exists t, (swapped b a). cbn [retag rg_tag rg_handle swapped a_kind a_lref a_blk a_handle].
        split; [reflexivity|]. split; [right; left; reflexivity|]. split; [exact Sb3|]. split; [exact Kb|]. split; [exact La|].
        split; [destruct Hsh as (E & _); congruence|congruence].
      + right. exists s, (swapped a b). cbn [retag rg_tag rg_handle swapped a_kind a_lref a_blk a_handle].
        split; [reflexivity|]. split; [left; reflexivity|]. split; [exact Sa3|]. split; [exact Ka|]. split; [exact Lb|].
        split; [destruct Hsh as (E & _); congruence|congruence].
    - intros s1 a1 [<-|[<-|[]]] S1.
      + assert (a1 = swapped a b) by (destruct S1, Sa3; congruence). subst a1. cbn [swapped a_align]. eapply vi_align; eauto.
      + assert (a1 = swapped b a) by (destruct S1, Sb3; congruence). subst a1. cbn [swapped a_align]. eapply vi_align; eauto.
    - reflexivity.
    - intros s1 a1 lx [<-|[<-|[]]] S1 G1.
      + assert (a1 = swapped a b) by (destruct S1, Sa3; congruence). subst a1. cbn [swapped a_align a_lref] in *.
        rewrite Lb, Hg3 in G1. injection G1 as <-. cbn. eapply (vi_minalign _ _ _ _ HI s a l); eauto. rewrite La; exact Hg.
      + assert (a1 = swapped b a) by (destruct S1, Sb3; congruence). subst a1. cbn [swapped a_align a_lref] in *.
        rewrite La, Hg3 in G1. injection G1 as <-. cbn. eapply (vi_minalign _ _ _ _ HI t b l); eauto. rewrite Lb; exact Hg. }
  split; [exact I3|]. split.
  - (* lists frame *)
    assert (LF1 : lists_frame v v1) by (unfold v1; rewrite (put_block_eq _ _ _ _ Hg); eapply lists_frame_set_blist; [exact Hg|apply blist_cfg_same_set_blocks]).
    assert (LF2 : lists_frame v1 v2) by (unfold v2; eapply lists_frame_trans; apply lists_frame_set_alloc).
    assert (LF3 : lists_frame v2 v3) by (unfold v3; rewrite (put_block_eq _ _ _ _ Hg2); eapply lists_frame_set_blist; [exact Hg2|apply blist_cfg_same_set_blocks]).
    eapply lists_frame_trans; [exact LF1|]. eapply lists_frame_trans; [exact LF2|exact LF3].
  - split; [rewrite Et3; unfold zlen; rewrite !set_nth_z_length; reflexivity|]. split; [exact Hto|].
    split; unfold get_alloc; [rewrite Hts|rewrite Htt]; reflexivity.
Qed.


End WithCfg.
