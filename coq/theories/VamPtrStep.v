(* VamPtrStep.v — C14 (pointer stability): every API call keeps the mapping of a memory object that has a user before and
   after the call.  The calls that do not allocate: VamPtrStable.  The allocating ones: the pieces of VamPtrAlloc from the
   reachable state; CreatePool touches no SynchronizedMemory at all. *)
From Coq Require Import ZArith List Bool Lia Permutation.
From Arsenal Require Import Util Budget BudgetProofs VamDev VamBlockList VamDefrag Vam VamInvMeta VamInv VamInvUpd VamInvDev VamInvStep VamInvStep2.
From Arsenal Require Import VamMap VamInvThm VamProps VamAcct VamAcctStep VamAcctThm VamMapThm VamBal VamBalStep VamBalThm.
From Arsenal Require Import VamDefragThm VamDefragAcct VamDefragMap VamDefragBal VamCallPass VamMonoRefs VamPtrStable VamPtrAlloc.
Import ListNotations.
Open Scope Z_scope.

Section Reach.
Variable c : vcfg.
Hypothesis Ha : cfg_acct c.
Let Hc := ca_ok c Ha.
Let Hmax := ca_max c Ha.
Let Hlarge := ca_large c Ha.

Lemma used_prot v G s M : (forall x, 0 <= G x) -> used v G s M -> prot G M v [] s.
Proof.
  intros HG (a & Sa & Em & Hu). exists a. split; [exact Sa|]. split; [intros []|]. split; [exact Em|].
  specialize (HG s). unfold pcount. destruct Hu as [Hu|Hu]; [destruct (a_persist a); lia|rewrite Hu; lia].
Qed.

(* the invariant of the running call, at its start *)
Lemma start_inv v run G f : reachDB c v run G ->
  VamBalStep.VamInvB c (m_mems (v_m v)) G (set_m v (clear_calls (set_fault (v_m v) f 0))) [] [].
Proof.
  intros R. pose proof (reachDB_reachDA c Ha v run G R) as RA. destruct (reachDA_inv c Ha v run RA) as (HI & _).
  pose proof (reachDA_map c Ha v run RA) as HM. pose proof (reachDB_bal c Ha v run G R) as HB.
  split; [|apply BInv_mach; exact HB]. split.
  - apply (VamAcctStep.VamInvA_mach_same c Hc Hmax Hlarge); [exact HI|]. eapply (mach_sameA_trans c Hc Hmax Hlarge); [apply (mach_sameA_set_fault c Hc Hmax Hlarge)|apply (mach_sameA_clear c Hc Hmax Hlarge)].
  - split; [|unfold LogOk; cbn; constructor].
    apply (MapInv_sub v []); [exact HM|reflexivity|apply blocks_sub_eq; intros; apply get_blist_set_m|apply deds_sub_nil; apply tab_frame_set_m].
Qed.

Lemma calm_calls M (w w' : vam) : m_calls (v_m w) = [] -> NAv (calm M) w w' -> keeps_mapping M (rev (m_calls (v_m w'))).
Proof. intros E (l & El & F). rewrite El, E, app_nil_r. apply calm_keeps. exact F. Qed.

Lemma keeps_nil M : keeps_mapping M [].
Proof. split; [intros []|]. split; [intros []|intros ? ? ? []]. Qed.

Lemma used_allocated v G s M : used v G s M -> forall m, a_allocated (get_alloc (set_m v m) s) = true.
Proof. intros (a & Sa & _) m. change (get_alloc (set_m v m) s) with (get_alloc v s). rewrite (get_alloc_slot _ _ _ Sa). apply Sa. Qed.

Definition op_allocates_slots (o : op) : Prop :=
  match o with
  | OAlloc _ _ _ _ _ _ _ _ _ _ | OAllocN _ _ _ _ _ _ _ _ _ _ _ | OCreateBuf _ _ _ _ _ _ _ _ _ _ _
  | OCreateImg _ _ _ _ _ _ _ _ _ _ _ | OAllocFor _ _ _ _ _ _ _ _ _ => True
  | _ => False
  end.

Lemma step_keeps_mapping_alloc v run G o f v' r calls p M :
  reachDB c v run G -> op_ok v o -> op_dom o -> step c v o f = (v', r, calls) -> r <> RPanic -> r <> RStuck ->
  op_allocates_slots o -> used v G p M -> keeps_mapping M calls.
Proof.
  intros R Hok Hd Hs Hp Hk Hal U. unfold step in Hs. set (v0 := set_m v (clear_calls (set_fault (v_m v) f 0))) in *.
  pose proof (start_inv v run G f R) as I0. fold v0 in I0. set (ms0 := m_mems (v_m v)) in *.
  assert (P0 : prot G M v0 [] p).
  { apply used_prot; [apply (bb_G _ _ _ (reachDB_bal c Ha v run G R))|]. destruct U as (a & Sa & E). exists a. split; [apply slot_is_set_m; exact Sa|exact E]. }
  pose proof (used_allocated v G p M U (clear_calls (set_fault (v_m v) f 0))) as Hpa. fold v0 in Hpa.
  assert (C0 : m_calls (v_m v0) = []) by reflexivity.
  assert (Hfin : forall v1 r1, (match r1 with PANIC | STUCK => True | _ => NAv (calm M) v0 v1 end) -> result_of r1 = r -> keeps_mapping M (rev (m_calls (v_m v1)))).
  { intros v1 r1 HK Er. destruct r1 as [[]|code| |]; cbn in Er; subst r; try congruence; apply (calm_calls M v0 v1 C0 HK). }
  destruct o; try destruct Hal; cbn [exec op_ok op_dom] in *.
  - destruct (Z.eq_dec p slot) as [->|Hne].
    + unfold allocate_memory in Hs. rewrite Hpa in Hs. injection Hs as _ _ <-. apply keeps_nil.
    + pose proof (allocate_memory_K c Hc Hmax Hlarge ms0 G M v0 [] slot size align typeBits usage flags req pref ctb pool p I0 Hd Hok P0 Hne) as K.
      destruct (allocate_memory c v0 slot size align typeBits usage flags req pref ctb pool) as (v1 & r1). injection Hs as _ Er <-. apply (Hfin v1 r1 K Er).
  - destruct Hok as (H0 & Hn). destruct (in_dec Z.eq_dec p (slot_range slot (Z.to_nat n))) as [Hin|Hnin].
    + unfold allocate_memory_slice in Hs. cbn zeta in Hs. destruct (slot_range slot (Z.to_nat n)) as [|s0 tl] eqn:Es; [destruct Hin|]. rewrite <- Es in *.
      assert (Ex : existsb (fun s => a_allocated (get_alloc v0 s)) (slot_range slot (Z.to_nat n)) = true) by (apply existsb_exists; exists p; auto).
      rewrite Ex in Hs. injection Hs as _ _ <-. apply keeps_nil.
    + pose proof (allocate_memory_slice_K c Hc Hmax Hlarge ms0 G M v0 [] slot n size align typeBits usage flags req pref ctb pool p I0 Hd H0 Hn P0 Hnin) as K.
      destruct (allocate_memory_slice c v0 slot n size align typeBits usage flags req pref ctb pool) as (v1 & r1). injection Hs as _ Er <-. apply (Hfin v1 r1 K Er).
  - destruct (Z.eq_dec p slot) as [->|Hne].
    + unfold create_buffer in Hs. rewrite Hpa in Hs. injection Hs as _ _ <-. apply keeps_nil.
    + pose proof (create_buffer_K c Hc Hmax Hlarge ms0 G M v0 slot size devreq bufUsage minAlign usage flags req pref ctb pool p I0 Hd Hok P0 Hne) as K.
      destruct (create_buffer c v0 slot size devreq bufUsage minAlign usage flags req pref ctb pool) as (v1 & r1). injection Hs as _ Er <-. apply (Hfin v1 r1 K Er).
  - destruct (Z.eq_dec p slot) as [->|Hne].
    + unfold create_image in Hs. rewrite Hpa in Hs. injection Hs as _ _ <-. apply keeps_nil.
    + pose proof (create_image_K c Hc Hmax Hlarge ms0 G M v0 slot tiling width devreq imgUsage usage flags req pref ctb pool p I0 Hd Hok P0 Hne) as K.
      destruct (create_image c v0 slot tiling width devreq imgUsage usage flags req pref ctb pool) as (v1 & r1). injection Hs as _ Er <-. apply (Hfin v1 r1 K Er).
  - destruct (Z.eq_dec p slot) as [->|Hne].
    + unfold allocate_for_resource in Hs. destruct (res =? 0); [injection Hs as _ _ <-; apply keeps_nil|]. rewrite Hpa in Hs. injection Hs as _ _ <-. apply keeps_nil.
    + pose proof (allocate_for_resource_K c Hc Hmax Hlarge ms0 G M v0 slot image res usage flags req pref ctb pool p I0 Hok P0 Hne) as K.
      destruct (allocate_for_resource c v0 slot image res usage flags req pref ctb pool) as (v1 & r1). injection Hs as _ Er <-. apply (Hfin v1 r1 K Er).
Qed.

(* CreatePool: vkAllocateMemory for the minimum blocks, and on failure vkFreeMemory of what was made *)
Lemma create_pool_log M v ty flags blockSize minB maxB0 minAlign :
  RG M 1 v -> M <= m_next (v_m v) ->
  exists lF lU, m_calls (v_m (fst (create_pool c v ty flags blockSize minB maxB0 minAlign))) = lU ++ lF ++ m_calls (v_m v) /\ Forall (P M) lF /\ Forall quiet_call lU.
Proof.
  intros HR Hn. unfold create_pool. assert (Hnil : exists lF lU, m_calls (v_m v) = lU ++ lF ++ m_calls (v_m v) /\ Forall (P M) lF /\ Forall quiet_call lU) by (exists [], []; cbn; auto).
  destruct (_ <? minB); [exact Hnil|]. destruct (_ || _); [exact Hnil|]. destruct (negb _); [exact Hnil|]. destruct (_ && _); [exact Hnil|].
  match goal with |- context [create_min_blocks c (Z.to_nat minB) ?w ?lr0 ?bs] => set (v0 := w); set (bsz := bs) end.
  assert (HR0 : RG M 1 v0).
  { intros b (lr & l & Hg & Hb) Eb. apply HR; [|exact Eb]. exists lr, l. split; [|exact Hb]. destruct lr as [t|u]; [exact Hg|].
    cbn in Hg. cbn. destruct (v_next_uid v =? u); [injection Hg as <-; destruct Hb|exact Hg]. }
  pose proof (create_min_blocks_F c M (Z.to_nat minB) v0 (LPool (v_next_uid v)) bsz Hn) as (_ & _ & H1).
  destruct (H1 HR0) as (lF & EF & FF). destruct (create_min_blocks c (Z.to_nat minB) v0 (LPool (v_next_uid v)) bsz) as (v1 & r). cbn [fst] in EF.
  destruct r as [[]|code| |]; cbn [fst]; try (exists lF, []; cbn; split; [exact EF|auto]).
  pose proof (pool_destroy_L c quiet_call ltac:(intros; exact I) v1 (v_next_uid v)) as (l2 & E2 & F2).
  destruct (pool_destroy c v1 (v_next_uid v)) as (v2 & dr). cbn [fst] in *. unfold unlink_pool. cbn [v_m]. exists lF, l2. rewrite E2, EF. auto.
Qed.

(* C14: an API call leaves the mapping of every memory object alone that has a user before and after it *)
Theorem step_keeps_mapping v run G o f v' r calls p p' M :
  reachDB c v run G -> op_avoids run o -> op_ok v o -> op_dom o -> op_bal G o -> step c v o f = (v', r, calls) -> r <> RPanic -> r <> RStuck ->
  used v G p M -> used v' (gstep G o r) p' M -> keeps_mapping M calls.
Proof.
  intros R Hav Hok Hd Hbal Hs Hp Hk U U'.
  destruct o; try (apply (step_keeps_mapping_nonalloc c Ha v run G _ f v' r calls p p' M R Hav Hok Hd Hbal Hs Hp Hk ltac:(intros []) U U'));
    try (apply (step_keeps_mapping_alloc v run G _ f v' r calls p M R Hok Hd Hs Hp Hk I U)).
  (* CreatePool *)
  destruct (used_RG c Ha v run G p M R U) as (HR & Hn).
  assert (Hlog : succ_alloc_ne M calls /\ no_remap M calls).
  { unfold step in Hs. set (v0 := set_m v (clear_calls (set_fault (v_m v) f 0))) in *. cbn [exec] in Hs.
    destruct (create_pool_log M v0 ty flags blockSize minB maxB minAlign ltac:(eapply RG_same; [|exact HR]; intros; apply get_blist_set_m) Hn) as (lF & lU & El & FF & FU).
    destruct (create_pool c v0 ty flags blockSize minB maxB minAlign) as (v1 & r1). cbn [fst] in El. injection Hs as _ _ <-. rewrite El. cbn. rewrite app_nil_r.
    apply (fwd_quiet_log M lF lU FF FU). }
  apply (step_keeps_mapping_of c Ha v run G _ f v' r calls p p' M R Hav Hok Hd Hbal Hs Hp Hk U U' (proj1 Hlog) (proj2 Hlog)).
Qed.

End Reach.
