(* GenLeafTest.v — vm_compute sweep: the generated leaf functions (GenLeaf.v) against the
   hand-written models on grids of boundary inputs INSIDE the domains of the theorems of
   GenLeafProofs.v.  This file proves nothing new; it is the failing-input SEARCH for the second
   tie: when a theorem of GenLeafProofs.v breaks, bin/leaf-search evaluates the diff_<name>
   definitions below one by one (each chunk between "FUNC <name>" and "CHECK" together with the
   preamble, without the Examples) and prints the first input on which generated function and
   model differ.  The chunk markers are read by bin/leaf-search; keep their format.
   Imports only GoSem, GenLeaf and the hand models (NOT GenLeafProofs). *)
(* PREAMBLE *)
From Coq Require Import ZArith Bool List.
From Arsenal Require Import Util Gran Tlsf Pass Linear SyncMem Select GoSem GenLeaf.
Import ListNotations.
Open Scope Z_scope.

(* first grid point (inside the domain dom) on which f and g differ: (arguments, f, g) *)
Definition first_diff {A B : Type} (show : A -> list Z) (eqb : B -> B -> bool) (dom : A -> bool)
           (f g : A -> B) (grid : list A) : option (list Z * B * B) :=
  match find (fun a => dom a && negb (eqb (f a) (g a))) grid with
  | Some a => Some (show a, f a, g a)
  | None => None
  end.

Definition pair_eqb {A B : Type} (ea : A -> A -> bool) (eb : B -> B -> bool) (x y : A * B) : bool :=
  ea (fst x) (fst y) && eb (snd x) (snd y).

Definition outcome_eqb {A S : Type} (ea : A -> A -> bool) (es : S -> S -> bool) (x y : outcome A S) : bool :=
  match x, y with
  | Ret a, Ret b => ea a b
  | Panic s, Panic u => es s u
  | Diverge, Diverge => true
  | _, _ => false
  end.

Definition unit_eqb (x y : unit) : bool := true.

Definition zrange (lo n : nat) : list Z := map Z.of_nat (seq lo n).
Definition near (l : list Z) : list Z := flat_map (fun x => [x - 1; x; x + 1]) l.
Definition pows2 (lo n : nat) : list Z := map (fun k => 2 ^ k) (zrange lo n).
Definition prod2 {A B : Type} (la : list A) (lb : list B) : list (A * B) := list_prod la lb.

(* sizes: around every power of two up to 2^62, around every second-level boundary of some
   classes, and the small-buffer boundaries *)
Definition sizes : list Z :=
  [0; 1; 2; 3; 63; 64; 65; 127; 128; 129; 191; 192; 193; 255; 256; 257; 258; 319; 320; 321;
   383; 384; 385; 447; 448; 449; 511; 512; 513; 1000; 4095; 4096; 4097; 4194303; 4194304; 4194305]
  ++ near (pows2 2 61)
  ++ flat_map (fun k => flat_map (fun j => near [2 ^ k + j * 2 ^ (k - 5)]) (zrange 0 32)) [8; 9; 10; 20; 38; 61].
Definition signed_sizes : list Z := sizes ++ map Z.opp sizes ++ [- 2 ^ 63; - 2 ^ 63 + 1; 2 ^ 63 - 1].
Definition aligns : list Z := [0; 3; 5; 6; 7; 12; 100] ++ pows2 0 63.
Definition offs : list Z :=
  [0; 1; 2; 255; 256; 257; 511; 512; 513; 1023; 1024; 1025; 4095; 4096; 4097; 65535; 65536; 65537;
   - 1; - 2; - 256; - 257; - 1024; - 1025]
  ++ near (pows2 17 23) ++ [2 ^ 62; 2 ^ 63 - 1; - 2 ^ 63].
Definition few_sizes : list Z := [0; 1; 2; 255; 256; 257; 1000; 4096; 65535; 65536; 65537; 2 ^ 39 - 1; 2 ^ 39].
Definition vals : list Z :=
  [0; 1; 2; 3; 255; 256; 257; 1023; 1024; 1025; 4095; 4096; 4097; 65535; 65536; 65537; 2 ^ 39 - 1; 2 ^ 39; 2 ^ 39 + 1;
   2 ^ 62; 2 ^ 63 - 1; - 1; - 2; - 256; - 257; - 1024; - 1025; - 2 ^ 63 + 1; - 2 ^ 63].
Definition in_i64 (x : Z) : bool := (- 2 ^ 63 <=? x) && (x <? 2 ^ 63).
(* END PREAMBLE *)

(* FUNC AlignUp *)
Definition diff_AlignUp :=
  first_diff (fun '(v, a) => [v; a]) Z.eqb
    (fun '(v, a) => (0 <=? a) && (a <? 2 ^ 63) && (- 2 ^ 63 <? v + a) && (v + a <=? 2 ^ 63))
    (fun '(v, a) => GenLeaf.AlignUp v a) (fun '(v, a) => align_up v a) (prod2 vals aligns).
(* CHECK *)
Example sweep_AlignUp : diff_AlignUp = None. Proof. vm_compute. reflexivity. Qed.

(* FUNC AlignDown *)
Definition diff_AlignDown :=
  first_diff (fun '(v, a) => [v; a]) Z.eqb
    (fun '(v, a) => (0 <=? a) && (a <=? 2 ^ 63))
    (fun '(v, a) => GenLeaf.AlignDown v a) (fun '(v, a) => align_down v a) (prod2 vals aligns).
(* CHECK *)
Example sweep_AlignDown : diff_AlignDown = None. Proof. vm_compute. reflexivity. Qed.

(* FUNC sizeToMemoryClass *)
Definition diff_sizeToMemoryClass :=
  first_diff (fun s => [s]) Z.eqb in_i64 GenLeaf.sizeToMemoryClass size_to_class signed_sizes.
(* CHECK *)
Example sweep_sizeToMemoryClass : diff_sizeToMemoryClass = None. Proof. vm_compute. reflexivity. Qed.

(* FUNC sizeToSecondIndex *)
Definition diff_sizeToSecondIndex :=
  first_diff (fun '(s, mc) => [s; mc]) Z.eqb
    (fun '(s, mc) => (0 <=? s) && (s <? 2 ^ 63) && (0 <=? mc) && (mc <=? 248) && ((negb (mc =? 0)) || (s <=? 2 ^ 22)))
    (fun '(s, mc) => GenLeaf.sizeToSecondIndex s mc) (fun '(s, mc) => size_to_sli s mc)
    (map (fun s => (s, size_to_class s)) sizes ++ prod2 sizes (zrange 0 58 ++ [248])).
(* CHECK *)
Example sweep_sizeToSecondIndex : diff_sizeToSecondIndex = None. Proof. vm_compute. reflexivity. Qed.

(* FUNC getListIndex *)
Definition diff_getListIndex :=
  first_diff (fun '(mc, sli) => [mc; sli]) Z.eqb (fun _ => true)
    (fun '(mc, sli) => GenLeaf.getListIndex mc sli) (fun '(mc, sli) => list_index mc sli)
    (prod2 (zrange 0 256) ([0; 1; 2; 3; 4; 5; 30; 31; 32; 33; 255; 256; 65534; 65535])).
(* CHECK *)
Example sweep_getListIndex : diff_getListIndex = None. Proof. vm_compute. reflexivity. Qed.

(* FUNC getListIndexFromSize *)
Definition diff_getListIndexFromSize :=
  first_diff (fun s => [s]) Z.eqb (fun s => (0 <=? s) && (s <? 2 ^ 63))
    GenLeaf.getListIndexFromSize list_of_size sizes.
(* CHECK *)
Example sweep_getListIndexFromSize : diff_getListIndexFromSize = None. Proof. vm_compute. reflexivity. Qed.

(* FUNC sizeForNextList *)
Definition diff_sizeForNextList :=
  first_diff (fun s => [s]) (outcome_eqb Z.eqb unit_eqb) (fun s => (- 2 ^ 63 <=? s) && (s <? 2 ^ 62))
    GenLeaf.sizeForNextList (fun s => Ret (size_for_next_list s)) signed_sizes.
(* CHECK *)
Example sweep_sizeForNextList : diff_sizeForNextList = None. Proof. vm_compute. reflexivity. Qed.

(* FUNC AllocationsConflict *)
Definition diff_AllocationsConflict :=
  first_diff (fun '(a, b) => [a; b]) Bool.eqb (fun _ => true)
    (fun '(a, b) => GenLeaf.AllocationsConflict a b) (fun '(a, b) => conflict a b)
    (prod2 (zrange 0 9 ++ [2 ^ 32 - 1]) (zrange 0 9 ++ [2 ^ 32 - 1])).
(* CHECK *)
Example sweep_AllocationsConflict : diff_AllocationsConflict = None. Proof. vm_compute. reflexivity. Qed.

(* FUNC RoundUpAllocRequest *)
Definition diff_RoundUpAllocRequest :=
  first_diff (fun '(gr, atype, size, align) => [gr; atype; size; align]) (pair_eqb Z.eqb Z.eqb)
    (fun '(gr, atype, size, align) => (0 <=? gr) && (gr <? 2 ^ 63) && (- 2 ^ 63 <? size + gr) && (size + gr <=? 2 ^ 63))
    (fun '(gr, atype, size, align) => GenLeaf.RoundUpAllocRequest gr atype size align)
    (fun '(gr, atype, size, align) => round_up (mkGran HVam gr []) atype size align)
    (prod2 (prod2 (prod2 [0; 1; 2; 4; 16; 128; 255; 256; 257; 512; 1024; 65536; 2 ^ 39] (zrange 0 7)) few_sizes)
           [1; 2; 255; 256; 257; 512; 1024; 65536; 2 ^ 39]).
(* CHECK *)
Example sweep_RoundUpAllocRequest : diff_RoundUpAllocRequest = None. Proof. vm_compute. reflexivity. Qed.

(* FUNC IsEnabled *)
Definition diff_IsEnabled :=
  first_diff (fun gr => [gr]) Bool.eqb (fun _ => true)
    GenLeaf.IsEnabled (fun gr => enabled (mkGran HVam gr [])) (zrange 0 300 ++ pows2 0 64).
(* CHECK *)
Example sweep_IsEnabled : diff_IsEnabled = None. Proof. vm_compute. reflexivity. Qed.

(* FUNC offsetToRegionIndex *)
Definition diff_offsetToRegionIndex :=
  first_diff (fun '(gr, off) => [gr; off]) (outcome_eqb Z.eqb unit_eqb)
    (fun '(gr, off) => (1 <=? gr) && (gr <? 2 ^ 64))
    (fun '(gr, off) => GenLeaf.offsetToRegionIndex gr off)
    (fun '(gr, off) => Ret (Z.shiftr off (Z.log2 gr)))
    (prod2 (near (pows2 0 64)) offs).
(* CHECK *)
Example sweep_offsetToRegionIndex : diff_offsetToRegionIndex = None. Proof. vm_compute. reflexivity. Qed.

(* FUNC getStartSlot *)
Definition diff_getStartSlot :=
  first_diff (fun '(gr, off) => [gr; off]) (outcome_eqb Z.eqb unit_eqb)
    (fun '(gr, off) => (1 <=? gr) && (gr <=? 2 ^ 63))
    (fun '(gr, off) => GenLeaf.getStartSlot gr off)
    (fun '(gr, off) => Ret (start_slot (mkGran HVam gr []) off))
    (prod2 (near (pows2 0 64)) vals).
(* CHECK *)
Example sweep_getStartSlot : diff_getStartSlot = None. Proof. vm_compute. reflexivity. Qed.

(* FUNC getEndSlot *)
Definition diff_getEndSlot :=
  first_diff (fun '(gr, off, size) => [gr; off; size]) (outcome_eqb Z.eqb unit_eqb)
    (fun '(gr, off, size) => (1 <=? gr) && (gr <=? 2 ^ 63) && in_i64 size && (- 2 ^ 63 <? off + size) && (off + size <=? 2 ^ 63))
    (fun '(gr, off, size) => GenLeaf.getEndSlot gr off size)
    (fun '(gr, off, size) => Ret (end_slot (mkGran HVam gr []) off size))
    (prod2 (prod2 [1; 2; 3; 256; 512; 1000; 1024; 65536; 2 ^ 39; 2 ^ 63] vals) few_sizes).
(* CHECK *)
Example sweep_getEndSlot : diff_getEndSlot = None. Proof. vm_compute. reflexivity. Qed.

(* FUNC checkCounters *)
Definition t_counter_code (c : counter) : Z := match c with CPass => 0 | CIgnore => 1 | CEnd => 2 end.
Definition t_pass (maxb maxa bm am ign : Z) : pass := mkPass maxb maxa (mkPS bm 7 am 9) ign.
Definition pass_eqb (p q : pass) : bool :=
  (p_max_bytes p =? p_max_bytes q) && (p_max_allocs p =? p_max_allocs q) && (p_ignored p =? p_ignored q)
  && (ps_bytes_moved (p_stats p) =? ps_bytes_moved (p_stats q)) && (ps_bytes_freed (p_stats p) =? ps_bytes_freed (p_stats q))
  && (ps_allocs_moved (p_stats p) =? ps_allocs_moved (p_stats q)) && (ps_allocs_freed (p_stats p) =? ps_allocs_freed (p_stats q)).
(* (status, ignoredAllocs', frame): frame = the model changed nothing but ignoredAllocs *)
Definition triple_eqb (x y : Z * Z * bool) : bool :=
  (fst (fst x) =? fst (fst y)) && (snd (fst x) =? snd (fst y)) && Bool.eqb (snd x) (snd y).
Definition diff_checkCounters :=
  first_diff (fun '(maxb, maxa, bm, am, ign, bytes) => [maxb; maxa; bm; am; ign; bytes])
    triple_eqb (fun _ => true)
    (fun '(maxb, maxa, bm, am, ign, bytes) => (GenLeaf.checkCounters maxb maxa bm am ign bytes, true))
    (fun '(maxb, maxa, bm, am, ign, bytes) =>
       let p := t_pass maxb maxa bm am ign in
       let r := check_counters p bytes in
       (t_counter_code (snd r), p_ignored (fst r), pass_eqb (fst r) (set_ignored p (p_ignored (fst r)))))
    (prod2 (prod2 (prod2 (prod2 (prod2 [0; 1; 100; 1000; 2 ^ 62] [0; 1; 2; 5; 2 ^ 62]) [0; 1; 99; 100; 101; 999; 1000])
                         [0; 1; 2; 4; 5; 6]) [0; 1; 14; 15; 16; 17]) [0; 1; 2; 99; 100; 900; 1000; 1001]).
(* CHECK *)
Example sweep_checkCounters : diff_checkCounters = None. Proof. vm_compute. reflexivity. Qed.

(* FUNC incrementCounters *)
Definition t_pass2 (maxb maxa bm am : Z) : pass := mkPass maxb maxa (mkPS bm 7 am 9) 3.
Definition pass_eqb2 (p q : pass) : bool :=
  (p_max_bytes p =? p_max_bytes q) && (p_max_allocs p =? p_max_allocs q) && (p_ignored p =? p_ignored q)
  && (ps_bytes_moved (p_stats p) =? ps_bytes_moved (p_stats q)) && (ps_bytes_freed (p_stats p) =? ps_bytes_freed (p_stats q))
  && (ps_allocs_moved (p_stats p) =? ps_allocs_moved (p_stats q)) && (ps_allocs_freed (p_stats p) =? ps_allocs_freed (p_stats q)).
(* both sides as (0 continue / 1 stop / 2 panic, BytesMoved', AllocationsMoved', frame) *)
Definition quad_eqb (x y : Z * Z * Z * bool) : bool :=
  let '(a, b, c, d) := x in let '(a', b', c', d') := y in (a =? a') && (b =? b') && (c =? c') && Bool.eqb d d'.
Definition diff_incrementCounters :=
  first_diff (fun '(maxb, maxa, bm, am, bytes) => [maxb; maxa; bm; am; bytes])
    quad_eqb (fun _ => true)
    (fun '(maxb, maxa, bm, am, bytes) =>
       match GenLeaf.incrementCounters maxb maxa bm am bytes with
       | Ret (b, bm', am') => ((if b : bool then 1 else 0), bm', am', true)
       | Panic (bm', am') => (2, bm', am', true)
       | Diverge => (3, 0, 0, true)
       end)
    (fun '(maxb, maxa, bm, am, bytes) =>
       let p := t_pass2 maxb maxa bm am in
       let r := increment_counters p bytes in
       let s := p_stats (fst r) in
       (match snd r with IContinue => 0 | IStop => 1 | IPanic => 2 end, ps_bytes_moved s, ps_allocs_moved s,
        pass_eqb2 (fst r) (set_stats p (mkPS (ps_bytes_moved s) 7 (ps_allocs_moved s) 9))))
    (prod2 (prod2 (prod2 (prod2 [0; 1; 100; 1000; 2 ^ 62] [0; 1; 2; 5; 2 ^ 62]) [0; 1; 99; 100; 101; 999; 1000])
                  [0; 1; 2; 4; 5; 6]) [0; 1; 2; 99; 100; 900; 1000; 1001]).
(* CHECK *)
Example sweep_incrementCounters : diff_incrementCounters = None. Proof. vm_compute. reflexivity. Qed.

(* FUNC blocksOnSamePage *)
Definition diff_blocksOnSamePage :=
  first_diff (fun '(o1, s1, o2, pg) => [o1; s1; o2; pg]) (outcome_eqb Bool.eqb unit_eqb)
    (fun '(o1, s1, o2, pg) => (- 2 ^ 63 <? o1 + s1) && (o1 + s1 <? 2 ^ 63) && (- 2 ^ 63 <? pg) && (pg <=? 2 ^ 63))
    (fun '(o1, s1, o2, pg) => GenLeaf.blocksOnSamePage o1 s1 o2 pg)
    (fun '(o1, s1, o2, pg) => match blocks_on_same_page o1 s1 o2 pg with Some b => Ret b | None => Panic tt end)
    (prod2 (prod2 (prod2 [0; 1; 255; 256; 257; 1000; 1023; 1024; 65536; 2 ^ 39] [- 1; 0; 1; 2; 255; 256; 257; 1024; 2 ^ 39])
                  [0; 1; 255; 256; 257; 511; 512; 1023; 1024; 1025; 2047; 2048; 65536; 2 ^ 39; 2 ^ 40])
           [- 1; 0; 1; 2; 3; 256; 512; 1024; 65536; 2 ^ 39]).
(* CHECK *)
Example sweep_blocksOnSamePage : diff_blocksOnSamePage = None. Proof. vm_compute. reflexivity. Qed.

(* FUNC postMapUnmap *)
Definition sm_eqb (a b : sm) : bool :=
  (mapRefs a =? mapRefs b) && Bool.eqb (mapped a) (mapped b) && (delayCounter a =? delayCounter b)
  && (statusCounter a =? statusCounter b) && Bool.eqb (extra a) (extra b) && Bool.eqb (freed a) (freed b).
(* (result, delayCounter', statusCounter', extraMapping', frame) *)
Definition quint_eqb (x y : bool * Z * Z * bool * bool) : bool :=
  let '(a, b, c, d, e) := x in let '(a', b', c', d', e') := y in
  Bool.eqb a a' && (b =? b') && (c =? c') && Bool.eqb d d' && Bool.eqb e e'.
Definition diff_postMapUnmap :=
  first_diff (fun '(d, st, ex) => [d; st; (if ex : bool then 1 else 0)]) quint_eqb (fun _ => true)
    (fun '(d, st, ex) => (GenLeaf.postMapUnmap d st ex, true))
    (fun '(d, st, ex) =>
       let s := mkSm 5 true d st ex false in
       let r := post_map_unmap s in
       (snd r, delayCounter (fst r), statusCounter (fst r), extra (fst r),
        sm_eqb (fst r) (set_extra (set_counters s (delayCounter (fst r)) (statusCounter (fst r))) (extra (fst r)))))
    (prod2 (prod2 (zrange 0 9 ++ [2 ^ 32 - 2; 2 ^ 32 - 1])
                  (zrange 0 4 ++ [- 1; - 2; - 3; 2 ^ 31 - 2; 2 ^ 31 - 1; - 2 ^ 31; - 2 ^ 31 + 1])) [false; true]).
(* CHECK *)
Example sweep_postMapUnmap : diff_postMapUnmap = None. Proof. vm_compute. reflexivity. Qed.

(* FUNC findMemoryPreferences *)
Definition t_bufimgs : list (option N) := [None; Some 0%N; Some 1%N; Some 3%N; Some 4%N; Some 16%N; Some 4294967295%N].
Definition t_has (b : option N) : bool := match b with Some _ => true | None => false end.
Definition t_val (b : option N) : Z := match b with Some u => Z.of_N u | None => 0 end.
Definition t_show_b (b : option N) : Z := match b with Some u => Z.of_N u | None => -1 end.
Definition z3_eqb (x y : Z * Z * Z) : bool :=
  let '(a, b, c) := x in let '(a', b', c') := y in (a =? a') && (b =? b') && (c =? c').
Definition t_z3 (t : N * N * N) : Z * Z * Z := let '(a, b, c) := t in (Z.of_N a, Z.of_N b, Z.of_N c).
(* arguments printed: integrated usage flags required preferred bufferOrImageUsage(-1 = nil) *)
Definition diff_findMemoryPreferences :=
  first_diff (fun '(ig, us, fl, rq, pf, bi) => [(if ig : bool then 1 else 0); Z.of_N us; Z.of_N fl; Z.of_N rq; Z.of_N pf; t_show_b bi])
    z3_eqb (fun _ => true)
    (fun '(ig, us, fl, rq, pf, bi) =>
       GenLeaf.findMemoryPreferences ig (Z.of_N us) (Z.of_N fl) (Z.of_N rq) (Z.of_N pf) (t_has bi) (t_val bi))
    (fun '(ig, us, fl, rq, pf, bi) => t_z3 (find_prefs ig us fl rq pf bi))
    (prod2 (prod2 (prod2 (prod2 (prod2 [false; true] [0; 1; 2; 3; 4; 5]%N) [0; 1; 4; 128; 256; 512; 384; 640; 768; 896]%N)
                         [0; 2; 64; 128; 2147483647]%N) [0; 1; 8; 64; 128]%N) t_bufimgs).
(* CHECK *)
Example sweep_findMemoryPreferences : diff_findMemoryPreferences = None. Proof. vm_compute. reflexivity. Qed.

(* FUNC findMemoryTypeIndex *)
Definition t_bufimgs2 : list (option N) := [None; Some 3%N; Some 16%N].
Definition t_has2 (b : option N) : bool := match b with Some _ => true | None => false end.
Definition t_val2 (b : option N) : Z := match b with Some u => Z.of_N u | None => 0 end.
Definition t_tables : list (list N) :=
  [[]; [1]; [0; 1; 6; 7; 14]; [6; 1; 7; 15; 1; 6]; [65; 193; 1; 7]; [16; 17; 2; 10; 3; 11; 1]]%N.
Definition t_found (r : option nat) : outcome (Z * Z * bool) unit :=
  match r with Some i => Ret (Z.of_nat i, 0, false) | None => Ret (-1, -8, true) end.
Definition res3_eqb (x y : Z * Z * bool) : bool :=
  let '(a, b, c) := x in let '(a', b', c') := y in (a =? a') && (b =? b') && Bool.eqb c c'.
(* arguments printed: table# integrated usage flags typeBits o.MemoryTypeBits global required preferred usage(-1 = nil) *)
Definition diff_findMemoryTypeIndex :=
  first_diff (fun '(ti, ig, us, fl, tb, ctb, gl, rq, pf, bi) =>
                [Z.of_nat ti; (if ig : bool then 1 else 0); Z.of_N us; Z.of_N fl; Z.of_N tb; Z.of_N ctb; Z.of_N gl; Z.of_N rq; Z.of_N pf;
                 match bi with Some u => Z.of_N u | None => -1 end])
    (outcome_eqb res3_eqb unit_eqb) (fun _ => true)
    (fun '(ti, ig, us, fl, tb, ctb, gl, rq, pf, bi) =>
       GenLeaf.findMemoryTypeIndex (Z.of_N gl) ig (Z.of_N us) (Z.of_N fl) (Z.of_N rq) (Z.of_N pf) (t_has2 bi) (t_val2 bi)
                                   (Z.of_N ctb) (map Z.of_N (nth ti t_tables [])) (Z.of_N tb))
    (fun '(ti, ig, us, fl, tb, ctb, gl, rq, pf, bi) =>
       let '(req, pref, npref) := find_prefs ig us fl rq pf bi in
       t_found (find_type (nth ti t_tables []) gl tb ctb req pref npref))
    (prod2 (prod2 (prod2 (prod2 (prod2 (prod2 (prod2 (prod2 (prod2 (seq 0 6) [false; true]) [0; 1; 2; 4]%N) [0; 128; 256]%N)
                                       [0; 5; 15; 4294967295]%N) [0; 5]%N) [4294967295; 3]%N) [0; 2]%N) [0; 8]%N) t_bufimgs2).
(* CHECK *)
Example sweep_findMemoryTypeIndex : diff_findMemoryTypeIndex = None. Proof. vm_compute. reflexivity. Qed.

(* FUNC shouldCompactFirstVector *)
Definition t_linear (nb nm : Z) (n : nat) : linear :=
  mkL 1000 1 (mkGran HFake 1 []) (repeat (mkSub 0 1 None 1 1 1) n) [] false MEmpty 0 nb nm 0.
Definition diff_shouldCompactFirstVector :=
  first_diff (fun '(nb, nm, n) => [nb; nm; Z.of_nat n]) Bool.eqb (fun _ => true)
    (fun '(nb, nm, n) => GenLeaf.shouldCompactFirstVector nb nm (Z.of_nat n))
    (fun '(nb, nm, n) => should_compact (t_linear nb nm n))
    (prod2 (prod2 [0; 1; 10; 19; 20; 21; 30; 40; 60] [0; 1; 5; 10]) [0; 1; 31; 32; 33; 34; 35; 40; 50; 100]%nat).
(* CHECK *)
Example sweep_shouldCompactFirstVector : diff_shouldCompactFirstVector = None. Proof. vm_compute. reflexivity. Qed.
(* END *)
