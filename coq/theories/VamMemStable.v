(* VamMemStable.v — device memory objects are never re-created under an old id: across any function of the model,
   an object of the state after whose id was already issued before is an object of the state before, with the same
   memory type and size.  (vkAllocateMemory hands out fresh handles; the model numbers them with m_next.) *)
From Coq Require Import ZArith List Bool Lia Permutation.
From Arsenal Require Import Util Budget VamDev VamBlockList VamDefrag Vam VamInvMeta VamInv VamInvUpd VamInvDev VamInvStep VamInvStep2.
From Arsenal Require Import VamAcct.
From Arsenal Require Pass Defrag SyncMem.
Import ListNotations.
Open Scope Z_scope.

(* resources (buffers, images): the creation counter never goes down, and a resource of the state after either has the id
   of a resource of the state before or an id the counter has reached since *)
Definition res_key (r : VamDev.dres) : Z * Z * resreq := (rs_id r, rs_kind r, rs_req r).

Definition res_keep (m m' : mach) : Prop :=
  m_next_res m <= m_next_res m' /\
  forall r', In r' (m_res m') -> (exists r, In r (m_res m) /\ res_key r = res_key r') \/ (m_next_res m < rs_id r' <= m_next_res m').

Lemma res_keep_refl m : res_keep m m.
Proof. split; [lia|]. intros r' H. left. eauto. Qed.

Lemma res_keep_trans a b d : res_keep a b -> res_keep b d -> res_keep a d.
Proof.
  intros (A1 & A2) (B1 & B2). split; [lia|]. intros r'' H. destruct (B2 r'' H) as [(r' & H' & E')|Hle]; [|right; lia].
  destruct (A2 r' H') as [(r & Hr & E)|Hle]; [left; exists r; split; [exact Hr|congruence]|right].
  assert (rs_id r' = rs_id r'') by (unfold res_key in E'; congruence). lia.
Qed.

Lemma res_keep_eq m m' : m_res m' = m_res m -> m_next_res m' = m_next_res m -> res_keep m m'.
Proof. intros E1 E2. split; [lia|]. intros r' H. rewrite E1 in H. left. eauto. Qed.

Definition MS (m m' : mach) : Prop :=
  (m_next m <= m_next m' /\ res_keep m m') /\
  forall d', In d' (m_mems m') -> dm_id d' <= m_next m -> exists d, In d (m_mems m) /\ mem_key d = mem_key d'.

Lemma MS_refl m : MS m m.
Proof. split; [split; [lia|apply res_keep_refl]|]. intros d' H _. eauto. Qed.

Lemma MS_trans a b d : MS a b -> MS b d -> MS a d.
Proof.
  intros ((A1 & A1r) & A2) ((B1 & B1r) & B2). split; [split; [lia|eapply res_keep_trans; eauto]|]. intros x Hx Hi. destruct (B2 x Hx ltac:(lia)) as (y & Hy & Ey).
  assert (Hiy : dm_id y <= m_next a) by (unfold mem_key in Ey; injection Ey as E1 _ _; lia).
  destruct (A2 y Hy Hiy) as (z & Hz & Ez). exists z. split; [exact Hz|congruence].
Qed.

Lemma mems_same_in_key ms ms' d' : mems_same ms ms' -> In d' ms' -> exists d, In d ms /\ mem_key d = mem_key d'.
Proof.
  unfold mems_same. revert ms'. induction ms as [|x ms IH]; intros ms' E H; destruct ms' as [|y ms']; cbn in *; try discriminate; [destruct H|].
  assert (E1 : mem_key x = mem_key y) by congruence. assert (E2 : map mem_key ms = map mem_key ms') by congruence.
  destruct H as [->|H]; [exists x; auto|]. destruct (IH _ E2 H) as (d & Hd & Ed). eauto.
Qed.

Lemma MS_same m m' : mach_same m m' -> res_keep m m' -> MS m m'.
Proof. intros (A & B) R. split; [split; [exact B|exact R]|]. intros d' Hd _. eapply mems_same_in_key; eauto. Qed.

Ltac res_tac := apply res_keep_eq; (cbn; repeat (match goal with |- context [match ?e with _ => _ end] => destruct e | |- context [if ?e then _ else _] => destruct e end; cbn); reflexivity).

Lemma remove_mem_in ms id d : In d (remove_mem ms id) -> In d ms.
Proof. induction ms as [|x ms IH]; cbn; [tauto|]. destruct (dm_id x =? id); [auto|]. intros [->|H]; auto. Qed.

Section WithCfg.
Variable c : vcfg.

Lemma free_vk_MS m ty size mem : MS m (fst (free_vk c m ty size mem)).
Proof.
  destruct (free_vk_spec c m ty size mem) as (E1 & E2). split; [split; [lia|unfold free_vk, dev_free; res_tac]|]. intros d' Hd _. rewrite E1 in Hd. exists d'. split; [eapply remove_mem_in; eauto|reflexivity].
Qed.

Lemma dev_alloc_MS m ty size ded : MS m (fst (fst (dev_alloc c m ty size ded))).
Proof.
  unfold dev_alloc. destruct (negb _); [apply MS_same; [apply mach_same_log|res_tac]|]. destruct (size <=? 0); [apply MS_same; [apply mach_same_log|res_tac]|].
  destruct (dev_fault (m_fault m) (m_fired m) 0) as ((f1 & fired1) & r).
  assert (H1 : mach_same m (set_fault m f1 fired1)) by apply mach_same_set_fault.
  destruct (negb (r =? 0)); [apply MS_same; [eapply mach_same_trans; [exact H1|apply mach_same_log]|res_tac]|].
  destruct (_ && _); [apply MS_same; [eapply mach_same_trans; [exact H1|apply mach_same_log]|res_tac]|].
  destruct (_ <? _); [apply MS_same; [eapply mach_same_trans; [exact H1|apply mach_same_log]|res_tac]|].
  destruct (DEV_TABLE <=? _).
  - cbn [fst]. split; [split; [cbn; lia|apply res_keep_eq; reflexivity]|]. intros d' Hd _. cbn in Hd. exists d'. auto.
  - cbn [fst]. split; [split; [cbn; lia|apply res_keep_eq; reflexivity]|]. intros d' Hd Hi. cbn in Hd. apply in_app_iff in Hd. destruct Hd as [Hd|[<-|[]]]; [exists d'; auto|]. cbn in Hi. lia.
Qed.

Lemma alloc_vk_MS m ty size ded : MS m (fst (alloc_vk c m ty size ded)).
Proof.
  unfold alloc_vk. pose proof (dev_alloc_MS m ty size ded) as D. destruct (dev_alloc c m ty size ded) as ((m1 & code) & id). cbn [fst] in D.
  unfold Budget.alloc_mem. destruct (Budget.maxCount _ <? _); [cbn; apply MS_same; [apply mach_same_set_bud|res_tac]|].
  match goal with |- context [match ?x with Some _ => _ | None => _ end] => destruct x as [s2|] end; [|cbn; apply MS_same; [apply mach_same_set_bud|res_tac]].
  destruct (negb (code =? 0)).
  - destruct (Budget.remove_block _ _ _) as (s3 & p). cbn. eapply MS_trans; [exact D|apply MS_same; [apply mach_same_set_bud|res_tac]].
  - cbn. eapply MS_trans; [exact D|apply MS_same; [apply mach_same_set_bud|res_tac]].
Qed.


(* ---------------------------------------------------------------- through the functions of the model *)

Definition MSv (v v' : vam) : Prop := MS (v_m v) (v_m v').

Lemma MSv_refl v : MSv v v.
Proof. apply MS_refl. Qed.
Lemma MSv_trans a b d : MSv a b -> MSv b d -> MSv a d.
Proof. apply MS_trans. Qed.

(* the machine of the result is unchanged *)
Lemma MSv_eq v v' : v_m v' = v_m v -> MSv v v'.
Proof. intros E. unfold MSv. rewrite E. apply MS_refl. Qed.

Ltac vm_simp := repeat (rewrite ?put_block_m, ?set_blist_m, ?set_dedlist_m; cbn [v_m set_m set_alloc set_tab set_pools set_lists set_ded fst]).

(* leaf: the machine of the result is some machine reached through the MS facts in the context *)
Ltac ms_chain := first [apply MS_refl | eassumption | (eapply MS_trans; [eassumption|]; ms_chain)].
Ltac msfin := unfold MSv in *; vm_simp; ms_chain.

Hint Resolve MS_refl : ms.

Lemma sort_list_m v lr : v_m (sort_list v lr) = v_m v.
Proof. unfold sort_list. destruct (get_blist v lr); [apply set_blist_m|reflexivity]. Qed.

Lemma sm_sub_MS m mem s : MS m (fst (sm_sub m mem s)).
Proof. apply MS_same; [apply sm_sub_same|]. unfold sm_sub, dev_unmap. destruct (SyncMem.do_sub s) as ((s1 & r) & cs). destruct cs; res_tac. Qed.
Lemma sm_map_MS m mem s : MS m (fst (fst (sm_map c m mem s))).
Proof.
  apply MS_same; [apply sm_map_same|]. unfold sm_map. assert (R : res_keep m (fst (dev_map c m mem))) by (unfold dev_map; res_tac).
  destruct (dev_map c m mem) as (m1 & code). cbn [fst] in R. destruct (SyncMem.do_map s 1 _) as ((s1 & r) & cs). destruct cs; cbn [fst]; [apply res_keep_refl|exact R].
Qed.
Lemma sm_unmap_MS m mem s : MS m (fst (fst (sm_unmap m mem s))).
Proof. apply MS_same; [apply sm_unmap_same|]. unfold sm_unmap, dev_unmap. destruct (SyncMem.do_unmap s 1) as ((s1 & r) & cs). destruct cs; res_tac. Qed.
Lemma heap_budget_MS m h : MS m (fst (fst (heap_budget c m h))).
Proof. apply MS_same; [apply heap_budget_same|]. unfold heap_budget. destruct (Budget.heap_budget _ _ _ _) as ((b' & r) & cs). destruct r; res_tac. Qed.
Lemma remove_allocation_MS m h size : MS m (fst (remove_allocation c m h size)).
Proof. apply MS_same; [apply remove_allocation_same|]. unfold remove_allocation. destruct (Budget.remove_alloc _ _ _ _) as ((b' & r) & cs). res_tac. Qed.
Lemma add_allocation_MS m h size : MS m (add_allocation c m h size).
Proof. apply MS_same; [apply add_allocation_same|]. unfold add_allocation. destruct (Budget.add_alloc _ _ _ _) as ((b' & r) & cs). res_tac. Qed.

Lemma replace_res_in l nr r' : In r' (replace_res l nr) -> In r' l \/ r' = nr.
Proof.
  induction l as [|x l IH]; cbn; [tauto|]. destruct (rs_id x =? rs_id nr) eqn:E.
  - intros [<-|H]; auto.
  - intros [<-|H]; [auto|]. destruct (IH H); auto.
Qed.

Lemma find_res_in' l id r : find_res l id = Some r -> In r l.
Proof. induction l as [|x l IH]; cbn; [discriminate|]. destruct (rs_id x =? id); [intros E; injection E as ->; auto|auto]. Qed.

Lemma remove_res_in l id r : In r (remove_res l id) -> In r l.
Proof. induction l as [|x l IH]; cbn; [tauto|]. destruct (rs_id x =? id); [auto|]. intros [->|H]; auto. Qed.

Lemma dev_bind_MS m image res mem off : MS m (fst (dev_bind m image res mem off)).
Proof.
  apply MS_same; [apply dev_bind_same|]. unfold dev_bind. destruct (find_res _ _) as [d|] eqn:Ef; [|res_tac]. destruct (find_mem _ _); [|res_tac]. destruct (dev_fault _ _ _) as ((f1 & fi) & code).
  destruct (negb (code =? 0)); [res_tac|]. cbn. split; [cbn; lia|]. cbn. intros r' H. left.
  destruct (replace_res_in _ _ _ H) as [H'| ->]; [exists r'; auto|]. exists d. split; [eapply find_res_in'; eauto|reflexivity].
Qed.
Lemma dev_create_res_MS m image kind req : MS m (fst (fst (dev_create_res m image kind req))).
Proof.
  apply MS_same; [apply dev_create_res_same|]. unfold dev_create_res. destruct (dev_fault _ _ _) as ((f1 & fi) & code).
  destruct (negb (code =? 0)); [res_tac|]. cbn. destruct (DEV_TABLE <=? _); cbn.
  - split; [cbn; lia|]. cbn. intros r' H. left. eauto.
  - split; [cbn; lia|]. cbn. intros r' H. apply in_app_iff in H. destruct H as [H|[<-|[]]]; [left; eauto|right; cbn; lia].
Qed.
Lemma dev_requirements_MS m image id : MS m (fst (dev_requirements m image id)).
Proof. apply MS_same; [apply dev_requirements_same|]. unfold dev_requirements. res_tac. Qed.
Lemma dev_destroy_res_MS m image id : MS m (dev_destroy_res m image id).
Proof.
  apply MS_same; [apply dev_destroy_res_same|]. unfold dev_destroy_res. split; [cbn; lia|]. cbn. intros r' H. left. exists r'. split; [eapply remove_res_in; eauto|reflexivity].
Qed.
Lemma dev_flush_MS m inval id off size : MS m (fst (dev_flush m inval id off size)).
Proof. apply MS_same; [apply dev_flush_same|]. unfold dev_flush. destruct (find_mem _ _); [|res_tac]. destruct (dev_fault _ _ _) as ((f1 & fi) & code). res_tac. Qed.
Lemma stats_budgets_MS n : forall m h, MS m (stats_budgets c m n h).
Proof.
  induction n as [|k IH]; intros m h; cbn [stats_budgets]; [apply MS_refl|].
  pose proof (heap_budget_MS m h) as H. destruct (heap_budget c m h) as ((m1 & u) & b). cbn [fst] in H. eapply MS_trans; [exact H|apply IH].
Qed.

Lemma create_block_M v lr size : MSv v (fst (create_block c v lr size)).
Proof.
  unfold create_block. destruct (get_blist v lr) as [l|]; [|apply MSv_refl].
  pose proof (alloc_vk_MS (v_m v) (bl_type l) size 0) as H. destruct (alloc_vk c (v_m v) (bl_type l) size 0) as (m1 & r). cbn [fst] in H.
  destruct r; msfin.
Qed.

Lemma destroy_block_M v ty b : MSv v (fst (destroy_block c v ty b)).
Proof.
  unfold destroy_block. destruct (negb _); [apply MSv_refl|].
  pose proof (free_vk_MS (v_m v) ty (meta_size (bk_meta b)) (bk_mem b)) as H. destruct (free_vk c (v_m v) ty _ (bk_mem b)) as (m1 & r). msfin.
Qed.

Lemma destroy_blocks_M bs : forall v ty, MSv v (fst (destroy_blocks c v ty bs)).
Proof.
  induction bs as [|b tl IH]; intros v ty; cbn [destroy_blocks]; [apply MSv_refl|].
  pose proof (destroy_block_M v ty b) as H. destruct (destroy_block c v ty b) as (v1 & r). cbn [fst] in H.
  destruct r as [[]|code| |]; cbn [fst]; try exact H. eapply MSv_trans; [exact H|apply IH].
Qed.

Lemma commit_request_M v lr bid rq reqsize align flags sub slot : MSv v (fst (commit_request c v lr bid rq reqsize align flags sub slot)).
Proof.
  unfold commit_request. destruct (get_blist v lr) as [l|]; [|apply MSv_refl]. destruct (get_block v lr bid) as [b|]; [|apply MSv_refl].
  pose proof (sm_sub_MS (v_m v) (bk_mem b) (bk_sm b)) as H1. destruct (sm_sub (v_m v) (bk_mem b) (bk_sm b)) as (m1 & s1). cbn [fst] in H1.
  assert (H2 : MS m1 (fst (fst (if fl flags F_MAPPED then sm_map c m1 (bk_mem b) s1 else (m1, s1, OK tt))))) by (destruct (fl flags F_MAPPED); [apply sm_map_MS|apply MS_refl]).
  destruct (if fl flags F_MAPPED then sm_map c m1 (bk_mem b) s1 else (m1, s1, OK tt)) as ((m2 & s2) & mr). cbn [fst] in H2.
  destruct mr as [[]|code| |]; try msfin.
  destruct (meta_alloc (bk_meta b) rq sub slot reqsize align) as [(mt' & handle)|code| |]; try msfin.
  destruct (_ && _); [msfin|]. unfold MSv. vm_simp. eapply MS_trans; [exact H1|]. eapply MS_trans; [exact H2|apply add_allocation_MS].
Qed.

Lemma alloc_from_block_M v lr bid size align flags sub slot : MSv v (fst (alloc_from_block c v lr bid size align flags sub slot)).
Proof.
  unfold alloc_from_block. destruct (get_block v lr bid) as [b|]; [|apply MSv_refl]. destruct (negb _); [apply MSv_refl|].
  destruct (meta_create_request _ _ _ _ _ _) as [mt' rq| | |]; try apply MSv_refl.
  eapply MSv_trans; [apply MSv_eq; apply put_block_m|apply commit_request_M].
Qed.

Lemma try_blocks_M ids : forall v lr size align flags sub slot, MSv v (fst (try_blocks c v lr ids size align flags sub slot)).
Proof.
  induction ids as [|bid tl IH]; intros v lr size align flags sub slot; cbn [try_blocks]; [apply MSv_refl|].
  pose proof (alloc_from_block_M v lr bid size align flags sub slot) as H.
  destruct (alloc_from_block c v lr bid size align flags sub slot) as (v1 & r). cbn [fst] in H.
  destruct r; cbn [fst]; try exact H; [eapply MSv_trans; [exact H|apply MSv_eq; apply sort_list_m]|eapply MSv_trans; [exact H|apply IH]].
Qed.

Lemma retry_create_M fuel : forall v lr nbs shift size freeMemory canFallback last,
  MSv v (fst (retry_create c fuel v lr nbs shift size freeMemory canFallback last)).
Proof.
  induction fuel as [|f IH]; intros v lr nbs shift size freeMemory canFallback last; cbn [retry_create]; [apply MSv_refl|].
  destruct last as [x|code| |]; try apply MSv_refl. destruct (3 <=? shift); [apply MSv_refl|]. destruct (size <=? _); [|apply MSv_refl].
  destruct (_ || _); [|apply IH].
  pose proof (create_block_M v lr (Z.quot nbs 2)) as H. destruct (create_block c v lr (Z.quot nbs 2)) as (v1 & r). cbn [fst] in H.
  eapply MSv_trans; [exact H|apply IH].
Qed.


Lemma alloc_page_M v lr size align flags sub slot : MSv v (fst (alloc_page c v lr size align flags sub slot)).
Proof.
  unfold alloc_page. destruct (get_blist v lr) as [l|] eqn:Hg; [|apply MSv_refl].
  pose proof (heap_budget_MS (v_m v) (type_heap c (bl_type l))) as H0.
  destruct (heap_budget c (v_m v) (type_heap c (bl_type l))) as ((m1 & usage) & budget). cbn [fst] in H0.
  assert (K1 : MSv v (set_m v m1)) by msfin.
  destruct (_ && _); [exact K1|]. destruct (bl_pref l <? size); [exact K1|].
  pose proof (try_blocks_M (search_order c l flags) (set_m v m1) lr size align flags sub slot) as H2.
  destruct (try_blocks c (set_m v m1) lr (search_order c l flags) size align flags sub slot) as (v2 & r). cbn [fst] in H2.
  assert (K2 : MSv v v2) by (eapply MSv_trans; eauto).
  destruct r; cbn [fst]; try exact K2.
  destruct (negb _); [exact K2|].
  destruct (if bl_explicit l then (bl_pref l, 0) else shrink_new_block 3 (bl_pref l) 0 (calc_max_block_size l) size) as (nbs & shift).
  match goal with |- context [if ?cnd then create_block c v2 lr nbs else (v2, ER VK_OODM)] =>
    assert (H3 : MSv v2 (fst (if cnd then create_block c v2 lr nbs else (v2, ER VK_OODM)))) by (destruct cnd; [apply create_block_M|apply MSv_refl]);
    destruct (if cnd then create_block c v2 lr nbs else (v2, ER VK_OODM)) as (v3 & first) end.
  cbn [fst] in H3.
  match goal with |- context [if bl_explicit l then (v3, first) else ?e] =>
    assert (H4 : MSv v3 (fst (if bl_explicit l then (v3, first) else e))) by (destruct (bl_explicit l); [apply MSv_refl|apply retry_create_M]);
    destruct (if bl_explicit l then (v3, first) else e) as (v4 & created) end.
  cbn [fst] in H4. assert (K4 : MSv v v4) by (eapply MSv_trans; [exact K2|]; eapply MSv_trans; [exact H3|exact H4]).
  destruct created as [bid|code| |]; cbn [fst]; try exact K4.
  destruct (get_block v4 lr bid) as [nb|]; [|exact K4]. destruct (meta_size (bk_meta nb) <? size); [exact K4|].
  pose proof (alloc_from_block_M v4 lr bid size align flags sub slot) as H5.
  destruct (alloc_from_block c v4 lr bid size align flags sub slot) as (v5 & r2). cbn [fst] in H5.
  assert (K5 : MSv v v5) by (eapply MSv_trans; [exact K4|exact H5]).
  assert (Hgive : MSv v5 (fst (match get_blist v5 lr, get_block v5 lr bid with
                    | Some l5, Some b5 =>
                      if meta_is_empty (bk_meta b5) && (bl_min l5 <? zlen (bl_blocks l5)) then
                        match destroy_block c (set_blist v5 lr (set_blocks l5 (remove_block (bl_blocks l5) bid))) (bl_type l5) b5 with
                        | (v', OK _) => (v', OK tt)
                        | (v', STUCK) => (v', STUCK)
                        | (v', _) => (v', PANIC)
                        end
                      else (v5, OK tt)
                    | _, _ => (v5, STUCK)
                    end))).
  { destruct (get_blist v5 lr) as [l5|]; [|apply MSv_refl]. destruct (get_block v5 lr bid) as [b5|]; [|apply MSv_refl].
    destruct (_ && _); [|apply MSv_refl].
    pose proof (destroy_block_M (set_blist v5 lr (set_blocks l5 (remove_block (bl_blocks l5) bid))) (bl_type l5) b5) as Hd.
    destruct (destroy_block c _ (bl_type l5) b5) as (v' & dr). cbn [fst] in Hd.
    assert (MSv v5 v') by (eapply MSv_trans; [apply MSv_eq; apply set_blist_m|exact Hd]).
    destruct dr as [[]|code| |]; exact H. }
  destruct r2 as [| |code2| |]; cbn [fst]; try exact K5; [eapply MSv_trans; [exact K5|apply MSv_eq; apply sort_list_m]| |];
    (match goal with |- context [match ?e with (a, b) => _ end] => destruct e as (v6 & dr) end; cbn [fst] in Hgive;
     assert (K6 : MSv v v6) by (eapply MSv_trans; [exact K5|exact Hgive]); destruct dr as [[]|code3| |]; exact K6).
Qed.

Lemma bl_free_M v lr slot keep : MSv v (fst (bl_free c v lr slot keep)).
Proof.
  unfold bl_free. set (a := get_alloc v slot). destruct (get_blist v lr) as [l|]; [|apply MSv_refl].
  destruct (get_block v lr (a_blk a)) as [b|]; [|apply MSv_refl].
  pose proof (heap_budget_MS (v_m v) (type_heap c (bl_type l))) as H0.
  destruct (heap_budget c (v_m v) (type_heap c (bl_type l))) as ((m1 & usage) & budget). cbn [fst] in H0.
  assert (H1 : MS m1 (fst (fst (if a_persist a then sm_unmap m1 (bk_mem b) (bk_sm b) else (m1, bk_sm b, OK tt))))) by (destruct (a_persist a); [apply sm_unmap_MS|apply MS_refl]).
  destruct (if a_persist a then sm_unmap m1 (bk_mem b) (bk_sm b) else (m1, bk_sm b, OK tt)) as ((m2 & s2) & ur). cbn [fst] in H1.
  set (v2 := put_block (set_m v m2) lr (mkBlock (bk_id b) (bk_mem b) s2 (bk_meta b))).
  assert (E2 : v_m v2 = m2) by (unfold v2; rewrite put_block_m; reflexivity).
  assert (K2 : MSv v v2) by (unfold MSv; rewrite E2; eapply MS_trans; eauto).
  destruct ur as [[]|code| |]; cbn [fst]; try exact K2.
  destruct (meta_free (bk_meta b) (a_handle a)) as [mt'|code| |]; cbn [fst]; try exact K2.
  pose proof (sm_sub_MS (v_m v2) (bk_mem b) s2) as H3. destruct (sm_sub (v_m v2) (bk_mem b) s2) as (m3 & s3). cbn [fst] in H3.
  match goal with |- context [let '(bs4, toDelete) := ?e in _] => destruct e as (bs4 & toDelete) end.
  set (v3 := set_blist (set_m v2 m3) lr (incrementally_sort (set_blocks l bs4))).
  assert (K3 : MSv v v3) by (unfold MSv, v3; rewrite set_blist_m; cbn [v_m set_m]; eapply MS_trans; [exact K2|exact H3]).
  assert (H4 : MSv v3 (fst (match toDelete with
                           | None => (v3, OK tt)
                           | Some db => match destroy_block c v3 (bl_type l) db with (v', OK _) => (v', OK tt) | (v', STUCK) => (v', STUCK) | (v', _) => (v', PANIC) end
                           end))).
  { destruct toDelete as [db|]; [|apply MSv_refl]. pose proof (destroy_block_M v3 (bl_type l) db) as Hd.
    destruct (destroy_block c v3 (bl_type l) db) as (v' & dr). cbn [fst] in Hd. destruct dr as [[]|code| |]; exact Hd. }
  match goal with |- context [let '(v4, dr) := ?e in _] => destruct e as (v4 & dr) end. cbn [fst] in H4.
  assert (K4 : MSv v v4) by (eapply MSv_trans; [exact K3|exact H4]).
  destruct dr as [[]|code| |]; cbn [fst]; try exact K4.
  pose proof (remove_allocation_MS (v_m v4) (type_heap c (bl_type l)) (a_size a)) as H5.
  destruct (remove_allocation c (v_m v4) (type_heap c (bl_type l)) (a_size a)) as (m5 & rr). cbn [fst] in *. unfold MSv in *. cbn [v_m set_m]. eapply MS_trans; eauto.
Qed.

Lemma release_loop_M ids : forall v lr firstId, MSv v (fst (release_loop c v lr ids firstId)).
Proof.
  induction ids as [|bid tl IH]; intros v lr firstId; cbn [release_loop]; [apply MSv_refl|].
  destruct (get_blist v lr) as [l|]; [|apply MSv_refl]. destruct (negb _); [apply MSv_refl|].
  destruct (find_block (bl_blocks l) bid) as [b|]; [|apply MSv_refl]. destruct (_ || _); [apply IH|].
  pose proof (destroy_block_M (set_blist v lr (set_blocks l (remove_block (bl_blocks l) bid))) (bl_type l) b) as Hd.
  destruct (destroy_block c _ (bl_type l) b) as (v2 & dr). cbn [fst] in Hd.
  assert (K2 : MSv v v2) by (eapply MSv_trans; [apply MSv_eq; apply set_blist_m|exact Hd]).
  destruct dr as [[]|code| |]; cbn [fst]; try exact K2. eapply MSv_trans; [exact K2|apply IH].
Qed.

Lemma release_empty_since_M v lr firstId : MSv v (fst (release_empty_since c v lr firstId)).
Proof. unfold release_empty_since. destruct (get_blist v lr); [apply release_loop_M|apply MSv_refl]. Qed.

Lemma allocate_loop_M slots : forall v lr done size align flags sub, MSv v (fst (fst (allocate_loop c v lr slots done size align flags sub))).
Proof.
  induction slots as [|s tl IH]; intros v lr done size align flags sub; cbn [allocate_loop]; [apply MSv_refl|].
  pose proof (alloc_page_M v lr size align flags sub s) as H. destruct (alloc_page c v lr size align flags sub s) as (v1 & r). cbn [fst] in H.
  destruct r as [[]|code| |]; cbn [fst]; try exact H. eapply MSv_trans; [exact H|apply IH].
Qed.

Lemma unwind_loop_M done : forall v lr, MSv v (fst (unwind_loop c v lr done)).
Proof.
  induction done as [|s tl IH]; intros v lr; cbn [unwind_loop]; [apply MSv_refl|].
  pose proof (bl_free_M v lr s true) as H. destruct (bl_free c v lr s true) as (v1 & r). cbn [fst] in H.
  destruct r as [[]|code| |]; cbn [fst]; try exact H. eapply MSv_trans; [exact H|].
  eapply MSv_trans; [apply (MSv_eq v1 (set_alloc v1 s (set_allocated (get_alloc v1 s) false))); reflexivity|apply IH].
Qed.

Lemma bl_allocate_M v lr slots size align0 flags sub : MSv v (fst (bl_allocate c v lr slots size align0 flags sub)).
Proof.
  unfold bl_allocate. destruct (get_blist v lr) as [l|]; [|apply MSv_refl].
  match goal with |- context [allocate_loop c v lr slots [] size ?al flags sub] =>
    pose proof (allocate_loop_M slots v lr [] size al flags sub) as H1; destruct (allocate_loop c v lr slots [] size al flags sub) as ((v1 & r) & done) end.
  cbn [fst] in H1. destruct r as [[]|code| |]; cbn [fst]; try exact H1.
  pose proof (unwind_loop_M done v1 lr) as H2. destruct (unwind_loop c v1 lr done) as (v2 & ur). cbn [fst] in H2.
  assert (K2 : MSv v v2) by (eapply MSv_trans; eauto). destruct ur as [[]|ucode| |]; cbn [fst]; try exact K2.
  pose proof (release_empty_since_M v2 lr (bl_next l)) as H3. destruct (release_empty_since c v2 lr (bl_next l)) as (v3 & rr). cbn [fst] in H3.
  assert (K3 : MSv v v3) by (eapply MSv_trans; eauto). destruct rr as [[]|rcode| |]; exact K3.
Qed.

Lemma bl_destroy_M v lr : MSv v (fst (bl_destroy c v lr)).
Proof.
  unfold bl_destroy. destruct (get_blist v lr) as [l|]; [|apply MSv_refl]. destruct (existsb _ _); [apply MSv_refl|].
  pose proof (destroy_blocks_M (bl_blocks l) v (bl_type l)) as H. destruct (destroy_blocks c v (bl_type l) (bl_blocks l)) as (v1 & r). cbn [fst] in H.
  destruct r as [[]|code| |]; cbn [fst]; try exact H. destruct (get_blist v1 lr) as [l1|]; [|exact H].
  eapply MSv_trans; [exact H|apply MSv_eq; apply set_blist_m].
Qed.

Lemma create_min_blocks_M n : forall v lr size, MSv v (fst (create_min_blocks c n v lr size)).
Proof.
  induction n as [|k IH]; intros v lr size; cbn [create_min_blocks]; [apply MSv_refl|].
  pose proof (create_block_M v lr size) as H. destruct (create_block c v lr size) as (v1 & r). cbn [fst] in H.
  destruct r as [bid|code| |]; cbn [fst]; try exact H. eapply MSv_trans; [exact H|apply IH].
Qed.


Lemma ded_page_M v lr ty size sub doMap allowed slot ded : MSv v (fst (allocate_dedicated_page c v lr ty size sub doMap allowed slot ded)).
Proof.
  unfold allocate_dedicated_page. pose proof (alloc_vk_MS (v_m v) ty size ded) as H1.
  destruct (alloc_vk c (v_m v) ty size ded) as (m1 & r). cbn [fst] in H1. destruct r as [mem|code| |]; try msfin.
  assert (H2 : MS m1 (fst (fst (if doMap then sm_map c m1 mem SyncMem.sm_init else (m1, SyncMem.sm_init, OK tt))))) by (destruct doMap; [apply sm_map_MS|apply MS_refl]).
  destruct (if doMap then sm_map c m1 mem SyncMem.sm_init else (m1, SyncMem.sm_init, OK tt)) as ((m2 & s) & mr). cbn [fst] in H2.
  destruct mr as [[]|code| |]; try msfin.
  - destruct (_ && _); [msfin|]. unfold MSv. vm_simp. eapply MS_trans; [exact H1|]. eapply MS_trans; [exact H2|apply add_allocation_MS].
  - pose proof (free_vk_MS m2 ty size mem) as H3. destruct (free_vk c m2 ty size mem) as (m3 & fr). cbn [fst] in H3. msfin.
Qed.

Lemma dedicated_loop_M slots : forall v lr ty size sub doMap allowed done ded,
  MSv v (fst (fst (dedicated_loop c v lr ty size sub doMap allowed slots done ded))).
Proof.
  induction slots as [|s tl IH]; intros v lr ty size sub doMap allowed done ded; cbn [dedicated_loop]; [apply MSv_refl|].
  pose proof (ded_page_M v lr ty size sub doMap allowed s ded) as H.
  destruct (allocate_dedicated_page c v lr ty size sub doMap allowed s ded) as (v1 & r). cbn [fst] in H.
  destruct r as [[]|code| |]; cbn [fst]; try exact H. eapply MSv_trans; [exact H|apply IH].
Qed.

Lemma dedicated_rollback_M done : forall v ty, MSv v (fst (dedicated_rollback c v ty done)).
Proof.
  induction done as [|s tl IH]; intros v ty; cbn [dedicated_rollback]; [apply MSv_refl|].
  pose proof (free_vk_MS (v_m v) ty (a_size (get_alloc v s)) (a_mem (get_alloc v s))) as H1.
  destruct (free_vk c (v_m v) ty (a_size (get_alloc v s)) (a_mem (get_alloc v s))) as (m1 & fr). cbn [fst] in H1.
  destruct fr as [[]|code| |]; try msfin.
  pose proof (remove_allocation_MS m1 (type_heap c ty) (a_size (get_alloc v s))) as H2.
  destruct (remove_allocation c m1 (type_heap c ty) (a_size (get_alloc v s))) as (m2 & rr). cbn [fst] in H2.
  destruct rr as [[]|code| |]; try msfin.
  eapply MSv_trans; [|apply IH]. msfin.
Qed.

Lemma allocate_dedicated_M v lr ty size sub doMap allowed slots ded : MSv v (fst (allocate_dedicated c v lr ty size sub doMap allowed slots ded)).
Proof.
  unfold allocate_dedicated. destruct slots as [|s0 tl0] eqn:Es; [apply MSv_refl|]. rewrite <- Es.
  pose proof (dedicated_loop_M slots v lr ty size sub doMap allowed [] ded) as H.
  destruct (dedicated_loop c v lr ty size sub doMap allowed slots [] ded) as ((v1 & r) & done). cbn [fst] in H.
  destruct r as [[]|code| |]; cbn [fst]; try exact H.
  - eapply MSv_trans; [exact H|apply MSv_eq; apply set_dedlist_m].
  - pose proof (dedicated_rollback_M done v1 ty) as H2. destruct (dedicated_rollback c v1 ty done) as (v2 & rr). cbn [fst] in *. eapply MSv_trans; eauto.
Qed.

Lemma calc_type_params_M v ty size count flags : MSv v (fst (calc_type_params c v ty size count flags)).
Proof.
  unfold calc_type_params. destruct (_ && _); [|apply MSv_refl]. pose proof (heap_budget_MS (v_m v) (type_heap c ty)) as H.
  destruct (heap_budget c (v_m v) (type_heap c ty)) as ((m1 & u) & b). cbn [fst] in H. destruct (_ <? _); msfin.
Qed.

Lemma alloc_of_type_M v lr ty size align dedPref flags sub slots ded : MSv v (fst (alloc_of_type c v lr ty size align dedPref flags sub slots ded)).
Proof.
  unfold alloc_of_type. destruct slots as [|s0 tl0] eqn:Es; [apply MSv_refl|]. rewrite <- Es.
  destruct (get_blist v lr) as [l|]; [|apply MSv_refl].
  pose proof (calc_type_params_M v ty size (zlen slots) flags) as H1.
  destruct (calc_type_params c v ty size (zlen slots) flags) as (v1 & fr). cbn [fst] in H1.
  destruct fr as [f1|code| |]; cbn [fst]; try exact H1.
  destruct (fl f1 F_DEDICATED); [eapply MSv_trans; [exact H1|apply allocate_dedicated_M]|].
  match goal with |- context [let '(v2, early) := ?e in _] => assert (H2 : MSv v1 (fst e)); [|destruct e as (v2 & early)] end.
  { match goal with |- context [if ?cnd then _ else (v1, None)] => destruct cnd end; [|apply MSv_refl].
    match goal with |- context [allocate_dedicated c v1 lr ty size sub ?dm ?al slots ded] =>
      pose proof (allocate_dedicated_M v1 lr ty size sub dm al slots ded) as H;
      destruct (allocate_dedicated c v1 lr ty size sub dm al slots ded) as (v' & r) end. cbn [fst] in H.
    destruct r as [[]|code| |]; exact H. }
  cbn [fst] in H2.
  assert (K2 : MSv v v2) by (eapply MSv_trans; eauto).
  destruct early as [r|]; cbn [fst]; [exact K2|].
  pose proof (bl_allocate_M v2 lr slots size align f1 sub) as H3. destruct (bl_allocate c v2 lr slots size align f1 sub) as (v3 & br). cbn [fst] in H3.
  assert (K3 : MSv v v3) by (eapply MSv_trans; eauto).
  destruct br as [[]|bcode| |]; cbn [fst]; try exact K3.
  match goal with |- context [if ?cnd then _ else (v3, ER bcode)] => destruct cnd end; [|exact K3].
  pose proof (heap_budget_MS (v_m v3) (type_heap c ty)) as H4.
  destruct (heap_budget c (v_m v3) (type_heap c ty)) as ((m4 & u) & b). cbn [fst] in H4.
  assert (K4 : MSv v (set_m v3 m4)) by (unfold MSv in *; cbn [v_m set_m]; eapply MS_trans; eauto).
  destruct (_ <? _); cbn [fst]; [exact K4|]. eapply MSv_trans; [exact K4|apply allocate_dedicated_M].
Qed.

Lemma type_loop_M fuel : forall v bits ty size align dedPref usage flags req pref ctb sub slots ded bufimg,
  MSv v (fst (type_loop c fuel v bits ty size align dedPref usage flags req pref ctb sub slots ded bufimg)).
Proof.
  induction fuel as [|f IH]; intros; cbn [type_loop]; [apply MSv_refl|].
  destruct (get_blist v (LDef ty)); [|apply MSv_refl].
  pose proof (alloc_of_type_M v (LDef ty) ty size align dedPref flags sub slots ded) as H.
  destruct (alloc_of_type c v (LDef ty) ty size align dedPref flags sub slots ded) as (v1 & r). cbn [fst] in H.
  destruct r as [[]|code| |]; cbn [fst]; try exact H. destruct (code =? VK_UNKNOWN); [exact H|].
  destruct (find_type_index c (v_global v1) _ usage flags req pref ctb bufimg) as [ty'|]; [|exact H].
  eapply MSv_trans; [exact H|apply IH].
Qed.

Lemma multi_allocate_M v size align typeBits reqDed prefDed ded bufimg usage flags0 req pref ctb pool sub slots :
  MSv v (fst (multi_allocate c v size align typeBits reqDed prefDed ded bufimg usage flags0 req pref ctb pool sub slots)).
Proof.
  unfold multi_allocate. destruct (negb _); [apply MSv_refl|]. destruct (size <? 1); [apply MSv_refl|].
  destruct (calc_params usage flags0 reqDed _) as [flags|code| |]; try apply MSv_refl.
  destruct pool as [uid|].
  - destruct (get_blist v (LPool uid)); [apply alloc_of_type_M|apply MSv_refl].
  - destruct (find_type_index c (v_global v) typeBits usage flags req pref ctb bufimg); [apply type_loop_M|apply MSv_refl].
Qed.

Lemma free_dedicated_M v slot : MSv v (fst (free_dedicated c v slot)).
Proof.
  unfold free_dedicated. destruct (negb _); [apply MSv_refl|].
  set (v1 := set_dedlist v _ _). assert (E1 : v_m v1 = v_m v) by apply set_dedlist_m.
  pose proof (free_vk_MS (v_m v1) (a_type (get_alloc v slot)) (a_size (get_alloc v slot)) (a_mem (get_alloc v slot))) as H1.
  destruct (free_vk c (v_m v1) _ _ _) as (m1 & fr). cbn [fst] in H1. rewrite E1 in H1.
  destruct fr as [[]|code| |]; try msfin.
  pose proof (remove_allocation_MS m1 (type_heap c (a_type (get_alloc v slot))) (a_size (get_alloc v slot))) as H2.
  destruct (remove_allocation c m1 _ _) as (m2 & rr). cbn [fst] in H2. msfin.
Qed.

Lemma free_single_M v slot : MSv v (fst (free_single c v slot)).
Proof. unfold free_single. destruct (_ =? 1); [apply bl_free_M|]. destruct (_ =? 2); [apply free_dedicated_M|apply MSv_refl]. Qed.

Lemma multi_free_M slots : forall v, MSv v (fst (multi_free c v slots)).
Proof.
  induction slots as [|s tl IH]; intros v; cbn [multi_free]; [apply MSv_refl|].
  pose proof (free_single_M v s) as H. destruct (free_single c v s) as (v1 & r). cbn [fst] in H.
  destruct r as [[]|code| |]; cbn [fst]; try exact H. eapply MSv_trans; [exact H|].
  eapply MSv_trans; [apply (MSv_eq v1 (set_alloc v1 s (set_allocated (get_alloc v1 s) false))); reflexivity|apply IH].
Qed.

Lemma bind_memory_M v slot image res off : MSv v (fst (bind_memory v slot image res off)).
Proof.
  unfold bind_memory. destruct (res =? 0); [apply MSv_refl|]. destruct (negb _); [apply MSv_refl|]. destruct (off <? 0); [apply MSv_refl|].
  match goal with |- context [match ?t with OK _ => _ | ER _ => _ | PANIC => _ | STUCK => _ end] => destruct t as [o|code| |] end; try apply MSv_refl.
  pose proof (dev_bind_MS (v_m v) image res (a_mem (get_alloc v slot)) o) as H.
  destruct (dev_bind _ _ _ _ _) as (m1 & code). cbn [fst] in H. msfin.
Qed.

Lemma create_resource_M v slot image kind sub devreq resusage minAlign usage flags req pref ctb pool :
  MSv v (fst (create_resource c v slot image kind sub devreq resusage minAlign usage flags req pref ctb pool)).
Proof.
  unfold create_resource. pose proof (dev_create_res_MS (v_m v) image kind devreq) as H1.
  destruct (dev_create_res (v_m v) image kind devreq) as ((m1 & code) & id). cbn [fst] in H1.
  destruct (negb _); [msfin|].
  assert (H2 : MS m1 (fst (fst (fst (get_requirements c m1 image id))))).
  { unfold get_requirements. pose proof (dev_requirements_MS m1 image id) as Hq. destruct (dev_requirements m1 image id) as (mq & rq). destruct (11 <=? _); exact Hq. }
  destruct (get_requirements c m1 image id) as (((m2 & rq) & rd) & pd). cbn [fst] in H2.
  match goal with |- context [multi_allocate c (set_m v m2) ?a1 ?a2 ?a3 ?a4 ?a5 ?a6 ?a7 usage flags req pref ctb pool sub [slot]] =>
    pose proof (multi_allocate_M (set_m v m2) a1 a2 a3 a4 a5 a6 a7 usage flags req pref ctb pool sub [slot]) as H;
    destruct (multi_allocate c (set_m v m2) a1 a2 a3 a4 a5 a6 a7 usage flags req pref ctb pool sub [slot]) as (v3 & r) end.
  cbn [fst] in H. assert (K3 : MSv v v3) by (unfold MSv in *; cbn [v_m set_m] in H; eapply MS_trans; [exact H1|]; eapply MS_trans; [exact H2|exact H]).
  pose proof (dev_destroy_res_MS (v_m v3) image id) as Hd3.
  destruct r as [[]|acode| |]; cbn [fst]; [|unfold MSv in *; cbn [v_m set_m]; eapply MS_trans; eauto|exact K3|exact K3].
  destruct (fl flags F_DONTBIND); [exact K3|].
  pose proof (bind_memory_M v3 slot image id 0) as H4. destruct (bind_memory v3 slot image id 0) as (v4 & br). cbn [fst] in H4.
  assert (K4 : MSv v v4) by (eapply MSv_trans; eauto).
  destruct br as [[]|bcode| |]; cbn [fst]; try exact K4.
  assert (H5 : MSv v4 (fst (if a_allocated (get_alloc v4 slot) then multi_free c v4 [slot] else (v4, OK tt)))) by (destruct (a_allocated _); [apply multi_free_M|apply MSv_refl]).
  destruct (if a_allocated (get_alloc v4 slot) then multi_free c v4 [slot] else (v4, OK tt)) as (v5 & fr). cbn [fst] in *.
  pose proof (dev_destroy_res_MS (v_m v5) image id) as Hd5.
  unfold MSv in *. cbn [v_m set_m]. eapply MS_trans; [exact K4|]. eapply MS_trans; [exact H5|exact Hd5].
Qed.

Lemma pool_destroy_M v uid : MSv v (fst (pool_destroy c v uid)).
Proof.
  unfold pool_destroy. destruct (find_pool (v_pools v) uid) as [p|]; [|apply MSv_refl]. destruct (p_ded p); [|apply MSv_refl].
  pose proof (bl_destroy_M v (LPool uid)) as H. destruct (bl_destroy c v (LPool uid)) as (v1 & r). cbn [fst] in H.
  destruct r as [[]|code| |]; cbn [fst]; exact H.
Qed.

Lemma create_pool_M v ty flags blockSize minB maxB0 minAlign : MSv v (fst (create_pool c v ty flags blockSize minB maxB0 minAlign)).
Proof.
  unfold create_pool. destruct (_ <? minB); [apply MSv_refl|]. destruct (_ || _); [apply MSv_refl|]. destruct (negb _); [apply MSv_refl|]. destruct (_ && _); [apply MSv_refl|].
  match goal with |- context [create_min_blocks c (Z.to_nat minB) ?w ?lr0 ?bs] =>
    pose proof (create_min_blocks_M (Z.to_nat minB) w lr0 bs) as H; destruct (create_min_blocks c (Z.to_nat minB) w lr0 bs) as (v1 & r) end.
  cbn [fst] in H. assert (K1 : MSv v v1) by exact H.
  destruct r as [[]|code| |]; cbn [fst]; try exact K1.
  pose proof (pool_destroy_M v1 (v_next_uid v)) as H2. destruct (pool_destroy c v1 (v_next_uid v)) as (v2 & dr). cbn [fst] in *.
  eapply MSv_trans; [exact K1|]. eapply MSv_trans; [exact H2|apply MSv_eq; reflexivity].
Qed.

Lemma destroy_lists_M n : forall v t, MSv v (fst (destroy_lists c v n t)).
Proof.
  induction n as [|k IH]; intros v t; cbn [destroy_lists]; [apply MSv_refl|]. destruct (get_blist v (LDef t)); [|apply IH].
  pose proof (bl_destroy_M v (LDef t)) as H. destruct (bl_destroy c v (LDef t)) as (v1 & r). cbn [fst] in H.
  destruct r as [[]|code| |]; cbn [fst]; try exact H. eapply MSv_trans; [exact H|apply IH].
Qed.

Lemma allocation_map_M v slot : MSv v (fst (allocation_map c v slot)).
Proof.
  unfold allocation_map. destruct (negb _); [apply MSv_refl|]. destruct (negb _); [apply MSv_refl|]. destruct (_ =? 1).
  - destruct (get_block v _ _) as [b|]; [|apply MSv_refl].
    pose proof (sm_map_MS (v_m v) (bk_mem b) (bk_sm b)) as H. destruct (sm_map c (v_m v) (bk_mem b) (bk_sm b)) as ((m1 & s1) & r). cbn [fst] in H.
    destruct r as [[]|code| |]; try msfin. destruct (find_offset _ _); msfin.
  - destruct (_ =? 2); [|apply MSv_refl]. pose proof (sm_map_MS (v_m v) (a_mem (get_alloc v slot)) (a_sm (get_alloc v slot))) as H.
    destruct (sm_map c (v_m v) _ _) as ((m1 & s1) & r). cbn [fst] in H. msfin.
Qed.

Lemma allocation_unmap_M v slot : MSv v (fst (allocation_unmap v slot)).
Proof.
  unfold allocation_unmap. destruct (negb _); [apply MSv_refl|]. destruct (_ =? 1).
  - destruct (get_block v _ _) as [b|]; [|apply MSv_refl].
    pose proof (sm_unmap_MS (v_m v) (bk_mem b) (bk_sm b)) as H. destruct (sm_unmap (v_m v) (bk_mem b) (bk_sm b)) as ((m1 & s1) & r). cbn [fst] in H. msfin.
  - destruct (_ =? 2); [|apply MSv_refl]. pose proof (sm_unmap_MS (v_m v) (a_mem (get_alloc v slot)) (a_sm (get_alloc v slot))) as H.
    destruct (sm_unmap (v_m v) _ _) as ((m1 & s1) & r). cbn [fst] in H. msfin.
Qed.

Lemma allocation_free_M v slot : MSv v (fst (allocation_free c v slot)).
Proof. unfold allocation_free. destruct (negb _); [apply MSv_refl|apply multi_free_M]. Qed.

(* one API function *)
Lemma exec_M v o : MSv v (fst (exec c v o)).
Proof.
  destruct o; cbn [exec].
  - unfold allocate_memory. destruct (a_allocated _); [apply MSv_refl|apply multi_allocate_M].
  - unfold allocate_memory_slice. cbn zeta. destruct (slot_range slot (Z.to_nat n)) as [|s0 tl] eqn:Es; [apply MSv_refl|]. rewrite <- Es.
    destruct (existsb _ _); [apply MSv_refl|apply multi_allocate_M].
  - apply allocation_free_M.
  - apply multi_free_M.
  - apply allocation_map_M.
  - apply allocation_unmap_M.
  - unfold allocation_flush. destruct (negb _); [apply MSv_refl|]. destruct (flush_range c v _ off size) as [[(ro & rs)|]|code| |]; try apply MSv_refl.
    pose proof (dev_flush_MS (v_m v) inval (a_mem (get_alloc v slot)) ro rs) as H. destruct (dev_flush _ _ _ _ _) as (m1 & code). cbn [fst] in H. msfin.
  - unfold harness_rw. pose proof (allocation_map_M v slot) as H. destruct (allocation_map c v slot) as (v1 & r). cbn [fst] in H.
    destruct r as [[]|code| |]; cbn [fst]; try exact H.
    pose proof (allocation_unmap_M v1 slot) as H2. destruct (allocation_unmap v1 slot) as (v2 & ur). cbn [fst] in *. eapply MSv_trans; eauto.
  - apply create_pool_M.
  - apply pool_destroy_M.
  - unfold build_stats_string. destruct (calculate_statistics c v); [|apply MSv_refl]. cbn [fst]. unfold MSv. cbn [v_m set_m]. apply stats_budgets_MS.
  - unfold allocator_destroy. destruct (existsb _ (v_ded v)); [apply MSv_refl|]. destruct (v_pools v); [|apply MSv_refl]. destruct (existsb _ _); [apply MSv_refl|apply destroy_lists_M].
  - unfold create_buffer. destruct (a_allocated _); [apply MSv_refl|]. destruct (_ && _); [apply MSv_refl|]. destruct (size =? 0); [apply MSv_refl|].
    destruct (_ && _); [apply MSv_refl|apply create_resource_M].
  - unfold create_image. destruct (a_allocated _); [apply MSv_refl|]. destruct (width =? 0); [apply MSv_refl|apply create_resource_M].
  - unfold destroy_with_resource. destruct (res =? 0); [apply allocation_free_M|].
    apply (MSv_trans v (set_m v (dev_destroy_res (v_m v) image res))); [apply (dev_destroy_res_MS (v_m v) image res)|apply allocation_free_M].
  - unfold allocate_for_resource. destruct (res =? 0); [apply MSv_refl|]. destruct (a_allocated _); [apply MSv_refl|].
    assert (H2 : MS (v_m v) (fst (fst (fst (get_requirements c (v_m v) image res))))).
    { unfold get_requirements. pose proof (dev_requirements_MS (v_m v) image res) as Hq. destruct (dev_requirements (v_m v) image res) as (mq & rq). destruct (11 <=? _); exact Hq. }
    destruct (get_requirements c (v_m v) image res) as (((m1 & rq) & rd) & pd). cbn [fst] in H2.
    eapply MSv_trans; [|apply multi_allocate_M]. msfin.
  - apply bind_memory_M.
  - unfold raw_create. pose proof (dev_create_res_MS (v_m v) image kind devreq) as H. destruct (dev_create_res _ _ _ _) as ((m1 & code) & id). cbn [fst] in H. msfin.
  - unfold raw_destroy. cbn [fst]. unfold MSv. cbn [v_m set_m]. apply dev_destroy_res_MS.
Qed.

(* one API call: an object of the state after with an old id is an object of the state before, same memory type and size *)
Theorem step_mems_stable v o f v' r calls d' :
  step c v o f = (v', r, calls) -> In d' (m_mems (v_m v')) -> dm_id d' <= m_next (v_m v) ->
  exists d, In d (m_mems (v_m v)) /\ mem_key d = mem_key d'.
Proof.
  unfold step. set (v0 := set_m v (clear_calls (set_fault (v_m v) f 0))). pose proof (exec_M v0 o) as H.
  destruct (exec c v0 o) as (v1 & r1). cbn [fst] in H. intros E. injection E as <- _ _. cbn [v_m set_m m_mems clear_calls set_fault].
  intros Hin Hid. destruct H as (_ & H). cbn in H. apply (H d' Hin Hid).
Qed.

End WithCfg.

(* ---------------------------------------------------------------- on reachable states *)

From Arsenal Require Import VamInvThm VamAcctStep VamAcctThm.

Section Reach.
Variable c : vcfg.
Hypothesis Ha : cfg_acct c.

Lemma find_mem_key_unique ms id d d0 : NoDup (map dm_id ms) -> find_mem ms id = Some d -> In d0 ms -> dm_id d0 = id -> d0 = d.
Proof.
  induction ms as [|x ms IH]; cbn; [discriminate|]. intros Hnd Hf Hin Hi. inversion Hnd as [|? ? Hx Hr]; subst.
  destruct (dm_id x =? dm_id d0) eqn:E.
  - injection Hf as <-. destruct Hin as [->|Hin]; [reflexivity|]. exfalso. apply Hx. apply Z.eqb_eq in E. rewrite E. apply in_map. exact Hin.
  - destruct Hin as [->|Hin]; [rewrite Z.eqb_refl in E; discriminate|]. apply IH; auto.
Qed.

(* C10/C13: a VkDeviceMemory object that exists before and after an API call is the same object: same memory type,
   same size (any op, any result, any fault oracle) *)
Theorem step_keeps_object_identity v o f v' r calls id d d' :
  reachA c v -> step c v o f = (v', r, calls) ->
  find_mem (m_mems (v_m v)) id = Some d -> find_mem (m_mems (v_m v')) id = Some d' -> mem_key d' = mem_key d.
Proof.
  intros R Hs Hf Hf'. pose proof (va_s _ _ _ _ (reachA_inv c Ha v R)) as HI.
  destruct (find_mem_in _ _ _ Hf) as (Hin & Hid). destruct (find_mem_in _ _ _ Hf') as (Hin' & Hid').
  pose proof (vi_dev_next _ _ _ _ HI) as Hn. rewrite Forall_forall in Hn. specialize (Hn d Hin).
  destruct (step_mems_stable c v o f v' r calls d' Hs Hin' ltac:(lia)) as (d0 & Hin0 & E0).
  assert (Hid0 : dm_id d0 = id) by (unfold mem_key in E0; injection E0 as E1 _ _; lia).
  rewrite (find_mem_key_unique _ _ _ _ (vi_dev_nodup _ _ _ _ HI) Hf Hin0 Hid0) in E0. symmetry. exact E0.
Qed.

(* resource handles are positive: the counter behind vkCreateBuffer / vkCreateImage never goes down *)
Theorem reachA_res_nonneg v : reachA c v -> 0 <= m_next_res (v_m v).
Proof.
  induction 1 as [nslots v H Hn|v o f v' r calls R IH Hok Hd Hs Hp Hk].
  - unfold vam_new in H. destruct (negb _); [discriminate|]. destruct (negb _); [discriminate|]. injection H as <-. cbn. lia.
  - unfold step in Hs. set (v0 := set_m v (clear_calls (set_fault (v_m v) f 0))) in *. pose proof (exec_M c v0 o) as M.
    destruct (exec c v0 o) as (v1 & r1). cbn [fst] in M. injection Hs as <- _ _. destruct M as ((_ & (M & _)) & _). cbn in *. lia.
Qed.

(* every live buffer/image has an id the creation counter has passed: the next vkCreateBuffer/Image returns a fresh handle *)
Definition ResInv (m : mach) : Prop := Forall (fun r => rs_id r <= m_next_res m) (m_res m).

Lemma res_keep_inv m m' : res_keep m m' -> ResInv m -> ResInv m'.
Proof.
  intros (K1 & K2) H. unfold ResInv in *. rewrite Forall_forall in *. intros r' Hr'. destruct (K2 r' Hr') as [(r & Hr & E)|Hle]; [|lia].
  specialize (H r Hr). assert (rs_id r = rs_id r') by (unfold res_key in E; congruence). lia.
Qed.

Theorem reachA_res_inv v : reachA c v -> ResInv (v_m v).
Proof.
  induction 1 as [nslots v H Hn|v o f v' r calls R IH Hok Hd Hs Hp Hk].
  - unfold vam_new in H. destruct (negb _); [discriminate|]. destruct (negb _); [discriminate|]. injection H as <-. constructor.
  - unfold step in Hs. set (v0 := set_m v (clear_calls (set_fault (v_m v) f 0))) in *. pose proof (exec_M c v0 o) as M.
    destruct (exec c v0 o) as (v1 & r1). cbn [fst] in M. injection Hs as <- _ _. destruct M as ((_ & M) & _).
    apply (res_keep_inv _ _ M) in IH. exact IH.
Qed.

(* the requirements the device reports for a resource right after creating it are the ones it was created with *)
Lemma find_res_fresh l id : Forall (fun r => rs_id r < id) l -> find_res l id = None.
Proof. induction 1 as [|x l Hx _ IH]; cbn; [reflexivity|]. destruct (rs_id x =? id) eqn:E; [apply Z.eqb_eq in E; lia|exact IH]. Qed.

Lemma find_res_snoc l r : Forall (fun x => rs_id x < rs_id r) l -> find_res (l ++ [r]) (rs_id r) = Some r.
Proof. induction 1 as [|x l Hx _ IH]; cbn; [rewrite Z.eqb_refl; reflexivity|]. destruct (rs_id x =? rs_id r) eqn:E; [apply Z.eqb_eq in E; lia|exact IH]. Qed.

Lemma created_res_requirements m image kind req m1 id :
  ResInv m -> dev_create_res m image kind req = (m1, 0, id) ->
  exists r, find_res (m_res m1) id = Some r /\ rs_req r = req /\ rs_kind r = kind /\ rs_bound r = false.
Proof.
  intros HR. unfold dev_create_res. destruct (dev_fault _ _ _) as ((f1 & fi) & code). destruct (negb (code =? 0)) eqn:Ec; [intros E; injection E as _ E0 _; subst code; discriminate|].
  cbn [m_next_res set_fault m_res]. destruct (DEV_TABLE <=? _); [intros E; injection E as _ E0 _; unfold VK_OOHM in E0; discriminate|].
  intros E. injection E as <- <-. cbn [m_res log_call set_res]. exists (mkDres (m_next_res m + 1) kind req false 0 0). split; [|cbn; auto].
  apply (find_res_snoc (m_res m) (mkDres (m_next_res m + 1) kind req false 0 0)). cbn [rs_id]. unfold ResInv in HR.
  rewrite Forall_forall in *. intros x Hx. specialize (HR x Hx). lia.
Qed.

End Reach.
