(* GenLeafFlushCore.v — Vam.flush_range with its two state lookups (find_offset, the block's
   meta_size) as arguments.  A definition only: bin/leaf-search evaluates it (GenLeafTestVam.v),
   GenLeafProofsVam.flush_range_core proves that it is what Vam.flush_range computes. *)
From Coq Require Import ZArith Bool List.
From Arsenal Require Util.
From Arsenal Require Import VamDev.
Open Scope Z_scope.

Definition flush_core (nc : bool) (atom asize kind : Z) (aoff : option Z) (bsize : option Z) (offset size : Z)
  : out (option (Z * Z)) :=
  if (size =? 0) || (size <? -1) || negb nc then OK None
  else
    if offset <? 0 then ER VK_UNKNOWN
    else if asize <? offset then ER VK_UNKNOWN
    else if offset =? asize then OK None
    else if (0 <? size) && (asize <? offset + size) then ER VK_UNKNOWN
    else
      let roff := Util.align_down offset atom in
      if kind =? 2 then
        let rsize := asize - roff in
        let rsize' :=
          if 0 <? size then
            let aligned := Util.align_up (size + (offset - roff)) atom in
            if aligned <? rsize then aligned else rsize
          else rsize in
        OK (Some (roff, rsize'))
      else if kind =? 1 then
        let size1 := if size =? -1 then asize - roff else size in
        let rsize := Util.align_up (size1 + (offset - roff)) atom in
        match aoff, bsize with
        | Some ao, Some bs =>
          if negb (Z.rem ao atom =? 0) then PANIC
          else
            let roff' := roff + ao in
            let rest := bs - roff' in
            OK (Some (roff', if rest <? rsize then rest else rsize))
        | None, _ => PANIC
        | _, None => STUCK
        end
      else ER VK_UNKNOWN.
