(* VamValidUsage.v — C08: the valid-usage obligations of the driver calls the library issues, on every reachable state
   (with or without an open defragmentation), one API call at a time.

     step_call_args(_defrag)    every call of an API call satisfies VamAllocArgs.call_args_ok:
                                vkAllocateMemory: size > 0, memory type index inside the table, dedicated-allocation info
                                absent or naming the entry point's own resource (API >= 1.1, no CanAlias) with exactly the
                                size of its requirement; resource calls only from resource entry points, on their own
                                resource, through the entry points of its kind; flushes only from Flush/Invalidate
     dstep_call_args            the four defragmentation calls: no vkAllocateMemory, no resource call, no flush
     create_bind_usage          CreateBuffer / CreateImage: the bind of the library's own (resource, Allocation) pair
     allocate_for_usage         AllocateMemoryForBuffer / ForImage: what the later bind of the pair relies on
     library_calls_valid_usage  the summary for one API call: the above with VamMap.replay (map/unmap/free/bind/flush only on
                                live objects, map only when unmapped, unmap only when mapped), VamHv.maps_hv (map only
                                host-visible memory) and VamFlush.flushes_ok (flush ranges)

   Configuration domain beyond cfg_acct: every heap holds at least 8 bytes (heaps_min: a block of heap/8 bytes exists). *)
From Coq Require Import ZArith List Bool Lia.
From Arsenal Require Import Util Bits VamDev VamBlockList Vam VamInvMeta VamInv VamInvUpd VamInvDev VamInvStep VamInvStep2 VamInvThm.
From Arsenal Require Import VamAcct VamAcctStep VamAcctThm VamMap VamMapThm VamHvThm VamFlush VamFlushThm VamDefrag VamDefragThm VamDefragAcct.
From Arsenal Require Import VamDefragMap VamDefragHv VamDefragMem VamMemStable VamAllocArgs VamFit.
From Arsenal Require VamGran VamTypeBits.
Import ListNotations.
Open Scope Z_scope.

(* the step-level form of VamFit.create_post: [calls] is the log of the API call, oldest call first: create, requirements,
   the calls of the allocation (vkAllocateMemory / Map / Unmap / Free only), bind *)
Definition create_bound (c : vcfg) (v v' : vam) (calls : list call) (slot : Z) (image : bool) (kind : Z) (devreq : resreq)
           (flags : Z) (pool : option Z) : Prop :=
  let R := m_next_res (v_m v) + 1 in
  exists a o d mid,
    slot_is v' slot a /\ find_offset v' a = Some o /\ find_mem (m_mems (v_m v')) (a_mem a) = Some d /\ dm_type d = a_type a /\
    calls = CCreate image R 0 :: CReq image R :: mid ++ [CBind image R (a_mem a) o 0] /\ Forall alloc_or_mem mid /\
    find_res (m_res (v_m v')) R = Some (mkDres R kind devreq true (a_mem a) o) /\
    0 <= o /\ o + rq_size devreq <= dm_size d /\
    (Bits.pow2 (rq_align devreq) -> o mod rq_align devreq = 0) /\
    (pool = None -> VamTypeBits.type_bit (rq_tb devreq) (dm_type d)) /\
    (a_kind a = 2 -> o = 0 /\ In (CAlloc (a_mem a) (dm_type d) (rq_size devreq) (dedicated_info c flags R) 0) mid) /\
    (11 <= c_api c -> rq_reqded devreq = true -> a_kind a = 2).

Definition op_bind_usage (c : vcfg) (v v' : vam) (calls : list call) (o : op) : Prop :=
  match o with
  | OCreateBuf slot _ dr _ _ _ flags _ _ _ pool => fl flags F_DONTBIND = false -> create_bound c v v' calls slot false 1 dr flags pool
  | OCreateImg slot tiling _ dr _ _ flags _ _ _ pool =>
    fl flags F_DONTBIND = false -> create_bound c v v' calls slot true (if tiling =? 0 then 3 else 2) dr flags pool
  | OAllocFor slot _ res _ flags _ _ _ pool =>
    forall r, find_res (m_res (v_m v)) res = Some r ->
    exists a,
      slot_is v' slot a /\ rq_size (rs_req r) <= a_size a /\
      (a_kind a = 1 -> Bits.pow2 (a_align a) /\ rq_align (rs_req r) <= a_align a) /\
      (pool = None -> VamTypeBits.type_bit (rq_tb (rs_req r)) (a_type a)) /\
      (a_kind a = 2 -> In (CAlloc (a_mem a) (a_type a) (rq_size (rs_req r)) (dedicated_info c flags res) 0) calls) /\
      (11 <= c_api c -> rq_reqded (rs_req r) = true -> a_kind a = 2)
  | _ => True
  end.

Section Reach.
Variable c : vcfg.
Hypothesis Ha : cfg_acct c.
Hypothesis Hm : heaps_min c.
Let Hc := ca_ok c Ha.

Lemma step_call_args_inv v o f v' r calls :
  VamInv c v -> VamGran.GV c v -> ResInv (v_m v) -> op_dom o -> step c v o f = (v', r, calls) ->
  Forall (call_args_ok c (op_res v o) (op_ded c v o) (op_flushes o)) calls.
Proof.
  intros HI HV HR Hd Hs. unfold step in Hs. set (v0 := set_m v (clear_calls (set_fault (v_m v) f 0))) in *.
  assert (I0 : VamInv c v0) by (apply VamInvU_mach_same; [exact HI|eapply mach_same_trans; [apply mach_same_set_fault|apply mach_same_clear]]).
  assert (V0 : VamGran.GV c v0) by (apply (VamGran.GR_set_m c v _ HV)).
  assert (R0 : ResInv (v_m v0)) by exact HR.
  pose proof (exec_args c Hc v0 o I0 V0 R0 Hm (proj1 (ca_large c Ha)) ltac:(destruct o; try exact I; cbn in Hd; lia)) as H.
  assert (E1 : op_res v0 o = op_res v o) by (destruct o; reflexivity). assert (E2 : op_ded c v0 o = op_ded c v o) by (destruct o; reflexivity).
  rewrite E1, E2 in H. destruct (exec c v0 o) as (v1 & r1). cbn [fst] in H. injection Hs as _ _ <-.
  destruct H as (l & E & F). cbn in E. rewrite app_nil_r in E. rewrite E. apply Forall_rev. exact F.
Qed.

Theorem step_call_args_defrag v run o f v' r calls :
  reachDA c v run -> op_dom o -> step c v o f = (v', r, calls) ->
  Forall (call_args_ok c (op_res v o) (op_ded c v o) (op_flushes o)) calls.
Proof.
  intros R Hd Hs. destruct (reachDA_inv c Ha v run R) as (HI & _).
  apply (step_call_args_inv v o f v' r calls (va_s _ _ _ _ HI) (reachD_gv c Hc v run (reachDA_reachD c Ha v run R)) (reachDA_res_inv c v run R) Hd Hs).
Qed.

Theorem step_call_args v o f v' r calls :
  reachA c v -> op_dom o -> step c v o f = (v', r, calls) ->
  Forall (call_args_ok c (op_res v o) (op_ded c v o) (op_flushes o)) calls.
Proof. intros R. apply (step_call_args_defrag v None). apply (reachA_reachDA c Ha). exact R. Qed.

(* BeginDefragmentation, BeginDefragPass, EndDefragPass, Finish: only vkMapMemory / vkUnmapMemory / vkFreeMemory *)
Theorem dstep_call_args v run o f v' run' r calls dr :
  dstep c v run o f = (v', run', r, calls, dr) -> Forall mem_call calls.
Proof.
  unfold dstep. set (v0 := set_m v (clear_calls (set_fault (v_m v) f 0))).
  assert (H : NAv mem_call v0 (fst (fst (fst (dexec c v0 run o))))).
  { apply (dexec_R c (NA mem_call) (NA_refl mem_call) (NA_trans mem_call)); intros.
    - apply sm_sub_NA. auto.
    - apply sm_map_NA. auto.
    - apply add_allocation_NA.
    - apply (bl_free_N c mem_call). auto. }
  destruct (dexec c v0 run o) as (((v1 & run1) & r1) & dr1). cbn [fst] in H. intros E. injection E as _ _ _ <- _.
  destruct H as (l & E & F). cbn in E. rewrite app_nil_r in E. rewrite E. apply Forall_rev. exact F.
Qed.

Lemma create_post_bound v0 v1 m' slot image kind devreq flags pool :
  create_post c v0 v1 slot image kind devreq flags pool ->
  m_mems m' = m_mems (v_m v1) -> m_res m' = m_res (v_m v1) ->
  forall v, m_next_res (v_m v) = m_next_res (v_m v0) ->
  create_bound c v (set_m v1 m') (rev (m_calls (v_m v1))) slot image kind devreq flags pool.
Proof.
  intros (a & o & d & tl & P1 & P2 & P3 & P4 & P5 & P6 & P8 & P9 & P10 & P11 & P12 & P13 & P14) Em Er v En.
  unfold create_bound. rewrite En. exists a, o, d, (rev tl). cbn [v_m set_m]. rewrite Em, Er.
  split; [apply slot_is_set_m; exact P1|]. split; [rewrite find_offset_set_m; exact P2|]. split; [exact P3|]. split; [exact P4|].
  split; [rewrite P5; cbn [rev]; rewrite rev_app_distr; cbn; reflexivity|]. split; [apply Forall_rev; exact P6|].
  split; [exact P8|]. split; [exact P9|]. split; [exact P10|]. split; [exact P11|]. split; [exact P12|].
  split; [|exact P14]. intros K. destruct (P13 K) as (Q1 & Q2). split; [exact Q1|]. rewrite <- in_rev. exact Q2.
Qed.

Lemma step_bind_usage_inv v o f v' calls :
  VamInv c v -> VamGran.GV c v -> ResInv (v_m v) -> op_ok v o -> step c v o f = (v', ROk, calls) -> op_bind_usage c v v' calls o.
Proof.
  intros HI HV HR Hok Hs. unfold step in Hs. set (v0 := set_m v (clear_calls (set_fault (v_m v) f 0))) in *.
  assert (I0 : VamInv c v0) by (apply VamInvU_mach_same; [exact HI|eapply mach_same_trans; [apply mach_same_set_fault|apply mach_same_clear]]).
  assert (V0 : VamGran.GV c v0) by (apply (VamGran.GR_set_m c v _ HV)).
  assert (R0 : ResInv (v_m v0)) by exact HR.
  assert (C0 : m_calls (v_m v0) = []) by reflexivity.
  destruct o; try exact I; cbn [exec op_ok op_bind_usage] in *.
  - (* CreateBuffer *)
    destruct (create_buffer c v0 slot size devreq bufUsage minAlign usage flags req pref ctb pool) as (v1 & r1) eqn:E. injection Hs as <- Hr <-.
    destruct r1 as [[]|code| |]; try discriminate. intros Hdb.
    unfold create_buffer in E. destruct (a_allocated (get_alloc v0 slot)) eqn:Ea; [discriminate|]. destruct (_ && _); [discriminate|]. destruct (size =? 0); [discriminate|].
    destruct (_ && _); [discriminate|].
    assert (K2 : GranInv.kind_ok 2) by (unfold GranInv.kind_ok; lia).
    pose proof (create_resource_fit c Hc v0 slot false 1 2 devreq bufUsage minAlign usage flags req pref ctb pool v1 I0 V0 R0 K2 C0 Hok Ea E Hdb) as P.
    apply (create_post_bound v0 v1 _ slot false 1 devreq flags pool P); reflexivity.
  - (* CreateImage *)
    destruct (create_image c v0 slot tiling width devreq imgUsage usage flags req pref ctb pool) as (v1 & r1) eqn:E. injection Hs as <- Hr <-.
    destruct r1 as [[]|code| |]; try discriminate. intros Hdb.
    unfold create_image in E. destruct (a_allocated (get_alloc v0 slot)) eqn:Ea; [discriminate|]. destruct (width =? 0); [discriminate|].
    assert (K2 : GranInv.kind_ok (if tiling =? 0 then 5 else 4)) by (unfold GranInv.kind_ok; destruct (tiling =? 0); lia).
    pose proof (create_resource_fit c Hc v0 slot true _ _ devreq imgUsage 0 usage flags req pref ctb pool v1 I0 V0 R0 K2 C0 Hok Ea E Hdb) as P.
    apply (create_post_bound v0 v1 _ slot true _ devreq flags pool P); reflexivity.
  - (* AllocateMemoryForBuffer / ForImage *)
    destruct (allocate_for_resource c v0 slot image res usage flags req pref ctb pool) as (v1 & r1) eqn:E. injection Hs as <- Hr <-.
    destruct r1 as [[]|code| |]; try discriminate. intros r Hf.
    destruct (allocate_for_resource_fit c Hc v0 slot image res usage flags req pref ctb pool v1 I0 Hok E r Hf) as (a & P1 & P2 & P3 & P4 & P5 & P6).
    exists a. split; [apply slot_is_set_m; exact P1|]. split; [exact P2|]. split; [exact P3|]. split; [exact P4|]. split; [|exact P6].
    intros K. rewrite <- in_rev. apply P5. exact K.
Qed.

(* C08: the bind inside CreateBuffer / CreateImage, and what AllocateMemoryFor* leaves for the caller's bind *)
Theorem bind_usage_defrag v run o f v' calls :
  reachDA c v run -> op_ok v o -> step c v o f = (v', ROk, calls) -> op_bind_usage c v v' calls o.
Proof.
  intros R Hok Hs. destruct (reachDA_inv c Ha v run R) as (HI & _).
  apply (step_bind_usage_inv v o f v' calls (va_s _ _ _ _ HI) (reachD_gv c Hc v run (reachDA_reachD c Ha v run R)) (reachDA_res_inv c v run R) Hok Hs).
Qed.

Theorem bind_usage v o f v' calls : reachA c v -> op_ok v o -> step c v o f = (v', ROk, calls) -> op_bind_usage c v v' calls o.
Proof. intros R. apply (bind_usage_defrag v None). apply (reachA_reachDA c Ha). exact R. Qed.

(* BindBufferMemory / BindImageMemory (the caller's resource): at most one call, the memory object of the Allocation, the
   Allocation's offset plus the caller's local offset (VamFlush.bind_step_valid) *)
Definition op_bind_direct (v : vam) (calls : list call) (o : op) : Prop :=
  match o with
  | OBind s image res off =>
    calls = [] \/
    exists ofs code d, calls = [CBind image res (a_mem (get_alloc v s)) (off + ofs) code] /\ a_allocated (get_alloc v s) = true /\
      find_offset v (get_alloc v s) = Some ofs /\ find_mem (m_mems (v_m v)) (a_mem (get_alloc v s)) = Some d /\
      0 <= ofs /\ ofs + a_size (get_alloc v s) <= dm_size d /\ (a_kind (get_alloc v s) = 1 -> ofs mod a_align (get_alloc v s) = 0)
  | _ => True
  end.

Lemma no_flush_flushes_ok ms0 calls : Forall (fun k => match k with CFlush _ _ _ _ _ => False | _ => True end) calls -> flushes_ok c ms0 calls.
Proof.
  intros F pre inval mem off size r post ms1 E _. exfalso. rewrite Forall_forall in F.
  specialize (F (CFlush inval mem off size r)). apply F. rewrite E. apply in_app_iff. right. left. reflexivity.
Qed.

(* C08, one API call on any reachable state (a defragmentation may be open) *)
Theorem library_calls_valid_usage v run o f v' r calls :
  reachDA c v run -> op_ok v o -> op_dom o -> op_map_ok c v o -> step c v o f = (v', r, calls) -> r <> RPanic -> r <> RStuck ->
  replay (m_mems (v_m v)) calls (m_mems (v_m v')) /\
  maps_hv c (m_mems (v_m v)) calls /\
  flushes_ok c (m_mems (v_m v)) calls /\
  Forall (call_args_ok c (op_res v o) (op_ded c v o) (op_flushes o)) calls /\
  (r = ROk -> op_bind_usage c v v' calls o) /\
  op_bind_direct v calls o.
Proof.
  intros R Hok Hd Hmap Hs Hp Hk. destruct (reachDA_inv c Ha v run R) as (HI & _).
  pose proof (step_call_args_defrag v run o f v' r calls R Hd Hs) as HA.
  split.
  { pose proof (step_preservesM c Ha v o f HI (reachDA_map c Ha v run R) Hok Hd) as P. rewrite Hs in P. apply P; auto. }
  split; [eapply maps_only_host_visible_defrag; eauto|].
  split.
  { destruct o; try (apply no_flush_flushes_ok; eapply Forall_impl; [|exact HA]; intros k Hk'; destruct k; try exact I; cbn in Hk'; discriminate).
    apply (flush_never_panics_defrag c Ha v run inval slot off size f v' r calls R Hs). }
  split; [exact HA|]. split; [intros ->; eapply bind_usage_defrag; eauto|].
  destruct o; try exact I. apply (bind_never_panics_defrag c Ha v run slot image res off f v' r calls R Hs).
Qed.

(* ... and one defragmentation call *)
Theorem library_calls_valid_usage_dstep v run o f v' run' r calls dr :
  reachDA c v run -> dop_ok v run o -> dstep c v run o f = (v', run', r, calls, dr) -> r <> RPanic -> r <> RStuck ->
  replay (m_mems (v_m v)) calls (m_mems (v_m v')) /\ maps_hv c (m_mems (v_m v)) calls /\ Forall mem_call calls.
Proof.
  intros R Hok Hs Hp Hk. split; [eapply dstep_calls_valid; eauto|]. split; [eapply dstep_maps_host_visible; eauto|eapply dstep_call_args; eauto].
Qed.

End Reach.

Print Assumptions library_calls_valid_usage.
Print Assumptions library_calls_valid_usage_dstep.
Print Assumptions bind_usage.
Print Assumptions step_call_args.
