(* C02 / C08: the memory type of an allocation made for a resource is permitted by the resource's memoryTypeBits.

   multi_allocate_type_permitted: a successful multiAllocateMemory WITHOUT a custom pool gives every Allocation a memory type
     whose bit is set in the memoryTypeBits it was called with (the bit mask only loses bits in the fallback loop), and the
     type is an index of the device's type table.
   type_permitted_step: for AllocateMemory / AllocateMemoryForBuffer/Image / CreateBuffer / CreateImage as API calls, on
     reachable states: the Allocation's memory object has a memory type permitted by the requirements the call was made
     for (the caller's for AllocateMemory, the ones the device reports for the resource otherwise), so the
     vkBind*Memory that CreateBuffer/CreateImage go on to make (VamBindCreate.create_bind_valid) binds type-compatible memory.
   type_permitted_pool_refuted: WITH a custom pool the property is false: multiAllocateMemory takes the pool's memory type
     without looking at memoryTypeBits (allocator.go, `if options.Pool != nil`), so CreateBuffer into a pool of a type the
     buffer does not admit succeeds and binds the buffer to memory of a type outside its memoryTypeBits. *)
From Coq Require Import ZArith NArith List Bool Lia.
From Arsenal Require Import Util VamDev VamBlockList Vam VamInvMeta VamInv VamInvUpd VamInvDev VamInvStep VamInvStep2 VamInvThm VamProps VamPropsOps.
From Arsenal Require Bits Select SelectProofs SyncMem VamMemStable.
Import ListNotations.
Open Scope Z_scope.

Section WithCfg.
Variable c : vcfg.
Hypothesis Hc : cfg_ok c.

(* the slots hold Allocations that belong to block list / dedicated list [lr] *)
Definition from_list (v : vam) (lr : lref) (slots : list Z) : Prop := forall s, In s slots -> a_lref (get_alloc v s) = lr.

Lemma ded_page_lref v lr ty size sub doMap allowed s ded v' :
  allocate_dedicated_page c v lr ty size sub doMap allowed s ded = (v', OK tt) -> 0 <= s < zlen (v_tab v) ->
  from_list v' lr [s] /\ (forall s', s' <> s -> get_alloc v' s' = get_alloc v s') /\ zlen (v_tab v') = zlen (v_tab v).
Proof using.
  unfold allocate_dedicated_page. destruct (alloc_vk c (v_m v) ty size ded) as (m1 & r). destruct r as [mem|code| |]; try discriminate.
  destruct (if doMap then sm_map c m1 mem SyncMem.sm_init else (m1, SyncMem.sm_init, OK tt)) as ((m2 & s2) & mr).
  destruct mr as [[]|code| |]; try discriminate.
  - destruct (SyncMem.mapped s2 && negb allowed); [discriminate|]. intros E Hs. injection E as <-.
    split; [|split].
    + intros x [<-|[]]. unfold get_alloc. cbn. rewrite nth_z_set_same by auto. reflexivity.
    + intros s' Hne. unfold get_alloc. cbn. rewrite nth_z_set_other by congruence. reflexivity.
    + cbn. unfold zlen. rewrite set_nth_z_length. reflexivity.
  - destruct (free_vk c m2 ty size mem) as (m3 & fr). destruct fr; discriminate.
Qed.

Lemma dedicated_loop_lref slots : forall v lr ty size sub doMap allowed done ded v' done',
  dedicated_loop c v lr ty size sub doMap allowed slots done ded = (v', OK tt, done') ->
  NoDup (slots ++ done) -> (forall s, In s slots -> 0 <= s < zlen (v_tab v)) -> from_list v lr done ->
  from_list v' lr (slots ++ done) /\ zlen (v_tab v') = zlen (v_tab v).
Proof using.
  induction slots as [|s tl IH]; intros v lr ty size sub doMap allowed done ded v' done' E Hnd Hr Hd; cbn [dedicated_loop] in E.
  - injection E as <- _. cbn. auto.
  - destruct (allocate_dedicated_page c v lr ty size sub doMap allowed s ded) as (v1 & r) eqn:Ep.
    destruct r as [[]|code| |]; try discriminate.
    destruct (ded_page_lref _ _ _ _ _ _ _ _ _ _ Ep (Hr s (or_introl eq_refl))) as (D1 & F1 & L1).
    cbn [app] in Hnd. inversion Hnd as [|? ? Hns Hnd']; subst.
    assert (Hd1 : from_list v1 lr (s :: done)).
    { intros x [<-|Hx]; [apply D1; left; reflexivity|]. rewrite F1; [apply Hd; auto|]. intros ->. apply Hns. apply in_app_iff. auto. }
    destruct (IH v1 lr ty size sub doMap allowed (s :: done) ded v' done' E) as (D2 & L2); auto.
    + eapply Permutation.Permutation_NoDup; [apply Permutation.Permutation_middle|]. constructor; auto.
    + intros x Hx. rewrite L1. apply Hr. right. auto.
    + split; [|lia]. intros x Hx. apply D2. cbn in Hx. apply in_app_iff. destruct Hx as [<-|Hx]; [right; left; reflexivity|].
      apply in_app_iff in Hx. destruct Hx; [left; auto|right; right; auto].
Qed.

Lemma allocate_dedicated_lref v lr ty size sub doMap allowed slots ded v' :
  allocate_dedicated c v lr ty size sub doMap allowed slots ded = (v', OK tt) ->
  NoDup slots -> (forall s, In s slots -> 0 <= s < zlen (v_tab v)) -> from_list v' lr slots.
Proof using.
  unfold allocate_dedicated. destruct slots as [|s0 tl0] eqn:Es; [discriminate|]. rewrite <- Es.
  destruct (dedicated_loop c v lr ty size sub doMap allowed slots [] ded) as ((v1 & r) & done) eqn:El.
  destruct r as [[]|code| |]; try discriminate.
  - intros E Hnd Hr. injection E as <-.
    destruct (dedicated_loop_lref slots _ _ _ _ _ _ _ _ _ _ _ El) as (D & _); [rewrite app_nil_r; auto|auto|intros ? []|].
    rewrite app_nil_r in D. intros s Hs. unfold get_alloc. rewrite set_dedlist_tab. apply D. auto.
  - destruct (dedicated_rollback c v1 ty done) as (v2 & rr). destruct rr; discriminate.
Qed.

Lemma placed_from v lr align slots : placed v lr align slots -> from_list v lr slots.
Proof using. intros P s Hs. apply (P s Hs). Qed.

Lemma alloc_of_type_lref v X lr l ty size align dedPref flags sub slots ded v' :
  VamInvU c v [] X -> get_blist v lr = Some l -> bl_type l = ty -> align = 0 \/ Bits.pow2 align ->
  NoDup slots -> dead_slots v slots ->
  alloc_of_type c v lr ty size align dedPref flags sub slots ded = (v', OK tt) -> from_list v' lr slots.
Proof using Hc.
  intros HI Hg Hty Hal Hnd Hdead. unfold alloc_of_type. destruct slots as [|s0 tl0] eqn:Eslots; [discriminate|]. rewrite <- Eslots in *.
  rewrite Hg.
  set (f1 := if fl flags F_MAPPED && negb (host_visible c ty) then fl_clear flags F_MAPPED else flags).
  pose proof (calc_type_params_spec c v ty size (zlen slots) flags) as Hctp. fold f1 in Hctp.
  destruct (calc_type_params c v ty size (zlen slots) flags) as (v1 & fr).
  destruct Hctp as (m1 & -> & Hm1 & Hfr).
  assert (I1 : VamInvU c (set_m v m1) [] X) by (apply VamInvU_mach_same; auto).
  assert (Hg1 : get_blist (set_m v m1) lr = Some l) by (rewrite get_blist_set_m; auto).
  assert (Hdead1 : dead_slots (set_m v m1) slots) by exact Hdead.
  destruct fr as [flags'|code| |]; try contradiction; [|discriminate]. subst flags'.
  assert (Hded : forall w, (forall s, In s slots -> 0 <= s < zlen (v_tab w)) ->
            allocate_dedicated c w lr ty size sub (fl f1 F_MAPPED) (mapping_allowed f1) slots ded = (v', OK tt) -> from_list v' lr slots).
  { intros w Hr E. eapply allocate_dedicated_lref; eauto. }
  destruct (fl f1 F_DEDICATED); [apply Hded; intros s Hs; apply Hdead1; exact Hs|].
  set (canDed := negb (fl f1 F_NEVER) && (negb match lr with LPool _ => true | LDef _ => false end || negb (bl_explicit l))).
  match goal with |- context [if canDed then ?x else dedPref] => set (dp := if canDed then x else dedPref) end.
  destruct (canDed && dp) eqn:Ecd.
  - pose proof (allocate_dedicated_inv c (set_m v m1) X lr l ty size sub (fl f1 F_MAPPED) (mapping_allowed f1) slots ded I1 Hg1 Hty Hnd Hdead1) as P.
    destruct (allocate_dedicated c (set_m v m1) lr ty size sub (fl f1 F_MAPPED) (mapping_allowed f1) slots ded) as (v2 & r) eqn:Ead.
    destruct r as [[]|code| |]; try discriminate.
    + intros E. injection E as <-. eapply allocate_dedicated_lref; eauto. intros s Hs. apply Hdead1. exact Hs.
    + cbn in P. destruct P as (I2 & T2 & L2 & D2). destruct (lf'_some _ _ L2 _ _ Hg1) as (l2 & G2 & C2).
      pose proof (bl_allocate_inv c Hc v2 [] X lr slots size align f1 sub I2 Hal Hnd D2) as BA.
      pose proof (bl_allocate_align c Hc v2 [] X lr l2 slots size align f1 sub) as BL.
      destruct (bl_allocate c v2 lr slots size align f1 sub) as (v3 & br). destruct br as [[]|bcode| |]; try discriminate.
      * intros E. injection E as <-. eapply placed_from. apply (BL v3 I2 G2 Hal Hnd D2 eq_refl).
      * destruct (canDed && negb dp); [|discriminate].
        destruct (heap_budget c (v_m v3) (type_heap c ty)) as ((m4 & usage) & budget). destruct (budget <? _); [discriminate|].
        apply Hded. intros s Hs. destruct BA as ((_ & (Ez & _) & _) & Dd). cbn [set_m v_tab]. apply Dd. exact Hs.
  - pose proof (bl_allocate_inv c Hc (set_m v m1) [] X lr slots size align f1 sub I1 Hal Hnd Hdead1) as BA.
    pose proof (bl_allocate_align c Hc (set_m v m1) [] X lr l slots size align f1 sub) as BL.
    destruct (bl_allocate c (set_m v m1) lr slots size align f1 sub) as (v3 & br). destruct br as [[]|bcode| |]; try discriminate.
    + intros E. injection E as <-. eapply placed_from. apply (BL v3 I1 Hg1 Hal Hnd Hdead1 eq_refl).
    + destruct (canDed && negb dp); [|discriminate].
      destruct (heap_budget c (v_m v3) (type_heap c ty)) as ((m4 & usage) & budget). destruct (budget <? _); [discriminate|].
      apply Hded. intros s Hs. destruct BA as (_ & Dd). cbn [set_m v_tab]. apply Dd. exact Hs.
Qed.

(* ---- findMemoryTypeIndex: the index is inside the table and its bit is set in the mask *)

Lemma find_loop_bit mask req pref npref ts : forall i best j,
  Select.find_loop mask req pref npref ts i best = Some j ->
  (exists mc, best = Some (j, mc)) \/ ((i <= j < i + length ts)%nat /\ N.testbit mask (N.of_nat j) = true).
Proof using.
  induction ts as [|f ts IH]; intros i best j H; cbn [Select.find_loop] in H.
  - destruct best as [(b & mc)|]; [injection H as <-; left; eauto|discriminate].
  - assert (Hrec : forall best', Select.find_loop mask req pref npref ts (S i) best' = Some j ->
               (best' = best \/ (exists mc, best' = Some (i, mc) /\ N.testbit mask (N.of_nat i) = true)) ->
               (exists mc, best = Some (j, mc)) \/ ((i <= j < i + length (f :: ts))%nat /\ N.testbit mask (N.of_nat j) = true)).
    { intros best' H' Hb. destruct (IH _ _ _ H') as [(mc & E)|((R1 & R2) & R3)].
      - destruct Hb as [->|(mc' & -> & Hm)]; [left; eauto|]. injection E as <- _. right. cbn [length]. split; [lia|exact Hm].
      - right. cbn [length]. split; [lia|exact R3]. }
    destruct (negb (N.testbit mask (N.of_nat i))) eqn:Em; [apply (Hrec best H); left; reflexivity|].
    apply negb_false_iff in Em.
    destruct (negb (Select.has_all f req)); [apply (Hrec best H); left; reflexivity|].
    destruct (Nat.eqb (Select.cost pref npref f) 0); [injection H as <-; right; cbn [length]; split; [lia|exact Em]|].
    destruct best as [(b & mc)|].
    + destruct (Nat.ltb (Select.cost pref npref f) mc); [apply (Hrec _ H); right; eauto|apply (Hrec _ H); left; reflexivity].
    + apply (Hrec _ H). right. eauto.
Qed.

(* type [ty] is permitted by the mask [bits] (the Go expression  bits & (1 << ty) != 0) *)
Definition type_bit (bits ty : Z) : Prop := N.testbit (Z.to_N bits) (Z.to_N ty) = true.

Lemma find_type_index_bit global bits usage flags req pref ctb bufimg ty :
  find_type_index c global bits usage flags req pref ctb bufimg = Some ty ->
  0 <= ty < ntypes c /\ type_bit bits ty /\ N.testbit global (Z.to_N ty) = true /\ (Z.to_N ctb <> 0%N -> type_bit ctb ty).
Proof using.
  unfold find_type_index, type_bit. destruct (Select.find_prefs _ _ _ _ _ _) as ((rq & pf) & npf).
  destruct (Select.find_type _ _ _ _ _ _ _) as [n|] eqn:E; [|discriminate]. intros H. injection H as <-.
  unfold Select.find_type in E. destruct (find_loop_bit _ _ _ _ _ _ _ _ E) as [(mc & Hb)|((R1 & R2) & R3)]; [discriminate|].
  unfold types_n in R2. rewrite map_length in R2. split; [unfold ntypes, zlen; lia|].
  rewrite SelectProofs.eff_mask_spec in R3. apply andb_true_iff in R3. destruct R3 as (R3 & R5).
  apply andb_true_iff in R3. destruct R3 as (R3 & R4).
  replace (Z.to_N (Z.of_nat n)) with (N.of_nat n) by lia. split; [exact R3|]. split; [exact R4|].
  intros Hne. apply orb_true_iff in R5. destruct R5 as [R5|R5]; [apply N.eqb_eq in R5; contradiction|exact R5].
Qed.

Lemma type_bit_clear bits ty k : type_bit (Z.land bits (Z.lnot (Z.shiftl 1 ty))) k -> type_bit bits k.
Proof using.
  unfold type_bit. intros H. destruct (Z.ltb_spec bits 0) as [Hneg|Hpos].
  - (* a negative mask is the empty mask after Z.to_N, and the cleared mask is... possibly not: rule it out through the bit itself *)
    destruct (Z.ltb_spec (Z.land bits (Z.lnot (Z.shiftl 1 ty))) 0) as [Hn|Hp].
    + replace (Z.to_N (Z.land bits (Z.lnot (Z.shiftl 1 ty)))) with 0%N in H by (destruct (Z.land bits (Z.lnot (Z.shiftl 1 ty))); [reflexivity|lia|reflexivity]). rewrite N.bits_0 in H. discriminate.
    + exfalso. apply Z.land_nonneg in Hp. destruct Hp as [Hp|Hp]; [lia|].
      rewrite Z.lnot_nonneg in Hp. pose proof (proj2 (Z.shiftl_nonneg 1 ty) ltac:(lia)). lia.
  - assert (Hl : 0 <= Z.land bits (Z.lnot (Z.shiftl 1 ty))) by (apply Z.land_nonneg; left; exact Hpos).
    rewrite <- (Z.testbit_of_N (Z.to_N (Z.land bits (Z.lnot (Z.shiftl 1 ty)))) (Z.to_N k)) in H. rewrite Z2N.id in H by exact Hl.
    rewrite Z.land_spec in H. apply andb_true_iff in H. destruct H as (H & _).
    rewrite <- (Z.testbit_of_N (Z.to_N bits) (Z.to_N k)). rewrite Z2N.id by exact Hpos. exact H.
Qed.

(* the slots hold Allocations of one memory type, which the mask permits *)
Definition typed_in (v : vam) (bits : Z) (slots : list Z) : Prop :=
  exists ty, 0 <= ty < ntypes c /\ type_bit bits ty /\ forall s, In s slots -> a_type (get_alloc v s) = ty /\ a_lref (get_alloc v s) = LDef ty.

Lemma type_loop_typed fuel : forall v X bits ty size align dedPref usage flags req pref ctb sub slots ded bufimg v',
  VamInvU c v [] X -> align = 0 \/ Bits.pow2 align -> NoDup slots -> dead_slots v slots ->
  0 <= ty < ntypes c -> type_bit bits ty -> (forall s, In s slots -> ~ In s X) ->
  type_loop c fuel v bits ty size align dedPref usage flags req pref ctb sub slots ded bufimg = (v', OK tt) -> typed_in v' bits slots.
Proof using Hc.
  induction fuel as [|f IH]; intros v X bits ty size align dedPref usage flags req pref ctb sub slots ded bufimg v' HI Hal Hnd Hdead Hty Hbit HX E;
    cbn [type_loop] in E; [discriminate|].
  destruct (get_blist v (LDef ty)) as [l|] eqn:Hg; [|discriminate].
  pose proof (alloc_of_type_inv c Hc v X (LDef ty) l ty size align dedPref flags sub slots ded HI Hg (vi_def_type _ _ _ _ HI _ _ Hg) Hal Hnd Hdead) as P.
  pose proof (alloc_of_type_lref v X (LDef ty) l ty size align dedPref flags sub slots ded) as A.
  destruct (alloc_of_type c v (LDef ty) ty size align dedPref flags sub slots ded) as (v1 & r) eqn:Ea.
  destruct r as [[]|code| |]; try discriminate.
  - injection E as <-. specialize (A v1 HI Hg (vi_def_type _ _ _ _ HI _ _ Hg) Hal Hnd Hdead eq_refl).
    cbn [alloc_post] in P. destruct P as (I1 & T1 & L1 & D1).
    exists ty. split; [exact Hty|]. split; [exact Hbit|]. intros s Hs. split; [|apply A; exact Hs].
    destruct (D1 s Hs) as (a & Sa). rewrite (get_alloc_slot _ _ _ Sa). pose proof (A s Hs) as El. rewrite (get_alloc_slot _ _ _ Sa) in El.
    destruct (vi_slots _ _ _ _ I1 s a Sa (HX s Hs)) as [(K & l1 & b & rg & G1 & _ & _ & _ & _ & _ & _ & _ & _ & Ht)|(K & _ & (l1 & G1 & Ht) & _)].
    + rewrite El in G1. rewrite Ht. apply (vi_def_type _ _ _ _ I1 _ _ G1).
    + rewrite El in G1. rewrite <- Ht. apply (vi_def_type _ _ _ _ I1 _ _ G1).
  - destruct (code =? VK_UNKNOWN); [discriminate|]. destruct P as (I1 & T1 & L1 & D1).
    destruct (find_type_index c (v_global v1) _ usage flags req pref ctb bufimg) as [ty'|] eqn:Ef; [|discriminate].
    destruct (find_type_index_bit _ _ _ _ _ _ _ _ _ Ef) as (Hty' & Hbit' & _).
    destruct (IH v1 X _ ty' size align dedPref usage flags req pref ctb sub slots ded bufimg v' I1 Hal Hnd D1 Hty' Hbit' HX E) as (t & T0 & T1' & T2).
    exists t. split; [exact T0|]. split; [eapply type_bit_clear; exact T1'|exact T2].
Qed.

(* multiAllocateMemory without a custom pool *)
Theorem multi_allocate_type_permitted v size align typeBits reqDed prefDed ded bufimg usage flags0 req pref ctb sub slots v' :
  VamInv c v -> NoDup slots -> dead_slots v slots ->
  multi_allocate c v size align typeBits reqDed prefDed ded bufimg usage flags0 req pref ctb None sub slots = (v', OK tt) ->
  typed_in v' typeBits slots.
Proof using Hc.
  intros HI Hnd Hdead E. unfold multi_allocate in E.
  destruct (is_pow2_or_zero align) eqn:Ea; cbn [negb] in E; [|discriminate]. pose proof (pow2_or_zero_spec _ Ea) as Hal.
  destruct (size <? 1); [discriminate|].
  destruct (calc_params usage flags0 reqDed _) as [flags|code| |] eqn:Ecp; try discriminate.
  destruct (find_type_index c (v_global v) typeBits usage flags req pref ctb bufimg) as [ty|] eqn:Ef; [|discriminate].
  destruct (find_type_index_bit _ _ _ _ _ _ _ _ _ Ef) as (Hty & Hbit & _).
  eapply type_loop_typed; eauto.
Qed.


(* ---- the API calls *)

(* the Allocation object the call fills, and the memoryTypeBits of the requirements the call is made for: the caller's
   MemoryRequirements for AllocateMemory; for the others what vkGet{Buffer,Image}MemoryRequirements reports for the resource
   (for CreateBuffer/CreateImage the resource is created by the call, with requirements devreq) *)
Definition op_type_bits (v : vam) (o : op) : option (Z * Z) :=
  match o with
  | OAlloc slot _ _ typeBits _ _ _ _ _ None => Some (slot, typeBits)
  | OCreateBuf slot _ devreq _ _ _ _ _ _ _ None => Some (slot, rq_tb devreq)
  | OCreateImg slot _ _ devreq _ _ _ _ _ _ None => Some (slot, rq_tb devreq)
  | OAllocFor slot _ res _ _ _ _ _ None =>
    Some (slot, match find_res (m_res (v_m v)) res with Some r => rq_tb (rs_req r) | None => 0 end)
  | _ => None
  end.

Definition slot_typed (v' : vam) (slot bits : Z) : Prop :=
  a_allocated (get_alloc v' slot) = true /\ 0 <= a_type (get_alloc v' slot) < ntypes c /\ type_bit bits (a_type (get_alloc v' slot)).

Lemma multi_allocate_slot_typed v size align typeBits reqDed prefDed ded bufimg usage flags0 req pref ctb sub slot v' :
  VamInv c v -> 0 <= slot < zlen (v_tab v) -> a_allocated (get_alloc v slot) = false ->
  multi_allocate c v size align typeBits reqDed prefDed ded bufimg usage flags0 req pref ctb None sub [slot] = (v', OK tt) ->
  slot_typed v' slot typeBits.
Proof using Hc.
  intros HI Hs Hd E.
  assert (Hnd : NoDup [slot]) by (constructor; [intros []|constructor]).
  assert (Hdead : dead_slots v [slot]) by (intros x [<-|[]]; auto).
  pose proof (multi_allocate_inv c Hc v [] size align typeBits reqDed prefDed ded bufimg usage flags0 req pref ctb None sub [slot] HI Hnd Hdead) as P.
  rewrite E in P. cbn [alloc_post] in P. destruct P as (_ & _ & _ & D). destruct (D slot (or_introl eq_refl)) as (a & Sa).
  destruct (multi_allocate_type_permitted v size align typeBits reqDed prefDed ded bufimg usage flags0 req pref ctb sub [slot] v' HI Hnd Hdead E) as (ty & T0 & T1 & T2).
  destruct (T2 slot (or_introl eq_refl)) as (Et & _). unfold slot_typed. rewrite Et. split; [rewrite (get_alloc_slot _ _ _ Sa); apply Sa|auto].
Qed.

Lemma bind_memory_alloc v slot image res off : get_alloc (fst (bind_memory v slot image res off)) slot = get_alloc v slot.
Proof using.
  unfold bind_memory. destruct (res =? 0); [reflexivity|]. destruct (negb _); [reflexivity|]. destruct (off <? 0); [reflexivity|].
  destruct (if a_kind (get_alloc v slot) =? 2 then _ else _) as [o|code| |]; try reflexivity.
  destruct (dev_bind _ _ _ _ _) as (m1 & code). reflexivity.
Qed.

Lemma create_resource_slot_typed v slot image kind sub devreq resusage minAlign usage flags req pref ctb v' :
  VamInv c v -> VamMemStable.ResInv (v_m v) -> 0 <= slot < zlen (v_tab v) -> a_allocated (get_alloc v slot) = false ->
  create_resource c v slot image kind sub devreq resusage minAlign usage flags req pref ctb None = (v', OK tt) ->
  slot_typed v' slot (rq_tb devreq).
Proof using Hc.
  intros HI HR Hs Hd. unfold create_resource.
  pose proof (dev_create_res_same (v_m v) image kind devreq) as H1.
  destruct (dev_create_res (v_m v) image kind devreq) as ((m1 & code) & id) eqn:Ecr. cbn [fst] in H1.
  destruct (negb (code =? 0)) eqn:Ec; [discriminate|]. apply negb_false_iff in Ec. apply Z.eqb_eq in Ec. subst code.
  destruct (VamMemStable.created_res_requirements (v_m v) image kind devreq m1 id HR Ecr) as (r & Hf & Hrq & _).
  assert (Egr : exists m2, get_requirements c m1 image id = (m2, devreq, (if 11 <=? c_api c then rq_reqded devreq else false), (if 11 <=? c_api c then rq_prefded devreq else false)) /\ mach_same m1 m2).
  { unfold get_requirements, dev_requirements. rewrite Hf, Hrq. exists (log_call m1 (CReq image id)). split; [destruct (11 <=? c_api c); reflexivity|apply mach_same_log]. }
  destruct Egr as (m2 & Egr & H2). rewrite Egr.
  assert (I2 : VamInv c (set_m v m2)) by (apply VamInvU_mach_same; [exact HI|eapply mach_same_trans; eauto]).
  match goal with |- context [multi_allocate c (set_m v m2) ?a1 ?a2 ?a3 ?a4 ?a5 ?a6 ?a7 usage flags req pref ctb None sub [slot]] =>
    pose proof (multi_allocate_slot_typed (set_m v m2) a1 a2 a3 a4 a5 a6 a7 usage flags req pref ctb sub slot) as MT;
    destruct (multi_allocate c (set_m v m2) a1 a2 a3 a4 a5 a6 a7 usage flags req pref ctb None sub [slot]) as (v3 & r3) end.
  destruct r3 as [[]|acode| |]; try discriminate. specialize (MT v3 I2 Hs Hd eq_refl).
  destruct (fl flags F_DONTBIND); [intros E; injection E as <-; exact MT|].
  pose proof (bind_memory_alloc v3 slot image id 0) as Eb. destruct (bind_memory v3 slot image id 0) as (v4 & br). cbn [fst] in Eb.
  destruct br as [[]|bcode| |]; try discriminate.
  - intros E. injection E as <-. unfold slot_typed. rewrite Eb. exact MT.
  - destruct (if a_allocated (get_alloc v4 slot) then multi_free c v4 [slot] else (v4, OK tt)) as (v5 & fr). destruct fr; discriminate.
Qed.

Lemma exec_type_permitted v o slot bits v' :
  VamInv c v -> VamMemStable.ResInv (v_m v) -> op_ok v o -> op_type_bits v o = Some (slot, bits) -> exec c v o = (v', OK tt) ->
  slot_typed v' slot bits.
Proof using Hc.
  intros HI HR Hok Hb. destruct o; try discriminate; cbn [op_type_bits] in Hb; destruct pool; try discriminate; injection Hb as <- <-; cbn [exec op_ok] in *.
  - unfold allocate_memory. destruct (a_allocated (get_alloc v slot0)) eqn:Ea; [discriminate|]. apply multi_allocate_slot_typed; auto.
  - unfold create_buffer. destruct (a_allocated (get_alloc v slot0)) eqn:Ea; [discriminate|]. destruct (_ && _); [discriminate|].
    destruct (size =? 0); [discriminate|]. destruct (_ && _); [discriminate|]. apply create_resource_slot_typed; auto.
  - unfold create_image. destruct (a_allocated (get_alloc v slot0)) eqn:Ea; [discriminate|]. destruct (width =? 0); [discriminate|].
    apply create_resource_slot_typed; auto.
  - unfold allocate_for_resource. destruct (res =? 0); [discriminate|]. destruct (a_allocated (get_alloc v slot0)) eqn:Ea; [discriminate|].
    unfold get_requirements, dev_requirements.
    set (rq := match find_res (m_res (v_m v)) res with Some r => rs_req r | None => mkResreq 0 0 0 false false end).
    assert (Eq : rq_tb rq = match find_res (m_res (v_m v)) res with Some r => rq_tb (rs_req r) | None => 0 end) by (unfold rq; destruct (find_res _ _); reflexivity).
    rewrite <- Eq.
    assert (I2 : VamInv c (set_m v (log_call (v_m v) (CReq image res)))) by (apply VamInvU_mach_same; [exact HI|apply mach_same_log]).
    destruct (11 <=? c_api c); apply multi_allocate_slot_typed; auto.
Qed.

End WithCfg.

From Arsenal Require Import VamAcct VamAcctStep VamAcctThm VamMemStable.

Section Thm.
Variable c : vcfg.
Hypothesis Ha : cfg_acct c.

(* C02/C08: the memory an allocation call hands out for a resource has a memory type the resource admits *)
Theorem type_permitted_step v o f v' calls slot bits :
  reachA c v -> op_ok v o -> op_dom o -> step c v o f = (v', ROk, calls) -> op_type_bits v o = Some (slot, bits) ->
  exists a d, slot_is v' slot a /\ 0 <= a_type a < ntypes c /\ type_bit bits (a_type a) /\
              find_mem (m_mems (v_m v')) (a_mem a) = Some d /\ dm_type d = a_type a.
Proof.
  intros R Hok Hd Hs Hb.
  pose proof (reachA_step c v o f v' ROk calls R Hok Hd Hs ltac:(discriminate) ltac:(discriminate)) as R'.
  pose proof (va_s _ _ _ _ (reachA_inv c Ha v R)) as HI. pose proof (va_s _ _ _ _ (reachA_inv c Ha v' R')) as HI'.
  pose proof (reachA_res_inv c v R) as HR.
  unfold step in Hs. set (v0 := set_m v (clear_calls (set_fault (v_m v) f 0))) in *.
  assert (I0 : VamInv c v0).
  { apply VamInvU_mach_same; [exact HI|]. eapply mach_same_trans; [apply mach_same_set_fault|apply mach_same_clear]. }
  assert (R0 : ResInv (v_m v0)) by exact HR.
  assert (Hok0 : op_ok v0 o) by (destruct o; exact Hok).
  assert (Hb0 : op_type_bits v0 o = Some (slot, bits)) by (destruct o; exact Hb).
  destruct (exec c v0 o) as (v1 & r) eqn:Ee. destruct r as [[]|code| |]; cbn in Hs; try discriminate. injection Hs as <- _.
  destruct (exec_type_permitted c (ca_ok c Ha) v0 o slot bits v1 I0 R0 Hok0 Hb0 Ee) as (Al & T0 & T1).
  set (v' := set_m v1 (clear_calls (set_fault (v_m v1) no_fault (m_fired (v_m v1))))) in *.
  assert (Sa : slot_is v' slot (get_alloc v1 slot)) by (apply slot_is_set_m; apply get_alloc_allocated; exact Al).
  destruct (alloc_denotes_valid_range c v' HI' slot _ Sa) as (d & off & Hf & Ht & _).
  exists (get_alloc v1 slot), d. auto.
Qed.

End Thm.

(* ---- with a custom pool the property is false *)

(* device exA_cfg: memory types 0 (device local) and 1 (host visible, coherent).  A pool of memory type 1; then CreateBuffer
   into that pool for a buffer whose requirements admit only memory type 0 (memoryTypeBits = 1): the call succeeds and binds
   the buffer to memory of type 1. *)
Definition tb_v0 : vam :=
  match vam_new exA_cfg 4 with OK v => v | _ => mkVam (mkMach [] 0 no_fault 0 Budget.bzero [] [] 0) 0%N [] [] [] 0 1 [] end.
Definition tb_v1 : vam := fst (fst (step exA_cfg tb_v0 (OMkPool 1 0 65536 0 0 0) no_fault)).
Definition tb_op : op := OCreateBuf 0 1000 (mkResreq 1000 16 1 false false) 128 0 0 0 0 0 0 (Some 1).

Theorem type_permitted_pool_refuted :
  reachA exA_cfg tb_v1 /\ op_ok tb_v1 tb_op /\ op_dom tb_op /\
  exists v' calls a d,
    step exA_cfg tb_v1 tb_op no_fault = (v', ROk, calls) /\ slot_is v' 0 a /\
    find_mem (m_mems (v_m v')) (a_mem a) = Some d /\ dm_type d = a_type a /\
    ~ type_bit 1 (a_type a) /\                         (* memoryTypeBits of the buffer = 1, the memory type is 1 *)
    In (CBind false 1 (a_mem a) 0 0) calls.            (* vkBindBufferMemory(buffer 1, that memory, offset 0) = VK_SUCCESS *)
Proof.
  split; [|split; [vm_compute; split; [discriminate|reflexivity]|split; [vm_compute; reflexivity|]]].
  - assert (R0 : reachA exA_cfg tb_v0).
    { unfold tb_v0. destruct (vam_new exA_cfg 4) as [v0| | |] eqn:E0; try (vm_compute in E0; discriminate). eapply reachA_new; [exact E0|cbn; lia]. }
    unfold tb_v1. destruct (step exA_cfg tb_v0 (OMkPool 1 0 65536 0 0 0) no_fault) as ((v1 & r1) & c1) eqn:E1.
    assert (r1 = ROk) by (vm_compute in E1; congruence). subst r1.
    eapply reachA_step; [exact R0| | |exact E1|discriminate|discriminate]; vm_compute; [exact I|split; [discriminate|reflexivity]].
  - destruct (step exA_cfg tb_v1 tb_op no_fault) as ((v' & r) & calls) eqn:E.
    assert (Ev : v' = fst (fst (step exA_cfg tb_v1 tb_op no_fault))) by (rewrite E; reflexivity).
    assert (Er : r = ROk) by (vm_compute in E; congruence).
    assert (Ec : calls = snd (step exA_cfg tb_v1 tb_op no_fault)) by (rewrite E; reflexivity).
    subst r. exists v', calls, (get_alloc v' 0).
    exists (match find_mem (m_mems (v_m v')) (a_mem (get_alloc v' 0)) with Some d => d | None => mkDmem 0 0 0 false end).
    split; [reflexivity|]. rewrite Ev, Ec. vm_compute. repeat split; try reflexivity; try discriminate. do 3 right. left. reflexivity.
Qed.
