(* SyncMem.v — executable model of vam/internal/vulkan/sync_memory.go (SynchronizedMemory):
   reference-counted mapping of one VkDeviceMemory with the map/unmap hysteresis.

   One model step = one call of Map / Unmap / RecordSuballocSubfree / FreeMemory.  A step returns the
   new state, the result and the LIST OF DRIVER CALLS the Go code makes during the call.  The driver's
   answer to vkMapMemory is an input of the step (the [fault] flag of [OMap]).

   Integer types: mapReferences is a Go int (modelled as Z; the harness domain is far from 2^63),
   delayCounter is a uint32 (wraps mod 2^32), statusCounter an int32 (wraps, Go semantics).
   [freed] is a ghost field (the Go object does not know that it was freed); no step reads it. *)
From Coq Require Import ZArith List Bool Lia.
Import ListNotations.
Open Scope Z_scope.

Definition map_delay : Z := 7.

Definition wrap_u32 (x : Z) : Z := x mod 4294967296.
Definition wrap_i32 (x : Z) : Z := (x + 2147483648) mod 4294967296 - 2147483648.

Record sm := mkSm {
  mapRefs : Z;        (* mapReferences *)
  mapped : bool;      (* mapData != nil *)
  delayCounter : Z;   (* uint32 *)
  statusCounter : Z;  (* int32 *)
  extra : bool;       (* extraMapping *)
  freed : bool        (* ghost: FreeMemory was called *)
}.

Definition sm_init : sm := mkSm 0 false 0 0 false false.

Definition set_refs (s : sm) (r : Z) : sm :=
  mkSm r (mapped s) (delayCounter s) (statusCounter s) (extra s) (freed s).
Definition set_mapped (s : sm) (b : bool) : sm :=
  mkSm (mapRefs s) b (delayCounter s) (statusCounter s) (extra s) (freed s).
Definition set_counters (s : sm) (d st : Z) : sm :=
  mkSm (mapRefs s) (mapped s) d st (extra s) (freed s).
Definition set_extra (s : sm) (b : bool) : sm :=
  mkSm (mapRefs s) (mapped s) (delayCounter s) (statusCounter s) b (freed s).
Definition set_freed (s : sm) (b : bool) : sm :=
  mkSm (mapRefs s) (mapped s) (delayCounter s) (statusCounter s) (extra s) b.

(* References(): mapReferences, plus one for the hysteresis' extra mapping *)
Definition references (s : sm) : Z := mapRefs s + (if extra s then 1 else 0).

Inductive op :=
| OMap (refs : Z) (fault : bool)   (* Map(driver, refs, 0, WholeSize, 0); fault: vkMapMemory fails if called *)
| OUnmap (refs : Z)                (* Unmap(driver, refs) *)
| OSubAllocFree                    (* RecordSuballocSubfree(driver) *)
| OFree.                           (* FreeMemory(driver) *)

(* driver calls; DMap carries whether the driver reported success *)
Inductive call := DMap (ok : bool) | DUnmap | DFree.

Inductive res :=
| ROk (ptr : bool)      (* success; for Map: a non-nil pointer was returned *)
| ROkB (b : bool)       (* RecordSuballocSubfree's bool result *)
| RErrMapFailed         (* the driver's vkMapMemory failed; its error is passed on *)
| RErrNoData            (* "showing existing memory mapping references, but no mapped memory" *)
| RErrTooManyUnmaps.    (* "more references being unmapped than are currently mapped" *)

(* postMapUnmap *)
Definition post_map_unmap (s : sm) : sm * bool :=
  let d := wrap_u32 (delayCounter s + 1) in
  let st := wrap_i32 (statusCounter s + 1) in
  if map_delay <=? d then
    if 1 <=? st then (set_extra (set_counters s 0 0) true, true)
    else (set_counters s 0 st, false)
  else (set_counters s d st, false).

Definition do_map (s : sm) (refs : Z) (fault : bool) : sm * res * list call :=
  if refs =? 0 then (s, ROk false, [])
  else
    let old := references s in
    let '(s1, switched) := post_map_unmap s in
    if 0 <? old then
      let s2 := set_refs s1 (mapRefs s1 + refs) in
      if mapped s2 then (s2, ROk true, []) else (s2, RErrNoData, [])
    else if fault then
      ((if switched then set_extra s1 false else s1), RErrMapFailed, [DMap false])
    else (set_refs (set_mapped s1 true) refs, ROk true, [DMap true]).

Definition do_unmap (s : sm) (refs : Z) : sm * res * list call :=
  if mapRefs s =? 0 then (s, ROk false, [])
  else if mapRefs s <? refs then (s, RErrTooManyUnmaps, [])
  else
    let m := mapRefs s - refs in
    let m := if m <? 0 then 0 else m in
    let '(s1, _) := post_map_unmap (set_refs s m) in
    if references s1 <=? 0 then (set_mapped s1 false, ROk false, [DUnmap])
    else (s1, ROk false, []).

Definition do_sub (s : sm) : sm * res * list call :=
  let d := wrap_u32 (delayCounter s + 1) in
  let st := wrap_i32 (statusCounter s - 1) in
  if map_delay <=? d then
    if st <=? -2 then
      let s1 := set_counters s 0 0 in
      if extra s then
        let s2 := set_extra s1 false in
        if (mapRefs s =? 0) && mapped s then (set_mapped s2 false, ROkB true, [DUnmap])
        else (s2, ROkB true, [])
      else (s1, ROkB true, [])
    else (set_counters s 0 st, ROkB false, [])
  else (set_counters s d st, ROkB false, []).

Definition do_free (s : sm) : sm * res * list call := (set_freed s true, ROk false, [DFree]).

Definition step (s : sm) (o : op) : sm * res * list call :=
  match o with
  | OMap r f => do_map s r f
  | OUnmap r => do_unmap s r
  | OSubAllocFree => do_sub s
  | OFree => do_free s
  end.

(* ------------------------------------------------------------------ the device *)

Record devstate := mkDev { d_alive : bool; d_mapped : bool }.
Definition dev_init : devstate := mkDev true false.

(* Vulkan valid usage for one memory object: vkMapMemory only when alive and not mapped,
   vkUnmapMemory only when mapped, vkFreeMemory once (freeing mapped memory unmaps it implicitly). *)
Definition dev_step (d : devstate) (c : call) : option devstate :=
  match c with
  | DMap ok => if d_alive d && negb (d_mapped d) then Some (mkDev true ok) else None
  | DUnmap => if d_alive d && d_mapped d then Some (mkDev true false) else None
  | DFree => if d_alive d then Some (mkDev false false) else None
  end.

Fixpoint dev_run (d : devstate) (cs : list call) : option devstate :=
  match cs with
  | [] => Some d
  | c :: tl => match dev_step d c with Some d' => dev_run d' tl | None => None end
  end.

(* The lenient device used by the trace driver: it mirrors what the simulated device of the harness
   (simvk) does with INVALID calls (records a violation, carries on), so that out-of-domain histories
   can be replayed too.  On valid calls it agrees with [dev_step] (proved in SyncMemProofs). *)
Definition dev_apply (dv : devstate * Z) (c : call) : devstate * Z :=
  let '(d, v) := dv in
  match c with
  | DMap ok =>
    if negb (d_alive d) then (d, v + 1)
    else if ok then (if d_mapped d then (d, v + 1) else (mkDev true true, v))
    else (d, v)
  | DUnmap =>
    if d_alive d && d_mapped d then (mkDev true false, v) else (d, v + 1)
  | DFree =>
    if d_alive d then (mkDev false false, v) else (d, v + 1)
  end.

(* one step of code + simulated device: a dead memory object makes vkMapMemory fail *)
Definition sim_step (w : sm * (devstate * Z)) (o : op) : (sm * (devstate * Z)) * res * list call :=
  let '(s, dv) := w in
  let o' := match o with
            | OMap r f => OMap r (f || negb (d_alive (fst dv)))
            | _ => o
            end in
  let '(s', r, cs) := step s o' in
  ((s', fold_left dev_apply cs dv), r, cs).

Definition sim_init : sm * (devstate * Z) := (sm_init, (dev_init, 0)).

(* ------------------------------------------------------------------ histories *)

(* ghost: references handed out to users = sum of successful Map refs - sum of successful Unmap refs *)
Definition out_upd (out : Z) (o : op) (r : res) : Z :=
  match o, r with
  | OMap n _, ROk _ => out + n
  | OUnmap n, ROk _ => out - n
  | _, _ => out
  end.

(* run: final state, ghost count, concatenated driver-call trace, results *)
Fixpoint run (s : sm) (out : Z) (ops : list op) : sm * Z * list call * list res :=
  match ops with
  | [] => (s, out, [], [])
  | o :: tl =>
    let '(s', r, cs) := step s o in
    let '(sf, outf, tr, rs) := run s' (out_upd out o r) tl in
    (sf, outf, cs ++ tr, r :: rs)
  end.

(* The API domain, as an executable predicate on the history: nothing after FreeMemory, reference
   counts are non-negative, and Unmap(n) only gives back references that are outstanding. *)
Definition op_ok (s : sm) (out : Z) (o : op) : bool :=
  negb (freed s) &&
  match o with
  | OMap n _ => 0 <=? n
  | OUnmap n => (0 <=? n) && (n <=? out)
  | _ => true
  end.

Fixpoint in_domain_from (s : sm) (out : Z) (ops : list op) : bool :=
  match ops with
  | [] => true
  | o :: tl =>
    op_ok s out o &&
    let '(s', r, _) := step s o in in_domain_from s' (out_upd out o r) tl
  end.

Definition in_domain (ops : list op) : bool := in_domain_from sm_init 0 ops.

(* The weaker domain that suffices for driver-call validity: Unmap may ask for too much (the code
   rejects or ignores that without side effects). *)
Definition op_ok_weak (s : sm) (o : op) : bool :=
  negb (freed s) &&
  match o with
  | OMap n _ => 0 <=? n
  | _ => true
  end.

Fixpoint in_weak_domain_from (s : sm) (ops : list op) : bool :=
  match ops with
  | [] => true
  | o :: tl => op_ok_weak s o && let '(s', _, _) := step s o in in_weak_domain_from s' tl
  end.

Definition in_weak_domain (ops : list op) : bool := in_weak_domain_from sm_init ops.
