(* VamAcctStep.v — second pass over the block-list layer: the structural invariant (VamInvU, first pass,
   VamInvStep.v) together with the accounting invariant (AInv, VamAcct.v) is preserved by every function of
   block_list.go / block.go.  The structural halves come from the first-pass lemmas (qualified with VamInvStep),
   the accounting halves of the functions that touch the budget from VamAcct.v; the composite functions are
   re-traversed with the combined invariant VamInvA (the proof scripts follow VamInvStep.v). *)
From Coq Require Import ZArith List Bool Lia Permutation.
From Arsenal Require Import Util Budget BudgetProofs VamDev VamBlockList Vam VamInvMeta VamInv VamInvUpd VamInvDev.
From Arsenal Require Import VamInvStep VamInvStep2 VamAcct.
Import ListNotations.
Open Scope Z_scope.

Section WithCfg.
Variable c : vcfg.
Hypothesis Hc : cfg_ok c.
Hypothesis Hmax : 0 <= c_maxcount c < 2147483647.
Hypothesis Hlarge : 0 <= c_large c < 2 ^ 61.
Set Default Proof Using "Hc Hmax Hlarge".

(* both invariants *)
Record VamInvA (v : vam) (U X : list Z) : Prop := mkVamInvA {
  va_s : VamInvU c v U X;
  va_a : AInv c v X
}.

Lemma allocs_truth_frame v v' X : tab_frame v v' [] -> allocs_truth c v' X = allocs_truth c v X.
Proof.
  intros T. apply (allocs_truth_ext c Hc Hmax Hlarge); [apply T|]. intros s _. apply (contrib_same c Hc Hmax Hlarge); [|tauto].
  apply (get_alloc_frame _ _ _ _ T). intros [].
Qed.

Lemma AM_frame_nil v v' X : AM c v X -> tab_frame v v' [] -> mach_sameA c (v_m v) (v_m v') -> AM c v' X.
Proof.
  intros (A & D) T Hm. split; [rewrite (allocs_truth_frame _ _ _ T); eapply (MB_same c Hc Hmax Hlarge); eauto|]. apply (proj2 (proj2 Hm)). exact D.
Qed.

(* the first-pass result for v' plus the accounting of v' *)
Lemma mkA v v' U X U' X' S :
  VamInvA v U X -> VamInvU c v' U' X' -> AM c v' X' -> tab_frame v v' S -> lists_frame' v v' -> VamInvA v' U' X'.
Proof. intros [HS HA] I M T L. split; [exact I|]. eapply (AInv_frame' c Hc Hmax Hlarge); eauto. Qed.

Lemma mkA_same v v' U X U' :
  VamInvA v U X -> VamInvU c v' U' X -> tab_frame v v' [] -> lists_frame v v' -> mach_sameA c (v_m v) (v_m v') -> VamInvA v' U' X.
Proof.
  intros HI I T L Hm. eapply mkA; [exact HI|exact I| |exact T|apply lists_frame_weak; exact L].
  eapply AM_frame_nil; [apply (AInv_AM c Hc Hmax Hlarge); apply (va_a _ _ _ HI)|exact T|exact Hm].
Qed.

Lemma VamInvA_mach_same v U X m' : VamInvA v U X -> mach_sameA c (v_m v) m' -> VamInvA (set_m v m') U X.
Proof.
  intros [HS HA] Hm. split; [apply VamInvU_mach_same; [exact HS|apply Hm]|apply (AInv_mach c Hc Hmax Hlarge); auto].
Qed.

(* ---------------------------------------------------------------- list-only changes *)

Lemma put_block_same_inv v U X lr l b nb :
  VamInvA v U X -> get_blist v lr = Some l -> In b (bl_blocks l) -> block_same b nb -> MInv (bk_meta nb) ->
  VamInvA (put_block v lr nb) U X /\ tab_frame v (put_block v lr nb) [] /\ lists_frame v (put_block v lr nb).
Proof.
  intros HI Hg Hb Hs Hm. destruct (VamInvStep.put_block_same_inv c v U X lr l b nb (va_s _ _ _ HI) Hg Hb Hs Hm) as (I1 & T1 & L1).
  split; [|split; auto]. eapply mkA_same; eauto. rewrite put_block_m. apply (mach_sameA_refl c Hc Hmax Hlarge).
Qed.

Lemma permute_inv v U X lr l bs :
  VamInvA v U X -> get_blist v lr = Some l -> Permutation (bl_blocks l) bs ->
  VamInvA (set_blist v lr (set_blocks l bs)) U X /\ tab_frame v (set_blist v lr (set_blocks l bs)) [] /\
  lists_frame v (set_blist v lr (set_blocks l bs)).
Proof.
  intros HI Hg P. destruct (VamInvStep.permute_inv c v U X lr l bs (va_s _ _ _ HI) Hg P) as (I1 & T1 & L1).
  split; [|split; auto]. eapply mkA_same; eauto. rewrite set_blist_m. apply (mach_sameA_refl c Hc Hmax Hlarge).
Qed.

Lemma sort_list_m v lr : v_m (sort_list v lr) = v_m v.
Proof. unfold sort_list. destruct (get_blist v lr); [apply set_blist_m|reflexivity]. Qed.

Lemma sort_list_inv v U X lr :
  VamInvA v U X -> VamInvA (sort_list v lr) U X /\ tab_frame v (sort_list v lr) [] /\ lists_frame v (sort_list v lr).
Proof.
  intros HI. destruct (VamInvStep.sort_list_inv c v U X lr (va_s _ _ _ HI)) as (I1 & T1 & L1).
  split; [|split; auto]. eapply mkA_same; eauto. rewrite sort_list_m. apply (mach_sameA_refl c Hc Hmax Hlarge).
Qed.

(* ---------------------------------------------------------------- CreateBlock / removing an empty block *)

Lemma create_block_inv v U X lr l size :
  VamInvA v U X -> get_blist v lr = Some l -> 0 <= size < 2 ^ 62 ->
  let '(v', r) := create_block c v lr size in
  VamInvA v' U X /\ tab_frame v v' [] /\ lists_frame v v'.
Proof.
  intros HI Hg Hsz. pose proof (VamInvStep.create_block_inv c Hc v U X lr l size (va_s _ _ _ HI) Hg) as P.
  pose proof (create_block_AM c Hc Hmax Hlarge v X lr size (AInv_AM c Hc Hmax Hlarge _ _ (va_a _ _ _ HI)) Hsz) as Q.
  destruct (create_block c v lr size) as (v' & r). destruct P as (I1 & T1 & L1).
  split; [|auto]. eapply mkA; [exact HI|exact I1| |exact T1|apply lists_frame_weak; exact L1].
  destruct r; auto. contradiction.
Qed.

Lemma remove_destroy_inv v U X lr l b :
  VamInvA v U X -> get_blist v lr = Some l -> In b (bl_blocks l) -> meta_is_empty (bk_meta b) = true ->
  let v1 := set_blist v lr (set_blocks l (remove_block (bl_blocks l) (bk_id b))) in
  let '(v', r) := destroy_block c v1 (bl_type l) b in
  VamInvA v' U X /\ tab_frame v v' [] /\ lists_frame v v'.
Proof.
  intros HI Hg Hb He v1. pose proof (VamInvStep.remove_destroy_inv c v U X lr l b (va_s _ _ _ HI) Hg Hb He) as P. cbn zeta in P. fold v1 in P.
  pose proof (remove_destroy_AM c Hc Hmax Hlarge v U X lr l b (AInv_AM c Hc Hmax Hlarge _ _ (va_a _ _ _ HI)) (va_s _ _ _ HI) Hg Hb
                (set_blocks l (remove_block (bl_blocks l) (bk_id b)))) as Q. fold v1 in Q.
  destruct (destroy_block c v1 (bl_type l) b) as (v' & r). destruct P as (I1 & T1 & L1).
  split; [|auto]. eapply mkA; [exact HI|exact I1| |exact T1|apply lists_frame_weak; exact L1].
  destruct r; auto; contradiction.
Qed.

(* ---------------------------------------------------------------- allocFromBlock / commitAllocationRequest *)

Definition af_post (v v' : vam) (U X : list Z) (lr : lref) (s : Z) (r : afres) : Prop :=
  match r with
  | AFPanic | AFStuck => True
  | _ =>
    VamInvA v' U X /\ tab_frame v v' [s] /\ lists_frame v v' /\
    match r with
    | AFOk => exists a, slot_is v' s a /\ a_kind a = 1 /\ a_lref a = lr
    | _ => a_allocated (get_alloc v' s) = false
    end
  end.

Lemma alloc_from_block_inv v U X lr bid size align flags sub s :
  VamInvA v U X -> Bits.pow2 align -> min_ok v lr align -> 0 <= s < zlen (v_tab v) -> a_allocated (get_alloc v s) = false ->
  let '(v', r) := alloc_from_block c v lr bid size align flags sub s in af_post v v' U X lr s r.
Proof.
  intros HI Hal Hmin Hs Hdead.
  pose proof (VamInvStep.alloc_from_block_inv c v U X lr bid size align flags sub s (va_s _ _ _ HI) Hal Hmin Hs Hdead) as P.
  pose proof (alloc_from_block_AM c Hc Hmax Hlarge v U X lr bid size align flags sub s (va_a _ _ _ HI) (va_s _ _ _ HI) Hal Hs Hdead) as Q.
  destruct (alloc_from_block c v lr bid size align flags sub s) as (v' & r).
  destruct r; cbn [af_post VamInvStep.af_post] in *; auto; destruct P as (I1 & T1 & L1 & R1);
    (split; [eapply mkA; [exact HI|exact I1|exact Q|exact T1|apply lists_frame_weak; exact L1]|auto]).
Qed.

(* ---------------------------------------------------------------- the search loop of allocPage *)

Definition ap_post (v v' : vam) (U X : list Z) (lr : lref) (s : Z) (r : out unit) : Prop :=
  match r with
  | PANIC | STUCK => True
  | _ =>
    VamInvA v' U X /\ tab_frame v v' [s] /\ lists_frame v v' /\
    match r with
    | OK _ => exists a, slot_is v' s a /\ a_kind a = 1 /\ a_lref a = lr
    | _ => a_allocated (get_alloc v' s) = false
    end
  end.

Lemma try_blocks_inv ids : forall v U X lr size align flags sub s,
  VamInvA v U X -> Bits.pow2 align -> min_ok v lr align -> 0 <= s < zlen (v_tab v) -> a_allocated (get_alloc v s) = false ->
  let '(v', r) := try_blocks c v lr ids size align flags sub s in af_post v v' U X lr s r.
Proof.
  induction ids as [|bid tl IH]; intros v U X lr size align flags sub s HI Hal Hmin Hs Hdead; cbn [try_blocks].
  - cbn. split; [auto|]. split; [apply tab_frame_refl|]. split; [apply lists_frame_refl|auto].
  - pose proof (alloc_from_block_inv v U X lr bid size align flags sub s HI Hal Hmin Hs Hdead) as A.
    destruct (alloc_from_block c v lr bid size align flags sub s) as (v1 & r). destruct r; cbn in A |- *; auto.
    + destruct A as (HI1 & T1 & L1 & (a & Sa & Ka & La)).
      destruct (sort_list_inv v1 U X lr HI1) as (HI2 & T2 & L2).
      split; [auto|]. split; [eapply tab_frame_trans; [exact T1|exact T2|auto|intros ? []]|].
      split; [eapply lists_frame_trans; eauto|]. exists a. split; [|auto].
      apply (slot_is_frame _ _ _ _ _ T2); auto.
    + destruct A as (HI1 & T1 & L1 & D1).
      assert (Hs1 : 0 <= s < zlen (v_tab v1)) by (destruct T1 as (E & _); lia).
      specialize (IH v1 U X lr size align flags sub s HI1 Hal (min_ok_frame _ _ _ _ L1 Hmin) Hs1 D1).
      destruct (try_blocks c v1 lr tl size align flags sub s) as (v2 & r2).
      destruct r2; cbn in IH |- *; auto;
        destruct IH as (HI2 & T2 & L2 & R2); (split; [auto|]; split; [eapply tab_frame_trans_same; eauto|]; split; [eapply lists_frame_trans; eauto|auto]).
Qed.

(* ---------------------------------------------------------------- allocPage *)

Definition keeps (v0 v' : vam) (U X : list Z) (s : Z) : Prop :=
  VamInvA v' U X /\ tab_frame v0 v' [s] /\ lists_frame v0 v' /\ a_allocated (get_alloc v' s) = false.

Lemma keeps_step v0 v v' U X s :
  keeps v0 v U X s -> VamInvA v' U X -> tab_frame v v' [] -> lists_frame v v' -> keeps v0 v' U X s.
Proof.
  intros (H1 & H2 & H3 & H4) I T L. split; [auto|]. split; [eapply tab_frame_trans; [exact H2|exact T|auto|intros ? []]|].
  split; [eapply lists_frame_trans; eauto|]. rewrite (get_alloc_frame _ _ _ _ T); auto.
Qed.

Lemma create_block_keeps v0 v U X s lr size :
  keeps v0 v U X s -> 0 <= size < 2 ^ 62 -> let '(v', r) := create_block c v lr size in keeps v0 v' U X s.
Proof.
  intros K Hsz. destruct (get_blist v lr) as [l|] eqn:Hg.
  - destruct K as (K1 & K2 & K3 & K4).
    pose proof (create_block_inv v U X lr l size K1 Hg Hsz) as C.
    destruct (create_block c v lr size) as (v1 & r). destruct C as (C1 & C2 & C3).
    eapply keeps_step; eauto. split; auto.
  - unfold create_block. rewrite Hg. exact K.
Qed.

Lemma quot2_bound n : 0 <= n < 2 ^ 62 -> 0 <= Z.quot n 2 < 2 ^ 62.
Proof. intros H. pose proof (Z.quot_pos n 2 ltac:(lia) ltac:(lia)). assert (Z.quot n 2 <= n) by (apply Z.quot_le_upper_bound; lia). lia. Qed.

Lemma retry_create_inv fuel : forall v0 v U X s lr nbs shift size freeMemory canFallback last,
  keeps v0 v U X s -> 0 <= nbs < 2 ^ 62 ->
  let '(v', r) := retry_create c fuel v lr nbs shift size freeMemory canFallback last in keeps v0 v' U X s.
Proof.
  induction fuel as [|f IH]; intros v0 v U X s lr nbs shift size fm cf last K Hn; cbn [retry_create]; [exact K|].
  destruct last; try exact K. destruct (3 <=? shift); [exact K|]. destruct (size <=? Z.quot nbs 2); [|exact K].
  pose proof (quot2_bound nbs Hn) as Hq.
  destruct (_ || _).
  - pose proof (create_block_keeps v0 v U X s lr (Z.quot nbs 2) K Hq) as C.
    destruct (create_block c v lr (Z.quot nbs 2)) as (v1 & r). apply IH; auto.
  - apply IH; auto.
Qed.

Lemma keeps_trans v0 v1 v2 U X s : keeps v0 v1 U X s -> keeps v1 v2 U X s -> keeps v0 v2 U X s.
Proof.
  intros (A1 & A2 & A3 & A4) (B1 & B2 & B3 & B4). split; [auto|]. split; [eapply tab_frame_trans_same; [exact A2|exact B2]|].
  split; [eapply lists_frame_trans; [exact A3|exact B3]|auto].
Qed.

Lemma keeps_refl v U X s : VamInvA v U X -> a_allocated (get_alloc v s) = false -> keeps v v U X s.
Proof. intros. split; [auto|]. split; [apply tab_frame_refl|]. split; [apply lists_frame_refl|auto]. Qed.

Lemma ap_post_fail v v' U X lr s code : keeps v v' U X s -> ap_post v v' U X lr s (ER code).
Proof. intros (A & B & C0 & D). cbn. auto. Qed.

Lemma af_keeps v v' U X lr s r :
  af_post v v' U X lr s r -> match r with AFOk | AFPanic | AFStuck => True | _ => keeps v v' U X s end.
Proof. destruct r; cbn; auto. Qed.

Lemma shrink_new_block_bound fuel : forall nbs shift maxE size, 0 <= nbs < 2 ^ 62 ->
  0 <= fst (shrink_new_block fuel nbs shift maxE size) < 2 ^ 62.
Proof.
  induction fuel as [|f IH]; intros nbs shift maxE size Hn; cbn [shrink_new_block]; [exact Hn|].
  destruct (_ && _); [|exact Hn]. apply IH. apply quot2_bound. exact Hn.
Qed.

Lemma alloc_page_inv v U X lr size align flags sub s :
  VamInvA v U X -> Bits.pow2 align -> min_ok v lr align -> 0 <= s < zlen (v_tab v) -> a_allocated (get_alloc v s) = false ->
  let '(v', r) := alloc_page c v lr size align flags sub s in ap_post v v' U X lr s r.
Proof.
  intros HI Hal Hmin Hs Hdead. unfold alloc_page. destruct (get_blist v lr) as [l|] eqn:Hg; [|exact I].
  pose proof (heap_budget_sameA c Hc Hmax Hlarge (v_m v) (type_heap c (bl_type l))) as Hb.
  destruct (heap_budget c (v_m v) (type_heap c (bl_type l))) as ((m1 & usage) & budget). cbn [fst] in Hb.
  assert (K1 : keeps v (set_m v m1) U X s).
  { split; [apply VamInvA_mach_same; auto|]. split; [apply tab_frame_set_m|]. split; [apply lists_frame_set_m|auto]. }
  destruct (_ && _); [apply ap_post_fail; auto|]. destruct (bl_pref l <? size); [apply ap_post_fail; auto|].
  pose proof (ai_pref _ _ _ (va_a _ _ _ HI) _ _ Hg) as Hpref.
  pose proof K1 as (I1 & T1 & L1 & D1).
  assert (Hs1 : 0 <= s < zlen (v_tab (set_m v m1))) by (cbn; auto).
  pose proof (try_blocks_inv (search_order c l flags) (set_m v m1) U X lr size align flags sub s I1 Hal (min_ok_frame _ _ _ _ L1 Hmin) Hs1 D1) as TB.
  destruct (try_blocks c (set_m v m1) lr (search_order c l flags) size align flags sub s) as (v2 & r).
  pose proof (af_keeps _ _ _ _ _ _ _ TB) as TK.
  destruct r; cbn [ap_post]; auto.
  - cbn [af_post] in TB. destruct TB as (A & B & C & D). split; [auto|].
    split; [eapply tab_frame_trans_same; [exact T1|exact B]|]. split; [eapply lists_frame_trans; [exact L1|exact C]|auto].
  - (* no block fits: try a new block *)
    pose proof (keeps_trans _ _ _ _ _ _ K1 TK) as K2. clear TB TK.
    destruct (negb _); [apply ap_post_fail; auto|].
    assert (Hnbs : 0 <= fst (if bl_explicit l then (bl_pref l, 0) else shrink_new_block 3 (bl_pref l) 0 (calc_max_block_size l) size) < 2 ^ 62).
    { destruct (bl_explicit l); [exact Hpref|apply shrink_new_block_bound; exact Hpref]. }
    destruct (if bl_explicit l then (bl_pref l, 0) else shrink_new_block 3 (bl_pref l) 0 (calc_max_block_size l) size) as (nbs & shift). cbn [fst] in Hnbs.
    match goal with |- context [if ?cond then create_block c v2 lr nbs else (v2, ER VK_OODM)] =>
      assert (K3 : let '(v3, first) := (if cond then create_block c v2 lr nbs else (v2, ER VK_OODM)) in keeps v v3 U X s);
      [destruct cond; [apply create_block_keeps; [exact K2|exact Hnbs]|exact K2]|
       destruct (if cond then create_block c v2 lr nbs else (v2, ER VK_OODM)) as (v3 & first)]
    end.
    match goal with |- context [if bl_explicit l then (v3, first) else ?rc] =>
      assert (K4 : let '(v4, created) := (if bl_explicit l then (v3, first) else rc) in keeps v v4 U X s);
      [destruct (bl_explicit l); [exact K3|apply retry_create_inv; [exact K3|exact Hnbs]]|
       destruct (if bl_explicit l then (v3, first) else rc) as (v4 & created)]
    end.
    destruct created as [bid|code| |]; [|apply ap_post_fail; auto|exact I|exact I].
    destruct (get_block v4 lr bid) as [nb|] eqn:Hgb; [|exact I]. destruct (meta_size (bk_meta nb) <? size); [exact I|].
    pose proof K4 as (I4 & T4 & L4 & D4).
    assert (Hs4 : 0 <= s < zlen (v_tab v4)) by (destruct T4 as (E & _); lia).
    pose proof (alloc_from_block_inv v4 U X lr bid size align flags sub s I4 Hal (min_ok_frame _ _ _ _ L4 Hmin) Hs4 D4) as AF.
    destruct (alloc_from_block c v4 lr bid size align flags sub s) as (v5 & r2).
    pose proof (af_keeps _ _ _ _ _ _ _ AF) as AK.
    assert (Hgive : forall code2, keeps v4 v5 U X s ->
      let '(v6, dr) :=
          match get_blist v5 lr, get_block v5 lr bid with
          | Some l5, Some b5 =>
            if meta_is_empty (bk_meta b5) && (bl_min l5 <? zlen (bl_blocks l5)) then
              let v5' := set_blist v5 lr (set_blocks l5 (remove_block (bl_blocks l5) bid)) in
              match destroy_block c v5' (bl_type l5) b5 with
              | (v', OK _) => (v', OK tt)
              | (v', STUCK) => (v', STUCK)
              | (v', _) => (v', PANIC)
              end
            else (v5, OK tt)
          | _, _ => (v5, STUCK)
          end in
      ap_post v v6 U X lr s match dr with OK _ => ER code2 | ER code => ER code | PANIC => PANIC | STUCK => STUCK end).
    { intros code2 K5. pose proof (keeps_trans _ _ _ _ _ _ K4 K5) as K05.
      destruct (get_blist v5 lr) as [l5|] eqn:Hg5; [|exact I]. destruct (get_block v5 lr bid) as [b5|] eqn:Hgb5; [|exact I].
      destruct (meta_is_empty (bk_meta b5)) eqn:He; cbn [andb]; [|apply ap_post_fail; auto].
      destruct (bl_min l5 <? zlen (bl_blocks l5)); [|apply ap_post_fail; auto].
      destruct (get_block_in _ _ _ _ Hgb5) as (l5' & Hg5' & Hb5 & Hid5). assert (l5' = l5) by congruence. subst l5'.
      destruct K05 as (I5 & T5 & L5 & D5).
      pose proof (remove_destroy_inv v5 U X lr l5 b5 I5 Hg5 Hb5 He) as RD. cbn zeta in RD. rewrite Hid5 in RD.
      destruct (destroy_block c _ (bl_type l5) b5) as (v6 & dr). destruct RD as (R1 & R2 & R3).
      destruct dr as [[]|code| |]; cbn [ap_post]; auto.
      split; [auto|]. split; [eapply tab_frame_trans; [exact T5|exact R2|auto|intros ? []]|].
      split; [eapply lists_frame_trans; eauto|]. rewrite (get_alloc_frame _ _ _ _ R2); auto. }
    destruct r2; auto.
    + (* served from the new block *)
      cbn [af_post] in AF. destruct AF as (A & B & C & (a & Sa & Ka & La)).
      destruct (sort_list_inv v5 U X lr A) as (I6 & T6 & L6).
      cbn [ap_post]. split; [auto|].
      split; [eapply tab_frame_trans; [eapply tab_frame_trans_same; [exact T4|exact B]|exact T6|auto|intros ? []]|].
      split; [eapply lists_frame_trans; [eapply lists_frame_trans; [exact L4|exact C]|exact L6]|].
      exists a. split; [|auto]. apply (slot_is_frame _ _ _ _ _ T6); auto.
    + specialize (Hgive VK_OODM AK). destruct (match get_blist v5 lr with Some _ => _ | None => _ end) as (v6 & dr).
      destruct dr; exact Hgive.
    + specialize (Hgive code AK). destruct (match get_blist v5 lr with Some _ => _ | None => _ end) as (v6 & dr).
      destruct dr; exact Hgive.
  - exact (ap_post_fail _ _ _ _ lr _ code (keeps_trans _ _ _ _ _ _ K1 TK)).
Qed.

(* ---------------------------------------------------------------- Free + freeWithLock *)


Definition kept (v v' : vam) (U X : list Z) : Prop := VamInvA v' U X /\ tab_frame v v' [] /\ lists_frame v v'.

Lemma kept_trans v0 v1 v2 U X : kept v0 v1 U X -> kept v1 v2 U X -> kept v0 v2 U X.
Proof.
  intros (A1 & A2 & A3) (B1 & B2 & B3). split; [auto|]. split; [eapply tab_frame_trans_same; [exact A2|exact B2]|eapply lists_frame_trans; [exact A3|exact B3]].
Qed.

Lemma kept_frames v0 v1 v2 U X X' : kept v0 v1 U X -> VamInvA v2 U X' -> tab_frame v1 v2 [] -> lists_frame v1 v2 -> kept v0 v2 U X'.
Proof.
  intros (A1 & A2 & A3) I T L. split; [auto|]. split; [eapply tab_frame_trans_same; [exact A2|exact T]|eapply lists_frame_trans; [exact A3|exact L]].
Qed.


Lemma kept_mach v0 v U X m' : kept v0 v U X -> mach_sameA c (v_m v) m' -> kept v0 (set_m v m') U X.
Proof.
  intros K H. eapply kept_frames; [exact K| | |].
  - apply VamInvA_mach_same; [apply K|auto].
  - apply tab_frame_set_m.
  - apply lists_frame_set_m.
Qed.

(* ---------------------------------------------------------------- Free + freeWithLock *)

Lemma bl_free_inv v U X s a keep :
  VamInvA v U X -> slot_is v s a -> ~ In s X -> a_kind a = 1 ->
  let '(v', r) := bl_free c v (a_lref a) s keep in
  match r with
  | OK _ => kept v v' U (s :: X)
  | ER _ => kept v v' U X
  | _ => True
  end.
Proof.
  intros HI Hsl HnX Hk. pose proof (VamInvStep.bl_free_inv c v U X s a keep (va_s _ _ _ HI) Hsl HnX Hk) as P.
  pose proof (bl_free_AM c Hc Hmax Hlarge v U X s a keep (va_a _ _ _ HI) (va_s _ _ _ HI) Hsl HnX Hk) as Q.
  destruct (bl_free c v (a_lref a) s keep) as (v' & r). destruct r as [[]|code| |]; auto; destruct P as (I1 & T1 & L1);
    (split; [eapply mkA; [exact HI|exact I1|exact Q|exact T1|apply lists_frame_weak; exact L1]|auto]).
Qed.

Definition keptS (v v' : vam) (U X S : list Z) : Prop := VamInvA v' U X /\ tab_frame v v' S /\ lists_frame v v'.

Lemma keptS_trans v0 v1 v2 U X S : keptS v0 v1 U X S -> keptS v1 v2 U X S -> keptS v0 v2 U X S.
Proof.
  intros (A1 & A2 & A3) (B1 & B2 & B3). split; [auto|]. split; [eapply tab_frame_trans_same; [exact A2|exact B2]|eapply lists_frame_trans; [exact A3|exact B3]].
Qed.

Lemma keptS_weaken v v' U X S S' : keptS v v' U X S -> (forall s, In s S -> In s S') -> keptS v v' U X S'.
Proof. intros (A & B & C) H. split; [auto|]. split; [eapply tab_frame_weaken; eauto|auto]. Qed.

Lemma kept_keptS v v' U X S : kept v v' U X -> keptS v v' U X S.
Proof. intros (A & B & C). split; [auto|]. split; [eapply tab_frame_weaken; [exact B|intros ? []]|auto]. Qed.

(* Free of a block allocation followed by marking the object unallocated *)
Lemma free_block_slot_inv v U X s a keep :
  VamInvA v U X -> slot_is v s a -> ~ In s X -> a_kind a = 1 ->
  let '(v', r) := bl_free c v (a_lref a) s keep in
  match r with
  | OK _ => keptS v (set_alloc v' s (set_allocated (get_alloc v' s) false)) U X [s] /\
            a_allocated (get_alloc (set_alloc v' s (set_allocated (get_alloc v' s) false)) s) = false
  | ER _ => kept v v' U X
  | _ => True
  end.
Proof.
  intros HI Hsl HnX Hk. pose proof (VamInvStep.free_block_slot_inv c v U X s a keep (va_s _ _ _ HI) Hsl HnX Hk) as P.
  pose proof (bl_free_inv v U X s a keep HI Hsl HnX Hk) as F.
  destruct (bl_free c v (a_lref a) s keep) as (v' & r). destruct r as [[]|code| |]; auto.
  destruct P as ((I1 & T1 & L1) & D1). destruct F as (F1 & _). split; [|exact D1].
  split; [|auto]. eapply mkA; [exact HI|exact I1| |exact T1|apply lists_frame_weak; exact L1].
  apply (AM_unmark c Hc Hmax Hlarge); [apply (AInv_AM c Hc Hmax Hlarge); apply (va_a _ _ _ F1)|reflexivity].
Qed.

Lemma unwind_loop_inv done : forall v U X lr,
  VamInvA v U X -> block_slots v lr X done ->
  let '(v', r) := unwind_loop c v lr done in
  match r with
  | OK _ => keptS v v' U X done /\ dead_slots v' done
  | ER _ => False
  | _ => True
  end.
Proof.
  induction done as [|s tl IH]; intros v U X lr HI (Hnd & Hbs); cbn [unwind_loop].
  - split; [split; [auto|split; [apply tab_frame_refl|apply lists_frame_refl]]|intros ? []].
  - inversion Hnd as [|? ? Hs Hnd']; subst.
    destruct (Hbs s (or_introl eq_refl)) as (HX & a & Sa & Ka & La).
    pose proof (free_block_slot_inv v U X s a true HI Sa HX Ka) as F. rewrite La in F.
    destruct (bl_free c v lr s true) as (v1 & r). destruct r as [[]|code| |]; auto.
    destruct F as (K1 & D1). set (v1' := set_alloc v1 s (set_allocated (get_alloc v1 s) false)) in *.
    assert (Hbs' : block_slots v1' lr X tl).
    { eapply block_slots_frame with (v := v) (S := [s]); [split; [auto|]; intros; apply Hbs; right; auto|apply K1|].
      intros s1 H1 [<-|[]]. contradiction. }
    specialize (IH v1' U X lr (proj1 K1) Hbs').
    destruct (unwind_loop c v1' lr tl) as (v2 & r2). destruct r2 as [[]|code| |]; auto.
    destruct IH as (K2 & D2). split.
    + eapply keptS_trans; [eapply keptS_weaken; [exact K1|intros ? [<-|[]]; left; reflexivity]|].
      eapply keptS_weaken; [exact K2|intros; right; auto].
    + intros s1 [<-|H1]; [|apply D2; auto].
      destruct K2 as (_ & T2 & _). split; [destruct T2 as (E & _); destruct K1 as (_ & (E1 & _) & _); rewrite E, E1; eapply slot_is_range; eauto|].
      rewrite (get_alloc_frame _ _ _ _ T2); auto.
Qed.

Lemma release_loop_inv ids : forall v U X lr firstId,
  VamInvA v U X ->
  let '(v', r) := release_loop c v lr ids firstId in
  match r with OK _ => kept v v' U X | ER _ => False | _ => True end.
Proof.
  induction ids as [|bid tl IH]; intros v U X lr firstId HI; cbn [release_loop].
  - split; [auto|split; [apply tab_frame_refl|apply lists_frame_refl]].
  - destruct (get_blist v lr) as [l|] eqn:Hg; [|exact I].
    assert (Hrefl : kept v v U X) by (split; [auto|split; [apply tab_frame_refl|apply lists_frame_refl]]).
    destruct (negb _); [exact Hrefl|].
    destruct (find_block (bl_blocks l) bid) as [b|] eqn:Hf; [|exact I].
    destruct (find_block_in _ _ _ Hf) as (Hb & Hid).
    destruct (meta_is_empty (bk_meta b)) eqn:He.
    + destruct (bk_id b <? firstId); cbn [orb negb]; [apply IH; auto|].
      pose proof (remove_destroy_inv v U X lr l b HI Hg Hb He) as RD. cbn zeta in RD. rewrite Hid in RD.
      destruct (destroy_block c _ (bl_type l) b) as (v2 & dr). destruct dr as [[]|code| |]; auto.
      specialize (IH v2 U X lr firstId (proj1 RD)).
      destruct (release_loop c v2 lr tl firstId) as (v3 & r3). destruct r3 as [[]|code| |]; auto.
      eapply kept_trans; [exact RD|exact IH].
    + rewrite orb_true_r. apply IH; auto.
Qed.

Lemma release_empty_since_inv v U X lr firstId :
  VamInvA v U X ->
  let '(v', r) := release_empty_since c v lr firstId in
  match r with OK _ => kept v v' U X | ER _ => False | _ => True end.
Proof.
  intros HI. unfold release_empty_since. destruct (get_blist v lr) as [l|]; [|exact I]. apply release_loop_inv. auto.
Qed.

Lemma allocate_loop_inv slots : forall v U X lr done size align flags sub,
  VamInvA v U X -> Bits.pow2 align -> min_ok v lr align -> NoDup (slots ++ done) ->
  dead_slots v slots -> block_slots v lr X done ->
  let '(v', r, done') := allocate_loop c v lr slots done size align flags sub in
  match r with
  | PANIC | STUCK => True
  | _ =>
    keptS v v' U X slots /\ block_slots v' lr X done' /\ (forall s, In s done -> In s done') /\
    (forall s, In s done' -> In s (slots ++ done)) /\
    match r with
    | OK _ => forall s, In s slots -> In s done'
    | _ => forall s, In s slots -> In s done' \/ (0 <= s < zlen (v_tab v') /\ a_allocated (get_alloc v' s) = false)
    end
  end.
Proof.
  induction slots as [|s tl IH]; intros v U X lr done size align flags sub HI Hal Hmin Hnd Hdead Hdone; cbn [allocate_loop].
  - split; [split; [auto|split; [apply tab_frame_refl|apply lists_frame_refl]]|]. split; [auto|]. split; [auto|]. split; [auto|]. intros ? [].
  - destruct (Hdead s (or_introl eq_refl)) as (Hr & Hd).
    pose proof (alloc_page_inv v U X lr size align flags sub s HI Hal Hmin Hr Hd) as AP.
    destruct (alloc_page c v lr size align flags sub s) as (v1 & r).
    cbn [app] in Hnd. inversion Hnd as [|? ? Hns Hnd']; subst.
    assert (Hdone1 : tab_frame v v1 [s] -> block_slots v1 lr X done).
    { intros T. eapply block_slots_frame; [exact Hdone|exact T|]. intros s1 H1 [<-|[]]. apply Hns. apply in_app_iff. auto. }
    assert (Hdead1 : tab_frame v v1 [s] -> dead_slots v1 tl).
    { intros T. eapply dead_slots_frame; [intros s1 H1; apply Hdead; right; exact H1|exact T|].
      intros s1 H1 [<-|[]]. apply Hns. apply in_app_iff. auto. }
    assert (Kw : VamInvA v1 U X -> tab_frame v v1 [s] -> lists_frame v v1 -> keptS v v1 U X (s :: tl)).
    { intros I1 T1 L1. split; [exact I1|split; [eapply tab_frame_weaken; [exact T1|intros ? [<-|[]]; left; reflexivity]|exact L1]]. }
    destruct r as [[]|code| |]; cbn [ap_post] in AP; auto.
    + destruct AP as (I1 & T1 & L1 & (a & Sa & Ka & La)).
      assert (Hnd1 : NoDup (tl ++ s :: done)).
      { eapply Permutation.Permutation_NoDup; [apply Permutation.Permutation_middle|exact Hnd]. }
      assert (Hbs1 : block_slots v1 lr X (s :: done)).
      { destruct (Hdone1 T1) as (Hndd & Hd1). split; [constructor; [intros H; apply Hns; apply in_app_iff; auto|auto]|].
        intros s1 [<-|H1]; [|apply Hd1; auto]. split; [|eauto].
        intros HX. destruct (vi_dang _ _ _ _ (va_s _ _ _ HI) _ HX) as (a2 & S2 & _). rewrite (get_alloc_slot _ _ _ S2) in Hd. destruct S2. congruence. }
      specialize (IH v1 U X lr (s :: done) size align flags sub I1 Hal (min_ok_frame _ _ _ _ L1 Hmin) Hnd1 (Hdead1 T1) Hbs1).
      destruct (allocate_loop c v1 lr tl (s :: done) size align flags sub) as ((v2 & r2) & done2).
      destruct r2 as [[]|code| |]; auto; destruct IH as (K2 & B2 & S2 & Q2 & O2);
        (split; [eapply keptS_trans; [exact (Kw I1 T1 L1)|eapply keptS_weaken; [exact K2|intros; right; auto]]|]);
        (split; [auto|]); (split; [intros x Hx; apply S2; right; auto|]);
        (split; [intros x Hx; specialize (Q2 x Hx); apply in_app_iff in Q2; destruct Q2 as [H|[<-|H]];
                 [right; apply in_app_iff; auto|left; reflexivity|right; apply in_app_iff; auto]|]).
      * intros x [<-|Hx]; [apply S2; left; reflexivity|auto].
      * intros x [<-|Hx]; [left; apply S2; left; reflexivity|auto].
    + destruct AP as (I1 & T1 & L1 & D1). split; [exact (Kw I1 T1 L1)|]. split; [auto|]. split; [auto|].
      split; [intros x Hx; right; apply in_app_iff; auto|].
      intros x [<-|Hx]; right.
      * split; [destruct T1 as (E & _); lia|auto].
      * apply (Hdead1 T1). auto.
Qed.

(* memoryBlockList.Allocate *)
Lemma bl_allocate_inv v U X lr slots size align0 flags sub :
  VamInvA v U X -> align0 = 0 \/ Bits.pow2 align0 -> NoDup slots -> dead_slots v slots ->
  let '(v', r) := bl_allocate c v lr slots size align0 flags sub in
  match r with
  | OK _ => keptS v v' U X slots /\ block_slots v' lr X slots
  | ER _ => keptS v v' U X slots /\ dead_slots v' slots
  | _ => True
  end.
Proof.
  intros HI Hal Hnd Hdead. unfold bl_allocate. destruct (get_blist v lr) as [l|] eqn:Hg; [|exact I].
  pose proof (vi_lists _ _ _ _ (va_s _ _ _ HI) _ _ Hg) as Hwf.
  assert (Hal' : Bits.pow2 (if align0 <? bl_minalign l then bl_minalign l else align0)).
  { pose proof (bw_align _ _ Hwf) as Hm. pose proof (Bits.pow2_pos _ Hm). destruct (align0 <? bl_minalign l) eqn:E; [auto|].
    destruct Hal as [->|H']; [apply Z.ltb_ge in E; lia|auto]. }
  assert (Hnd0 : NoDup (slots ++ [])) by (rewrite app_nil_r; auto).
  assert (Hbs0 : block_slots v lr X []) by (split; [constructor|intros ? []]).
  assert (Hmin0 : min_ok v lr (if align0 <? bl_minalign l then bl_minalign l else align0)).
  { intros l' G'. rewrite Hg in G'. injection G' as <-. destruct (align0 <? bl_minalign l) eqn:E; [lia|apply Z.ltb_ge in E; lia]. }
  pose proof (allocate_loop_inv slots v U X lr [] size _ flags sub HI Hal' Hmin0 Hnd0 Hdead Hbs0) as AL.
  destruct (allocate_loop c v lr slots [] size _ flags sub) as ((v1 & r) & done).
  destruct r as [[]|code| |]; auto.
  - destruct AL as (K1 & B1 & _ & _ & O1). split; [auto|]. destruct B1 as (Hndd & Hb1). split; [auto|].
    intros s Hs. apply Hb1. auto.
  - destruct AL as (K1 & B1 & _ & Q1 & O1).
    assert (Hsub : forall s, In s done -> In s slots) by (intros s Hs; specialize (Q1 s Hs); rewrite app_nil_r in Q1; auto).
    pose proof (unwind_loop_inv done v1 U X lr (proj1 K1) B1) as UW.
    destruct (unwind_loop c v1 lr done) as (v2 & ur). destruct ur as [[]|ucode| |]; auto; [|contradiction].
    destruct UW as (K2 & D2).
    pose proof (release_empty_since_inv v2 U X lr (bl_next l) (proj1 K2)) as RE.
    destruct (release_empty_since c v2 lr (bl_next l)) as (v3 & rr). destruct rr as [[]|rcode| |]; auto; [|contradiction].
    split.
    + eapply keptS_trans; [exact K1|]. eapply keptS_trans; [eapply keptS_weaken; [exact K2|exact Hsub]|]. apply kept_keptS. exact RE.
    + eapply dead_slots_frame with (v := v2) (S := []); [|apply RE|intros ? ? []].
      intros s Hs. destruct (in_dec Z.eq_dec s done) as [Hin|Hnin]; [apply D2; auto|].
      destruct (O1 s Hs) as [H|(Hr & Hd)]; [contradiction|]. destruct K2 as (_ & T2 & _).
      split; [destruct T2 as (E & _); lia|]. rewrite (get_alloc_frame _ _ _ _ T2); auto.
Qed.


(* memoryBlockList.Destroy *)
Lemma nodup_map_inj {A B C0} (f : A -> B) (g : A -> C0) l :
  NoDup (map f l) -> (forall x y, In x l -> In y l -> g x = g y -> f x = f y) -> NoDup (map g l).
Proof using.
  induction l as [|x l IH]; cbn; intros Hnd Hinj; [constructor|]. inversion Hnd as [|? ? Hx Hr]; subst. constructor.
  - intros Hin. apply in_map_iff in Hin. destruct Hin as (y & Ey & Hy). apply Hx. rewrite <- (Hinj y x); auto. apply in_map. exact Hy.
  - apply IH; auto.
Qed.

Lemma bl_destroy_inv v U X lr :
  VamInvA v U X ->
  let '(v', r) := bl_destroy c v lr in
  match r with
  | OK _ => kept v v' U X /\ (exists l', get_blist v' lr = Some l' /\ bl_blocks l' = [])
  | ER _ => v' = v /\ exists l b, get_blist v lr = Some l /\ In b (bl_blocks l) /\ meta_is_empty (bk_meta b) = false
  | _ => True
  end.
Proof.
  intros HI. pose proof (VamInvStep.bl_destroy_inv c v U X lr (va_s _ _ _ HI)) as P.
  assert (Q : let '(v', r) := bl_destroy c v lr in match r with OK _ => AM c v' X | _ => True end).
  { unfold bl_destroy. destruct (get_blist v lr) as [l|] eqn:Hg; [|exact I]. destruct (existsb _ _); [exact I|].
    pose proof (vi_lists _ _ _ _ (va_s _ _ _ HI) _ _ Hg) as Hwf.
    pose proof (destroy_blocks_AM c Hc Hmax Hlarge (bl_blocks l) v X (bl_type l) (AInv_AM c Hc Hmax Hlarge _ _ (va_a _ _ _ HI))) as D.
    match type of D with ?A -> ?B -> _ => assert (HA : A); [|assert (HB : B)] end.
    { eapply nodup_map_inj; [apply (bw_nodup _ _ Hwf)|]. intros x y Hx Hy E.
      destruct (vi_block_mem_inj _ _ _ _ (va_s _ _ _ HI) _ _ _ _ _ _ Hg Hx Hg Hy E) as (_ & Eid). exact Eid. }
    { intros b Hb. destruct (vi_block_mem _ _ _ _ (va_s _ _ _ HI) _ _ _ Hg Hb) as (d & Hf & Hdt & Hds).
      exists d. split; [exact Hf|]. split; [rewrite Hdt; reflexivity|auto]. }
    specialize (D HA HB). destruct (destroy_blocks c v (bl_type l) (bl_blocks l)) as (v1 & r1).
    destruct r1 as [[]|code| |]; try exact I.
    destruct (get_blist v1 lr) as [l1|]; [|exact I].
    eapply (AM_tab c Hc Hmax Hlarge); [exact D|apply set_blist_tab|rewrite set_blist_m; apply (mach_sameA_refl c Hc Hmax Hlarge)]. }
  destruct (bl_destroy c v lr) as (v' & r). destruct r as [[]|code| |]; auto.
  destruct P as ((I1 & T1 & L1) & E). split; [|exact E].
  split; [|auto]. eapply mkA; [exact HI|exact I1|exact Q|exact T1|apply lists_frame_weak; exact L1].
Qed.

Lemma create_min_blocks_inv n : forall v U X lr size,
  VamInvA v U X -> 0 <= size < 2 ^ 62 ->
  let '(v', r) := create_min_blocks c n v lr size in kept v v' U X.
Proof.
  induction n as [|k IH]; intros v U X lr size HI Hsz; cbn [create_min_blocks].
  - split; [auto|split; [apply tab_frame_refl|apply lists_frame_refl]].
  - destruct (get_blist v lr) as [l|] eqn:Hg.
    + pose proof (create_block_inv v U X lr l size HI Hg Hsz) as C.
      destruct (create_block c v lr size) as (v1 & r). destruct r; try exact C.
      specialize (IH v1 U X lr size (proj1 C) Hsz). destruct (create_min_blocks c k v1 lr size) as (v2 & r2).
      eapply kept_trans; eauto.
    + unfold create_block. rewrite Hg. split; [auto|split; [apply tab_frame_refl|apply lists_frame_refl]].
Qed.

End WithCfg.
