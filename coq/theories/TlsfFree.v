(* TlsfFree.v — what Free does to the chain: it removes exactly the freed block from the set of
   taken blocks, keeps every other block record untouched, and preserves Inv1. *)
From Coq Require Import ZArith List Bool Lia.
From Arsenal Require Import Util Gran Tlsf TlsfGeom TlsfInv1.
Import ListNotations.
Open Scope Z_scope.

Definition livef (c : list blk) : list blk := filter (fun b => negb (b_free b)) c.

Lemma livef_app a b : livef (a ++ b) = livef a ++ livef b.
Proof. apply filter_app. Qed.

Lemma live_livef t : live t = livef (t_chain t).
Proof. reflexivity. Qed.

Lemma Forall_app_iff {A} (P : A -> Prop) a b : Forall P (a ++ b) <-> Forall P a /\ Forall P b.
Proof. apply Forall_app. Qed.

Lemma below_app h a b : below h (a ++ b) <-> below h a /\ below h b.
Proof. apply Forall_app. Qed.

Lemma chain_from_below o pre x post :
  chain_from o (pre ++ x :: post) -> below (b_off x) pre.
Proof. apply below_of_chain. Qed.

Lemma chain_from_cons_neq o x y post :
  chain_from o (x :: post) -> In y post -> b_off y <> b_off x.
Proof.
  cbn. intros (Ho & Hs & Hc) Hin. pose proof (chain_in_bounds _ _ _ Hc Hin). lia.
Qed.

(* ------------------------------------------------------------------ phase 1: predecessor *)

Lemma free_merge_prev_spec t0 b pre post t1 m :
  t_chain t0 = pre ++ b :: post ->
  chain_from 0 (t_chain t0) -> Forall gh_ok (t_chain t0) -> naf false (t_chain t0) ->
  b_free b = false -> b_reqalign b = 1 -> b_reqsize b = 0 ->
  free_merge_prev t0 b = Some (t1, m) ->
  exists pre1,
    t_chain t1 = pre1 ++ m :: post /\ b_free m = false /\ b_reqalign m = 1 /\ b_reqsize m = 0 /\
    chain_from 0 (t_chain t1) /\ chain_end 0 (pre1 ++ [m]) = chain_end 0 (pre ++ [b]) /\
    Forall gh_ok (t_chain t1) /\ naf false pre1 /\ last_free false pre1 = false /\
    livef pre1 = livef pre /\
    t_null t1 = t_null t0 /\ t_size t1 = t_size t0 /\ t_gran t1 = t_gran t0 /\
    t_alloc_count t1 = t_alloc_count t0.
Proof.
  intros Hc Hch Hgh Hnaf Hbf Hra Hrs. unfold free_merge_prev.
  rewrite Hc in *.
  pose proof (below_of_chain _ _ _ _ Hch) as Hbel.
  destruct (list_last_split pre) as [->|(pre' & p & ->)].
  - (* no predecessor *)
    cbn [app]. rewrite prev_blk_first by reflexivity.
    intros H; injection H as <- <-. exists []. cbn [app].
    rewrite Hc. repeat split; auto; try constructor; cbn in Hch; tauto.
  - rewrite prev_blk_app by auto.
    destruct (b_free p) eqn:Hpf; cbn [andb].
    + (* free predecessor: merged *)
      assert (Hps : 0 < b_size p).
      { apply chain_from_app in Hch. destruct Hch as (Hpre & _).
        apply chain_from_app in Hpre. destruct Hpre as (_ & Hp). cbn in Hp. lia. }
      destruct (Z.eqb_spec (b_size p) 0); [lia|]. cbn [negb].
      destruct (remove_free_block t0 p) as [t1'|] eqn:Hrm; [|discriminate].
      apply remove_free_block_spec in Hrm.
      destruct Hrm as (_ & Hc1 & Hn1 & Hs1 & Hg1 & Ha1).
      intros H; injection H as <- <-.
      rewrite Hc in Hc1.
      (* chain of t1' : pre' ++ p_taken :: b :: post *)
      rewrite <- app_assoc in Hc1. cbn [app] in Hc1.
      rewrite <- app_assoc in Hch, Hgh, Hnaf. cbn [app] in Hch, Hgh, Hnaf.
      pose proof (below_of_chain _ _ _ _ Hch) as Hbelp.
      rewrite replace_blk_app in Hc1 by auto.
      set (pt := set_blk p (b_off p) (b_size p) false None) in *.
      assert (Hpto : b_off pt = b_off p) by reflexivity.
      assert (Hchain1 : chain_from 0 (pre' ++ pt :: b :: post)).
      { apply chain_from_app in Hch. apply chain_from_app. cbn in *. tauto. }
      cbn [with_chain t_chain t_null t_size t_gran t_alloc_count].
      rewrite Hc1.
      rewrite (remove_blk_app (b_off p) pre' pt (b :: post)) by auto.
      assert (Hbel' : below (b_off b) pre').
      { apply Forall_forall. intros a Ha.
        assert (In b (pt :: b :: post)) by (right; left; reflexivity).
        pose proof (chain_split_order _ _ _ _ _ _ Hchain1 Ha H).
        apply chain_from_app in Hchain1. destruct Hchain1 as (Hp' & _).
        pose proof (chain_in_bounds _ _ _ Hp' Ha). lia. }
      rewrite replace_blk_app by auto.
      exists pre'. cbn [set_blk b_free b_reqalign b_reqsize b_off b_size].
      apply chain_from_app in Hch. destruct Hch as (Hpre' & Hrest). cbn in Hrest.
      destruct Hrest as (Hpo & _ & Hbo & Hbs & Hpost).
      apply Forall_app in Hgh. destruct Hgh as (Hgpre & Hgrest).
      inversion Hgrest as [|? ? Hgp Hgrest']; subst. inversion Hgrest' as [|? ? Hgb Hgpost]; subst.
      apply naf_app in Hnaf. destruct Hnaf as (Hnpre & Hnrest). cbn in Hnrest.
      repeat split; auto.
      * apply chain_from_app; split; [exact Hpre'|].
        cbn [chain_from set_blk b_off b_size].
        split; [lia|]. split; [lia|].
        replace (chain_end 0 pre' + (b_size b + b_size p)) with (chain_end 0 pre' + b_size p + b_size b) by lia.
        exact Hpost.
      * rewrite !chain_end_app. cbn. lia.
      * apply Forall_app. split; auto. constructor; auto.
        unfold gh_ok; cbn; rewrite Hra, Hrs; repeat split; try lia; try apply Z.mod_1_r; try discriminate.
      * destruct (last_free false pre') eqn:E; auto.
        destruct Hnrest as (Hx & _). specialize (Hx eq_refl). congruence.
      * rewrite livef_app. cbn. rewrite Hpf. cbn. rewrite app_nil_r. reflexivity.
    + (* taken predecessor: nothing to merge *)
      cbn [andb]. intros H; injection H as <- <-.
      exists (pre' ++ [p]). rewrite Hc.
      apply naf_app in Hnaf. destruct Hnaf as (Hnpre & _).
      repeat split; auto.
      rewrite last_free_app. cbn. exact Hpf.
Qed.

(* ------------------------------------------------------------------ phase 2: successor *)

Lemma gh_ok_free_blk off size : 0 <= size -> gh_ok (mkBlk off size true None 0 0 1).
Proof. intros. unfold gh_ok; cbn. repeat split; try lia; try apply Z.mod_1_r. Qed.

Lemma gh_ok_free_any off size tag fr : 0 <= size -> gh_ok (mkBlk off size fr tag 0 0 1).
Proof. intros. unfold gh_ok; cbn. repeat split; try lia; try apply Z.mod_1_r. Qed.

Lemma free_merge_next_spec t1 m pre1 post t' :
  t_chain t1 = pre1 ++ m :: post ->
  geom t1 -> Forall gh_ok (t_chain t1) ->
  b_free m = false -> b_reqalign m = 1 -> b_reqsize m = 0 ->
  naf false pre1 -> last_free false pre1 = false -> naf false post ->
  last_taken (m :: post) ->
  free_merge_next t1 m = FOk t' ->
  Inv1 t' /\ livef (t_chain t') = livef pre1 ++ livef post /\
  t_size t' = t_size t1 /\ t_gran t' = t_gran t1 /\ t_alloc_count t' = t_alloc_count t1.
Proof.
  intros Hc Hgeo Hgh Hmf Hra Hrs Hnpre Hlpre Hnpost Hlast. unfold free_merge_next.
  destruct Hgeo as [Hch Hnoff Hnsz Htot Hnfree]. rewrite Hc in *.
  pose proof (below_of_chain _ _ _ _ Hch) as Hbel.
  rewrite next_blk_app by auto.
  apply Forall_app in Hgh. destruct Hgh as (Hgpre & Hgrest).
  inversion Hgrest as [|? ? Hgm Hgpost]; subst.
  pose proof Hch as Hch'. apply chain_from_app in Hch'. destruct Hch' as (Hcpre & Hcrest).
  cbn [chain_from] in Hcrest. destruct Hcrest as (Hmo & Hms & Hcpost).
  destruct post as [|nx post']; cbn [hd_error].
  - (* successor is the null block *)
    intros H; injection H as <-.
    unfold with_null, with_chain. cbn [t_chain t_null t_size t_gran t_alloc_count].
    rewrite remove_blk_app by auto. rewrite app_nil_r.
    rewrite chain_end_app in Hnoff. cbn [chain_end] in Hnoff.
    split; [|split; [|auto]].
    + constructor; cbn [t_chain t_null t_size]; auto.
      constructor; cbn [t_chain t_null t_size set_blk b_off b_size b_free]; auto; lia.
    + cbn [t_chain]. cbn. rewrite app_nil_r. reflexivity.
  - destruct (b_free nx) eqn:Hnf; cbn [negb].
    + (* free successor: merged into it *)
      destruct (remove_free_block _ nx) as [t2|] eqn:Hrm; cbn [bind_f]; [|discriminate].
      apply remove_free_block_spec in Hrm. destruct Hrm as (_ & Hc2 & Hn2 & Hs2 & Hg2 & Ha2).
      rewrite Hc in Hc2.
      assert (Hbelnx : below (b_off nx) (pre1 ++ [m])).
      { replace (pre1 ++ m :: nx :: post') with ((pre1 ++ [m]) ++ nx :: post') in Hch by (rewrite <- app_assoc; reflexivity).
        apply (below_of_chain _ _ _ _ Hch). }
      replace (pre1 ++ m :: nx :: post') with ((pre1 ++ [m]) ++ nx :: post') in Hc2 by (rewrite <- app_assoc; reflexivity).
      rewrite replace_blk_app in Hc2 by auto.
      rewrite <- app_assoc in Hc2. cbn [app] in Hc2.
      set (nxt := set_blk nx (b_off nx) (b_size nx) false None) in *.
      set (mg := set_blk nx (b_off m) (b_size nx + b_size m) false None).
      destruct (insert_free_block _ mg) as [t3|] eqn:Hins; cbn [bind_f]; [|discriminate].
      intros H; injection H as <-.
      apply insert_free_block_spec in Hins. destruct Hins as (_ & Hc3 & Hn3 & Hs3 & Hg3 & Ha3).
      cbn [with_chain t_chain t_null t_size t_gran t_alloc_count] in Hc3, Hn3, Hs3, Hg3, Ha3.
      rewrite Hc2 in Hc3.
      rewrite (remove_blk_app (b_off m) pre1 m (nxt :: post')) in Hc3 by auto.
      assert (Hbelnx' : below (b_off nx) pre1) by (apply below_app in Hbelnx; tauto).
      rewrite (replace_blk_app (b_off nx) mg pre1 nxt post') in Hc3 by auto.
      assert (Hbelm : below (b_off mg) pre1) by exact Hbel.
      rewrite (replace_blk_app (b_off mg) _ pre1 mg post') in Hc3 by auto.
      cbn [mg set_blk b_off b_size b_tag] in Hc3.
      cbn [chain_from] in Hcpost. destruct Hcpost as (Hnxo & Hnxs & Hcpost').
      inversion Hgpost as [|? ? Hgnx Hgpost']; subst.
      cbn [naf] in Hnpost. destruct Hnpost as (_ & Hnpost').
      rewrite Hnf in Hnpost'.
      rewrite chain_end_app in Hnoff. cbn [chain_end] in Hnoff.
      split; [|split; [|rewrite Hs3, Hg3, Ha3; cbn; rewrite Hs2, Hg2, Ha2; auto]].
      * constructor.
        -- constructor; rewrite ?Hc3, ?Hn3; cbn [with_chain t_null]; rewrite ?Hn2; auto.
           ++ apply chain_from_app. split; auto. cbn [chain_from b_off b_size].
              split; [lia|]. split; [lia|].
              replace (chain_end 0 pre1 + (b_size nx + b_size m)) with (chain_end 0 pre1 + b_size m + b_size nx) by lia.
              exact Hcpost'.
           ++ rewrite chain_end_app. cbn [chain_end b_size]. rewrite Hnoff. f_equal. lia.
           ++ rewrite Hs3. cbn. rewrite Hs2. exact Htot.
        -- rewrite Hc3. apply Forall_app. split; auto. constructor; auto.
           apply gh_ok_free_any. lia.
        -- rewrite Hc3. unfold no_adj_free. apply naf_app. split; auto.
           rewrite Hlpre. cbn [naf b_free]. split; [discriminate|]. exact Hnpost'.
        -- rewrite Hc3. unfold last_taken in *. rewrite last_free_app, Hlpre. cbn [last_free b_free].
           cbn [last_free] in Hlast. rewrite Hnf in Hlast. exact Hlast.
      * rewrite Hc3. rewrite !livef_app. cbn. rewrite Hnf. cbn. reflexivity.
    + (* taken successor: the freed block goes to a free list *)
      destruct (insert_free_block t1 m) as [t3|] eqn:Hins; cbn [bind_f]; [|discriminate].
      intros H; injection H as <-.
      apply insert_free_block_spec in Hins. destruct Hins as (_ & Hc3 & Hn3 & Hs3 & Hg3 & Ha3).
      rewrite Hc in Hc3. rewrite replace_blk_app in Hc3 by auto.
      split; [|split; [|auto]].
      * constructor.
        -- constructor; rewrite ?Hc3, ?Hn3; auto.
           ++ apply chain_from_app. split; auto.
              cbn [chain_from b_off b_size]. split; [lia|]. split; [lia|]. exact Hcpost.
           ++ rewrite Hnoff, !chain_end_app. reflexivity.
           ++ rewrite Hs3. exact Htot.
        -- rewrite Hc3. apply Forall_app. split; auto. constructor; auto.
           apply gh_ok_free_any. lia.
        -- rewrite Hc3. unfold no_adj_free. apply naf_app. split; auto.
           rewrite Hlpre. cbn [naf b_free]. split; [discriminate|].
           cbn [naf] in Hnpost. destruct Hnpost as (_ & Hnp). split; [intros _; exact Hnf|].
           exact Hnp.
        -- rewrite Hc3. unfold last_taken in *. rewrite last_free_app, Hlpre. cbn [last_free b_free].
           cbn [last_free] in Hlast. exact Hlast.
      * rewrite Hc3. rewrite !livef_app. cbn. rewrite Hnf. cbn. reflexivity.
Qed.

(* ------------------------------------------------------------------ Free as a whole *)

Theorem tlsf_free_inv1 t h t' :
  Inv1 t -> tlsf_free t h = FOk t' ->
  Inv1 t' /\ t_size t' = t_size t /\ t_alloc_count t' = t_alloc_count t - 1 /\
  (exists b g', find_blk h (t_chain t) = Some b /\ free_regions (t_gran t) (b_off b) (b_size b) = Some g' /\ t_gran t' = g') /\
  exists pre b post,
    t_chain t = pre ++ b :: post /\ b_off b = h /\ b_free b = false /\
    livef (t_chain t') = livef pre ++ livef post.
Proof.
  intros [Hgeo Hgh Hnaf Hlast] Hfree. unfold tlsf_free in Hfree.
  destruct (find_blk h (t_chain t)) as [b0|] eqn:Hfind; [|discriminate].
  destruct (find_blk_split _ _ _ Hfind) as (pre & post & Hc & Hoff & Hbel). subst h.
  destruct (b_free b0) eqn:Hbf; [discriminate|].
  destruct (free_regions _ _ _) as [g'|] eqn:Hfr; [|discriminate].
  set (b := mkBlk (b_off b0) (b_size b0) false (b_tag b0) 0 0 1) in *.
  set (t0 := mkT _ _ _ _ _ _ _ _ _ _) in *.
  destruct (free_merge_prev t0 b) as [[t1 m]|] eqn:Hp1; [|discriminate].
  destruct Hgeo as [Hch Hnoff Hnsz Htot Hnfree].
  assert (Hc0 : t_chain t0 = pre ++ b :: post).
  { unfold t0; cbn [t_chain]. rewrite Hc. apply replace_blk_app; auto. }
  rewrite Hc in *.
  assert (Hch0 : chain_from 0 (pre ++ b :: post)).
  { apply chain_from_app in Hch. apply chain_from_app. cbn [chain_from] in *. exact Hch. }
  assert (Hgh0 : Forall gh_ok (pre ++ b :: post)).
  { apply Forall_app in Hgh. destruct Hgh as (Hg1 & Hg2). inversion Hg2; subst.
    apply Forall_app. split; auto. constructor; auto.
    apply gh_ok_free_any. apply chain_from_app in Hch. cbn in Hch. lia. }
  assert (Hnaf0 : naf false (pre ++ b :: post)).
  { unfold no_adj_free in Hnaf. apply naf_app in Hnaf. apply naf_app.
    cbn [naf b_free] in *. rewrite Hbf in Hnaf. exact Hnaf. }
  rewrite <- Hc0 in Hch0, Hgh0, Hnaf0.
  destruct (free_merge_prev_spec t0 b pre post t1 m Hc0 Hch0 Hgh0 Hnaf0 eq_refl eq_refl eq_refl Hp1)
    as (pre1 & Hc1 & Hmf & Hmra & Hmrs & Hch1 & Hend1 & Hgh1 & Hnpre1 & Hlpre1 & Hlive1 & Hn1 & Hs1 & Hg1 & Ha1).
  assert (Hgeo1 : geom t1).
  { constructor; auto.
    - rewrite Hn1. unfold t0; cbn [t_null]. rewrite Hnoff, Hc1.
      replace (pre1 ++ m :: post) with ((pre1 ++ [m]) ++ post) by (rewrite <- app_assoc; reflexivity).
      replace (pre ++ b0 :: post) with ((pre ++ [b0]) ++ post) by (rewrite <- app_assoc; reflexivity).
      rewrite !(chain_end_app _ _ post). f_equal. rewrite Hend1.
      rewrite !chain_end_app. reflexivity.
    - rewrite Hn1. exact Hnsz.
    - rewrite Hn1, Hs1. exact Htot.
    - rewrite Hn1. exact Hnfree. }
  assert (Hnpost : naf false post).
  { unfold no_adj_free in Hnaf. apply naf_app in Hnaf. destruct Hnaf as (_ & Hn).
    cbn [naf] in Hn. destruct Hn as (_ & Hn). rewrite Hbf in Hn. exact Hn. }
  assert (Hlast1 : last_taken (m :: post)).
  { unfold last_taken in *. rewrite last_free_app in Hlast. cbn [last_free] in *.
    rewrite Hmf. rewrite Hbf in Hlast. exact Hlast. }
  destruct (free_merge_next_spec t1 m pre1 post t' Hc1 Hgeo1 Hgh1 Hmf Hmra Hmrs Hnpre1 Hlpre1 Hnpost Hlast1 Hfree)
    as (Hinv & Hlive & Hs' & Hg' & Ha').
  split; [exact Hinv|]. split; [rewrite Hs', Hs1; reflexivity|].
  split; [rewrite Ha', Ha1; reflexivity|].
  split; [exists b0, g'; repeat split; auto; rewrite Hg', Hg1; reflexivity|].
  exists pre, b0, post. repeat split; auto. rewrite Hlive, Hlive1. reflexivity.
Qed.
