(* VamFailBal.v — C10 at allocator level, second part: CreateBuffer / CreateImage / AllocateMemoryForBuffer /
   AllocateMemoryForImage that fail leave no trace, in every state of a history without rogue Unmaps (reachB).
   The interesting path is createBuffer's deferred clean-up after a failed Bind: it calls Allocation.free and only
   LOGS its error.  Under the balance of map references (VamBal.v) that free cannot fail (the reference of a
   persistently mapped allocation is there to be dropped), so the Allocation object is unallocated again. *)
From Coq Require Import ZArith NArith List Bool Lia.
From Arsenal Require Import Util Budget BudgetProofs VamDev VamBlockList Vam VamInvMeta VamInv VamInvUpd VamInvDev.
From Arsenal Require Import VamInvStep VamInvStep2 VamInvThm VamProps VamAcct VamAcctStep VamAcctStep2 VamAcctThm VamMap VamMapStep VamMapStep2 VamMapThm.
From Arsenal Require Import VamBal VamBalStep VamBalStep2 VamBalThm VamFailProps.
From Arsenal Require SyncMem SyncMemProofs.
Import ListNotations.
Open Scope Z_scope.

Section WithCfg.
Variable c : vcfg.
Hypothesis Hc : cfg_ok c.
Hypothesis Hmax : 0 <= c_maxcount c < 2147483647.
Hypothesis Hlarge : 0 <= c_large c < 2 ^ 61.
Variable ms0 : list dmem.
Variable G : Z -> Z.
Set Default Proof Using "Hc Hmax Hlarge".

Notation VamInvB := (VamBalStep.VamInvB c ms0 G).
Notation vb_b := (VamBalStep.vb_b c ms0 G).
Notation vb_s := (VamBalStep.vb_s c Hc Hmax Hlarge ms0 G).
Notation vb_mm := (VamBalStep.vb_mm c Hc Hmax Hlarge ms0 G).
Notation vb_aa := (VamBalStep.vb_aa c Hc Hmax Hlarge ms0 G).

(* Allocation.free of an Allocation without outstanding user maps never returns an error *)
Lemma free_one_not_ER v s :
  VamInvB v [] [] -> a_allocated (get_alloc v s) = true -> G s = 0 ->
  let '(v', r) := multi_free c v [s] in
  match r with ER _ => False | OK _ => a_allocated (get_alloc v' s) = false | _ => True end.
Proof.
  intros HI Ea HG0. cbn [multi_free]. unfold free_single. pose proof (get_alloc_allocated _ _ Ea) as Sa.
  destruct (vi_slots _ _ _ _ (vb_s _ _ _ HI) s _ Sa (fun H => H)) as [(K & _)|(K & _)]; rewrite K; cbn [Z.eqb Pos.eqb].
  - pose proof (VamBalStep.bl_free_BB c Hc Hmax Hlarge ms0 G v [] [] s (get_alloc v s) false (vb_b _ _ _ HI) (vb_mm _ _ _ HI) (vb_s _ _ _ HI) Sa (fun H => H) K HG0) as Q.
    pose proof (VamInvStep.bl_free_inv c v [] [] s (get_alloc v s) false (vb_s _ _ _ HI) Sa (fun H => H) K) as P.
    destruct (bl_free c v (a_lref (get_alloc v s)) s false) as (v1 & r). destruct r as [[]|code| |]; auto.
    destruct P as (_ & T & _). unfold get_alloc. cbn [set_alloc set_tab v_tab]. rewrite nth_z_set_same; [reflexivity|].
    destruct T as (E & _). rewrite E. eapply slot_is_range; eauto.
  - pose proof (VamBalStep2.free_ded_slot_inv c Hc Hmax Hlarge ms0 G v [] s (get_alloc v s) HI Sa K HG0) as F.
    destruct (free_dedicated c v s) as (v1 & r). destruct r as [[]|code| |]; auto. cbn zeta in F. apply F.
Qed.

(* createBuffer / CreateImage: after an error the caller's Allocation object is unallocated *)
Lemma create_resource_fail_dead v s image kind sub devreq resusage minAlign usage flags req pref ctb pool :
  VamInvB v [] [] -> rq_size devreq < 2 ^ 62 -> 0 <= s < zlen (v_tab v) -> a_allocated (get_alloc v s) = false ->
  let '(v', r) := create_resource c v s image kind sub devreq resusage minAlign usage flags req pref ctb pool in
  match r with ER _ => a_allocated (get_alloc v' s) = false | _ => True end.
Proof.
  intros HI Hdq Hr Hd. unfold create_resource.
  pose proof (VamMapStep2.dev_create_res_sameX c Hc Hmax Hlarge (v_m v) image kind devreq Hdq) as H1.
  destruct (dev_create_res (v_m v) image kind devreq) as ((m1 & code) & id). cbn [fst] in H1.
  destruct (negb (code =? 0)); [exact Hd|].
  destruct (VamMapStep2.get_requirements_spec c Hc Hmax Hlarge m1 image id) as (m2 & rq & rd & pd & Egr & H2 & Hrq). rewrite Egr.
  assert (Hsz : rq_size rq < 2 ^ 62) by (apply Hrq; apply (proj2 (proj2 (proj1 H1))); apply (ai_res _ _ _ (vb_aa _ _ _ HI))).
  pose proof (VamMapStep.mach_sameX_trans c Hc Hmax Hlarge _ _ _ H1 H2) as H12.
  assert (I2 : VamInvB (set_m v m2) [] []) by (apply (VamBalStep.VamInvB_mach_same c Hc Hmax Hlarge ms0 G); auto).
  assert (Hnd : NoDup [s]) by (constructor; [intros []|constructor]).
  assert (Hdead : dead_slots (set_m v m2) [s]) by (intros x [<-|[]]; auto).
  match goal with |- context [multi_allocate c (set_m v m2) ?a1 ?a2 ?a3 ?a4 ?a5 ?a6 ?a7 usage flags req pref ctb pool sub [s]] =>
    pose proof (VamBalStep2.multi_allocate_inv c Hc Hmax Hlarge ms0 G (set_m v m2) [] a1 a2 a3 a4 a5 a6 a7 usage flags req pref ctb pool sub [s] I2 Hsz Hnd Hdead) as MA;
    destruct (multi_allocate c (set_m v m2) a1 a2 a3 a4 a5 a6 a7 usage flags req pref ctb pool sub [s]) as (v3 & r) end.
  destruct r as [[]|acode| |]; auto.
  - destruct MA as (I3 & T3 & L3 & D3).
    destruct (fl flags F_DONTBIND); [exact I|].
    pose proof (VamBalStep2.bind_memory_inv c Hc Hmax Hlarge ms0 G v3 s image id 0 I3) as B. destruct (bind_memory v3 s image id 0) as (v4 & br).
    destruct br as [[]|bcode| |]; auto. destruct B as (I4 & T4).
    assert (HG0 : G s = 0) by (apply (bb_G0 _ _ _ (vb_b _ _ _ HI)); exact Hd).
    destruct (a_allocated (get_alloc v4 s)) eqn:Ea.
    + pose proof (free_one_not_ER v4 s I4 Ea HG0) as P. destruct (multi_free c v4 [s]) as (v5 & fr).
      destruct fr as [[]|code5| |]; [exact P|contradiction|exact I|exact I].
    + exact Ea.
  - destruct MA as (I3 & T3 & L3 & D3). cbn [v_tab set_m get_alloc] in *. apply (D3 s). left. reflexivity.
Qed.

Lemma create_buffer_fail_dead v s size devreq bufUsage minAlign usage flags req pref ctb pool :
  VamInvB v [] [] -> rq_size devreq < 2 ^ 62 -> 0 <= s < zlen (v_tab v) -> a_allocated (get_alloc v s) = false ->
  let '(v', r) := create_buffer c v s size devreq bufUsage minAlign usage flags req pref ctb pool in
  match r with ER _ => tab_frame v v' [s] /\ a_allocated (get_alloc v' s) = false | _ => True end.
Proof.
  intros HI Hdq Hr Hd. unfold create_buffer. rewrite Hd.
  assert (Hrefl : tab_frame v v [s] /\ a_allocated (get_alloc v s) = false) by (split; [apply tab_frame_refl|exact Hd]).
  destruct (_ && _); [exact Hrefl|]. destruct (size =? 0); [exact Hrefl|]. destruct (_ && _); [exact Hrefl|].
  pose proof (VamBalStep2.create_resource_inv c Hc Hmax Hlarge ms0 G v s false 1 2 devreq bufUsage minAlign usage flags req pref ctb pool HI Hdq Hr Hd) as P.
  pose proof (create_resource_fail_dead v s false 1 2 devreq bufUsage minAlign usage flags req pref ctb pool HI Hdq Hr Hd) as Q.
  destruct (create_resource c v s false 1 2 devreq bufUsage minAlign usage flags req pref ctb pool) as (v1 & r1).
  destruct r1 as [[]|code1| |]; auto. destruct P as (_ & T1). auto.
Qed.

Lemma create_image_fail_dead v s tiling width devreq imgUsage usage flags req pref ctb pool :
  VamInvB v [] [] -> rq_size devreq < 2 ^ 62 -> 0 <= s < zlen (v_tab v) -> a_allocated (get_alloc v s) = false ->
  let '(v', r) := create_image c v s tiling width devreq imgUsage usage flags req pref ctb pool in
  match r with ER _ => tab_frame v v' [s] /\ a_allocated (get_alloc v' s) = false | _ => True end.
Proof.
  intros HI Hdq Hr Hd. unfold create_image. rewrite Hd.
  assert (Hrefl : tab_frame v v [s] /\ a_allocated (get_alloc v s) = false) by (split; [apply tab_frame_refl|exact Hd]).
  destruct (width =? 0); [exact Hrefl|].
  match goal with |- context [create_resource c v s true ?k ?sb devreq imgUsage 0 usage flags req pref ctb pool] =>
    pose proof (VamBalStep2.create_resource_inv c Hc Hmax Hlarge ms0 G v s true k sb devreq imgUsage 0 usage flags req pref ctb pool HI Hdq Hr Hd) as P;
    pose proof (create_resource_fail_dead v s true k sb devreq imgUsage 0 usage flags req pref ctb pool HI Hdq Hr Hd) as Q;
    destruct (create_resource c v s true k sb devreq imgUsage 0 usage flags req pref ctb pool) as (v1 & r1) end.
  destruct r1 as [[]|code1| |]; auto. destruct P as (_ & T1). auto.
Qed.

End WithCfg.

Section Thm.
Variable c : vcfg.
Hypothesis Ha : cfg_acct c.
Let Hc := ca_ok c Ha.
Let Hmax := ca_max c Ha.
Let Hlarge := ca_large c Ha.

(* CreateBuffer / CreateImage that fail (any fault oracle: the device refusing the resource, the memory, the map or
   the bind at any point): the Allocation object passed in is unallocated as before, every other Allocation object
   is untouched, so (same_slots_same_regions) every existing allocation is exactly where it was *)
Theorem failed_create_no_trace v G o f v' code calls :
  reachB c v G -> op_ok v o -> op_dom o -> step c v o f = (v', RErr code, calls) ->
  match o with
  | OCreateBuf slot _ _ _ _ _ _ _ _ _ _ | OCreateImg slot _ _ _ _ _ _ _ _ _ _ =>
      a_allocated (get_alloc v slot) = false -> same_slots v v' /\ reachB c v' G
  | _ => True
  end.
Proof.
  intros R Hok Hd Hs.
  assert (R' : op_bal G o -> reachB c v' (gstep G o (RErr code))).
  { intros Hb. apply (reachB_step c v G o f v' (RErr code) calls R Hok Hd Hb Hs); discriminate. }
  pose proof (reachB_reachA c _ _ R) as RA. pose proof (reachA_inv c Ha v RA) as HI. pose proof (reachA_map c Ha v RA) as HM.
  pose proof (reachB_bal c Ha _ _ R) as HB.
  unfold step in Hs.
  set (ms0 := m_mems (v_m v)) in *. set (v0 := set_m v (clear_calls (set_fault (v_m v) f 0))) in *.
  assert (Hms : forall m ff n, mach_sameA c m (clear_calls (set_fault m ff n))).
  { intros m ff n. eapply (mach_sameA_trans c Hc Hmax Hlarge); [apply (mach_sameA_set_fault c Hc Hmax Hlarge)|apply (mach_sameA_clear c Hc Hmax Hlarge)]. }
  assert (I0 : VamBalStep.VamInvB c ms0 G v0 [] []).
  { split; [|apply BInv_mach; exact HB]. split; [apply (VamAcctStep.VamInvA_mach_same c Hc Hmax Hlarge); [exact HI|apply Hms]|].
    split; [apply (MapInv_sub v []); [exact HM|reflexivity|apply blocks_sub_eq; intros; apply get_blist_set_m|apply deds_sub_nil; apply tab_frame_set_m]|].
    unfold LogOk, v0, ms0. cbn. constructor. }
  assert (Hfin : forall slot v1, a_allocated (get_alloc v slot) = false -> tab_frame v0 v1 [slot] -> a_allocated (get_alloc v1 slot) = false ->
            same_slots v (set_m v1 (clear_calls (set_fault (v_m v1) no_fault (m_fired (v_m v1)))))).
  { intros slot v1 Hdead T D. apply (same_slots_frame v _ [slot]).
    - eapply tab_frame_trans_same; [apply tab_frame_set_m|]. eapply tab_frame_trans_same; [exact T|apply tab_frame_set_m].
    - intros s [<-|[]]. split; [exact Hdead|exact D]. }
  destruct o; try exact I; cbn [exec op_ok op_dom gstep] in *; intros Hdead.
  - pose proof (create_buffer_fail_dead c Hc Hmax Hlarge ms0 G v0 slot size devreq bufUsage minAlign usage flags req pref ctb pool I0 Hd Hok Hdead) as Q.
    destruct (create_buffer c v0 slot size devreq bufUsage minAlign usage flags req pref ctb pool) as (v1 & r1).
    destruct r1 as [[]|code1| |]; cbn in Hs; try discriminate. injection Hs as <- _ _. destruct Q as (T1 & D1).
    split; [apply (Hfin slot v1 Hdead T1 D1)|exact (R' I)].
  - pose proof (create_image_fail_dead c Hc Hmax Hlarge ms0 G v0 slot tiling width devreq imgUsage usage flags req pref ctb pool I0 Hd Hok Hdead) as Q.
    destruct (create_image c v0 slot tiling width devreq imgUsage usage flags req pref ctb pool) as (v1 & r1).
    destruct r1 as [[]|code1| |]; cbn in Hs; try discriminate. injection Hs as <- _ _. destruct Q as (T1 & D1).
    split; [apply (Hfin slot v1 Hdead T1 D1)|exact (R' I)].
Qed.

End Thm.
