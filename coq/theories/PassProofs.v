(* PassProofs.v — the per-pass counters keep a pass within its limits (first half of C15's
   "the moves of one pass never exceed the configured byte or allocation-count limit"). *)
From Coq Require Import ZArith List Bool Lia.
From Arsenal Require Import Util Pass.
Import ListNotations.
Open Scope Z_scope.

(* ------------------------------------------------------------------ one-call specifications *)

Lemma check_counters_frame p b p' c :
  check_counters p b = (p', c) ->
  p_stats p' = p_stats p /\ p_max_bytes p' = p_max_bytes p /\ p_max_allocs p' = p_max_allocs p.
Proof.
  unfold check_counters. destruct (_ <=? _); [intros H; injection H as <- <-; auto|]. destruct (_ >? _).
  - cbn [p_ignored set_ignored]. destruct (_ <? _); intros H; injection H as <- <-; cbn; auto.
  - intros H; injection H as <- <-; cbn; auto.
Qed.

Lemma check_counters_pass p b p' :
  check_counters p b = (p', CPass) ->
  ps_bytes_moved (p_stats p) + b <= p_max_bytes p /\ ps_allocs_moved (p_stats p) < p_max_allocs p /\
  p_ignored p' = 0.
Proof.
  unfold check_counters. destruct (_ <=? _) eqn:E0; [discriminate|]. destruct (_ >? _) eqn:E.
  - cbn [p_ignored set_ignored]. destruct (_ <? _); discriminate.
  - intros H; injection H as <-. cbn. repeat split; lia.
Qed.

Lemma check_counters_ignore p b p' :
  check_counters p b = (p', CIgnore) ->
  p_max_bytes p < ps_bytes_moved (p_stats p) + b /\ p_ignored p' = p_ignored p + 1 /\ p_ignored p' < max_allocs_to_ignore.
Proof.
  unfold check_counters. destruct (_ <=? _) eqn:E0; [discriminate|]. destruct (_ >? _) eqn:E.
  - cbn [p_ignored set_ignored]. destruct (_ <? _) eqn:E2; [|discriminate].
    intros H; injection H as <-. cbn. lia.
  - discriminate.
Qed.

Lemma check_counters_end p b p' :
  check_counters p b = (p', CEnd) ->
  (p' = p /\ p_max_allocs p <= ps_allocs_moved (p_stats p)) \/
  (p_max_bytes p < ps_bytes_moved (p_stats p) + b /\ p_ignored p' = p_ignored p + 1 /\
   max_allocs_to_ignore <= p_ignored p').
Proof.
  unfold check_counters. destruct (_ <=? _) eqn:E0.
  { intros H; injection H as <-. left. split; [reflexivity|lia]. }
  destruct (_ >? _) eqn:E.
  - cbn [p_ignored set_ignored]. destruct (_ <? _) eqn:E2; [discriminate|].
    intros H; injection H as <-. right. cbn. lia.
  - discriminate.
Qed.

Lemma check_counters_over p b :
  p_max_bytes p < ps_bytes_moved (p_stats p) + b -> snd (check_counters p b) <> CPass.
Proof.
  intros H. unfold check_counters. destruct (_ <=? _); [cbn; discriminate|]. destruct (_ >? _) eqn:E; [|lia].
  cbn [p_ignored set_ignored]. destruct (_ <? _); cbn; discriminate.
Qed.

(* the counters while a pass is collecting (since checkCounters ends a pass whose allocation
   limit is used up, this is the same as pass_within below; the name is kept for the callers) *)
Definition pass_running (p : pass) : Prop :=
  0 <= ps_bytes_moved (p_stats p) <= p_max_bytes p /\
  0 <= ps_allocs_moved (p_stats p) <= p_max_allocs p.

(* the counters of a pass at any time: within both limits *)
Definition pass_within (p : pass) : Prop :=
  0 <= ps_bytes_moved (p_stats p) <= p_max_bytes p /\
  0 <= ps_allocs_moved (p_stats p) <= p_max_allocs p.

Lemma running_within p : pass_running p -> pass_within p.
Proof. unfold pass_running, pass_within. lia. Qed.

Lemma pass_init_running mb ma : 0 <= mb -> 0 <= ma -> pass_running (pass_init mb ma).
Proof. unfold pass_running; cbn. lia. Qed.

Lemma increment_counters_spec p b p' r :
  pass_running p -> 0 <= b ->
  ps_bytes_moved (p_stats p) + b <= p_max_bytes p /\ ps_allocs_moved (p_stats p) < p_max_allocs p ->
  increment_counters p b = (p', r) ->
  r <> IPanic /\
  p_stats p' = mkPS (ps_bytes_moved (p_stats p) + b) (ps_bytes_freed (p_stats p))
                    (ps_allocs_moved (p_stats p) + 1) (ps_allocs_freed (p_stats p)) /\
  p_max_bytes p' = p_max_bytes p /\ p_max_allocs p' = p_max_allocs p /\ p_ignored p' = p_ignored p /\
  pass_within p' /\ (r = IContinue -> pass_running p').
Proof.
  intros ((Hb0 & Hb1) & (Ha0 & _)) Hb (Hfit & Ha1). unfold increment_counters.
  destruct (_ || _) eqn:E.
  - destruct (negb _ && negb _) eqn:E2.
    + exfalso. apply andb_prop in E2. destruct E2 as (E2 & E3).
      apply negb_true_iff in E2, E3. cbn [ps_allocs_moved ps_bytes_moved] in *.
      apply orb_prop in E. lia.
    + intros H; injection H as <- <-. unfold pass_within, pass_running; cbn.
      repeat split; try discriminate; try lia.
  - intros H; injection H as <- <-. apply orb_false_elim in E. destruct E as (E1 & E2).
    cbn [ps_allocs_moved ps_bytes_moved] in *.
    unfold pass_within, pass_running; cbn. repeat split; try discriminate; try lia.
Qed.

(* ------------------------------------------------------------------ the calls a collecting pass issues *)

(* One walk iteration that reaches the counters: checkCounters(size); when it passes and the
   handler found a destination (moved = true), incrementCounters(size) with the same size. *)
Inductive ev := Ev (size : Z) (moved : bool).

Definition ev_size (e : ev) : Z := match e with Ev s _ => s end.

Inductive dres := DRunning | DEnded | DPanic.

Record drive_out := mkDO {
  do_pass : pass;
  do_res : dres;
  do_moved : list Z;      (* sizes of the moves made, in order *)
  do_ignores : Z          (* checkCounters calls that answered Ignore *)
}.

Fixpoint drive (p : pass) (evs : list ev) (moved : list Z) (ign : Z) : drive_out :=
  match evs with
  | [] => mkDO p DRunning moved ign
  | Ev size mv :: rest =>
    match check_counters p size with
    | (p1, CIgnore) => drive p1 rest moved (ign + 1)
    | (p1, CEnd) => mkDO p1 DEnded moved ign
    | (p1, CPass) =>
      if mv then
        match increment_counters p1 size with
        | (p2, IContinue) => drive p2 rest (moved ++ [size]) ign
        | (p2, IStop) => mkDO p2 DEnded (moved ++ [size]) ign
        | (p2, IPanic) => mkDO p2 DPanic (moved ++ [size]) ign
        end
      else drive p1 rest moved ign
    end
  end.

Fixpoint zsum (l : list Z) : Z := match l with [] => 0 | x :: r => x + zsum r end.

Lemma zsum_app a b : zsum (a ++ b) = zsum a + zsum b.
Proof. induction a as [|x a IH]; cbn [app zsum]; lia. Qed.

Lemma drive_inv p evs moved ign :
  pass_running p -> Forall (fun e => 0 <= ev_size e) evs ->
  ps_allocs_moved (p_stats p) = zlen moved -> ps_bytes_moved (p_stats p) = zsum moved ->
  let o := drive p evs moved ign in
  do_res o <> DPanic /\ pass_within (do_pass o) /\
  p_max_bytes (do_pass o) = p_max_bytes p /\ p_max_allocs (do_pass o) = p_max_allocs p /\
  ps_allocs_moved (p_stats (do_pass o)) = zlen (do_moved o) /\
  ps_bytes_moved (p_stats (do_pass o)) = zsum (do_moved o).
Proof.
  revert p moved ign. induction evs as [|[size mv] rest IH]; intros p moved ign Hrun Hpos Ha Hb; cbn [drive].
  - cbn. repeat split; auto; try discriminate; apply running_within; auto.
  - inversion Hpos as [|? ? Hs Hrest]; subst. cbn [ev_size] in Hs.
    destruct (check_counters p size) as [p1 c] eqn:Hc.
    destruct (check_counters_frame _ _ _ _ Hc) as (F1 & F2 & F3).
    assert (Hrun1 : pass_running p1) by (unfold pass_running in *; rewrite F1, F2, F3; exact Hrun).
    destruct c.
    + (* CPass *)
      destruct mv.
      * apply check_counters_pass in Hc. destruct Hc as (Hfit & Hlt & _).
        destruct (increment_counters p1 size) as [p2 r] eqn:Hi.
        rewrite <- F1, <- F2 in Hfit. rewrite <- F1, <- F3 in Hlt. pose proof (conj Hfit Hlt) as Hfit2. clear Hfit. rename Hfit2 into Hfit.
        destruct (increment_counters_spec _ _ _ _ Hrun1 Hs Hfit Hi) as (Hnp & Hst & M1 & M2 & _ & Hw & Hc2).
        assert (Ha2 : ps_allocs_moved (p_stats p2) = zlen (moved ++ [size])).
        { rewrite Hst. cbn. unfold zlen in *. rewrite app_length. cbn. rewrite F1. lia. }
        assert (Hb2 : ps_bytes_moved (p_stats p2) = zsum (moved ++ [size])).
        { rewrite Hst, zsum_app. cbn. rewrite F1. lia. }
        destruct r.
        -- specialize (IH p2 (moved ++ [size]) ign (Hc2 eq_refl) Hrest Ha2 Hb2).
           cbn zeta in IH. rewrite M1, M2, F2, F3 in IH. exact IH.
        -- cbn. repeat split; auto; try discriminate; try apply Hw; congruence.
        -- congruence.
      * specialize (IH p1 moved ign Hrun1 Hrest). rewrite F1, F2, F3 in IH. apply IH; auto.
    + specialize (IH p1 moved (ign + 1) Hrun1 Hrest). rewrite F1, F2, F3 in IH. apply IH; auto.
    + cbn. repeat split; auto; try discriminate; try (apply running_within; auto); congruence.
Qed.

(* when no allocation fits the byte limit, nothing moves and the pass ends at the 16th check *)
Lemma drive_tiny p evs moved ign :
  Forall (fun e => p_max_bytes p < ps_bytes_moved (p_stats p) + ev_size e) evs ->
  0 <= p_ignored p < max_allocs_to_ignore ->
  let o := drive p evs moved ign in
  do_moved o = moved /\ p_stats (do_pass o) = p_stats p /\
  (do_ignores o - ign) + p_ignored p < max_allocs_to_ignore /\
  (max_allocs_to_ignore - p_ignored p <= zlen evs -> do_res o = DEnded).
Proof.
  revert p moved ign. induction evs as [|[size mv] rest IH]; intros p moved ign Hall Hig; cbn [drive].
  - unfold zlen. cbn [do_moved do_pass do_res do_ignores length Z.of_nat]. repeat split; auto; try lia.
  - inversion Hall as [|? ? Hs Hrest]; subst. cbn [ev_size] in Hs.
    destruct (check_counters p size) as [p1 c] eqn:Hc.
    destruct (check_counters_frame _ _ _ _ Hc) as (F1 & F2 & F3).
    pose proof (check_counters_over p size Hs) as Hnp. rewrite Hc in Hnp. cbn in Hnp.
    destruct c; [congruence| |].
    + apply check_counters_ignore in Hc. destruct Hc as (_ & Hi1 & Hi2).
      assert (Hall1 : Forall (fun e => p_max_bytes p1 < ps_bytes_moved (p_stats p1) + ev_size e) rest).
      { rewrite F1, F2. exact Hrest. }
      specialize (IH p1 moved (ign + 1) Hall1 ltac:(lia)). cbn zeta in IH.
      destruct IH as (I1 & I2 & I3 & I4).
      repeat split; auto; try congruence; try lia.
      intros Hlen. apply I4. unfold zlen in *. cbn [length] in Hlen. lia.
    + cbn [do_moved do_pass do_res do_ignores]. repeat split; auto; lia.
Qed.

(* ------------------------------------------------------------------ C15: the limits of a pass *)

(* For a pass created with 0 <= maxAllocs, 0 <= maxBytes, whatever allocations the walk meets and
   whichever of them find a destination: incrementCounters never panics, the number of moves
   stays within maxAllocs and their bytes within maxBytes, and the pass statistics are exactly
   the moves made.  If every allocation is larger than the byte limit, no move is made, at most
   15 allocations are ignored and the 16th check ends the pass. *)
Theorem pass_limits mb ma evs :
  0 <= ma -> 0 <= mb -> Forall (fun e => 0 <= ev_size e) evs ->
  let o := drive (pass_init mb ma) evs [] 0 in
  do_res o <> DPanic /\
  zlen (do_moved o) <= ma /\ zsum (do_moved o) <= mb /\
  ps_allocs_moved (p_stats (do_pass o)) = zlen (do_moved o) /\
  ps_bytes_moved (p_stats (do_pass o)) = zsum (do_moved o) /\
  (Forall (fun e => mb < ev_size e) evs ->
   do_moved o = [] /\ do_ignores o < max_allocs_to_ignore /\
   (max_allocs_to_ignore <= zlen evs -> do_res o = DEnded)).
Proof.
  intros Hma Hmb Hpos o.
  pose proof (drive_inv (pass_init mb ma) evs [] 0 (pass_init_running mb ma Hmb Hma) Hpos eq_refl eq_refl) as H.
  cbn zeta in H. fold o in H. destruct H as (H1 & ((_ & H2) & (_ & H3)) & M1 & M2 & H4 & H5).
  cbn [pass_init p_max_bytes p_max_allocs] in M1, M2.
  split; [exact H1|]. split; [lia|]. split; [lia|]. split; [exact H4|]. split; [exact H5|].
  intros Htiny.
  { assert (Hall : Forall (fun e => p_max_bytes (pass_init mb ma) < ps_bytes_moved (p_stats (pass_init mb ma)) + ev_size e) evs).
    { eapply Forall_impl; [|exact Htiny]. cbn. intros; lia. }
    pose proof (drive_tiny (pass_init mb ma) evs [] 0 Hall ltac:(cbn; unfold max_allocs_to_ignore; lia)) as T.
    cbn zeta in T. fold o in T. destruct T as (T1 & T2 & T3 & T4).
    cbn [pass_init p_ignored] in T3, T4. split; [exact T1|]. split; [lia|].
    intros; apply T4; lia. }
Qed.

(* MaxPassAllocations = 0 (the zero value of PassContext with a byte limit set): the pass ends at
   its first check and proposes nothing (before the repair of checkCounters this panicked) *)
Lemma zero_allocs_proposes_nothing :
  let o := drive (pass_init 100 0) [Ev 10 true; Ev 20 true] [] 0 in
  do_res o = DEnded /\ do_moved o = [] /\ do_ignores o = 0.
Proof. vm_compute. auto. Qed.

(* a limit of two allocations: the third allocation is not even looked at *)
Lemma two_allocs_example :
  let o := drive (pass_init 100 2) [Ev 10 true; Ev 95 true; Ev 20 true; Ev 5 true] [] 0 in
  do_res o = DEnded /\ do_moved o = [10; 20] /\ do_ignores o = 1.
Proof. vm_compute. auto. Qed.

Print Assumptions pass_limits.
