(* Conc.v — C12 (concurrency): a small interleaving machine for lock-based programs, the static
   disciplines (lock order, locksets) as executable checkers, and the data types + checkers of the
   lock/access SKELETON that tools/lockskel extracts from the Go sources of vam.

   Part 1  machine: threads = lists of actions, a schedule picks the thread that moves next;
           the machine keeps, per lock, the writer and the list of readers and refuses an
           acquisition that cannot proceed (the scheduled thread is then simply not able to step).
   Part 2  per-thread static tracking of held locks + boolean checkers [ord_ok] (rank discipline,
           well-formed releases, nothing held at the end) and [ls_ok] (locksets).
   Part 3  skeleton data (what the extractor emits) and the checkers that run inside Coq:
           [compile] (inlining through the call graph, lockset at each access, allow-list),
           [check_lock_order], [check_locksets].
   The theorems are in ConcProofs.v.  Nothing here is specific to vam except Part 3's vocabulary.

   What the model does NOT carry (named gaps of C12): the Go memory model (we reason about
   sequentially consistent interleavings of whole actions), goroutine scheduling fairness, the
   writer preference of sync.RWMutex (a waiting writer blocks new readers; under the rank
   discipline no thread re-acquires a lock it holds, which is the case that matters), runtime
   panics, and lock INSTANCES: locks and locations are per struct type ("class"), see LOCKSKEL.md. *)
From Coq Require Import List Arith Lia ZArith Bool String.
Import ListNotations.

(* ------------------------------------------------------------------------------------------ *)
(** * Part 1: the machine *)

Definition lock := nat.
Definition loc := nat.
Definition tid := nat.
Definition store := loc -> Z.

(* [Wr x f] stores [f s] into x where s is the store at the moment of the write (so a write may
   depend on what the thread could read at that moment); [AtomicOp x f] is a sync/atomic
   read-modify-write, same effect, but it is not a "plain" access. *)
Inductive action :=
| Acq (l : lock) | Rel (l : lock)          (* Lock / Unlock *)
| RAcq (l : lock) | RRel (l : lock)        (* RLock / RUnlock *)
| Rd (x : loc)
| Wr (x : loc) (f : store -> Z)
| AtomicOp (x : loc) (f : store -> Z).

Definition thread := list action.
Definition program := list thread.          (* thread t is [nth t P []] *)
Definition event := (tid * action)%type.

Record tstate := mkT { done : list action; todo : list action }.
Record lstate := mkL { lw : option tid; lr : list tid }.
Record state := mkS { locks : lock -> lstate; mem : store; thr : tid -> tstate }.

Definition upd {A} (f : nat -> A) (k : nat) (v : A) : nat -> A :=
  fun k' => if Nat.eq_dec k' k then v else f k'.

Definition init (P : program) (m0 : store) : state :=
  mkS (fun _ => mkL None []) m0 (fun t => mkT [] (nth t P [])).

Definition adv (t : tid) (a : action) (rest : list action) (s : state) : tid -> tstate :=
  upd (thr s) t (mkT (done (thr s t) ++ [a]) rest).

(* One step of thread t; None = t is finished or its next action cannot proceed now. *)
Definition step (t : tid) (s : state) : option (action * state) :=
  match todo (thr s t) with
  | [] => None
  | a :: rest =>
    match a with
    | Acq l =>
        match lw (locks s l), lr (locks s l) with
        | None, [] => Some (a, mkS (upd (locks s) l (mkL (Some t) [])) (mem s) (adv t a rest s))
        | _, _ => None
        end
    | Rel l =>
        match lw (locks s l) with
        | Some t' => if Nat.eq_dec t' t
                     then Some (a, mkS (upd (locks s) l (mkL None (lr (locks s l)))) (mem s) (adv t a rest s))
                     else None
        | None => None
        end
    | RAcq l =>
        match lw (locks s l) with
        | None => Some (a, mkS (upd (locks s) l (mkL None (t :: lr (locks s l)))) (mem s) (adv t a rest s))
        | Some _ => None
        end
    | RRel l =>
        if in_dec Nat.eq_dec t (lr (locks s l))
        then Some (a, mkS (upd (locks s) l (mkL (lw (locks s l)) (remove Nat.eq_dec t (lr (locks s l)))))
                          (mem s) (adv t a rest s))
        else None
    | Rd x => Some (a, mkS (locks s) (mem s) (adv t a rest s))
    | Wr x f => Some (a, mkS (locks s) (upd (mem s) x (f (mem s))) (adv t a rest s))
    | AtomicOp x f => Some (a, mkS (locks s) (upd (mem s) x (f (mem s))) (adv t a rest s))
    end
  end.

(* [exec s tr s']: the machine goes from s to s' producing the trace tr; [map fst tr] is the
   schedule.  step is a function, so schedule and start state determine trace and end state. *)
Inductive exec : state -> list event -> state -> Prop :=
| exec_nil : forall s, exec s [] s
| exec_cons : forall s t a s' tr s'',
    step t s = Some (a, s') -> exec s' tr s'' -> exec s ((t, a) :: tr) s''.

Definition schedule_of (tr : list event) : list tid := map fst tr.

(* the same thing as a function of the schedule; a scheduled thread that cannot step ends the run *)
Fixpoint run (sched : list tid) (s : state) : option (list event * state) :=
  match sched with
  | [] => Some ([], s)
  | t :: sched' =>
      match step t s with
      | None => None
      | Some (a, s') =>
          match run sched' s' with
          | None => None
          | Some (tr, s'') => Some ((t, a) :: tr, s'')
          end
      end
  end.

Definition finished (s : state) : Prop := forall t, todo (thr s t) = [].

(* sequential effect of a list of actions on a store (what a section does when run atomically) *)
Definition apply_action (a : action) (m : store) : store :=
  match a with
  | Wr x f | AtomicOp x f => upd m x (f m)
  | _ => m
  end.
Fixpoint seq_exec (p : list action) (m : store) : store :=
  match p with
  | [] => m
  | a :: p' => seq_exec p' (apply_action a m)
  end.

(* ------------------------------------------------------------------------------------------ *)
(** * Part 2: static tracking of held locks, and the two disciplines *)

Definition updW (a : action) (w : list lock) : list lock :=
  match a with
  | Acq l => l :: w
  | Rel l => remove Nat.eq_dec l w
  | _ => w
  end.
Definition updR (a : action) (r : list lock) : list lock :=
  match a with
  | RAcq l => l :: r
  | RRel l => remove Nat.eq_dec l r
  | _ => r
  end.
Fixpoint hW (w : list lock) (p : list action) : list lock :=
  match p with [] => w | a :: p' => hW (updW a w) p' end.
Fixpoint hR (r : list lock) (p : list action) : list lock :=
  match p with [] => r | a :: p' => hR (updR a r) p' end.
Definition heldW (p : list action) := hW [] p.   (* locks held exclusively after running p *)
Definition heldR (p : list action) := hR [] p.   (* locks held shared after running p *)

Definition memb (l : nat) (xs : list nat) : bool := existsb (Nat.eqb l) xs.

(* Rank discipline: a lock is acquired (in either mode) only if its rank is strictly greater than
   the rank of every lock currently held; a lock is released only while held in that mode; the
   thread ends holding nothing.  w, r = locks held when p starts. *)
Fixpoint ord_ok (rank : lock -> nat) (w r : list lock) (p : list action) : bool :=
  match p with
  | [] => match w, r with [], [] => true | _, _ => false end
  | a :: p' =>
      (match a with
       | Acq l | RAcq l => forallb (fun h => rank h <? rank l) (w ++ r)
       | Rel l => memb l w
       | RRel l => memb l r
       | _ => true
       end) && ord_ok rank (updW a w) (updR a r) p'
  end.
Definition thread_ord_ok (rank : lock -> nat) (p : thread) : bool := ord_ok rank [] [] p.

(* Lockset discipline.  [prot x = Some l]: location x is protected by lock l: written only while
   l is held exclusively, read only while l is held (either mode), never touched by AtomicOp.
   Locations with [prot x = None] are not constrained by ls_ok.  A location has at most one
   protecting lock, so distinct locks protect disjoint sets of locations by construction. *)
Fixpoint ls_ok (prot : loc -> option lock) (w r : list lock) (p : list action) : bool :=
  match p with
  | [] => true
  | a :: p' =>
      (match a with
       | Wr x _ => match prot x with Some l => memb l w | None => true end
       | Rd x => match prot x with Some l => memb l w || memb l r | None => true end
       | AtomicOp x _ => match prot x with Some _ => false | None => true end
       | _ => true
       end) && ls_ok prot (updW a w) (updR a r) p'
  end.
Definition thread_ls_ok (prot : loc -> option lock) (p : thread) : bool := ls_ok prot [] [] p.

(* [atomic_only at p]: locations x with [at x = true] are touched by AtomicOp only *)
Definition atomic_only (at_ : loc -> bool) (p : thread) : bool :=
  forallb (fun a => match a with Rd x | Wr x _ => negb (at_ x) | _ => true end) p.

Definition is_rel (l : lock) (a : action) : bool :=
  match a with Rel l' | RRel l' => Nat.eqb l l' | _ => false end.
Definition is_acq (l : lock) (a : action) : bool :=
  match a with Acq l' | RAcq l' => Nat.eqb l l' | _ => false end.
Definition plain_access (x : loc) (a : action) : bool :=
  match a with Rd x' | Wr x' _ => Nat.eqb x x' | _ => false end.
Definition is_write (a : action) : bool :=
  match a with Wr _ _ => true | _ => false end.

(* ------------------------------------------------------------------------------------------ *)
(** * Part 3: the skeleton *)

Inductive mode := MW | MR.
Inductive kind := KRd | KWr | KAt.

(* one event of a function body, in source order; deferred unlocks (and the bodies of deferred
   closures) are placed by the extractor at the end of the body, last-in-first-out *)
Inductive sev :=
| SLock (l : nat) (m : mode) (line : nat)
| SUnlock (l : nat) (m : mode) (deferred : bool) (line : nat)
| SAcc (f : nat) (k : kind) (line : nat)
| SCall (callee : nat) (line : nat).

Record sfunc := mkF { fn_name : string; fn_file : string; fn_line : nat; fn_body : list sev }.
Record slock := mkLk { lk_name : string; lk_rw : bool; lk_enabled : bool; lk_rank : nat }.
(* fd_lock = Some l: protected by l;  None: must be accessed by sync/atomic only *)
Record sfield := mkFd { fd_name : string; fd_lock : option nat }.
(* policy entry: accesses to field pe_field made while function pe_func is on the call stack *)
Record spolicy := mkPe { pe_func : nat; pe_field : nat; pe_reason : string }.

Record skeleton := mkSk {
  sk_locks : list slock;          (* index = lock id *)
  sk_fields : list sfield;        (* index = field id = location *)
  sk_funcs : list sfunc;          (* index = function id *)
  sk_entries : list nat;          (* public API entry points considered by C12 *)
  sk_allow : list spolicy;        (* init/teardown allow-list: object not shared at that point *)
  sk_known_unprotected : list spolicy   (* candidate defects: genuinely unprotected accesses *)
}.

Definition dummy_lock := mkLk "?" false false 0.
Definition dummy_field := mkFd "?" None.
Definition lock_enabled (sk : skeleton) (l : nat) : bool := lk_enabled (nth l (sk_locks sk) dummy_lock).
Definition sk_rank (sk : skeleton) (l : nat) : nat := lk_rank (nth l (sk_locks sk) dummy_lock).
Definition nfields (sk : skeleton) : nat := List.length (sk_fields sk).
(* locations 0..nfields-1 are the tracked fields; location nfields+f is the UNCHECKED shadow of
   field f, used for accesses exempted by sk_allow / sk_known_unprotected: the theorems say
   nothing about shadow locations.  A field whose lock is DISABLED (UseMutex never set) keeps its
   lock in sk_prot, but [flat] drops the operations of a disabled lock, so no thread ever holds it
   and every plain access to the field fails ls_ok unless it is exempted. *)
Definition sk_prot (sk : skeleton) (x : loc) : option lock :=
  match nth_error (sk_fields sk) x with
  | Some fd => match fd_lock fd with
               | Some l => Some l
               | None => None
               end
  | None => None
  end.
Definition sk_atomic (sk : skeleton) (x : loc) : bool :=
  match nth_error (sk_fields sk) x with
  | Some fd => match fd_lock fd with None => true | Some _ => false end
  | None => false
  end.

(* flattened events: one entry point with every callee inlined *)
Inductive fev :=
| FLock (l : nat) (m : mode)
| FUnlock (l : nat) (m : mode)
| FAcc (fn : nat) (f : nat) (k : kind) (line : nat)
| FEnter (fn : nat)
| FExit (fn : nat)
| FRec (fn : nat)                 (* call of a function that is already on the stack *)
| FBad (fn : nat) (line : nat).   (* unknown callee id / inlining depth exhausted *)

Definition inline_depth : nat := 40.

(* Locks whose UseMutex flag is never set are no-ops in the Go code: their operations are
   dropped here (and the lock is reported by the extractor). *)
Fixpoint flat (sk : skeleton) (fuel : nat) (stack : list nat) (fn : nat) : list fev :=
  match fuel with
  | O => [FBad fn 0]
  | S fuel' =>
      match nth_error (sk_funcs sk) fn with
      | None => [FBad fn 0]
      | Some f =>
          FEnter fn ::
          flat_map (fun e =>
            match e with
            | SLock l m _ => if lock_enabled sk l then [FLock l m] else []
            | SUnlock l m _ _ => if lock_enabled sk l then [FUnlock l m] else []
            | SAcc fd k line => [FAcc fn fd k line]
            | SCall c line =>
                if memb c (fn :: stack) then [FRec c]
                else flat sk fuel' (fn :: stack) c
            end) (fn_body f)
          ++ [FExit fn]
      end
  end.

Definition entry_flat (sk : skeleton) (e : nat) : list fev := flat sk inline_depth [] e.

(* diagnostics *)
Inductive vreason :=
| VNoLock          (* protected field accessed without its lock (in the needed mode) *)
| VPlainOnAtomic   (* plain access to a field that must be accessed atomically *)
| VAtomicOnLocked  (* atomic access to a lock-protected field *)
| VUnbalanced      (* a function frame ends with a different lockset than it started with *)
| VRecLockset      (* recursive call under a lockset different from the outer activation's *)
| VBad.            (* extractor/inliner failure *)
Record violation := mkV { v_fn : nat; v_field : nat; v_line : nat; v_why : vreason }.

Definition in_policy (pl : list spolicy) (stack : list nat) (f : nat) : bool :=
  existsb (fun pe => Nat.eqb (pe_field pe) f && memb (pe_func pe) stack) pl.

Definition same_set (a b : list nat) : bool :=
  forallb (fun x => memb x b) a && forallb (fun x => memb x a) b.

Definition rm (l : nat) (xs : list nat) := remove Nat.eq_dec l xs.

(* frames: (function, W-set at entry, R-set at entry) *)
Definition frame := (nat * list nat * list nat)%type.

(* [scan]: walks the flattened events with the current lockset and call stack and produces
   (actions of the thread, violations, accesses exempted by policy).  An access that is properly
   locked is emitted on its real location even if a policy entry matches; an access that is not
   and matches sk_allow/sk_known_unprotected is emitted on the shadow location and recorded; any
   other improperly locked access is emitted on its real location (so that ls_ok fails too) and
   recorded as a violation. *)
Fixpoint scan (sk : skeleton) (w r : list nat) (fr : list frame) (p : list fev)
  : list action * list violation * list violation :=
  match p with
  | [] => ([], [], [])
  | e :: p' =>
      match e with
      | FLock l m =>
          let '(acts, vs, ex) := scan sk (match m with MW => l :: w | MR => w end)
                                         (match m with MR => l :: r | MW => r end) fr p' in
          ((match m with MW => Acq l | MR => RAcq l end) :: acts, vs, ex)
      | FUnlock l m =>
          let '(acts, vs, ex) := scan sk (match m with MW => rm l w | MR => w end)
                                         (match m with MR => rm l r | MW => r end) fr p' in
          ((match m with MW => Rel l | MR => RRel l end) :: acts, vs, ex)
      | FEnter fn => scan sk w r ((fn, w, r) :: fr) p'
      | FExit fn =>
          let '(acts, vs, ex) := scan sk w r (tl fr) p' in
          match fr with
          | (fn', w0, r0) :: _ =>
              if Nat.eqb fn fn' && same_set w w0 && same_set r r0 then (acts, vs, ex)
              else (acts, mkV fn 0 0 VUnbalanced :: vs, ex)
          | [] => (acts, mkV fn 0 0 VBad :: vs, ex)
          end
      | FRec fn =>
          let '(acts, vs, ex) := scan sk w r fr p' in
          match find (fun f => Nat.eqb (fst (fst f)) fn) fr with
          | Some (_, w0, r0) =>
              if same_set w w0 && same_set r r0 then (acts, vs, ex)
              else (acts, mkV fn 0 0 VRecLockset :: vs, ex)
          | None => (acts, mkV fn 0 0 VBad :: vs, ex)
          end
      | FBad fn line =>
          let '(acts, vs, ex) := scan sk w r fr p' in (acts, mkV fn 0 line VBad :: vs, ex)
      | FAcc fn f k line =>
          let '(acts, vs, ex) := scan sk w r fr p' in
          let stack := map (fun f => fst (fst f)) fr in
          let exempt := in_policy (sk_allow sk) stack f || in_policy (sk_known_unprotected sk) stack f in
          let real := match k with KRd => Rd f | KWr => Wr f (fun s => s f) | KAt => AtomicOp f (fun s => s f) end in
          let shadow := match k with KRd => Rd (nfields sk + f) | KWr => Wr (nfields sk + f) (fun s => s f)
                                   | KAt => AtomicOp (nfields sk + f) (fun s => s f) end in
          let bad (why : vreason) :=
              if exempt then (shadow :: acts, vs, mkV fn f line why :: ex)
              else (real :: acts, mkV fn f line why :: vs, ex) in
          match nth_error (sk_fields sk) f with
          | None => (acts, mkV fn f line VBad :: vs, ex)
          | Some fd =>
              match fd_lock fd, k with
              | None, KAt => (real :: acts, vs, ex)
              | None, _ => bad VPlainOnAtomic
              | Some l, KAt => bad VAtomicOnLocked
              | Some l, KWr => if lock_enabled sk l && memb l w then (real :: acts, vs, ex) else bad VNoLock
              | Some l, KRd => if lock_enabled sk l && (memb l w || memb l r) then (real :: acts, vs, ex) else bad VNoLock
              end
          end
      end
  end.

Definition compile (sk : skeleton) (e : nat) := scan sk [] [] [] (entry_flat sk e).
Definition entry_actions (sk : skeleton) (e : nat) : thread := fst (fst (compile sk e)).
Definition entry_violations (sk : skeleton) (e : nat) : list violation := snd (fst (compile sk e)).
Definition entry_exempted (sk : skeleton) (e : nat) : list violation := snd (compile sk e).

Definition entry_traces (sk : skeleton) : list thread := map (entry_actions sk) (sk_entries sk).
Definition violations (sk : skeleton) : list violation := flat_map (entry_violations sk) (sk_entries sk).
Definition exempted (sk : skeleton) : list violation := flat_map (entry_exempted sk) (sk_entries sk).

Definition nil_b {A} (xs : list A) : bool := match xs with [] => true | _ => false end.

Definition check_lock_order (sk : skeleton) : bool :=
  forallb (fun p => thread_ord_ok (sk_rank sk) p) (entry_traces sk).
Definition check_locksets (sk : skeleton) : bool :=
  nil_b (violations sk) &&
  forallb (fun p => thread_ls_ok (sk_prot sk) p && atomic_only (sk_atomic sk) p) (entry_traces sk).

(* "any number of threads, each running any sequence of public API entry points" *)
Definition api_thread (sk : skeleton) (p : thread) : Prop :=
  exists es, Forall (fun e => In e (entry_traces sk)) es /\ p = List.concat es.
Definition api_program (sk : skeleton) (P : program) : Prop := Forall (api_thread sk) P.

(* counts for the non-vacuity statements *)
Fixpoint count_nested (w r : list lock) (p : list action) : nat :=
  match p with
  | [] => 0
  | a :: p' =>
      (match a with
       | Acq _ | RAcq _ => match w ++ r with [] => 0 | _ => 1 end
       | _ => 0
       end) + count_nested (updW a w) (updR a r) p'
  end.
Definition nested_acquisitions (sk : skeleton) : nat :=
  list_sum (map (count_nested [] []) (entry_traces sk)).
Definition count_protected (prot : loc -> option lock) (p : list action) : nat :=
  List.length (filter (fun a => match a with
                                | Rd x | Wr x _ => match prot x with Some _ => true | None => false end
                                | _ => false end) p).
Definition protected_accesses (sk : skeleton) : nat :=
  list_sum (map (count_protected (sk_prot sk)) (entry_traces sk)).
(* distinct (function, line) sites of protected accesses, directly in the function bodies *)
Definition protected_sites (sk : skeleton) : nat :=
  list_sum (map (fun f => List.length (filter (fun e => match e with
                      | SAcc fd k _ => match k with KAt => false | _ =>
                           match sk_prot sk fd with Some _ => true | None => false end end
                      | _ => false end) (fn_body f))) (sk_funcs sk)).

(* readable reports (used by Props/C12.v and by bin/gen-skeleton's diagnostics) *)
Definition v_eqb (a b : violation) : bool :=
  Nat.eqb (v_fn a) (v_fn b) && Nat.eqb (v_field a) (v_field b) && Nat.eqb (v_line a) (v_line b).
Fixpoint dedup (vs : list violation) : list violation :=
  match vs with
  | [] => []
  | v :: r => if existsb (v_eqb v) r then dedup r else v :: dedup r
  end.
Definition dummy_func := mkF "?" "?" 0 [].
(* (function, file, line, field, reason) *)
Definition describe (sk : skeleton) (v : violation) : string * string * nat * string * vreason :=
  (fn_name (nth (v_fn v) (sk_funcs sk) dummy_func), fn_file (nth (v_fn v) (sk_funcs sk) dummy_func),
   v_line v,
   match v_why v with
   | VUnbalanced | VRecLockset | VBad => "-"%string
   | _ => fd_name (nth (v_field v) (sk_fields sk) dummy_field)
   end, v_why v).
Definition report_violations (sk : skeleton) := map (describe sk) (dedup (violations sk)).
Definition report_exempted (sk : skeleton) := map (describe sk) (dedup (exempted sk)).
(* policy entries that exempt nothing (stale) *)
Definition stale_policy (sk : skeleton) : list (string * string) :=
  let ex := exempted sk in
  let used (pe : spolicy) := existsb (fun v => Nat.eqb (v_field v) (pe_field pe)) ex in
  map (fun pe => (fn_name (nth (pe_func pe) (sk_funcs sk) dummy_func), fd_name (nth (pe_field pe) (sk_fields sk) dummy_field)))
      (filter (fun pe => negb (used pe)) (sk_allow sk ++ sk_known_unprotected sk)).
