(* Corr.v — replay of muh traces INSIDE Coq (kernel evaluation by vm_compute).  This mirrors what
   ocaml/driver.ml does with the extracted code, so that the extraction + the hand-written OCaml
   glue are cross-checked on every run: bin/check writes a Cases.v with histories and the
   observable lines the real Go code printed (encoded as lists of integers), and evaluates
   `mismatches` here.  Encoding of one trace line: a tag (1 R, 2 S, 3 L, 4 V, 5 ST, 6 DS, 7 IT)
   followed by the integers of the line; E -> -2, P/panic -> -3, "?" -> -4; 8 FL see fl_line. *)
From Coq Require Import ZArith List Bool Lia.
From Arsenal Require Import Util Gran Tlsf.
From Arsenal Require Linear.
Import ListNotations.
Open Scope Z_scope.

Inductive cop :=
| CA (size align atype strat : Z) (upper : bool) (maxoff : Z) (tag : option Z)
| CQ (size align atype strat : Z) (upper : bool) (maxoff : Z)
| CF (k : Z)
| CU (k : Z) (tag : option Z)
| CC
| CM (atype size : Z).

Definition tagz (t : option Z) : Z := match t with None => -1 | Some z => z end.
Definition b2z (b : bool) : Z := if b then 1 else 0.
Definition kindz (k : rkind) : Z := match k with ROk => 0 | RRefused => 1 | RError => 2 | RPanic => 3 end.

Fixpoint lookup (k : Z) (tbl : list (Z * (Z * Z))) : option (Z * Z) :=
  match tbl with
  | [] => None
  | (k', v) :: r => if k' =? k then Some v else lookup k r
  end.

Fixpoint remove_key (k : Z) (tbl : list (Z * (Z * Z))) : list (Z * (Z * Z)) :=
  match tbl with
  | [] => []
  | (k', v) :: r => if k' =? k then r else (k', v) :: remove_key k r
  end.

Definition omz (o : option Z) : Z := match o with None => -1 | Some z => z end.

(* ------------------------------------------------------------------ TLSF *)

Fixpoint indexed_from {A} (i : Z) (l : list A) : list (Z * A) :=
  match l with [] => [] | x :: r => (i, x) :: indexed_from (i + 1) r end.

(* free-list structure, as muh's FL line: 8, first-level bitmap, (class, second-level bitmap)* for the non-zero
   ones, -1, (list index, length, offsets in list order)* for the non-empty lists *)
Definition fl_line (t : tlsf) : list Z :=
  let inner := flat_map (fun cv : Z * N => if (snd cv =? 0)%N then [] else [fst cv; Z.of_N (snd cv)])
                        (indexed_from 0 (t_inner t)) in
  let lists := flat_map (fun il : Z * list Z => match snd il with [] => [] | l => fst il :: zlen l :: l end)
                        (indexed_from 0 (t_lists t)) in
  [8; Z.of_N (t_bitmap t)] ++ inner ++ [-1] ++ lists.

Record tst := mkTst { ts : tlsf; ttbl : list (Z * (Z * Z)); tnext : Z }.

Definition t_obs (s : tst) : list (list Z) :=
  let t := ts s in
  let v := match validate t with Some true => 1 | Some false => 0 | None => 2 end in
  let lline := flat_map (fun e : Z * (Z * Z) =>
                           let '(k, (h, sz)) := e in
                           [k; (match find_blk h (t_chain t) with Some b => b_off b | None => -2 end); sz;
                            (match get_user_data t h with Some tg => tagz tg | None => -2 end)])
                        (ttbl s) in
  let vline := flat_map (fun b => if b_size b =? 0 then [] else [b_off b; b_size b; b2z (b_free b); tagz (b_tag b)])
                        (regions t) in
  let st := add_statistics t in
  let d := add_detailed_statistics t in
  let ds := d_stats d in
  let itline := map (fun h => match find (fun e : Z * (Z * Z) => fst (snd e) =? h) (ttbl s) with
                              | Some e => fst e | None => -4 end) (iterate t) in
  [ [2; allocation_count t; sum_free_size t; b2z (is_empty t); free_regions_count t; v];
    3 :: lline;
    4 :: vline;
    [5; s_blocks st; s_allocs st; s_block_bytes st; s_alloc_bytes st];
    [6; s_blocks ds; s_allocs ds; s_block_bytes ds; s_alloc_bytes ds; d_unused_count d;
        omz (d_alloc_min d); d_alloc_max d; omz (d_unused_min d); d_unused_max d];
    7 :: itline;
    fl_line t ].

(* the table is kept sorted by allocation number (new numbers are appended) *)
Definition t_exec (s : tst) (c : cop) : tst * list Z :=
  match c with
  | CA size align atype strat upper maxoff tag =>
    let '(t', o) := step (ts s) (OAlloc size align atype strat upper maxoff tag) in
    match o_kind o with
    | ROk => (mkTst t' (ttbl s ++ [(tnext s, (o_off o, o_size o))]) (tnext s + 1), [1; 0; o_off o; o_size o])
    | k => (mkTst t' (ttbl s) (tnext s), [1; kindz k])
    end
  | CQ size align atype strat upper maxoff =>
    let '(t', o) := step (ts s) (ORequest size align atype strat upper maxoff) in
    match o_kind o with
    | ROk => (mkTst t' (ttbl s) (tnext s), [1; 0; o_off o; o_size o])
    | k => (mkTst t' (ttbl s) (tnext s), [1; kindz k])
    end
  | CF k =>
    match lookup k (ttbl s) with
    | None => (s, [1; 4])
    | Some (h, _) =>
      let '(t', o) := step (ts s) (OFree h) in
      (mkTst t' (if rkind_eqb (o_kind o) ROk then remove_key k (ttbl s) else ttbl s) (tnext s), [1; kindz (o_kind o)])
    end
  | CU k tag =>
    match lookup k (ttbl s) with
    | None => (s, [1; 4])
    | Some (h, _) =>
      let '(t', o) := step (ts s) (OSetUD h tag) in
      (mkTst t' (ttbl s) (tnext s), [1; kindz (o_kind o)])
    end
  | CC => let '(t', _) := step (ts s) OClear in (mkTst t' [] (tnext s), [1; 0])
  | CM atype size => let '(_, o) := step (ts s) (OMayHave atype size) in (s, [1; 0; o_off o])
  end.

Fixpoint t_run (s : tst) (cs : list cop) : list (list Z) :=
  match cs with
  | [] => []
  | c :: r => let '(s', rl) := t_exec s c in (rl :: t_obs s') ++ t_run s' r
  end.

Definition run_tlsf (vam : bool) (gr size : Z) (cs : list cop) : list (list Z) :=
  t_run (mkTst (tlsf_init (if vam then HVam else HFake) gr size) [] 0) cs.

(* ------------------------------------------------------------------ linear *)

Record lst := mkLst { lsl : Linear.linear; ltbl : list (Z * (Z * Z)); lnext : Z }.

(* stable insertion sort of regions by (offset, size), as muh and the OCaml driver do *)
Definition reg_le (a b : Z * Z * bool * option Z) : bool :=
  let '(oa, sa, _, _) := a in let '(ob, sb, _, _) := b in
  if oa =? ob then sa <=? sb else oa <? ob.
Fixpoint reg_insert (x : Z * Z * bool * option Z) (l : list (Z * Z * bool * option Z)) :=
  match l with
  | [] => [x]
  | y :: r => if reg_le y x then y :: reg_insert x r else x :: l
  end.
Definition reg_sort (l : list (Z * Z * bool * option Z)) := fold_left (fun acc x => reg_insert x acc) l [].

Definition l_obs (s : lst) : list (list Z) :=
  let l := lsl s in
  let v := match Linear.validate l with Some true => 1 | Some false => 0 | None => 2 end in
  let lline := flat_map (fun e : Z * (Z * Z) =>
                           let '(k, (h, sz)) := e in
                           [k; Linear.allocation_offset h; sz;
                            (match Linear.get_user_data l h with
                             | Linear.UDOk tg => tagz tg | Linear.UDError => -2 | Linear.UDPanic => -3 end)])
                        (ltbl s) in
  let vline := match Linear.visit_regions l with
               | None => [-3]
               | Some rs => flat_map (fun r : Z * Z * bool * option Z =>
                                        let '(off, sz, fr, tg) := r in
                                        if sz =? 0 then [] else [off; sz; b2z fr; tagz tg]) (reg_sort rs)
               end in
  let stl := match Linear.add_statistics l with
             | None => [5; -3]
             | Some st => [5; Linear.s_blocks st; Linear.s_allocs st; Linear.s_block_bytes st; Linear.s_alloc_bytes st]
             end in
  let dsl := match Linear.add_detailed_statistics l with
             | None => [6; -3]
             | Some d => let ds := Linear.d_stats d in
                         [6; Linear.s_blocks ds; Linear.s_allocs ds; Linear.s_block_bytes ds; Linear.s_alloc_bytes ds;
                          Linear.d_unused_count d; omz (Linear.d_alloc_min d); Linear.d_alloc_max d;
                          omz (Linear.d_unused_min d); Linear.d_unused_max d]
             end in
  [ [2; Linear.allocation_count l; Linear.sum_free_size l; b2z (Linear.is_empty l); -1; v];
    3 :: lline; 4 :: vline; stl; dsl ].

Definition l_exec (s : lst) (c : cop) : lst * list Z :=
  match c with
  | CA size align atype strat upper maxoff tag =>
    let '(l', o) := Linear.step (lsl s) (Linear.OAlloc size align atype strat upper maxoff tag) in
    match Linear.o_kind o with
    | ROk => (mkLst l' (ltbl s ++ [(lnext s, (Linear.o_off o + 1, Linear.o_size o))]) (lnext s + 1),
              [1; 0; Linear.o_off o; Linear.o_size o])
    | k => (mkLst l' (ltbl s) (lnext s), [1; kindz k])
    end
  | CQ size align atype strat upper maxoff =>
    let '(l', o) := Linear.step (lsl s) (Linear.ORequest size align atype strat upper maxoff) in
    match Linear.o_kind o with
    | ROk => (mkLst l' (ltbl s) (lnext s), [1; 0; Linear.o_off o; Linear.o_size o])
    | k => (mkLst l' (ltbl s) (lnext s), [1; kindz k])
    end
  | CF k =>
    match lookup k (ltbl s) with
    | None => (s, [1; 4])
    | Some (h, _) =>
      let '(l', o) := Linear.step (lsl s) (Linear.OFree h) in
      (mkLst l' (if rkind_eqb (Linear.o_kind o) ROk then remove_key k (ltbl s) else ltbl s) (lnext s),
       [1; kindz (Linear.o_kind o)])
    end
  | CU k tag =>
    match lookup k (ltbl s) with
    | None => (s, [1; 4])
    | Some (h, _) =>
      let '(l', o) := Linear.step (lsl s) (Linear.OSetUD h tag) in
      (mkLst l' (ltbl s) (lnext s), [1; kindz (Linear.o_kind o)])
    end
  | CC => let '(l', _) := Linear.step (lsl s) Linear.OClear in (mkLst l' [] (lnext s), [1; 0])
  | CM atype size => let '(_, o) := Linear.step (lsl s) (Linear.OMayHave atype size) in (s, [1; 0; Linear.o_off o])
  end.

Fixpoint l_run (s : lst) (cs : list cop) : list (list Z) :=
  match cs with
  | [] => []
  | c :: r => let '(s', rl) := l_exec s c in (rl :: l_obs s') ++ l_run s' r
  end.

Definition run_linear (vam : bool) (gr size : Z) (cs : list cop) : list (list Z) :=
  l_run (mkLst (Linear.linear_init (if vam then HVam else HFake) gr size) [] 0) cs.

(* ------------------------------------------------------------------ comparison *)

Fixpoint zlist_eqb (a b : list Z) : bool :=
  match a, b with
  | [], [] => true
  | x :: xs, y :: ys => (x =? y) && zlist_eqb xs ys
  | _, _ => false
  end.

Fixpoint lines_eqb (a b : list (list Z)) : bool :=
  match a, b with
  | [], [] => true
  | x :: xs, y :: ys => zlist_eqb x y && lines_eqb xs ys
  | _, _ => false
  end.

(* a case: (is_linear, vam handler, gran, size, ops, expected lines); result: indices that differ *)
Definition case := (bool * bool * Z * Z * list cop * list (list Z))%type.

Definition case_ok (c : case) : bool :=
  let '(lin, vam, gr, size, ops, expected) := c in
  lines_eqb (if lin then run_linear vam gr size ops else run_tlsf vam gr size ops) expected.

Fixpoint mismatches_from (i : Z) (cs : list case) : list Z :=
  match cs with
  | [] => []
  | c :: r => if case_ok c then mismatches_from (i + 1) r else i :: mismatches_from (i + 1) r
  end.

Definition mismatches (cs : list case) : list Z := mismatches_from 0 cs.
