(* DefragGranProofs.v — the theorems of DefragProofs.v for block lists of ANY buffer-image
   granularity and either granularity handler (vam's blockBufferImageGranularity = HVam, or the
   accept-all handler HFake).  DefragProofs.v is the special case "granularity 1" (kept as it is
   for its users); this file redoes the development with the per-block condition
   `g_g (t_gran t) = 1` replaced by

       bcfg t  :=  g_g (t_gran t) = G  /\  (1 < G -> g_h (t_gran t) = H)  /\  Q t

   (all blocks of a list share the granularity G and, when it matters, the handler H; Q is any
   further per-block invariant that every metadata step with admissible kinds preserves — True for
   the planner theorems, GranTlsf.GInv for the page-table / no-conflicting-kinds-on-a-page
   theorem), and with the fact that an allocation object's size is a fixed point of
   RoundUpAllocRequest for its kind (the block list stores AllocationRequest.Size, as vam does), so
   that the region a move reserves has exactly the allocation's size although RoundUpAllocRequest
   and CheckConflictAndAlignUp act on every request.  Everything else is the same proof. *)
From Coq Require Import ZArith List Bool Lia Permutation.
From Arsenal Require Import Util Bits Gran Tlsf TlsfGeom TlsfInv1 TlsfFree TlsfAlloc TlsfStep TlsfProps
  SizeClass TlsfInv2 TlsfInv2Free TlsfInv2Alloc TlsfSearch TlsfStep2 GranInv GranTlsf Pass PassProofs Defrag.
From Arsenal Require DefragProofs.
Import ListNotations.
Open Scope Z_scope.

(* ================================================================== 1. list helpers *)

Lemma find_id_set_same id t bl t0 : find_id id bl = Some t0 -> find_id id (set_id id t bl) = Some t.
Proof.
  induction bl as [|[i t1] r IH]; cbn; [discriminate|].
  destruct (i =? id) eqn:E; cbn; rewrite E; auto.
Qed.

Lemma find_id_set_other id id' t bl : id' <> id -> find_id id' (set_id id t bl) = find_id id' bl.
Proof.
  intros Hne. induction bl as [|[i t1] r IH]; cbn; [reflexivity|].
  destruct (i =? id) eqn:E; cbn.
  - apply Z.eqb_eq in E. subst i. destruct (id =? id') eqn:E2; [apply Z.eqb_eq in E2; congruence|reflexivity].
  - destruct (i =? id'); auto.
Qed.

Lemma set_id_ids id t bl : map fst (set_id id t bl) = map fst bl.
Proof.
  induction bl as [|[i t1] r IH]; cbn; [reflexivity|].
  destruct (i =? id); cbn; congruence.
Qed.

Lemma find_id_some_in id bl t : find_id id bl = Some t -> In id (map fst bl).
Proof.
  induction bl as [|[i t1] r IH]; cbn; [discriminate|].
  destruct (i =? id) eqn:E; [apply Z.eqb_eq in E; auto|auto].
Qed.

Lemma find_id_none id bl : find_id id bl = None -> ~ In id (map fst bl).
Proof.
  induction bl as [|[i t1] r IH]; cbn; [tauto|].
  destruct (i =? id) eqn:E; [discriminate|]. apply Z.eqb_neq in E. intros H [H1|H1]; [congruence|]. apply IH; auto.
Qed.

Lemma in_ids_find id bl : In id (map fst bl) -> exists t, find_id id bl = Some t.
Proof.
  intros H. destruct (find_id id bl) eqn:E; [eauto|]. apply find_id_none in E. tauto.
Qed.

Lemma find_set_id id id' t bl t0 :
  find_id id bl = Some t0 ->
  find_id id' (set_id id t bl) = if id' =? id then Some t else find_id id' bl.
Proof.
  intros H. destruct (id' =? id) eqn:E.
  - apply Z.eqb_eq in E. subst. eapply find_id_set_same; eauto.
  - apply Z.eqb_neq in E. apply find_id_set_other; auto.
Qed.

Lemma set_id_same id t bl : find_id id bl = Some t -> set_id id t bl = bl.
Proof.
  induction bl as [|[i t1] r IH]; cbn; [reflexivity|].
  destruct (i =? id) eqn:E; [intros H; injection H as ->; reflexivity|]. intros H. rewrite IH by exact H. reflexivity.
Qed.

(* table *)
Lemma entry_lt st s e : entry st s = Some e -> (s < length (d_table st))%nat.
Proof.
  unfold entry. destruct (nth_error _ s) eqn:E; [|discriminate]. intros _.
  apply nth_error_Some. congruence.
Qed.

Lemma entry_app_old bl tb sn x s : (s < length tb)%nat -> entry (mkD bl (tb ++ [x]) sn) s = entry (mkD bl tb sn) s.
Proof. intros H. unfold entry; cbn. rewrite nth_error_app1; auto. Qed.

Lemma entry_app_new bl tb sn x : entry (mkD bl (tb ++ [x]) sn) (length tb) = x.
Proof.
  unfold entry; cbn. rewrite nth_error_app2 by lia. rewrite Nat.sub_diag. cbn. destruct x; reflexivity.
Qed.

Lemma entry_app_ge bl tb sn x s : (length tb < s)%nat -> entry (mkD bl (tb ++ [x]) sn) s = None.
Proof.
  intros H. unfold entry; cbn. destruct (nth_error (tb ++ [x]) s) eqn:E; auto.
  assert (s < length (tb ++ [x]))%nat by (apply nth_error_Some; congruence).
  rewrite app_length in *. cbn in *. lia.
Qed.

Lemma nth_update_same {A} (l : list A) n f : (n < length l)%nat ->
  nth_error (update_nth n f l) n = option_map f (nth_error l n).
Proof.
  revert n; induction l as [|x l IH]; intros n H; cbn in *; [lia|].
  destruct n; cbn; auto. apply IH. lia.
Qed.

Lemma nth_update_other {A} (l : list A) n m f : n <> m -> nth_error (update_nth n f l) m = nth_error l m.
Proof.
  revert n m; induction l as [|x l IH]; intros n m H; cbn; [destruct n; reflexivity|].
  destruct n, m; cbn; auto; try congruence.
Qed.

Lemma update_nth_length {A} (l : list A) n f : length (update_nth n f l) = length l.
Proof. revert n; induction l as [|x l IH]; intros n; cbn; [destruct n; reflexivity|]. destruct n; cbn; auto. Qed.

Lemma entry_set_same st s x : (s < length (d_table st))%nat -> entry (set_entry st s x) s = x.
Proof.
  intros H. unfold entry, set_entry; cbn. rewrite nth_update_same by auto.
  destruct (nth_error (d_table st) s) eqn:E; cbn; [destruct x; reflexivity|].
  apply nth_error_None in E. lia.
Qed.

Lemma entry_set_other st s s' x : s <> s' -> entry (set_entry st s x) s' = entry st s'.
Proof. intros H. unfold entry, set_entry; cbn. rewrite nth_update_other; auto. Qed.

Lemma entry_set_block st id t s : entry (set_block st id t) s = entry st s.
Proof. reflexivity. Qed.

Lemma is_pow2_sound a : is_pow2 a = true -> pow2 a.
Proof.
  unfold is_pow2. intros H. apply andb_prop in H. destruct H as (H1 & H2).
  apply Z.eqb_eq in H2. exists (Z.log2 a). split; [apply Z.log2_nonneg|exact H2].
Qed.

(* ================================================================== 2. TLSF facts in the form used here *)

Lemma live_offs_nodup t : Inv1 t -> NoDup (map b_off (live t)).
Proof.
  intros [Hgeo _ _ _]. unfold live. apply nodup_map_filter. eapply chain_offsets_nodup. apply (g_chain _ Hgeo).
Qed.

Lemma live_off_inj t a b : Inv1 t -> In a (live t) -> In b (live t) -> b_off a = b_off b -> a = b.
Proof.
  intros [Hgeo _ _ _] Ha Hb He.
  destruct (live_in_chain _ _ Ha) as (Ha' & _). destruct (live_in_chain _ _ Hb) as (Hb' & _).
  pose proof (find_blk_unique _ _ _ (g_chain _ Hgeo) Ha') as H1.
  pose proof (find_blk_unique _ _ _ (g_chain _ Hgeo) Hb') as H2. congruence.
Qed.

Lemma get_user_data_live t h tag :
  get_user_data t h = Some tag -> exists b, In b (live t) /\ b_off b = h /\ b_tag b = tag.
Proof.
  unfold get_user_data. destruct (find_blk h (t_chain t)) as [b|] eqn:E; [|discriminate].
  destruct (b_free b) eqn:Hf; [discriminate|]. intros H; injection H as <-.
  apply find_blk_in in E. destruct E as (Hin & Hoff). exists b. split; auto.
  unfold live. apply filter_In. rewrite Hf. auto.
Qed.

Lemma round_up_g1 g kind size align : g_g g = 1 -> round_up g kind size align = (size, align).
Proof. intros H. unfold round_up. rewrite H. destruct (g_h g); reflexivity. Qed.

Lemma live_same_chain t t' : t_chain t' = t_chain t -> live t' = live t.
Proof. unfold live. intros ->. reflexivity. Qed.

(* CreateAllocationRequest followed by Alloc, as the planner and the block list issue them: a
   granted request never panics and Alloc never fails on it (second TLSF invariant); both are
   steps of the TLSF model; the granted size is RoundUpAllocRequest's size *)
Lemma request_alloc_spec t size align kind strat mo tag t1 r :
  TInv t -> Inv2 t -> pow2 align -> create_request t size align false kind strat mo = QGranted t1 r ->
  TInv t1 /\ Inv2 t1 /\ t_gran t1 = t_gran t /\ live t1 = live t /\ t_size t1 = t_size t /\
  rq_offset r < mo /\ rq_block r <= rq_offset r /\ 1 <= size /\
  rq_size r = fst (round_up (t_gran t) kind size align) /\
  t1 = fst (step t (ORequest size align kind strat false mo)) /\
  exists t2 h, alloc t1 r tag size align = AOk t2 h /\
    TInv t2 /\ Inv2 t2 /\ g_g (t_gran t2) = g_g (t_gran t) /\ g_h (t_gran t2) = g_h (t_gran t) /\
    t2 = fst (step t (OAlloc size align kind strat false mo tag)) /\
    t_size t2 = t_size t /\ h = rq_offset r /\
    exists l1 l2, live t = l1 ++ l2 /\ live t2 = l1 ++ new_blk h (rq_size r) tag kind size align :: l2.
Proof.
  intros HT HI2 Hpa Hcr. pose proof HT as [Hinv Hpg].
  pose proof (step_preserves t (OAlloc size align kind strat false mo tag) HT Hpa) as Hstep.
  pose proof (step2_preserves t (OAlloc size align kind strat false mo tag) HT HI2 Hpa) as Hstep2.
  pose proof (step2_preserves t (ORequest size align kind strat false mo) HT HI2 Hpa) as Hreq2.
  assert (Hreq : t1 = fst (step t (ORequest size align kind strat false mo))) by (cbn [step]; rewrite Hcr; reflexivity).
  assert (Hall0 : forall t2 h, alloc t1 r tag size align = AOk t2 h -> t2 = fst (step t (OAlloc size align kind strat false mo tag))).
  { intros t2 h E. cbn [step]. rewrite Hcr, E. reflexivity. }
  cbn [step] in Hstep, Hstep2, Hreq2. rewrite Hcr in Hstep, Hstep2, Hreq2. cbn [fst] in Hreq2.
  destruct (tlsf_alloc_no_error t size align kind strat false mo tag t1 r HT HI2 Hpa Hcr) as (t2 & h & Hal & _).
  pose proof Hcr as Hcr0.
  apply create_request_granted in Hcr. destruct Hcr as (Hs1 & _ & Hgr).
  pose proof Hgr as Hgr0.
  apply granted_fits in Hgr; auto. destruct Hgr as (Hshape & Hmo & Hty & Hcase).
  pose proof (Inv1_shape _ _ Hshape Hinv) as Hinv1.
  destruct Hshape as (Hc1 & Hn1 & Hsz1 & Hg1 & Ha1).
  assert (HT1 : TInv t1) by (split; [auto|rewrite Hg1; auto]).
  split; [exact HT1|]. split; [exact Hreq2|]. split; [exact Hg1|]. split; [apply live_same_chain; exact Hc1|]. split; [exact Hsz1|].
  split; [exact Hmo|].
  assert (Hlo : rq_block r <= rq_offset r).
  { destruct Hcase as [(Hnull & Hfits)|(Hnull & b & Hin & Hrb & Hbf & Hfits)].
    - destruct Hgr0 as (b & li & Hcb & Hwhere). apply check_block_spec in Hcb.
      destruct Hcb as (_ & Hrb & _ & _ & Hrn & _). rewrite Hnull in Hrn.
      destruct Hwhere as [(-> & ->)|((idx & ->) & _)]; [|discriminate].
      rewrite Hrb. apply (f_lo _ _ _ _ Hfits).
    - rewrite Hrb. apply (f_lo _ _ _ _ Hfits). }
  split; [exact Hlo|]. split; [exact Hs1|].
  split.
  { destruct Hgr0 as (b & li & Hcb & _). apply check_block_spec in Hcb.
    destruct Hcb as (_ & _ & Hrs & _). exact Hrs. }
  split; [exact Hreq|].
  exists t2, h. split; [exact Hal|]. pose proof (Hall0 _ _ Hal) as Hall. rewrite Hal in Hstep, Hstep2.
  cbn [fst snd live_effect o_kind o_off o_size] in Hstep, Hstep2.
  destruct Hstep as (HT2 & Hle & Hsz2).
  destruct (alloc_regions_of_alloc _ _ _ _ _ _ _ Hal) as (_ & Har).
  destruct (alloc_regions_frame _ _ _ _ _ Har) as (Hgg & Hgh & _).
  split; [exact HT2|]. split; [exact Hstep2|]. split; [rewrite Hgg, Hg1; reflexivity|]. split; [rewrite Hgh, Hg1; reflexivity|].
  split; [exact Hall|]. split; [exact Hsz2|].
  assert (Hh : h = rq_offset r).
  { destruct Hcase as [(Hnull & Hfits)|(Hnull & b & Hin & Hrb & Hbf & Hfits)].
    - rewrite <- Hn1 in Hfits.
      destruct (alloc_null_spec _ _ _ _ _ _ _ Hinv1 Hnull Hfits Hal) as (_ & Hh & _). exact Hh.
    - rewrite <- Hc1 in Hin. destruct (in_split _ _ Hin) as (pre & post & Hc).
      destruct (alloc_blk_spec _ _ _ _ _ _ _ _ _ _ Hinv1 Hnull Hc Hrb Hbf Hfits Hal) as (_ & Hh & _). exact Hh. }
  split; [exact Hh|]. exact Hle.
Qed.

(* ================================================================== commits that always succeed *)

(* with the attempt function that always succeeds, the planner with failing commits is the planner
   of DefragProofs.v: same state, same moves, same pass counters, same outcome *)
Definition att_ok {E : Type} : E -> nat -> Z -> E * bool := fun e _ _ => (e, true).

Lemma alloc_in_f_ok E t size align kind strat mo tag (env : E) slot dst :
  fst (fst (alloc_in_f E att_ok t size align kind strat mo tag env slot dst)) = alloc_in t size align kind strat mo tag /\
  snd (fst (alloc_in_f E att_ok t size align kind strat mo tag env slot dst)) = env.
Proof.
  unfold alloc_in_f, alloc_in, att_ok. destruct (create_request _ _ _ _ _ _ _); auto.
  destruct (alloc _ _ _ _ _); auto.
Qed.

Lemma alloc_lower_f_ok E t size align kind off tag (env : E) slot dst :
  fst (fst (alloc_lower_f E att_ok t size align kind off tag env slot dst)) = alloc_lower t size align kind off tag /\
  snd (fst (alloc_lower_f E att_ok t size align kind off tag env slot dst)) = env.
Proof.
  unfold alloc_lower_f, alloc_lower, att_ok. destruct (create_request _ _ _ _ _ _ _); auto.
  destruct (_ <? _); auto. destruct (alloc _ _ _ _ _); auto.
Qed.

Lemma alloc_other_f_ok E cands : forall st size align kind (env : E) slot,
  fst (fst (alloc_other_f E att_ok st cands size align kind env slot)) = alloc_other st cands size align kind /\
  snd (fst (alloc_other_f E att_ok st cands size align kind env slot)) = env.
Proof.
  induction cands as [|[idx id] rest IH]; intros st size align kind env slot; cbn [alloc_other_f alloc_other]; [auto|].
  destruct (find_id id (d_blocks st)) as [t|]; [|auto].
  destruct (may_have_free t kind size); [|apply IH].
  destruct (alloc_in_f_ok E t size align kind 0 max_int (tmp_tag st) env slot id) as (A & B).
  destruct (alloc_in_f E att_ok t size align kind 0 max_int (tmp_tag st) env slot id) as [[a env'] fl].
  cbn [fst snd] in A, B. subst env'. rewrite <- A. destruct a as [t' off|t'|]; [auto| |auto].
  specialize (IH (set_block st id t') size align kind env slot).
  destruct (alloc_other_f E att_ok (set_block st id t') rest size align kind env slot) as [[r env''] lg]. exact IH.
Qed.

Lemma lower_if_f_ok E cs bi id h slot e (env : E) :
  res_f (lower_if_f E att_ok cs bi id h slot e env) = lower_if cs bi id h slot e /\
  env_f (lower_if_f E att_ok cs bi id h slot e env) = env.
Proof.
  unfold lower_if_f, lower_if. destruct (find_id _ _) as [t|]; [|auto].
  destruct (_ && _); [|auto]. unfold try_lower_f, try_lower.
  destruct (alloc_lower_f_ok E t (u_size e) (u_align e) (u_kind e) h (tmp_tag (cs_st cs)) env slot id) as (A & B).
  destruct (alloc_lower_f E att_ok t (u_size e) (u_align e) (u_kind e) h (tmp_tag (cs_st cs)) env slot id) as [[a env'] fl].
  cbn [fst snd] in A, B. subst env'. rewrite <- A. destruct a as [t' off|t'|]; [|auto|auto].
  destruct (commit_move _ _ _ _ _ _ _ _) as [cs' r]. auto.
Qed.

Lemma handle_alloc_f_ok E algo ix cs bi id h slot e (env : E) :
  res_f (handle_alloc_f E att_ok algo ix cs bi id h slot e env) = handle_alloc algo ix cs bi id h slot e /\
  env_f (handle_alloc_f E att_ok algo ix cs bi id h slot e env) = env.
Proof.
  unfold handle_alloc_f, handle_alloc. destruct (algo =? 0); [apply lower_if_f_ok|].
  destruct (alloc_other_f_ok E (firstn (Z.to_nat bi) ix) (cs_st cs) (u_size e) (u_align e) (u_kind e) env slot) as (A & B).
  destruct (algo =? 1).
  - destruct (bi =? 0); [auto|].
    destruct (alloc_other_f E att_ok (cs_st cs) _ _ _ _ env slot) as [[a env'] lg]. cbn [fst snd] in A, B. subst env'. rewrite <- A.
    destruct a as [st' idx did off|st'|st']; [|auto|auto]. destruct (commit_move _ _ _ _ _ _ _ _) as [cs' r]. auto.
  - destruct (0 <? bi); [|apply lower_if_f_ok].
    destruct (alloc_other_f E att_ok (cs_st cs) _ _ _ _ env slot) as [[a env'] lg]. cbn [fst snd] in A, B. subst env'. rewrite <- A.
    destruct a as [st' idx did off|st'|st']; [|  |auto].
    + destruct (commit_move _ _ _ _ _ _ _ _) as [cs' r]. auto.
    + destruct (lower_if_f_ok E (cs_set_st cs st') bi id h slot e env) as (C & D).
      destruct (lower_if_f E att_ok (cs_set_st cs st') bi id h slot e env) as [[[cs' env''] lg2] r]. exact (conj C D).
Qed.

Lemma visit_f_ok E algo ix cs bi id h (env : E) :
  res_f (visit_f E att_ok algo ix cs bi id h env) = visit algo ix cs bi id h /\
  env_f (visit_f E att_ok algo ix cs bi id h env) = env.
Proof.
  unfold visit_f, visit. destruct (find_id _ _) as [t|]; [|auto].
  destruct (get_move_data _ _ _) as [| |slot e]; auto.
  destruct (check_counters _ _) as [p1 c0]. destruct c0; auto. apply handle_alloc_f_ok.
Qed.

Lemma walk_block_f_ok E fuel algo ix : forall cs bi id h (env : E),
  res_f (walk_block_f E att_ok fuel algo ix cs bi id h env) = walk_block fuel algo ix cs bi id h /\
  env_f (walk_block_f E att_ok fuel algo ix cs bi id h env) = env.
Proof.
  induction fuel as [|f IH]; intros cs bi id h env; cbn [walk_block_f walk_block]; [auto|].
  destruct (visit_f_ok E algo ix cs bi id h env) as (A & B).
  destruct (visit_f E att_ok algo ix cs bi id h env) as [[[cs' env'] lg] r]. unfold res_f, env_f in A, B. cbn [fst snd] in A, B.
  subst env'. rewrite <- A. destruct r; auto.
  destruct (find_id _ _) as [t'|]; [|auto]. destruct (next_alloc t' h) as [h'|]; [|auto].
  specialize (IH cs' bi id h' env). destruct (walk_block_f E att_ok f algo ix cs' bi id h' env) as [[[cs'' env''] lg2] r2]. exact IH.
Qed.

Lemma walk_blocks_f_ok E fuel algo ix srcs : forall cs (env : E),
  res_f (walk_blocks_f E att_ok fuel algo ix cs srcs env) = walk_blocks fuel algo ix cs srcs /\
  env_f (walk_blocks_f E att_ok fuel algo ix cs srcs env) = env.
Proof.
  induction srcs as [|[bi id] rest IH]; intros cs env; cbn [walk_blocks_f walk_blocks]; [auto|].
  destruct (find_id _ _) as [t|]; [|auto]. destruct (list_begin t) as [|h|]; [apply IH| |auto].
  destruct (walk_block_f_ok E fuel algo ix cs bi id h env) as (A & B).
  destruct (walk_block_f E att_ok fuel algo ix cs bi id h env) as [[[cs' env'] lg] r]. unfold res_f, env_f in A, B. cbn [fst snd] in A, B.
  subst env'. rewrite <- A. destruct r; auto.
  specialize (IH cs' env). destruct (walk_blocks_f E att_ok fuel algo ix cs' rest env) as [[[cs'' env''] lg2] r2]. exact IH.
Qed.

Theorem collect_moves_f_all_ok E st c p (env : E) :
  res_f (collect_moves_f E att_ok st c p env) = collect_moves st c p /\
  env_f (collect_moves_f E att_ok st c p env) = env.
Proof.
  unfold collect_moves_f, collect_moves. destruct (1 <? _).
  - destruct (c_algo c =? 1); [apply walk_blocks_f_ok|]. destruct (c_algo c =? 2); [apply walk_blocks_f_ok|auto].
  - destruct (_ && _); [apply walk_blocks_f_ok|auto].
Qed.

(* the same for any attempt function that succeeds on a set P of environments it does not leave
   (att_ok: P = "is env"; the harness protocol's att_list: P = "the failure list is empty") *)
Section AttAlways.
Variable E : Type.
Variable att : E -> nat -> Z -> E * bool.
Variable P : E -> Prop.
Hypothesis att_P : forall e s d, P e -> snd (att e s d) = true /\ P (fst (att e s d)).

Lemma alloc_in_f_P t size align kind strat mo tag env slot dst :
  P env ->
  fst (fst (alloc_in_f E att t size align kind strat mo tag env slot dst)) = alloc_in t size align kind strat mo tag /\
  P (snd (fst (alloc_in_f E att t size align kind strat mo tag env slot dst))).
Proof.
  intros HP. unfold alloc_in_f, alloc_in. destruct (create_request _ _ _ _ _ _ _); auto.
  destruct (att_P env slot dst HP) as (A & B). destruct (att env slot dst) as [env' ok]. cbn [fst snd] in A, B. subst ok.
  destruct (alloc _ _ _ _ _); auto.
Qed.

Lemma alloc_lower_f_P t size align kind off tag env slot dst :
  P env ->
  fst (fst (alloc_lower_f E att t size align kind off tag env slot dst)) = alloc_lower t size align kind off tag /\
  P (snd (fst (alloc_lower_f E att t size align kind off tag env slot dst))).
Proof.
  intros HP. unfold alloc_lower_f, alloc_lower. destruct (create_request _ _ _ _ _ _ _); auto.
  destruct (_ <? _); auto.
  destruct (att_P env slot dst HP) as (A & B). destruct (att env slot dst) as [env' ok]. cbn [fst snd] in A, B. subst ok.
  destruct (alloc _ _ _ _ _); auto.
Qed.

Lemma alloc_other_f_P cands : forall st size align kind env slot,
  P env ->
  fst (fst (alloc_other_f E att st cands size align kind env slot)) = alloc_other st cands size align kind /\
  P (snd (fst (alloc_other_f E att st cands size align kind env slot))).
Proof.
  induction cands as [|[idx id] rest IH]; intros st size align kind env slot HP; cbn [alloc_other_f alloc_other]; [auto|].
  destruct (find_id id (d_blocks st)) as [t|]; [|auto].
  destruct (may_have_free t kind size); [|apply IH; exact HP].
  destruct (alloc_in_f_P t size align kind 0 max_int (tmp_tag st) env slot id HP) as (A & B).
  destruct (alloc_in_f E att t size align kind 0 max_int (tmp_tag st) env slot id) as [[a env'] fl].
  cbn [fst snd] in A, B. rewrite <- A. destruct a as [t' off|t'|]; [auto| |auto].
  specialize (IH (set_block st id t') size align kind env' slot B).
  destruct (alloc_other_f E att (set_block st id t') rest size align kind env' slot) as [[r env''] lg]. exact IH.
Qed.

Lemma lower_if_f_P cs bi id h slot e env :
  P env ->
  res_f (lower_if_f E att cs bi id h slot e env) = lower_if cs bi id h slot e /\
  P (env_f (lower_if_f E att cs bi id h slot e env)).
Proof.
  intros HP. unfold lower_if_f, lower_if. destruct (find_id _ _) as [t|]; [|auto].
  destruct (_ && _); [|auto]. unfold try_lower_f, try_lower.
  destruct (alloc_lower_f_P t (u_size e) (u_align e) (u_kind e) h (tmp_tag (cs_st cs)) env slot id HP) as (A & B).
  destruct (alloc_lower_f E att t (u_size e) (u_align e) (u_kind e) h (tmp_tag (cs_st cs)) env slot id) as [[a env'] fl].
  cbn [fst snd] in A, B. rewrite <- A. destruct a as [t' off|t'|]; [|auto|auto].
  destruct (commit_move _ _ _ _ _ _ _ _) as [cs' r]. auto.
Qed.

Lemma handle_alloc_f_P algo ix cs bi id h slot e env :
  P env ->
  res_f (handle_alloc_f E att algo ix cs bi id h slot e env) = handle_alloc algo ix cs bi id h slot e /\
  P (env_f (handle_alloc_f E att algo ix cs bi id h slot e env)).
Proof.
  intros HP. unfold handle_alloc_f, handle_alloc. destruct (algo =? 0); [apply lower_if_f_P; exact HP|].
  destruct (alloc_other_f_P (firstn (Z.to_nat bi) ix) (cs_st cs) (u_size e) (u_align e) (u_kind e) env slot HP) as (A & B).
  destruct (algo =? 1).
  - destruct (bi =? 0); [auto|].
    destruct (alloc_other_f E att (cs_st cs) _ _ _ _ env slot) as [[a env'] lg]. cbn [fst snd] in A, B. rewrite <- A.
    destruct a as [st' idx did off|st'|st']; [|auto|auto]. destruct (commit_move _ _ _ _ _ _ _ _) as [cs' r]. auto.
  - destruct (0 <? bi); [|apply lower_if_f_P; exact HP].
    destruct (alloc_other_f E att (cs_st cs) _ _ _ _ env slot) as [[a env'] lg]. cbn [fst snd] in A, B. rewrite <- A.
    destruct a as [st' idx did off|st'|st']; [|  |auto].
    + destruct (commit_move _ _ _ _ _ _ _ _) as [cs' r]. auto.
    + destruct (lower_if_f_P (cs_set_st cs st') bi id h slot e env' B) as (C & D).
      destruct (lower_if_f E att (cs_set_st cs st') bi id h slot e env') as [[[cs' env''] lg2] r]. exact (conj C D).
Qed.

Lemma visit_f_P algo ix cs bi id h env :
  P env ->
  res_f (visit_f E att algo ix cs bi id h env) = visit algo ix cs bi id h /\
  P (env_f (visit_f E att algo ix cs bi id h env)).
Proof.
  intros HP. unfold visit_f, visit. destruct (find_id _ _) as [t|]; [|auto].
  destruct (get_move_data _ _ _) as [| |slot e]; auto.
  destruct (check_counters _ _) as [p1 c0]. destruct c0; auto. apply handle_alloc_f_P. exact HP.
Qed.

Lemma walk_block_f_P fuel algo ix : forall cs bi id h env,
  P env ->
  res_f (walk_block_f E att fuel algo ix cs bi id h env) = walk_block fuel algo ix cs bi id h /\
  P (env_f (walk_block_f E att fuel algo ix cs bi id h env)).
Proof.
  induction fuel as [|f IH]; intros cs bi id h env HP; cbn [walk_block_f walk_block]; [auto|].
  destruct (visit_f_P algo ix cs bi id h env HP) as (A & B).
  destruct (visit_f E att algo ix cs bi id h env) as [[[cs' env'] lg] r]. unfold res_f, env_f in A, B. cbn [fst snd] in A, B.
  rewrite <- A. destruct r; auto.
  destruct (find_id _ _) as [t'|]; [|auto]. destruct (next_alloc t' h) as [h'|]; [|auto].
  specialize (IH cs' bi id h' env' B). destruct (walk_block_f E att f algo ix cs' bi id h' env') as [[[cs'' env''] lg2] r2]. exact IH.
Qed.

Lemma walk_blocks_f_P fuel algo ix srcs : forall cs env,
  P env ->
  res_f (walk_blocks_f E att fuel algo ix cs srcs env) = walk_blocks fuel algo ix cs srcs /\
  P (env_f (walk_blocks_f E att fuel algo ix cs srcs env)).
Proof.
  induction srcs as [|[bi id] rest IH]; intros cs env HP; cbn [walk_blocks_f walk_blocks]; [auto|].
  destruct (find_id _ _) as [t|]; [|auto]. destruct (list_begin t) as [|h|]; [apply IH; exact HP| |auto].
  destruct (walk_block_f_P fuel algo ix cs bi id h env HP) as (A & B).
  destruct (walk_block_f E att fuel algo ix cs bi id h env) as [[[cs' env'] lg] r]. unfold res_f, env_f in A, B. cbn [fst snd] in A, B.
  rewrite <- A. destruct r; auto.
  specialize (IH cs' env' B). destruct (walk_blocks_f E att fuel algo ix cs' rest env') as [[[cs'' env''] lg2] r2]. exact IH.
Qed.

Theorem collect_moves_f_P st c p env :
  P env ->
  res_f (collect_moves_f E att st c p env) = collect_moves st c p /\ P (env_f (collect_moves_f E att st c p env)).
Proof.
  intros HP. unfold collect_moves_f, collect_moves. destruct (1 <? _).
  - destruct (c_algo c =? 1); [apply walk_blocks_f_P; exact HP|]. destruct (c_algo c =? 2); [apply walk_blocks_f_P; exact HP|auto].
  - destruct (_ && _); [apply walk_blocks_f_P; exact HP|auto].
Qed.
End AttAlways.

(* the protocol with refused commits, started without a failure list, is the protocol of wstep *)
Lemma att_list_P e s d : snd e = [] -> snd (att_list e s d) = true /\ snd (fst (att_list e s d)) = [].
Proof. destruct e as [n l]. cbn [snd]. intros ->. split; reflexivity. Qed.

Theorem wstep_f_no_failures w o :
  fst (fst (wstep_f (mkWf w []) (OpF o))) = mkWf (fst (wstep w o)) [] /\
  snd (fst (wstep_f (mkWf w []) (OpF o))) = snd (wstep w o).
Proof.
  destruct o as [id size align kind tag|slot|algo mb ma reuse| |ds ord|];
    try (cbn [wstep_f wf_w wf_fail]; destruct (wstep w _) as [w' out]; split; reflexivity).
  cbn [wstep_f wf_w wf_fail]. unfold wstep.
  destruct (w_dead w); [split; reflexivity|].
  destruct (negb (w_begun w)); [split; reflexivity|].
  destruct (w_open w); [split; reflexivity|].
  destruct (w_ctx w) as [c|]; [|split; reflexivity].
  destruct (collect_moves_f_P (nat * list Z) att_list (fun e => snd e = []) att_list_P (w_st w) c
              (pass_init (lim (w_max_bytes w)) (lim (w_max_allocs w))) (O, []) eq_refl) as (A & _).
  destruct (collect_moves_f (nat * list Z) att_list (w_st w) c _ (O, [])) as [[[cs env'] lg] r].
  unfold res_f in A. cbn [fst snd] in A. rewrite <- A. destruct r; split; reflexivity.
Qed.

(* ------------------------------------------------------------------ the indexed block list *)

Lemma indexed_from_in a ids idx id :
  In (idx, id) (indexed_from a ids) -> a <= idx < a + zlen ids /\ In id ids.
Proof.
  revert a; induction ids as [|x r IH]; intros a; cbn; [tauto|].
  unfold zlen in *. cbn [length]. intros [H|H].
  - injection H as <- <-. split; [lia|auto].
  - apply IH in H. split; [lia|tauto].
Qed.

Lemma indexed_from_firstn a ids n idx id :
  In (idx, id) (firstn n (indexed_from a ids)) -> a <= idx < a + Z.of_nat n /\ In (idx, id) (indexed_from a ids).
Proof.
  revert a n; induction ids as [|x r IH]; intros a n; cbn.
  - rewrite firstn_nil. cbn. tauto.
  - destruct n as [|n]; cbn; [tauto|]. intros [H|H].
    + injection H as <- <-. split; [lia|auto].
    + apply IH in H. split; [lia|tauto].
Qed.

Lemma indexed_from_idx_fun a ids idx id1 id2 :
  In (idx, id1) (indexed_from a ids) -> In (idx, id2) (indexed_from a ids) -> id1 = id2.
Proof.
  revert a; induction ids as [|x r IH]; intros a; cbn; [tauto|]. intros [H1|H1] [H2|H2].
  - congruence.
  - injection H1 as <- <-. apply indexed_from_in in H2. lia.
  - injection H2 as <- <-. apply indexed_from_in in H1. lia.
  - eapply IH; eauto.
Qed.

Lemma indexed_from_id_fun a ids idx1 idx2 id :
  NoDup ids -> In (idx1, id) (indexed_from a ids) -> In (idx2, id) (indexed_from a ids) -> idx1 = idx2.
Proof.
  revert a; induction ids as [|x r IH]; intros a Hnd; cbn; [tauto|].
  inversion Hnd as [|? ? Hn Hr]; subst. intros [H1|H1] [H2|H2].
  - congruence.
  - injection H1 as <- <-. apply indexed_from_in in H2. tauto.
  - injection H2 as <- <-. apply indexed_from_in in H1. tauto.
  - eapply IH; eauto.
Qed.

(* indices strictly decrease along the reversed list *)
Definition idx_desc (l : list (Z * Z)) : Prop :=
  forall pre x post, l = pre ++ x :: post -> forall y, In y post -> fst y < fst x.

Lemma indexed_from_asc a ids pre x post :
  indexed_from a ids = pre ++ x :: post -> forall y, In y pre -> fst y < fst x.
Proof.
  revert a pre; induction ids as [|i r IH]; intros a pre H y Hy; cbn in H.
  - destruct pre; discriminate.
  - destruct pre as [|p pre]; [destruct Hy|]. cbn in H. injection H as <- H.
    destruct Hy as [<-|Hy].
    + cbn. assert (Hx : In x (indexed_from (a + 1) r)) by (rewrite H; apply in_or_app; right; left; reflexivity).
      destruct x as [xi xid]. apply indexed_from_in in Hx. cbn. lia.
    + eapply IH; eauto.
Qed.

Lemma skipn_split {A} n (l : list A) : l = firstn n l ++ skipn n l.
Proof. symmetry. apply firstn_skipn. Qed.

Lemma srcs_desc a ids n : idx_desc (rev (skipn n (indexed_from a ids))).
Proof.
  intros pre x post H y Hy.
  assert (Hr : skipn n (indexed_from a ids) = rev post ++ x :: rev pre).
  { rewrite <- (rev_involutive (skipn n _)), H, rev_app_distr. cbn. rewrite <- app_assoc. reflexivity. }
  assert (Hfull : indexed_from a ids = (firstn n (indexed_from a ids) ++ rev post) ++ x :: rev pre).
  { rewrite <- app_assoc, <- Hr. apply skipn_split. }
  eapply indexed_from_asc; [exact Hfull|]. apply in_or_app. right. apply in_rev in Hy. exact Hy.
Qed.

Lemma srcs_in a ids n x : In x (rev (skipn n (indexed_from a ids))) -> In x (indexed_from a ids).
Proof.
  intros H. apply in_rev in H. rewrite (skipn_split n (indexed_from a ids)). apply in_or_app. auto.
Qed.

Lemma idx_desc_tail x l : idx_desc (x :: l) -> idx_desc l /\ forall y, In y l -> fst y < fst x.
Proof.
  intros H. split.
  - intros pre z post Hl y Hy. eapply (H (x :: pre)); [rewrite Hl; reflexivity|exact Hy].
  - intros y Hy. eapply (H []); [reflexivity|exact Hy].
Qed.


(* ------------------------------------------------------------------ the attempt log; sources come from the walked blocks only *)

Lemma log_moves_app a b : log_moves (a ++ b) = log_moves a ++ log_moves b.
Proof. induction a as [|[s d|m] a IH]; cbn [app log_moves]; [reflexivity|exact IH|rewrite IH; reflexivity]. Qed.

Lemma commit_move_moves cs st' slot e bi dstidx did off :
  cs_moves (fst (commit_move cs st' slot e bi dstidx did off)) = cs_moves cs ++ [commit_mv st' slot e bi dstidx did off].
Proof. unfold commit_move, commit_mv. destruct (increment_counters _ _) as [p' r]. reflexivity. Qed.

Lemma skipn_indexed_ge n : forall a ids i id, In (i, id) (skipn n (indexed_from a ids)) -> a + Z.of_nat n <= i.
Proof.
  induction n as [|n IH]; intros a ids i id Hin.
  - cbn in Hin. apply indexed_from_in in Hin. lia.
  - destruct ids as [|x r]; [destruct Hin|]. cbn in Hin. apply IH in Hin. lia.
Qed.

Section AttLog.
Variable Env : Type.
Variable att : Env -> nat -> Z -> Env * bool.

(* what one step of the walk at block index bi does to the move list, as told by its log: the moves
   appended are the successful attempts, in order; they come from block index bi; every attempt
   (failed or not) went to a block of the list *)
Definition log_ext (bi : Z) (ids : list Z) (cs : cstate) (X : (cstate * Env * list attempt) * wres) : Prop :=
  cs_moves (fst (res_f X)) = cs_moves cs ++ log_moves (log_f X) /\
  Forall (fun m => m_srcidx m = bi) (log_moves (log_f X)) /\
  Forall (fun a => In (at_dst a) ids) (log_f X).

Lemma log_ext_nil bi ids cs cs' env r : cs_moves cs' = cs_moves cs -> log_ext bi ids cs ((cs', env, []), r).
Proof.
  intros Hm. unfold log_ext, res_f, log_f; cbn [fst snd log_moves]. rewrite app_nil_r.
  split; [exact Hm|]. split; constructor.
Qed.

Lemma alloc_other_f_log ids cands : forall st size align kind env slot,
  (forall i id, In (i, id) cands -> In id ids) ->
  log_moves (snd (alloc_other_f Env att st cands size align kind env slot)) = [] /\
  Forall (fun a => In (at_dst a) ids) (snd (alloc_other_f Env att st cands size align kind env slot)) /\
  match fst (fst (alloc_other_f Env att st cands size align kind env slot)) with
  | AOFound _ _ did _ => In did ids
  | _ => True
  end.
Proof.
  induction cands as [|[idx id] rest IH]; intros st size align kind env slot Hc; cbn [alloc_other_f].
  - cbn. split; [reflexivity|]. split; [constructor|exact I].
  - assert (Hc' : forall i id0, In (i, id0) rest -> In id0 ids) by (intros i id0 Hin; eapply Hc; right; exact Hin).
    assert (Hid : In id ids) by (eapply Hc; left; reflexivity).
    destruct (find_id id (d_blocks st)) as [t|]; [|cbn; split; [reflexivity|split; [constructor|exact I]]].
    destruct (may_have_free t kind size); [|apply IH; exact Hc'].
    destruct (alloc_in_f Env att t size align kind 0 max_int (tmp_tag st) env slot id) as [[a env'] fl].
    destruct a as [t' off|t'|]; [cbn; split; [reflexivity|split; [constructor|exact Hid]]| |cbn; split; [reflexivity|split; [constructor|exact I]]].
    specialize (IH (set_block st id t') size align kind env' slot Hc').
    destruct (alloc_other_f Env att (set_block st id t') rest size align kind env' slot) as [[r env''] lg].
    cbn [fst snd] in IH |- *. destruct IH as (A & B & C). split; [|split; [|exact C]].
    + rewrite log_moves_app, A. destruct fl; reflexivity.
    + apply Forall_app. split; [|exact B]. destruct fl; cbn [fail_log]; [constructor; [exact Hid|constructor]|constructor].
Qed.

Lemma lower_if_f_log ids cs bi id h slot e env :
  In id ids -> log_ext bi ids cs (lower_if_f Env att cs bi id h slot e env).
Proof.
  intros Hid. unfold lower_if_f. destruct (find_id _ _) as [t|]; [|apply log_ext_nil; reflexivity].
  destruct (_ && _); [|apply log_ext_nil; reflexivity]. unfold try_lower_f.
  destruct (alloc_lower_f Env att t _ _ _ _ _ env slot id) as [[a env'] fl].
  destruct a as [t' off|t'|]; [| |apply log_ext_nil; reflexivity].
  - pose proof (commit_move_moves cs (set_block (cs_st cs) id t') slot e bi bi id off) as Hm.
    destruct (commit_move cs (set_block (cs_st cs) id t') slot e bi bi id off) as [cs' r]. cbn [fst] in Hm.
    unfold log_ext, res_f, log_f; cbn [fst snd log_moves]. split; [exact Hm|].
    split; constructor; [reflexivity|constructor|exact Hid|constructor].
  - unfold log_ext, res_f, log_f; cbn [fst snd cs_set_st cs_moves].
    destruct fl; cbn [fail_log log_moves]; rewrite app_nil_r; (split; [reflexivity|]); (split; [constructor|]).
    + constructor; [exact Hid|constructor].
    + constructor.
Qed.

Lemma handle_alloc_f_log algo ids cs bi id h slot e env :
  In id ids -> log_ext bi ids cs (handle_alloc_f Env att algo (indexed_from 0 ids) cs bi id h slot e env).
Proof.
  intros Hid. unfold handle_alloc_f. destruct (algo =? 0); [apply lower_if_f_log; exact Hid|].
  assert (Hc : forall i id0, In (i, id0) (firstn (Z.to_nat bi) (indexed_from 0 ids)) -> In id0 ids).
  { intros i id0 Hin. apply indexed_from_firstn in Hin. destruct Hin as (_ & Hin). apply indexed_from_in in Hin. tauto. }
  pose proof (alloc_other_f_log ids _ (cs_st cs) (u_size e) (u_align e) (u_kind e) env slot Hc) as Hl.
  destruct (alloc_other_f Env att (cs_st cs) (firstn (Z.to_nat bi) (indexed_from 0 ids)) (u_size e) (u_align e) (u_kind e) env slot) as [[a env'] lg].
  cbn [fst snd] in Hl. destruct Hl as (L1 & L2 & L3).
  assert (Hfound : forall st' idx did off, In did ids ->
            log_ext bi ids cs (let '(cs', r) := commit_move cs st' slot e bi idx did off in
                               ((cs', env', lg ++ [AtOk (commit_mv st' slot e bi idx did off)]), r))).
  { intros st' idx did off Hd. pose proof (commit_move_moves cs st' slot e bi idx did off) as Hm.
    destruct (commit_move cs st' slot e bi idx did off) as [cs' r]. cbn [fst] in Hm.
    unfold log_ext, res_f, log_f; cbn [fst snd]. rewrite log_moves_app, L1. cbn [app log_moves].
    split; [exact Hm|]. split; [constructor; [reflexivity|constructor]|].
    apply Forall_app. split; [exact L2|constructor; [exact Hd|constructor]]. }
  assert (Hnone : forall st' r, log_ext bi ids cs ((cs_set_st cs st', env', lg), r)).
  { intros st' r. unfold log_ext, res_f, log_f; cbn [fst snd cs_set_st cs_moves]. rewrite L1, app_nil_r.
    split; [reflexivity|]. split; [constructor|exact L2]. }
  destruct (algo =? 1).
  - destruct (bi =? 0); [apply log_ext_nil; reflexivity|].
    destruct a as [st' idx did off|st'|st']; [apply Hfound; exact L3|apply Hnone|apply Hnone].
  - destruct (0 <? bi); [|apply lower_if_f_log; exact Hid].
    destruct a as [st' idx did off|st'|st']; [apply Hfound; exact L3| |apply Hnone].
    pose proof (lower_if_f_log ids (cs_set_st cs st') bi id h slot e env' Hid) as (M1 & M2 & M3).
    destruct (lower_if_f Env att (cs_set_st cs st') bi id h slot e env') as [[[cs' env''] lg2] r].
    unfold log_ext, res_f, log_f in *; cbn [fst snd cs_set_st cs_moves] in *. rewrite log_moves_app, L1. cbn [app].
    split; [exact M1|]. split; [exact M2|apply Forall_app; auto].
Qed.

Lemma visit_f_log algo ids cs bi id h env :
  In id ids -> log_ext bi ids cs (visit_f Env att algo (indexed_from 0 ids) cs bi id h env).
Proof.
  intros Hid. unfold visit_f. destruct (find_id _ _); [|apply log_ext_nil; reflexivity].
  destruct (get_move_data _ _ _) as [| |slot e]; try (apply log_ext_nil; reflexivity).
  destruct (check_counters _ _) as [p1 c0]. destruct c0; try (apply log_ext_nil; reflexivity).
  destruct (handle_alloc_f_log algo ids (cs_set_pass cs p1) bi id h slot e env Hid) as (A & B & C).
  split; [exact A|]. auto.
Qed.

Lemma walk_block_f_log fuel algo ids : forall cs bi id h env,
  In id ids -> log_ext bi ids cs (walk_block_f Env att fuel algo (indexed_from 0 ids) cs bi id h env).
Proof.
  induction fuel as [|f IH]; intros cs bi id h env Hid; cbn [walk_block_f]; [apply log_ext_nil; reflexivity|].
  destruct (visit_f_log algo ids cs bi id h env Hid) as (A & B & C).
  destruct (visit_f Env att algo (indexed_from 0 ids) cs bi id h env) as [[[cs' env'] lg] r].
  unfold res_f, log_f in A, B, C; cbn [fst snd] in A, B, C.
  assert (Hhere : forall r0, log_ext bi ids cs ((cs', env', lg), r0)) by (intros r0; split; [exact A|split; [exact B|exact C]]).
  destruct r; [|apply Hhere|apply Hhere].
  destruct (find_id _ _); [|apply Hhere]. destruct (next_alloc _ _) as [h'|]; [|apply Hhere].
  destruct (IH cs' bi id h' env' Hid) as (A2 & B2 & C2).
  destruct (walk_block_f Env att f algo (indexed_from 0 ids) cs' bi id h' env') as [[[cs'' env''] lg2] r2].
  unfold log_ext, res_f, log_f in *; cbn [fst snd] in *. rewrite log_moves_app.
  split; [rewrite A2, A, app_assoc; reflexivity|]. split; apply Forall_app; auto.
Qed.

Lemma walk_blocks_f_log fuel algo ids srcs : forall cs env,
  (forall x, In x srcs -> In (snd x) ids) ->
  let X := walk_blocks_f Env att fuel algo (indexed_from 0 ids) cs srcs env in
  cs_moves (fst (res_f X)) = cs_moves cs ++ log_moves (log_f X) /\
  Forall (fun m => exists x, In x srcs /\ m_srcidx m = fst x) (log_moves (log_f X)) /\
  Forall (fun a => In (at_dst a) ids) (log_f X).
Proof.
  induction srcs as [|[bi id] rest IH]; intros cs env Hs; cbn [walk_blocks_f].
  - unfold res_f, log_f; cbn. rewrite app_nil_r. split; [reflexivity|]. split; constructor.
  - assert (Hs' : forall x, In x rest -> In (snd x) ids) by (intros x Hx; apply Hs; right; exact Hx).
    assert (Hid : In id ids) by (apply (Hs (bi, id)); left; reflexivity).
    assert (Hnil : forall r0, let X := ((cs, env, @nil attempt), r0) in
              cs_moves (fst (res_f X)) = cs_moves cs ++ log_moves (log_f X) /\
              Forall (fun m => exists x, In x ((bi, id) :: rest) /\ m_srcidx m = fst x) (log_moves (log_f X)) /\
              Forall (fun a => In (at_dst a) ids) (log_f X)).
    { intros r0. unfold res_f, log_f; cbn. rewrite app_nil_r. split; [reflexivity|]. split; constructor. }
    assert (Hweak : forall l, Forall (fun m => exists x, In x rest /\ m_srcidx m = fst x) l ->
                              Forall (fun m => exists x, In x ((bi, id) :: rest) /\ m_srcidx m = fst x) l).
    { intros l. apply Forall_impl. intros m (x & Hx & Ex). exists x. split; [right; exact Hx|exact Ex]. }
    destruct (find_id _ _); [|apply Hnil]. destruct (list_begin _) as [|h|]; [| |apply Hnil].
    + destruct (IH cs env Hs') as (A & B & C). split; [exact A|]. split; [apply Hweak; exact B|exact C].
    + destruct (walk_block_f_log fuel algo ids cs bi id h env Hid) as (A & B & C).
      destruct (walk_block_f Env att fuel algo (indexed_from 0 ids) cs bi id h env) as [[[cs' env'] lg] r].
      unfold res_f, log_f in A, B, C; cbn [fst snd] in A, B, C.
      assert (Hb : Forall (fun m => exists x, In x ((bi, id) :: rest) /\ m_srcidx m = fst x) (log_moves lg)).
      { eapply Forall_impl; [|exact B]. intros m Hm. exists (bi, id). split; [left; reflexivity|exact Hm]. }
      destruct r; [|unfold res_f, log_f; cbn [fst snd]; auto|unfold res_f, log_f; cbn [fst snd]; auto].
      destruct (IH cs' env' Hs') as (A2 & B2 & C2).
      destruct (walk_blocks_f Env att fuel algo (indexed_from 0 ids) cs' rest env') as [[[cs'' env''] lg2] r2].
      unfold res_f, log_f in *; cbn [fst snd] in *. rewrite log_moves_app.
      split; [rewrite A2, A, app_assoc; reflexivity|]. split; apply Forall_app; auto.
Qed.

(* the log of a pass: its successful attempts, in order, are exactly the moves the pass appended;
   every attempt went to a block of the list; every new move comes from a block at or after
   immovableBlockCount *)
Theorem collect_moves_f_log st c p env :
  0 <= c_immovable c ->
  let X := collect_moves_f Env att st c p env in
  cs_moves (fst (res_f X)) = c_moves c ++ log_moves (log_f X) /\
  Forall (fun a => In (at_dst a) (map fst (d_blocks st))) (log_f X) /\
  Forall (fun m => c_immovable c <= m_srcidx m) (log_moves (log_f X)).
Proof.
  intros Himm. unfold collect_moves_f.
  assert (Hw : forall algo,
    let X := walk_blocks_f Env att (walk_fuel st) algo (indexed st) (mkCS st (c_moves c) p)
                           (rev (skipn (Z.to_nat (c_immovable c)) (indexed st))) env in
    cs_moves (fst (res_f X)) = c_moves c ++ log_moves (log_f X) /\
    Forall (fun a => In (at_dst a) (map fst (d_blocks st))) (log_f X) /\
    Forall (fun m => c_immovable c <= m_srcidx m) (log_moves (log_f X))).
  { intros algo. unfold indexed.
    destruct (walk_blocks_f_log (walk_fuel st) algo (map fst (d_blocks st))
                (rev (skipn (Z.to_nat (c_immovable c)) (indexed_from 0 (map fst (d_blocks st))))) (mkCS st (c_moves c) p) env)
      as (A & B & C).
    { intros [i id] Hx. apply srcs_in in Hx. apply indexed_from_in in Hx. tauto. }
    cbn [cs_moves] in A. split; [exact A|]. split; [exact C|].
    eapply Forall_impl; [|exact B]. intros m ([i id] & Hx & Ex). apply in_rev in Hx.
    apply skipn_indexed_ge in Hx. rewrite Ex. cbn [fst]. rewrite Z2Nat.id in Hx by lia. lia. }
  assert (Hnil : forall r0, let X := ((mkCS st (c_moves c) p, env, @nil attempt), r0) in
    cs_moves (fst (res_f X)) = c_moves c ++ log_moves (log_f X) /\
    Forall (fun a => In (at_dst a) (map fst (d_blocks st))) (log_f X) /\
    Forall (fun m => c_immovable c <= m_srcidx m) (log_moves (log_f X))).
  { intros r0. unfold res_f, log_f; cbn. rewrite app_nil_r. split; [reflexivity|]. split; constructor. }
  destruct (1 <? zlen (d_blocks st)).
  - destruct (c_algo c =? 1); [apply Hw|]. destruct (c_algo c =? 2); [apply Hw|apply Hnil].
  - destruct (_ && _); [apply Hw|apply Hnil].
Qed.

End AttLog.

(* ------------------------------------------------------------------ the attempt function along the log *)

Definition at_slot (a : attempt) : nat := match a with AtFail s _ => s | AtOk m => m_src m end.

Section Trace.
Variable E : Type.
Variable att : E -> nat -> Z -> E * bool.

(* att folded over a log: consulted once per entry, in order, with the entry's source slot and
   destination block; the entry is AtOk exactly when att answered true *)
Inductive strace : E -> list attempt -> E -> Prop :=
| st_nil e : strace e [] e
| st_fail e s d tl e' : snd (att e s d) = false -> strace (fst (att e s d)) tl e' -> strace e (AtFail s d :: tl) e'
| st_ok e m tl e' : snd (att e (m_src m) (m_dstblk m)) = true -> strace (fst (att e (m_src m) (m_dstblk m))) tl e' ->
                    strace e (AtOk m :: tl) e'.

Lemma strace_app e1 l1 e2 l2 e3 : strace e1 l1 e2 -> strace e2 l2 e3 -> strace e1 (l1 ++ l2) e3.
Proof. induction 1; intros H2; cbn [app]; [exact H2|apply st_fail; auto|apply st_ok; auto]. Qed.
End Trace.

(* ================================================================== the parameters of the generalisation *)

Section Gen.

Variable gh : handler.                (* the block list's granularity handler ... *)
Variable gg : Z.                      (* ... and its bufferImageGranularity *)
Variable Q : tlsf -> Prop.            (* a further per-block invariant *)
Variable Kok : Z -> Prop.             (* the admissible suballocation types *)

Definition opK (o : op) : Prop :=
  match o with OAlloc _ _ k _ _ _ _ => Kok k | _ => True end.

Hypothesis Q_step : forall t o, TInv t -> Inv2 t -> Q t -> op_ok o -> opK o -> Q (fst (step t o)).


(* the per-block configuration: granularity, handler (when it matters), further invariant *)
Definition bcfg (t : tlsf) : Prop :=
  g_g (t_gran t) = gg /\ (1 < gg -> g_h (t_gran t) = gh) /\ Q t.

(* RoundUpAllocRequest's size for kind k in this block list *)
Definition rnd (k s : Z) : Z := fst (round_up (mkGran gh gg []) k s 1).

Lemma round_up_cfg g k s a :
  g_g g = gg -> (1 < gg -> g_h g = gh) -> fst (round_up g k s a) = rnd k s.
Proof.
  intros Hg Hh. unfold rnd, round_up. cbn [g_h g_g]. rewrite Hg.
  destruct (gg >? 1) eqn:E.
  - rewrite Hh by lia. destruct gh; [reflexivity|]. destruct (_ || _); reflexivity.
  - destruct (g_h g); destruct gh; reflexivity.
Qed.

Lemma rnd_idem k s : pow2 gg -> rnd k (rnd k s) = rnd k s.
Proof.
  intros Hp. unfold rnd, round_up. cbn [g_h g_g]. destruct gh; [reflexivity|].
  destruct (gg >? 1); [|reflexivity]. destruct (_ || _); cbn [fst]; [|reflexivity].
  apply align_up_id; [exact Hp|]. apply (align_up_bounds s gg Hp).
Qed.

Lemma bcfg_rnd t k s a : bcfg t -> fst (round_up (t_gran t) k s a) = rnd k s.
Proof. intros (Hg & Hh & _). apply round_up_cfg; auto. Qed.

(* the configuration survives the steps the planner and the block list make *)
Lemma bcfg_step t o :
  TInv t -> Inv2 t -> bcfg t -> op_ok o -> opK o ->
  g_g (t_gran (fst (step t o))) = g_g (t_gran t) -> g_h (t_gran (fst (step t o))) = g_h (t_gran t) ->
  bcfg (fst (step t o)).
Proof.
  intros HT HI2 (Hg & Hh & HQ) Hok Hk E1 E2. split; [congruence|]. split; [rewrite E2; exact Hh|].
  apply Q_step; auto.
Qed.

(* ================================================================== 3. the block-list invariant *)

(* block id holds, at offset off, the taken region b *)
Definition holdsb (bl : list (Z * tlsf)) (id off : Z) (b : blk) : Prop :=
  exists t, find_id id bl = Some t /\ In b (live t) /\ b_off b = off.

Definition holds (st : dstate) := holdsb (d_blocks st).

Record WFB (bl : list (Z * tlsf)) : Prop := mkWFB {
  wb_ids : NoDup (map fst bl);
  wb_tinv : forall id t, find_id id bl = Some t -> TInv t /\ bcfg t /\ Inv2 t
}.

Lemma holdsb_fun bl id off b1 b2 : WFB bl -> holdsb bl id off b1 -> holdsb bl id off b2 -> b1 = b2.
Proof.
  intros [_ HT] (t1 & F1 & I1 & O1) (t2 & F2 & I2 & O2). rewrite F1 in F2. injection F2 as <-.
  destruct (HT _ _ F1) as ((Hinv & _) & _). eapply live_off_inj; eauto. congruence.
Qed.

(* the metadata user data of the region of slot s is its allocation object; a temporary may carry
   the defragmentation context instead *)
Definition tag_ok (s : nat) (e : uent) (tg : option Z) : Prop :=
  tg = Some (Z.of_nat s) \/ (u_temp e = true /\ tg = Some ctx_tag).

Record WF (st : dstate) : Prop := mkWF {
  wf_b : WFB (d_blocks st);
  wf_own : forall s e, entry st s = Some e ->
           (exists b, holds st (u_blk e) (u_off e) b /\ b_size b = u_size e /\ tag_ok s e (b_tag b)) /\
           pow2 (u_align e) /\ 1 <= u_size e;
  wf_owned : forall id off b, holds st id off b ->
             exists s e, entry st s = Some e /\ u_blk e = id /\ u_off e = off;
  wf_inj : forall s1 s2 e1 e2, entry st s1 = Some e1 -> entry st s2 = Some e2 ->
           u_blk e1 = u_blk e2 -> u_off e1 = u_off e2 -> s1 = s2;
  (* the size the block list stores is what RoundUpAllocRequest made of the request; the kind is admissible *)
  wf_rnd : forall s e, entry st s = Some e -> rnd (u_kind e) (u_size e) = u_size e /\ Kok (u_kind e)
}.

(* ------------------------------------------------------------------ block-level steps *)

Lemma wfb_set bl id t t' :
  WFB bl -> find_id id bl = Some t -> TInv t' -> bcfg t' -> Inv2 t' -> WFB (set_id id t' bl).
Proof.
  intros [Hids HT] Hf HT' Hg HI'. constructor.
  - rewrite set_id_ids. exact Hids.
  - intros id' t''. rewrite (find_set_id _ _ _ _ _ Hf). destruct (id' =? id).
    + intros H; injection H as <-. auto.
    + apply HT.
Qed.

(* a region is added to block id *)
Lemma holdsb_add bl id t t' l1 l2 nb :
  WFB bl -> find_id id bl = Some t -> TInv t' ->
  live t = l1 ++ l2 -> live t' = l1 ++ nb :: l2 ->
  (forall id' off' b, holdsb (set_id id t' bl) id' off' b <->
                      (id' = id /\ off' = b_off nb /\ b = nb) \/ holdsb bl id' off' b) /\
  (forall b, ~ holdsb bl id (b_off nb) b).
Proof.
  intros HB Hf (Hinv' & _) Hl Hl'. split.
  - intros id' off' b. unfold holdsb. rewrite (find_set_id _ _ _ _ _ Hf).
    destruct (id' =? id) eqn:E.
    + apply Z.eqb_eq in E. subst id'. split.
      * intros (t0 & F & I & O). injection F as <-. rewrite Hl' in I.
        apply in_app_or in I. destruct I as [I|[I|I]].
        -- right. exists t. rewrite Hl. split; auto. split; auto. apply in_or_app; auto.
        -- left. subst. auto.
        -- right. exists t. rewrite Hl. split; auto. split; auto. apply in_or_app; auto.
      * intros [(_ & -> & ->)|(t0 & F & I & O)].
        -- exists t'. rewrite Hl'. split; auto. split; auto. apply in_or_app. right. left. reflexivity.
        -- rewrite Hf in F. injection F as <-. exists t'. split; auto. split; auto.
           rewrite Hl in I. rewrite Hl'. apply in_app_or in I. apply in_or_app. destruct I; [left|right; right]; auto.
    + apply Z.eqb_neq in E. split.
      * intros H. right. exact H.
      * intros [(-> & _)|H]; [congruence|exact H].
  - intros b (t0 & F & I & O). rewrite Hf in F. injection F as <-.
    pose proof (live_offs_nodup _ Hinv') as Hnd. rewrite Hl', map_app in Hnd. cbn [map] in Hnd.
    apply NoDup_remove_2 in Hnd. apply Hnd. rewrite <- map_app, <- Hl, <- O. apply in_map. exact I.
Qed.

(* a region is removed from block id *)
Lemma holdsb_del bl id t t' l1 b0 l2 :
  WFB bl -> find_id id bl = Some t ->
  live t = l1 ++ b0 :: l2 -> live t' = l1 ++ l2 ->
  forall id' off' b, holdsb (set_id id t' bl) id' off' b <->
                     holdsb bl id' off' b /\ ~ (id' = id /\ off' = b_off b0).
Proof.
  intros HB Hf Hl Hl' id' off' b. destruct (wb_tinv _ HB _ _ Hf) as ((Hinv & _) & _).
  pose proof (live_offs_nodup _ Hinv) as Hnd. rewrite Hl, map_app in Hnd. cbn [map] in Hnd.
  apply NoDup_remove_2 in Hnd. rewrite <- map_app in Hnd.
  unfold holdsb. rewrite (find_set_id _ _ _ _ _ Hf). destruct (id' =? id) eqn:E.
  - apply Z.eqb_eq in E. subst id'. split.
    + intros (t0 & F & I & O). injection F as <-. rewrite Hl' in I. split.
      * exists t. rewrite Hl. split; auto. split; auto.
        apply in_app_or in I. apply in_or_app. destruct I; [left|right; right]; auto.
      * intros (_ & Ho). apply Hnd. rewrite <- Ho, <- O. apply in_map. exact I.
    + intros ((t0 & F & I & O) & Hne). rewrite Hf in F. injection F as <-.
      exists t'. split; auto. split; auto. rewrite Hl in I. rewrite Hl'.
      apply in_app_or in I. apply in_or_app. destruct I as [I|[I|I]]; auto.
      subst. exfalso. apply Hne. auto.
  - apply Z.eqb_neq in E. split.
    + intros H. split; [exact H|]. intros (H1 & _). congruence.
    + intros (H & _). exact H.
Qed.

(* the user data of a region of block id is replaced *)
Lemma holdsb_tag bl id t t' l1 b0 l2 tg :
  WFB bl -> find_id id bl = Some t ->
  live t = l1 ++ b0 :: l2 -> live t' = l1 ++ with_tag b0 tg :: l2 ->
  forall id' off' b, holdsb (set_id id t' bl) id' off' b <->
                     (id' = id /\ off' = b_off b0 /\ b = with_tag b0 tg) \/
                     (holdsb bl id' off' b /\ ~ (id' = id /\ off' = b_off b0)).
Proof.
  intros HB Hf Hl Hl' id' off' b. destruct (wb_tinv _ HB _ _ Hf) as ((Hinv & _) & _).
  pose proof (live_offs_nodup _ Hinv) as Hnd. rewrite Hl, map_app in Hnd. cbn [map] in Hnd.
  apply NoDup_remove_2 in Hnd. rewrite <- map_app in Hnd.
  unfold holdsb. rewrite (find_set_id _ _ _ _ _ Hf). destruct (id' =? id) eqn:E.
  - apply Z.eqb_eq in E. subst id'. split.
    + intros (t0 & F & I & O). injection F as <-. rewrite Hl' in I.
      apply in_app_or in I. destruct I as [I|[I|I]].
      * right. split.
        -- exists t. rewrite Hl. split; auto. split; auto. apply in_or_app; auto.
        -- intros (_ & Ho). apply Hnd. rewrite <- Ho, <- O. apply in_map. apply in_or_app; auto.
      * left. subst b. cbn in O. auto.
      * right. split.
        -- exists t. rewrite Hl. split; auto. split; auto. apply in_or_app; right; right; auto.
        -- intros (_ & Ho). apply Hnd. rewrite <- Ho, <- O. apply in_map. apply in_or_app; auto.
    + intros [(_ & -> & ->)|((t0 & F & I & O) & Hne)].
      * exists t'. rewrite Hl'. split; auto. split; [apply in_or_app; right; left; reflexivity|reflexivity].
      * rewrite Hf in F. injection F as <-. exists t'. split; auto. split; auto.
        rewrite Hl in I. rewrite Hl'. apply in_app_or in I. apply in_or_app.
        destruct I as [I|[I|I]]; [auto| |right; right; auto]. subst. exfalso. apply Hne. auto.
  - apply Z.eqb_neq in E. split.
    + intros H. right. split; [exact H|]. intros (H1 & _). congruence.
    + intros [(-> & _)|(H & _)]; [congruence|exact H].
Qed.

(* nothing changes in block id as far as regions are concerned *)
Lemma holdsb_same bl id t t' :
  find_id id bl = Some t -> live t' = live t ->
  forall id' off' b, holdsb (set_id id t' bl) id' off' b <-> holdsb bl id' off' b.
Proof.
  intros Hf Hl id' off' b. unfold holdsb. rewrite (find_set_id _ _ _ _ _ Hf). destruct (id' =? id) eqn:E.
  - apply Z.eqb_eq in E. subst id'. split.
    + intros (t0 & F & I & O). injection F as <-. exists t. rewrite <- Hl. auto.
    + intros (t0 & F & I & O). rewrite Hf in F. injection F as <-. exists t'. rewrite Hl. auto.
  - tauto.
Qed.

(* ------------------------------------------------------------------ state-level steps *)

Lemma wf_add_entry st bl' e nb id :
  WF st -> WFB bl' ->
  (forall id' off' b, holdsb bl' id' off' b <-> (id' = id /\ off' = b_off nb /\ b = nb) \/ holds st id' off' b) ->
  (forall b, ~ holds st id (b_off nb) b) ->
  u_blk e = id -> u_off e = b_off nb -> u_size e = b_size nb -> tag_ok (length (d_table st)) e (b_tag nb) ->
  pow2 (u_align e) -> 1 <= u_size e -> rnd (u_kind e) (u_size e) = u_size e /\ Kok (u_kind e) ->
  WF (mkD bl' (d_table st ++ [Some e]) (d_sentinel st)).
Proof.
  intros [HB Hown Howned Hinj Hrnd] HB' Hiff Hfresh Hblk Hoff Hsz Htag Hpa Hs1 Hrk.
  set (n := length (d_table st)).
  assert (Hold : forall s, (s < n)%nat -> entry (mkD bl' (d_table st ++ [Some e]) (d_sentinel st)) s = entry st s).
  { intros s Hs. rewrite entry_app_old by exact Hs. destruct st; reflexivity. }
  assert (Hcases : forall s e0, entry (mkD bl' (d_table st ++ [Some e]) (d_sentinel st)) s = Some e0 ->
                                ((s < n)%nat /\ entry st s = Some e0) \/ (s = n /\ e0 = e)).
  { intros s e0 He. destruct (lt_eq_lt_dec s n) as [[Hlt|Heq]|Hgt].
    - left. rewrite Hold in He by exact Hlt. auto.
    - right. subst s. unfold n in He. rewrite entry_app_new in He. split; congruence.
    - rewrite entry_app_ge in He by exact Hgt. discriminate. }
  constructor; cbn [d_blocks d_table d_sentinel].
  - exact HB'.
  - intros s e0 He. destruct (Hcases _ _ He) as [(Hlt & He0)|(-> & ->)].
    + destruct (Hown _ _ He0) as ((b & Hh & Hsz0 & Ht0) & Hp & H1). split; [|auto].
      exists b. split; [|auto]. unfold holds; cbn [d_blocks]. apply Hiff. right. exact Hh.
    + split; [|auto]. exists nb. split; [|auto]. unfold holds; cbn [d_blocks]. apply Hiff. left. auto.
  - intros id' off' b Hh. unfold holds in Hh; cbn [d_blocks] in Hh. apply Hiff in Hh.
    destruct Hh as [(-> & -> & ->)|Hh].
    + exists n, e. unfold n. rewrite entry_app_new. auto.
    + destruct (Howned _ _ _ Hh) as (s & e0 & He0 & H1 & H2). exists s, e0.
      rewrite Hold by (eapply entry_lt; eauto). auto.
  - intros s1 s2 e1 e2 He1 He2 Hb Ho.
    destruct (Hcases _ _ He1) as [(Hlt1 & He1')|(-> & ->)]; destruct (Hcases _ _ He2) as [(Hlt2 & He2')|(-> & ->)].
    + eapply Hinj; eauto.
    + exfalso. destruct (Hown _ _ He1') as ((b & Hh & _) & _). rewrite Hb, Ho, Hblk, Hoff in Hh.
      eapply Hfresh; eauto.
    + exfalso. destruct (Hown _ _ He2') as ((b & Hh & _) & _). rewrite <- Hb, <- Ho, Hblk, Hoff in Hh.
      eapply Hfresh; eauto.
    + reflexivity.
  - intros s e0 He. destruct (Hcases _ _ He) as [(Hlt & He0)|(-> & ->)]; [eapply Hrnd; eauto|exact Hrk].
Qed.

Lemma wf_same_blocks st bl' :
  WF st -> WFB bl' -> (forall id' off' b, holdsb bl' id' off' b <-> holds st id' off' b) ->
  WF (set_blocks st bl').
Proof.
  intros [HB Hown Howned Hinj Hrnd] HB' Hiff. constructor; cbn [set_blocks d_blocks].
  - exact HB'.
  - intros s e He. change (entry st s = Some e) in He.
    destruct (Hown _ _ He) as ((b & Hh & R) & P). split; [|exact P]. exists b. split; [|exact R].
    unfold holds; cbn [d_blocks]. apply Hiff. exact Hh.
  - intros id' off' b Hh. unfold holds in Hh; cbn [d_blocks] in Hh. apply Hiff in Hh.
    destruct (Howned _ _ _ Hh) as (s & e & He & R). exists s, e. split; [exact He|exact R].
  - intros s1 s2 e1 e2 He1 He2. change (entry st s1 = Some e1) in He1. change (entry st s2 = Some e2) in He2.
    eapply Hinj; eauto.
  - intros s e He. change (entry st s = Some e) in He. eapply Hrnd; eauto.
Qed.

Lemma wf_del_entry st bl' s e :
  WF st -> WFB bl' -> entry st s = Some e ->
  (forall id' off' b, holdsb bl' id' off' b <-> holds st id' off' b /\ ~ (id' = u_blk e /\ off' = u_off e)) ->
  WF (set_entry (set_blocks st bl') s None).
Proof.
  intros [HB Hown Howned Hinj Hrnd] HB' He Hiff.
  assert (Hlt : (s < length (d_table (set_blocks st bl')))%nat) by (cbn; eapply entry_lt; eauto).
  assert (Hcases : forall s' e', entry (set_entry (set_blocks st bl') s None) s' = Some e' -> s' <> s /\ entry st s' = Some e').
  { intros s' e' H. destruct (Nat.eq_dec s' s) as [->|Hne].
    - rewrite entry_set_same in H by exact Hlt. discriminate.
    - rewrite entry_set_other in H by auto. auto. }
  constructor.
  - exact HB'.
  - intros s' e' H. destruct (Hcases _ _ H) as (Hne & He').
    destruct (Hown _ _ He') as ((b & Hh & R) & P). split; [|exact P]. exists b. split; [|exact R].
    unfold holds; cbn [set_entry set_table set_blocks d_blocks]. apply Hiff. split; [exact Hh|].
    intros (Hb & Ho). apply Hne. eapply Hinj; eauto.
  - intros id' off' b Hh. unfold holds in Hh; cbn [set_entry set_table set_blocks d_blocks] in Hh.
    apply Hiff in Hh. destruct Hh as (Hh & Hne).
    destruct (Howned _ _ _ Hh) as (s' & e' & He' & H1 & H2). exists s', e'. split; [|auto].
    rewrite entry_set_other; [exact He'|]. intros <-. apply Hne. rewrite He in He'. injection He' as <-. auto.
  - intros s1 s2 e1 e2 H1 H2. destruct (Hcases _ _ H1) as (_ & H1'). destruct (Hcases _ _ H2) as (_ & H2').
    eapply Hinj; eauto.
  - intros s' e' H1. destruct (Hcases _ _ H1) as (_ & H1'). eapply Hrnd; eauto.
Qed.

(* ------------------------------------------------------------------ releasing a slot *)

Lemma step_free_spec t h t' :
  TInv t -> bcfg t -> Inv2 t -> tlsf_free t h = FOk t' ->
  TInv t' /\ bcfg t' /\ Inv2 t' /\ t_size t' = t_size t /\
  exists l1 b l2, live t = l1 ++ b :: l2 /\ b_off b = h /\ live t' = l1 ++ l2.
Proof.
  intros HT Hg HI2 Hf. pose proof (step_preserves t (OFree h) HT I) as Hs. cbn [step] in Hs. rewrite Hf in Hs.
  pose proof (step2_preserves t (OFree h) HT HI2 I) as Hs2. cbn [step] in Hs2. rewrite Hf in Hs2. cbn [fst] in Hs2.
  cbn [fst snd live_effect o_kind out] in Hs. destruct Hs as (HT' & Hle & Hsz).
  split; [exact HT'|]. split; [|split; [exact Hs2|split; [exact Hsz|exact Hle]]].
  pose proof HT as (Hinv & _). destruct (tlsf_free_inv1 _ _ _ Hinv Hf) as (_ & _ & _ & (b0 & g' & _ & Hfr & Hgg) & _).
  destruct (free_regions_frame _ _ _ _ Hfr) as (F1 & F2 & _).
  assert (Est : t' = fst (step t (OFree h))) by (cbn [step]; rewrite Hf; reflexivity).
  rewrite Est. apply bcfg_step; auto; [exact I|exact I| |]; rewrite <- Est, Hgg; auto.
Qed.

Lemma free_slot_ok st s st' :
  WF st -> free_slot st s = (st', ROk) ->
  WF st' /\ entry st' s = None /\ (forall s', s' <> s -> entry st' s' = entry st s') /\
  map fst (d_blocks st') = map fst (d_blocks st) /\ d_sentinel st' = d_sentinel st /\
  length (d_table st') = length (d_table st).
Proof.
  intros HW. unfold free_slot. destruct (entry st s) as [e|] eqn:He; [|discriminate].
  destruct (find_id (u_blk e) (d_blocks st)) as [t|] eqn:Hf; [|discriminate].
  destruct (tlsf_free t (u_off e)) as [t'| |] eqn:Hfr; try discriminate.
  intros H; injection H as <-.
  destruct (wb_tinv _ (wf_b _ HW) _ _ Hf) as (HT & Hg & HI2).
  destruct (step_free_spec _ _ _ HT Hg HI2 Hfr) as (HT' & Hg' & HI2' & _ & l1 & b & l2 & Hl & Hb & Hl').
  assert (Hlt : (s < length (d_table st))%nat) by (eapply entry_lt; eauto).
  split.
  { unfold set_block. eapply wf_del_entry; eauto.
    - eapply wfb_set; eauto. apply (wf_b _ HW).
    - intros id' off' b'. rewrite <- Hb. eapply holdsb_del; eauto. apply (wf_b _ HW). }
  split; [apply entry_set_same; cbn; exact Hlt|].
  split; [intros s' Hne; rewrite entry_set_other by auto; reflexivity|].
  split; [cbn; apply set_id_ids|]. split; [reflexivity|]. cbn. apply update_nth_length.
Qed.

Lemma free_slot_fail st s st' k : free_slot st s = (st', k) -> k <> ROk -> st' = st.
Proof.
  unfold free_slot. destruct (entry st s); [|intros H; injection H as <- <-; auto].
  destruct (find_id _ _); [|intros H; injection H as <- <-; auto].
  destruct (tlsf_free _ _); intros H; injection H as <- <-; congruence.
Qed.

(* ================================================================== 4. allocating *)

(* a granted request in a block of this list: the state CreateAllocationRequest leaves, and the
   state after the commit *)
Lemma request_alloc_cfg t size align kind strat mo tag t1 r :
  TInv t -> bcfg t -> Inv2 t -> pow2 align -> Kok kind ->
  create_request t size align false kind strat mo = QGranted t1 r ->
  (TInv t1 /\ bcfg t1 /\ Inv2 t1 /\ live t1 = live t /\ t_size t1 = t_size t) /\
  rq_offset r < mo /\ rq_block r <= rq_offset r /\ 1 <= size /\ rq_size r = rnd kind size /\
  exists t2, alloc t1 r tag size align = AOk t2 (rq_offset r) /\
    TInv t2 /\ bcfg t2 /\ Inv2 t2 /\ t_size t2 = t_size t /\
    exists l1 l2, live t = l1 ++ l2 /\ live t2 = l1 ++ new_blk (rq_offset r) (rq_size r) tag kind size align :: l2.
Proof.
  intros HT Hg HI2 Hpa Hk Hcr.
  destruct (request_alloc_spec _ _ _ _ _ _ tag _ _ HT HI2 Hpa Hcr)
    as (HT1 & HI1 & Hg1 & Hl1 & Hsz1 & Hmo & Hlo & Hs1 & Hrs & Hst1 & t2 & h & Hal & HT2 & HI2' & Hgg & Hgh & Hst & Hsz2 & -> & l1 & l2 & Hl & Hl2).
  split.
  { split; [exact HT1|]. split; [|split; [exact HI1|split; [exact Hl1|exact Hsz1]]].
    rewrite Hst1. apply bcfg_step; auto; [exact I| |]; rewrite <- Hst1, Hg1; reflexivity. }
  split; [exact Hmo|]. split; [exact Hlo|]. split; [exact Hs1|]. split; [rewrite Hrs; apply bcfg_rnd; exact Hg|].
  exists t2. split; [exact Hal|]. split; [exact HT2|]. split.
  { rewrite Hst. apply bcfg_step; auto; rewrite <- Hst; auto. }
  split; [exact HI2'|]. split; [exact Hsz2|]. exists l1, l2. auto.
Qed.

(* the outcome of the commit attempts: any environment, any attempt function *)
Section AttF1.
Variable Env : Type.
Variable att : Env -> nat -> Z -> Env * bool.

Lemma alloc_in_f_spec t size align kind strat mo tag env slot dst :
  TInv t -> bcfg t -> Inv2 t -> pow2 align -> Kok kind -> rnd kind size = size ->
  match alloc_in_f Env att t size align kind strat mo tag env slot dst with
  | (AIOk t' off, _, _) =>
    TInv t' /\ bcfg t' /\ Inv2 t' /\ off < mo /\ 1 <= size /\ t_size t' = t_size t /\
    exists l1 l2, live t = l1 ++ l2 /\ live t' = l1 ++ new_blk off size tag kind size align :: l2
  | (AINo t', _, _) => TInv t' /\ bcfg t' /\ Inv2 t' /\ live t' = live t /\ t_size t' = t_size t
  | (AIPanic, _, _) => False
  end.
Proof.
  intros HT Hg HI2 Hpa Hk Hst. unfold alloc_in_f.
  pose proof (create_request_ok t size align false kind strat mo HT HI2 Hpa) as Hok.
  destruct (create_request t size align false kind strat mo) as [t1 r| | |] eqn:Hcr; auto.
  destruct (request_alloc_cfg _ _ _ _ _ _ tag _ _ HT Hg HI2 Hpa Hk Hcr)
    as (H1 & Hmo & _ & Hs1 & Hrs & t2 & Hal & HT2 & Hg2 & HI2' & Hsz2 & l1 & l2 & Hl & Hl2).
  destruct (att env slot dst) as [env' ok]. destruct ok; [|exact H1].
  rewrite Hal. rewrite Hrs, Hst in Hl2.
  split; [exact HT2|]. split; [exact Hg2|]. split; [exact HI2'|]. split; [exact Hmo|]. split; [exact Hs1|]. split; [exact Hsz2|]. exists l1, l2. auto.
Qed.

Lemma alloc_lower_f_spec t size align kind offset tag env slot dst :
  TInv t -> bcfg t -> Inv2 t -> pow2 align -> 1 <= size -> Kok kind -> rnd kind size = size ->
  match alloc_lower_f Env att t size align kind offset tag env slot dst with
  | (AIOk t' off, _, _) =>
    TInv t' /\ bcfg t' /\ Inv2 t' /\ off < offset /\ 1 <= size /\ t_size t' = t_size t /\
    exists l1 l2, live t = l1 ++ l2 /\ live t' = l1 ++ new_blk off size tag kind size align :: l2
  | (AINo t', _, _) => TInv t' /\ bcfg t' /\ Inv2 t' /\ live t' = live t /\ t_size t' = t_size t
  | (AIPanic, _, _) => False
  end.
Proof.
  intros HT Hg HI2 Hpa Hsz Hk Hst. unfold alloc_lower_f.
  pose proof (create_request_ok t size align false kind 4 offset HT HI2 Hpa) as Hok.
  destruct (create_request t size align false kind 4 offset) as [t1 r| | |] eqn:Hcr; auto.
  2:{ apply create_request_error in Hcr. destruct Hcr; [lia|discriminate]. }
  destruct (request_alloc_cfg _ _ _ _ _ _ tag _ _ HT Hg HI2 Hpa Hk Hcr)
    as (H1 & Hmo & Hlo & Hs1 & Hrs & t2 & Hal & HT2 & Hg2 & HI2' & Hsz2 & l1 & l2 & Hl & Hl2).
  destruct (rq_block r <? offset) eqn:Eb; [|exact H1].
  destruct (att env slot dst) as [env' ok]. destruct ok; [|exact H1].
  rewrite Hal. rewrite Hrs, Hst in Hl2.
  split; [exact HT2|]. split; [exact Hg2|]. split; [exact HI2'|]. split; [exact Hmo|]. split; [exact Hs1|]. split; [exact Hsz2|]. exists l1, l2. auto.
Qed.

End AttF1.

(* st' keeps the blocks' identities, order and sizes and every allocation object of st *)
(* every block that is in both lists has the same size in both *)
Definition same_sizes (bl bl' : list (Z * tlsf)) : Prop :=
  forall id t t', find_id id bl = Some t -> find_id id bl' = Some t' -> t_size t' = t_size t.

Definition ext (st st' : dstate) : Prop :=
  map fst (d_blocks st') = map fst (d_blocks st) /\ d_sentinel st' = d_sentinel st /\
  (length (d_table st) <= length (d_table st'))%nat /\
  (forall s, (s < length (d_table st))%nat -> entry st' s = entry st s) /\
  same_sizes (d_blocks st) (d_blocks st').

Lemma same_sizes_refl bl : same_sizes bl bl.
Proof. intros id t t' H1 H2. congruence. Qed.

Lemma same_sizes_set bl id t0 t2 :
  find_id id bl = Some t0 -> t_size t2 = t_size t0 -> same_sizes bl (set_id id t2 bl).
Proof.
  intros Hf Hs id' t t' H1 H2. rewrite (find_set_id _ _ _ _ _ Hf) in H2. destruct (id' =? id) eqn:E.
  - apply Z.eqb_eq in E. subst id'. injection H2 as <-. congruence.
  - congruence.
Qed.

Lemma ext_refl st : ext st st.
Proof. unfold ext. split; [reflexivity|]. split; [reflexivity|]. split; [lia|]. split; [auto|apply same_sizes_refl]. Qed.

Lemma ext_trans a b c : ext a b -> ext b c -> ext a c.
Proof.
  intros (A1 & A2 & A3 & A4 & A5) (B1 & B2 & B3 & B4 & B5). unfold ext.
  split; [congruence|]. split; [congruence|]. split; [lia|]. split.
  - intros s Hs. rewrite B4 by lia. apply A4; auto.
  - intros id t t'' H1 H3.
    assert (Hin : In id (map fst (d_blocks b))) by (rewrite A1; eapply find_id_some_in; eauto).
    destruct (in_ids_find _ _ Hin) as (t' & H2). rewrite (B5 _ _ _ H2 H3). eapply A5; eauto.
Qed.

Lemma ext_entry st st' s e : ext st st' -> entry st s = Some e -> entry st' s = Some e.
Proof. intros (_ & _ & _ & H & _) He. rewrite H; [exact He|]. eapply entry_lt; eauto. Qed.

Lemma ext_sizes st st' id t t' :
  ext st st' -> find_id id (d_blocks st) = Some t -> find_id id (d_blocks st') = Some t' -> t_size t' = t_size t.
Proof. intros (_ & _ & _ & _ & H). apply H. Qed.

Lemma ext_set_block st id t0 t :
  find_id id (d_blocks st) = Some t0 -> t_size t = t_size t0 -> ext st (set_block st id t).
Proof.
  intros Hf Hs. unfold ext, set_block; cbn. split; [apply set_id_ids|]. split; [reflexivity|]. split; [lia|].
  split; [reflexivity|eapply same_sizes_set; eauto].
Qed.

Lemma ext_add st bl' e :
  map fst bl' = map fst (d_blocks st) -> same_sizes (d_blocks st) bl' ->
  ext st (mkD bl' (d_table st ++ [Some e]) (d_sentinel st)).
Proof.
  intros H Hsz. unfold ext; cbn. split; [exact H|]. split; [reflexivity|]. split; [rewrite app_length; lia|].
  split; [|exact Hsz]. intros s Hs. rewrite entry_app_old by exact Hs. destruct st; reflexivity.
Qed.

(* a new region with its new allocation object *)
Lemma wf_alloc_entry st id t t2 h sz tag kind rs ra e :
  WF st -> find_id id (d_blocks st) = Some t -> TInv t2 -> bcfg t2 -> Inv2 t2 ->
  (exists l1 l2, live t = l1 ++ l2 /\ live t2 = l1 ++ new_blk h sz tag kind rs ra :: l2) ->
  u_blk e = id -> u_off e = h -> u_size e = sz -> tag_ok (length (d_table st)) e tag ->
  pow2 (u_align e) -> 1 <= u_size e -> rnd (u_kind e) (u_size e) = u_size e /\ Kok (u_kind e) ->
  WF (mkD (set_id id t2 (d_blocks st)) (d_table st ++ [Some e]) (d_sentinel st)).
Proof.
  intros HW Hf HT2 Hg2 HI2 (l1 & l2 & Hl & Hl2) Hb Ho Hs Ht Hpa H1 Hrk.
  destruct (holdsb_add _ _ _ _ _ _ _ (wf_b _ HW) Hf HT2 Hl Hl2) as (Hiff & Hfresh).
  eapply wf_add_entry with (nb := new_blk h sz tag kind rs ra) (id := id); eauto.
  eapply wfb_set; eauto. apply (wf_b _ HW).
Qed.

Lemma wf_set_same st id t t' :
  WF st -> find_id id (d_blocks st) = Some t -> TInv t' -> bcfg t' -> Inv2 t' -> live t' = live t ->
  WF (set_block st id t').
Proof.
  intros HW Hf HT Hg HI2 Hl. unfold set_block. apply wf_same_blocks; auto.
  - eapply wfb_set; eauto. apply (wf_b _ HW).
  - eapply holdsb_same; eauto.
Qed.

Lemma tag_ok_user s e : tag_ok s e (Some (Z.of_nat s)).
Proof. left. reflexivity. Qed.

(* the user's allocations (of an admissible kind) keep the invariant *)
Lemma user_alloc_wf st id size align kind tag st' r :
  WF st -> Kok kind -> user_alloc st id size align kind tag = (st', r) -> WF st' /\ ext st st'.
Proof.
  intros HW Hk. unfold user_alloc. destruct (find_id id (d_blocks st)) as [t|] eqn:Hf.
  2:{ intros H; injection H as <- <-. split; [auto|apply ext_refl]. }
  destruct (negb (is_pow2 align) || (kind <? 0) || (tag <? 0)) eqn:Hchk.
  { intros H; injection H as <- <-. split; [auto|apply ext_refl]. }
  apply orb_false_elim in Hchk. destruct Hchk as (Hchk & _). apply orb_false_elim in Hchk. destruct Hchk as (Hp & _).
  apply negb_false_iff in Hp. apply is_pow2_sound in Hp.
  destruct (wb_tinv _ (wf_b _ HW) _ _ Hf) as (HT & Hg & HI2).
  destruct (create_request t size align false kind 0 max_int) as [t1 r1| | |] eqn:Hcr;
    try (intros H; injection H as <- <-; split; [auto|apply ext_refl]).
  destruct (request_alloc_cfg _ _ _ _ _ _ (Some (Z.of_nat (length (d_table st)))) _ _ HT Hg HI2 Hp Hk Hcr)
    as (_ & _ & _ & Hs1 & Hrs & t2 & Hal & HT2 & Hg2 & HI2' & Hsz2 & Hle).
  assert (Hpg : pow2 gg) by (destruct Hg as (<- & _); apply HT).
  assert (Hge : size <= rq_size r1).
  { rewrite Hrs. unfold rnd. pose proof (round_up_spec (mkGran gh gg []) kind size 1 Hpg pow2_1) as Hru.
    destruct (round_up (mkGran gh gg []) kind size 1). cbn [fst]. tauto. }
  rewrite Hal. intros H; injection H as <- <-. split.
  - eapply wf_alloc_entry; eauto; cbn [u_blk u_off u_size u_align u_kind u_temp]; try congruence; try apply tag_ok_user; try lia.
    split; [rewrite Hrs; apply rnd_idem; exact Hpg|exact Hk].
  - apply ext_add; [apply set_id_ids|eapply same_sizes_set; eauto].
Qed.

(* ================================================================== 5. collecting the moves of a pass *)

Lemma get_move_data_spec st id t h s e :
  WF st -> find_id id (d_blocks st) = Some t -> get_move_data st t h = MDMove s e ->
  entry st s = Some e /\ u_temp e = false /\ u_blk e = id /\ u_off e = h.
Proof.
  intros HW Hf. unfold get_move_data.
  destruct (get_user_data t h) as [[tg|]|] eqn:Hud; try discriminate.
  destruct (tg =? ctx_tag) eqn:E1; [discriminate|]. destruct (tg <? 0) eqn:E2; [discriminate|].
  destruct (nth_error (d_table st) (Z.to_nat tg)) as [[e0|]|] eqn:Hn; try discriminate.
  destruct (u_temp e0) eqn:Ht; [discriminate|]. intros H; injection H as <- <-.
  assert (He : entry st (Z.to_nat tg) = Some e0) by (unfold entry; rewrite Hn; reflexivity).
  split; [exact He|]. split; [exact Ht|].
  apply get_user_data_live in Hud. destruct Hud as (b & Hin & Hoff & Htag).
  assert (Hh : holds st id h b) by (exists t; auto).
  destruct (wf_owned _ HW _ _ _ Hh) as (s' & e' & He' & Hb' & Ho').
  destruct (wf_own _ HW _ _ He') as ((b' & Hh' & _ & Htok) & _).
  rewrite Hb', Ho' in Hh'. pose proof (holdsb_fun _ _ _ _ _ (wf_b _ HW) Hh Hh') as <-.
  rewrite Htag in Htok. destruct Htok as [Htok|(_ & Htok)].
  - injection Htok as ->. rewrite Nat2Z.id in He. rewrite He in He'. injection He' as <-. auto.
  - injection Htok as ->. apply Z.eqb_neq in E1. congruence.
Qed.

(* ------------------------------------------------------------------ allocInOtherBlock *)

Lemma tmp_tag_set_block st id t : tmp_tag (set_block st id t) = tmp_tag st.
Proof. reflexivity. Qed.

(* the taken regions of every block that is in both lists are the same *)
Definition same_live (bl bl' : list (Z * tlsf)) : Prop :=
  forall id t t', find_id id bl = Some t -> find_id id bl' = Some t' -> live t' = live t.

Lemma same_live_refl bl : same_live bl bl.
Proof. intros id t t' H1 H2. congruence. Qed.

Lemma same_live_set bl id t0 t2 :
  find_id id bl = Some t0 -> live t2 = live t0 -> same_live bl (set_id id t2 bl).
Proof.
  intros Hf Hs id' t t' H1 H2. rewrite (find_set_id _ _ _ _ _ Hf) in H2. destruct (id' =? id) eqn:Ei.
  - apply Z.eqb_eq in Ei. subst id'. injection H2 as <-. congruence.
  - congruence.
Qed.

Lemma same_live_trans bl1 bl2 bl3 :
  map fst bl2 = map fst bl1 -> same_live bl1 bl2 -> same_live bl2 bl3 -> same_live bl1 bl3.
Proof.
  intros Hids A B id t t'' H1 H3.
  assert (Hin : In id (map fst bl2)) by (rewrite Hids; eapply find_id_some_in; eauto).
  destruct (in_ids_find _ _ Hin) as (t' & H2). rewrite (B _ _ _ H2 H3). eapply A; eauto.
Qed.

Section AttF2.
Variable Env : Type.
Variable att : Env -> nat -> Z -> Env * bool.

Lemma alloc_other_f_spec st cands size align kind env slot :
  WF st -> pow2 align -> Kok kind -> rnd kind size = size ->
  match alloc_other_f Env att st cands size align kind env slot with
  | (AOFound st' idx id off, _, _) =>
    In (idx, id) cands /\ 1 <= size /\
    exists st1 t t2, WF st1 /\ ext st st1 /\ d_table st1 = d_table st /\
      find_id id (d_blocks st1) = Some t /\ st' = set_block st1 id t2 /\ TInv t2 /\ bcfg t2 /\ Inv2 t2 /\
      t_size t2 = t_size t /\
      (exists l1 l2, live t = l1 ++ l2 /\ live t2 = l1 ++ new_blk off size (tmp_tag st) kind size align :: l2) /\
      same_live (d_blocks st) (d_blocks st1)
  | (AONone st', _, _) => WF st' /\ ext st st' /\ d_table st' = d_table st /\ same_live (d_blocks st) (d_blocks st')
  | (AOPanic st', _, _) => WF st' /\ ext st st' /\ d_table st' = d_table st /\ same_live (d_blocks st) (d_blocks st')
  end.
Proof.
  intros HW Hpa Hk Hst. revert st env HW. induction cands as [|[idx id] rest IH]; intros st env HW; cbn [alloc_other_f].
  - split; [auto|]. split; [apply ext_refl|]. split; [reflexivity|apply same_live_refl].
  - destruct (find_id id (d_blocks st)) as [t|] eqn:Hf.
    2:{ split; [auto|]. split; [apply ext_refl|]. split; [reflexivity|apply same_live_refl]. }
    destruct (wb_tinv _ (wf_b _ HW) _ _ Hf) as (HT & Hg & HI2).
    destruct (may_have_free t kind size).
    + pose proof (alloc_in_f_spec Env att t size align kind 0 max_int (tmp_tag st) env slot id HT Hg HI2 Hpa Hk Hst) as Hs.
      destruct (alloc_in_f Env att t size align kind 0 max_int (tmp_tag st) env slot id) as [[a env'] fl].
      destruct a as [t' off|t'|].
      * destruct Hs as (HT' & Hg' & HI2' & _ & Hs1 & Hsz' & Hle). split; [left; reflexivity|]. split; [exact Hs1|].
        exists st, t, t'. split; [auto|]. split; [apply ext_refl|]. split; [reflexivity|]. split; [exact Hf|].
        split; [reflexivity|]. split; [exact HT'|]. split; [exact Hg'|]. split; [exact HI2'|]. split; [exact Hsz'|].
        split; [exact Hle|apply same_live_refl].
      * destruct Hs as (HT' & Hg' & HI2' & Hl' & Hsz').
        assert (HW2 : WF (set_block st id t')) by (eapply wf_set_same; eauto).
        assert (He2 : ext st (set_block st id t')) by (eapply ext_set_block; eauto).
        assert (Hsl2 : same_live (d_blocks st) (d_blocks (set_block st id t'))) by (eapply same_live_set; eauto).
        specialize (IH (set_block st id t') env' HW2). rewrite tmp_tag_set_block in IH.
        destruct (alloc_other_f Env att (set_block st id t') rest size align kind env' slot) as [[r env''] lg].
        destruct r as [st' i2 id2 off2|st'|st'].
        -- destruct IH as (Hin & Hs1 & st1 & t1 & t2 & HW1 & He1 & Ht1 & Hf1 & Hst' & R1 & R2 & R3 & R4 & R5 & Hsl1).
           split; [right; exact Hin|]. split; [exact Hs1|].
           exists st1, t1, t2. split; [exact HW1|]. split; [eapply ext_trans; eauto|].
           split; [rewrite Ht1; reflexivity|]. split; [exact Hf1|]. split; [exact Hst'|]. split; [exact R1|].
           split; [exact R2|]. split; [exact R3|]. split; [exact R4|]. split; [exact R5|].
           eapply same_live_trans; [|exact Hsl2|exact Hsl1]. cbn [set_block set_blocks d_blocks]. apply set_id_ids.
        -- destruct IH as (HW1 & He1 & Ht1 & Hsl1). split; [exact HW1|]. split; [eapply ext_trans; eauto|].
           split; [rewrite Ht1; reflexivity|].
           eapply same_live_trans; [|exact Hsl2|exact Hsl1]. cbn [set_block set_blocks d_blocks]. apply set_id_ids.
        -- destruct IH as (HW1 & He1 & Ht1 & Hsl1). split; [exact HW1|]. split; [eapply ext_trans; eauto|].
           split; [rewrite Ht1; reflexivity|].
           eapply same_live_trans; [|exact Hsl2|exact Hsl1]. cbn [set_block set_blocks d_blocks]. apply set_id_ids.
      * destruct Hs.
    + specialize (IH st env HW).
      destruct (alloc_other_f Env att st rest size align kind env slot) as [[r env''] lg].
      destruct r as [st' i2 id2 off2|st'|st']; auto.
      destruct IH as (Hin & R). split; [right; exact Hin|exact R].
Qed.

End AttF2.

(* ------------------------------------------------------------------ the invariant of a collecting pass *)

Definition key_above (bi h : Z) (m : move) : Prop :=
  bi < m_srcidx m \/ (m_srcidx m = bi /\ h < m_srcoff m).
Definition key_above_eq (bi h : Z) (m : move) : Prop :=
  bi < m_srcidx m \/ (m_srcidx m = bi /\ h <= m_srcoff m).

(* a proposed move, st0 = state when the pass began, st = state now *)
Record move_ok (st0 st : dstate) (ix : list (Z * Z)) (m : move) : Prop := mkMoveOk {
  mo_srcix : In (m_srcidx m, m_srcblk m) ix;
  mo_dstix : In (m_dstidx m, m_dstblk m) ix;
  mo_forward : m_dstidx m < m_srcidx m \/ (m_dstblk m = m_srcblk m /\ m_dstoff m < m_srcoff m);
  mo_src : exists es, entry st0 (m_src m) = Some es /\ u_temp es = false /\ u_blk es = m_srcblk m /\
                      u_off es = m_srcoff m /\ u_size es = m_size m;
  mo_tmp : exists et, entry st (m_tmp m) = Some et /\ u_temp et = true /\ u_blk et = m_dstblk m /\
                      u_off et = m_dstoff m /\ u_size et = m_size m;
  mo_tmp_new : (length (d_table st0) <= m_tmp m)%nat
}.

Definition pass_tracks (p0 p : pass) (new : list move) : Prop :=
  p_max_bytes p = p_max_bytes p0 /\ p_max_allocs p = p_max_allocs p0 /\
  ps_allocs_moved (p_stats p) = ps_allocs_moved (p_stats p0) + zlen new /\
  ps_bytes_moved (p_stats p) = ps_bytes_moved (p_stats p0) + zsum (map m_size new) /\
  ps_bytes_freed (p_stats p) = ps_bytes_freed (p_stats p0) /\
  ps_allocs_freed (p_stats p) = ps_allocs_freed (p_stats p0).

(* the metadata user data / the allocation object of the temporary of a move *)
Definition tmp_tag_of (sentinel : bool) (slot : nat) : option Z :=
  if sentinel then Some ctx_tag else Some (Z.of_nat slot).

Definition tmp_entry (st0 : dstate) (m : move) : option uent :=
  match entry st0 (m_src m) with
  | Some es => Some (mkU (m_dstblk m) (m_dstoff m) (m_size m) (u_align es) (u_kind es) (-1) true)
  | None => None
  end.

(* b is the region record of the temporary of move m *)
Definition tmp_region (st0 : dstate) (m : move) (b : blk) : Prop :=
  exists es, entry st0 (m_src m) = Some es /\
    b = new_blk (m_dstoff m) (m_size m) (tmp_tag_of (d_sentinel st0) (m_tmp m)) (u_kind es) (m_size m) (u_align es).

(* what a collecting pass has done so far to the table and to the live region records of every
   block: the old records are literally kept, the new ones are the temporaries of the new moves *)
Definition live_rel (st0 : dstate) (bl : list (Z * tlsf)) (new : list move) : Prop :=
  forall id t t', find_id id (d_blocks st0) = Some t -> find_id id bl = Some t' ->
    (forall b, In b (live t) -> In b (live t')) /\
    (forall b, In b (live t') -> In b (live t) \/
                                 exists m, In m new /\ m_dstblk m = id /\ tmp_region st0 m b).

Lemma live_rel_same st0 bl bl' new :
  live_rel st0 bl new -> map fst bl' = map fst bl -> same_live bl bl' -> live_rel st0 bl' new.
Proof.
  intros K Hids Hsl id t t' H1 H2.
  assert (Hin : In id (map fst bl)) by (rewrite <- Hids; eapply find_id_some_in; eauto).
  destruct (in_ids_find _ _ Hin) as (tm & Hm). rewrite (Hsl _ _ _ Hm H2). exact (K _ _ _ H1 Hm).
Qed.

Record CReg (st0 st : dstate) (new : list move) : Prop := mkCReg {
  cr_table : d_table st = d_table st0 ++ map (tmp_entry st0) new;
  cr_tmps : map m_tmp new = seq (length (d_table st0)) (length new);
  cr_live : forall id t t', find_id id (d_blocks st0) = Some t -> find_id id (d_blocks st) = Some t' ->
            (forall b, In b (live t) -> In b (live t')) /\
            (forall b, In b (live t') -> In b (live t) \/
                                         exists m, In m new /\ m_dstblk m = id /\ tmp_region st0 m b)
}.

Record CInv (st0 : dstate) (ms0 : list move) (p0 : pass) (ix : list (Z * Z)) (cs : cstate) (new : list move) : Prop := mkCInv {
  ci_wf : WF (cs_st cs);
  ci_ext : ext st0 (cs_st cs);
  ci_moves : cs_moves cs = ms0 ++ new;
  ci_ok : Forall (move_ok st0 (cs_st cs) ix) new;
  ci_tmps : NoDup (map m_tmp new) /\ Forall (fun m => (m_tmp m < length (d_table (cs_st cs)))%nat) new;
  ci_keys : NoDup (map (fun m => (m_srcidx m, m_srcoff m)) new);
  ci_newtemps : forall s e, (length (d_table st0) <= s)%nat -> entry (cs_st cs) s = Some e -> u_temp e = true;
  ci_pass : pass_tracks p0 (cs_pass cs) new;
  ci_within : pass_within (cs_pass cs);
  ci_len : length (d_table (cs_st cs)) = (length (d_table st0) + length new)%nat;
  ci_reg : CReg st0 (cs_st cs) new
}.

Lemma move_ok_ext st0 st st' ix m : ext st st' -> move_ok st0 st ix m -> move_ok st0 st' ix m.
Proof.
  intros He [A B C D (et & E1 & E2) F]. constructor; auto.
  exists et. split; [eapply ext_entry; eauto|exact E2].
Qed.

(* the block list changed without touching the table *)
Lemma cinv_set_st st0 ms0 p0 ix cs new st' :
  CInv st0 ms0 p0 ix cs new -> WF st' -> ext (cs_st cs) st' -> d_table st' = d_table (cs_st cs) ->
  same_live (d_blocks (cs_st cs)) (d_blocks st') ->
  CInv st0 ms0 p0 ix (cs_set_st cs st') new.
Proof.
  intros [A B C D (E1 & E2) F G H I J [K1 K2 K3]] HW He Ht Hbl. constructor; cbn [cs_set_st cs_st cs_moves cs_pass]; auto.
  - eapply ext_trans; eauto.
  - eapply Forall_impl; [|exact D]. intros m. apply move_ok_ext; auto.
  - split; [exact E1|]. rewrite Ht. exact E2.
  - intros s e Hs Hen. apply (G s e Hs). unfold entry in *. rewrite <- Ht. exact Hen.
  - rewrite Ht. exact J.
  - constructor; [rewrite Ht; exact K1|exact K2|].
    eapply live_rel_same; [exact K3|apply (proj1 He)|exact Hbl].
Qed.

Lemma cinv_set_pass st0 ms0 p0 ix cs new p1 :
  CInv st0 ms0 p0 ix cs new ->
  p_stats p1 = p_stats (cs_pass cs) -> p_max_bytes p1 = p_max_bytes (cs_pass cs) ->
  p_max_allocs p1 = p_max_allocs (cs_pass cs) ->
  CInv st0 ms0 p0 ix (cs_set_pass cs p1) new.
Proof.
  intros [A B C D E F G H I J K] H1 H2 H3. constructor; cbn [cs_set_pass cs_st cs_moves cs_pass]; auto.
  - unfold pass_tracks in *. rewrite H1, H2, H3. exact H.
  - unfold pass_within in *. rewrite H1, H2, H3. exact I.
Qed.

(* ------------------------------------------------------------------ registering a move *)

Lemma tmp_tag_ok st e : u_temp e = true -> tag_ok (length (d_table st)) e (tmp_tag st).
Proof.
  intros Ht. unfold tmp_tag, tag_ok. destruct (d_sentinel st); [right; auto|left; reflexivity].
Qed.

Lemma NoDup_app_one {A} (l : list A) x : NoDup l -> ~ In x l -> NoDup (l ++ [x]).
Proof.
  intros Hnd Hn. induction l as [|y l IH]; cbn; [constructor; [tauto|constructor]|].
  inversion Hnd as [|? ? Hy Hl]; subst. constructor.
  - intros Hin. apply in_app_or in Hin. destruct Hin as [Hin|[<-|[]]]; [tauto|]. apply Hn. left. reflexivity.
  - apply IH; auto. intros Hin. apply Hn. right. exact Hin.
Qed.

Lemma zlen_app {A} (a b : list A) : zlen (a ++ b) = zlen a + zlen b.
Proof. unfold zlen. rewrite app_length. lia. Qed.

Definition step_post (st0 : dstate) (ms0 : list move) (p0 : pass) (ix : list (Z * Z)) (bi h : Z)
           (new : list move) (res : cstate * wres) : Prop :=
  exists add, CInv st0 ms0 p0 ix (fst res) (new ++ add) /\
              Forall (key_above_eq bi h) (new ++ add) /\
              snd res <> WPanic PCounters /\
              (snd res = WCont -> pass_running (cs_pass (fst res))).

Lemma commit_move_spec st0 ms0 p0 ix cs new st1 did t t2 slot e bi dstidx off :
  CInv st0 ms0 p0 ix cs new ->
  entry (cs_st cs) slot = Some e -> u_temp e = false -> In (bi, u_blk e) ix ->
  Forall (key_above bi (u_off e)) new ->
  WF st1 -> ext (cs_st cs) st1 -> d_table st1 = d_table (cs_st cs) -> same_live (d_blocks (cs_st cs)) (d_blocks st1) ->
  find_id did (d_blocks st1) = Some t -> TInv t2 -> bcfg t2 -> Inv2 t2 -> t_size t2 = t_size t ->
  (exists l1 l2, live t = l1 ++ l2 /\
     live t2 = l1 ++ new_blk off (u_size e) (tmp_tag st1) (u_kind e) (u_size e) (u_align e) :: l2) ->
  In (dstidx, did) ix ->
  (dstidx < bi \/ (did = u_blk e /\ off < u_off e)) ->
  pass_running (cs_pass cs) -> (ps_bytes_moved (p_stats (cs_pass cs)) + u_size e <= p_max_bytes (cs_pass cs) /\ ps_allocs_moved (p_stats (cs_pass cs)) < p_max_allocs (cs_pass cs)) ->
  step_post st0 ms0 p0 ix bi (u_off e) new (commit_move cs (set_block st1 did t2) slot e bi dstidx did off).
Proof.
  intros [A B C D (E1 & E2) F G H I J [K1 K2 K3]] Hent Htemp Hsrcix Hkeys HW1 Hext1 Htab1 Hbl1 Hfind HT2 Hg2 HI22 Hsz22 Hlive Hdstix Hfwd Hrun Hfit.
  destruct (wf_own _ A _ _ Hent) as (_ & Hpa & Hs1).
  unfold commit_move.
  destruct (increment_counters (cs_pass cs) (u_size e)) as [p' r] eqn:Hinc.
  assert (Hs0 : 0 <= u_size e) by lia.
  destruct (increment_counters_spec _ _ _ _ Hrun Hs0 Hfit Hinc) as (Hnp & Hst & M1 & M2 & _ & Hw' & Hrun').
  set (etmp := mkU did off (u_size e) (u_align e) (u_kind e) (-1) true).
  set (mv := mkMove slot (length (d_table (set_block st1 did t2))) (u_blk e) bi (u_off e) did dstidx off (u_size e)).
  set (st2 := set_table (set_block st1 did t2) (d_table (set_block st1 did t2) ++ [Some etmp])).
  assert (Hst2 : st2 = mkD (set_id did t2 (d_blocks st1)) (d_table st1 ++ [Some etmp]) (d_sentinel st1)) by reflexivity.
  assert (Hlen1 : length (d_table st1) = length (d_table (cs_st cs))) by (rewrite Htab1; reflexivity).
  assert (Hslot0 : (slot < length (d_table st0))%nat).
  { destruct (Nat.lt_ge_cases slot (length (d_table st0))) as [Hlt|Hge]; [exact Hlt|].
    specialize (G _ _ Hge Hent). congruence. }
  assert (Hent0 : entry st0 slot = Some e).
  { destruct B as (_ & _ & _ & B4 & _). rewrite <- (B4 _ Hslot0). exact Hent. }
  assert (HW2 : WF st2).
  { rewrite Hst2. eapply wf_alloc_entry; eauto; cbn [etmp u_blk u_off u_size u_align u_kind u_temp]; auto.
    - apply tmp_tag_ok. reflexivity.
    - apply (wf_rnd _ A _ _ Hent). }
  assert (Hext12 : ext st1 st2) by (rewrite Hst2; apply ext_add; [apply set_id_ids|eapply same_sizes_set; eauto]).
  assert (Hextc2 : ext (cs_st cs) st2) by (eapply ext_trans; eauto).
  exists [mv]. cbn [fst snd].
  split; [|split; [|split]].
  - constructor; cbn [cs_st cs_moves cs_pass].
    + exact HW2.
    + eapply ext_trans; eauto.
    + rewrite C, app_assoc. reflexivity.
    + apply Forall_app. split.
      * eapply Forall_impl; [|exact D]. intros m. apply move_ok_ext. exact Hextc2.
      * constructor; [|constructor]. constructor; cbn [mv m_srcidx m_srcblk m_dstidx m_dstblk m_dstoff m_srcoff m_src m_tmp m_size].
        -- exact Hsrcix.
        -- exact Hdstix.
        -- exact Hfwd.
        -- exists e. auto.
        -- exists etmp. split; [|cbn; auto]. rewrite Hst2. cbn [set_block set_blocks d_table]. apply entry_app_new.
        -- cbn [set_block set_blocks d_table]. destruct B as (_ & _ & B3 & _). lia.
    + split.
      * rewrite map_app. cbn [map mv m_tmp]. apply NoDup_app_one; [exact E1|].
        intros Hin. apply in_map_iff in Hin. destruct Hin as (m & Hm & Hin).
        rewrite Forall_forall in E2. specialize (E2 _ Hin). cbn [set_block set_blocks d_table] in Hm. lia.
      * apply Forall_app. split.
        -- eapply Forall_impl; [|exact E2]. intros m Hm. cbv beta in Hm. rewrite Hst2. cbn [d_table]. rewrite app_length, Hlen1. cbn [length]. lia.
        -- constructor; [|constructor]. rewrite Hst2. cbn [mv m_tmp set_block set_blocks d_table]. rewrite app_length. cbn [length]. lia.
    + rewrite map_app. cbn [map mv m_srcidx m_srcoff]. apply NoDup_app_one; [exact F|].
      intros Hin. apply in_map_iff in Hin. destruct Hin as (m & Hm & Hin).
      rewrite Forall_forall in Hkeys. specialize (Hkeys _ Hin). injection Hm as Hm1 Hm2.
      unfold key_above in Hkeys. lia.
    + intros s e' Hs He'. rewrite Hst2 in He'.
      destruct (lt_eq_lt_dec s (length (d_table st1))) as [[Hlt|Heq]|Hgt].
      * rewrite entry_app_old in He' by exact Hlt. apply (G s e' Hs).
        unfold entry in *. cbn [d_table] in He'. rewrite <- Htab1. exact He'.
      * subst s. rewrite entry_app_new in He'. injection He' as <-. reflexivity.
      * rewrite entry_app_ge in He' by exact Hgt. discriminate.
    + unfold pass_tracks in *. destruct H as (H1 & H2 & H3 & H4 & H5 & H6).
      rewrite Hst, M1, M2. cbn [ps_allocs_moved ps_bytes_moved ps_bytes_freed ps_allocs_freed].
      rewrite zlen_app, map_app, zsum_app. cbn [map zsum mv m_size]. unfold zlen at 2. cbn [length].
      repeat split; auto; lia.
    + exact Hw'.
    + rewrite Hst2. cbn [d_table]. rewrite !app_length, Hlen1, J. cbn [length]. lia.
    + assert (Hmt : m_tmp mv = (length (d_table st0) + length new)%nat).
      { cbn [mv m_tmp set_block set_blocks d_table]. rewrite Hlen1. exact J. }
      assert (Hte : tmp_entry st0 mv = Some etmp).
      { unfold tmp_entry. cbn [mv m_src m_dstblk m_dstoff m_size]. rewrite Hent0. reflexivity. }
      constructor.
      * rewrite Hst2. cbn [d_table]. rewrite Htab1, K1, map_app, <- app_assoc. cbn [map]. rewrite Hte. reflexivity.
      * rewrite map_app, app_length, seq_app, K2. cbn [map length seq]. rewrite Hmt. reflexivity.
      * pose proof (live_rel_same _ _ _ _ K3 (proj1 Hext1) Hbl1) as K3'.
        intros id0 t0 t0' H1 H2. rewrite Hst2 in H2. cbn [d_blocks] in H2.
        rewrite (find_set_id _ _ _ _ _ Hfind) in H2.
        destruct Hlive as (l1 & l2 & Hl & Hl2).
        destruct (id0 =? did) eqn:Eid.
        -- apply Z.eqb_eq in Eid. subst id0. injection H2 as <-.
           destruct (K3' _ _ _ H1 Hfind) as (K3a & K3b). split.
           ++ intros b Hb. apply K3a in Hb. rewrite Hl in Hb. rewrite Hl2.
              apply in_app_or in Hb. apply in_or_app. destruct Hb; [left|right; right]; auto.
           ++ intros b Hb. rewrite Hl2 in Hb. apply in_app_or in Hb.
              assert (Hold : In b (live t) -> In b (live t0) \/ exists m, In m (new ++ [mv]) /\ m_dstblk m = did /\ tmp_region st0 m b).
              { intros Hb'. destruct (K3b _ Hb') as [Hb0|(m & Hm & R)]; [left; exact Hb0|right].
                exists m. split; [apply in_or_app; left; exact Hm|exact R]. }
              destruct Hb as [Hb|[Hb|Hb]].
              ** apply Hold. rewrite Hl. apply in_or_app; auto.
              ** right. exists mv. split; [apply in_or_app; right; left; reflexivity|]. split; [reflexivity|].
                 exists e. split; [exact Hent0|]. subst b. cbn [mv m_dstoff m_size m_tmp set_block set_blocks d_table].
                 unfold tmp_tag, tmp_tag_of. destruct Hext1 as (_ & Hsn1 & _). destruct B as (_ & Hsn0 & _).
                 rewrite Hsn1, Hsn0. reflexivity.
              ** apply Hold. rewrite Hl. apply in_or_app; auto.
        -- destruct (K3' _ _ _ H1 H2) as (K3a & K3b). split; [exact K3a|].
           intros b Hb. destruct (K3b _ Hb) as [Hb0|(m & Hm & R)]; [left; exact Hb0|right].
           exists m. split; [apply in_or_app; left; exact Hm|exact R].
  - apply Forall_app. split.
    + eapply Forall_impl; [|exact Hkeys]. intros m [K|K]; [left; exact K|right; lia].
    + constructor; [|constructor]. right. cbn. lia.
  - destruct r; cbn; congruence.
  - destruct r; cbn; try discriminate. intros _. apply Hrun'. reflexivity.
Qed.

(* ------------------------------------------------------------------ the handlers *)

Lemma key_above_weaken bi h new : Forall (key_above bi h) new -> Forall (key_above_eq bi h) new.
Proof. apply Forall_impl. intros m [K|K]; [left; exact K|right; lia]. Qed.

Lemma step_post_nil st0 ms0 p0 ix bi h new cs' r :
  CInv st0 ms0 p0 ix cs' new -> Forall (key_above bi h) new -> r <> WPanic PCounters ->
  (r = WCont -> pass_running (cs_pass cs')) ->
  step_post st0 ms0 p0 ix bi h new (cs', r).
Proof.
  intros HC Hk Hr Hrun. exists []. rewrite app_nil_r. cbn [fst snd].
  split; [exact HC|]. split; [apply key_above_weaken; exact Hk|]. split; [exact Hr|exact Hrun].
Qed.

Lemma next_alloc_lt t h h' : next_alloc t h = Some h' -> h' < h.
Proof.
  unfold next_alloc. generalize (iterate t). intros l. induction l as [|x l IH]; cbn; [discriminate|].
  destruct (x <? h) eqn:Ex; cbn; [|exact IH]. intros H; injection H as <-. apply Z.ltb_lt. exact Ex.
Qed.

Definition walk_post (st0 : dstate) (ms0 : list move) (p0 : pass) (ix : list (Z * Z))
           (new : list move) (res : cstate * wres) : Prop :=
  exists add, CInv st0 ms0 p0 ix (fst res) (new ++ add) /\
              snd res <> WPanic PCounters /\
              (snd res = WCont -> pass_running (cs_pass (fst res))).

Lemma cinv_init st ms0 p ix : WF st -> pass_running p -> CInv st ms0 p ix (mkCS st ms0 p) [].
Proof.
  intros HW Hrun. constructor; cbn [cs_st cs_moves cs_pass].
  - exact HW.
  - apply ext_refl.
  - rewrite app_nil_r. reflexivity.
  - constructor.
  - split; constructor.
  - constructor.
  - intros s e Hs He. apply entry_lt in He. lia.
  - unfold pass_tracks, zlen. cbn. repeat split; lia.
  - apply running_within. exact Hrun.
  - cbn [length]. lia.
  - constructor; cbn [map length seq]; [rewrite app_nil_r; reflexivity|reflexivity|].
    intros id t t' H1 H2. rewrite H1 in H2. injection H2 as <-. split; auto.
Qed.

Section AttF3.
Variable Env : Type.
Variable att : Env -> nat -> Z -> Env * bool.

Lemma res_f_commit (X : cstate * wres) (env : Env) (lg : list attempt) :
  res_f (let '(cs', r) := X in ((cs', env, lg), r)) = X.
Proof. destruct X as [cs' r]. reflexivity. Qed.

Lemma res_f_log (X : (cstate * Env * list attempt) * wres) (lg : list attempt) :
  res_f (let '((cs', env', lg2), r) := X in ((cs', env', lg ++ lg2), r)) = res_f X.
Proof. destruct X as [[[cs' env'] lg2] r]. reflexivity. Qed.

Lemma try_lower_f_spec st0 ms0 p0 ix cs new bi id t h slot e env :
  CInv st0 ms0 p0 ix cs new -> entry (cs_st cs) slot = Some e -> u_temp e = false ->
  u_blk e = id -> u_off e = h -> In (bi, id) ix -> Forall (key_above bi h) new ->
  find_id id (d_blocks (cs_st cs)) = Some t ->
  pass_running (cs_pass cs) -> (ps_bytes_moved (p_stats (cs_pass cs)) + u_size e <= p_max_bytes (cs_pass cs) /\ ps_allocs_moved (p_stats (cs_pass cs)) < p_max_allocs (cs_pass cs)) ->
  step_post st0 ms0 p0 ix bi h new (res_f (try_lower_f Env att cs bi id t h slot e env)).
Proof.
  intros HC Hent Htemp Hblk Hoff Hix Hkeys Hfind Hrun Hfit.
  pose proof (ci_wf _ _ _ _ _ _ HC) as HW.
  destruct (wf_own _ HW _ _ Hent) as (_ & Hpa & Hs1).
  destruct (wb_tinv _ (wf_b _ HW) _ _ Hfind) as (HT & Hg & HI2).
  unfold try_lower_f.
  destruct (wf_rnd _ HW _ _ Hent) as (Hrs & Hkk).
  pose proof (alloc_lower_f_spec Env att t (u_size e) (u_align e) (u_kind e) h (tmp_tag (cs_st cs)) env slot id HT Hg HI2 Hpa Hs1 Hkk Hrs) as Hs.
  destruct (alloc_lower_f Env att t (u_size e) (u_align e) (u_kind e) h (tmp_tag (cs_st cs)) env slot id) as [[a env'] fl].
  destruct a as [t' off|t'|].
  - destruct Hs as (HT' & Hg' & HI2' & Hlt & _ & Hsz' & Hle). subst h id. rewrite res_f_commit.
    eapply commit_move_spec; eauto; [apply ext_refl|apply same_live_refl].
  - destruct Hs as (HT' & Hg' & HI2' & Hl' & Hsz'). unfold res_f; cbn [fst snd].
    apply step_post_nil; auto; try discriminate.
    apply cinv_set_st; auto.
    + eapply wf_set_same; eauto.
    + eapply ext_set_block; eauto.
    + cbn [set_block set_blocks d_blocks]. eapply same_live_set; eauto.
  - destruct Hs.
Qed.

Lemma lower_if_f_spec st0 ms0 p0 ix cs new bi id h slot e env :
  CInv st0 ms0 p0 ix cs new -> entry (cs_st cs) slot = Some e -> u_temp e = false ->
  u_blk e = id -> u_off e = h -> In (bi, id) ix -> Forall (key_above bi h) new ->
  pass_running (cs_pass cs) -> (ps_bytes_moved (p_stats (cs_pass cs)) + u_size e <= p_max_bytes (cs_pass cs) /\ ps_allocs_moved (p_stats (cs_pass cs)) < p_max_allocs (cs_pass cs)) ->
  step_post st0 ms0 p0 ix bi h new (res_f (lower_if_f Env att cs bi id h slot e env)).
Proof.
  intros HC Hent Htemp Hblk Hoff Hix Hkeys Hrun Hfit. unfold lower_if_f.
  destruct (find_id id (d_blocks (cs_st cs))) as [t|] eqn:Hf.
  - destruct (negb (h =? 0) && may_have_free t (u_kind e) (u_size e)).
    + eapply try_lower_f_spec; eauto.
    + unfold res_f; cbn [fst snd]. apply step_post_nil; auto; discriminate.
  - unfold res_f; cbn [fst snd]. apply step_post_nil; auto; discriminate.
Qed.

Lemma handle_alloc_f_spec st0 ms0 p0 ids cs new algo bi id h slot e env :
  let ix := indexed_from 0 ids in
  CInv st0 ms0 p0 ix cs new -> entry (cs_st cs) slot = Some e -> u_temp e = false ->
  u_blk e = id -> u_off e = h -> In (bi, id) ix -> Forall (key_above bi h) new ->
  pass_running (cs_pass cs) -> (ps_bytes_moved (p_stats (cs_pass cs)) + u_size e <= p_max_bytes (cs_pass cs) /\ ps_allocs_moved (p_stats (cs_pass cs)) < p_max_allocs (cs_pass cs)) ->
  step_post st0 ms0 p0 ix bi h new (res_f (handle_alloc_f Env att algo ix cs bi id h slot e env)).
Proof.
  intros ix HC Hent Htemp Hblk Hoff Hix Hkeys Hrun Hfit.
  pose proof (ci_wf _ _ _ _ _ _ HC) as HW.
  destruct (wf_own _ HW _ _ Hent) as (_ & Hpa & Hs1).
  destruct (wf_rnd _ HW _ _ Hent) as (Hrs & Hkk).
  assert (Hbi : 0 <= bi) by (apply indexed_from_in in Hix; lia).
  pose proof (alloc_other_f_spec Env att (cs_st cs) (firstn (Z.to_nat bi) ix) (u_size e) (u_align e) (u_kind e) env slot HW Hpa Hkk Hrs) as Hs.
  (* the three outcomes of allocInOtherBlock *)
  assert (Hfound : forall st' idx did off env' lg,
            alloc_other_f Env att (cs_st cs) (firstn (Z.to_nat bi) ix) (u_size e) (u_align e) (u_kind e) env slot = (AOFound st' idx did off, env', lg) ->
            step_post st0 ms0 p0 ix bi h new (commit_move cs st' slot e bi idx did off)).
  { intros st' idx did off env' lg Eo. rewrite Eo in Hs.
    destruct Hs as (Hin & _ & st1 & t & t2 & HW1 & He1 & Ht1 & Hf1 & -> & HT2 & Hg2 & HI22 & Hsz22 & Hle & Hbl1).
    apply indexed_from_firstn in Hin. destruct Hin as (Hidx & Hinix). rewrite Z2Nat.id in Hidx by lia.
    subst h id. eapply commit_move_spec; eauto.
    - assert (Htt : tmp_tag st1 = tmp_tag (cs_st cs)).
      { unfold tmp_tag. destruct He1 as (_ & -> & _). rewrite Ht1. reflexivity. }
      rewrite Htt. exact Hle.
    - left. lia. }
  assert (Hnone : forall st' env' lg (b : bool),
            alloc_other_f Env att (cs_st cs) (firstn (Z.to_nat bi) ix) (u_size e) (u_align e) (u_kind e) env slot
              = ((if b then AONone st' else AOPanic st'), env', lg) ->
            CInv st0 ms0 p0 ix (cs_set_st cs st') new /\ entry st' slot = Some e).
  { intros st' env' lg b Eo. rewrite Eo in Hs.
    assert (Hs' : WF st' /\ ext (cs_st cs) st' /\ d_table st' = d_table (cs_st cs) /\ same_live (d_blocks (cs_st cs)) (d_blocks st'))
      by (destruct b; exact Hs).
    destruct Hs' as (HW1 & He1 & Ht1 & Hbl1). split; [apply cinv_set_st; auto|eapply ext_entry; eauto]. }
  unfold handle_alloc_f. fold ix.
  destruct (algo =? 0).
  { eapply lower_if_f_spec; eauto. }
  destruct (alloc_other_f Env att (cs_st cs) (firstn (Z.to_nat bi) ix) (u_size e) (u_align e) (u_kind e) env slot) as [[a env'] lg] eqn:Eo.
  destruct (algo =? 1).
  { destruct (bi =? 0).
    - unfold res_f; cbn [fst snd]. apply step_post_nil; auto; discriminate.
    - destruct a as [st' idx did off|st'|st'].
      + rewrite res_f_commit. eapply Hfound; reflexivity.
      + destruct (Hnone st' env' lg true eq_refl) as (HC' & _).
        unfold res_f; cbn [fst snd]. apply step_post_nil; auto; discriminate.
      + destruct (Hnone st' env' lg false eq_refl) as (HC' & _).
        unfold res_f; cbn [fst snd]. apply step_post_nil; auto; discriminate. }
  destruct (0 <? bi).
  - destruct a as [st' idx did off|st'|st'].
    + rewrite res_f_commit. eapply Hfound; reflexivity.
    + destruct (Hnone st' env' lg true eq_refl) as (HC' & Hent').
      rewrite res_f_log. eapply lower_if_f_spec; eauto.
    + destruct (Hnone st' env' lg false eq_refl) as (HC' & _).
      unfold res_f; cbn [fst snd]. apply step_post_nil; auto; discriminate.
  - eapply lower_if_f_spec; eauto.
Qed.

(* ------------------------------------------------------------------ one visit of the walk *)

Lemma visit_f_spec st0 ms0 p0 ids cs new algo bi id h env :
  let ix := indexed_from 0 ids in
  CInv st0 ms0 p0 ix cs new -> In (bi, id) ix -> Forall (key_above bi h) new ->
  pass_running (cs_pass cs) ->
  step_post st0 ms0 p0 ix bi h new (res_f (visit_f Env att algo ix cs bi id h env)).
Proof.
  intros ix HC Hix Hkeys Hrun. unfold visit_f.
  pose proof (ci_wf _ _ _ _ _ _ HC) as HW.
  destruct (find_id id (d_blocks (cs_st cs))) as [t|] eqn:Hf.
  2:{ unfold res_f; cbn [fst snd]. apply step_post_nil; auto; discriminate. }
  destruct (get_move_data (cs_st cs) t h) as [| |slot e] eqn:Hmd.
  - unfold res_f; cbn [fst snd]. apply step_post_nil; auto; discriminate.
  - unfold res_f; cbn [fst snd]. apply step_post_nil; auto; discriminate.
  - destruct (get_move_data_spec _ _ _ _ _ _ HW Hf Hmd) as (Hent & Htemp & Hblk & Hoff).
    destruct (check_counters (cs_pass cs) (u_size e)) as [p1 c] eqn:Hc.
    destruct (check_counters_frame _ _ _ _ Hc) as (F1 & F2 & F3).
    assert (HC1 : CInv st0 ms0 p0 ix (cs_set_pass cs p1) new) by (apply cinv_set_pass; auto).
    assert (Hrun1 : pass_running (cs_pass (cs_set_pass cs p1))).
    { cbn [cs_set_pass cs_pass]. unfold pass_running in *. rewrite F1, F2, F3. exact Hrun. }
    destruct c.
    + apply check_counters_pass in Hc. destruct Hc as (Hfit & Hlt & _).
      eapply handle_alloc_f_spec; eauto.
      cbn [cs_set_pass cs_pass]. rewrite F1, F2, F3. split; [exact Hfit|exact Hlt].
    + unfold res_f; cbn [fst snd]. apply step_post_nil; auto; discriminate.
    + unfold res_f; cbn [fst snd]. apply step_post_nil; auto; discriminate.
Qed.

(* ------------------------------------------------------------------ the walk *)



Lemma walk_block_f_spec st0 ms0 p0 ids algo fuel : forall cs new bi id h env,
  let ix := indexed_from 0 ids in
  CInv st0 ms0 p0 ix cs new -> In (bi, id) ix -> Forall (key_above bi h) new -> pass_running (cs_pass cs) ->
  exists add, CInv st0 ms0 p0 ix (fst (res_f (walk_block_f Env att fuel algo ix cs bi id h env))) (new ++ add) /\
              Forall (fun m => bi <= m_srcidx m) (new ++ add) /\
              snd (res_f (walk_block_f Env att fuel algo ix cs bi id h env)) <> WPanic PCounters /\
              (snd (res_f (walk_block_f Env att fuel algo ix cs bi id h env)) = WCont ->
               pass_running (cs_pass (fst (res_f (walk_block_f Env att fuel algo ix cs bi id h env))))).
Proof.
  induction fuel as [|f IH]; intros cs new bi id h env ix HC Hix Hkeys Hrun; cbn [walk_block_f].
  - exists []. rewrite app_nil_r. unfold res_f; cbn [fst snd]. split; [exact HC|]. split.
    + eapply Forall_impl; [|exact Hkeys]. intros m [K|K]; lia.
    + split; [discriminate|discriminate].
  - pose proof (visit_f_spec st0 ms0 p0 ids cs new algo bi id h env HC Hix Hkeys Hrun) as Hv. fold ix in Hv.
    destruct (visit_f Env att algo ix cs bi id h env) as [[[cs' env'] lg] r] eqn:Hvis.
    unfold res_f in Hv; cbn [fst snd] in Hv.
    destruct Hv as (add & HC' & Hk' & Hnp & Hrun'). cbn [fst snd] in *.
    assert (Hge : Forall (fun m => bi <= m_srcidx m) (new ++ add)).
    { eapply Forall_impl; [|exact Hk']. intros m [K|K]; lia. }
    destruct r as [| |w];
      [|exists add; unfold res_f; cbn [fst snd]; split; [exact HC'|split; [exact Hge|split; discriminate]]
       |exists add; unfold res_f; cbn [fst snd]; split; [exact HC'|split; [exact Hge|split; [exact Hnp|discriminate]]]].
    destruct (find_id id (d_blocks (cs_st cs'))) as [t'|] eqn:Hf.
    2:{ exists add. unfold res_f; cbn [fst snd]. split; [exact HC'|split; [exact Hge|split; discriminate]]. }
    destruct (next_alloc t' h) as [h'|] eqn:Hn.
    2:{ exists add. unfold res_f; cbn [fst snd]. auto. }
    apply next_alloc_lt in Hn.
    assert (Hk2 : Forall (key_above bi h') (new ++ add)).
    { eapply Forall_impl; [|exact Hk']. intros m [K|K]; [left; exact K|right; lia]. }
    destruct (IH cs' (new ++ add) bi id h' env' HC' Hix Hk2 (Hrun' eq_refl)) as (add2 & R1 & R2 & R3 & R4).
    fold ix in R1, R2, R3, R4. rewrite res_f_log.
    exists (add ++ add2). rewrite app_assoc. auto.
Qed.

Lemma walk_blocks_f_spec st0 ms0 p0 ids algo fuel srcs : forall cs new env,
  let ix := indexed_from 0 ids in
  CInv st0 ms0 p0 ix cs new -> (forall x, In x srcs -> In x ix) -> idx_desc srcs ->
  (forall m x, In m new -> In x srcs -> fst x < m_srcidx m) -> pass_running (cs_pass cs) ->
  walk_post st0 ms0 p0 ix new (res_f (walk_blocks_f Env att fuel algo ix cs srcs env)).
Proof.
  induction srcs as [|[bi id] rest IH]; intros cs new env ix HC Hin Hdesc Habove Hrun; cbn [walk_blocks_f].
  - exists []. rewrite app_nil_r. unfold res_f; cbn [fst snd]. split; [exact HC|]. split; [discriminate|auto].
  - destruct (idx_desc_tail _ _ Hdesc) as (Hdesc' & Hlt).
    assert (Hix : In (bi, id) ix) by (apply Hin; left; reflexivity).
    assert (Hin' : forall x, In x rest -> In x ix) by (intros x Hx; apply Hin; right; exact Hx).
    destruct (find_id id (d_blocks (cs_st cs))) as [t|] eqn:Hf.
    2:{ exists []. rewrite app_nil_r. unfold res_f; cbn [fst snd]. split; [exact HC|]. split; discriminate. }
    destruct (list_begin t) as [|h|] eqn:Hlb.
    + apply IH; auto. intros m x Hm Hx. apply Habove; [exact Hm|right; exact Hx].
    + assert (Hk : Forall (key_above bi h) new).
      { apply Forall_forall. intros m Hm. left. apply (Habove m (bi, id) Hm). left. reflexivity. }
      destruct (walk_block_f_spec st0 ms0 p0 ids algo fuel cs new bi id h env HC Hix Hk Hrun) as (add & R1 & R2 & R3 & R4).
      fold ix in R1, R2, R3, R4.
      destruct (walk_block_f Env att fuel algo ix cs bi id h env) as [[[cs' env'] lg] r] eqn:Hwb.
      unfold res_f in R1, R2, R3, R4; cbn [fst snd] in R1, R2, R3, R4.
      destruct r as [| |w];
        [|exists add; unfold res_f; cbn [fst snd]; split; [exact R1|split; discriminate]
         |exists add; unfold res_f; cbn [fst snd]; split; [exact R1|split; [exact R3|discriminate]]].
      assert (Habove' : forall m x, In m (new ++ add) -> In x rest -> fst x < m_srcidx m).
      { intros m x Hm Hx. rewrite Forall_forall in R2. specialize (R2 _ Hm). specialize (Hlt _ Hx). cbn in Hlt. lia. }
      destruct (IH cs' (new ++ add) env' R1 Hin' Hdesc' Habove' (R4 eq_refl)) as (add2 & S1 & S2 & S3).
      rewrite res_f_log. exists (add ++ add2). rewrite app_assoc. auto.
    + exists []. rewrite app_nil_r. unfold res_f; cbn [fst snd]. split; [exact HC|]. split; discriminate.
Qed.

(* ------------------------------------------------------------------ BlockListCollectMoves *)


(* for ANY attempt function: the invariant of the collected pass *)
Lemma collect_moves_f_inv st c p env :
  WF st -> pass_running p ->
  exists new, CInv st (c_moves c) p (indexed st) (fst (res_f (collect_moves_f Env att st c p env))) new /\
              snd (res_f (collect_moves_f Env att st c p env)) <> WPanic PCounters.
Proof.
  intros HW Hrun. unfold collect_moves_f.
  set (cs0 := mkCS st (c_moves c) p).
  pose proof (cinv_init st (c_moves c) p (indexed st) HW Hrun) as HC0. fold cs0 in HC0.
  assert (Hwalk : forall algo,
    exists new, CInv st (c_moves c) p (indexed st)
                     (fst (res_f (walk_blocks_f Env att (walk_fuel st) algo (indexed st) cs0 (rev (skipn (Z.to_nat (c_immovable c)) (indexed st))) env))) new /\
                snd (res_f (walk_blocks_f Env att (walk_fuel st) algo (indexed st) cs0 (rev (skipn (Z.to_nat (c_immovable c)) (indexed st))) env)) <> WPanic PCounters).
  { intros algo. unfold indexed in *.
    assert (H1 : forall x, In x (rev (skipn (Z.to_nat (c_immovable c)) (indexed_from 0 (map fst (d_blocks st))))) ->
                           In x (indexed_from 0 (map fst (d_blocks st)))) by (intros x; apply srcs_in).
    assert (H3 : forall (m : move) (x : Z * Z), In m [] -> In x (rev (skipn (Z.to_nat (c_immovable c)) (indexed_from 0 (map fst (d_blocks st))))) ->
                                                fst x < m_srcidx m) by (intros m x []).
    destruct (walk_blocks_f_spec st (c_moves c) p (map fst (d_blocks st)) algo (walk_fuel st)
                (rev (skipn (Z.to_nat (c_immovable c)) (indexed_from 0 (map fst (d_blocks st))))) cs0 [] env HC0
                H1 (srcs_desc _ _ _) H3 Hrun)
      as (add & R1 & R2 & _).
    exists ([] ++ add). auto. }
  assert (Hnil : forall r0, r0 <> WPanic PCounters ->
            exists new, CInv st (c_moves c) p (indexed st) (fst (res_f ((cs0, env, @nil attempt), r0))) new /\
                        snd (res_f ((cs0, env, @nil attempt), r0)) <> WPanic PCounters).
  { intros r0 Hr0. exists []. unfold res_f; cbn [fst snd]. split; [exact HC0|exact Hr0]. }
  destruct (1 <? zlen (d_blocks st)).
  - destruct (c_algo c =? 1); [apply Hwalk|]. destruct (c_algo c =? 2); [apply Hwalk|].
    apply Hnil. discriminate.
  - destruct ((zlen (d_blocks st) =? 1) && negb (c_algo c =? 1)); [apply Hwalk|apply Hnil; discriminate].
Qed.

End AttF3.

(* ------------------------------------------------------------------ the log is the trace of att
   For ANY attempt function: att is consulted exactly once per logged attempt, in log order, the
   environment returned is att folded over the log, an attempt is logged AtOk exactly when att
   answered true (metadata.Alloc after a granted request never fails: request_alloc_cfg), and the
   source slot of every logged attempt - refused ones too - is a non-temporary entry of the table
   the pass started from. *)
Section AttTrace.
Variable Env : Type.
Variable att : Env -> nat -> Z -> Env * bool.

Lemma alloc_in_f_tr t size align kind strat mo tag env slot dst :
  TInv t -> bcfg t -> Inv2 t -> pow2 align -> Kok kind ->
  match alloc_in_f Env att t size align kind strat mo tag env slot dst with
  | (AIOk _ _, env', _) => forall m, m_src m = slot -> m_dstblk m = dst -> strace Env att env [AtOk m] env'
  | (AINo _, env', fl) => strace Env att env (fail_log fl slot dst) env'
  | (AIPanic, _, _) => True
  end.
Proof.
  intros HT Hg HI2 Hpa Hk. unfold alloc_in_f.
  destruct (create_request t size align false kind strat mo) as [t1 r| | |] eqn:Hcr; try (cbn [fail_log]; apply st_nil); [|exact I].
  destruct (request_alloc_cfg _ _ _ _ _ _ tag _ _ HT Hg HI2 Hpa Hk Hcr) as (_ & _ & _ & _ & _ & t2 & Hal & _).
  destruct (att env slot dst) as [env' ok] eqn:Ea. destruct ok.
  - rewrite Hal. intros m <- <-. apply st_ok; rewrite Ea; [reflexivity|apply st_nil].
  - cbn [fail_log]. apply st_fail; rewrite Ea; [reflexivity|apply st_nil].
Qed.

Lemma alloc_lower_f_tr t size align kind offset tag env slot dst :
  TInv t -> bcfg t -> Inv2 t -> pow2 align -> Kok kind ->
  match alloc_lower_f Env att t size align kind offset tag env slot dst with
  | (AIOk _ _, env', _) => forall m, m_src m = slot -> m_dstblk m = dst -> strace Env att env [AtOk m] env'
  | (AINo _, env', fl) => strace Env att env (fail_log fl slot dst) env'
  | (AIPanic, _, _) => True
  end.
Proof.
  intros HT Hg HI2 Hpa Hk. unfold alloc_lower_f.
  destruct (create_request t size align false kind 4 offset) as [t1 r| | |] eqn:Hcr; try (cbn [fail_log]; apply st_nil); try exact I.
  destruct (request_alloc_cfg _ _ _ _ _ _ tag _ _ HT Hg HI2 Hpa Hk Hcr) as (_ & _ & _ & _ & _ & t2 & Hal & _).
  destruct (rq_block r <? offset); [|cbn [fail_log]; apply st_nil].
  destruct (att env slot dst) as [env' ok] eqn:Ea. destruct ok.
  - rewrite Hal. intros m <- <-. apply st_ok; rewrite Ea; [reflexivity|apply st_nil].
  - cbn [fail_log]. apply st_fail; rewrite Ea; [reflexivity|apply st_nil].
Qed.

Lemma fail_log_slot fl slot dst : Forall (fun a => at_slot a = slot) (fail_log fl slot dst).
Proof. destruct fl; cbn [fail_log]; [constructor; [reflexivity|constructor]|constructor]. Qed.

Lemma alloc_other_f_tr cands size align kind slot : forall st env,
  WF st -> pow2 align -> Kok kind -> rnd kind size = size ->
  match alloc_other_f Env att st cands size align kind env slot with
  | (AOFound _ _ id _, env', lg) =>
    (forall m, m_src m = slot -> m_dstblk m = id -> strace Env att env (lg ++ [AtOk m]) env') /\
    Forall (fun a => at_slot a = slot) lg
  | (AONone _, env', lg) => strace Env att env lg env' /\ Forall (fun a => at_slot a = slot) lg
  | (AOPanic _, env', lg) => strace Env att env lg env' /\ Forall (fun a => at_slot a = slot) lg
  end.
Proof.
  induction cands as [|[idx id] rest IH]; intros st env HW Hpa Hk Hst; cbn [alloc_other_f].
  - split; [apply st_nil|constructor].
  - destruct (find_id id (d_blocks st)) as [t|] eqn:Hf; [|split; [apply st_nil|constructor]].
    destruct (wb_tinv _ (wf_b _ HW) _ _ Hf) as (HT & Hg & HI2).
    destruct (may_have_free t kind size); [|apply IH; auto].
    pose proof (alloc_in_f_spec Env att t size align kind 0 max_int (tmp_tag st) env slot id HT Hg HI2 Hpa Hk Hst) as Hs.
    pose proof (alloc_in_f_tr t size align kind 0 max_int (tmp_tag st) env slot id HT Hg HI2 Hpa Hk) as Ht.
    destruct (alloc_in_f Env att t size align kind 0 max_int (tmp_tag st) env slot id) as [[a env'] fl].
    destruct a as [t' off|t'|]; [| |destruct Hs].
    + split; [intros m H1 H2; cbn [app]; apply Ht; auto|constructor].
    + destruct Hs as (HT' & Hg' & HI2' & Hl' & Hsz').
      assert (HW2 : WF (set_block st id t')) by (eapply wf_set_same; eauto).
      specialize (IH (set_block st id t') env' HW2 Hpa Hk Hst).
      destruct (alloc_other_f Env att (set_block st id t') rest size align kind env' slot) as [[r env''] lg].
      destruct r as [st' i2 id2 off2|st'|st'].
      * destruct IH as (A & B). split.
        -- intros m H1 H2. rewrite <- app_assoc. eapply strace_app; [exact Ht|apply A; auto].
        -- apply Forall_app. split; [apply fail_log_slot|exact B].
      * destruct IH as (A & B). split; [eapply strace_app; eauto|apply Forall_app; split; [apply fail_log_slot|exact B]].
      * destruct IH as (A & B). split; [eapply strace_app; eauto|apply Forall_app; split; [apply fail_log_slot|exact B]].
Qed.

Lemma lower_if_f_tr cs bi id h slot e env :
  WF (cs_st cs) -> entry (cs_st cs) slot = Some e ->
  strace Env att env (log_f (lower_if_f Env att cs bi id h slot e env)) (env_f (lower_if_f Env att cs bi id h slot e env)) /\
  Forall (fun a => at_slot a = slot) (log_f (lower_if_f Env att cs bi id h slot e env)).
Proof.
  intros HW Hent. unfold lower_if_f.
  destruct (find_id id (d_blocks (cs_st cs))) as [t|] eqn:Hf; [|unfold log_f, env_f; cbn [fst snd]; split; [apply st_nil|constructor]].
  destruct (negb (h =? 0) && may_have_free t (u_kind e) (u_size e)); [|unfold log_f, env_f; cbn [fst snd]; split; [apply st_nil|constructor]].
  destruct (wf_own _ HW _ _ Hent) as (_ & Hpa & Hs1).
  destruct (wf_rnd _ HW _ _ Hent) as (Hrs & Hkk).
  destruct (wb_tinv _ (wf_b _ HW) _ _ Hf) as (HT & Hg & HI2).
  unfold try_lower_f.
  pose proof (alloc_lower_f_spec Env att t (u_size e) (u_align e) (u_kind e) h (tmp_tag (cs_st cs)) env slot id HT Hg HI2 Hpa Hs1 Hkk Hrs) as Hs.
  pose proof (alloc_lower_f_tr t (u_size e) (u_align e) (u_kind e) h (tmp_tag (cs_st cs)) env slot id HT Hg HI2 Hpa Hkk) as Ht.
  destruct (alloc_lower_f Env att t (u_size e) (u_align e) (u_kind e) h (tmp_tag (cs_st cs)) env slot id) as [[a env'] fl].
  destruct a as [t' off|t'|]; [| |destruct Hs].
  - destruct (commit_move _ _ _ _ _ _ _ _) as [cs' r]. unfold log_f, env_f; cbn [fst snd].
    split; [apply Ht; reflexivity|constructor; [reflexivity|constructor]].
  - unfold log_f, env_f; cbn [fst snd]. split; [exact Ht|apply fail_log_slot].
Qed.

Lemma handle_alloc_f_tr algo ix cs bi id h slot e env :
  WF (cs_st cs) -> entry (cs_st cs) slot = Some e ->
  strace Env att env (log_f (handle_alloc_f Env att algo ix cs bi id h slot e env))
         (env_f (handle_alloc_f Env att algo ix cs bi id h slot e env)) /\
  Forall (fun a => at_slot a = slot) (log_f (handle_alloc_f Env att algo ix cs bi id h slot e env)).
Proof.
  intros HW Hent. unfold handle_alloc_f.
  destruct (algo =? 0); [apply lower_if_f_tr; auto|].
  destruct (wf_own _ HW _ _ Hent) as (_ & Hpa & Hs1).
  destruct (wf_rnd _ HW _ _ Hent) as (Hrs & Hkk).
  pose proof (alloc_other_f_spec Env att (cs_st cs) (firstn (Z.to_nat bi) ix) (u_size e) (u_align e) (u_kind e) env slot HW Hpa Hkk Hrs) as Hs.
  pose proof (alloc_other_f_tr (firstn (Z.to_nat bi) ix) (u_size e) (u_align e) (u_kind e) slot (cs_st cs) env HW Hpa Hkk Hrs) as Ht.
  destruct (alloc_other_f Env att (cs_st cs) (firstn (Z.to_nat bi) ix) (u_size e) (u_align e) (u_kind e) env slot) as [[a env'] lg].
  assert (Hfound : forall st' idx did off, a = AOFound st' idx did off ->
            forall X : cstate * wres,
            strace Env att env (log_f (let '(cs', r) := X in ((cs', env', lg ++ [AtOk (commit_mv st' slot e bi idx did off)]), r)))
                   (env_f (let '(cs', r) := X in ((cs', env', lg ++ [AtOk (commit_mv st' slot e bi idx did off)]), r))) /\
            Forall (fun a => at_slot a = slot) (log_f (let '(cs', r) := X in ((cs', env', lg ++ [AtOk (commit_mv st' slot e bi idx did off)]), r)))).
  { intros st' idx did off -> [cs' r]. unfold log_f, env_f; cbn [fst snd]. destruct Ht as (A & B).
    split; [apply A; reflexivity|apply Forall_app; split; [exact B|constructor; [reflexivity|constructor]]]. }
  destruct (algo =? 1).
  { destruct (bi =? 0); [unfold log_f, env_f; cbn [fst snd]; split; [apply st_nil|constructor]|].
    destruct a as [st' idx did off|st'|st'].
    - apply (Hfound st' idx did off eq_refl).
    - unfold log_f, env_f; cbn [fst snd]. exact Ht.
    - unfold log_f, env_f; cbn [fst snd]. exact Ht. }
  destruct (0 <? bi); [|apply lower_if_f_tr; auto].
  destruct a as [st' idx did off|st'|st'].
  - apply (Hfound st' idx did off eq_refl).
  - destruct Hs as (HW1 & He1 & _). destruct Ht as (A & B).
    assert (Hent' : entry st' slot = Some e) by (eapply ext_entry; eauto).
    pose proof (lower_if_f_tr (cs_set_st cs st') bi id h slot e env' HW1 Hent') as (C & D).
    destruct (lower_if_f Env att (cs_set_st cs st') bi id h slot e env') as [[[cs' env''] lg2] r].
    unfold log_f, env_f in *; cbn [fst snd] in *.
    split; [eapply strace_app; eauto|apply Forall_app; split; auto].
  - unfold log_f, env_f; cbn [fst snd]. exact Ht.
Qed.

Lemma visit_f_tr algo ix cs bi id h env :
  WF (cs_st cs) ->
  strace Env att env (log_f (visit_f Env att algo ix cs bi id h env)) (env_f (visit_f Env att algo ix cs bi id h env)) /\
  Forall (fun a => exists e, entry (cs_st cs) (at_slot a) = Some e /\ u_temp e = false) (log_f (visit_f Env att algo ix cs bi id h env)).
Proof.
  intros HW. unfold visit_f.
  destruct (find_id id (d_blocks (cs_st cs))) as [t|] eqn:Hf; [|unfold log_f, env_f; cbn [fst snd]; split; [apply st_nil|constructor]].
  destruct (get_move_data (cs_st cs) t h) as [| |slot e] eqn:Hmd; try (unfold log_f, env_f; cbn [fst snd]; split; [apply st_nil|constructor]).
  destruct (get_move_data_spec _ _ _ _ _ _ HW Hf Hmd) as (Hent & Htemp & _).
  destruct (check_counters (cs_pass cs) (u_size e)) as [p1 c0].
  destruct c0; try (unfold log_f, env_f; cbn [fst snd]; split; [apply st_nil|constructor]).
  destruct (handle_alloc_f_tr algo ix (cs_set_pass cs p1) bi id h slot e env HW Hent) as (A & B).
  split; [exact A|]. eapply Forall_impl; [|exact B]. intros a Ha. rewrite Ha. exists e. auto.
Qed.

(* a non-temporary entry of a state of the pass is an entry of the table the pass started from *)
Lemma cinv_slot st0 ms0 p0 ix cs new s e :
  CInv st0 ms0 p0 ix cs new -> entry (cs_st cs) s = Some e -> u_temp e = false -> entry st0 s = Some e.
Proof.
  intros HC He Ht. destruct (lt_dec s (length (d_table st0))) as [Hlt|Hge].
  - destruct (ci_ext _ _ _ _ _ _ HC) as (_ & _ & _ & Hsame & _). rewrite <- (Hsame s Hlt). exact He.
  - assert (Hle : (length (d_table st0) <= s)%nat) by (apply Nat.nlt_ge; exact Hge).
    rewrite (ci_newtemps _ _ _ _ _ _ HC s e Hle He) in Ht. discriminate Ht.
Qed.

Definition slot_ok (st0 : dstate) (a : attempt) : Prop :=
  exists e, entry st0 (at_slot a) = Some e /\ u_temp e = false.

Lemma walk_block_f_tr st0 ms0 p0 ids algo fuel : forall cs new bi id h env,
  CInv st0 ms0 p0 (indexed_from 0 ids) cs new -> In (bi, id) (indexed_from 0 ids) -> Forall (key_above bi h) new ->
  pass_running (cs_pass cs) ->
  strace Env att env (log_f (walk_block_f Env att fuel algo (indexed_from 0 ids) cs bi id h env))
         (env_f (walk_block_f Env att fuel algo (indexed_from 0 ids) cs bi id h env)) /\
  Forall (slot_ok st0) (log_f (walk_block_f Env att fuel algo (indexed_from 0 ids) cs bi id h env)).
Proof.
  induction fuel as [|f IH]; intros cs new bi id h env HC Hix Hkeys Hrun; cbn [walk_block_f].
  - unfold log_f, env_f; cbn [fst snd]. split; [apply st_nil|constructor].
  - pose proof (visit_f_spec Env att st0 ms0 p0 ids cs new algo bi id h env HC Hix Hkeys Hrun) as Hv.
    pose proof (visit_f_tr algo (indexed_from 0 ids) cs bi id h env (ci_wf _ _ _ _ _ _ HC)) as Ht.
    destruct (visit_f Env att algo (indexed_from 0 ids) cs bi id h env) as [[[cs' env'] lg] r].
    unfold res_f in Hv. unfold log_f, env_f in Ht. cbn [fst snd] in Hv, Ht.
    destruct Hv as (add & HC' & Hk' & _ & Hrun'). cbn [fst snd] in *. destruct Ht as (T1 & T2).
    assert (T2' : Forall (slot_ok st0) lg).
    { eapply Forall_impl; [|exact T2]. intros a (e & E1 & E2). exists e. split; [exact (cinv_slot _ _ _ _ _ _ _ _ HC E1 E2)|exact E2]. }
    destruct r as [| |w]; try (unfold log_f, env_f; cbn [fst snd]; split; [exact T1|exact T2']).
    destruct (find_id id (d_blocks (cs_st cs'))) as [t'|]; [|unfold log_f, env_f; cbn [fst snd]; split; [exact T1|exact T2']].
    destruct (next_alloc t' h) as [h'|] eqn:Hn; [|unfold log_f, env_f; cbn [fst snd]; split; [exact T1|exact T2']].
    apply next_alloc_lt in Hn.
    assert (Hk2 : Forall (key_above bi h') (new ++ add)).
    { eapply Forall_impl; [|exact Hk']. intros m [K|K]; [left; exact K|right; lia]. }
    destruct (IH cs' (new ++ add) bi id h' env' HC' Hix Hk2 (Hrun' eq_refl)) as (R1 & R2).
    destruct (walk_block_f Env att f algo (indexed_from 0 ids) cs' bi id h' env') as [[[cs'' env''] lg2] r2].
    unfold log_f, env_f in *; cbn [fst snd] in *.
    split; [eapply strace_app; eauto|apply Forall_app; split; auto].
Qed.

Lemma walk_blocks_f_tr st0 ms0 p0 ids algo fuel srcs : forall cs new env,
  CInv st0 ms0 p0 (indexed_from 0 ids) cs new -> (forall x, In x srcs -> In x (indexed_from 0 ids)) -> idx_desc srcs ->
  (forall m x, In m new -> In x srcs -> fst x < m_srcidx m) -> pass_running (cs_pass cs) ->
  strace Env att env (log_f (walk_blocks_f Env att fuel algo (indexed_from 0 ids) cs srcs env))
         (env_f (walk_blocks_f Env att fuel algo (indexed_from 0 ids) cs srcs env)) /\
  Forall (slot_ok st0) (log_f (walk_blocks_f Env att fuel algo (indexed_from 0 ids) cs srcs env)).
Proof.
  induction srcs as [|[bi id] rest IH]; intros cs new env HC Hin Hdesc Habove Hrun; cbn [walk_blocks_f].
  - unfold log_f, env_f; cbn [fst snd]. split; [apply st_nil|constructor].
  - destruct (idx_desc_tail _ _ Hdesc) as (Hdesc' & Hlt).
    assert (Hix : In (bi, id) (indexed_from 0 ids)) by (apply Hin; left; reflexivity).
    assert (Hin' : forall x, In x rest -> In x (indexed_from 0 ids)) by (intros x Hx; apply Hin; right; exact Hx).
    destruct (find_id id (d_blocks (cs_st cs))) as [t|]; [|unfold log_f, env_f; cbn [fst snd]; split; [apply st_nil|constructor]].
    destruct (list_begin t) as [|h|]; [|  |unfold log_f, env_f; cbn [fst snd]; split; [apply st_nil|constructor]].
    + eapply IH; eauto. intros m x Hm Hx. apply Habove; [exact Hm|right; exact Hx].
    + assert (Hk : Forall (key_above bi h) new).
      { apply Forall_forall. intros m Hm. left. apply (Habove m (bi, id) Hm). left. reflexivity. }
      destruct (walk_block_f_spec Env att st0 ms0 p0 ids algo fuel cs new bi id h env HC Hix Hk Hrun) as (add & R1 & R2 & _ & R4).
      destruct (walk_block_f_tr st0 ms0 p0 ids algo fuel cs new bi id h env HC Hix Hk Hrun) as (T1 & T2).
      destruct (walk_block_f Env att fuel algo (indexed_from 0 ids) cs bi id h env) as [[[cs' env'] lg] r].
      unfold res_f in R1, R2, R4. unfold log_f, env_f in T1, T2. cbn [fst snd] in R1, R2, R4, T1, T2.
      destruct r as [| |w]; try (unfold log_f, env_f; cbn [fst snd]; split; [exact T1|exact T2]).
      assert (Habove' : forall m x, In m (new ++ add) -> In x rest -> fst x < m_srcidx m).
      { intros m x Hm Hx. rewrite Forall_forall in R2. specialize (R2 _ Hm). specialize (Hlt _ Hx). cbn in Hlt. lia. }
      destruct (IH cs' (new ++ add) env' R1 Hin' Hdesc' Habove' (R4 eq_refl)) as (S1 & S2).
      destruct (walk_blocks_f Env att fuel algo (indexed_from 0 ids) cs' rest env') as [[[cs'' env''] lg2] r2].
      unfold log_f, env_f in *; cbn [fst snd] in *.
      split; [eapply strace_app; eauto|apply Forall_app; split; auto].
Qed.

Theorem collect_moves_f_strace st c p env :
  WF st -> pass_running p ->
  let X := collect_moves_f Env att st c p env in
  strace Env att env (log_f X) (env_f X) /\
  Forall (fun a => exists e, entry st (at_slot a) = Some e /\ u_temp e = false) (log_f X).
Proof.
  intros HW Hrun X. unfold X, collect_moves_f.
  set (cs0 := mkCS st (c_moves c) p).
  pose proof (cinv_init st (c_moves c) p (indexed st) HW Hrun) as HC0. fold cs0 in HC0.
  assert (Hwalk : forall algo,
    let Y := walk_blocks_f Env att (walk_fuel st) algo (indexed st) cs0 (rev (skipn (Z.to_nat (c_immovable c)) (indexed st))) env in
    strace Env att env (log_f Y) (env_f Y) /\ Forall (slot_ok st) (log_f Y)).
  { intros algo. unfold indexed in *.
    assert (H1 : forall x, In x (rev (skipn (Z.to_nat (c_immovable c)) (indexed_from 0 (map fst (d_blocks st))))) ->
                           In x (indexed_from 0 (map fst (d_blocks st)))) by (intros x; apply srcs_in).
    assert (H3 : forall (m : move) (x : Z * Z), In m [] -> In x (rev (skipn (Z.to_nat (c_immovable c)) (indexed_from 0 (map fst (d_blocks st))))) ->
                                                fst x < m_srcidx m) by (intros m x []).
    exact (walk_blocks_f_tr st (c_moves c) p (map fst (d_blocks st)) algo (walk_fuel st)
             (rev (skipn (Z.to_nat (c_immovable c)) (indexed_from 0 (map fst (d_blocks st))))) cs0 [] env HC0
             H1 (srcs_desc _ _ _) H3 Hrun). }
  assert (Hnil : forall r0 : wres,
            strace Env att env (log_f ((cs0, env, @nil attempt), r0)) (env_f ((cs0, env, @nil attempt), r0)) /\
            Forall (slot_ok st) (log_f ((cs0, env, @nil attempt), r0))).
  { intros r0. unfold log_f, env_f; cbn [fst snd]. split; [apply st_nil|constructor]. }
  destruct (1 <? zlen (d_blocks st)).
  - destruct (c_algo c =? 1); [apply Hwalk|]. destruct (c_algo c =? 2); [apply Hwalk|apply Hnil].
  - destruct ((zlen (d_blocks st) =? 1) && negb (c_algo c =? 1)); [apply Hwalk|apply Hnil].
Qed.

End AttTrace.

(* the planner whose commits always succeed (Defrag.collect_moves) is the instance att_ok *)
Lemma collect_moves_inv st c p :
  WF st -> pass_running p ->
  exists new, CInv st (c_moves c) p (indexed st) (fst (collect_moves st c p)) new /\
              snd (collect_moves st c p) <> WPanic PCounters.
Proof.
  intros HW Hrun. destruct (collect_moves_f_inv unit att_ok st c p tt HW Hrun) as (new & HC & Hnp).
  rewrite (proj1 (collect_moves_f_all_ok unit st c p tt)) in HC, Hnp. exists new. auto.
Qed.

(* a collecting pass keeps every block's identity, position, size and granularity: it only
   allocates temporaries inside the blocks (for the whole-allocator model: the device memory
   behind a block still matches the block) *)
Lemma collect_moves_sizes st c p :
  WF st -> pass_running p ->
  map fst (d_blocks (cs_st (fst (collect_moves st c p)))) = map fst (d_blocks st) /\
  forall id t t', find_id id (d_blocks st) = Some t ->
                  find_id id (d_blocks (cs_st (fst (collect_moves st c p)))) = Some t' ->
                  t_size t' = t_size t /\ g_g (t_gran t') = g_g (t_gran t).
Proof.
  intros HW Hrun. destruct (collect_moves_inv st c p HW Hrun) as (new & HC & _).
  pose proof (ci_ext _ _ _ _ _ _ HC) as He. pose proof (ci_wf _ _ _ _ _ _ HC) as HW'.
  split; [apply (proj1 He)|]. intros id t t' H1 H2. split; [eapply ext_sizes; eauto|].
  destruct (wb_tinv _ (wf_b _ HW) _ _ H1) as (_ & (G1 & _) & _).
  destruct (wb_tinv _ (wf_b _ HW') _ _ H2) as (_ & (G2 & _) & _). congruence.
Qed.

(* what a collecting pass does to the table and to the live region records (CReg): new = the moves
   this pass appended to c_moves c *)
Lemma collect_moves_regions st c p :
  WF st -> pass_running p ->
  exists new, cs_moves (fst (collect_moves st c p)) = c_moves c ++ new /\
              new = skipn (length (c_moves c)) (cs_moves (fst (collect_moves st c p))) /\
              CReg st (cs_st (fst (collect_moves st c p))) new /\
              Forall (move_ok st (cs_st (fst (collect_moves st c p))) (indexed st)) new.
Proof.
  intros HW Hrun. destruct (collect_moves_inv st c p HW Hrun) as (new & HC & _). exists new.
  pose proof (ci_moves _ _ _ _ _ _ HC) as Hm. split; [exact Hm|]. split.
  - rewrite Hm, skipn_app, skipn_all, Nat.sub_diag. reflexivity.
  - split; [apply (ci_reg _ _ _ _ _ _ HC)|apply (ci_ok _ _ _ _ _ _ HC)].
Qed.

(* the same in the form the whole-allocator model uses (temporaries tagged with their allocation
   object: d_sentinel = false) *)
Lemma collect_moves_live st c p :
  WF st -> pass_running p -> d_sentinel st = false ->
  let cs := fst (collect_moves st c p) in
  let new := skipn (length (c_moves c)) (cs_moves cs) in
  d_table (cs_st cs) = d_table st ++ map (tmp_entry st) new /\
  map m_tmp new = seq (length (d_table st)) (length new) /\
  forall id t t', find_id id (d_blocks st) = Some t -> find_id id (d_blocks (cs_st cs)) = Some t' ->
    (forall b, In b (live t) -> In b (live t')) /\
    (forall b, In b (live t') -> In b (live t) \/
       exists m es, In m new /\ m_dstblk m = id /\ entry st (m_src m) = Some es /\ u_size es = m_size m /\
                    b = new_blk (m_dstoff m) (m_size m) (Some (Z.of_nat (m_tmp m))) (u_kind es) (m_size m) (u_align es)).
Proof.
  intros HW Hrun Hsn cs new0. destruct (collect_moves_regions st c p HW Hrun) as (new & _ & Hnew & [K1 K2 K3] & Hok).
  fold cs in Hnew, K1, K3, Hok. fold new0 in Hnew. subst new0. rewrite <- Hnew.
  split; [exact K1|]. split; [exact K2|]. intros id t t' H1 H2. destruct (K3 _ _ _ H1 H2) as (A & B).
  split; [exact A|]. intros b Hb. destruct (B b Hb) as [Hb0|(m & Hm & Hd & es & He & Hbe)]; [left; exact Hb0|right].
  exists m, es. split; [exact Hm|]. split; [exact Hd|]. split; [exact He|].
  rewrite Forall_forall in Hok. destruct (Hok m Hm) as [_ _ _ (es' & E1 & _ & _ & _ & E5) _ _].
  rewrite He in E1. injection E1 as <-. split; [exact E5|]. rewrite Hbe. unfold tmp_tag_of. rewrite Hsn. reflexivity.
Qed.

(* the allocation objects a pending move refers to: the source is a user allocation at the
   recorded place, the destination a temporary at the proposed place, both of the move's size *)
Definition reserved (st : dstate) (m : move) : Prop :=
  (exists es, entry st (m_src m) = Some es /\ u_temp es = false /\ u_blk es = m_srcblk m /\
              u_off es = m_srcoff m /\ u_size es = m_size m) /\
  (exists et, entry st (m_tmp m) = Some et /\ u_temp et = true /\ u_blk et = m_dstblk m /\
              u_off et = m_dstoff m /\ u_size et = m_size m).

Lemma move_ok_reserved st0 st ix m : ext st0 st -> move_ok st0 st ix m -> reserved st m.
Proof.
  intros He [_ _ _ (es & E1 & E2) D _]. split; [|exact D]. exists es. split; [eapply ext_entry; eauto|exact E2].
Qed.

Lemma NoDup_map_coarser {A B C} (f : A -> B) (g : A -> C) l :
  NoDup (map f l) -> (forall a b, In a l -> In b l -> g a = g b -> f a = f b) -> NoDup (map g l).
Proof.
  induction l as [|x l IH]; cbn; intros Hnd Hfg; [constructor|].
  inversion Hnd as [|? ? Hx Hl]; subst. constructor.
  - intros Hin. apply in_map_iff in Hin. destruct Hin as (y & Hy & Hin). apply Hx.
    rewrite <- (Hfg y x); [apply in_map; exact Hin|right; exact Hin|left; reflexivity|exact Hy].
  - apply IH; [exact Hl|]. intros a b Ha Hb. apply Hfg; right; auto.
Qed.

Section CollectTheoremsF.
  Variable Env : Type.
  Variable att : Env -> nat -> Z -> Env * bool.
  Variables (st : dstate) (c : dctx) (mb ma : Z) (env : Env).
  Hypothesis HW : WF st.
  Hypothesis Hma : 0 <= ma.
  Hypothesis Hmb : 0 <= mb.
  Hypothesis Hfresh : c_moves c = [].      (* BlockListCompletePass resets the list *)

  Let p := pass_init mb ma.
  Let res := res_f (collect_moves_f Env att st c p env).
  Let cs := fst res.
  Let ix := indexed st.

  Lemma collect_cinv_f : exists new, CInv st [] p ix cs new /\ snd res <> WPanic PCounters /\ cs_moves cs = new.
  Proof.
    destruct (collect_moves_f_inv Env att st c p env HW (pass_init_running mb ma Hmb Hma)) as (new & HC & Hnp).
    rewrite Hfresh in HC. exists new. split; [exact HC|]. split; [exact Hnp|].
    exact (ci_moves _ _ _ _ _ _ HC).
  Qed.

  (* C15 (1): the moves of a pass stay within both limits, the counters never panic, and the
     pass statistics are exactly the proposed moves *)
  Theorem collect_within_limits_f :
    snd res <> WPanic PCounters /\
    zlen (cs_moves cs) <= ma /\ zsum (map m_size (cs_moves cs)) <= mb /\
    ps_allocs_moved (p_stats (cs_pass cs)) = zlen (cs_moves cs) /\
    ps_bytes_moved (p_stats (cs_pass cs)) = zsum (map m_size (cs_moves cs)).
  Proof.
    destruct collect_cinv_f as (new & HC & Hnp & ->). split; [exact Hnp|].
    destruct (ci_pass _ _ _ _ _ _ HC) as (M1 & M2 & A & B & _).
    destruct (ci_within _ _ _ _ _ _ HC) as ((_ & W1) & (_ & W2)).
    cbn [p pass_init p_max_bytes p_max_allocs p_stats ps_zero ps_allocs_moved ps_bytes_moved] in *. lia.
  Qed.

  (* C15 (2): every proposed move goes to an earlier block of the list, or to a lower offset of
     the same block *)
  Theorem moves_forward_f :
    forall m, In m (cs_moves cs) ->
      In (m_srcidx m, m_srcblk m) ix /\ In (m_dstidx m, m_dstblk m) ix /\
      (m_dstidx m < m_srcidx m \/ (m_dstblk m = m_srcblk m /\ m_dstoff m < m_srcoff m)).
  Proof.
    destruct collect_cinv_f as (new & HC & _ & ->). intros m Hm.
    pose proof (ci_ok _ _ _ _ _ _ HC) as Hok. rewrite Forall_forall in Hok.
    destruct (Hok _ Hm) as [A B C _ _ _]. auto.
  Qed.

  (* C07 (3): the source of every proposed move is a live allocation of the caller (not a
     temporary), at the place the move says, and no slot is the source of two moves *)
  Theorem sources_are_user_allocs_once_f :
    (forall m, In m (cs_moves cs) ->
       exists es, entry st (m_src m) = Some es /\ entry (cs_st cs) (m_src m) = Some es /\ u_temp es = false /\
                  u_blk es = m_srcblk m /\ u_off es = m_srcoff m /\ u_size es = m_size m) /\
    NoDup (map m_src (cs_moves cs)) /\ NoDup (map m_tmp (cs_moves cs)) /\
    (forall m m', In m (cs_moves cs) -> In m' (cs_moves cs) -> m_src m <> m_tmp m').
  Proof.
    destruct collect_cinv_f as (new & HC & _ & ->).
    pose proof (ci_ok _ _ _ _ _ _ HC) as Hok. rewrite Forall_forall in Hok.
    split; [|split; [|split]].
    - intros m Hm. destruct (Hok _ Hm) as [_ _ _ (es & E1 & E2) _ _]. exists es.
      split; [exact E1|]. split; [eapply ext_entry; [apply (ci_ext _ _ _ _ _ _ HC)|exact E1]|exact E2].
    - eapply NoDup_map_coarser; [apply (ci_keys _ _ _ _ _ _ HC)|].
      intros a b Ha Hb Hsrc.
      destruct (Hok _ Ha) as [Ia _ _ (ea & A1 & _ & A3 & A4 & _) _ _].
      destruct (Hok _ Hb) as [Ib _ _ (eb & B1 & _ & B3 & B4 & _) _ _].
      rewrite Hsrc in A1. rewrite A1 in B1. injection B1 as <-.
      assert (Hblk : m_srcblk a = m_srcblk b) by congruence.
      assert (Hoff : m_srcoff a = m_srcoff b) by congruence.
      rewrite Hblk in Ia. unfold ix, indexed in Ia, Ib.
      pose proof (indexed_from_id_fun _ _ _ _ _ (wb_ids _ (wf_b _ HW)) Ia Ib). congruence.
    - apply (ci_tmps _ _ _ _ _ _ HC).
    - intros m m' Hm Hm' Heq.
      destruct (Hok _ Hm) as [_ _ _ (es & E1 & _) _ _]. destruct (Hok _ Hm') as [_ _ _ _ _ T].
      apply entry_lt in E1. lia.
  Qed.

  Theorem collect_reserves_f : WF (cs_st cs) /\ ext st (cs_st cs) /\ Forall (reserved (cs_st cs)) (cs_moves cs).
  Proof.
    destruct collect_cinv_f as (new & HC & _ & ->).
    split; [apply (ci_wf _ _ _ _ _ _ HC)|]. split; [apply (ci_ext _ _ _ _ _ _ HC)|].
    eapply Forall_impl; [|apply (ci_ok _ _ _ _ _ _ HC)]. intros m. apply move_ok_reserved. apply (ci_ext _ _ _ _ _ _ HC).
  Qed.
End CollectTheoremsF.

(* the same for the planner whose commits always succeed (the statements of DefragProofs.v) *)
Section CollectTheorems.
  Variables (st : dstate) (c : dctx) (mb ma : Z).
  Hypothesis HW : WF st.
  Hypothesis Hma : 0 <= ma.
  Hypothesis Hmb : 0 <= mb.
  Hypothesis Hfresh : c_moves c = [].

  Let p := pass_init mb ma.
  Let res := collect_moves st c p.
  Let cs := fst res.
  Let ix := indexed st.

  Let Heq : res_f (collect_moves_f unit att_ok st c p tt) = res := proj1 (collect_moves_f_all_ok unit st c p tt).

  Lemma collect_cinv : exists new, CInv st [] p ix cs new /\ snd res <> WPanic PCounters /\ cs_moves cs = new.
  Proof. pose proof (collect_cinv_f unit att_ok st c mb ma tt HW Hma Hmb Hfresh) as H. fold p in H. rewrite Heq in H. exact H. Qed.

  Theorem collect_within_limits :
    snd res <> WPanic PCounters /\
    zlen (cs_moves cs) <= ma /\ zsum (map m_size (cs_moves cs)) <= mb /\
    ps_allocs_moved (p_stats (cs_pass cs)) = zlen (cs_moves cs) /\
    ps_bytes_moved (p_stats (cs_pass cs)) = zsum (map m_size (cs_moves cs)).
  Proof. pose proof (collect_within_limits_f unit att_ok st c mb ma tt HW Hma Hmb Hfresh) as H. fold p in H. rewrite Heq in H. exact H. Qed.

  Theorem moves_forward :
    forall m, In m (cs_moves cs) ->
      In (m_srcidx m, m_srcblk m) ix /\ In (m_dstidx m, m_dstblk m) ix /\
      (m_dstidx m < m_srcidx m \/ (m_dstblk m = m_srcblk m /\ m_dstoff m < m_srcoff m)).
  Proof. pose proof (moves_forward_f unit att_ok st c mb ma tt HW Hma Hmb Hfresh) as H. fold p in H. rewrite Heq in H. exact H. Qed.

  Theorem sources_are_user_allocs_once :
    (forall m, In m (cs_moves cs) ->
       exists es, entry st (m_src m) = Some es /\ entry (cs_st cs) (m_src m) = Some es /\ u_temp es = false /\
                  u_blk es = m_srcblk m /\ u_off es = m_srcoff m /\ u_size es = m_size m) /\
    NoDup (map m_src (cs_moves cs)) /\ NoDup (map m_tmp (cs_moves cs)) /\
    (forall m m', In m (cs_moves cs) -> In m' (cs_moves cs) -> m_src m <> m_tmp m').
  Proof. pose proof (sources_are_user_allocs_once_f unit att_ok st c mb ma tt HW Hma Hmb Hfresh) as H. fold p in H. rewrite Heq in H. exact H. Qed.

  Theorem collect_reserves : WF (cs_st cs) /\ ext st (cs_st cs) /\ Forall (reserved (cs_st cs)) (cs_moves cs).
  Proof. pose proof (collect_reserves_f unit att_ok st c mb ma tt HW Hma Hmb Hfresh) as H. fold p in H. rewrite Heq in H. exact H. Qed.
End CollectTheorems.

(* ================================================================== 6. between collect and complete *)

(* C07 (5): both ends of a pending move are taken regions of their blocks' metadata, of the
   move's size, owned by two different allocation objects, and they do not overlap.  (Inv1 of
   the TLSF model makes all taken regions of a block pairwise disjoint, so no later allocation
   can be placed on either of them while they stay taken.) *)
Theorem both_ends_reserved st m :
  WF st -> reserved st m ->
  exists bs bd,
    holds st (m_srcblk m) (m_srcoff m) bs /\ b_size bs = m_size m /\
    holds st (m_dstblk m) (m_dstoff m) bd /\ b_size bd = m_size m /\
    m_src m <> m_tmp m /\
    (forall s e, entry st s = Some e -> u_blk e = m_srcblk m -> u_off e = m_srcoff m -> s = m_src m) /\
    (forall s e, entry st s = Some e -> u_blk e = m_dstblk m -> u_off e = m_dstoff m -> s = m_tmp m) /\
    (m_srcblk m = m_dstblk m ->
     m_srcoff m + m_size m <= m_dstoff m \/ m_dstoff m + m_size m <= m_srcoff m).
Proof.
  intros HW ((es & S1 & S2 & S3 & S4 & S5) & (et & T1 & T2 & T3 & T4 & T5)).
  destruct (wf_own _ HW _ _ S1) as ((bs & Hs & Hss & _) & _).
  destruct (wf_own _ HW _ _ T1) as ((bd & Hd & Hds & _) & _).
  rewrite S3, S4 in Hs. rewrite T3, T4 in Hd.
  assert (Hne : m_src m <> m_tmp m).
  { intros Heq. rewrite Heq in S1. rewrite S1 in T1. injection T1 as <-. congruence. }
  exists bs, bd. split; [exact Hs|]. split; [congruence|]. split; [exact Hd|]. split; [congruence|].
  split; [exact Hne|]. split; [|split].
  - intros s e He Hb Ho. eapply (wf_inj _ HW); eauto; congruence.
  - intros s e He Hb Ho. eapply (wf_inj _ HW); eauto; congruence.
  - intros Hsame. destruct Hs as (t & F1 & I1 & O1). destruct Hd as (t' & F2 & I2 & O2).
    rewrite Hsame in F1. rewrite F1 in F2. injection F2 as <-.
    destruct (wb_tinv _ (wf_b _ HW) _ _ F1) as ((Hinv & _) & _).
    destruct (inv1_live_sound _ Hinv _ I1) as (_ & _ & _ & _ & _ & Hdisj).
    assert (Hbne : bs <> bd).
    { intros ->. apply Hne. eapply (wf_inj _ HW); eauto; congruence. }
    specialize (Hdisj _ I2 Hbne). rewrite O1, O2, Hss, Hds, S5, T5 in Hdisj. exact Hdisj.
Qed.

Lemma reserved_ext st st' m : ext st st' -> reserved st m -> reserved st' m.
Proof.
  intros He ((es & S1 & S) & (et & T1 & T)). split.
  - exists es. split; [eapply ext_entry; eauto|exact S].
  - exists et. split; [eapply ext_entry; eauto|exact T].
Qed.

(* the caller's own operations between the two halves of a pass keep the reservation *)
Lemma user_alloc_keeps_reserved st id size align kind tag st' r m :
  WF st -> Kok kind -> user_alloc st id size align kind tag = (st', r) -> reserved st m -> reserved st' m.
Proof. intros HW Hk Hu. apply reserved_ext. eapply user_alloc_wf; eauto. Qed.

Lemma free_keeps_reserved st s st' k m :
  WF st -> free_slot st s = (st', k) -> s <> m_src m -> s <> m_tmp m -> reserved st m -> reserved st' m.
Proof.
  intros HW Hf H1 H2 Hr. destruct k.
  - destruct (free_slot_ok _ _ _ HW Hf) as (_ & _ & Hoth & _).
    destruct Hr as ((es & S1 & S) & (et & T1 & T)). split.
    + exists es. rewrite Hoth by auto. auto.
    + exists et. rewrite Hoth by auto. auto.
  - rewrite (free_slot_fail _ _ _ _ Hf); [exact Hr|discriminate].
  - rewrite (free_slot_fail _ _ _ _ Hf); [exact Hr|discriminate].
  - rewrite (free_slot_fail _ _ _ _ Hf); [exact Hr|discriminate].
Qed.

(* ================================================================== 7. completing a pass *)

Lemma step_setud_spec t h tag t' :
  TInv t -> bcfg t -> Inv2 t -> set_user_data t h tag = Some t' ->
  TInv t' /\ bcfg t' /\ Inv2 t' /\
  exists l1 b l2, live t = l1 ++ b :: l2 /\ b_off b = h /\ live t' = l1 ++ with_tag b tag :: l2.
Proof.
  intros HT Hg HI2 Hs. pose proof (step_preserves t (OSetUD h tag) HT I) as Hst. cbn [step] in Hst. rewrite Hs in Hst.
  cbn [fst snd live_effect o_kind out] in Hst. destruct Hst as (HT' & Hle & _).
  split; [exact HT'|]. split; [|split; [eapply set_user_data_inv2; eauto; apply HT|exact Hle]].
  pose proof HT as (Hinv & _). destruct (set_user_data_spec _ _ _ _ Hinv Hs) as (_ & Hgr & _).
  assert (Est : t' = fst (step t (OSetUD h tag))) by (cbn [step]; rewrite Hs; reflexivity).
  rewrite Est. apply bcfg_step; auto; [exact I|exact I| |]; rewrite <- Est, Hgr; reflexivity.
Qed.

(* set_ud on the state: the block list afterwards *)
Lemma set_ud_ok st id off tag st' :
  WFB (d_blocks st) -> set_ud st id off tag = (st', ROk) ->
  exists b0, holds st id off b0 /\ WFB (d_blocks st') /\ st' = set_blocks st (d_blocks st') /\
    map fst (d_blocks st') = map fst (d_blocks st) /\
    forall id' off' b, holds st' id' off' b <->
      (id' = id /\ off' = off /\ b = with_tag b0 tag) \/ (holds st id' off' b /\ ~ (id' = id /\ off' = off)).
Proof.
  intros HB. unfold set_ud. destruct (find_id id (d_blocks st)) as [t|] eqn:Hf; [|discriminate].
  destruct (set_user_data t off tag) as [t'|] eqn:Hs; [|discriminate]. intros H; injection H as <-.
  destruct (wb_tinv _ HB _ _ Hf) as (HT & Hg & HI2).
  destruct (step_setud_spec _ _ _ _ HT Hg HI2 Hs) as (HT' & Hg' & HI2' & l1 & b0 & l2 & Hl & Hb & Hl').
  exists b0. split.
  { exists t. split; [exact Hf|]. split; [rewrite Hl; apply in_or_app; right; left; reflexivity|exact Hb]. }
  split; [eapply wfb_set; eauto|]. split; [reflexivity|]. split; [apply set_id_ids|].
  intros id' off' b. unfold holds, set_block; cbn [set_blocks d_blocks]. rewrite <- Hb.
  eapply holdsb_tag; eauto.
Qed.

(* swapBlockAllocation as a whole: two allocation objects of equal size exchange their regions *)
Lemma wf_exchange st bl1 bl2 s1 s2 e1 e2 b1 b2 :
  WF st -> s1 <> s2 -> entry st s1 = Some e1 -> entry st s2 = Some e2 -> u_size e1 = u_size e2 ->
  WFB bl2 ->
  holds st (u_blk e1) (u_off e1) b1 -> holds st (u_blk e2) (u_off e2) b2 ->
  (forall id' off' b, holdsb bl1 id' off' b <->
      (id' = u_blk e1 /\ off' = u_off e1 /\ b = with_tag b1 (Some (Z.of_nat s2))) \/
      (holds st id' off' b /\ ~ (id' = u_blk e1 /\ off' = u_off e1))) ->
  (forall id' off' b, holdsb bl2 id' off' b <->
      (id' = u_blk e2 /\ off' = u_off e2 /\ b = with_tag b2 (Some (Z.of_nat s1))) \/
      (holdsb bl1 id' off' b /\ ~ (id' = u_blk e2 /\ off' = u_off e2))) ->
  let e1' := mkU (u_blk e2) (u_off e2) (u_size e1) (u_align e1) (u_kind e1) (u_tag e1) (u_temp e1) in
  let e2' := mkU (u_blk e1) (u_off e1) (u_size e2) (u_align e2) (u_kind e2) (u_tag e2) (u_temp e2) in
  WF (set_blocks (set_entry (set_entry st s1 (Some e1')) s2 (Some e2')) bl2).
Proof.
  intros HW Hne He1 He2 Hsz HB2 Hb1 Hb2 Hc1 Hc2 e1' e2'.
  set (st' := set_blocks (set_entry (set_entry st s1 (Some e1')) s2 (Some e2')) bl2).
  assert (Hlt1 : (s1 < length (d_table st))%nat) by (eapply entry_lt; eauto).
  assert (Hlt2 : (s2 < length (d_table st))%nat) by (eapply entry_lt; eauto).
  assert (Hent1 : entry st' s1 = Some e1').
  { unfold st'. change (entry (set_entry (set_entry st s1 (Some e1')) s2 (Some e2')) s1 = Some e1').
    rewrite entry_set_other by auto. apply entry_set_same. exact Hlt1. }
  assert (Hent2 : entry st' s2 = Some e2').
  { unfold st'. change (entry (set_entry (set_entry st s1 (Some e1')) s2 (Some e2')) s2 = Some e2').
    apply entry_set_same. cbn. rewrite update_nth_length. exact Hlt2. }
  assert (Hent3 : forall s, s <> s1 -> s <> s2 -> entry st' s = entry st s).
  { intros s H1 H2. unfold st'. change (entry (set_entry (set_entry st s1 (Some e1')) s2 (Some e2')) s = entry st s).
    rewrite entry_set_other by auto. apply entry_set_other. auto. }
  assert (HL : ~ (u_blk e2 = u_blk e1 /\ u_off e2 = u_off e1)).
  { intros (A & B). apply Hne. eapply (wf_inj _ HW); eauto. }
  destruct (wf_own _ HW _ _ He1) as ((b1' & Hb1' & Hs1 & _) & Hpa1 & Hsz1).
  destruct (wf_own _ HW _ _ He2) as ((b2' & Hb2' & Hs2 & _) & Hpa2 & Hsz2).
  pose proof (holdsb_fun _ _ _ _ _ (wf_b _ HW) Hb1 Hb1') as <-.
  pose proof (holdsb_fun _ _ _ _ _ (wf_b _ HW) Hb2 Hb2') as <-.
  (* every allocation object of st' sits where one of st sat: the exchange permutes s1 and s2 *)
  assert (Horig : forall s e, entry st' s = Some e ->
            exists s0 e0, entry st s0 = Some e0 /\ u_blk e = u_blk e0 /\ u_off e = u_off e0 /\
                          (s = s1 -> s0 = s2) /\ (s = s2 -> s0 = s1) /\ (s <> s1 -> s <> s2 -> s0 = s)).
  { intros s e He. destruct (Nat.eq_dec s s1) as [->|N1]; [|destruct (Nat.eq_dec s s2) as [->|N2]].
    - rewrite Hent1 in He. injection He as <-. exists s2, e2. cbn. repeat split; auto; congruence.
    - rewrite Hent2 in He. injection He as <-. exists s1, e1. cbn. repeat split; auto; congruence.
    - rewrite Hent3 in He by auto. exists s, e. repeat split; auto; congruence. }
  constructor.
  - exact HB2.
  - intros s e He. destruct (Nat.eq_dec s s1) as [->|N1]; [|destruct (Nat.eq_dec s s2) as [->|N2]].
    + rewrite Hent1 in He. injection He as <-. cbn [e1' u_blk u_off u_size u_align]. split; [|auto].
      exists (with_tag b2 (Some (Z.of_nat s1))). split; [|split].
      * unfold holds, st'; cbn [set_blocks d_blocks]. apply Hc2. left. auto.
      * cbn. congruence.
      * left. reflexivity.
    + rewrite Hent2 in He. injection He as <-. cbn [e2' u_blk u_off u_size u_align]. split; [|auto].
      exists (with_tag b1 (Some (Z.of_nat s2))). split; [|split].
      * unfold holds, st'; cbn [set_blocks d_blocks]. apply Hc2. right. split.
        -- apply Hc1. left. auto.
        -- intros (A & B). apply HL. auto.
      * cbn. congruence.
      * left. reflexivity.
    + rewrite Hent3 in He by auto. destruct (wf_own _ HW _ _ He) as ((b & Hh & R) & P). split; [|exact P].
      exists b. split; [|exact R]. unfold holds, st'; cbn [set_blocks d_blocks]. apply Hc2. right. split.
      * apply Hc1. right. split; [exact Hh|]. intros (A & B). apply N1. eapply (wf_inj _ HW); eauto.
      * intros (A & B). apply N2. eapply (wf_inj _ HW); eauto.
  - intros id' off' b Hh. unfold holds, st' in Hh; cbn [set_blocks d_blocks] in Hh. apply Hc2 in Hh.
    destruct Hh as [(-> & -> & _)|(Hh & N2)].
    + exists s1, e1'. cbn. auto.
    + apply Hc1 in Hh. destruct Hh as [(-> & -> & _)|(Hh & N1)].
      * exists s2, e2'. cbn. auto.
      * destruct (wf_owned _ HW _ _ _ Hh) as (s & e & He & A & B). exists s, e. split; [|auto].
        rewrite Hent3; [exact He| |].
        -- intros ->. rewrite He1 in He. injection He as <-. apply N1. auto.
        -- intros ->. rewrite He2 in He. injection He as <-. apply N2. auto.
  - intros sa sb ea eb Ha Hb Hblk Hoff.
    destruct (Horig _ _ Ha) as (a0 & ea0 & A1 & A2 & A3 & A4 & A5 & A6).
    destruct (Horig _ _ Hb) as (b0 & eb0 & B1 & B2 & B3 & B4 & B5 & B6).
    assert (H0 : a0 = b0) by (eapply (wf_inj _ HW); eauto; congruence).
    destruct (Nat.eq_dec sa s1) as [->|Na1]; [|destruct (Nat.eq_dec sa s2) as [->|Na2]];
      (destruct (Nat.eq_dec sb s1) as [->|Nb1]; [|destruct (Nat.eq_dec sb s2) as [->|Nb2]]);
      try reflexivity;
      repeat match goal with
             | H : ?x = ?x -> _ |- _ => specialize (H eq_refl)
             | H : ?x <> ?y -> _, N : ?x <> ?y |- _ => specialize (H N)
             end; try congruence.
  - intros s e He. destruct (Nat.eq_dec s s1) as [->|N1]; [|destruct (Nat.eq_dec s s2) as [->|N2]].
    + rewrite Hent1 in He. injection He as <-. cbn [e1' u_kind u_size]. apply (wf_rnd _ HW _ _ He1).
    + rewrite Hent2 in He. injection He as <-. cbn [e2' u_kind u_size]. apply (wf_rnd _ HW _ _ He2).
    + rewrite Hent3 in He by auto. apply (wf_rnd _ HW _ _ He).
Qed.

(* ------------------------------------------------------------------ the operation handler *)

Definition same_frame (st st' : dstate) : Prop :=
  map fst (d_blocks st') = map fst (d_blocks st) /\ d_sentinel st' = d_sentinel st /\
  length (d_table st') = length (d_table st).

Lemma same_frame_trans a b c : same_frame a b -> same_frame b c -> same_frame a c.
Proof. intros (A1 & A2 & A3) (B1 & B2 & B3). unfold same_frame. repeat split; congruence. Qed.

(* what one completed move does to the allocation objects; d: 0 copy, 1 ignore, 2 destroy *)
Definition move_effect (d : Z) (m : move) (st st' : dstate) : Prop :=
  same_frame st st' /\
  entry st' (m_tmp m) = None /\
  (forall s, s <> m_src m -> s <> m_tmp m -> entry st' s = entry st s) /\
  (d = 1 -> entry st' (m_src m) = entry st (m_src m)) /\
  (d = 2 -> entry st' (m_src m) = None) /\
  (d = 0 -> exists es, entry st (m_src m) = Some es /\
     entry st' (m_src m) = Some (mkU (m_dstblk m) (m_dstoff m) (u_size es) (u_align es) (u_kind es) (u_tag es) (u_temp es))).

Lemma bind_k_ok r f st' : bind_k r f = (st', ROk) -> snd r = ROk /\ f (fst r) = (st', ROk).
Proof.
  unfold bind_k. destruct r as [st1 k]. cbn [fst snd]. destruct k; intros H; try (injection H as _ H; discriminate).
  split; [reflexivity|exact H].
Qed.

Lemma handler_move_spec st m d st' :
  WF st -> reserved st m -> (d = 0 \/ d = 1 \/ d = 2) -> handler_move st m d = (st', ROk) ->
  WF st' /\ move_effect d m st st'.
Proof.
  intros HW ((es & S1 & S2 & S3 & S4 & S5) & (et & T1 & T2 & T3 & T4 & T5)) Hd.
  assert (Hne : m_src m <> m_tmp m).
  { intros Heq. rewrite Heq in S1. rewrite S1 in T1. injection T1 as <-. congruence. }
  unfold handler_move. rewrite S1, T1.
  destruct (d =? 1) eqn:E1.
  { (* ignore *)
    apply Z.eqb_eq in E1. subst d. intros Hf.
    destruct (free_slot_ok _ _ _ HW Hf) as (HW' & Hn & Hoth & F1 & F2 & F3).
    split; [exact HW'|]. split; [repeat split; auto|]. split; [exact Hn|]. split; [intros s A B; apply Hoth; auto|].
    split; [intros _; apply Hoth; auto|]. split; intros; lia. }
  destruct (d =? 2) eqn:E2.
  { (* destroy *)
    apply Z.eqb_eq in E2. subst d. intros Hb. apply bind_k_ok in Hb. destruct Hb as (Hk & Hf2).
    destruct (free_slot st (m_src m)) as [st1 k1] eqn:Hf1. cbn [fst snd] in *. subst k1.
    destruct (free_slot_ok _ _ _ HW Hf1) as (HW1 & Hn1 & Hoth1 & A1 & A2 & A3).
    destruct (free_slot_ok _ _ _ HW1 Hf2) as (HW2 & Hn2 & Hoth2 & B1 & B2 & B3).
    split; [exact HW2|]. split; [unfold same_frame; repeat split; congruence|]. split; [exact Hn2|].
    split; [intros s A B; rewrite Hoth2, Hoth1 by auto; reflexivity|].
    split; [intros; lia|]. split; [intros _; rewrite Hoth2 by auto; exact Hn1|intros; lia]. }
  (* copy *)
  assert (d = 0) by (apply Z.eqb_neq in E1, E2; lia). subst d. clear E1 E2 Hd.
  intros Hb. apply bind_k_ok in Hb. destruct Hb as (Hk1 & Hb).
  destruct (set_ud st (u_blk es) (u_off es) (Some (Z.of_nat (m_tmp m)))) as [st1 k1] eqn:Hu1. cbn [fst snd] in *. subst k1.
  destruct (set_ud_ok _ _ _ _ _ (wf_b _ HW) Hu1) as (b1 & Hh1 & HB1 & Hst1 & Hids1 & Hc1).
  set (es' := mkU (u_blk et) (u_off et) (u_size es) (u_align es) (u_kind es) (u_tag es) (u_temp es)) in *.
  set (et' := mkU (u_blk es) (u_off es) (u_size et) (u_align et) (u_kind et) (u_tag et) (u_temp et)) in *.
  set (st2 := set_entry (set_entry st1 (m_src m) (Some es')) (m_tmp m) (Some et')) in *.
  apply bind_k_ok in Hb. destruct Hb as (Hk3 & Hf).
  destruct (set_ud st2 (u_blk es') (u_off es') (Some (Z.of_nat (m_src m)))) as [st3 k3] eqn:Hu3. cbn [fst snd] in *. subst k3.
  assert (HB2 : WFB (d_blocks st2)) by exact HB1.
  destruct (set_ud_ok _ _ _ _ _ HB2 Hu3) as (b2 & Hh2 & HB3 & Hst3 & Hids3 & Hc3).
  cbn [es' u_blk u_off] in Hh2, Hc3.
  assert (HL : ~ (u_blk et = u_blk es /\ u_off et = u_off es)).
  { intros (A & B). apply Hne. eapply (wf_inj _ HW); eauto. }
  assert (Hh2' : holds st (u_blk et) (u_off et) b2).
  { change (holds st1 (u_blk et) (u_off et) b2) in Hh2. apply Hc1 in Hh2.
    destruct Hh2 as [(A & B & _)|(Hh & _)]; [exfalso; apply HL; auto|exact Hh]. }
  assert (HW3 : WF st3).
  { rewrite Hst3. unfold st2. rewrite Hst1.
    change (WF (set_blocks (set_entry (set_entry st (m_src m) (Some es')) (m_tmp m) (Some et')) (d_blocks st3))).
    eapply (wf_exchange st (d_blocks st1) (d_blocks st3) (m_src m) (m_tmp m) es et b1 b2); eauto; try congruence. }
  assert (Hlt1 : (m_src m < length (d_table st))%nat) by (eapply entry_lt; eauto).
  assert (Hlt2 : (m_tmp m < length (d_table st))%nat) by (eapply entry_lt; eauto).
  assert (Htab3 : d_table st3 = d_table st2) by (rewrite Hst3; reflexivity).
  assert (Htab1 : d_table st1 = d_table st) by (rewrite Hst1; reflexivity).
  assert (Hent_src : entry st3 (m_src m) = Some es').
  { unfold entry. rewrite Htab3. unfold st2. cbn [set_entry set_table d_table].
    rewrite nth_update_other by auto. rewrite nth_update_same by (rewrite Htab1; exact Hlt1).
    destruct (nth_error (d_table st1) (m_src m)) eqn:En; [reflexivity|].
    apply nth_error_None in En. rewrite Htab1 in En. lia. }
  assert (Hent_oth : forall s, s <> m_src m -> s <> m_tmp m -> entry st3 s = entry st s).
  { intros s A B. unfold entry. rewrite Htab3. unfold st2. cbn [set_entry set_table d_table].
    rewrite !nth_update_other by auto. rewrite Htab1. reflexivity. }
  destruct (free_slot_ok _ _ _ HW3 Hf) as (HW' & Hn & Hoth & F1 & F2 & F3).
  split; [exact HW'|].
  split.
  { unfold same_frame. split; [|split].
    - rewrite F1, Hids3. unfold st2. cbn [set_entry set_table d_blocks]. exact Hids1.
    - rewrite F2, Hst3. cbn. rewrite Hst1. reflexivity.
    - rewrite F3, Htab3. unfold st2. cbn [set_entry set_table d_table]. rewrite !update_nth_length, Htab1. reflexivity. }
  split; [exact Hn|]. split; [intros s A B; rewrite Hoth by auto; apply Hent_oth; auto|].
  split; [intros; lia|]. split; [intros; lia|]. intros _. exists es. split; [exact S1|].
  rewrite Hoth by auto. rewrite Hent_src. unfold es'. rewrite T3, T4. reflexivity.
Qed.

(* ------------------------------------------------------------------ the handler cannot fail *)

(* With the second TLSF invariant (free lists consistent) in WF, every metadata call the handler
   makes succeeds: Free of a live region, SetAllocationUserData of a live region. *)
Lemma free_slot_succeeds st s e : WF st -> entry st s = Some e -> exists st', free_slot st s = (st', ROk).
Proof.
  intros HW He. destruct (wf_own _ HW _ _ He) as ((b & (t & Hf & Hin & Ho) & _) & _).
  destruct (wb_tinv _ (wf_b _ HW) _ _ Hf) as (HT & _ & HI2).
  destruct (tlsf_free_live_succeeds t b HT HI2 Hin) as (t' & Hst & _).
  cbn [step] in Hst. rewrite Ho in Hst. unfold free_slot. rewrite He, Hf.
  destruct (tlsf_free t (u_off e)) as [t1| |]; [eexists; reflexivity|injection Hst as _ H; discriminate|injection Hst as _ H; discriminate].
Qed.

Lemma set_ud_succeeds st id off tag b :
  WFB (d_blocks st) -> holds st id off b -> exists st', set_ud st id off tag = (st', ROk).
Proof.
  intros HB (t & Hf & Hin & Ho). destruct (wb_tinv _ HB _ _ Hf) as (([Hgeo _ _ _] & _) & _).
  destruct (live_in_chain _ _ Hin) as (Hc & Hfree).
  pose proof (find_blk_unique _ _ _ (g_chain _ Hgeo) Hc) as Hfb. rewrite Ho in Hfb.
  unfold set_ud, set_user_data. rewrite Hf, Hfb, Hfree. eexists. reflexivity.
Qed.

Lemma handler_move_total st m d :
  WF st -> reserved st m -> (d = 0 \/ d = 1 \/ d = 2) -> exists st', handler_move st m d = (st', ROk).
Proof.
  intros HW ((es & S1 & S2 & S3 & S4 & S5) & (et & T1 & T2 & T3 & T4 & T5)) Hd.
  assert (Hne : m_src m <> m_tmp m).
  { intros Heq. rewrite Heq in S1. rewrite S1 in T1. injection T1 as <-. congruence. }
  unfold handler_move. rewrite S1, T1.
  destruct (d =? 1) eqn:E1; [eapply free_slot_succeeds; eauto|].
  destruct (d =? 2) eqn:E2.
  { destruct (free_slot_succeeds _ _ _ HW S1) as (st1 & Hf1). rewrite Hf1. unfold bind_k. cbn [fst snd].
    destruct (free_slot_ok _ _ _ HW Hf1) as (HW1 & _ & Hoth & _).
    eapply free_slot_succeeds; [exact HW1|]. rewrite Hoth by auto. exact T1. }
  assert (d = 0) by (apply Z.eqb_neq in E1, E2; lia). subst d. clear E1 E2 Hd.
  destruct (wf_own _ HW _ _ S1) as ((b1 & Hh1 & _) & _).
  destruct (wf_own _ HW _ _ T1) as ((b2 & Hh2 & _) & _).
  destruct (set_ud_succeeds st (u_blk es) (u_off es) (Some (Z.of_nat (m_tmp m))) b1 (wf_b _ HW) Hh1) as (st1 & Hu1).
  rewrite Hu1. unfold bind_k at 1. cbn [fst snd].
  destruct (set_ud_ok _ _ _ _ _ (wf_b _ HW) Hu1) as (b1' & Hh1' & HB1 & Hst1 & Hids1 & Hc1).
  set (es' := mkU (u_blk et) (u_off et) (u_size es) (u_align es) (u_kind es) (u_tag es) (u_temp es)) in *.
  set (et' := mkU (u_blk es) (u_off es) (u_size et) (u_align et) (u_kind et) (u_tag et) (u_temp et)) in *.
  set (st2 := set_entry (set_entry st1 (m_src m) (Some es')) (m_tmp m) (Some et')) in *.
  assert (HL : ~ (u_blk et = u_blk es /\ u_off et = u_off es)).
  { intros (A & B). apply Hne. eapply (wf_inj _ HW); eauto. }
  assert (Hh2' : holds st2 (u_blk et) (u_off et) b2).
  { change (holds st1 (u_blk et) (u_off et) b2). apply Hc1. right. split; [exact Hh2|exact HL]. }
  assert (HB2 : WFB (d_blocks st2)) by exact HB1.
  destruct (set_ud_succeeds st2 (u_blk es') (u_off es') (Some (Z.of_nat (m_src m))) b2 HB2 Hh2') as (st3 & Hu3).
  rewrite Hu3. unfold bind_k. cbn [fst snd].
  destruct (set_ud_ok _ _ _ _ _ HB2 Hu3) as (b2' & Hh2'' & HB3 & Hst3 & Hids3 & Hc3).
  cbn [es' u_blk u_off] in Hh2'', Hc3.
  assert (Hh2o : holds st (u_blk et) (u_off et) b2').
  { change (holds st1 (u_blk et) (u_off et) b2') in Hh2''. apply Hc1 in Hh2''.
    destruct Hh2'' as [(A & B & _)|(Hh & _)]; [exfalso; apply HL; auto|exact Hh]. }
  assert (HW3 : WF st3).
  { rewrite Hst3. unfold st2. rewrite Hst1.
    change (WF (set_blocks (set_entry (set_entry st (m_src m) (Some es')) (m_tmp m) (Some et')) (d_blocks st3))).
    eapply (wf_exchange st (d_blocks st1) (d_blocks st3) (m_src m) (m_tmp m) es et b1' b2'); eauto; try congruence. }
  assert (Hlt2 : (m_tmp m < length (d_table st))%nat) by (eapply entry_lt; eauto).
  assert (Hent_tmp : entry st3 (m_tmp m) = Some et').
  { unfold entry. rewrite Hst3. cbn [set_blocks d_table]. unfold st2. cbn [set_entry set_table d_table].
    rewrite nth_update_same by (rewrite update_nth_length, Hst1; exact Hlt2).
    destruct (nth_error (update_nth (m_src m) (fun _ => Some es') (d_table st1)) (m_tmp m)) eqn:En; [reflexivity|].
    apply nth_error_None in En. rewrite update_nth_length, Hst1 in En. cbn in En. lia. }
  eapply free_slot_succeeds; eauto.
Qed.

(* ------------------------------------------------------------------ the per-move loop *)

Lemma norm_decision_cases d : norm_decision d = 0 \/ norm_decision d = 1 \/ norm_decision d = 2.
Proof.
  unfold norm_decision. destruct (d =? 1) eqn:E1; [apply Z.eqb_eq in E1; cbn; auto|].
  destruct (d =? 2) eqn:E2; [apply Z.eqb_eq in E2; cbn; auto|]. cbn. auto.
Qed.

(* the moves decided Copy *)
Fixpoint copies (ms : list move) (ds : list Z) : list move :=
  match ms with
  | [] => []
  | m :: r => if norm_decision (hd 0 ds) =? 0 then m :: copies r (tl ds) else copies r (tl ds)
  end.

Definition moved_to (es : uent) (m : move) : uent :=
  mkU (m_dstblk m) (m_dstoff m) (u_size es) (u_align es) (u_kind es) (u_tag es) (u_temp es).

(* the outcome of every move of the pass, st0 = before BlockListCompletePass, st' = after *)
Fixpoint outcomes (st0 st' : dstate) (ms : list move) (ds : list Z) : Prop :=
  match ms with
  | [] => True
  | m :: r =>
    let d := norm_decision (hd 0 ds) in
    (d = 0 -> exists es, entry st0 (m_src m) = Some es /\ entry st' (m_src m) = Some (moved_to es m)) /\
    (d = 1 -> entry st' (m_src m) = entry st0 (m_src m)) /\
    (d = 2 -> entry st' (m_src m) = None) /\
    entry st' (m_tmp m) = None /\
    outcomes st0 st' r (tl ds)
  end.

Lemma outcomes_base a b st' ms ds :
  (forall m, In m ms -> entry a (m_src m) = entry b (m_src m)) -> outcomes a st' ms ds -> outcomes b st' ms ds.
Proof.
  revert ds; induction ms as [|m r IH]; intros ds Heq; cbn [outcomes]; [auto|].
  intros (A & B & C & D & E). rewrite <- (Heq m) by (left; reflexivity).
  split; [exact A|]. split; [exact B|]. split; [exact C|]. split; [exact D|].
  apply IH; [|exact E]. intros m' Hm'. apply Heq. right. exact Hm'.
Qed.

Lemma complete_moves_err ms : forall cp ds cp' pk,
  cp_err cp = true -> complete_moves cp ms ds = (cp', pk) -> cp_err cp' = true.
Proof.
  induction ms as [|m r IH]; intros cp ds cp' pk He; cbn [complete_moves].
  - intros H; injection H as <- _. exact He.
  - destruct (blocks_stats (d_blocks (cp_st cp))) as [pc pb].
    destruct (handler_move (cp_st cp) m (norm_decision (hd 0 ds))) as [st1 k].
    destruct k.
    + destruct (blocks_stats (d_blocks st1)) as [ac ab]. apply IH. exact He.
    + apply IH. reflexivity.
    + apply IH. reflexivity.
    + intros H; injection H as <- _. exact He.
Qed.

Lemma in_app_l {A} (x : A) a b : In x a -> In x (a ++ b).
Proof. intros. apply in_or_app. auto. Qed.
Lemma in_app_r {A} (x : A) a b : In x b -> In x (a ++ b).
Proof. intros. apply in_or_app. auto. Qed.

Lemma complete_moves_ok ms : forall cp ds cp',
  WF (cp_st cp) -> Forall (reserved (cp_st cp)) ms -> NoDup (map m_src ms ++ map m_tmp ms) ->
  complete_moves cp ms ds = (cp', false) -> cp_err cp' = false ->
  WF (cp_st cp') /\ same_frame (cp_st cp) (cp_st cp') /\
  (forall s, ~ In s (map m_src ms) -> ~ In s (map m_tmp ms) -> entry (cp_st cp') s = entry (cp_st cp) s) /\
  outcomes (cp_st cp) (cp_st cp') ms ds /\
  p_max_bytes (cp_pass cp') = p_max_bytes (cp_pass cp) /\ p_max_allocs (cp_pass cp') = p_max_allocs (cp_pass cp) /\
  ps_allocs_moved (p_stats (cp_pass cp')) = ps_allocs_moved (p_stats (cp_pass cp)) - (zlen ms - zlen (copies ms ds)) /\
  ps_bytes_moved (p_stats (cp_pass cp')) =
    ps_bytes_moved (p_stats (cp_pass cp)) - (zsum (map m_size ms) - zsum (map m_size (copies ms ds))) /\
  (copies ms ds = ms -> cp_imm cp' = cp_imm cp).
Proof.
  induction ms as [|m r IH]; intros cp ds cp' HW Hres Hnd; cbn [complete_moves].
  - intros H _; injection H as <-. unfold same_frame, zlen.
    cbn [map zsum length copies Z.of_nat outcomes].
    split; [exact HW|]. split; [repeat split|]. split; [reflexivity|]. split; [exact I|].
    split; [reflexivity|]. split; [reflexivity|]. split; [lia|]. split; [lia|reflexivity].
  - destruct (blocks_stats (d_blocks (cp_st cp))) as [pc pb].
    set (d := norm_decision (hd 0 ds)).
    destruct (handler_move (cp_st cp) m d) as [st1 k] eqn:Hh.
    inversion Hres as [|? ? Hrm Hrr]; subst.
    cbn [map] in Hnd.
    assert (Hnd_r : NoDup (map m_src r ++ map m_tmp r)).
    { inversion Hnd as [|? ? _ Hn]; subst. apply NoDup_remove_1 in Hn. exact Hn. }
    assert (Hsrc_fresh : ~ In (m_src m) (map m_src r) /\ ~ In (m_src m) (map m_tmp r)).
    { inversion Hnd as [|? ? Hn _]; subst. split; intros Hin; apply Hn.
      - apply in_app_l. exact Hin.
      - apply in_app_r. right. exact Hin. }
    assert (Htmp_fresh : ~ In (m_tmp m) (map m_src r) /\ ~ In (m_tmp m) (map m_tmp r)).
    { inversion Hnd as [|? ? _ Hn]; subst. apply NoDup_remove_2 in Hn. split; intros Hin; apply Hn.
      - apply in_app_l. exact Hin.
      - apply in_app_r. exact Hin. }
    assert (Hne : m_src m <> m_tmp m).
    { inversion Hnd as [|? ? Hn _]; subst. intros Heq. apply Hn. apply in_app_r. left. auto. }
    destruct k.
    + (* the handler succeeded *)
      destruct (blocks_stats (d_blocks st1)) as [ac ab].
      destruct (handler_move_spec _ _ _ _ HW Hrm (norm_decision_cases _) Hh) as (HW1 & Hfr & Htn & Hoth & E1 & E2 & E0).
      set (cp1 := mkCP st1 _ _ _).
      intros Hcm Herr.
      assert (Hres1 : Forall (reserved (cp_st cp1)) r).
      { cbn [cp1 cp_st]. apply Forall_forall. intros m' Hm'. rewrite Forall_forall in Hrr. specialize (Hrr _ Hm').
        assert (Hs' : m_src m' <> m_src m /\ m_src m' <> m_tmp m).
        { split; intros Heq.
          - apply (proj1 Hsrc_fresh). rewrite <- Heq. apply in_map. exact Hm'.
          - apply (proj1 Htmp_fresh). rewrite <- Heq. apply in_map. exact Hm'. }
        assert (Ht' : m_tmp m' <> m_src m /\ m_tmp m' <> m_tmp m).
        { split; intros Heq.
          - apply (proj2 Hsrc_fresh). rewrite <- Heq. apply in_map. exact Hm'.
          - apply (proj2 Htmp_fresh). rewrite <- Heq. apply in_map. exact Hm'. }
        destruct Hrr as ((es & S1 & S) & (et & T1 & T)). split.
        - exists es. rewrite Hoth by tauto. auto.
        - exists et. rewrite Hoth by tauto. auto. }
      destruct (IH cp1 (tl ds) cp' HW1 Hres1 Hnd_r Hcm Herr) as (HW' & Hfr' & Hun & Hout & M1 & M2 & A & B & Himm).
      cbn [cp1 cp_st cp_pass cp_imm set_stats p_max_bytes p_max_allocs p_stats] in *.
      split; [exact HW'|]. split; [eapply same_frame_trans; eauto|].
      split.
      { intros s N1 N2. cbn [map In] in N1, N2. rewrite Hun by tauto. apply Hoth; intuition congruence. }
      split.
      { cbn [outcomes]. fold d.
        rewrite (Hun (m_src m)) by tauto. rewrite (Hun (m_tmp m)) by tauto.
        split; [exact E0|]. split; [exact E1|]. split; [exact E2|]. split; [exact Htn|].
        eapply outcomes_base; [|exact Hout]. intros m' Hm'. apply Hoth.
        - intros Heq. apply (proj1 Hsrc_fresh). rewrite <- Heq. apply in_map. exact Hm'.
        - intros Heq. apply (proj1 Htmp_fresh). rewrite <- Heq. apply in_map. exact Hm'. }
      split; [exact M1|]. split; [exact M2|].
      cbn [copies]. fold d. unfold zlen in *. cbn [map zsum length].
      destruct (norm_decision_cases (hd 0 ds)) as [Hd|[Hd|Hd]]; fold d in Hd; rewrite Hd in *; cbn [Z.eqb Pos.eqb orb andb] in *.
      * cbn [ps_allocs_moved ps_bytes_moved map zsum length] in *.
        split; [rewrite A; lia|]. split; [rewrite B; lia|].
        intros Hc. injection Hc as Hc. rewrite (Himm Hc). reflexivity.
      * cbn [ps_allocs_moved ps_bytes_moved] in *. split; [rewrite A; lia|]. split; [rewrite B; lia|].
        intros Hc. exfalso.
        assert (Hl : (length (copies r (tl ds)) <= length r)%nat).
        { clear. generalize (tl ds). induction r as [|x r IHr]; intros l; cbn; [lia|].
          destruct (norm_decision (hd 0 l) =? 0); cbn; specialize (IHr (tl l)); lia. }
        rewrite Hc in Hl. cbn in Hl. lia.
      * cbn [ps_allocs_moved ps_bytes_moved] in *. split; [rewrite A; lia|]. split; [rewrite B; lia|].
        intros Hc. exfalso.
        assert (Hl : (length (copies r (tl ds)) <= length r)%nat).
        { clear. generalize (tl ds). induction r as [|x r IHr]; intros l; cbn; [lia|].
          destruct (norm_decision (hd 0 l) =? 0); cbn; specialize (IHr (tl l)); lia. }
        rewrite Hc in Hl. cbn in Hl. lia.
    + intros Hcm Herr. apply complete_moves_err in Hcm; [congruence|reflexivity].
    + intros Hcm Herr. apply complete_moves_err in Hcm; [congruence|reflexivity].
    + intros H; injection H as _ H; discriminate.
Qed.

(* the per-move loop never panics and never records a handler error *)
Lemma complete_moves_total ms : forall cp ds,
  WF (cp_st cp) -> Forall (reserved (cp_st cp)) ms -> NoDup (map m_src ms ++ map m_tmp ms) ->
  exists cp', complete_moves cp ms ds = (cp', false) /\ cp_err cp' = cp_err cp.
Proof.
  induction ms as [|m r IH]; intros cp ds HW Hres Hnd; cbn [complete_moves].
  - exists cp. auto.
  - destruct (blocks_stats (d_blocks (cp_st cp))) as [pc pb].
    set (d := norm_decision (hd 0 ds)).
    inversion Hres as [|? ? Hrm Hrr]; subst. cbn [map] in Hnd.
    destruct (handler_move_total _ _ d HW Hrm (norm_decision_cases _)) as (st1 & Hh). rewrite Hh.
    destruct (blocks_stats (d_blocks st1)) as [ac ab].
    destruct (handler_move_spec _ _ _ _ HW Hrm (norm_decision_cases _) Hh) as (HW1 & _ & _ & Hoth & _).
    assert (Hnd_r : NoDup (map m_src r ++ map m_tmp r)).
    { inversion Hnd as [|? ? _ Hn]; subst. apply NoDup_remove_1 in Hn. exact Hn. }
    assert (Hsrc_fresh : ~ In (m_src m) (map m_src r) /\ ~ In (m_src m) (map m_tmp r)).
    { inversion Hnd as [|? ? Hn _]; subst. split; intros Hin; apply Hn.
      - apply in_app_l. exact Hin.
      - apply in_app_r. right. exact Hin. }
    assert (Htmp_fresh : ~ In (m_tmp m) (map m_src r) /\ ~ In (m_tmp m) (map m_tmp r)).
    { inversion Hnd as [|? ? _ Hn]; subst. apply NoDup_remove_2 in Hn. split; intros Hin; apply Hn.
      - apply in_app_l. exact Hin.
      - apply in_app_r. exact Hin. }
    match goal with |- exists cp', complete_moves ?x r (tl ds) = _ /\ _ => set (cp1 := x) end.
    assert (Hres1 : Forall (reserved (cp_st cp1)) r).
    { cbn [cp1 cp_st]. apply Forall_forall. intros m' Hm'. rewrite Forall_forall in Hrr. specialize (Hrr _ Hm').
      assert (Hs' : m_src m' <> m_src m /\ m_src m' <> m_tmp m).
      { split; intros Heq.
        - apply (proj1 Hsrc_fresh). rewrite <- Heq. apply in_map. exact Hm'.
        - apply (proj1 Htmp_fresh). rewrite <- Heq. apply in_map. exact Hm'. }
      assert (Ht' : m_tmp m' <> m_src m /\ m_tmp m' <> m_tmp m).
      { split; intros Heq.
        - apply (proj2 Hsrc_fresh). rewrite <- Heq. apply in_map. exact Hm'.
        - apply (proj2 Htmp_fresh). rewrite <- Heq. apply in_map. exact Hm'. }
      destruct Hrr as ((es & S1 & S) & (et & T1 & T)). split.
      - exists es. rewrite Hoth by tauto. auto.
      - exists et. rewrite Hoth by tauto. auto. }
    destruct (IH cp1 (tl ds) HW1 Hres1 Hnd_r) as (cp' & E & Herr). exists cp'. split; [exact E|exact Herr].
Qed.

(* ------------------------------------------------------------------ swapImmovableBlocks only permutes the list *)


Lemma perm_update_head {A} (l : list A) j b x :
  nth_error l j = Some b -> Permutation (b :: update_nth j (fun _ => x) l) (x :: l).
Proof.
  revert j; induction l as [|y l IH]; intros j Hj; [destruct j; discriminate|].
  destruct j as [|j]; cbn in *.
  - injection Hj as ->. apply perm_swap.
  - eapply perm_trans; [apply perm_swap|]. eapply perm_trans; [apply perm_skip; apply IH; exact Hj|]. apply perm_swap.
Qed.

Lemma swap_nth_perm {A} (l : list A) : forall i j, Permutation (swap_nth i j l) l.
Proof.
  induction l as [|x l IH]; intros i j; unfold swap_nth.
  - destruct i; cbn; apply Permutation_refl.
  - destruct i as [|i]; destruct j as [|j]; cbn [nth_error].
    + cbn. apply Permutation_refl.
    + destruct (nth_error l j) as [b|] eqn:Hj; [|apply Permutation_refl]. cbn [update_nth].
      apply perm_update_head. exact Hj.
    + destruct (nth_error l i) as [a|] eqn:Hi; [|apply Permutation_refl]. cbn [update_nth].
      apply perm_update_head. exact Hi.
    + specialize (IH i j). unfold swap_nth in IH.
      destruct (nth_error l i) as [a|]; [|apply Permutation_refl].
      destruct (nth_error l j) as [b|]; [|apply Permutation_refl].
      cbn [update_nth]. apply perm_skip. exact IH.
Qed.

Lemma swap_all_perm ids : forall bl immc acc bl' immc' sws,
  swap_all bl immc ids acc = (bl', immc', sws) -> Permutation bl' bl.
Proof.
  induction ids as [|id r IH]; intros bl immc acc bl' immc' sws; cbn [swap_all].
  - intros H; injection H as <- _ _. apply Permutation_refl.
  - unfold swap_immovable. destruct (index_from id (skipn (Z.to_nat immc) bl) immc) as [i|].
    + intros H. apply IH in H. eapply perm_trans; [exact H|apply swap_nth_perm].
    + apply IH.
Qed.

Lemma swap_all_nil bl immc acc : swap_all bl immc [] acc = (bl, immc, acc).
Proof. reflexivity. Qed.

Lemma find_id_in_iff bl id t : NoDup (map fst bl) -> (find_id id bl = Some t <-> In (id, t) bl).
Proof.
  induction bl as [|[i t0] r IH]; cbn; intros Hnd; [split; [discriminate|tauto]|].
  inversion Hnd as [|? ? Hn Hr]; subst. destruct (i =? id) eqn:E.
  - apply Z.eqb_eq in E. subst i. split.
    + intros H; injection H as <-. left. reflexivity.
    + intros [H|H]; [injection H as <-; reflexivity|]. exfalso. apply Hn. apply (in_map fst) in H. exact H.
  - apply Z.eqb_neq in E. rewrite (IH Hr). split; [auto|]. intros [H|H]; [injection H as -> _; congruence|exact H].
Qed.

Lemma find_id_perm bl bl' id : NoDup (map fst bl) -> Permutation bl' bl -> find_id id bl' = find_id id bl.
Proof.
  intros Hnd Hp.
  assert (Hnd' : NoDup (map fst bl')).
  { eapply Permutation_NoDup; [apply Permutation_map; apply Permutation_sym; exact Hp|exact Hnd]. }
  destruct (find_id id bl) as [t|] eqn:E.
  - apply find_id_in_iff; [exact Hnd'|]. apply find_id_in_iff in E; [|exact Hnd].
    eapply Permutation_in; [apply Permutation_sym; exact Hp|exact E].
  - destruct (find_id id bl') as [t|] eqn:E'; [|reflexivity].
    apply find_id_in_iff in E'; [|exact Hnd']. eapply Permutation_in in E'; [|exact Hp].
    apply find_id_in_iff in E'; [|exact Hnd]. congruence.
Qed.

Lemma wf_perm st bl' : WF st -> Permutation bl' (d_blocks st) -> WF (set_blocks st bl').
Proof.
  intros HW Hp. pose proof (wb_ids _ (wf_b _ HW)) as Hnd.
  apply wf_same_blocks; [exact HW| |].
  - constructor.
    + eapply Permutation_NoDup; [apply Permutation_map; apply Permutation_sym; exact Hp|exact Hnd].
    + intros id t. rewrite (find_id_perm _ _ id Hnd Hp). apply (wb_tinv _ (wf_b _ HW)).
  - intros id' off' b. unfold holds, holdsb. rewrite (find_id_perm _ _ id' Hnd Hp). tauto.
Qed.

(* ------------------------------------------------------------------ BlockListCompletePass *)

Lemma outcomes_blocks st0 x bl ms ds : outcomes st0 (set_blocks x bl) ms ds <-> outcomes st0 x ms ds.
Proof.
  revert ds; induction ms as [|m r IH]; intros ds; cbn [outcomes]; [tauto|].
  rewrite IH. change (entry (set_blocks x bl) (m_src m)) with (entry x (m_src m)).
  change (entry (set_blocks x bl) (m_tmp m)) with (entry x (m_tmp m)). tauto.
Qed.

Section CompleteTheorems.
  Variables (st : dstate) (c : dctx) (p : pass) (ds ord : list Z).
  Hypothesis HW : WF st.
  Hypothesis Hres : Forall (reserved st) (c_moves c).
  Hypothesis Hnd : NoDup (map m_src (c_moves c) ++ map m_tmp (c_moves c)).

  Let r := complete_pass st c p ds ord.
  Let ms := c_moves c.

  (* every handler call succeeds (second TLSF invariant): the pass completes without error *)
  Lemma complete_pass_ok : r_kind r = ROk.
  Proof.
    unfold r, complete_pass. fold ms.
    destruct (complete_moves_total ms (mkCP st p [] false) ds HW Hres Hnd) as (cp & E & Herr). rewrite E.
    destruct (swap_all _ _ _ _) as [[bl immc] sws]. cbn [r_kind]. cbn [cp_err] in Herr. rewrite Herr. reflexivity.
  Qed.


  Lemma complete_pass_inv :
    exists cp, complete_moves (mkCP st p [] false) ms ds = (cp, false) /\ cp_err cp = false /\
               d_table (r_st r) = d_table (cp_st cp) /\ Permutation (d_blocks (r_st r)) (d_blocks (cp_st cp)) /\
               d_sentinel (r_st r) = d_sentinel (cp_st cp) /\ r_pass r = cp_pass cp /\
               c_moves (r_ctx r) = [] /\ c_algo (r_ctx r) = c_algo c /\
               (cp_imm cp = [] -> r_st r = cp_st cp /\ c_immovable (r_ctx r) = c_immovable c).
  Proof.
    pose proof complete_pass_ok as Hok.
    unfold r, complete_pass in *. fold ms in Hok |- *.
    destruct (complete_moves (mkCP st p [] false) ms ds) as [cp pk] eqn:Hcm.
    destruct pk; [cbn in Hok; discriminate|].
    destruct (swap_all (d_blocks (cp_st cp)) (c_immovable c) (swap_order ord (cp_imm cp)) []) as [[bl immc] sws] eqn:Hsw.
    cbn [r_kind r_st r_pass r_ctx] in *. exists cp. split; [reflexivity|].
    split; [destruct (cp_err cp); [discriminate|reflexivity]|].
    split; [reflexivity|]. split; [eapply swap_all_perm; eauto|]. split; [reflexivity|]. split; [reflexivity|].
    split; [reflexivity|]. split; [reflexivity|].
    intros Himm. rewrite Himm in Hsw. unfold swap_order in Hsw.
    assert (Hnil : filter (fun x => mem_zb x []) (dedup ord []) = []).
    { generalize (dedup ord []). intros l. induction l; cbn; auto. }
    rewrite Hnil in Hsw. cbn in Hsw. injection Hsw as <- <- _. split; [destruct (cp_st cp); reflexivity|reflexivity].
  Qed.

  Lemma complete_pass_moves :
    exists cp, complete_moves (mkCP st p [] false) ms ds = (cp, false) /\ cp_err cp = false /\
      WF (cp_st cp) /\ same_frame st (cp_st cp) /\
      (forall s, ~ In s (map m_src ms) -> ~ In s (map m_tmp ms) -> entry (cp_st cp) s = entry st s) /\
      outcomes st (cp_st cp) ms ds /\
      p_max_bytes (cp_pass cp) = p_max_bytes p /\ p_max_allocs (cp_pass cp) = p_max_allocs p /\
      ps_allocs_moved (p_stats (cp_pass cp)) = ps_allocs_moved (p_stats p) - (zlen ms - zlen (copies ms ds)) /\
      ps_bytes_moved (p_stats (cp_pass cp)) =
        ps_bytes_moved (p_stats p) - (zsum (map m_size ms) - zsum (map m_size (copies ms ds))) /\
      (copies ms ds = ms -> cp_imm cp = []).
  Proof.
    destruct complete_pass_inv as (cp & Hcm & Herr & _).
    exists cp. split; [exact Hcm|]. split; [exact Herr|].
    exact (complete_moves_ok ms (mkCP st p [] false) ds cp HW Hres Hnd Hcm Herr).
  Qed.

  (* C07: when the pass is complete the invariants of the block list hold again; the blocks are
     the same blocks (possibly reordered by swapImmovableBlocks), no allocation object was added *)
  Theorem complete_pass_wf :
    WF (r_st r) /\ Permutation (map fst (d_blocks (r_st r))) (map fst (d_blocks st)) /\
    d_sentinel (r_st r) = d_sentinel st /\ length (d_table (r_st r)) = length (d_table st) /\
    c_moves (r_ctx r) = [].
  Proof.
    destruct complete_pass_inv as (cp & Hcm & _ & Ht & Hp & Hs & _ & Hmv & _).
    destruct complete_pass_moves as (cp' & Hcm' & _ & HW' & (F1 & F2 & F3) & _).
    rewrite Hcm in Hcm'. injection Hcm' as <-.
    assert (Heq : r_st r = set_blocks (cp_st cp) (d_blocks (r_st r))).
    { destruct (r_st r) as [b t s]. cbn in *. unfold set_blocks. cbn. congruence. }
    split; [rewrite Heq; apply wf_perm; auto|]. split; [rewrite <- F1; apply Permutation_map; exact Hp|].
    split; [congruence|]. split; [rewrite Ht; exact F3|exact Hmv].
  Qed.

  (* C07 (6): the outcome of every move: Copy -> the slot is now at the proposed destination,
     Ignore -> unchanged, Destroy -> gone (size, alignment, kind, tag of a survivor unchanged: see
     moved_to); every temporary is gone; slots not named in any move are untouched *)
  Theorem move_outcome :
    outcomes st (r_st r) ms ds /\
    (forall s, ~ In s (map m_src ms) -> ~ In s (map m_tmp ms) -> entry (r_st r) s = entry st s).
  Proof.
    destruct complete_pass_inv as (cp & Hcm & _ & Ht & _).
    destruct complete_pass_moves as (cp' & Hcm' & _ & _ & _ & Hun & Hout & _).
    rewrite Hcm in Hcm'. injection Hcm' as <-.
    assert (Hent : forall s, entry (r_st r) s = entry (cp_st cp) s) by (intros s; unfold entry; rewrite Ht; reflexivity).
    split.
    - assert (Heq : r_st r = set_blocks (cp_st cp) (d_blocks (r_st r))).
      { destruct complete_pass_inv as (cp2 & Hcm2 & _ & Ht2 & _ & Hs2 & _). rewrite Hcm in Hcm2. injection Hcm2 as <-.
        destruct (r_st r) as [b t s]. cbn in *. unfold set_blocks. cbn. congruence. }
      rewrite Heq. apply outcomes_blocks. exact Hout.
    - intros s A B. rewrite Hent. apply Hun; auto.
  Qed.

  (* C15 (4): after the pass, AllocationsMoved / BytesMoved are the number / bytes of the moves
     decided Copy (p = the pass as BlockListCollectMoves left it: counters = all proposed moves) *)
  Theorem stats_match :
    ps_allocs_moved (p_stats p) = zlen ms -> ps_bytes_moved (p_stats p) = zsum (map m_size ms) ->
    ps_allocs_moved (p_stats (r_pass r)) = zlen (copies ms ds) /\
    ps_bytes_moved (p_stats (r_pass r)) = zsum (map m_size (copies ms ds)).
  Proof.
    intros Ha Hb. destruct complete_pass_inv as (cp & Hcm & _ & _ & _ & _ & Hp & _).
    destruct complete_pass_moves as (cp' & Hcm' & _ & _ & _ & _ & _ & _ & _ & A & B & _).
    rewrite Hcm in Hcm'. injection Hcm' as <-. rewrite Hp, A, B, Ha, Hb. lia.
  Qed.

  (* a pass in which every move is copied leaves the order of the blocks alone *)
  Lemma all_copy_no_swap :
    copies ms ds = ms ->
    map fst (d_blocks (r_st r)) = map fst (d_blocks st) /\ c_immovable (r_ctx r) = c_immovable c.
  Proof.
    intros Hc. destruct complete_pass_inv as (cp & Hcm & _ & _ & _ & _ & _ & _ & _ & Himm).
    destruct complete_pass_moves as (cp' & Hcm' & _ & _ & (F1 & _) & _ & _ & _ & _ & _ & _ & Hi).
    rewrite Hcm in Hcm'. injection Hcm' as <-. destruct (Himm (Hi Hc)) as (E1 & E2).
    rewrite E1. auto.
  Qed.
End CompleteTheorems.

(* ================================================================== 8. termination of a run of copies *)

Lemma copies_nil ms : copies ms [] = ms.
Proof. induction ms as [|m r IH]; cbn; [reflexivity|]. rewrite IH. reflexivity. Qed.

Lemma outcomes_all_copy a b ms :
  outcomes a b ms [] ->
  forall m, In m ms ->
    (exists es, entry a (m_src m) = Some es /\ entry b (m_src m) = Some (moved_to es m)) /\
    entry b (m_tmp m) = None.
Proof.
  induction ms as [|x r IH]; cbn [outcomes]; [intros _ m []|].
  intros (A & _ & _ & D & E) m [<-|Hm].
  - split; [apply A; reflexivity|exact D].
  - apply IH; auto.
Qed.

Lemma NoDup_app_intro {A} (a b : list A) :
  NoDup a -> NoDup b -> (forall x, In x a -> In x b -> False) -> NoDup (a ++ b).
Proof.
  induction a as [|x a IH]; cbn; intros Ha Hb Hd; [exact Hb|].
  inversion Ha as [|? ? Hx Ha']; subst. constructor.
  - intros Hin. apply in_app_or in Hin. destruct Hin as [Hin|Hin]; [tauto|]. eapply Hd; [left; reflexivity|exact Hin].
  - apply IH; auto. intros y Hy1 Hy2. eapply Hd; [right; exact Hy1|exact Hy2].
Qed.

Lemma index_from_ids bl bl' id a : map fst bl = map fst bl' -> index_from id bl a = index_from id bl' a.
Proof.
  revert bl' a; induction bl as [|[i t] r IH]; intros bl' a H; destruct bl' as [|[i' t'] r']; try discriminate; [reflexivity|].
  cbn in H. injection H as -> H. cbn. destruct (i' =? id); [reflexivity|]. apply IH. exact H.
Qed.

Lemma indexed_index bl a i id :
  NoDup (map fst bl) -> In (i, id) (indexed_from a (map fst bl)) -> index_from id bl a = Some i.
Proof.
  revert a; induction bl as [|[j t] r IH]; intros a Hnd; cbn; [tauto|].
  inversion Hnd as [|? ? Hn Hr]; subst. intros [H|H].
  - injection H as <- <-. rewrite Z.eqb_refl. reflexivity.
  - destruct (j =? id) eqn:E.
    + apply Z.eqb_eq in E. subst j. apply indexed_from_in in H. tauto.
    + apply IH; auto.
Qed.

(* what one undisturbed all-copy pass does *)
Lemma one_pass_copy_spec st c mb ma st' c' p' ms :
  WF st -> c_moves c = [] -> 0 <= ma -> 0 <= mb ->
  one_pass st c mb ma [] [] = Some (st', c', p', ms) ->
  WF st' /\ c_moves c' = [] /\
  map fst (d_blocks st') = map fst (d_blocks st) /\
  (length (d_table st) <= length (d_table st'))%nat /\
  NoDup (map m_src ms) /\
  (forall m, In m ms ->
     In (m_srcidx m, m_srcblk m) (indexed st) /\ In (m_dstidx m, m_dstblk m) (indexed st) /\
     (m_dstidx m < m_srcidx m \/ (m_dstblk m = m_srcblk m /\ m_dstoff m < m_srcoff m)) /\
     0 <= m_dstoff m /\ (m_src m < length (d_table st))%nat /\
     exists es, entry st (m_src m) = Some es /\ u_temp es = false /\ u_blk es = m_srcblk m /\
                u_off es = m_srcoff m /\ entry st' (m_src m) = Some (moved_to es m)) /\
  (forall s, ~ In s (map m_src ms) -> (s < length (d_table st))%nat -> entry st' s = entry st s) /\
  (forall s e, (length (d_table st) <= s)%nat -> entry st' s = Some e -> u_temp e = true) /\
  ps_allocs_moved (p_stats p') = zlen ms /\ ps_bytes_moved (p_stats p') = zsum (map m_size ms).
Proof.
  intros HW Hfresh Hma Hmb. unfold one_pass.
  destruct (collect_moves st c (pass_init mb ma)) as [cs r] eqn:Hcol.
  pose proof (collect_cinv st c mb ma HW Hma Hmb Hfresh) as Hci. rewrite Hcol in Hci. cbn [fst snd] in Hci.
  destruct Hci as (new & HC & _ & Hmoves).
  pose proof (sources_are_user_allocs_once st c mb ma HW Hma Hmb Hfresh) as Hsrc. rewrite Hcol in Hsrc. cbn [fst] in Hsrc.
  destruct Hsrc as (Hsrc & Hnds & Hndt & Hcross).
  pose proof (collect_reserves st c mb ma HW Hma Hmb Hfresh) as Hres. rewrite Hcol in Hres. cbn [fst] in Hres.
  destruct Hres as (HWc & Hext & Hres).
  pose proof (moves_forward st c mb ma HW Hma Hmb Hfresh) as Hfw. rewrite Hcol in Hfw. cbn [fst] in Hfw.
  pose proof (collect_within_limits st c mb ma HW Hma Hmb Hfresh) as Hlim. rewrite Hcol in Hlim. cbn [fst snd] in Hlim.
  destruct Hlim as (_ & _ & _ & Hsa & Hsb).
  set (c1 := mkC (c_algo c) (cs_moves cs) (c_immovable c)).
  assert (Hnd : NoDup (map m_src (c_moves c1) ++ map m_tmp (c_moves c1))).
  { cbn [c1 c_moves]. apply NoDup_app_intro; auto.
    intros x Hx1 Hx2. apply in_map_iff in Hx1. destruct Hx1 as (m1 & <- & H1).
    apply in_map_iff in Hx2. destruct Hx2 as (m2 & E & H2). apply (Hcross m1 m2 H1 H2). symmetry. exact E. }
  assert (Hres1 : Forall (reserved (cs_st cs)) (c_moves c1)) by exact Hres.
  destruct r as [| |w]; [| |discriminate].
  all: destruct (r_kind (complete_pass (cs_st cs) c1 (cs_pass cs) [] [])) eqn:Hk; try discriminate.
  all: intros H; injection H as <- <- <- <-.
  all: pose proof (complete_pass_wf _ _ (cs_pass cs) [] [] HWc Hres1 Hnd) as (HW' & _ & _ & Hlen & Hmv).
  all: pose proof (move_outcome _ _ (cs_pass cs) [] [] HWc Hres1 Hnd) as (Hout & Hun).
  all: pose proof (stats_match _ _ (cs_pass cs) [] [] HWc Hres1 Hnd Hsa Hsb) as (Hst1 & Hst2).
  all: pose proof (all_copy_no_swap _ _ (cs_pass cs) [] [] HWc Hres1 Hnd (copies_nil _)) as (Hids & _).
  all: cbn [c1 c_moves] in *; rewrite copies_nil in Hst1, Hst2.
  all: pose proof (outcomes_all_copy _ _ _ Hout) as Hoc.
  all: (split; [exact HW'|]); (split; [exact Hmv|]).
  all: (split; [rewrite Hids; apply (proj1 Hext)|]).
  all: (split; [rewrite Hlen; destruct Hext as (_ & _ & E3 & _); exact E3|]); (split; [exact Hnds|]).
  all: split;
    [intros m Hm; destruct (Hfw m Hm) as (F1 & F2 & F3); destruct (Hsrc m Hm) as (es & S1 & S2 & S3 & S4 & S5 & _);
     destruct (Hoc m Hm) as ((es' & O1 & O2) & _); rewrite S2 in O1; injection O1 as <-;
     split; [exact F1|]; split; [exact F2|]; split; [exact F3|]; split;
     [rewrite Forall_forall in Hres; destruct (Hres m Hm) as (_ & (et & T1 & _ & T3 & T4 & _));
      destruct (wf_own _ HWc _ _ T1) as ((b & (t & Hf & Hin & Ho) & _) & _);
      destruct (wb_tinv _ (wf_b _ HWc) _ _ Hf) as ((Hinv & _) & _);
      destruct (inv1_live_sound _ Hinv _ Hin) as (Hge & _); rewrite <- T4, <- Ho; exact Hge|];
     split; [eapply entry_lt; eauto|]; exists es; auto|].
  all: split;
    [intros s Hs Hlt; rewrite Hun;
     [destruct Hext as (_ & _ & _ & E4); apply E4; exact Hlt|exact Hs|];
     intros Hin; apply in_map_iff in Hin; destruct Hin as (m & E & Hm);
     pose proof (ci_ok _ _ _ _ _ _ HC) as Hok; rewrite Forall_forall in Hok; rewrite Hmoves in Hm;
     destruct (Hok m Hm) as [_ _ _ _ _ T]; lia|].
  all: split; [|split; [exact Hst1|exact Hst2]].
  all: intros s e Hs He;
    destruct (in_dec Nat.eq_dec s (map m_tmp (cs_moves cs))) as [Hin|Hnin];
    [apply in_map_iff in Hin; destruct Hin as (m & <- & Hm); destruct (Hoc m Hm) as (_ & Hn); congruence|];
    rewrite Hun in He;
    [apply (ci_newtemps _ _ _ _ _ _ HC s e Hs He)| |exact Hnin];
    intros Hin; apply in_map_iff in Hin; destruct Hin as (m & E & Hm); destruct (Hsrc m Hm) as (es & S1 & _);
    apply entry_lt in S1; lia.
Qed.

(* ------------------------------------------------------------------ the measure *)

Definition blk_index (st : dstate) (id : Z) : nat :=
  match index_from id (d_blocks st) 0 with Some i => Z.to_nat i | None => O end.

(* block index / offset of the user allocation in slot s (0 for temporaries and empty slots) *)
Definition w_idx (st : dstate) (s : nat) : nat :=
  match entry st s with Some e => if u_temp e then O else blk_index st (u_blk e) | None => O end.
Definition w_off (st : dstate) (s : nat) : nat :=
  match entry st s with Some e => if u_temp e then O else Z.to_nat (u_off e) | None => O end.

Fixpoint sum_n (f : nat -> nat) (n : nat) : nat :=
  match n with O => O | S k => (f k + sum_n f k)%nat end.

(* the lexicographic measure: (sum of block indices, sum of offsets) over all user allocations *)
Definition m_idx (st : dstate) : nat := sum_n (w_idx st) (length (d_table st)).
Definition m_off (st : dstate) : nat := sum_n (w_off st) (length (d_table st)).

Lemma sum_n_le f g n : (forall s, (s < n)%nat -> (f s <= g s)%nat) -> (sum_n f n <= sum_n g n)%nat.
Proof.
  induction n as [|k IH]; intros H; cbn; [lia|].
  specialize (H k ltac:(lia)) as Hk. specialize (IH ltac:(intros s Hs; apply H; lia)). lia.
Qed.

Lemma sum_n_lt f g n :
  (forall s, (s < n)%nat -> (f s <= g s)%nat) -> (exists s, (s < n)%nat /\ (f s < g s)%nat) ->
  (sum_n f n < sum_n g n)%nat.
Proof.
  induction n as [|k IH]; intros H (s & Hs & Hlt); cbn; [lia|].
  pose proof (H k ltac:(lia)) as Hk.
  destruct (Nat.eq_dec s k) as [->|Hne].
  - pose proof (sum_n_le f g k ltac:(intros x Hx; apply H; lia)). lia.
  - assert (sum_n f k < sum_n g k)%nat.
    { apply IH; [intros x Hx; apply H; lia|]. exists s. split; [lia|exact Hlt]. }
    lia.
Qed.

Lemma sum_n_tail f n n' :
  (n <= n')%nat -> (forall s, (n <= s)%nat -> f s = O) -> sum_n f n' = sum_n f n.
Proof.
  intros Hle Hz. induction n' as [|k IH]; [assert (n = O) by lia; subst; reflexivity|].
  destruct (Nat.eq_dec n (S k)) as [->|Hne]; [reflexivity|].
  cbn. rewrite Hz by lia. rewrite IH by lia. reflexivity.
Qed.

Lemma nonempty_in {A} (l : list A) : l <> [] -> exists x, In x l.
Proof. destruct l as [|x r]; [congruence|]. intros _. exists x. left. reflexivity. Qed.

Section PassDecreases.
  Variables (st st' : dstate) (ms : list move).
  Hypothesis HW : WF st.
  Hypothesis Hids : map fst (d_blocks st') = map fst (d_blocks st).
  Hypothesis Hlen : (length (d_table st) <= length (d_table st'))%nat.
  Hypothesis Hmoves : forall m, In m ms ->
     In (m_srcidx m, m_srcblk m) (indexed st) /\ In (m_dstidx m, m_dstblk m) (indexed st) /\
     (m_dstidx m < m_srcidx m \/ (m_dstblk m = m_srcblk m /\ m_dstoff m < m_srcoff m)) /\
     0 <= m_dstoff m /\ (m_src m < length (d_table st))%nat /\
     exists es, entry st (m_src m) = Some es /\ u_temp es = false /\ u_blk es = m_srcblk m /\
                u_off es = m_srcoff m /\ entry st' (m_src m) = Some (moved_to es m).
  Hypothesis Hun : forall s, ~ In s (map m_src ms) -> (s < length (d_table st))%nat -> entry st' s = entry st s.
  Hypothesis Hnew : forall s e, (length (d_table st) <= s)%nat -> entry st' s = Some e -> u_temp e = true.

  Let N := length (d_table st).

  Lemma blk_index_same id : blk_index st' id = blk_index st id.
  Proof. unfold blk_index. rewrite (index_from_ids _ _ id 0 Hids). reflexivity. Qed.

  Lemma blk_index_of i id : In (i, id) (indexed st) -> blk_index st id = Z.to_nat i /\ 0 <= i.
  Proof.
    intros Hin. unfold blk_index, indexed in *.
    rewrite (indexed_index _ _ _ _ (wb_ids _ (wf_b _ HW)) Hin). split; [reflexivity|].
    apply indexed_from_in in Hin. lia.
  Qed.

  Lemma measures_tail : m_idx st' = sum_n (w_idx st') N /\ m_off st' = sum_n (w_off st') N.
  Proof.
    unfold m_idx, m_off. split; apply sum_n_tail; auto; intros s Hs.
    - unfold w_idx. destruct (entry st' s) as [e|] eqn:E; [|reflexivity]. rewrite (Hnew _ _ Hs E). reflexivity.
    - unfold w_off. destruct (entry st' s) as [e|] eqn:E; [|reflexivity]. rewrite (Hnew _ _ Hs E). reflexivity.
  Qed.

  (* a slot that is the source of a move *)
  Lemma src_weights m : In m ms ->
    w_idx st (m_src m) = Z.to_nat (m_srcidx m) /\ w_idx st' (m_src m) = Z.to_nat (m_dstidx m) /\
    w_off st (m_src m) = Z.to_nat (m_srcoff m) /\ w_off st' (m_src m) = Z.to_nat (m_dstoff m) /\
    0 <= m_srcidx m /\ 0 <= m_dstidx m /\ 0 <= m_dstoff m.
  Proof.
    intros Hm. destruct (Hmoves m Hm) as (I1 & I2 & _ & Hd0 & _ & es & E1 & E2 & E3 & E4 & E5).
    destruct (blk_index_of _ _ I1) as (B1 & P1). destruct (blk_index_of _ _ I2) as (B2 & P2).
    unfold w_idx, w_off. rewrite E1, E5. cbn [moved_to u_temp u_blk u_off]. rewrite E2, E3, E4, blk_index_same, B1, B2.
    repeat split; auto.
  Qed.

  Lemma other_weights s : ~ In s (map m_src ms) -> (s < N)%nat ->
    w_idx st' s = w_idx st s /\ w_off st' s = w_off st s.
  Proof.
    intros Hs Hlt. unfold w_idx, w_off. rewrite (Hun s Hs Hlt).
    destruct (entry st s) as [e|]; [|auto]. destruct (u_temp e); [auto|]. rewrite blk_index_same. auto.
  Qed.

  Lemma idx_pointwise s : (s < N)%nat -> (w_idx st' s <= w_idx st s)%nat.
  Proof.
    intros Hlt. destruct (in_dec Nat.eq_dec s (map m_src ms)) as [Hin|Hnin].
    - apply in_map_iff in Hin. destruct Hin as (m & <- & Hm).
      destruct (src_weights m Hm) as (A & B & _ & _ & P1 & P2 & _). rewrite A, B.
      destruct (Hmoves m Hm) as (I1 & I2 & [F|(F & _)] & _).
      + lia.
      + rewrite F in I2. unfold indexed in I1, I2.
        pose proof (indexed_from_id_fun _ _ _ _ _ (wb_ids _ (wf_b _ HW)) I1 I2). lia.
    - destruct (other_weights s Hnin Hlt) as (-> & _). lia.
  Qed.

  (* some move changes block: the sum of block indices drops *)
  Lemma cross_block_decreases :
    (exists m, In m ms /\ m_dstidx m < m_srcidx m) -> (m_idx st' < m_idx st)%nat.
  Proof.
    intros (m & Hm & Hlt). rewrite (proj1 measures_tail). unfold m_idx. fold N.
    apply sum_n_lt; [exact idx_pointwise|]. exists (m_src m).
    destruct (Hmoves m Hm) as (_ & _ & _ & _ & Hs & _). split; [exact Hs|].
    destruct (src_weights m Hm) as (A & B & _ & _ & P1 & P2 & _). rewrite A, B. lia.
  Qed.

  (* every move stays in its block: block indices unchanged, the sum of offsets drops *)
  Lemma same_block_decreases :
    ms <> [] -> (forall m, In m ms -> ~ m_dstidx m < m_srcidx m) ->
    m_idx st' = m_idx st /\ (m_off st' < m_off st)%nat.
  Proof.
    intros Hne Hsame.
    assert (Hfw : forall m, In m ms -> m_dstblk m = m_srcblk m /\ m_dstoff m < m_srcoff m).
    { intros m Hm. destruct (Hmoves m Hm) as (_ & _ & [F|F] & _); [exfalso; apply (Hsame m Hm F)|exact F]. }
    destruct measures_tail as (T1 & T2). rewrite T1, T2. unfold m_idx, m_off. fold N. split.
    - assert (Hle1 : (sum_n (w_idx st') N <= sum_n (w_idx st) N)%nat) by (apply sum_n_le; exact idx_pointwise).
      assert (Hle2 : (sum_n (w_idx st) N <= sum_n (w_idx st') N)%nat).
      { apply sum_n_le. intros s Hlt. destruct (in_dec Nat.eq_dec s (map m_src ms)) as [Hin|Hnin].
        - apply in_map_iff in Hin. destruct Hin as (m & <- & Hm).
          destruct (src_weights m Hm) as (A & B & _). rewrite A, B.
          destruct (Hmoves m Hm) as (I1 & I2 & _). destruct (Hfw m Hm) as (F & _).
          rewrite F in I2. unfold indexed in I1, I2.
          pose proof (indexed_from_id_fun _ _ _ _ _ (wb_ids _ (wf_b _ HW)) I1 I2). lia.
        - destruct (other_weights s Hnin Hlt) as (-> & _). lia. }
      lia.
    - apply sum_n_lt.
      + intros s Hlt. destruct (in_dec Nat.eq_dec s (map m_src ms)) as [Hin|Hnin].
        * apply in_map_iff in Hin. destruct Hin as (m & <- & Hm).
          destruct (src_weights m Hm) as (_ & _ & A & B & _ & _ & P). rewrite A, B.
          destruct (Hfw m Hm) as (_ & F). lia.
        * destruct (other_weights s Hnin Hlt) as (_ & ->). lia.
      + destruct (nonempty_in ms Hne) as (m & Hm). exists (m_src m).
        destruct (Hmoves m Hm) as (_ & _ & _ & _ & Hs & _). split; [exact Hs|].
        destruct (src_weights m Hm) as (_ & _ & A & B & _ & _ & P). rewrite A, B.
        destruct (Hfw m Hm) as (_ & F). lia.
  Qed.
End PassDecreases.

(* C15 (7), copy-only: with no user operation between the passes and every move copied, every
   pass that proposes a move strictly decreases the lexicographic measure (sum over the user
   allocations of their block index, sum of their offsets); hence a run reaches a pass that
   proposes nothing (RunDone) — or stops with a failure — after finitely many passes. *)
Theorem run_terminates_copy_only st c mb ma acc n log :
  WF st -> c_moves c = [] -> 0 <= ma -> 0 <= mb ->
  exists fuel, run_copy fuel st c mb ma acc n log <> RunOutOfFuel.
Proof.
  intros HW Hfresh Hma Hmb.
  remember (m_idx st) as a eqn:Ha. remember (m_off st) as b eqn:Hb.
  revert b st c acc n log HW Hfresh Ha Hb.
  induction a as [a IHa] using lt_wf_ind. intros b.
  induction b as [b IHb] using lt_wf_ind. intros st c acc n log HW Hfresh Ha Hb.
  destruct (one_pass st c mb ma [] []) as [[[[st' c'] p'] ms]|] eqn:Hp.
  2:{ exists 1%nat. cbn [run_copy]. rewrite Hp. discriminate. }
  destruct ms as [|m r].
  { exists 1%nat. cbn [run_copy]. rewrite Hp. discriminate. }
  destruct (one_pass_copy_spec _ _ _ _ _ _ _ _ HW Hfresh Hma Hmb Hp)
    as (HW' & Hfresh' & Hids & Hlen & _ & Hmoves & Hun & Hnew & _).
  assert (Hrec : exists fuel, run_copy fuel st' c' mb ma (ps_add acc (p_stats p')) (S n) (log ++ [m :: r]) <> RunOutOfFuel).
  { destruct (existsb (fun x => m_dstidx x <? m_srcidx x) (m :: r)) eqn:Hcross.
    - apply existsb_exists in Hcross. destruct Hcross as (x & Hx & Hlt). apply Z.ltb_lt in Hlt.
      pose proof (cross_block_decreases st st' (m :: r) HW Hids Hlen Hmoves Hun Hnew (ex_intro _ x (conj Hx Hlt))) as Hdec.
      eapply (IHa (m_idx st')); [lia|exact HW'|exact Hfresh'|reflexivity|reflexivity].
    - assert (Hsame : forall x, In x (m :: r) -> ~ m_dstidx x < m_srcidx x).
      { intros x Hx Hlt. assert (existsb (fun x => m_dstidx x <? m_srcidx x) (m :: r) = true).
        { apply existsb_exists. exists x. split; [exact Hx|apply Z.ltb_lt; exact Hlt]. }
        congruence. }
      destruct (same_block_decreases st st' (m :: r) HW Hids Hlen Hmoves Hun Hnew ltac:(discriminate) Hsame) as (He & Hdec).
      eapply (IHb (m_off st')); [lia|exact HW'|exact Hfresh'|congruence|reflexivity]. }
  destruct Hrec as (fuel & Hf). exists (S fuel). cbn [run_copy]. rewrite Hp. exact Hf.
Qed.

(* the accumulated statistics of a run are the sums over its passes (C15: "the final statistics
   equal the moves actually carried out") *)
Definition log_allocs (log : list (list move)) : Z := zsum (map (fun ms => zlen ms) log).
Definition log_bytes (log : list (list move)) : Z := zsum (map (fun ms => zsum (map m_size ms)) log).

Lemma log_allocs_app a b : log_allocs (a ++ b) = log_allocs a + log_allocs b.
Proof. unfold log_allocs. rewrite map_app, zsum_app. reflexivity. Qed.
Lemma log_bytes_app a b : log_bytes (a ++ b) = log_bytes a + log_bytes b.
Proof. unfold log_bytes. rewrite map_app, zsum_app. reflexivity. Qed.

Theorem run_stats_accumulate fuel : forall st c mb ma acc n log st' k acc' log',
  WF st -> c_moves c = [] -> 0 <= ma -> 0 <= mb ->
  run_copy fuel st c mb ma acc n log = RunDone st' k acc' log' ->
  ps_allocs_moved acc' - log_allocs log' = ps_allocs_moved acc - log_allocs log /\
  ps_bytes_moved acc' - log_bytes log' = ps_bytes_moved acc - log_bytes log /\
  WF st'.
Proof.
  induction fuel as [|f IH]; intros st c mb ma acc n log st' k acc' log' HW Hfresh Hma Hmb; cbn [run_copy]; [discriminate|].
  destruct (one_pass st c mb ma [] []) as [[[[st1 c1] p1] ms]|] eqn:Hp; [|discriminate].
  destruct (one_pass_copy_spec _ _ _ _ _ _ _ _ HW Hfresh Hma Hmb Hp)
    as (HW1 & Hfresh1 & _ & _ & _ & _ & _ & _ & Hsa & Hsb).
  assert (Hstep : ps_allocs_moved (ps_add acc (p_stats p1)) - log_allocs (log ++ [ms]) = ps_allocs_moved acc - log_allocs log /\
                  ps_bytes_moved (ps_add acc (p_stats p1)) - log_bytes (log ++ [ms]) = ps_bytes_moved acc - log_bytes log).
  { rewrite log_allocs_app, log_bytes_app. unfold log_allocs, log_bytes. cbn [map zsum ps_add ps_allocs_moved ps_bytes_moved].
    rewrite Hsa, Hsb. lia. }
  destruct ms as [|m r].
  - intros H; injection H as <- _ <- <-. destruct Hstep. auto.
  - intros H. destruct (IH _ _ _ _ _ _ _ _ _ _ _ HW1 Hfresh1 Hma Hmb H) as (A & B & C). destruct Hstep. split; [lia|]. split; [lia|exact C].
Qed.

(* ================================================================== 9. termination with arbitrary decisions *)


(* every move a pass proposes comes from a block at or after immovableBlockCount *)
Lemma collect_src_not_immovable st c p m :
  0 <= c_immovable c -> In m (cs_moves (fst (collect_moves st c p))) ->
  In m (c_moves c) \/ c_immovable c <= m_srcidx m.
Proof.
  intros Himm Hin. destruct (collect_moves_f_log unit att_ok st c p tt Himm) as (A & _ & C).
  rewrite (proj1 (collect_moves_f_all_ok unit st c p tt)) in A. rewrite A in Hin.
  apply in_app_or in Hin. destruct Hin as [Hin|Hin]; [left; exact Hin|right].
  rewrite Forall_forall in C. apply C. exact Hin.
Qed.

(* ------------------------------------------------------------------ the immovable set of a pass *)

Fixpoint has_ignore (ms : list move) (ds : list Z) : bool :=
  match ms with
  | [] => false
  | _ :: r => (norm_decision (hd 0 ds) =? 1) || has_ignore r (tl ds)
  end.

Lemma complete_moves_imm ms : forall cp ds cp',
  complete_moves cp ms ds = (cp', false) -> cp_err cp' = false ->
  (forall id, In id (cp_imm cp') -> In id (cp_imm cp) \/ exists m, In m ms /\ m_srcblk m = id) /\
  (cp_imm cp <> [] -> cp_imm cp' <> []) /\
  (has_ignore ms ds = true -> cp_imm cp' <> []) /\
  (has_ignore ms ds = false -> cp_imm cp' = cp_imm cp).
Proof.
  induction ms as [|m r IH]; intros cp ds cp'; cbn [complete_moves has_ignore].
  - intros H _; injection H as <-. repeat split; auto; discriminate.
  - destruct (blocks_stats (d_blocks (cp_st cp))) as [pc pb].
    set (d := norm_decision (hd 0 ds)).
    destruct (handler_move (cp_st cp) m d) as [st1 k]. destruct k.
    + destruct (blocks_stats (d_blocks st1)) as [ac ab].
      set (imm1 := if (d =? 1) && negb (mem_zb (m_srcblk m) (cp_imm cp)) then cp_imm cp ++ [m_srcblk m] else cp_imm cp).
      intros Hcm Herr. destruct (IH _ _ _ Hcm Herr) as (A & B & C & D). cbn [cp_imm] in *.
      assert (Hsub : forall id, In id imm1 -> In id (cp_imm cp) \/ m_srcblk m = id).
      { intros id Hin. unfold imm1 in Hin. destruct (_ && _); [|left; exact Hin].
        apply in_app_or in Hin. destruct Hin as [Hin|[<-|[]]]; auto. }
      assert (Hgrow : cp_imm cp <> [] -> imm1 <> []).
      { intros Hne. unfold imm1. destruct (_ && _); [|exact Hne]. destruct (cp_imm cp); [congruence|discriminate]. }
      split; [|split; [|split]].
      * intros id Hin. destruct (A id Hin) as [H1|(m' & Hm' & E)].
        -- destruct (Hsub id H1) as [H2|H2]; [left; exact H2|right; exists m; split; [left; reflexivity|exact H2]].
        -- right. exists m'. split; [right; exact Hm'|exact E].
      * intros Hne. apply B. apply Hgrow. exact Hne.
      * intros Hi. apply orb_prop in Hi. destruct Hi as [Hi|Hi]; [|apply C; exact Hi].
        apply B. unfold imm1. rewrite Hi. cbn [andb].
        destruct (mem_zb (m_srcblk m) (cp_imm cp)) eqn:Hmem; cbn [negb].
        -- destruct (cp_imm cp); [discriminate|discriminate].
        -- destruct (cp_imm cp); discriminate.
      * intros Hi. apply orb_false_elim in Hi. destruct Hi as (Hi1 & Hi2).
        rewrite (D Hi2). unfold imm1. rewrite Hi1. reflexivity.
    + intros Hcm Herr. apply complete_moves_err in Hcm; [congruence|reflexivity].
    + intros Hcm Herr. apply complete_moves_err in Hcm; [congruence|reflexivity].
    + intros H; injection H as _ H; discriminate.
Qed.

(* ------------------------------------------------------------------ swapImmovableBlocks makes progress *)

Lemma index_from_bounds id bl a j : index_from id bl a = Some j -> a <= j < a + zlen bl.
Proof.
  revert a; induction bl as [|[i t] r IH]; intros a; cbn; [discriminate|]. unfold zlen in *. cbn [length].
  destruct (i =? id); [intros H; injection H as <-; lia|]. intros H. apply IH in H. lia.
Qed.

Lemma index_from_some id bl a : In id (map fst bl) -> exists j, index_from id bl a = Some j.
Proof.
  revert a; induction bl as [|[i t] r IH]; intros a; cbn; [tauto|].
  destruct (i =? id) eqn:E; [eauto|]. apply Z.eqb_neq in E. intros [H|H]; [congruence|]. apply IH. exact H.
Qed.

Lemma index_from_skipn n : forall a bl i id,
  In (i, id) (indexed_from a (map fst bl)) -> a + Z.of_nat n <= i ->
  exists j, index_from id (skipn n bl) (a + Z.of_nat n) = Some j.
Proof.
  induction n as [|n IH]; intros a bl i id Hin Hle.
  - cbn [skipn Z.of_nat]. apply index_from_some. apply indexed_from_in in Hin. tauto.
  - destruct bl as [|[x t] r]; [destruct Hin|]. cbn [map fst indexed_from] in Hin. destruct Hin as [H|H].
    + injection H as <- _. lia.
    + cbn [skipn]. replace (a + Z.of_nat (S n)) with ((a + 1) + Z.of_nat n) by lia. eapply IH; [exact H|lia].
Qed.

Lemma swap_nth_length {A} i j (l : list A) : length (swap_nth i j l) = length l.
Proof. unfold swap_nth. destruct (nth_error l i); [|reflexivity]. destruct (nth_error l j); [|reflexivity]. rewrite !update_nth_length. reflexivity. Qed.

Lemma swap_immovable_mono bl immc id bl' immc' sw :
  swap_immovable bl immc id = (bl', immc', sw) -> 0 <= immc <= zlen bl ->
  immc <= immc' /\ 0 <= immc' <= zlen bl' /\ zlen bl' = zlen bl.
Proof.
  unfold swap_immovable. intros H Hb. destruct (index_from id (skipn (Z.to_nat immc) bl) immc) as [j|] eqn:E.
  - injection H as <- <- _. apply index_from_bounds in E. unfold zlen in *. rewrite swap_nth_length, skipn_length in *. lia.
  - injection H as <- <- _. lia.
Qed.

Lemma swap_all_mono ids : forall bl immc acc bl' immc' sws,
  swap_all bl immc ids acc = (bl', immc', sws) -> 0 <= immc <= zlen bl ->
  immc <= immc' /\ 0 <= immc' <= zlen bl' /\ zlen bl' = zlen bl.
Proof.
  induction ids as [|id r IH]; intros bl immc acc bl' immc' sws; cbn [swap_all].
  - intros H Hb; injection H as <- <- _. lia.
  - destruct (swap_immovable bl immc id) as [[bl1 immc1] sw] eqn:Hs. intros H Hb.
    destruct (swap_immovable_mono _ _ _ _ _ _ Hs Hb) as (A & B & C).
    destruct sw; apply IH in H; auto; lia.
Qed.

Lemma swap_all_progress ids : forall bl immc bl' immc' sws,
  ids <> [] -> NoDup (map fst bl) -> 0 <= immc <= zlen bl ->
  (forall id, In id ids -> exists i, In (i, id) (indexed_from 0 (map fst bl)) /\ immc <= i) ->
  swap_all bl immc ids [] = (bl', immc', sws) ->
  immc < immc' <= zlen bl /\ zlen bl' = zlen bl.
Proof.
  intros bl immc bl' immc' sws Hne Hnd Hb Hall. destruct ids as [|id r]; [congruence|]. cbn [swap_all].
  destruct (Hall id (or_introl eq_refl)) as (i & Hin & Hle).
  destruct (index_from_skipn (Z.to_nat immc) 0 bl i id Hin ltac:(rewrite Z2Nat.id; lia)) as (j & Hj).
  rewrite Z2Nat.id in Hj by lia. cbn [Z.add] in Hj.
  destruct (swap_immovable bl immc id) as [[bl1 immc1] sw] eqn:Hs.
  pose proof Hs as Hs'. unfold swap_immovable in Hs'. rewrite Hj in Hs'. injection Hs' as <- <- <-.
  destruct (swap_immovable_mono _ _ _ _ _ _ Hs Hb) as (A & B & C).
  intros H. apply swap_all_mono in H; [|lia]. lia.
Qed.

Lemma mem_zb_in x l : mem_zb x l = true <-> In x l.
Proof.
  induction l as [|y r IH]; cbn; [split; [discriminate|tauto]|].
  rewrite orb_true_iff, IH, Z.eqb_eq. tauto.
Qed.

Lemma swap_order_spec ord imm :
  (forall x, In x (swap_order ord imm) -> In x imm) /\ (imm <> [] -> swap_order ord imm <> []).
Proof.
  unfold swap_order. set (o := filter (fun x => mem_zb x imm) (dedup ord [])). split.
  - intros x Hin. apply in_app_or in Hin. destruct Hin as [Hin|Hin]; apply filter_In in Hin.
    + apply mem_zb_in. tauto.
    + tauto.
  - intros Hne. destruct imm as [|y r]; [congruence|]. cbn [filter].
    destruct (mem_zb y o) eqn:E; cbn [negb].
    + apply mem_zb_in in E. destruct o; [destruct E|discriminate].
    + intros H. apply app_eq_nil in H. destruct H as (_ & H). discriminate.
Qed.

Lemma complete_pass_progress st c p ds ord :
  WF st -> Forall (reserved st) (c_moves c) -> NoDup (map m_src (c_moves c) ++ map m_tmp (c_moves c)) ->
  0 <= c_immovable c ->
  (forall m, In m (c_moves c) -> In (m_srcidx m, m_srcblk m) (indexed st) /\ c_immovable c <= m_srcidx m) ->
  let r := complete_pass st c p ds ord in
  zlen (d_blocks (r_st r)) = zlen (d_blocks st) /\
  (has_ignore (c_moves c) ds = true -> c_immovable c < c_immovable (r_ctx r) <= zlen (d_blocks st)) /\
  (has_ignore (c_moves c) ds = false ->
   c_immovable (r_ctx r) = c_immovable c /\ map fst (d_blocks (r_st r)) = map fst (d_blocks st)).
Proof.
  intros HW Hres Hnd Himm Hsrc r.
  destruct (complete_pass_inv st c p ds ord HW Hres Hnd) as (cp & Hcm & Herr & _ & Hperm & _ & _ & _ & _ & Hnil).
  destruct (complete_moves_ok (c_moves c) (mkCP st p [] false) ds cp HW Hres Hnd Hcm Herr) as (_ & (F1 & _ & _) & _).
  destruct (complete_moves_imm (c_moves c) (mkCP st p [] false) ds cp Hcm Herr) as (I1 & _ & I3 & I4).
  cbn [cp_st cp_imm] in *.
  assert (Hlen : zlen (d_blocks (cp_st cp)) = zlen (d_blocks st)).
  { unfold zlen. rewrite <- (map_length fst (d_blocks (cp_st cp))), F1, map_length. reflexivity. }
  split; [unfold zlen in *; fold r in Hperm; rewrite (Permutation_length Hperm); exact Hlen|].
  split.
  - intros Hi. specialize (I3 Hi).
    (* open complete_pass to reach swap_all *)
    unfold r, complete_pass in *. rewrite Hcm in *.
    destruct (swap_all (d_blocks (cp_st cp)) (c_immovable c) (swap_order ord (cp_imm cp)) []) as [[bl immc] sws] eqn:Hsw.
    cbn [r_ctx c_immovable].
    destruct (swap_order_spec ord (cp_imm cp)) as (S1 & S2).
    assert (Hmsne : exists m, In m (c_moves c)).
    { destruct (cp_imm cp) as [|id0 rest] eqn:E; [congruence|].
      destruct (I1 id0 (or_introl eq_refl)) as [[]|(m & Hm & _)]. exists m. exact Hm. }
    destruct Hmsne as (m0 & Hm0). destruct (Hsrc m0 Hm0) as (Hin0 & Hle0).
    assert (Hb : 0 <= c_immovable c <= zlen (d_blocks (cp_st cp))).
    { unfold indexed in Hin0. apply indexed_from_in in Hin0. rewrite Hlen. unfold zlen in *. rewrite map_length in Hin0. lia. }
    assert (Hnd' : NoDup (map fst (d_blocks (cp_st cp)))) by (rewrite F1; apply (wb_ids _ (wf_b _ HW))).
    assert (Hall : forall id, In id (swap_order ord (cp_imm cp)) ->
              exists i, In (i, id) (indexed_from 0 (map fst (d_blocks (cp_st cp)))) /\ c_immovable c <= i).
    { intros id Hid. destruct (I1 id (S1 id Hid)) as [[]|(m & Hm & E)]. destruct (Hsrc m Hm) as (A & B).
      exists (m_srcidx m). rewrite F1, <- E. split; [exact A|exact B]. }
    destruct (swap_all_progress _ _ _ _ _ _ (S2 I3) Hnd' Hb Hall Hsw) as (P1 & P2). lia.
  - intros Hi. specialize (I4 Hi). destruct (Hnil I4) as (E1 & E2). fold r in E1, E2. rewrite E1. split; [exact E2|exact F1].
Qed.

Lemma outcomes_no_ignore a b ms : forall ds,
  has_ignore ms ds = false -> outcomes a b ms ds ->
  forall m, In m ms ->
    ((exists es, entry a (m_src m) = Some es /\ entry b (m_src m) = Some (moved_to es m)) \/
     entry b (m_src m) = None) /\
    entry b (m_tmp m) = None.
Proof.
  induction ms as [|x r IH]; intros ds; cbn [outcomes has_ignore]; [intros _ _ m []|].
  intros Hi (A & _ & C & D & E) m [<-|Hm].
  - apply orb_false_elim in Hi. destruct Hi as (Hi & _). apply Z.eqb_neq in Hi.
    split; [|exact D]. destruct (norm_decision_cases (hd 0 ds)) as [H0|[H1|H2]]; [left; apply A; exact H0|congruence|right; apply C; exact H2].
  - apply orb_false_elim in Hi. destruct Hi as (_ & Hi). eapply IH; eauto.
Qed.

(* completing what a collecting pass left: the shape of the state after the pass *)
Lemma pass_core st c cs (p0 : pass) new ds ord :
  WF st -> 0 <= c_immovable c ->
  CInv st [] p0 (indexed st) cs new -> cs_moves cs = new ->
  ((forall m, In m (cs_moves cs) ->
      exists es, entry st (m_src m) = Some es /\ entry (cs_st cs) (m_src m) = Some es /\ u_temp es = false /\
                 u_blk es = m_srcblk m /\ u_off es = m_srcoff m /\ u_size es = m_size m) /\
   NoDup (map m_src (cs_moves cs)) /\ NoDup (map m_tmp (cs_moves cs)) /\
   (forall m m', In m (cs_moves cs) -> In m' (cs_moves cs) -> m_src m <> m_tmp m')) ->
  (WF (cs_st cs) /\ ext st (cs_st cs) /\ Forall (reserved (cs_st cs)) (cs_moves cs)) ->
  (forall m, In m (cs_moves cs) ->
     In (m_srcidx m, m_srcblk m) (indexed st) /\ In (m_dstidx m, m_dstblk m) (indexed st) /\
     (m_dstidx m < m_srcidx m \/ (m_dstblk m = m_srcblk m /\ m_dstoff m < m_srcoff m))) ->
  (forall m, In m (cs_moves cs) -> c_immovable c <= m_srcidx m) ->
  let c1 := mkC (c_algo c) (cs_moves cs) (c_immovable c) in
  let rr := complete_pass (cs_st cs) c1 (cs_pass cs) ds ord in
  r_kind rr = ROk /\
  WF (r_st rr) /\ c_moves (r_ctx rr) = [] /\ zlen (d_blocks (r_st rr)) = zlen (d_blocks st) /\ 0 <= c_immovable (r_ctx rr) /\
  (has_ignore (cs_moves cs) ds = true -> c_immovable c < c_immovable (r_ctx rr) <= zlen (d_blocks st)) /\
  (has_ignore (cs_moves cs) ds = false ->
     c_immovable (r_ctx rr) = c_immovable c /\ map fst (d_blocks (r_st rr)) = map fst (d_blocks st) /\
     (length (d_table st) <= length (d_table (r_st rr)))%nat /\
     (forall m, In m (cs_moves cs) ->
        In (m_srcidx m, m_srcblk m) (indexed st) /\ In (m_dstidx m, m_dstblk m) (indexed st) /\
        (m_dstidx m < m_srcidx m \/ (m_dstblk m = m_srcblk m /\ m_dstoff m < m_srcoff m)) /\
        0 <= m_dstoff m /\ (m_src m < length (d_table st))%nat /\
        exists es, entry st (m_src m) = Some es /\ u_temp es = false /\ u_blk es = m_srcblk m /\
                   u_off es = m_srcoff m /\
                   (entry (r_st rr) (m_src m) = Some (moved_to es m) \/ entry (r_st rr) (m_src m) = None)) /\
     (forall s, ~ In s (map m_src (cs_moves cs)) -> (s < length (d_table st))%nat -> entry (r_st rr) s = entry st s) /\
     (forall s e, (length (d_table st) <= s)%nat -> entry (r_st rr) s = Some e -> u_temp e = true)).
Proof.
  intros HW Himm HC Hmoves (Hsrc & Hnds & Hndt & Hcross) (HWc & Hext & Hres) Hfw Hlo.
  cbv zeta.
  set (c1 := mkC (c_algo c) (cs_moves cs) (c_immovable c)).
  assert (Hnd : NoDup (map m_src (c_moves c1) ++ map m_tmp (c_moves c1))).
  { cbn [c1 c_moves]. apply NoDup_app_intro; auto.
    intros x Hx1 Hx2. apply in_map_iff in Hx1. destruct Hx1 as (m1 & <- & H1).
    apply in_map_iff in Hx2. destruct Hx2 as (m2 & E & H2). apply (Hcross m1 m2 H1 H2). symmetry. exact E. }
  assert (Hres1 : Forall (reserved (cs_st cs)) (c_moves c1)) by exact Hres.
  assert (Hixeq : indexed (cs_st cs) = indexed st) by (unfold indexed; rewrite (proj1 Hext); reflexivity).
  assert (Hlenb : zlen (d_blocks (cs_st cs)) = zlen (d_blocks st)).
  { unfold zlen. rewrite <- (map_length fst (d_blocks (cs_st cs))), (proj1 Hext), map_length. reflexivity. }
  set (rr := complete_pass (cs_st cs) c1 (cs_pass cs) ds ord).
  split; [exact (complete_pass_ok _ _ (cs_pass cs) ds ord HWc Hres1 Hnd)|].

    pose proof (complete_pass_wf _ _ (cs_pass cs) ds ord HWc Hres1 Hnd) as (HW' & _ & _ & Hlen & Hmv).
    pose proof (move_outcome _ _ (cs_pass cs) ds ord HWc Hres1 Hnd) as (Hout & Hun).
    assert (Hsrc1 : forall m, In m (c_moves c1) -> In (m_srcidx m, m_srcblk m) (indexed (cs_st cs)) /\ c_immovable c1 <= m_srcidx m).
    { intros m Hm. cbn [c1 c_moves c_immovable] in *. rewrite Hixeq. split; [apply (Hfw m Hm)|apply (Hlo m Hm)]. }
    pose proof (complete_pass_progress _ _ (cs_pass cs) ds ord HWc Hres1 Hnd Himm Hsrc1) as (P0 & P1 & P2).
    fold rr in HW', Hlen, Hmv, Hout, Hun, P0, P1, P2. cbn [c1 c_moves c_immovable] in *.
    split; [exact HW'|]. split; [exact Hmv|]. split; [rewrite P0; exact Hlenb|].
    split.
    { destruct (has_ignore (cs_moves cs) ds) eqn:Hi; [specialize (P1 eq_refl); lia|destruct (P2 eq_refl) as (E & _); lia]. }
    split; [intros Hi; specialize (P1 Hi); rewrite Hlenb in P1; exact P1|].
    intros Hi. destruct (P2 Hi) as (E1 & E2).
    pose proof (outcomes_no_ignore _ _ _ _ Hi Hout) as Hoc.
    split; [exact E1|]. split; [rewrite E2; apply (proj1 Hext)|].
    split; [rewrite Hlen; destruct Hext as (_ & _ & E3 & _); exact E3|].
    split.
    { intros m Hm. destruct (Hfw m Hm) as (F1 & F2 & F3). destruct (Hsrc m Hm) as (es & S1 & S2 & S3 & S4 & S5 & _).
      destruct (Hoc m Hm) as (Ho & _).
      split; [exact F1|]. split; [exact F2|]. split; [exact F3|]. split.
      { rewrite Forall_forall in Hres. destruct (Hres m Hm) as (_ & (et & T1 & _ & T3 & T4 & _)).
        destruct (wf_own _ HWc _ _ T1) as ((b & (t & Hf & Hin & Ho') & _) & _).
        destruct (wb_tinv _ (wf_b _ HWc) _ _ Hf) as ((Hinv & _) & _).
        destruct (inv1_live_sound _ Hinv _ Hin) as (Hge & _). rewrite <- T4, <- Ho'. exact Hge. }
      split; [eapply entry_lt; eauto|]. exists es. split; [exact S1|]. split; [exact S3|]. split; [exact S4|]. split; [exact S5|].
      destruct Ho as [(es' & O1 & O2)|O]; [|right; exact O]. rewrite S2 in O1. injection O1 as <-. left. exact O2. }
    split.
    { intros s Hs Hlt. rewrite Hun.
      - destruct Hext as (_ & _ & _ & E4). apply E4. exact Hlt.
      - exact Hs.
      - intros Hin. apply in_map_iff in Hin. destruct Hin as (m & E & Hm).
        pose proof (ci_ok _ _ _ _ _ _ HC) as Hok. rewrite Forall_forall in Hok. rewrite Hmoves in Hm.
        destruct (Hok m Hm) as [_ _ _ _ _ T]. lia. }
    intros s e Hs He.
    destruct (in_dec Nat.eq_dec s (map m_tmp (cs_moves cs))) as [Hin|Hnin].
    { apply in_map_iff in Hin. destruct Hin as (m & <- & Hm). destruct (Hoc m Hm) as (_ & Hn). congruence. }
    rewrite Hun in He; [apply (ci_newtemps _ _ _ _ _ _ HC s e Hs He)| |exact Hnin].
    intros Hin. apply in_map_iff in Hin. destruct Hin as (m & E & Hm). destruct (Hsrc m Hm) as (es & S1 & _).
    apply entry_lt in S1. lia. 
Qed.

(* what one undisturbed pass with arbitrary decisions does *)
Lemma one_pass_spec st c mb ma ds ord st' c' p' ms :
  WF st -> c_moves c = [] -> 0 <= c_immovable c -> 0 <= ma -> 0 <= mb ->
  one_pass st c mb ma ds ord = Some (st', c', p', ms) ->
  WF st' /\ c_moves c' = [] /\ zlen (d_blocks st') = zlen (d_blocks st) /\ 0 <= c_immovable c' /\
  (has_ignore ms ds = true -> c_immovable c < c_immovable c' <= zlen (d_blocks st)) /\
  (has_ignore ms ds = false ->
     c_immovable c' = c_immovable c /\ map fst (d_blocks st') = map fst (d_blocks st) /\
     (length (d_table st) <= length (d_table st'))%nat /\
     (forall m, In m ms ->
        In (m_srcidx m, m_srcblk m) (indexed st) /\ In (m_dstidx m, m_dstblk m) (indexed st) /\
        (m_dstidx m < m_srcidx m \/ (m_dstblk m = m_srcblk m /\ m_dstoff m < m_srcoff m)) /\
        0 <= m_dstoff m /\ (m_src m < length (d_table st))%nat /\
        exists es, entry st (m_src m) = Some es /\ u_temp es = false /\ u_blk es = m_srcblk m /\
                   u_off es = m_srcoff m /\
                   (entry st' (m_src m) = Some (moved_to es m) \/ entry st' (m_src m) = None)) /\
     (forall s, ~ In s (map m_src ms) -> (s < length (d_table st))%nat -> entry st' s = entry st s) /\
     (forall s e, (length (d_table st) <= s)%nat -> entry st' s = Some e -> u_temp e = true)).
Proof.
  intros HW Hfresh Himm Hma Hmb. unfold one_pass.
  destruct (collect_moves st c (pass_init mb ma)) as [cs r] eqn:Hcol.
  pose proof (collect_cinv st c mb ma HW Hma Hmb Hfresh) as Hci. rewrite Hcol in Hci. cbn [fst snd] in Hci.
  destruct Hci as (new & HC & _ & Hmoves).
  pose proof (sources_are_user_allocs_once st c mb ma HW Hma Hmb Hfresh) as Hsrc. rewrite Hcol in Hsrc. cbn [fst] in Hsrc.
  pose proof (collect_reserves st c mb ma HW Hma Hmb Hfresh) as Hres. rewrite Hcol in Hres. cbn [fst] in Hres.
  pose proof (moves_forward st c mb ma HW Hma Hmb Hfresh) as Hfw. rewrite Hcol in Hfw. cbn [fst] in Hfw.
  assert (Hlo : forall m, In m (cs_moves cs) -> c_immovable c <= m_srcidx m).
  { intros m Hm. pose proof (collect_src_not_immovable st c (pass_init mb ma) m Himm) as H. rewrite Hcol in H. cbn [fst] in H.
    destruct (H Hm) as [H1|H1]; [rewrite Hfresh in H1; destruct H1|exact H1]. }
  pose proof (pass_core st c cs (pass_init mb ma) new ds ord HW Himm HC Hmoves Hsrc Hres Hfw Hlo) as Hcore.
  cbv zeta in Hcore. destruct Hcore as (Hk & Hmain).
  destruct r as [| |w]; [| |discriminate]; rewrite Hk; intros H; injection H as <- <- <- <-; exact Hmain.
Qed.

Lemma sum_n_eq_pointwise f g n :
  (forall s, (s < n)%nat -> (f s <= g s)%nat) -> sum_n f n = sum_n g n -> forall s, (s < n)%nat -> f s = g s.
Proof.
  induction n as [|k IH]; intros Hle Heq s Hs; [lia|]. cbn in Heq.
  pose proof (Hle k ltac:(lia)) as Hk.
  pose proof (sum_n_le f g k ltac:(intros x Hx; apply Hle; lia)) as Hsum.
  destruct (Nat.eq_dec s k) as [->|Hne]; [lia|]. apply IH; [intros x Hx; apply Hle; lia|lia|lia].
Qed.

Lemma blk_index_ix st i id : WF st -> In (i, id) (indexed st) -> blk_index st id = Z.to_nat i /\ 0 <= i.
Proof.
  intros HW Hin. unfold blk_index, indexed in *.
  rewrite (indexed_index _ _ _ _ (wb_ids _ (wf_b _ HW)) Hin). split; [reflexivity|].
  apply indexed_from_in in Hin. lia.
Qed.

(* a pass without an ignored move: every moved or destroyed allocation goes down in the
   lexicographic order (block index, offset), nothing else changes *)
Section PassDecreases2.
  Variables (st st' : dstate) (ms : list move).
  Hypothesis HW : WF st.
  Hypothesis Hids : map fst (d_blocks st') = map fst (d_blocks st).
  Hypothesis Hlen : (length (d_table st) <= length (d_table st'))%nat.
  Hypothesis Hmoves : forall m, In m ms ->
     In (m_srcidx m, m_srcblk m) (indexed st) /\ In (m_dstidx m, m_dstblk m) (indexed st) /\
     (m_dstidx m < m_srcidx m \/ (m_dstblk m = m_srcblk m /\ m_dstoff m < m_srcoff m)) /\
     0 <= m_dstoff m /\ (m_src m < length (d_table st))%nat /\
     exists es, entry st (m_src m) = Some es /\ u_temp es = false /\ u_blk es = m_srcblk m /\
                u_off es = m_srcoff m /\
                (entry st' (m_src m) = Some (moved_to es m) \/ entry st' (m_src m) = None).
  Hypothesis Hun : forall s, ~ In s (map m_src ms) -> (s < length (d_table st))%nat -> entry st' s = entry st s.
  Hypothesis Hnew : forall s e, (length (d_table st) <= s)%nat -> entry st' s = Some e -> u_temp e = true.

  Lemma src_weights2 m : In m ms ->
    w_idx st (m_src m) = Z.to_nat (m_srcidx m) /\ w_off st (m_src m) = Z.to_nat (m_srcoff m) /\
    0 <= m_srcidx m /\ 0 <= m_dstidx m /\ 0 <= m_dstoff m /\
    ((w_idx st' (m_src m) = Z.to_nat (m_dstidx m) /\ w_off st' (m_src m) = Z.to_nat (m_dstoff m)) \/
     (w_idx st' (m_src m) = O /\ w_off st' (m_src m) = O)).
  Proof.
    intros Hm. destruct (Hmoves m Hm) as (I1 & I2 & _ & Hd0 & _ & es & E1 & E2 & E3 & E4 & E5).
    destruct (blk_index_ix _ _ _ HW I1) as (B1 & P1). destruct (blk_index_ix _ _ _ HW I2) as (B2 & P2).
    unfold w_idx, w_off. rewrite E1, E2, E3, E4, B1.
    split; [reflexivity|]. split; [reflexivity|]. split; [exact P1|]. split; [exact P2|]. split; [exact Hd0|].
    destruct E5 as [E5|E5]; rewrite E5.
    - left. cbn [moved_to u_temp u_blk u_off]. rewrite E2, (blk_index_same _ _ Hids), B2. auto.
    - right. auto.
  Qed.

  Lemma same_idx m : In m ms -> m_dstblk m = m_srcblk m -> m_dstidx m = m_srcidx m.
  Proof.
    intros Hm F. destruct (Hmoves m Hm) as (I1 & I2 & _). rewrite F in I2. unfold indexed in I1, I2.
    symmetry. exact (indexed_from_id_fun _ _ _ _ _ (wb_ids _ (wf_b _ HW)) I1 I2).
  Qed.

  Lemma idx_pointwise2 s : (s < length (d_table st))%nat -> (w_idx st' s <= w_idx st s)%nat.
  Proof.
    intros Hlt. destruct (in_dec Nat.eq_dec s (map m_src ms)) as [Hin|Hnin].
    - apply in_map_iff in Hin. destruct Hin as (m & <- & Hm).
      destruct (src_weights2 m Hm) as (A & _ & P1 & P2 & _ & [(B & _)|(B & _)]); rewrite A, B; [|lia].
      destruct (Hmoves m Hm) as (_ & _ & [F|(F & _)] & _); [lia|]. rewrite (same_idx m Hm F). lia.
    - destruct (other_weights st st' ms Hids Hun s Hnin Hlt) as (-> & _). lia.
  Qed.

  Theorem pass_decreases :
    ms <> [] ->
    (m_idx st' < m_idx st)%nat \/ (m_idx st' = m_idx st /\ (m_off st' < m_off st)%nat).
  Proof.
    intros Hne. destruct (measures_tail st st' Hlen Hnew) as (T1 & T2). rewrite T1, T2. unfold m_idx, m_off.
    set (N := length (d_table st)).
    pose proof (sum_n_le (w_idx st') (w_idx st) N idx_pointwise2) as Hle.
    destruct (Nat.eq_dec (sum_n (w_idx st') N) (sum_n (w_idx st) N)) as [Heq|Hneq]; [|left; lia].
    right. split; [exact Heq|].
    pose proof (sum_n_eq_pointwise _ _ _ idx_pointwise2 Heq) as Hpt.
    assert (Hsrc_lt : forall m, In m ms -> (w_off st' (m_src m) < w_off st (m_src m))%nat).
    { intros m Hm. destruct (Hmoves m Hm) as (_ & _ & Hfw & _ & Hs & _).
      specialize (Hpt _ Hs).
      destruct (src_weights2 m Hm) as (A & B & P1 & P2 & P3 & [(C & D)|(C & D)]); rewrite A, C in Hpt; rewrite B, D.
      - destruct Hfw as [F|(_ & F)]; [lia|lia].
      - destruct Hfw as [F|(_ & F)]; [lia|lia]. }
    apply sum_n_lt.
    - intros s Hlt. destruct (in_dec Nat.eq_dec s (map m_src ms)) as [Hin|Hnin].
      + apply in_map_iff in Hin. destruct Hin as (m & <- & Hm). specialize (Hsrc_lt m Hm). lia.
      + destruct (other_weights st st' ms Hids Hun s Hnin Hlt) as (_ & ->). lia.
    - destruct (nonempty_in ms Hne) as (m & Hm). exists (m_src m).
      destruct (Hmoves m Hm) as (_ & _ & _ & _ & Hs & _). split; [exact Hs|apply Hsrc_lt; exact Hm].
  Qed.
End PassDecreases2.

(* C15 (7), general: with no user operation between the passes and ANY decisions (Copy, Ignore,
   Destroy, any map iteration order), every pass that proposes a move strictly decreases the
   lexicographic measure
       (BlockCount - immovableBlockCount,  sum of block indices,  sum of offsets)
   over the user allocations: a pass with an ignored move makes at least one more block
   immovable; a pass without one leaves the block order alone and every moved or destroyed
   allocation goes down in (block index, offset).  Hence every run reaches a pass that proposes
   nothing (RunDone), or stops with a failure, after finitely many passes. *)
Theorem run_terminates st c mb ma dec acc n log :
  WF st -> c_moves c = [] -> 0 <= c_immovable c -> 0 <= ma -> 0 <= mb ->
  exists fuel, run_any fuel st c mb ma dec acc n log <> RunOutOfFuel.
Proof.
  intros HW Hfresh Himm Hma Hmb.
  remember (Z.to_nat (zlen (d_blocks st) - c_immovable c)) as k eqn:Hk.
  remember (m_idx st) as a eqn:Ha. remember (m_off st) as b eqn:Hb.
  revert a b st c acc n log HW Hfresh Himm Hk Ha Hb.
  induction k as [k IHk] using lt_wf_ind. intros a.
  induction a as [a IHa] using lt_wf_ind. intros b.
  induction b as [b IHb] using lt_wf_ind. intros st c acc n log HW Hfresh Himm Hk Ha Hb.
  destruct (one_pass_with st c mb ma (dec n)) as [[[[st' c'] p'] ms]|] eqn:Hp.
  2:{ exists 1%nat. cbn [run_any]. rewrite Hp. discriminate. }
  destruct ms as [|m r].
  { exists 1%nat. cbn [run_any]. rewrite Hp. discriminate. }
  pose proof Hp as Hp'. unfold one_pass_with in Hp'.
  set (ds := fst (dec n (cs_moves (fst (collect_moves st c (pass_init mb ma)))))) in *.
  set (ord := snd (dec n (cs_moves (fst (collect_moves st c (pass_init mb ma)))))) in *.
  destruct (one_pass_spec _ _ _ _ _ _ _ _ _ _ HW Hfresh Himm Hma Hmb Hp')
    as (HW' & Hfresh' & Hzl & Himm' & Hign & Hnoign).
  assert (Hrec : exists fuel, run_any fuel st' c' mb ma dec (ps_add acc (p_stats p')) (S n) (log ++ [m :: r]) <> RunOutOfFuel).
  { destruct (has_ignore (m :: r) ds) eqn:Hi.
    - specialize (Hign eq_refl).
      eapply (IHk (Z.to_nat (zlen (d_blocks st') - c_immovable c'))); [lia|exact HW'|exact Hfresh'|exact Himm'|reflexivity|reflexivity|reflexivity].
    - destruct (Hnoign eq_refl) as (E1 & Hids & Hlen & Hmoves & Hun & Hnew).
      assert (Hk' : k = Z.to_nat (zlen (d_blocks st') - c_immovable c')) by (rewrite Hzl, E1; exact Hk).
      destruct (pass_decreases st st' (m :: r) HW Hids Hlen Hmoves Hun Hnew ltac:(discriminate)) as [Hdec|(He & Hdec)].
      + eapply (IHa (m_idx st')); [lia|exact HW'|exact Hfresh'|exact Himm'|exact Hk'|reflexivity|reflexivity].
      + eapply (IHb (m_off st')); [lia|exact HW'|exact Hfresh'|exact Himm'|exact Hk'|congruence|reflexivity]. }
  destruct Hrec as (fuel & Hf). exists (S fuel). cbn [run_any]. rewrite Hp. exact Hf.
Qed.

(* ================================================================== 10. arbitrary histories of the harness protocol *)

(* What holds between any two operations of a history (user allocations and frees at any time,
   also between the two halves of a pass; BEGIN with fresh or reused context; PASS; END with any
   decisions): the block list invariant, and while a pass is open every pending move has both
   ends reserved by distinct allocation objects. *)
Record WInv (w : world) : Prop := mkWInv {
  wi_wf : WF (w_st w);
  wi_ctx : forall c, w_ctx w = Some c ->
           0 <= c_immovable c /\
           (w_open w = false -> c_moves c = []) /\
           (w_open w = true -> Forall (reserved (w_st w)) (c_moves c) /\
                               NoDup (map m_src (c_moves c) ++ map m_tmp (c_moves c)))
}.

Lemma lim_ge0 v : 0 <= lim v.
Proof. unfold lim, max_int. destruct (v <? 0) eqn:E; [lia|apply Z.ltb_ge in E; exact E]. Qed.

Lemma swap_all_ge ids : forall bl immc acc bl' immc' sws,
  swap_all bl immc ids acc = (bl', immc', sws) -> immc <= immc'.
Proof.
  induction ids as [|id r IH]; intros bl immc acc bl' immc' sws; cbn [swap_all].
  - intros H; injection H as _ <- _. lia.
  - unfold swap_immovable. destruct (index_from id (skipn (Z.to_nat immc) bl) immc); intros H; apply IH in H; lia.
Qed.

Lemma complete_pass_immovable st c p ds ord : c_immovable c <= c_immovable (r_ctx (complete_pass st c p ds ord)).
Proof.
  unfold complete_pass. destruct (complete_moves _ _ _) as [cp [|]]; cbn [r_ctx]; [lia|].
  destruct (swap_all _ _ _ _) as [[bl immc] sws] eqn:Hs. cbn [r_ctx c_immovable]. eapply swap_all_ge; eauto.
Qed.

(* the admissible operations: user allocations of an admissible kind *)
Definition wop_ok (o : wop) : Prop :=
  match o with OpAlloc _ _ _ kind _ => Kok kind | _ => True end.

Theorem wstep_preserves w o :
  WInv w -> wop_ok o -> w_dead (fst (wstep w o)) = false -> WInv (fst (wstep w o)).
Proof.
  intros HWI Hwok. pose proof HWI as [HW Hctx]. unfold wstep. destruct (w_dead w) eqn:Hdead; [cbn; congruence|].
  destruct o as [id size align kind tag|slot|algo mb ma reuse| |ds ord|].
  - (* user allocation *)
    destruct (user_alloc (w_st w) id size align kind tag) as [st' r] eqn:Hu.
    destruct (user_alloc_wf _ _ _ _ _ _ _ _ HW Hwok Hu) as (HW' & Hext).
    assert (Hgo : WInv (w_set_st w st')).
    { constructor; cbn [w_set_st w_st w_ctx w_open]; auto.
      intros c Hc. destruct (Hctx c Hc) as (A & B & C). split; [exact A|]. split; [exact B|].
      intros Ho. destruct (C Ho) as (C1 & C2). split; [|exact C2].
      eapply Forall_impl; [|exact C1]. intros m. apply reserved_ext. exact Hext. }
    destruct r; cbn [fst snd]; intros Hd;
      [exact Hgo|exact Hgo|exact Hgo|exact HWI|cbn in Hd; discriminate].
  - (* user free *)
    destruct (slot <? 0); [cbn; intros; exact HWI|].
    destruct (entry (w_st w) (Z.to_nat slot)) as [e|] eqn:He; [|cbn; intros; exact HWI].
    destruct (u_temp e) eqn:Ht; [cbn; intros; exact HWI|].
    destruct (existsb _ (pending w)) eqn:Hb; [cbn; intros; exact HWI|].
    destruct (free_slot (w_st w) (Z.to_nat slot)) as [st' k] eqn:Hf.
    assert (Hgo : k <> RPanic -> WInv (w_set_st w st')).
    { intros Hk. constructor; cbn [w_set_st w_st w_ctx w_open]; auto.
      - destruct k; [destruct (free_slot_ok _ _ _ HW Hf); auto| | |congruence];
          rewrite (free_slot_fail _ _ _ _ Hf); auto; discriminate.
      - intros c Hc. destruct (Hctx c Hc) as (A & B & C). split; [exact A|]. split; [exact B|].
        intros Ho. destruct (C Ho) as (C1 & C2). split; [|exact C2].
        apply Forall_forall. intros m Hm. rewrite Forall_forall in C1.
        eapply free_keeps_reserved; eauto.
        + intros Heq. unfold pending in Hb. rewrite Hc, Ho in Hb.
          assert (existsb (fun m0 => Nat.eqb (m_src m0) (Z.to_nat slot)) (c_moves c) = true).
          { apply existsb_exists. exists m. split; [exact Hm|]. apply Nat.eqb_eq. auto. }
          congruence.
        + intros Heq. destruct (C1 m Hm) as (_ & (et & T1 & T2 & _)). rewrite <- Heq in T1. congruence. }
    destruct k; cbn [fst snd]; intros Hd;
      [apply Hgo; discriminate|apply Hgo; discriminate|apply Hgo; discriminate|cbn in Hd; discriminate].
  - (* BEGIN *)
    destruct (w_open w) eqn:Ho; [cbn; intros; exact HWI|].
    destruct ((algo <? 0) || (2 <? algo)); [cbn; intros; exact HWI|].
    cbv zeta. cbn [fst snd]. intros _. constructor; cbn [w_st w_ctx w_open]; auto.
    intros c Hc. injection Hc as <-.
    assert (Hini : forall c0, 0 <= c_immovable (ctx_init c0 algo) /\ (false = false -> c_moves (ctx_init c0 algo) = []) /\
                     (false = true -> Forall (reserved (w_st w)) (c_moves (ctx_init c0 algo)) /\
                        NoDup (map m_src (c_moves (ctx_init c0 algo)) ++ map m_tmp (c_moves (ctx_init c0 algo))))).
    { intros c0. cbn. split; [lia|]. split; [reflexivity|discriminate]. }
    destruct (w_ctx w) as [c0|]; [destruct (reuse =? 1)|]; apply Hini.
  - (* PASS *)
    destruct (w_begun w) eqn:Hbg; cbn [negb]; [|cbn; intros; exact HWI].
    destruct (w_open w) eqn:Ho; [cbn; intros; exact HWI|].
    destruct (w_ctx w) as [c|] eqn:Hc; [|cbn; intros; exact HWI].
    destruct (Hctx c eq_refl) as (A & B & _). specialize (B eq_refl).
    pose proof (lim_ge0 (w_max_bytes w)) as Hmb. pose proof (lim_ge0 (w_max_allocs w)) as Hma.
    destruct (collect_moves (w_st w) c (pass_init (lim (w_max_bytes w)) (lim (w_max_allocs w)))) as [cs r] eqn:Hcol.
    pose proof (collect_reserves _ _ _ _ HW Hma Hmb B) as Hres. rewrite Hcol in Hres. cbn [fst] in Hres.
    pose proof (sources_are_user_allocs_once _ _ _ _ HW Hma Hmb B) as Hsrc. rewrite Hcol in Hsrc. cbn [fst] in Hsrc.
    destruct Hres as (HWc & _ & Hres). destruct Hsrc as (_ & N1 & N2 & N3).
    destruct r; cbn [fst snd]; intros Hd; try (cbn in Hd; discriminate).
    all: constructor; cbn [w_st w_ctx w_open]; auto.
    all: intros c' Hc'; injection Hc' as <-; cbn [c_immovable c_moves]; split; [exact A|]; split; [discriminate|]; intros _; split; [exact Hres|].
    all: apply NoDup_app_intro; auto; intros x Hx1 Hx2; apply in_map_iff in Hx1; destruct Hx1 as (m1 & <- & H1);
      apply in_map_iff in Hx2; destruct Hx2 as (m2 & E & H2); apply (N3 m1 m2 H1 H2); symmetry; exact E.
  - (* END *)
    destruct (w_ctx w) as [c|] eqn:Hc; [|cbn; intros; exact HWI].
    destruct (w_pass w) as [p|]; [|cbn; intros; exact HWI].
    destruct (w_open w) eqn:Ho; cbn [negb]; [|cbn; intros; exact HWI].
    destruct (Hctx c eq_refl) as (A & _ & C). destruct (C eq_refl) as (C1 & C2).
    rewrite (complete_pass_ok _ _ p ds ord HW C1 C2). cbn [fst snd]. intros Hd.
    destruct (complete_pass_wf _ _ p ds ord HW C1 C2) as (HW' & _ & _ & _ & Hmv).
    constructor; cbn [w_st w_ctx w_open]; auto.
    intros c' Hc'. injection Hc' as <-. split; [pose proof (complete_pass_immovable (w_st w) c p ds ord); lia|].
    split; [intros _; exact Hmv|discriminate].
  - cbn. intros. exact HWI.
Qed.

Lemma world_init_inv sizes sentinel :
  pow2 gg -> Forall (fun s => 1 <= s < 2 ^ 39 /\ Q (tlsf_init gh gg s)) sizes ->
  WInv (world_init_g gh gg sizes sentinel).
Proof.
  intros Hpg Hs. constructor; cbn; [|discriminate].
  assert (Hfind : forall a l id t, find_id id (map (fun q => (fst q, tlsf_init gh gg (snd q))) (indexed_from a l)) = Some t ->
                                   exists s, In s l /\ t = tlsf_init gh gg s).
  { intros a l; revert a; induction l as [|x r IH]; intros a id t; cbn; [discriminate|].
    destruct (a =? id); [intros H; injection H as <-; eauto|]. intros H. apply IH in H. destruct H as (s & H1 & H2). eauto. }
  constructor; cbn.
  - constructor; cbn.
    + assert (Hids : forall a l, map fst (map (fun q : Z * Z => (fst q, tlsf_init gh gg (snd q))) (indexed_from a l)) = map fst (indexed_from a l)).
      { intros a l. rewrite map_map. reflexivity. }
      rewrite Hids. generalize 0. clear Hs. induction sizes as [|x r IH]; intros a; cbn; [constructor|].
      constructor; [|apply IH; auto].
      intros Hin. apply in_map_iff in Hin. destruct Hin as ([i s] & E & Hin). cbn in E. subst i. apply indexed_from_in in Hin. lia.
    + intros id t Hf. apply Hfind in Hf. destruct Hf as (s & Hin & ->). rewrite Forall_forall in Hs.
      specialize (Hs _ Hin). cbv beta in Hs. destruct Hs as (Hs & HQ).
      split; [apply init_TInv; split; [lia|exact Hpg]|]. split; [|apply init_inv2; exact Hs].
      split; [|split; [|exact HQ]]; unfold tlsf_init, gran_init; cbn [t_gran]; destruct (enabled _); reflexivity.
  - intros s e He. unfold entry in He. cbn in He. destruct s; discriminate.
  - intros id off b (t & Hf & Hin & _). apply Hfind in Hf. destruct Hf as (s & _ & ->). cbn in Hin. destruct Hin.
  - intros s1 s2 e1 e2 He. unfold entry in He. cbn in He. destruct s1; discriminate.
  - intros s e He. unfold entry in He. cbn in He. destruct s; discriminate.
Qed.

(* ================================================================== 11. a collecting pass never panics *)

Definition live_handle (st : dstate) (id h : Z) : Prop := exists b, holds st id h b.

Lemma get_move_data_total st id t h :
  WF st -> find_id id (d_blocks st) = Some t -> live_handle st id h -> get_move_data st t h <> MDPanic.
Proof.
  intros HW Hf (b & Hh). pose proof Hh as (t' & Hf' & Hin & Ho). rewrite Hf in Hf'. injection Hf' as <-.
  destruct (wb_tinv _ (wf_b _ HW) _ _ Hf) as (([Hgeo _ _ _] & _) & _).
  destruct (live_in_chain _ _ Hin) as (Hc & Hfree).
  pose proof (find_blk_unique _ _ _ (g_chain _ Hgeo) Hc) as Hfb. rewrite Ho in Hfb.
  unfold get_move_data, get_user_data. rewrite Hfb, Hfree.
  destruct (wf_owned _ HW _ _ _ Hh) as (s & e & He & Hb' & Ho').
  destruct (wf_own _ HW _ _ He) as ((b' & Hh' & _ & Htok) & _).
  rewrite Hb', Ho' in Hh'. pose proof (holdsb_fun _ _ _ _ _ (wf_b _ HW) Hh Hh') as <-.
  destruct Htok as [Htok|(_ & Htok)]; rewrite Htok.
  - assert (E1 : (Z.of_nat s =? ctx_tag) = false) by (apply Z.eqb_neq; unfold ctx_tag; lia).
    assert (E2 : (Z.of_nat s <? 0) = false) by (apply Z.ltb_ge; lia).
    rewrite E1, E2, Nat2Z.id. unfold entry in He.
    destruct (nth_error (d_table st) s) as [[e0|]|]; try discriminate. destruct (u_temp e0); discriminate.
  - rewrite Z.eqb_refl. discriminate.
Qed.

(* ------------------------------------------------------------------ the fuel of a block walk suffices *)

(* potential of the walk standing at handle h of block id: 2 per user allocation, 1 per temporary
   of that block at or below h *)
Definition wgt (id h : Z) (oe : option uent) : nat :=
  match oe with
  | Some e => if (u_blk e =? id) && (u_off e <=? h) then (if u_temp e then 1 else 2)%nat else O
  | None => O
  end.

Fixpoint phi_tab (id h : Z) (tb : list (option uent)) : nat :=
  match tb with [] => O | x :: r => (wgt id h x + phi_tab id h r)%nat end.

Definition phi (st : dstate) (id h : Z) : nat := phi_tab id h (d_table st).

Lemma wgt_le2 id h x : (wgt id h x <= 2)%nat.
Proof. unfold wgt. destruct x as [e|]; [|lia]. destruct (_ && _); [|lia]. destruct (u_temp e); lia. Qed.

Lemma phi_tab_le_len id h tb : (phi_tab id h tb <= 2 * length tb)%nat.
Proof. induction tb as [|x r IH]; cbn [phi_tab length]; [lia|]. pose proof (wgt_le2 id h x). lia. Qed.

Lemma phi_tab_app id h a b : phi_tab id h (a ++ b) = (phi_tab id h a + phi_tab id h b)%nat.
Proof. induction a as [|x r IH]; cbn [phi_tab app]; [reflexivity|]. rewrite IH. lia. Qed.

Lemma wgt_mono id h h' x : h' <= h -> (wgt id h' x <= wgt id h x)%nat.
Proof.
  intros Hle. unfold wgt. destruct x as [e|]; [|lia]. destruct (u_blk e =? id); cbn [andb]; [|lia].
  destruct (u_off e <=? h') eqn:E1; [|lia]. apply Z.leb_le in E1.
  destruct (u_off e <=? h) eqn:E2; [lia|]. apply Z.leb_gt in E2. lia.
Qed.

Lemma phi_tab_mono id h h' tb : h' <= h -> (phi_tab id h' tb <= phi_tab id h tb)%nat.
Proof. intros Hle. induction tb as [|x r IH]; cbn [phi_tab]; [lia|]. pose proof (wgt_mono id h h' x Hle). lia. Qed.

Lemma phi_tab_drop tb : forall s e id h h',
  nth_error tb s = Some (Some e) -> u_blk e = id -> u_off e = h -> h' < h ->
  (phi_tab id h' tb + (if u_temp e then 1 else 2) <= phi_tab id h tb)%nat.
Proof.
  induction tb as [|x r IH]; intros s e id h h' Hn Hb Ho Hlt; [destruct s; discriminate|].
  destruct s as [|s]; cbn [nth_error phi_tab] in *.
  - injection Hn as ->. pose proof (phi_tab_mono id h h' r ltac:(lia)).
    unfold wgt. rewrite Hb, Z.eqb_refl. cbn [andb].
    assert (E1 : (u_off e <=? h') = false) by (apply Z.leb_gt; lia).
    assert (E2 : (u_off e <=? h) = true) by (apply Z.leb_le; lia).
    rewrite E1, E2. lia.
  - specialize (IH s e id h h' Hn Hb Ho Hlt). pose proof (wgt_mono id h h' x ltac:(lia)). lia.
Qed.

Lemma next_alloc_live t h h' : next_alloc t h = Some h' -> exists b, In b (live t) /\ b_off b = h'.
Proof.
  unfold next_alloc. intros H.
  assert (Hin : In h' (iterate t)).
  { generalize dependent (iterate t). intros l. induction l as [|x l IH]; cbn; [discriminate|].
    destruct (x <? h); cbn; [intros H; injection H as <-; auto|intros H; right; auto]. }
  rewrite tlsf_iteration_exact in Hin. apply in_rev in Hin. apply in_map_iff in Hin.
  destruct Hin as (b & Hb & Hin). exists b. auto.
Qed.

Lemma cinv_new_le st0 ms0 p0 ids cs new :
  CInv st0 ms0 p0 (indexed_from 0 ids) cs new -> NoDup ids -> (length new <= length (d_table st0))%nat.
Proof.
  intros HC Hnd. pose proof (ci_ok _ _ _ _ _ _ HC) as Hok. rewrite Forall_forall in Hok.
  assert (Hsrc : NoDup (map m_src new)).
  { eapply NoDup_map_coarser; [apply (ci_keys _ _ _ _ _ _ HC)|].
    intros a b Ha Hb Hsrc.
    destruct (Hok _ Ha) as [Ia _ _ (ea & A1 & _ & A3 & A4 & _) _ _].
    destruct (Hok _ Hb) as [Ib _ _ (eb & B1 & _ & B3 & B4 & _) _ _].
    rewrite Hsrc in A1. rewrite A1 in B1. injection B1 as <-.
    assert (Hblk : m_srcblk a = m_srcblk b) by congruence.
    assert (Hoff : m_srcoff a = m_srcoff b) by congruence.
    rewrite Hblk in Ia. pose proof (indexed_from_id_fun _ _ _ _ _ Hnd Ia Ib). congruence. }
  rewrite <- (map_length m_src new), <- (seq_length (length (d_table st0)) 0).
  apply NoDup_incl_length; [exact Hsrc|]. intros s Hs. apply in_map_iff in Hs. destruct Hs as (m & <- & Hm).
  destruct (Hok _ Hm) as [_ _ _ (es & E1 & _) _ _]. apply entry_lt in E1. apply in_seq. lia.
Qed.

Lemma list_begin_ok t : TInv t -> Inv2 t ->
  match list_begin t with
  | LBPanic => False
  | LBSome h => exists b, In b (live t) /\ b_off b = h
  | LBNone => True
  end.
Proof.
  intros HT HI2. unfold list_begin. pose proof (i2_alloc _ HI2) as Hac.
  destruct (t_alloc_count t =? 0) eqn:E; [exact I|]. apply Z.eqb_neq in E.
  rewrite tlsf_iteration_exact. destruct (live t) as [|b0 l] eqn:Hl.
  - unfold zlen in Hac. cbn in Hac. lia.
  - destruct (rev (map b_off (b0 :: l))) as [|h r] eqn:Hr.
    + apply (f_equal (@length Z)) in Hr. rewrite rev_length, map_length in Hr. cbn in Hr. lia.
    + assert (Hin : In h (rev (map b_off (b0 :: l)))) by (rewrite Hr; left; reflexivity).
      apply in_rev in Hin. apply in_map_iff in Hin. destruct Hin as (b & Hb & Hin). exists b. auto.
Qed.

(* at most one temporary is appended to the table by one visit *)
Definition tab_ext (cs : cstate) (res : cstate * wres) : Prop :=
  d_table (cs_st (fst res)) = d_table (cs_st cs) \/
  exists etmp, u_temp etmp = true /\ d_table (cs_st (fst res)) = d_table (cs_st cs) ++ [Some etmp].

Lemma commit_move_tab cs st' slot e bi dstidx did off :
  d_table st' = d_table (cs_st cs) -> tab_ext cs (commit_move cs st' slot e bi dstidx did off).
Proof.
  intros Ht. unfold commit_move. destruct (increment_counters _ _) as [p' r]. right.
  eexists. cbn [fst cs_st set_table d_table]. rewrite Ht. split; [|reflexivity]. reflexivity.
Qed.

(* the only panic a visit can end in is the one of incrementCounters (excluded by step_post) *)
Lemma commit_move_panic cs st' slot e bi dstidx did off w :
  snd (commit_move cs st' slot e bi dstidx did off) = WPanic w -> w = PCounters.
Proof.
  unfold commit_move. destruct (increment_counters _ _) as [p' r]. cbn [snd].
  destruct r; intros H; try discriminate. injection H as <-. reflexivity.
Qed.

Section AttTot.
Variable Env : Type.
Variable att : Env -> nat -> Z -> Env * bool.

Lemma alloc_other_f_table st cands size align kind env slot :
  match fst (fst (alloc_other_f Env att st cands size align kind env slot)) with
  | AOFound st' _ _ _ => d_table st' = d_table st
  | AONone st' => d_table st' = d_table st
  | AOPanic st' => d_table st' = d_table st
  end.
Proof.
  revert st env; induction cands as [|[idx id] rest IH]; intros st env; cbn [alloc_other_f]; [reflexivity|].
  destruct (find_id id (d_blocks st)); [|reflexivity].
  destruct (may_have_free _ _ _); [|apply IH].
  destruct (alloc_in_f Env att _ _ _ _ _ _ _ env slot id) as [[a env'] fl]. destruct a as [t' off|t'|]; [reflexivity| |reflexivity].
  specialize (IH (set_block st id t') env').
  destruct (alloc_other_f Env att (set_block st id t') rest size align kind env' slot) as [[r env''] lg]. exact IH.
Qed.

Lemma alloc_other_f_nopanic st cands size align kind env slot :
  WF st -> pow2 align -> Kok kind -> rnd kind size = size ->
  (forall i id, In (i, id) cands -> In id (map fst (d_blocks st))) ->
  forall st', fst (fst (alloc_other_f Env att st cands size align kind env slot)) <> AOPanic st'.
Proof.
  intros HW Hpa Hk Hst. revert st env HW. induction cands as [|[idx id] rest IH]; intros st env HW Hids st'; cbn [alloc_other_f]; [discriminate|].
  destruct (in_ids_find id (d_blocks st) (Hids idx id (or_introl eq_refl))) as (t & Hf). rewrite Hf.
  assert (Hids' : forall i id0, In (i, id0) rest -> In id0 (map fst (d_blocks st))) by (intros i id0 Hin; eapply Hids; right; exact Hin).
  destruct (wb_tinv _ (wf_b _ HW) _ _ Hf) as (HT & Hg & HI2).
  destruct (may_have_free t kind size); [|apply IH; auto].
  pose proof (alloc_in_f_spec Env att t size align kind 0 max_int (tmp_tag st) env slot id HT Hg HI2 Hpa Hk Hst) as Hs.
  destruct (alloc_in_f Env att t size align kind 0 max_int (tmp_tag st) env slot id) as [[a env'] fl].
  destruct a as [t' off|t'|]; [discriminate| |destruct Hs].
  destruct Hs as (HT' & Hg' & HI2' & Hl' & Hsz').
  assert (HW2 : WF (set_block st id t')) by (eapply wf_set_same; eauto).
  specialize (IH (set_block st id t') env' HW2).
  destruct (alloc_other_f Env att (set_block st id t') rest size align kind env' slot) as [[r env''] lg]. cbn [fst] in IH |- *.
  apply IH. intros i id0 Hin. cbn [set_block set_blocks d_blocks]. rewrite set_id_ids. eapply Hids'; eauto.
Qed.

Lemma lower_if_f_tab cs bi id h slot e env : tab_ext cs (res_f (lower_if_f Env att cs bi id h slot e env)).
Proof.
  unfold lower_if_f. destruct (find_id _ _); [|left; reflexivity].
  destruct (_ && _); [|left; reflexivity]. unfold try_lower_f.
  destruct (alloc_lower_f Env att _ _ _ _ _ _ env slot id) as [[a env'] fl].
  destruct a as [t' off|t'|]; [|left; reflexivity|left; reflexivity].
  rewrite res_f_commit. apply commit_move_tab. reflexivity.
Qed.

Lemma handle_alloc_f_tab algo ix cs bi id h slot e env : tab_ext cs (res_f (handle_alloc_f Env att algo ix cs bi id h slot e env)).
Proof.
  unfold handle_alloc_f. destruct (algo =? 0); [apply lower_if_f_tab|].
  pose proof (alloc_other_f_table (cs_st cs) (firstn (Z.to_nat bi) ix) (u_size e) (u_align e) (u_kind e) env slot) as Ht.
  destruct (alloc_other_f Env att (cs_st cs) (firstn (Z.to_nat bi) ix) (u_size e) (u_align e) (u_kind e) env slot) as [[a env'] lg].
  cbn [fst] in Ht.
  destruct (algo =? 1).
  - destruct (bi =? 0); [left; reflexivity|].
    destruct a as [st' idx did off|st'|st']; [rewrite res_f_commit; apply commit_move_tab; exact Ht|left; exact Ht|left; exact Ht].
  - destruct (0 <? bi); [|apply lower_if_f_tab].
    destruct a as [st' idx did off|st'|st']; [rewrite res_f_commit; apply commit_move_tab; exact Ht| |left; exact Ht].
    rewrite res_f_log.
    destruct (lower_if_f_tab (cs_set_st cs st') bi id h slot e env') as [Et|(etmp & T & Et)]; cbn [cs_set_st cs_st] in Et.
    + left. rewrite Et. exact Ht.
    + right. exists etmp. split; [exact T|]. rewrite Et, Ht. reflexivity.
Qed.

Lemma visit_f_tab algo ix cs bi id h t env :
  find_id id (d_blocks (cs_st cs)) = Some t ->
  match get_move_data (cs_st cs) t h with
  | MDMove _ _ => tab_ext cs (res_f (visit_f Env att algo ix cs bi id h env))
  | _ => d_table (cs_st (fst (res_f (visit_f Env att algo ix cs bi id h env)))) = d_table (cs_st cs)
  end.
Proof.
  intros Hf. unfold visit_f. rewrite Hf. destruct (get_move_data (cs_st cs) t h) as [| |slot e]; [reflexivity|reflexivity|].
  destruct (check_counters _ _) as [p1 c0]. destruct c0; [|left; reflexivity|left; reflexivity].
  exact (handle_alloc_f_tab algo ix (cs_set_pass cs p1) bi id h slot e env).
Qed.

Lemma lower_if_f_panic cs bi id h slot e env w :
  WF (cs_st cs) -> In id (map fst (d_blocks (cs_st cs))) -> pow2 (u_align e) -> 1 <= u_size e ->
  rnd (u_kind e) (u_size e) = u_size e -> Kok (u_kind e) ->
  snd (res_f (lower_if_f Env att cs bi id h slot e env)) = WPanic w -> w = PCounters.
Proof.
  intros HW Hid Hpa Hs1 Hrs Hkk. unfold lower_if_f.
  destruct (in_ids_find _ _ Hid) as (t & Hf). rewrite Hf.
  destruct (_ && _); [|discriminate]. unfold try_lower_f.
  destruct (wb_tinv _ (wf_b _ HW) _ _ Hf) as (HT & Hg & HI2).
  pose proof (alloc_lower_f_spec Env att t (u_size e) (u_align e) (u_kind e) h (tmp_tag (cs_st cs)) env slot id HT Hg HI2 Hpa Hs1 Hkk Hrs) as Hs.
  destruct (alloc_lower_f Env att _ _ _ _ _ _ env slot id) as [[a env'] fl].
  destruct a as [t' off|t'|]; [rewrite res_f_commit; apply commit_move_panic|discriminate|destruct Hs].
Qed.

Lemma handle_alloc_f_panic algo ids cs bi id h slot e env w :
  WF (cs_st cs) -> map fst (d_blocks (cs_st cs)) = ids -> In (bi, id) (indexed_from 0 ids) ->
  pow2 (u_align e) -> 1 <= u_size e -> rnd (u_kind e) (u_size e) = u_size e -> Kok (u_kind e) ->
  snd (res_f (handle_alloc_f Env att algo (indexed_from 0 ids) cs bi id h slot e env)) = WPanic w -> w = PCounters.
Proof.
  intros HW Hids Hix Hpa Hs1 Hrs Hkk.
  assert (Hid : In id (map fst (d_blocks (cs_st cs)))) by (rewrite Hids; apply indexed_from_in in Hix; tauto).
  assert (Hcands : forall i id0, In (i, id0) (firstn (Z.to_nat bi) (indexed_from 0 ids)) -> In id0 (map fst (d_blocks (cs_st cs)))).
  { intros i id0 Hin. apply indexed_from_firstn in Hin. destruct Hin as (_ & Hin). apply indexed_from_in in Hin. rewrite Hids. tauto. }
  unfold handle_alloc_f.
  destruct (algo =? 0); [apply lower_if_f_panic; auto|].
  pose proof (alloc_other_f_spec Env att (cs_st cs) (firstn (Z.to_nat bi) (indexed_from 0 ids)) (u_size e) (u_align e) (u_kind e) env slot HW Hpa Hkk Hrs) as Hsp.
  pose proof (alloc_other_f_nopanic (cs_st cs) (firstn (Z.to_nat bi) (indexed_from 0 ids)) (u_size e) (u_align e) (u_kind e) env slot HW Hpa Hkk Hrs Hcands) as Hnp.
  destruct (alloc_other_f Env att (cs_st cs) (firstn (Z.to_nat bi) (indexed_from 0 ids)) (u_size e) (u_align e) (u_kind e) env slot) as [[a env'] lg].
  cbn [fst] in Hnp.
  destruct (algo =? 1).
  - destruct (bi =? 0); [discriminate|].
    destruct a as [st' idx did off|st'|st']; [rewrite res_f_commit; apply commit_move_panic|discriminate|exfalso; eapply Hnp; reflexivity].
  - destruct (0 <? bi); [|apply lower_if_f_panic; auto].
    destruct a as [st' idx did off|st'|st']; [rewrite res_f_commit; apply commit_move_panic| |exfalso; eapply Hnp; reflexivity].
    destruct Hsp as (HW' & (He1 & _) & _). rewrite res_f_log.
    apply lower_if_f_panic; cbn [cs_set_st cs_st]; auto. rewrite He1. exact Hid.
Qed.

Lemma visit_f_panic algo ids cs bi id h env w :
  WF (cs_st cs) -> map fst (d_blocks (cs_st cs)) = ids -> In (bi, id) (indexed_from 0 ids) ->
  live_handle (cs_st cs) id h ->
  snd (res_f (visit_f Env att algo (indexed_from 0 ids) cs bi id h env)) = WPanic w -> w = PCounters.
Proof.
  intros HW Hids Hix Hlive. unfold visit_f.
  assert (Hid : In id (map fst (d_blocks (cs_st cs)))) by (rewrite Hids; apply indexed_from_in in Hix; tauto).
  destruct (in_ids_find _ _ Hid) as (t & Hf). rewrite Hf.
  pose proof (get_move_data_total _ _ _ _ HW Hf Hlive) as Hmd.
  destruct (get_move_data (cs_st cs) t h) as [| |slot e] eqn:Hg; [congruence|discriminate|].
  destruct (get_move_data_spec _ _ _ _ _ _ HW Hf Hg) as (Hent & _).
  destruct (wf_own _ HW _ _ Hent) as (_ & Hpa & Hs1). destruct (wf_rnd _ HW _ _ Hent) as (Hrs & Hkk).
  destruct (check_counters _ _) as [p1 c0]. destruct c0; [|discriminate|discriminate].
  apply handle_alloc_f_panic; auto.
Qed.

Lemma walk_block_f_total st0 ms0 p0 ids algo fuel : forall cs new bi id h env,
  let ix := indexed_from 0 ids in
  CInv st0 ms0 p0 ix cs new -> map fst (d_blocks st0) = ids -> In (bi, id) ix ->
  Forall (key_above bi h) new -> pass_running (cs_pass cs) ->
  live_handle (cs_st cs) id h -> (phi (cs_st cs) id h < fuel)%nat ->
  forall w, snd (res_f (walk_block_f Env att fuel algo ix cs bi id h env)) <> WPanic w.
Proof.
  induction fuel as [|f IH]; intros cs new bi id h env ix HC Hids Hix Hkeys Hrun Hlive Hphi w; [lia|].
  cbn [walk_block_f].
  pose proof (ci_wf _ _ _ _ _ _ HC) as HW.
  assert (Hidsc : map fst (d_blocks (cs_st cs)) = ids) by (rewrite <- Hids; apply (ci_ext _ _ _ _ _ _ HC)).
  pose proof (visit_f_spec Env att st0 ms0 p0 ids cs new algo bi id h env HC Hix Hkeys Hrun) as Hv. fold ix in Hv.
  pose proof (visit_f_panic algo ids cs bi id h env) as Hvp. fold ix in Hvp.
  assert (Hid : In id (map fst (d_blocks (cs_st cs)))) by (rewrite Hidsc; apply indexed_from_in in Hix; tauto).
  destruct (in_ids_find _ _ Hid) as (t & Hf).
  pose proof (visit_f_tab algo ix cs bi id h t env Hf) as Htab.
  destruct (visit_f Env att algo ix cs bi id h env) as [[[cs' env'] lg] r] eqn:Hvis.
  unfold res_f in Hv, Hvp, Htab; cbn [fst snd] in Hv, Hvp, Htab.
  destruct Hv as (add & HC' & Hk' & Hnp & Hrun'). cbn [fst snd] in *.
  destruct r as [| |w0].
  2:{ unfold res_f; cbn [fst snd]. discriminate. }
  2:{ unfold res_f; cbn [fst snd]. intros Hw. injection Hw as ->. apply Hnp. rewrite (Hvp w HW Hidsc Hix Hlive eq_refl). reflexivity. }
  pose proof (ci_wf _ _ _ _ _ _ HC') as HW'.
  assert (Hidsc' : map fst (d_blocks (cs_st cs')) = ids) by (rewrite <- Hids; apply (ci_ext _ _ _ _ _ _ HC')).
  assert (Hid' : In id (map fst (d_blocks (cs_st cs')))) by (rewrite Hidsc'; apply indexed_from_in in Hix; tauto).
  destruct (in_ids_find _ _ Hid') as (t' & Hf'). rewrite Hf'.
  destruct (next_alloc t' h) as [h'|] eqn:Hn; [|unfold res_f; cbn [fst snd]; discriminate].
  pose proof (next_alloc_lt _ _ _ Hn) as Hlt.
  destruct (next_alloc_live _ _ _ Hn) as (b' & Hb'in & Hb'off).
  assert (Hlive' : live_handle (cs_st cs') id h') by (exists b', t'; auto).
  assert (Hk2 : Forall (key_above bi h') (new ++ add)).
  { eapply Forall_impl; [|exact Hk']. intros m [K|K]; [left; exact K|right; lia]. }
  assert (Hphi' : (phi (cs_st cs') id h' < f)%nat).
  { destruct Hlive as (b & Hh). destruct (wf_owned _ HW _ _ _ Hh) as (s & e & He & Hb & Ho).
    unfold phi in *. unfold tab_ext in Htab; cbn [fst] in Htab.
    destruct (get_move_data (cs_st cs) t h) as [| |slot e'] eqn:Hg.
    - rewrite Htab. unfold entry in He. destruct (nth_error (d_table (cs_st cs)) s) as [[e0|]|] eqn:En; try discriminate.
      injection He as ->. pose proof (phi_tab_drop _ _ _ _ _ _ En Hb Ho Hlt). destruct (u_temp e); lia.
    - rewrite Htab. unfold entry in He. destruct (nth_error (d_table (cs_st cs)) s) as [[e0|]|] eqn:En; try discriminate.
      injection He as ->. pose proof (phi_tab_drop _ _ _ _ _ _ En Hb Ho Hlt). destruct (u_temp e); lia.
    - destruct (get_move_data_spec _ _ _ _ _ _ HW Hf Hg) as (Hent & Htemp & Hblk & Hoff).
      unfold entry in Hent. destruct (nth_error (d_table (cs_st cs)) slot) as [[e0|]|] eqn:En; try discriminate.
      injection Hent as ->.
      destruct Htab as [Et|(etmp & Tt & Et)]; rewrite Et.
      + pose proof (phi_tab_drop _ _ _ _ _ _ En Hblk Hoff Hlt). rewrite Htemp in *. lia.
      + assert (En' : nth_error (d_table (cs_st cs) ++ [Some etmp]) slot = Some (Some e')).
        { rewrite nth_error_app1; [exact En|]. apply nth_error_Some. congruence. }
        pose proof (phi_tab_drop _ _ _ _ _ _ En' Hblk Hoff Hlt) as Hd. rewrite Htemp in Hd.
        rewrite !phi_tab_app in Hd. rewrite phi_tab_app. cbn [phi_tab] in Hd |- *.
        assert (Hw1 : (wgt id h (Some etmp) <= 1)%nat).
        { unfold wgt. destruct (_ && _); [rewrite Tt; lia|lia]. }
        lia. }
  rewrite res_f_log.
  exact (IH cs' (new ++ add) bi id h' env' HC' Hids Hix Hk2 (Hrun' eq_refl) Hlive' Hphi' w).
Qed.

Lemma walk_blocks_f_total st0 ms0 p0 ids algo srcs : forall cs new env,
  let ix := indexed_from 0 ids in
  CInv st0 ms0 p0 ix cs new -> map fst (d_blocks st0) = ids -> NoDup ids ->
  (forall x, In x srcs -> In x ix) -> idx_desc srcs ->
  (forall m x, In m new -> In x srcs -> fst x < m_srcidx m) -> pass_running (cs_pass cs) ->
  forall w, snd (res_f (walk_blocks_f Env att (walk_fuel st0) algo ix cs srcs env)) <> WPanic w.
Proof.
  induction srcs as [|[bi id] rest IH]; intros cs new env ix HC Hids Hnd Hin Hdesc Habove Hrun w; cbn [walk_blocks_f];
    [unfold res_f; cbn [fst snd]; discriminate|].
  destruct (idx_desc_tail _ _ Hdesc) as (Hdesc' & Hlt).
  assert (Hix : In (bi, id) ix) by (apply Hin; left; reflexivity).
  assert (Hin' : forall x, In x rest -> In x ix) by (intros x Hx; apply Hin; right; exact Hx).
  pose proof (ci_wf _ _ _ _ _ _ HC) as HW.
  assert (Hidsc : map fst (d_blocks (cs_st cs)) = ids) by (rewrite <- Hids; apply (ci_ext _ _ _ _ _ _ HC)).
  assert (Hid : In id (map fst (d_blocks (cs_st cs)))) by (rewrite Hidsc; apply indexed_from_in in Hix; tauto).
  destruct (in_ids_find _ _ Hid) as (t & Hf). rewrite Hf.
  destruct (wb_tinv _ (wf_b _ HW) _ _ Hf) as (HT & _ & HI2).
  pose proof (list_begin_ok t HT HI2) as Hlb.
  destruct (list_begin t) as [|h|]; [| |destruct Hlb].
  - apply (IH cs new); auto. intros m x Hm Hx. apply Habove; [exact Hm|right; exact Hx].
  - destruct Hlb as (b & Hbin & Hboff).
    assert (Hlive : live_handle (cs_st cs) id h) by (exists b, t; auto).
    assert (Hk : Forall (key_above bi h) new).
    { apply Forall_forall. intros m Hm. left. apply (Habove m (bi, id) Hm). left. reflexivity. }
    assert (Hphi : (phi (cs_st cs) id h < walk_fuel st0)%nat).
    { unfold phi, walk_fuel. pose proof (phi_tab_le_len id h (d_table (cs_st cs))) as H1.
      pose proof (ci_len _ _ _ _ _ _ HC) as H2. pose proof (cinv_new_le _ _ _ _ _ _ HC Hnd) as H3. lia. }
    pose proof (walk_block_f_total st0 ms0 p0 ids algo (walk_fuel st0) cs new bi id h env HC Hids Hix Hk Hrun Hlive Hphi) as Hnp.
    destruct (walk_block_f_spec Env att st0 ms0 p0 ids algo (walk_fuel st0) cs new bi id h env HC Hix Hk Hrun) as (add & R1 & R2 & R3 & R4).
    fold ix in Hnp, R1, R2, R3, R4.
    destruct (walk_block_f Env att (walk_fuel st0) algo ix cs bi id h env) as [[[cs' env'] lg] r] eqn:Hwb.
    unfold res_f in Hnp, R1, R2, R3, R4; cbn [fst snd] in Hnp, R1, R2, R3, R4.
    destruct r as [| |w0]; [|unfold res_f; cbn [fst snd]; discriminate
                            |unfold res_f; cbn [fst snd]; intros Hw; injection Hw as ->; exact (Hnp w eq_refl)].
    assert (Habove' : forall m x, In m (new ++ add) -> In x rest -> fst x < m_srcidx m).
    { intros m x Hm Hx. rewrite Forall_forall in R2. specialize (R2 _ Hm). specialize (Hlt _ Hx). cbn in Hlt. lia. }
    rewrite res_f_log.
    exact (IH cs' (new ++ add) env' R1 Hids Hnd Hin' Hdesc' Habove' (R4 eq_refl) w).
Qed.

(* C13/C15 for ANY attempt function and ANY running pass: BlockListCollectMoves never panics: not in
   incrementCounters, not on an unexpected answer of the metadata or the block list, and the
   model's fuel always suffices *)
Theorem collect_f_never_panics st c p env :
  WF st -> pass_running p -> (c_algo c = 1 \/ c_algo c = 2) ->
  forall w, snd (res_f (collect_moves_f Env att st c p env)) <> WPanic w.
Proof.
  intros HW Hrun Halgo w. unfold collect_moves_f.
  set (cs0 := mkCS st (c_moves c) p).
  pose proof (cinv_init st (c_moves c) p (indexed st) HW Hrun) as HC0. fold cs0 in HC0.
  assert (Hwalk : forall algo, snd (res_f (walk_blocks_f Env att (walk_fuel st) algo (indexed st) cs0
                                      (rev (skipn (Z.to_nat (c_immovable c)) (indexed st))) env)) <> WPanic w).
  { intros algo. unfold indexed in *.
    apply (walk_blocks_f_total st (c_moves c) p (map fst (d_blocks st)) algo _ cs0 [] env HC0 eq_refl (wb_ids _ (wf_b _ HW))).
    - intros x. apply srcs_in.
    - apply srcs_desc.
    - intros m x [].
    - exact Hrun. }
  destruct (1 <? zlen (d_blocks st)).
  - destruct Halgo as [-> | ->]; cbn [Z.eqb Pos.eqb]; apply Hwalk.
  - destruct (_ && _); [apply Hwalk|unfold res_f; cbn [fst snd]; discriminate].
Qed.

End AttTot.

Theorem collect_never_panics st c mb ma :
  WF st -> c_moves c = [] -> 0 <= ma -> 0 <= mb -> (c_algo c = 1 \/ c_algo c = 2) ->
  forall w, snd (collect_moves st c (pass_init mb ma)) <> WPanic w.
Proof.
  intros HW _ Hma Hmb Halgo w.
  pose proof (collect_f_never_panics unit att_ok st c (pass_init mb ma) tt HW (pass_init_running mb ma Hmb Hma) Halgo w) as Hnp.
  rewrite (proj1 (collect_moves_f_all_ok unit st c (pass_init mb ma) tt)) in Hnp. exact Hnp.
Qed.

Lemma complete_pass_algo st c p ds ord : c_algo (r_ctx (complete_pass st c p ds ord)) = c_algo c.
Proof.
  unfold complete_pass. destruct (complete_moves _ _ _) as [cp [|]]; [reflexivity|].
  destruct (swap_all _ _ _ _) as [[bl immc] sws]. reflexivity.
Qed.

(* an undisturbed pass always completes *)
Lemma one_pass_total st c mb ma ds ord :
  WF st -> c_moves c = [] -> 0 <= ma -> 0 <= mb -> (c_algo c = 1 \/ c_algo c = 2) ->
  exists st' c' p' ms, one_pass st c mb ma ds ord = Some (st', c', p', ms) /\ c_algo c' = c_algo c.
Proof.
  intros HW Hfresh Hma Hmb Halgo. unfold one_pass.
  pose proof (collect_never_panics st c mb ma HW Hfresh Hma Hmb Halgo) as Hnp.
  destruct (collect_moves st c (pass_init mb ma)) as [cs r] eqn:Hcol. cbn [snd] in Hnp.
  pose proof (sources_are_user_allocs_once st c mb ma HW Hma Hmb Hfresh) as Hsrc. rewrite Hcol in Hsrc. cbn [fst] in Hsrc.
  destruct Hsrc as (_ & Hnds & Hndt & Hcross).
  pose proof (collect_reserves st c mb ma HW Hma Hmb Hfresh) as Hres. rewrite Hcol in Hres. cbn [fst] in Hres.
  destruct Hres as (HWc & _ & Hres).
  set (c1 := mkC (c_algo c) (cs_moves cs) (c_immovable c)).
  assert (Hnd : NoDup (map m_src (c_moves c1) ++ map m_tmp (c_moves c1))).
  { cbn [c1 c_moves]. apply NoDup_app_intro; auto.
    intros x Hx1 Hx2. apply in_map_iff in Hx1. destruct Hx1 as (m1 & <- & H1).
    apply in_map_iff in Hx2. destruct Hx2 as (m2 & E & H2). apply (Hcross m1 m2 H1 H2). symmetry. exact E. }
  pose proof (complete_pass_ok (cs_st cs) c1 (cs_pass cs) ds ord HWc Hres Hnd) as Hk.
  pose proof (complete_pass_algo (cs_st cs) c1 (cs_pass cs) ds ord) as Ha.
  destruct r as [| |w]; [| |exfalso; exact (Hnp w eq_refl)]; rewrite Hk; do 4 eexists; (split; [reflexivity|exact Ha]).
Qed.

(* C15 (7), full strength: an undisturbed run with arbitrary decisions never fails and never runs
   out of passes: it reaches a pass that proposes nothing, and the block list invariant holds in
   the final state *)
Lemma run_any_inv fuel : forall st c mb ma dec acc n log,
  WF st -> c_moves c = [] -> 0 <= c_immovable c -> 0 <= ma -> 0 <= mb -> (c_algo c = 1 \/ c_algo c = 2) ->
  match run_any fuel st c mb ma dec acc n log with
  | RunDone st' _ _ _ => WF st'
  | RunFailed => False
  | RunOutOfFuel => True
  end.
Proof.
  induction fuel as [|f IH]; intros st c mb ma dec acc n log HW Hfresh Himm Hma Hmb Halgo; cbn [run_any]; [exact I|].
  unfold one_pass_with.
  set (ds := fst (dec n (cs_moves (fst (collect_moves st c (pass_init mb ma)))))).
  set (ord := snd (dec n (cs_moves (fst (collect_moves st c (pass_init mb ma)))))).
  destruct (one_pass_total st c mb ma ds ord HW Hfresh Hma Hmb Halgo) as (st' & c' & p' & ms & Hp & Ha). rewrite Hp.
  destruct (one_pass_spec _ _ _ _ _ _ _ _ _ _ HW Hfresh Himm Hma Hmb Hp) as (HW' & Hfresh' & _ & Himm' & _).
  destruct ms as [|m r]; [exact HW'|]. apply IH; auto. rewrite Ha. exact Halgo.
Qed.

Theorem run_completes st c mb ma dec acc n log :
  WF st -> c_moves c = [] -> 0 <= c_immovable c -> 0 <= ma -> 0 <= mb -> (c_algo c = 1 \/ c_algo c = 2) ->
  exists fuel st' k acc' log', run_any fuel st c mb ma dec acc n log = RunDone st' k acc' log' /\ WF st'.
Proof.
  intros HW Hfresh Himm Hma Hmb Halgo.
  destruct (run_terminates st c mb ma dec acc n log HW Hfresh Himm Hma Hmb) as (fuel & Hf).
  pose proof (run_any_inv fuel st c mb ma dec acc n log HW Hfresh Himm Hma Hmb Halgo) as Hi.
  destruct (run_any fuel st c mb ma dec acc n log) as [st' k acc' log'| |] eqn:E; [|destruct Hi|congruence].
  exists fuel, st', k, acc', log'. split; [exact E|exact Hi].
Qed.

(* ------------------------------------------------------------------ runs whose commits can fail *)

Section AttRun.
Variable Env : Type.
Variable att : Env -> nat -> Z -> Env * bool.

(* an undisturbed pass with failing commits always completes, and leaves what one_pass_spec says *)
Lemma one_pass_f_spec st c mb ma decide env :
  WF st -> c_moves c = [] -> 0 <= c_immovable c -> 0 <= ma -> 0 <= mb -> (c_algo c = 1 \/ c_algo c = 2) ->
  exists st' c' p' ms env' lg,
    one_pass_f Env att st c mb ma decide env = Some (st', c', p', ms, env', lg) /\
    c_algo c' = c_algo c /\ ms = log_moves lg /\
    let ds := fst (decide ms) in
    WF st' /\ c_moves c' = [] /\ zlen (d_blocks st') = zlen (d_blocks st) /\ 0 <= c_immovable c' /\
    (has_ignore ms ds = true -> c_immovable c < c_immovable c' <= zlen (d_blocks st)) /\
    (has_ignore ms ds = false ->
       c_immovable c' = c_immovable c /\ map fst (d_blocks st') = map fst (d_blocks st) /\
       (length (d_table st) <= length (d_table st'))%nat /\
       (forall m, In m ms ->
          In (m_srcidx m, m_srcblk m) (indexed st) /\ In (m_dstidx m, m_dstblk m) (indexed st) /\
          (m_dstidx m < m_srcidx m \/ (m_dstblk m = m_srcblk m /\ m_dstoff m < m_srcoff m)) /\
          0 <= m_dstoff m /\ (m_src m < length (d_table st))%nat /\
          exists es, entry st (m_src m) = Some es /\ u_temp es = false /\ u_blk es = m_srcblk m /\
                     u_off es = m_srcoff m /\
                     (entry st' (m_src m) = Some (moved_to es m) \/ entry st' (m_src m) = None)) /\
       (forall s, ~ In s (map m_src ms) -> (s < length (d_table st))%nat -> entry st' s = entry st s) /\
       (forall s e, (length (d_table st) <= s)%nat -> entry st' s = Some e -> u_temp e = true)).
Proof.
  intros HW Hfresh Himm Hma Hmb Halgo. unfold one_pass_f.
  pose proof (collect_f_never_panics Env att st c (pass_init mb ma) env HW (pass_init_running mb ma Hmb Hma) Halgo) as Hnp.
  pose proof (collect_cinv_f Env att st c mb ma env HW Hma Hmb Hfresh) as Hci.
  pose proof (sources_are_user_allocs_once_f Env att st c mb ma env HW Hma Hmb Hfresh) as Hsrc.
  pose proof (collect_reserves_f Env att st c mb ma env HW Hma Hmb Hfresh) as Hres.
  pose proof (moves_forward_f Env att st c mb ma env HW Hma Hmb Hfresh) as Hfw.
  pose proof (collect_moves_f_log Env att st c (pass_init mb ma) env Himm) as Hlog. cbv zeta in Hlog.
  destruct (collect_moves_f Env att st c (pass_init mb ma) env) as [[[cs env'] lg] r] eqn:Hcol.
  unfold res_f, log_f in *; cbn [fst snd] in *.
  destruct Hci as (new & HC & _ & Hmoves). destruct Hlog as (L1 & _ & L3). rewrite Hfresh in L1. cbn [app] in L1.
  assert (Hlo : forall m, In m (cs_moves cs) -> c_immovable c <= m_srcidx m).
  { intros m Hm. rewrite L1 in Hm. rewrite Forall_forall in L3. apply L3. exact Hm. }
  pose proof (pass_core st c cs (pass_init mb ma) new (fst (decide (cs_moves cs))) (snd (decide (cs_moves cs)))
                        HW Himm HC Hmoves Hsrc Hres Hfw Hlo) as Hcore.
  cbv zeta in Hcore. destruct Hcore as (Hk & Hmain).
  pose proof (complete_pass_algo (cs_st cs) (mkC (c_algo c) (cs_moves cs) (c_immovable c)) (cs_pass cs)
                                 (fst (decide (cs_moves cs))) (snd (decide (cs_moves cs)))) as Ha.
  destruct r as [| |w]; [| |exfalso; exact (Hnp w eq_refl)]; rewrite Hk;
    do 6 eexists; (split; [reflexivity|]); (split; [exact Ha|]); (split; [exact L1|exact Hmain]).
Qed.

(* C15 (7) for ANY attempt function: with no user operation between the passes, any decisions and any
   pattern of failing commits, a run never fails, never runs out of passes, and ends in a pass
   that proposes nothing with the block list invariant intact (a failed commit proposes nothing:
   the measure only looks at the moves that were made) *)
Lemma run_any_f_terminates : forall st c mb ma dec env acc n log,
  WF st -> c_moves c = [] -> 0 <= c_immovable c -> 0 <= ma -> 0 <= mb -> (c_algo c = 1 \/ c_algo c = 2) ->
  exists fuel, run_any_f Env att fuel st c mb ma dec env acc n log <> RunOutOfFuel.
Proof.
  intros st c mb ma dec env acc n log HW Hfresh Himm Hma Hmb Halgo.
  remember (Z.to_nat (zlen (d_blocks st) - c_immovable c)) as k eqn:Hk.
  remember (m_idx st) as a eqn:Ha. remember (m_off st) as b eqn:Hb.
  revert a b st c env acc n log HW Hfresh Himm Halgo Hk Ha Hb.
  induction k as [k IHk] using lt_wf_ind. intros a.
  induction a as [a IHa] using lt_wf_ind. intros b.
  induction b as [b IHb] using lt_wf_ind. intros st c env acc n log HW Hfresh Himm Halgo Hk Ha Hb.
  destruct (one_pass_f_spec st c mb ma (dec n) env HW Hfresh Himm Hma Hmb Halgo)
    as (st' & c' & p' & ms & env' & lg & Hp & Halg' & _ & Hspec).
  cbv zeta in Hspec. destruct Hspec as (HW' & Hfresh' & Hzl & Himm' & Hign & Hnoign).
  assert (Halgo' : c_algo c' = 1 \/ c_algo c' = 2) by (rewrite Halg'; exact Halgo).
  destruct ms as [|m r].
  { exists 1%nat. cbn [run_any_f]. rewrite Hp. discriminate. }
  assert (Hrec : exists fuel, run_any_f Env att fuel st' c' mb ma dec env' (ps_add acc (p_stats p')) (S n) (log ++ [m :: r]) <> RunOutOfFuel).
  { destruct (has_ignore (m :: r) (fst (dec n (m :: r)))) eqn:Hi.
    - specialize (Hign eq_refl).
      eapply (IHk (Z.to_nat (zlen (d_blocks st') - c_immovable c'))); [lia|exact HW'|exact Hfresh'|exact Himm'|exact Halgo'|reflexivity|reflexivity|reflexivity].
    - destruct (Hnoign eq_refl) as (E1 & Hids & Hlen & Hmoves & Hun & Hnew).
      assert (Hk' : k = Z.to_nat (zlen (d_blocks st') - c_immovable c')) by (rewrite Hzl, E1; exact Hk).
      destruct (pass_decreases st st' (m :: r) HW Hids Hlen Hmoves Hun Hnew ltac:(discriminate)) as [Hdec|(He & Hdec)].
      + eapply (IHa (m_idx st')); [lia|exact HW'|exact Hfresh'|exact Himm'|exact Halgo'|exact Hk'|reflexivity|reflexivity].
      + eapply (IHb (m_off st')); [lia|exact HW'|exact Hfresh'|exact Himm'|exact Halgo'|exact Hk'|congruence|reflexivity]. }
  destruct Hrec as (fuel & Hf). exists (S fuel). cbn [run_any_f]. rewrite Hp. exact Hf.
Qed.

Lemma run_any_f_inv fuel : forall st c mb ma dec env acc n log,
  WF st -> c_moves c = [] -> 0 <= c_immovable c -> 0 <= ma -> 0 <= mb -> (c_algo c = 1 \/ c_algo c = 2) ->
  match run_any_f Env att fuel st c mb ma dec env acc n log with
  | RunDone st' _ _ _ => WF st'
  | RunFailed => False
  | RunOutOfFuel => True
  end.
Proof.
  induction fuel as [|f IH]; intros st c mb ma dec env acc n log HW Hfresh Himm Hma Hmb Halgo; cbn [run_any_f]; [exact I|].
  destruct (one_pass_f_spec st c mb ma (dec n) env HW Hfresh Himm Hma Hmb Halgo)
    as (st' & c' & p' & ms & env' & lg & Hp & Halg' & _ & Hspec).
  cbv zeta in Hspec. destruct Hspec as (HW' & Hfresh' & _ & Himm' & _). rewrite Hp.
  destruct ms as [|m r]; [exact HW'|]. apply IH; auto. rewrite Halg'. exact Halgo.
Qed.

Theorem run_f_completes st c mb ma dec env acc n log :
  WF st -> c_moves c = [] -> 0 <= c_immovable c -> 0 <= ma -> 0 <= mb -> (c_algo c = 1 \/ c_algo c = 2) ->
  exists fuel st' k acc' log', run_any_f Env att fuel st c mb ma dec env acc n log = RunDone st' k acc' log' /\ WF st'.
Proof.
  intros HW Hfresh Himm Hma Hmb Halgo.
  destruct (run_any_f_terminates st c mb ma dec env acc n log HW Hfresh Himm Hma Hmb Halgo) as (fuel & Hf).
  pose proof (run_any_f_inv fuel st c mb ma dec env acc n log HW Hfresh Himm Hma Hmb Halgo) as Hi.
  destruct (run_any_f Env att fuel st c mb ma dec env acc n log) as [st' k acc' log'| |] eqn:Er; [|destruct Hi|congruence].
  exists fuel, st', k, acc', log'. split; [exact Er|exact Hi].
Qed.

End AttRun.

(* ------------------------------------------------------------------ no operation of a history panics *)

Definition algo_ok (w : world) : Prop := forall c, w_ctx w = Some c -> c_algo c = 1 \/ c_algo c = 2.

Lemma wstep_algo w o : algo_ok w -> algo_ok (fst (wstep w o)).
Proof.
  intros Ha. unfold wstep. destruct (w_dead w); [exact Ha|].
  destruct o as [id size align kind tag|slot|algo mb ma reuse| |ds ord|].
  - destruct (user_alloc _ _ _ _ _ _) as [st' r]. destruct r; exact Ha.
  - destruct (slot <? 0); [exact Ha|]. destruct (entry _ _) as [e|]; [|exact Ha].
    destruct (u_temp e); [exact Ha|]. destruct (existsb _ _); [exact Ha|].
    destruct (free_slot _ _) as [st' k]. destruct k; exact Ha.
  - destruct (w_open w); [exact Ha|]. destruct ((algo <? 0) || (2 <? algo)) eqn:E; [exact Ha|].
    apply orb_false_elim in E. destruct E as (E1 & E2). apply Z.ltb_ge in E1, E2.
    cbv zeta. cbn [fst]. intros c Hc. cbn [w_ctx] in Hc. injection Hc as <-.
    assert (Hi : forall c0, c_algo (ctx_init c0 algo) = 1 \/ c_algo (ctx_init c0 algo) = 2).
    { intros c0. cbn [ctx_init c_algo]. destruct (algo =? 0) eqn:E0; [right; reflexivity|]. apply Z.eqb_neq in E0. lia. }
    destruct (w_ctx w) as [c0|]; [destruct (reuse =? 1)|]; apply Hi.
  - destruct (w_begun w); cbn [negb]; [|exact Ha]. destruct (w_open w); [exact Ha|].
    destruct (w_ctx w) as [c|] eqn:Hc; [|exact Ha].
    destruct (collect_moves _ _ _) as [cs r]. destruct r; cbn [fst]; try exact Ha.
    all: intros c' Hc'; cbn [w_ctx] in Hc'; injection Hc' as <-; cbn [c_algo]; exact (Ha c Hc).
  - destruct (w_ctx w) as [c|] eqn:Hc; [|exact Ha]. destruct (w_pass w) as [p|]; [|exact Ha].
    destruct (w_open w); cbn [negb]; [|exact Ha].
    destruct (r_kind (complete_pass (w_st w) c p ds ord)); cbn [fst]; try exact Ha.
    all: intros c' Hc'; cbn [w_ctx] in Hc'; injection Hc' as <-; rewrite complete_pass_algo; exact (Ha c Hc).
  - exact Ha.
Qed.

Lemma user_alloc_never_panics st id size align kind tag :
  WF st -> snd (user_alloc st id size align kind tag) <> UPanic.
Proof.
  intros HW. unfold user_alloc. destruct (find_id id (d_blocks st)) as [t|] eqn:Hf; [|discriminate].
  destruct (negb (is_pow2 align) || (kind <? 0) || (tag <? 0)) eqn:Hchk; [discriminate|].
  apply orb_false_elim in Hchk. destruct Hchk as (Hchk & _). apply orb_false_elim in Hchk. destruct Hchk as (Hp & _).
  apply negb_false_iff in Hp. apply is_pow2_sound in Hp.
  destruct (wb_tinv _ (wf_b _ HW) _ _ Hf) as (HT & Hg & HI2).
  pose proof (create_request_ok t size align false kind 0 max_int HT HI2 Hp) as Hok.
  destruct (create_request t size align false kind 0 max_int) as [t1 r1| | |] eqn:Hcr; try discriminate; [|destruct Hok].
  destruct (request_alloc_spec _ _ _ _ _ _ (Some (Z.of_nat (length (d_table st)))) _ _ HT HI2 Hp Hcr)
    as (_ & _ & _ & _ & _ & _ & _ & _ & _ & _ & t2 & h & Hal & _).
  rewrite Hal. discriminate.
Qed.

Lemma free_slot_never_panics st s : WF st -> snd (free_slot st s) <> RPanic.
Proof.
  intros HW. destruct (entry st s) as [e|] eqn:He.
  - destruct (free_slot_succeeds _ _ _ HW He) as (st' & E). rewrite E. discriminate.
  - unfold free_slot. rewrite He. discriminate.
Qed.

(* C13 at this level: along a history of the harness protocol nothing ever panics *)
Theorem wstep_never_dies w o :
  WInv w -> algo_ok w -> w_dead w = false -> w_dead (fst (wstep w o)) = false.
Proof.
  intros [HW Hctx] Ha Hdead. unfold wstep. rewrite Hdead.
  destruct o as [id size align kind tag|slot|algo mb ma reuse| |ds ord|].
  - pose proof (user_alloc_never_panics (w_st w) id size align kind tag HW) as Hnp.
    destruct (user_alloc _ _ _ _ _ _) as [st' r]. destruct r; cbn [fst w_set_st w_dead]; auto. cbn in Hnp. congruence.
  - destruct (slot <? 0); [exact Hdead|]. destruct (entry _ _) as [e|]; [|exact Hdead].
    destruct (u_temp e); [exact Hdead|]. destruct (existsb _ _); [exact Hdead|].
    pose proof (free_slot_never_panics (w_st w) (Z.to_nat slot) HW) as Hnp.
    destruct (free_slot _ _) as [st' k]. destruct k; cbn [fst w_set_st w_dead]; auto. cbn in Hnp. congruence.
  - destruct (w_open w); [exact Hdead|]. destruct (_ || _); [exact Hdead|]. reflexivity.
  - destruct (w_begun w); cbn [negb]; [|exact Hdead]. destruct (w_open w) eqn:Ho; [exact Hdead|].
    destruct (w_ctx w) as [c|] eqn:Hc; [|exact Hdead].
    destruct (Hctx c eq_refl) as (A & B & _). specialize (B eq_refl).
    pose proof (collect_never_panics (w_st w) c (lim (w_max_bytes w)) (lim (w_max_allocs w)) HW B
                  (lim_ge0 _) (lim_ge0 _) (Ha c Hc)) as Hnp.
    destruct (collect_moves _ _ _) as [cs r]. destruct r; cbn [fst w_dead]; auto. exfalso. exact (Hnp why eq_refl).
  - destruct (w_ctx w) as [c|] eqn:Hc; [|exact Hdead]. destruct (w_pass w) as [p|]; [|exact Hdead].
    destruct (w_open w) eqn:Ho; cbn [negb]; [|exact Hdead].
    destruct (Hctx c eq_refl) as (_ & _ & C). destruct (C eq_refl) as (C1 & C2).
    rewrite (complete_pass_ok _ _ p ds ord HW C1 C2). reflexivity.
  - exact Hdead.
Qed.

(* C07 + C13 along arbitrary histories: the invariant is kept and nothing panics *)
Theorem wstep_safe w o :
  WInv w -> algo_ok w -> wop_ok o -> w_dead w = false ->
  WInv (fst (wstep w o)) /\ algo_ok (fst (wstep w o)) /\ w_dead (fst (wstep w o)) = false.
Proof.
  intros HI Ha Hwok Hd. pose proof (wstep_never_dies w o HI Ha Hd) as Hd'.
  split; [apply wstep_preserves; auto|]. split; [apply wstep_algo; auto|exact Hd'].
Qed.

(* ------------------------------------------------------------------ the harness protocol with failing commits *)

(* for ANY attempt function: what a collecting pass does to the table and to the live region records;
   the new moves are the successful attempts of the log, so a failed attempt leaves no temporary
   and no reserved range behind *)
Theorem collect_moves_f_regions Env att st c p (env : Env) :
  WF st -> pass_running p -> 0 <= c_immovable c ->
  let X := collect_moves_f Env att st c p env in
  let cs := fst (res_f X) in
  let new := log_moves (log_f X) in
  cs_moves cs = c_moves c ++ new /\
  WF (cs_st cs) /\ ext st (cs_st cs) /\
  CReg st (cs_st cs) new /\ Forall (move_ok st (cs_st cs) (indexed st)) new /\
  Forall (fun a => In (at_dst a) (map fst (d_blocks st))) (log_f X).
Proof.
  intros HW Hrun Himm X cs new.
  destruct (collect_moves_f_inv Env att st c p env HW Hrun) as (new0 & HC & _). fold X in HC. fold cs in HC.
  destruct (collect_moves_f_log Env att st c p env Himm) as (L1 & L2 & _). fold X in L1, L2. fold cs in L1. fold new in L1.
  pose proof (ci_moves _ _ _ _ _ _ HC) as Hm. rewrite L1 in Hm. apply app_inv_head in Hm. subst new0.
  split; [exact L1|]. split; [apply (ci_wf _ _ _ _ _ _ HC)|]. split; [apply (ci_ext _ _ _ _ _ _ HC)|].
  split; [apply (ci_reg _ _ _ _ _ _ HC)|]. split; [apply (ci_ok _ _ _ _ _ _ HC)|exact L2].
Qed.

Definition wopf_ok (o : wopf) : Prop := match o with OpF o' => wop_ok o' | OpCF _ => True end.

(* with an empty failure list the protocol with failing commits is the protocol of wstep *)
Lemma att_list_nil n s d : att_list (n, []) s d = ((S n, []), true).
Proof. reflexivity. Qed.

Theorem wstep_f_safe wf o :
  WInv (wf_w wf) -> algo_ok (wf_w wf) -> wopf_ok o -> w_dead (wf_w wf) = false ->
  let wf' := fst (fst (wstep_f wf o)) in
  WInv (wf_w wf') /\ algo_ok (wf_w wf') /\ w_dead (wf_w wf') = false.
Proof.
  intros HI Ha Hok Hd. destruct o as [o'|ks].
  2:{ cbn [wstep_f]. rewrite Hd. cbn [fst wf_w]. auto. }
  assert (Hother : forall o'', wop_ok o'' ->
            let wf' := fst (fst (let '(w', out) := wstep (wf_w wf) o'' in (mkWf w' (wf_fail wf), out, @nil attempt))) in
            WInv (wf_w wf') /\ algo_ok (wf_w wf') /\ w_dead (wf_w wf') = false).
  { intros o'' Hok''. pose proof (wstep_safe (wf_w wf) o'' HI Ha Hok'' Hd) as Hs.
    destruct (wstep (wf_w wf) o'') as [w' out]. cbn [fst snd wf_w] in *. exact Hs. }
  destruct o' as [id size align kind tag|slot|algo mb ma reuse| |ds ord|]; try (apply Hother; exact Hok).
  (* PASS *)
  cbn [wstep_f]. rewrite Hd. pose proof HI as [HW Hctx].
  destruct (w_begun (wf_w wf)) eqn:Hbg; cbn [negb]; [|cbn [fst wf_w]; auto].
  destruct (w_open (wf_w wf)) eqn:Ho; [cbn [fst wf_w]; auto|].
  destruct (w_ctx (wf_w wf)) as [c|] eqn:Hc; [|cbn [fst wf_w]; auto].
  destruct (Hctx c eq_refl) as (A & B & _). specialize (B eq_refl).
  pose proof (lim_ge0 (w_max_bytes (wf_w wf))) as Hmb. pose proof (lim_ge0 (w_max_allocs (wf_w wf))) as Hma.
  set (p := pass_init (lim (w_max_bytes (wf_w wf))) (lim (w_max_allocs (wf_w wf)))).
  pose proof (collect_reserves_f (nat * list Z) att_list (w_st (wf_w wf)) c _ _ (O, wf_fail wf) HW Hma Hmb B) as Hres.
  pose proof (sources_are_user_allocs_once_f (nat * list Z) att_list (w_st (wf_w wf)) c _ _ (O, wf_fail wf) HW Hma Hmb B) as Hsrc.
  pose proof (collect_f_never_panics (nat * list Z) att_list (w_st (wf_w wf)) c p (O, wf_fail wf) HW
                (pass_init_running _ _ Hmb Hma) (Ha c Hc)) as Hnp.
  fold p in Hres, Hsrc.
  destruct (collect_moves_f (nat * list Z) att_list (w_st (wf_w wf)) c p (O, wf_fail wf)) as [[[cs env'] lg] r].
  unfold res_f in *; cbn [fst snd] in *.
  destruct Hres as (HWc & _ & Hres). destruct Hsrc as (_ & N1 & N2 & N3).
  destruct r as [| |w0]; [| |exfalso; exact (Hnp w0 eq_refl)]; cbn [fst wf_w].
  all: split; [|split; [|reflexivity]].
  all: try (intros c' Hc'; cbn [w_ctx] in Hc'; injection Hc' as <-; cbn [c_algo]; exact (Ha c Hc)).
  all: constructor; cbn [w_st w_ctx w_open]; [exact HWc|].
  all: intros c' Hc'; injection Hc' as <-; cbn [c_immovable c_moves]; split; [exact A|]; split; [discriminate|]; intros _; split; [exact Hres|].
  all: apply NoDup_app_intro; auto; intros x Hx1 Hx2; apply in_map_iff in Hx1; destruct Hx1 as (m1 & <- & H1);
    apply in_map_iff in Hx2; destruct Hx2 as (m2 & Ex & H2); apply (N3 m1 m2 H1 H2); symmetry; exact Ex.
Qed.

Lemma world_init_algo sizes sentinel : algo_ok (world_init_g gh gg sizes sentinel).
Proof. intros c H. discriminate H. Qed.

Lemma dstate_init_g_wf sizes sentinel :
  pow2 gg -> Forall (fun s => 1 <= s < 2 ^ 39 /\ Q (tlsf_init gh gg s)) sizes -> WF (dstate_init_g gh gg sizes sentinel).
Proof. intros Hp H. exact (wi_wf _ (world_init_inv sizes sentinel Hp H)). Qed.

Lemma user_alloc_fst_wf st id size align kind tag : WF st -> Kok kind -> WF (fst (user_alloc st id size align kind tag)).
Proof.
  intros HW Hk. destruct (user_alloc st id size align kind tag) as [st' r] eqn:E0.
  exact (proj1 (user_alloc_wf _ _ _ _ _ _ _ _ HW Hk E0)).
Qed.

Lemma free_slot_fst_wf st s : WF st -> WF (fst (free_slot st s)).
Proof.
  intros HW. destruct (free_slot st s) as [st' k] eqn:E0. cbn [fst].
  destruct k; [exact (proj1 (free_slot_ok _ _ _ HW E0))| | |]; rewrite (free_slot_fail _ _ _ _ E0); auto; discriminate.
Qed.

End Gen.

(* ================================================================== 12. the instances *)

(* ---- the base instance: any handler, any granularity, no further invariant, any kind.
   Every theorem of the section is available as  thm gh gg QT KT QT_step ... ; Props/C15.v and
   Props/C07.v spell the statements out (the _gran theorems). *)
Definition QT (t : tlsf) : Prop := True.
Definition KT (k : Z) : Prop := True.

Lemma QT_step : forall t o, TInv t -> Inv2 t -> QT t -> op_ok o -> opK KT o -> QT (fst (step t o)).
Proof. intros. exact I. Qed.

Definition WFg (gh : handler) (gg : Z) : dstate -> Prop := WF gh gg QT KT.
Definition WInvg (gh : handler) (gg : Z) : world -> Prop := WInv gh gg QT KT.

Lemma wop_ok_KT o : wop_ok KT o.
Proof. destruct o; exact I. Qed.

Lemma wopf_ok_KT o : wopf_ok KT o.
Proof. destruct o; [apply wop_ok_KT|exact I]. Qed.

(* ---- the old statements are the instance HFake (or any handler), granularity 1 *)
Lemma rnd_one gh k s : rnd gh 1 k s = s.
Proof. unfold rnd, round_up. cbn [g_h g_g]. destruct gh; reflexivity. Qed.

Theorem wf_gran1_iff gh st : DefragProofs.WF st <-> WFg gh 1 st.
Proof.
  split.
  - intros [[Hid HT] Hown Howned Hinj]. apply mkWF; [|exact Hown|exact Howned|exact Hinj|].
    + apply mkWFB; [exact Hid|]. intros id t F. destruct (HT id t F) as (A & B & C).
      split; [exact A|]. split; [|exact C]. split; [exact B|]. split; [lia|exact I].
    + intros s e _. split; [apply rnd_one|exact I].
  - intros [[Hid HT] Hown Howned Hinj _]. apply DefragProofs.mkWF; [|exact Hown|exact Howned|exact Hinj].
    apply DefragProofs.mkWFB; [exact Hid|]. intros id t F. destruct (HT id t F) as (A & (B & _) & C). auto.
Qed.

(* ---- the instance that carries the page table of vam's handler: no two live regions of
   conflicting kinds on one bufferImageGranularity page, in every block, at every moment *)
Lemma GQ_step gg : forall t o, TInv t -> Inv2 t -> GInv gg t -> op_ok o -> opK kind_ok o -> GInv gg (fst (step t o)).
Proof. intros t o _ _ HG Hok Hk. apply step_preserves_G; auto; destruct o; cbn in *; auto. Qed.

Definition WFp (gg : Z) : dstate -> Prop := WF HVam gg (GInv gg) kind_ok.
Definition WInvp (gg : Z) : world -> Prop := WInv HVam gg (GInv gg) kind_ok.

Lemma wfp_wfg gg st : WFp gg st -> WFg HVam gg st.
Proof.
  intros [[Hid HT] Hown Howned Hinj Hr]. constructor; auto.
  - constructor; auto. intros id t F. destruct (HT id t F) as (A & (B1 & B2 & _) & C).
    split; [exact A|]. split; [|exact C]. split; [exact B1|]. split; [exact B2|exact I].
  - intros s e He. split; [exact (proj1 (Hr s e He))|exact I].
Qed.

Theorem wf_no_shared_page gg st id offa offb a b :
  WFp gg st -> holds st id offa a -> holds st id offb b -> a <> b ->
  conflict (b_kind a) (b_kind b) = true -> no_shared_page gg a b.
Proof.
  intros [[_ HT] _ _ _ _] (t & F & Ia & _) (t' & F' & Ib & _) Hne Hc.
  rewrite F in F'. injection F' as <-. destruct (HT id t F) as (_ & (_ & _ & HG) & _).
  exact (tlsf_gran_sound gg t HG a b Ia Ib Hne Hc).
Qed.

(* the kinds of all live regions are in the enumeration *)
Lemma wf_kinds gg st id off a : WFp gg st -> holds st id off a -> kind_ok (b_kind a).
Proof.
  intros [[_ HT] _ _ _ _] (t & F & Ia & _). destruct (HT id t F) as (_ & (_ & _ & HG) & _).
  exact (live_kind_ok gg t a HG Ia).
Qed.

(* ---- arbitrary histories of the harness protocol (with failing commits), from the start *)
Definition runf (wf : worldf) (ops : list wopf) : worldf :=
  fold_left (fun w o => fst (fst (wstep_f w o))) ops wf.

Section Hist.
Variable gh : handler.
Variable gg : Z.
Variable Q : tlsf -> Prop.
Variable Kok : Z -> Prop.
Hypothesis Q_step : forall t o, TInv t -> Inv2 t -> Q t -> op_ok o -> opK Kok o -> Q (fst (step t o)).

Lemma runf_safe wf ops :
  WInv gh gg Q Kok (wf_w wf) -> algo_ok (wf_w wf) -> w_dead (wf_w wf) = false ->
  Forall (wopf_ok Kok) ops ->
  WInv gh gg Q Kok (wf_w (runf wf ops)) /\ algo_ok (wf_w (runf wf ops)) /\ w_dead (wf_w (runf wf ops)) = false.
Proof.
  intros HI Ha Hd Hops. revert wf HI Ha Hd. induction Hops as [|o ops Ho _ IH]; intros wf HI Ha Hd.
  - cbn. auto.
  - cbn [runf fold_left]. destruct (wstep_f_safe gh gg Q Kok Q_step wf o HI Ha Ho Hd) as (A & B & C).
    apply IH; auto.
Qed.

Theorem history_safe sizes sentinel fl ops :
  pow2 gg -> Forall (fun s => 1 <= s < 2 ^ 39 /\ Q (tlsf_init gh gg s)) sizes ->
  Forall (wopf_ok Kok) ops ->
  let wf := runf (mkWf (world_init_g gh gg sizes sentinel) fl) ops in
  WInv gh gg Q Kok (wf_w wf) /\ w_dead (wf_w wf) = false.
Proof.
  intros Hp Hs Hops wf.
  destruct (runf_safe (mkWf (world_init_g gh gg sizes sentinel) fl) ops
              (world_init_inv gh gg Q Kok sizes sentinel Hp Hs) (world_init_algo gh gg sizes sentinel) eq_refl Hops)
    as (A & _ & C). auto.
Qed.
End Hist.

(* every granularity 1..65536 that is a power of two, vam's handler, kinds 1..5: no operation of
   any history panics, the block-list invariant holds throughout, and no page is ever shared by
   two live regions (users' or the planner's temporaries) of conflicting kinds *)
Theorem history_pages gg sizes sentinel fl ops :
  pow2 gg -> 1 <= gg <= 65536 -> Forall (fun s => 1 <= s < 2 ^ 39) sizes ->
  Forall (wopf_ok kind_ok) ops ->
  let wf := runf (mkWf (world_init_g HVam gg sizes sentinel) fl) ops in
  w_dead (wf_w wf) = false /\ WFp gg (w_st (wf_w wf)) /\
  forall id offa offb a b, holds (w_st (wf_w wf)) id offa a -> holds (w_st (wf_w wf)) id offb b -> a <> b ->
    conflict (b_kind a) (b_kind b) = true -> no_shared_page gg a b.
Proof.
  intros Hp Hr Hs Hops wf.
  assert (Hs' : Forall (fun s => 1 <= s < 2 ^ 39 /\ GInv gg (tlsf_init HVam gg s)) sizes).
  { apply Forall_forall. intros s Hin. rewrite Forall_forall in Hs. specialize (Hs s Hin). split; [exact Hs|].
    apply init_GInv; [|exact Hr]. apply cfg2_cfg. split; auto. }
  destruct (history_safe HVam gg (GInv gg) kind_ok (GQ_step gg) sizes sentinel fl ops Hp Hs' Hops) as (A & B).
  fold wf in A, B. split; [exact B|]. pose proof (wi_wf _ _ _ _ _ A) as HW. split; [exact HW|].
  intros. eapply wf_no_shared_page; eauto.
Qed.

(* the same for any handler without the page statement (HFake at granularity 1 is the old domain) *)
Theorem history_gran gh gg sizes sentinel fl ops :
  pow2 gg -> Forall (fun s => 1 <= s < 2 ^ 39) sizes ->
  let wf := runf (mkWf (world_init_g gh gg sizes sentinel) fl) ops in
  w_dead (wf_w wf) = false /\ WFg gh gg (w_st (wf_w wf)).
Proof.
  intros Hp Hs wf.
  assert (Hs' : Forall (fun s => 1 <= s < 2 ^ 39 /\ QT (tlsf_init gh gg s)) sizes).
  { apply Forall_forall. intros s Hin. rewrite Forall_forall in Hs. split; [exact (Hs s Hin)|exact I]. }
  assert (Hops : Forall (wopf_ok KT) ops) by (apply Forall_forall; intros; apply wopf_ok_KT).
  destruct (history_safe gh gg QT KT QT_step sizes sentinel fl ops Hp Hs' Hops) as (A & B).
  fold wf in A, B. split; [exact B|]. exact (wi_wf _ _ _ _ _ A).
Qed.

(* ================================================================== 13. non-vacuity *)

(* two blocks of 8192 with vam's handler at granularity 1024; buffers (2), images of unknown tiling (3) and a
   linear image (4) of odd sizes, the bracketed ones freed:
   block 0: 100/2 (200/2) 100/3      block 1: (150/4) 50/2 300/3
   (images of unknown tiling are rounded to whole pages: their stored size is 1024) *)
Definition exg_world : dstate :=
  let st0 := dstate_init_g HVam 1024 [8192; 8192] false in
  let a (st : dstate) (id size kind : Z) := fst (user_alloc st id size 1 kind 7) in
  let st1 := a (a (a (a (a (a st0 0 100 2) 0 200 2) 0 100 3) 1 150 4) 1 50 2) 1 300 3 in
  fst (free_slot (fst (free_slot st1 1)) 3).

Lemma pow2_1024 : pow2 1024.
Proof. exists 10. split; [lia|reflexivity]. Qed.

Lemma exg_world_wf : WFp 1024 exg_world.
Proof.
  unfold exg_world, WFp. cbv zeta.
  do 2 apply (free_slot_fst_wf HVam 1024 (GInv 1024) kind_ok (GQ_step 1024)).
  do 6 (apply (user_alloc_fst_wf HVam 1024 (GInv 1024) kind_ok (GQ_step 1024)); [|unfold kind_ok; lia]).
  apply dstate_init_g_wf; [exact pow2_1024|].
  assert (HG : 1 <= 8192 < 2 ^ 39 /\ GInv 1024 (tlsf_init HVam 1024 8192)).
  { split; [lia|]. apply init_GInv; [|lia]. apply cfg2_cfg. split; [lia|exact pow2_1024]. }
  apply Forall_cons; [exact HG|]. apply Forall_cons; [exact HG|]. apply Forall_nil.
Qed.

Lemma exg_sizes_rounded :
  map (fun o => match o with Some e => u_size e | None => 0 end) (d_table exg_world) = [100; 0; 1024; 0; 50; 1024].
Proof. vm_compute. reflexivity. Qed.

(* the Full algorithm moves both allocations of block 1 into block 0 ... *)
Lemma exg_collect :
  let X := collect_moves exg_world (ctx_init (mkC 0 [] 0) 2) (pass_init max_int max_int) in
  map (fun m => (m_src m, m_dstblk m, m_dstoff m, m_size m)) (cs_moves (fst X)) = [(5%nat, 0, 2048, 1024); (4%nat, 0, 100, 50)] /\
  snd X = WCont.
Proof. vm_compute. auto. Qed.

(* ... and when the block list refuses the first commit (attempt 0), the planner goes on: the
   failed attempt is in the log, leaves nothing behind (one new table entry only), and the
   remaining move is proposed *)
Lemma exg_collect_fail :
  let X := collect_moves_f (nat * list Z) att_list exg_world (ctx_init (mkC 0 [] 0) 2) (pass_init max_int max_int) (O, [0]) in
  map (fun a => match a with AtFail s d => (true, s, d) | AtOk m => (false, m_src m, m_dstblk m) end) (log_f X) =
    [(true, 5%nat, 0); (false, 4%nat, 0)] /\
  snd (res_f X) = WCont /\ length (d_table (cs_st (fst (res_f X)))) = 7%nat.
Proof. vm_compute. auto. Qed.

Lemma exg_run_done :
  match run_copy 10 exg_world (mkC 2 [] 0) max_int max_int ps_zero 0 [] with
  | RunDone _ passes acc log => passes = 1%nat /\ ps_allocs_moved acc = 2 /\ ps_bytes_moved acc = 1074
  | _ => False
  end.
Proof. vm_compute. auto. Qed.

(* ------------------------------------------------------------------
   OPEN: nothing false was found in the general case.  What the generalisation needs and the old
   domain did not: (1) the sizes in the allocation table are fixed points of RoundUpAllocRequest
   for their kind (wf_rnd) - the block list stores AllocationRequest.Size, the size after
   rounding, as vam does - so that the region the planner reserves for a copy has the size of
   the source; (2) for the page statement (WFp) the kinds are 1..5 (GranTlsf.GInv).
   A failing commit is modelled as: the destination's CreateAllocationRequest has run
   (it may reorder the free list, nothing else), metadata.Alloc has not.
   ------------------------------------------------------------------ *)

Print Assumptions collect_moves_f_inv.
Print Assumptions collect_f_never_panics.
Print Assumptions collect_moves_f_log.
Print Assumptions collect_moves_f_strace.
Print Assumptions collect_moves_f_all_ok.
Print Assumptions collect_moves_f_P.
Print Assumptions wstep_f_no_failures.
Print Assumptions collect_moves_f_regions.
Print Assumptions collect_within_limits_f.
Print Assumptions moves_forward_f.
Print Assumptions sources_are_user_allocs_once_f.
Print Assumptions collect_reserves_f.
Print Assumptions run_any_f_terminates.
Print Assumptions run_f_completes.
Print Assumptions wstep_f_safe.
Print Assumptions collect_within_limits.
Print Assumptions moves_forward.
Print Assumptions sources_are_user_allocs_once.
Print Assumptions both_ends_reserved.
Print Assumptions stats_match.
Print Assumptions move_outcome.
Print Assumptions complete_pass_wf.
Print Assumptions complete_pass_ok.
Print Assumptions run_terminates_copy_only.
Print Assumptions run_terminates.
Print Assumptions collect_never_panics.
Print Assumptions collect_moves_sizes.
Print Assumptions collect_moves_live.
Print Assumptions run_completes.
Print Assumptions wstep_safe.
Print Assumptions run_stats_accumulate.
Print Assumptions wstep_preserves.
Print Assumptions world_init_inv.
Print Assumptions wf_gran1_iff.
Print Assumptions wf_no_shared_page.
Print Assumptions history_pages.
Print Assumptions history_gran.
Print Assumptions exg_world_wf.
Print Assumptions exg_collect_fail.
