(* VamPropsOps.v — properties of single API operations of the whole-allocator model (C11):
   dedicated_exact            a request flagged (or required) as dedicated that succeeds yields a dedicated
                              allocation of exactly the requested size (whose memory object is its own:
                              VamProps.dedicated_own_memory)
   never_allocate_no_device_call   (below) *)
From Coq Require Import ZArith List Bool Lia.
From Arsenal Require Import Util VamDev VamBlockList Vam VamInvMeta VamInv VamInvUpd VamInvDev VamInvStep VamInvStep2.
Import ListNotations.
Open Scope Z_scope.

Section WithCfg.
Variable c : vcfg.

(* the slots hold dedicated allocations of size [size] *)
Definition ded_of (v : vam) (slots : list Z) (size : Z) : Prop :=
  forall s, In s slots -> a_allocated (get_alloc v s) = true /\ a_kind (get_alloc v s) = 2 /\ a_size (get_alloc v s) = size.

Lemma ded_page_result v lr ty size sub doMap allowed s ded v' :
  allocate_dedicated_page c v lr ty size sub doMap allowed s ded = (v', OK tt) -> 0 <= s < zlen (v_tab v) ->
  ded_of v' [s] size /\ (forall s', s' <> s -> get_alloc v' s' = get_alloc v s') /\ zlen (v_tab v') = zlen (v_tab v).
Proof.
  unfold allocate_dedicated_page. destruct (alloc_vk c (v_m v) ty size ded) as (m1 & r). destruct r as [mem|code| |]; try discriminate.
  destruct (if doMap then sm_map c m1 mem SyncMem.sm_init else (m1, SyncMem.sm_init, OK tt)) as ((m2 & s2) & mr).
  destruct mr as [[]|code| |]; try discriminate.
  - destruct (SyncMem.mapped s2 && negb allowed); [discriminate|]. intros E Hs. injection E as <-.
    split; [|split].
    + intros x [<-|[]]. unfold get_alloc. cbn. rewrite nth_z_set_same by auto. cbn. auto.
    + intros s' Hne. unfold get_alloc. cbn. rewrite nth_z_set_other by congruence. reflexivity.
    + cbn. unfold zlen. rewrite set_nth_z_length. reflexivity.
  - destruct (free_vk c m2 ty size mem) as (m3 & fr). destruct fr; discriminate.
Qed.

Lemma dedicated_loop_result slots : forall v lr ty size sub doMap allowed done ded v' done',
  dedicated_loop c v lr ty size sub doMap allowed slots done ded = (v', OK tt, done') ->
  NoDup (slots ++ done) -> (forall s, In s slots -> 0 <= s < zlen (v_tab v)) -> ded_of v done size ->
  ded_of v' (slots ++ done) size /\ v_tab v' = v_tab v' /\ zlen (v_tab v') = zlen (v_tab v).
Proof.
  induction slots as [|s tl IH]; intros v lr ty size sub doMap allowed done ded v' done' E Hnd Hr Hd; cbn [dedicated_loop] in E.
  - injection E as <- _. cbn. auto.
  - destruct (allocate_dedicated_page c v lr ty size sub doMap allowed s ded) as (v1 & r) eqn:Ep.
    destruct r as [[]|code| |]; try discriminate.
    destruct (ded_page_result _ _ _ _ _ _ _ _ _ _ Ep (Hr s (or_introl eq_refl))) as (D1 & F1 & L1).
    cbn [app] in Hnd. inversion Hnd as [|? ? Hns Hnd']; subst.
    assert (Hd1 : ded_of v1 (s :: done) size).
    { intros x [<-|Hx]; [apply D1; left; reflexivity|]. rewrite F1; [apply Hd; auto|]. intros ->. apply Hns. apply in_app_iff. auto. }
    destruct (IH v1 lr ty size sub doMap allowed (s :: done) ded v' done' E) as (D2 & _ & L2); auto.
    + eapply Permutation.Permutation_NoDup; [apply Permutation.Permutation_middle|]. constructor; auto.
    + intros x Hx. rewrite L1. apply Hr. right. auto.
    + split; [|split; [reflexivity|lia]]. intros x Hx. apply D2. cbn in Hx. apply in_app_iff. destruct Hx as [<-|Hx]; [right; left; reflexivity|].
      apply in_app_iff in Hx. destruct Hx; [left; auto|right; right; auto].
Qed.

Lemma allocate_dedicated_result v lr ty size sub doMap allowed slots ded v' :
  allocate_dedicated c v lr ty size sub doMap allowed slots ded = (v', OK tt) ->
  NoDup slots -> (forall s, In s slots -> 0 <= s < zlen (v_tab v)) -> ded_of v' slots size.
Proof.
  unfold allocate_dedicated. destruct slots as [|s0 tl0] eqn:Es; [discriminate|]. rewrite <- Es.
  destruct (dedicated_loop c v lr ty size sub doMap allowed slots [] ded) as ((v1 & r) & done) eqn:El.
  destruct r as [[]|code| |]; try discriminate.
  - intros E Hnd Hr. injection E as <-.
    destruct (dedicated_loop_result slots _ _ _ _ _ _ _ _ _ _ _ El) as (D & _); [rewrite app_nil_r; auto|auto|intros ? []|].
    rewrite app_nil_r in D. intros s Hs. unfold get_alloc. rewrite set_dedlist_tab. apply D. auto.
  - destruct (dedicated_rollback c v1 ty done) as (v2 & rr). destruct rr; discriminate.
Qed.

Lemma fl_clear_other f b b' : 0 <= b -> 0 <= b' -> b <> b' -> fl (fl_clear f b) b' = fl f b'.
Proof.
  intros H0 H1 Hne. unfold fl, fl_clear. rewrite Z.land_spec, Z.lnot_spec by auto. rewrite Z.shiftl_spec by auto.
  replace (Z.testbit 1 (b' - b)) with false; [rewrite andb_true_r; reflexivity|].
  symmetry. destruct (Z.ltb_spec (b' - b) 0); [apply Z.testbit_neg_r; auto|].
  change 1 with (2 ^ 0). apply Z.pow2_bits_false. lia.
Qed.

Lemma fl_set_same f b : 0 <= b -> fl (fl_set f b) b = true.
Proof.
  intros H. unfold fl, fl_set. rewrite Z.lor_spec, Z.shiftl_spec by auto. rewrite Z.sub_diag. cbn. apply orb_true_r.
Qed.

Lemma fl_set_other f b b' : 0 <= b -> 0 <= b' -> fl f b' = true -> fl (fl_set f b) b' = true.
Proof. intros H0 H1 H. unfold fl, fl_set in *. rewrite Z.lor_spec, H. reflexivity. Qed.

Lemma alloc_of_type_dedicated v lr ty size align dedPref flags sub slots ded v' :
  alloc_of_type c v lr ty size align dedPref flags sub slots ded = (v', OK tt) -> fl flags F_DEDICATED = true ->
  NoDup slots -> (forall s, In s slots -> 0 <= s < zlen (v_tab v)) -> ded_of v' slots size.
Proof.
  unfold alloc_of_type. destruct slots as [|s0 tl0] eqn:Es; [discriminate|]. rewrite <- Es.
  destruct (get_blist v lr) as [l|]; [|discriminate].
  pose proof (calc_type_params_spec c v ty size (zlen slots) flags) as Hctp.
  destruct (calc_type_params c v ty size (zlen slots) flags) as (v1 & fr).
  destruct Hctp as (m1 & -> & _ & Hfr). destruct fr as [f1|code| |]; try discriminate.
  intros E Hd Hnd Hr. subst f1.
  assert (Hd1 : fl (if fl flags F_MAPPED && negb (host_visible c ty) then fl_clear flags F_MAPPED else flags) F_DEDICATED = true).
  { destruct (_ && _); [|exact Hd]. rewrite fl_clear_other; [exact Hd|unfold F_MAPPED; lia|unfold F_DEDICATED; lia|unfold F_MAPPED, F_DEDICATED; lia]. }
  rewrite Hd1 in E. eapply allocate_dedicated_result; eauto.
Qed.

Lemma type_loop_dedicated fuel : forall v bits ty size align dedPref usage flags req pref ctb sub slots ded bufimg v',
  type_loop c fuel v bits ty size align dedPref usage flags req pref ctb sub slots ded bufimg = (v', OK tt) ->
  fl flags F_DEDICATED = true -> NoDup slots -> VamInv c v -> (align = 0 \/ Bits.pow2 align) -> cfg_ok c -> dead_slots v slots ->
  ded_of v' slots size.
Proof.
  induction fuel as [|f IH]; intros v bits ty size align dedPref usage flags req pref ctb sub slots ded bufimg v' E Hd Hnd HI Hal Hc Hdead;
    cbn [type_loop] in E; [discriminate|].
  destruct (get_blist v (LDef ty)) as [l|] eqn:Hg; [|discriminate].
  pose proof (alloc_of_type_inv c Hc v [] (LDef ty) l ty size align dedPref flags sub slots ded HI Hg (vi_def_type _ _ _ _ HI _ _ Hg) Hal Hnd Hdead) as P.
  destruct (alloc_of_type c v (LDef ty) ty size align dedPref flags sub slots ded) as (v1 & r) eqn:Ea.
  destruct r as [[]|code| |]; try discriminate.
  - injection E as <-. eapply alloc_of_type_dedicated; eauto. intros s Hs. apply Hdead. auto.
  - destruct (code =? VK_UNKNOWN); [discriminate|]. destruct P as (I1 & T1 & L1 & D1).
    destruct (find_type_index c (v_global v1) _ usage flags req pref ctb bufimg) as [ty'|]; [|discriminate].
    eapply IH; eauto.
Qed.

Lemma calc_params_dedicated usage flags reqDed pe f :
  calc_params usage flags reqDed pe = OK f -> (fl flags F_DEDICATED = true \/ reqDed = true \/ usage = 1) -> fl f F_DEDICATED = true.
Proof.
  unfold calc_params. destruct (_ && _); [discriminate|]. destruct (_ && _ && _); [discriminate|]. destruct (_ && _ && _ && _); [discriminate|].
  set (f1 := if reqDed || (usage =? 1) then fl_set flags F_DEDICATED else flags).
  intros E H.
  assert (H1 : fl f1 F_DEDICATED = true).
  { unfold f1. destruct (reqDed || (usage =? 1)) eqn:Er; [apply fl_set_same; unfold F_DEDICATED; lia|].
    apply orb_false_iff in Er. destruct Er as (Er1 & Er2). destruct H as [H|[H|H]]; [exact H|congruence|subst; discriminate]. }
  destruct (match pe with Some true => fl f1 F_DEDICATED | _ => false end); [discriminate|].
  destruct (fl f1 F_DEDICATED && fl f1 F_NEVER); [discriminate|].
  destruct (_ && _ && _); injection E as <-; [|exact H1].
  apply fl_set_other; [unfold F_RANDOM; lia|unfold F_DEDICATED; lia|exact H1].
Qed.

(* AllocateMemory / AllocateMemorySlice / allocations for resources all go through multiAllocateMemory *)
Theorem dedicated_exact v size align typeBits reqDed prefDed ded bufimg usage flags0 req pref ctb pool sub slots v' :
  cfg_ok c -> VamInv c v -> NoDup slots -> dead_slots v slots ->
  multi_allocate c v size align typeBits reqDed prefDed ded bufimg usage flags0 req pref ctb pool sub slots = (v', OK tt) ->
  (fl flags0 F_DEDICATED = true \/ reqDed = true \/ usage = 1) ->
  forall s, In s slots -> exists a, slot_is v' s a /\ a_kind a = 2 /\ a_size a = size.
Proof.
  intros Hc HI Hnd Hdead E Hflag. unfold multi_allocate in E.
  destruct (is_pow2_or_zero align) eqn:Ea; cbn [negb] in E; [|discriminate]. pose proof (pow2_or_zero_spec _ Ea) as Hal.
  destruct (size <? 1); [discriminate|].
  destruct (calc_params usage flags0 reqDed _) as [flags|code| |] eqn:Ecp; try discriminate.
  pose proof (calc_params_dedicated _ _ _ _ _ Ecp Hflag) as Hd.
  assert (D : ded_of v' slots size).
  { destruct pool as [uid|].
    - destruct (get_blist v (LPool uid)) as [l|] eqn:Hg; [|discriminate].
      eapply alloc_of_type_dedicated; eauto. intros s Hs. apply Hdead. auto.
    - destruct (find_type_index c (v_global v) typeBits usage flags req pref ctb bufimg) as [ty|]; [|discriminate].
      eapply type_loop_dedicated; eauto. }
  intros s Hs. destruct (D s Hs) as (A1 & A2 & A3). exists (get_alloc v' s). split; [apply get_alloc_allocated; auto|auto].
Qed.


(* ---------------------------------------------------------------- NeverAllocate: no vkAllocateMemory *)

Definition not_alloc_call (k : call) : Prop := match k with CAlloc _ _ _ _ _ => False | _ => True end.

(* the calls logged between m and m' contain no vkAllocateMemory *)
Definition noalloc (m m' : mach) : Prop := exists l, m_calls m' = l ++ m_calls m /\ Forall not_alloc_call l.

Lemma noalloc_refl m : noalloc m m.
Proof. exists []. split; [reflexivity|constructor]. Qed.

Lemma noalloc_trans a b d : noalloc a b -> noalloc b d -> noalloc a d.
Proof.
  intros (l1 & E1 & F1) (l2 & E2 & F2). exists (l2 ++ l1). split; [rewrite E2, E1, app_assoc; reflexivity|apply Forall_app; auto].
Qed.

Lemma noalloc_eq m m' : m_calls m' = m_calls m -> noalloc m m'.
Proof. intros E. exists []. split; [exact E|constructor]. Qed.

Lemma noalloc_log m k : not_alloc_call k -> noalloc m (log_call m k).
Proof. intros H. exists [k]. split; [reflexivity|constructor; [exact H|constructor]]. Qed.

Ltac na_eq := apply noalloc_eq; reflexivity.
Ltac na_log := (eapply noalloc_trans; [|apply noalloc_log; exact I]); try na_eq.

Lemma heap_budget_na m h : noalloc m (fst (fst (heap_budget c m h))).
Proof. unfold heap_budget. destruct (Budget.heap_budget _ _ _ _) as ((b' & r) & cs). destruct r; na_eq. Qed.

Lemma dev_map_na m id : noalloc m (fst (dev_map c m id)).
Proof.
  unfold dev_map. destruct (find_mem _ _); [|na_log]. destruct (negb _); [na_log|]. destruct (_ <=? 0); [na_log|].
  destruct (dev_fault _ _ _) as ((f1 & fired1) & r). destruct (negb _); cbn; na_log.
Qed.

Lemma dev_unmap_na m id : noalloc m (dev_unmap m id).
Proof. unfold dev_unmap. na_log. Qed.

Lemma sm_map_na m mem s : noalloc m (fst (fst (sm_map c m mem s))).
Proof.
  unfold sm_map. pose proof (dev_map_na m mem) as H. destruct (dev_map c m mem) as (m1 & code).
  destruct (SyncMem.do_map _ _ _) as ((s' & r) & cs). cbn in *. destruct cs; [apply noalloc_refl|exact H].
Qed.

Lemma sm_unmap_na m mem s : noalloc m (fst (fst (sm_unmap m mem s))).
Proof. unfold sm_unmap. destruct (SyncMem.do_unmap _ _) as ((s' & r) & cs). cbn. destruct cs; [apply noalloc_refl|apply dev_unmap_na]. Qed.

Lemma sm_sub_na m mem s : noalloc m (fst (sm_sub m mem s)).
Proof. unfold sm_sub. destruct (SyncMem.do_sub _) as ((s' & r) & cs). cbn. destruct cs; [apply noalloc_refl|apply dev_unmap_na]. Qed.

Lemma add_allocation_na m h size : noalloc m (add_allocation c m h size).
Proof. unfold add_allocation. destruct (Budget.add_alloc _ _ _ _) as ((b' & r) & cs). na_eq. Qed.

Lemma remove_allocation_na m h size : noalloc m (fst (remove_allocation c m h size)).
Proof. unfold remove_allocation. destruct (Budget.remove_alloc _ _ _ _) as ((b' & r) & cs). na_eq. Qed.

Lemma free_vk_na m ty size mem : noalloc m (fst (free_vk c m ty size mem)).
Proof. unfold free_vk, dev_free. destruct (Budget.free_mem _ _ _) as ((b' & r) & cs). cbn. na_log. Qed.

Definition noallocV (v v' : vam) : Prop := noalloc (v_m v) (v_m v').

Lemma put_block_m' v lr b : v_m (put_block v lr b) = v_m v.
Proof. unfold put_block. destruct (get_blist v lr); [apply set_blist_m|reflexivity]. Qed.

Lemma destroy_block_na v ty b : noallocV v (fst (destroy_block c v ty b)).
Proof.
  unfold destroy_block, noallocV. destruct (negb _); [apply noalloc_refl|].
  pose proof (free_vk_na (v_m v) ty (meta_size (bk_meta b)) (bk_mem b)) as H. destruct (free_vk _ _ _ _ _) as (m1 & r). exact H.
Qed.

Lemma alloc_from_block_na v lr bid size align flags sub s : noallocV v (fst (alloc_from_block c v lr bid size align flags sub s)).
Proof.
  unfold alloc_from_block, noallocV. destruct (get_block v lr bid) as [b|]; [|apply noalloc_refl].
  destruct (negb _); [apply noalloc_refl|]. destruct (meta_create_request _ _ _ _ _ _) as [mt1 rq| | |]; try apply noalloc_refl.
  unfold commit_request. set (v1 := put_block v lr _).
  assert (E1 : v_m v1 = v_m v) by apply put_block_m'.
  destruct (get_blist v1 lr) as [l1|]; [|cbn [fst]; rewrite E1; apply noalloc_refl]. destruct (get_block v1 lr bid) as [b1|]; [|cbn [fst]; rewrite E1; apply noalloc_refl].
  assert (H1 : noalloc (v_m v) (fst (sm_sub (v_m v1) (bk_mem b1) (bk_sm b1)))) by (rewrite <- E1 at 1; apply sm_sub_na).
  destruct (sm_sub _ _ _) as (m1 & s1). simpl fst in H1.
  assert (H2 : forall m2 s2 (mr : out unit), (if fl flags F_MAPPED then sm_map c m1 (bk_mem b1) s1 else (m1, s1, OK tt)) = (m2, s2, mr) -> noalloc m1 m2).
  { intros m2 s2 mr E. destruct (fl flags F_MAPPED); [pose proof (sm_map_na m1 (bk_mem b1) s1) as H; rewrite E in H; exact H|injection E as <- _ _; apply noalloc_refl]. }
  destruct (if fl flags F_MAPPED then _ else _) as ((m2 & s2) & mr) eqn:Em. specialize (H2 _ _ _ eq_refl).
  pose proof (noalloc_trans _ _ _ H1 H2) as H12.
  assert (Ev2 : forall bb, v_m (put_block (set_m v1 m2) lr bb) = m2) by (intros; rewrite put_block_m'; reflexivity).
  destruct mr as [[]|code| |]; cbn [fst]; try (rewrite Ev2; exact H12).
  destruct (meta_alloc _ _ _ _ _ _) as [(mt2 & h)|code| |]; cbn [fst]; try (cbn [set_alloc set_tab v_m]; rewrite Ev2; exact H12).
  destruct (_ && _); cbn [fst]; [rewrite put_block_m'; cbn [set_alloc set_tab v_m]; rewrite Ev2; exact H12|].
  cbn [set_m v_m]. eapply noalloc_trans; [|apply add_allocation_na]. cbn [set_alloc set_tab v_m]. rewrite put_block_m'. cbn [set_alloc set_tab v_m]. rewrite Ev2. exact H12.
Qed.

Lemma sort_list_m' v lr : v_m (sort_list v lr) = v_m v.
Proof. unfold sort_list. destruct (get_blist v lr); [apply set_blist_m|reflexivity]. Qed.

Lemma try_blocks_na ids : forall v lr size align flags sub s, noallocV v (fst (try_blocks c v lr ids size align flags sub s)).
Proof.
  induction ids as [|bid tl IH]; intros v lr size align flags sub s; cbn [try_blocks]; [apply noalloc_refl|].
  pose proof (alloc_from_block_na v lr bid size align flags sub s) as H. destruct (alloc_from_block c v lr bid size align flags sub s) as (v1 & r). cbn [fst] in H.
  destruct r; cbn [fst]; try exact H.
  - unfold noallocV. rewrite sort_list_m'. exact H.
  - eapply noalloc_trans; [exact H|apply IH].
Qed.

(* allocPage with NeverAllocate never reaches CreateBlock *)
Lemma alloc_page_na v lr size align flags sub s :
  fl flags F_NEVER = true -> noallocV v (fst (alloc_page c v lr size align flags sub s)).
Proof.
  intros Hn. unfold alloc_page, noallocV. destruct (get_blist v lr) as [l|]; [|apply noalloc_refl].
  pose proof (heap_budget_na (v_m v) (type_heap c (bl_type l))) as H0. destruct (heap_budget _ _ _) as ((m1 & usage) & budget). cbn [fst] in H0.
  rewrite Hn. cbn [negb andb].
  destruct (_ && _); [exact H0|]. destruct (bl_pref l <? size); [exact H0|].
  pose proof (try_blocks_na (search_order c l flags) (set_m v m1) lr size align flags sub s) as H1.
  destruct (try_blocks c (set_m v m1) lr (search_order c l flags) size align flags sub s) as (v2 & r). cbn [fst] in H1.
  pose proof (noalloc_trans _ _ _ H0 H1) as H01. destruct r; exact H01.
Qed.

Lemma bl_free_na v lr s keep : noallocV v (fst (bl_free c v lr s keep)).
Proof.
  unfold bl_free, noallocV. destruct (get_blist v lr) as [l|]; [|apply noalloc_refl]. destruct (get_block v lr _) as [b|]; [|apply noalloc_refl].
  pose proof (heap_budget_na (v_m v) (type_heap c (bl_type l))) as H0. destruct (heap_budget _ _ _) as ((m1 & usage) & budget). cbn [fst] in H0.
  assert (H1 : forall m2 s2 (ur : out unit), (if a_persist (get_alloc v s) then sm_unmap m1 (bk_mem b) (bk_sm b) else (m1, bk_sm b, OK tt)) = (m2, s2, ur) -> noalloc m1 m2).
  { intros m2 s2 ur E. destruct (a_persist _); [pose proof (sm_unmap_na m1 (bk_mem b) (bk_sm b)) as H; rewrite E in H; exact H|injection E as <- _ _; apply noalloc_refl]. }
  destruct (if a_persist (get_alloc v s) then _ else _) as ((m2 & s2) & ur) eqn:Eu. specialize (H1 _ _ _ eq_refl).
  pose proof (noalloc_trans _ _ _ H0 H1) as H01.
  assert (Ev2 : forall bb, v_m (put_block (set_m v m2) lr bb) = m2) by (intros; rewrite put_block_m'; reflexivity).
  destruct ur as [[]|code| |]; cbn [fst]; try (rewrite Ev2; exact H01).
  destruct (meta_free _ _) as [mt'|code| |]; cbn [fst]; try (rewrite Ev2; exact H01).
  pose proof (sm_sub_na (v_m (put_block (set_m v m2) lr (mkBlock (bk_id b) (bk_mem b) s2 (bk_meta b)))) (bk_mem b) s2) as H2.
  destruct (sm_sub _ _ _) as (m3 & s3). cbn [fst] in H2. rewrite Ev2 in H2. pose proof (noalloc_trans _ _ _ H01 H2) as H02.
  match goal with |- context [if ?cnd then (remove_block ?bs3 ?i, Some ?bb) else ?rest] =>
    destruct (if cnd then (remove_block bs3 i, Some bb) else rest) as (bs4 & toDelete) end.
  set (v3 := set_blist _ lr _). assert (E3 : v_m v3 = m3) by (unfold v3; rewrite set_blist_m; reflexivity).
  assert (H3 : noalloc (v_m v) (v_m (fst (match toDelete with
            | Some db => match destroy_block c v3 (bl_type l) db with (v', OK _) => (v', OK tt) | (v', STUCK) => (v', STUCK) | (v', _) => (v', PANIC) end
            | None => (v3, OK tt) end)))).
  { destruct toDelete as [db|]; [|cbn [fst]; rewrite E3; exact H02].
    pose proof (destroy_block_na v3 (bl_type l) db) as H. unfold noallocV in H. rewrite E3 in H.
    destruct (destroy_block c v3 (bl_type l) db) as (v' & r). cbn [fst] in H. pose proof (noalloc_trans _ _ _ H02 H) as H'. destruct r as [[]|code| |]; exact H'. }
  destruct (match toDelete with Some _ => _ | None => _ end) as (v4 & dr). cbn [fst] in H3.
  destruct dr as [[]|code| |]; cbn [fst]; try exact H3.
  pose proof (remove_allocation_na (v_m v4) (type_heap c (bl_type l)) (a_size (get_alloc v s))) as H4.
  destruct (remove_allocation _ _ _ _) as (m5 & rr). cbn [fst set_m v_m] in *. eapply noalloc_trans; eauto.
Qed.

Lemma unwind_loop_na done : forall v lr, noallocV v (fst (unwind_loop c v lr done)).
Proof.
  induction done as [|s tl IH]; intros v lr; cbn [unwind_loop]; [apply noalloc_refl|].
  pose proof (bl_free_na v lr s true) as H. destruct (bl_free c v lr s true) as (v1 & r). cbn [fst] in H.
  destruct r as [[]|code| |]; cbn [fst]; try exact H. eapply noalloc_trans; [exact H|]. apply (IH (set_alloc v1 s _)).
Qed.

Lemma release_loop_na ids : forall v lr firstId, noallocV v (fst (release_loop c v lr ids firstId)).
Proof.
  induction ids as [|bid tl IH]; intros v lr firstId; cbn [release_loop]; [apply noalloc_refl|].
  destruct (get_blist v lr) as [l|]; [|apply noalloc_refl]. destruct (negb _); [apply noalloc_refl|].
  destruct (find_block _ _) as [b|]; [|apply noalloc_refl]. destruct (_ || _); [apply IH|].
  set (v1 := set_blist v lr _). pose proof (destroy_block_na v1 (bl_type l) b) as H. unfold noallocV in H. unfold v1 in H at 1. rewrite set_blist_m in H.
  destruct (destroy_block c v1 (bl_type l) b) as (v2 & r). cbn [fst] in H. destruct r as [[]|code| |]; cbn [fst]; try exact H.
  eapply noalloc_trans; [exact H|apply IH].
Qed.

Lemma allocate_loop_na slots : forall v lr done size align flags sub,
  fl flags F_NEVER = true -> noallocV v (fst (fst (allocate_loop c v lr slots done size align flags sub))).
Proof.
  induction slots as [|s tl IH]; intros v lr done size align flags sub Hn; cbn [allocate_loop]; [apply noalloc_refl|].
  pose proof (alloc_page_na v lr size align flags sub s Hn) as H. destruct (alloc_page c v lr size align flags sub s) as (v1 & r). cbn [fst] in H.
  destruct r as [[]|code| |]; cbn [fst]; try exact H. eapply noalloc_trans; [exact H|apply IH; auto].
Qed.

Lemma bl_allocate_na v lr slots size align flags sub :
  fl flags F_NEVER = true -> noallocV v (fst (bl_allocate c v lr slots size align flags sub)).
Proof.
  intros Hn. unfold bl_allocate. destruct (get_blist v lr) as [l|]; [|apply noalloc_refl].
  pose proof (allocate_loop_na slots v lr [] size (if align <? bl_minalign l then bl_minalign l else align) flags sub Hn) as H.
  destruct (allocate_loop c v lr slots [] size _ flags sub) as ((v1 & r) & done). cbn [fst] in H.
  destruct r as [[]|code| |]; cbn [fst]; try exact H.
  pose proof (unwind_loop_na done v1 lr) as H2. destruct (unwind_loop c v1 lr done) as (v2 & ur). cbn [fst] in H2.
  pose proof (noalloc_trans _ _ _ H H2) as H12. destruct ur as [[]|ucode| |]; cbn [fst]; try exact H12.
  unfold release_empty_since. destruct (get_blist v2 lr) as [l2|]; cbn [fst]; [|exact H12].
  pose proof (release_loop_na (map bk_id (rev (bl_blocks l2))) v2 lr (bl_next l)) as H3.
  destruct (release_loop c v2 lr _ (bl_next l)) as (v3 & rr). cbn [fst] in H3. pose proof (noalloc_trans _ _ _ H12 H3) as H13.
  destruct rr; exact H13.
Qed.

Lemma calc_type_params_na v ty size count flags : noallocV v (fst (calc_type_params c v ty size count flags)).
Proof.
  unfold calc_type_params, noallocV. destruct (_ && fl _ F_BUDGET); [|apply noalloc_refl].
  pose proof (heap_budget_na (v_m v) (type_heap c ty)) as H. destruct (heap_budget _ _ _) as ((m1 & u) & b). cbn [fst] in H.
  destruct (b <? _); exact H.
Qed.

Lemma alloc_of_type_na v lr ty size align dedPref flags sub slots ded :
  fl flags F_NEVER = true -> fl flags F_DEDICATED = false ->
  noallocV v (fst (alloc_of_type c v lr ty size align dedPref flags sub slots ded)).
Proof.
  intros Hn Hd. unfold alloc_of_type. destruct slots as [|s0 tl0] eqn:Es; [apply noalloc_refl|]. rewrite <- Es.
  destruct (get_blist v lr) as [l|]; [|apply noalloc_refl].
  pose proof (calc_type_params_na v ty size (zlen slots) flags) as H0.
  pose proof (calc_type_params_spec c v ty size (zlen slots) flags) as Sp.
  destruct (calc_type_params c v ty size (zlen slots) flags) as (v1 & fr). cbn [fst] in H0. destruct Sp as (m1 & -> & _ & Hfr).
  destruct fr as [f1|code| |]; try exact H0. subst f1.
  set (f1 := if fl flags F_MAPPED && negb (host_visible c ty) then fl_clear flags F_MAPPED else flags).
  assert (Hn1 : fl f1 F_NEVER = true).
  { unfold f1. destruct (_ && _); [|exact Hn]. rewrite fl_clear_other; [exact Hn|unfold F_MAPPED; lia|unfold F_NEVER; lia|unfold F_MAPPED, F_NEVER; lia]. }
  assert (Hd1 : fl f1 F_DEDICATED = false).
  { unfold f1. destruct (_ && _); [|exact Hd]. rewrite fl_clear_other; [exact Hd|unfold F_MAPPED; lia|unfold F_DEDICATED; lia|unfold F_MAPPED, F_DEDICATED; lia]. }
  rewrite Hd1, Hn1. cbn [negb andb].
  pose proof (bl_allocate_na (set_m v m1) lr slots size align f1 sub Hn1) as H1.
  destruct (bl_allocate c (set_m v m1) lr slots size align f1 sub) as (v3 & br). cbn [fst] in H1.
  pose proof (noalloc_trans _ _ _ H0 H1) as H01. destruct br; exact H01.
Qed.

Lemma type_loop_na fuel : forall v bits ty size align dedPref usage flags req pref ctb sub slots ded bufimg,
  fl flags F_NEVER = true -> fl flags F_DEDICATED = false ->
  noallocV v (fst (type_loop c fuel v bits ty size align dedPref usage flags req pref ctb sub slots ded bufimg)).
Proof.
  induction fuel as [|f IH]; intros v bits ty size align dedPref usage flags req pref ctb sub slots ded bufimg Hn Hd; cbn [type_loop]; [apply noalloc_refl|].
  destruct (get_blist v (LDef ty)); [|apply noalloc_refl].
  pose proof (alloc_of_type_na v (LDef ty) ty size align dedPref flags sub slots ded Hn Hd) as H.
  destruct (alloc_of_type c v (LDef ty) ty size align dedPref flags sub slots ded) as (v1 & r). cbn [fst] in H.
  destruct r as [[]|code| |]; cbn [fst]; try exact H. destruct (code =? VK_UNKNOWN); [exact H|].
  destruct (find_type_index _ _ _ _ _ _ _ _ _) as [ty'|]; cbn [fst]; [|exact H]. eapply noalloc_trans; [exact H|apply IH; auto].
Qed.

Lemma calc_params_never usage flags reqDed pe f :
  calc_params usage flags reqDed pe = OK f -> fl flags F_NEVER = true -> fl f F_NEVER = true /\ fl f F_DEDICATED = false.
Proof.
  unfold calc_params. destruct (_ && _); [discriminate|]. destruct (_ && _ && _); [discriminate|]. destruct (_ && _ && _ && _); [discriminate|].
  set (f1 := if reqDed || (usage =? 1) then fl_set flags F_DEDICATED else flags).
  intros E Hn.
  assert (Hn1 : fl f1 F_NEVER = true).
  { unfold f1. destruct (_ || _); [apply fl_set_other; [unfold F_DEDICATED; lia|unfold F_NEVER; lia|exact Hn]|exact Hn]. }
  destruct (match pe with Some true => fl f1 F_DEDICATED | _ => false end); [discriminate|].
  destruct (fl f1 F_DEDICATED) eqn:Ed; [rewrite Hn1 in E; discriminate|]. cbn [andb] in E.
  destruct (_ && _ && _); injection E as <-; [|auto].
  split; [apply fl_set_other; [unfold F_RANDOM; lia|unfold F_NEVER; lia|exact Hn1]|].
  unfold fl, fl_set in *. rewrite Z.lor_spec, Ed. unfold F_RANDOM, F_DEDICATED. reflexivity.
Qed.

(* an allocation request with AllocationCreateNeverAllocate makes no vkAllocateMemory call, whatever happens *)
Theorem never_allocate_no_device_call v size align typeBits reqDed prefDed ded bufimg usage flags0 req pref ctb pool sub slots :
  fl flags0 F_NEVER = true ->
  let '(v', r) := multi_allocate c v size align typeBits reqDed prefDed ded bufimg usage flags0 req pref ctb pool sub slots in
  exists l, m_calls (v_m v') = l ++ m_calls (v_m v) /\ Forall not_alloc_call l.
Proof.
  intros Hn.
  assert (H : noallocV v (fst (multi_allocate c v size align typeBits reqDed prefDed ded bufimg usage flags0 req pref ctb pool sub slots))).
  { unfold multi_allocate. destruct (negb _); [apply noalloc_refl|]. destruct (size <? 1); [apply noalloc_refl|].
    destruct (calc_params usage flags0 reqDed _) as [flags|code| |] eqn:Ecp; try apply noalloc_refl.
    destruct (calc_params_never _ _ _ _ _ Ecp Hn) as (Hn1 & Hd1).
    destruct pool as [uid|].
    - destruct (get_blist v (LPool uid)) as [l|]; [|apply noalloc_refl]. apply alloc_of_type_na; auto.
    - destruct (find_type_index _ _ _ _ _ _ _ _ _) as [ty|]; [|apply noalloc_refl]. apply type_loop_na; auto. }
  destruct (multi_allocate c v size align typeBits reqDed prefDed ded bufimg usage flags0 req pref ctb pool sub slots) as (v' & r). exact H.
Qed.


(* ---------------------------------------------------------------- C02: the alignment a block allocation is placed with *)

Lemma alloc_from_block_align v lr bid size align flags sub s v' :
  alloc_from_block c v lr bid size align flags sub s = (v', AFOk) -> 0 <= s < zlen (v_tab v) ->
  a_align (get_alloc v' s) = align /\ a_kind (get_alloc v' s) = 1 /\ a_lref (get_alloc v' s) = lr.
Proof.
  unfold alloc_from_block. destruct (get_block v lr bid) as [b|]; [|discriminate]. destruct (negb _); [discriminate|].
  destruct (meta_create_request _ _ _ _ _ _) as [mt1 rq| | |]; try discriminate.
  unfold commit_request. set (v1 := put_block v lr _).
  assert (Hp : forall w bb, v_tab (put_block w lr bb) = v_tab w) by (intros; unfold put_block; destruct (get_blist w lr); [apply set_blist_tab|reflexivity]).
  assert (Et1 : v_tab v1 = v_tab v) by apply Hp.
  destruct (get_blist v1 lr) as [l1|]; [|discriminate]. destruct (get_block v1 lr bid) as [b1|]; [|discriminate].
  destruct (sm_sub _ _ _) as (m1 & s1). destruct (if fl flags F_MAPPED then _ else _) as ((m2 & s2) & mr).
  destruct mr as [[]|code| |]; try discriminate.
  destruct (meta_alloc _ _ _ _ _ _) as [(mt2 & h)|code| |]; try discriminate.
  destruct (_ && _); [discriminate|]. intros E Hs. injection E as <-.
  unfold get_alloc. cbn [set_m v_tab set_alloc set_tab]. rewrite nth_z_set_same; [cbn; auto|].
  rewrite Hp. cbn [set_alloc set_tab v_tab]. unfold zlen. rewrite set_nth_z_length. rewrite Hp. cbn [set_m v_tab]. rewrite Et1. exact Hs.
Qed.

Definition placed (v : vam) (lr : lref) (align : Z) (slots : list Z) : Prop :=
  forall s, In s slots -> a_align (get_alloc v s) = align /\ a_kind (get_alloc v s) = 1 /\ a_lref (get_alloc v s) = lr.

Lemma sort_list_tab' v lr : v_tab (sort_list v lr) = v_tab v.
Proof. unfold sort_list. destruct (get_blist v lr); [apply set_blist_tab|reflexivity]. Qed.

Lemma try_blocks_align (Hc : cfg_ok c) bids : forall v U X lr size align flags sub s v',
  VamInvU c v U X -> Bits.pow2 align -> min_ok v lr align -> 0 <= s < zlen (v_tab v) -> a_allocated (get_alloc v s) = false ->
  try_blocks c v lr bids size align flags sub s = (v', AFOk) -> placed v' lr align [s].
Proof.
  induction bids as [|bid tl IH]; intros v U X lr size align flags sub s v' HI Hal Hmin Hs Hd E; cbn [try_blocks] in E; [discriminate|].
  pose proof (alloc_from_block_inv c v U X lr bid size align flags sub s HI Hal Hmin Hs Hd) as P.
  destruct (alloc_from_block c v lr bid size align flags sub s) as (v1 & r) eqn:Ea. destruct r; try discriminate.
  - injection E as <-. destruct (alloc_from_block_align _ _ _ _ _ _ _ _ _ Ea Hs) as (A & B & C0).
    intros x [<-|[]]. unfold get_alloc in *. rewrite sort_list_tab'. auto.
  - cbn [af_post] in P. destruct P as (I1 & T1 & L1 & D1). eapply IH; eauto; [eapply min_ok_frame; eauto|]. destruct T1 as (Ez & _). lia.
Qed.

Lemma alloc_page_align (Hc : cfg_ok c) v U X lr size align flags sub s v' :
  VamInvU c v U X -> Bits.pow2 align -> min_ok v lr align -> 0 <= s < zlen (v_tab v) -> a_allocated (get_alloc v s) = false ->
  alloc_page c v lr size align flags sub s = (v', OK tt) -> placed v' lr align [s].
Proof.
  intros HI Hal Hmin Hs Hd. unfold alloc_page. destruct (get_blist v lr) as [l|] eqn:Hg; [|discriminate].
  pose proof (heap_budget_same c (v_m v) (type_heap c (bl_type l))) as Hb.
  destruct (heap_budget c (v_m v) (type_heap c (bl_type l))) as ((m1 & usage) & budget). cbn [fst] in Hb.
  destruct (_ && _); [discriminate|]. destruct (bl_pref l <? size); [discriminate|].
  assert (I1 : VamInvU c (set_m v m1) U X) by (apply VamInvU_mach_same; auto).
  assert (Hmin1 : min_ok (set_m v m1) lr align) by (eapply min_ok_frame; [apply lists_frame_set_m|exact Hmin]).
  pose proof (try_blocks_inv c (search_order c l flags) (set_m v m1) U X lr size align flags sub s I1 Hal Hmin1 Hs Hd) as TB.
  pose proof (try_blocks_align Hc (search_order c l flags) (set_m v m1) U X lr size align flags sub s) as TA.
  destruct (try_blocks c (set_m v m1) lr (search_order c l flags) size align flags sub s) as (v2 & r).
  destruct r; try discriminate.
  - intros E. injection E as <-. eapply TA; eauto.
  - pose proof (af_keeps c _ _ _ _ _ _ _ TB) as K2.
    destruct (negb _); [discriminate|].
    destruct (if bl_explicit l then (bl_pref l, 0) else shrink_new_block 3 (bl_pref l) 0 (calc_max_block_size l) size) as (nbs & shift).
    match goal with |- context [if ?cond then create_block c v2 lr nbs else (v2, ER VK_OODM)] =>
      assert (K3 : let '(v3, first) := (if cond then create_block c v2 lr nbs else (v2, ER VK_OODM)) in keeps c (set_m v m1) v3 U X s);
      [destruct cond; [apply (create_block_keeps c Hc); exact K2|exact K2]|
       destruct (if cond then create_block c v2 lr nbs else (v2, ER VK_OODM)) as (v3 & first)]
    end.
    match goal with |- context [if bl_explicit l then (v3, first) else ?rc] =>
      assert (K4 : let '(v4, created) := (if bl_explicit l then (v3, first) else rc) in keeps c (set_m v m1) v4 U X s);
      [destruct (bl_explicit l); [exact K3|apply (retry_create_inv c Hc); exact K3]|
       destruct (if bl_explicit l then (v3, first) else rc) as (v4 & created)]
    end.
    destruct created as [bid|code| |]; try discriminate.
    destruct (get_block v4 lr bid) as [nb|]; [|discriminate]. destruct (meta_size (bk_meta nb) <? size); [discriminate|].
    destruct K4 as (I4 & T4 & _ & D4).
    assert (Hs4 : 0 <= s < zlen (v_tab v4)) by (destruct T4 as (Ez & _); cbn in Ez; lia).
    destruct (alloc_from_block c v4 lr bid size align flags sub s) as (v5 & r2) eqn:Ea.
    destruct r2.
    + intros E. injection E as <-. destruct (alloc_from_block_align _ _ _ _ _ _ _ _ _ Ea Hs4) as (A & B & C0).
      intros x [<-|[]]. unfold get_alloc in *. rewrite sort_list_tab'. auto.
    + destruct (match get_blist v5 lr with Some _ => _ | None => _ end) as (v6 & dr). destruct dr; discriminate.
    + destruct (match get_blist v5 lr with Some _ => _ | None => _ end) as (v6 & dr). destruct dr; discriminate.
    + discriminate.
    + discriminate.
Qed.

Lemma allocate_loop_align (Hc : cfg_ok c) slots : forall v U X lr done size align flags sub v' done',
  VamInvU c v U X -> Bits.pow2 align -> min_ok v lr align -> NoDup (slots ++ done) -> dead_slots v slots -> placed v lr align done ->
  allocate_loop c v lr slots done size align flags sub = (v', OK tt, done') -> placed v' lr align (slots ++ done).
Proof.
  induction slots as [|s tl IH]; intros v U X lr done size align flags sub v' done' HI Hal Hmin Hnd Hdead Hpl E; cbn [allocate_loop] in E.
  - injection E as <- _. exact Hpl.
  - destruct (Hdead s (or_introl eq_refl)) as (Hr & Hd). cbn [app] in Hnd. inversion Hnd as [|? ? Hns Hnd']; subst.
    pose proof (alloc_page_inv c Hc v U X lr size align flags sub s HI Hal Hmin Hr Hd) as AP.
    pose proof (alloc_page_align Hc v U X lr size align flags sub s) as AA.
    destruct (alloc_page c v lr size align flags sub s) as (v1 & r). destruct r as [[]|code| |]; try discriminate.
    cbn [ap_post] in AP. destruct AP as (I1 & T1 & L1 & _). specialize (AA v1 HI Hal Hmin Hr Hd eq_refl).
    assert (Hpl1 : placed v1 lr align (s :: done)).
    { intros x [<-|Hx]; [apply AA; left; reflexivity|]. rewrite (get_alloc_frame _ _ _ _ T1); [apply Hpl; exact Hx|].
      intros [<-|[]]. apply Hns. apply in_app_iff. auto. }
    assert (Hd1 : dead_slots v1 tl).
    { eapply dead_slots_frame; [intros s1 H1; apply Hdead; right; exact H1|exact T1|]. intros s1 H1 [<-|[]]. apply Hns. apply in_app_iff. auto. }
    assert (Hnd1 : NoDup (tl ++ s :: done)) by (eapply Permutation.Permutation_NoDup; [apply Permutation.Permutation_middle|constructor; auto]).
    specialize (IH v1 U X lr (s :: done) size align flags sub v' done' I1 Hal (min_ok_frame _ _ _ _ L1 Hmin) Hnd1 Hd1 Hpl1 E).
    intros x Hx. apply IH. cbn in Hx. apply in_app_iff. destruct Hx as [<-|Hx]; [right; left; reflexivity|].
    apply in_app_iff in Hx. destruct Hx; [left; auto|right; right; auto].
Qed.

(* memoryBlockList.Allocate places every object with max(requested alignment, the list's minimum alignment) *)
Lemma bl_allocate_align (Hc : cfg_ok c) v U X lr l slots size align0 flags sub v' :
  VamInvU c v U X -> get_blist v lr = Some l -> align0 = 0 \/ Bits.pow2 align0 -> NoDup slots -> dead_slots v slots ->
  bl_allocate c v lr slots size align0 flags sub = (v', OK tt) ->
  placed v' lr (Z.max align0 (bl_minalign l)) slots.
Proof.
  intros HI Hg Hal Hnd Hdead. unfold bl_allocate. rewrite Hg.
  pose proof (vi_lists _ _ _ _ HI _ _ Hg) as Hwf.
  assert (Ea : (if align0 <? bl_minalign l then bl_minalign l else align0) = Z.max align0 (bl_minalign l)).
  { destruct (align0 <? bl_minalign l) eqn:E; [apply Z.ltb_lt in E; lia|apply Z.ltb_ge in E; lia]. }
  rewrite Ea.
  assert (Hal' : Bits.pow2 (Z.max align0 (bl_minalign l))).
  { rewrite <- Ea. pose proof (bw_align _ _ Hwf) as Hm. pose proof (Bits.pow2_pos _ Hm). destruct (align0 <? bl_minalign l) eqn:E; [auto|].
    destruct Hal as [->|H']; [apply Z.ltb_ge in E; lia|auto]. }
  pose proof (allocate_loop_align Hc slots v U X lr [] size (Z.max align0 (bl_minalign l)) flags sub) as AL.
  destruct (allocate_loop c v lr slots [] size _ flags sub) as ((v1 & r) & done). destruct r as [[]|code| |]; try discriminate.
  - intros E. injection E as <-.
    assert (Hmin0 : min_ok v lr (Z.max align0 (bl_minalign l))) by (intros l' G'; rewrite Hg in G'; injection G' as <-; lia).
    specialize (AL v1 done HI Hal' Hmin0 ltac:(rewrite app_nil_r; exact Hnd) Hdead ltac:(intros ? []) eq_refl).
    rewrite app_nil_r in AL. exact AL.
  - destruct (unwind_loop c v1 lr done) as (v2 & ur). destruct ur as [[]|uc| |]; try discriminate.
    destruct (release_empty_since c v2 lr (bl_next l)) as (v3 & rr). destruct rr; discriminate.
Qed.


Definition aligned_post (v' : vam) (align : Z) (slots : list Z) : Prop :=
  forall s, In s slots -> a_kind (get_alloc v' s) = 1 ->
  exists l, get_blist v' (a_lref (get_alloc v' s)) = Some l /\ a_align (get_alloc v' s) = Z.max align (bl_minalign l).

Lemma ded_aligned v' size align slots : ded_of v' slots size -> aligned_post v' align slots.
Proof. intros D s Hs K. destruct (D s Hs) as (_ & K2 & _). congruence. Qed.

Lemma alloc_of_type_align (Hc : cfg_ok c) v X lr l ty size align dedPref flags sub slots ded v' :
  VamInvU c v [] X -> get_blist v lr = Some l -> bl_type l = ty -> align = 0 \/ Bits.pow2 align ->
  NoDup slots -> dead_slots v slots ->
  alloc_of_type c v lr ty size align dedPref flags sub slots ded = (v', OK tt) -> aligned_post v' align slots.
Proof.
  intros HI Hg Hty Hal Hnd Hdead. unfold alloc_of_type. destruct slots as [|s0 tl0] eqn:Eslots; [discriminate|]. rewrite <- Eslots in *.
  rewrite Hg.
  set (f1 := if fl flags F_MAPPED && negb (host_visible c ty) then fl_clear flags F_MAPPED else flags).
  pose proof (calc_type_params_spec c v ty size (zlen slots) flags) as Hctp. fold f1 in Hctp.
  destruct (calc_type_params c v ty size (zlen slots) flags) as (v1 & fr).
  destruct Hctp as (m1 & -> & Hm1 & Hfr).
  assert (I1 : VamInvU c (set_m v m1) [] X) by (apply VamInvU_mach_same; auto).
  assert (Hg1 : get_blist (set_m v m1) lr = Some l) by (rewrite get_blist_set_m; auto).
  assert (Hdead1 : dead_slots (set_m v m1) slots) by exact Hdead.
  destruct fr as [flags'|code| |]; try contradiction; [|discriminate]. subst flags'.
  assert (Hded : forall w, (forall s, In s slots -> 0 <= s < zlen (v_tab w)) ->
            allocate_dedicated c w lr ty size sub (fl f1 F_MAPPED) (mapping_allowed f1) slots ded = (v', OK tt) -> aligned_post v' align slots).
  { intros w Hr E. eapply ded_aligned. eapply allocate_dedicated_result; eauto. }
  destruct (fl f1 F_DEDICATED); [apply Hded; intros s Hs; apply Hdead1; exact Hs|].
  set (canDed := negb (fl f1 F_NEVER) && (negb match lr with LPool _ => true | LDef _ => false end || negb (bl_explicit l))).
  match goal with |- context [if canDed then ?x else dedPref] => set (dp := if canDed then x else dedPref) end.
  destruct (canDed && dp) eqn:Ecd.
  - pose proof (allocate_dedicated_inv c (set_m v m1) X lr l ty size sub (fl f1 F_MAPPED) (mapping_allowed f1) slots ded I1 Hg1 Hty Hnd Hdead1) as P.
    destruct (allocate_dedicated c (set_m v m1) lr ty size sub (fl f1 F_MAPPED) (mapping_allowed f1) slots ded) as (v2 & r) eqn:Ead.
    destruct r as [[]|code| |]; try discriminate.
    + intros E. injection E as <-. eapply ded_aligned. eapply allocate_dedicated_result; eauto. intros s Hs. apply Hdead1. exact Hs.
    + cbn in P. destruct P as (I2 & T2 & L2 & D2). destruct (lf'_some _ _ L2 _ _ Hg1) as (l2 & G2 & C2).
      pose proof (bl_allocate_inv c Hc v2 [] X lr slots size align f1 sub I2 Hal Hnd D2) as BA.
      pose proof (bl_allocate_align Hc v2 [] X lr l2 slots size align f1 sub) as BL.
      destruct (bl_allocate c v2 lr slots size align f1 sub) as (v3 & br). destruct br as [[]|bcode| |]; try discriminate.
      * intros E. injection E as <-. specialize (BL v3 I2 G2 Hal Hnd D2 eq_refl).
        destruct BA as ((_ & _ & C3) & _). destruct (lf_some _ _ C3 _ _ G2) as (l3 & G3 & S3).
        intros s Hs _. destruct (BL s Hs) as (A1 & A2 & A3). exists l3. rewrite A3. split; [exact G3|].
        rewrite A1. destruct S3 as (_ & _ & _ & _ & _ & _ & _ & Hma & _). rewrite Hma. reflexivity.
      * destruct (canDed && negb dp); [|discriminate].
        destruct (heap_budget c (v_m v3) (type_heap c ty)) as ((m4 & usage) & budget). destruct (budget <? _); [discriminate|].
        apply Hded. intros s Hs. destruct BA as ((_ & (Ez & _) & _) & Dd). cbn [set_m v_tab]. apply Dd. exact Hs.
  - pose proof (bl_allocate_inv c Hc (set_m v m1) [] X lr slots size align f1 sub I1 Hal Hnd Hdead1) as BA.
    pose proof (bl_allocate_align Hc (set_m v m1) [] X lr l slots size align f1 sub) as BL.
    destruct (bl_allocate c (set_m v m1) lr slots size align f1 sub) as (v3 & br). destruct br as [[]|bcode| |]; try discriminate.
    + intros E. injection E as <-. specialize (BL v3 I1 Hg1 Hal Hnd Hdead1 eq_refl).
      destruct BA as ((_ & _ & C3) & _). destruct (lf_some _ _ C3 _ _ Hg1) as (l3 & G3 & S3).
      intros s Hs _. destruct (BL s Hs) as (A1 & A2 & A3). exists l3. rewrite A3. split; [exact G3|].
      rewrite A1. destruct S3 as (_ & _ & _ & _ & _ & _ & _ & Hma & _). rewrite Hma. reflexivity.
    + destruct (canDed && negb dp); [|discriminate].
      destruct (heap_budget c (v_m v3) (type_heap c ty)) as ((m4 & usage) & budget). destruct (budget <? _); [discriminate|].
      apply Hded. intros s Hs. destruct BA as (_ & Dd). cbn [set_m v_tab]. apply Dd. exact Hs.
Qed.

Lemma type_loop_align (Hc : cfg_ok c) fuel : forall v X bits ty size align dedPref usage flags req pref ctb sub slots ded bufimg v',
  VamInvU c v [] X -> align = 0 \/ Bits.pow2 align -> NoDup slots -> dead_slots v slots ->
  type_loop c fuel v bits ty size align dedPref usage flags req pref ctb sub slots ded bufimg = (v', OK tt) -> aligned_post v' align slots.
Proof.
  induction fuel as [|f IH]; intros v X bits ty size align dedPref usage flags req pref ctb sub slots ded bufimg v' HI Hal Hnd Hdead E;
    cbn [type_loop] in E; [discriminate|].
  destruct (get_blist v (LDef ty)) as [l|] eqn:Hg; [|discriminate].
  pose proof (alloc_of_type_inv c Hc v X (LDef ty) l ty size align dedPref flags sub slots ded HI Hg (vi_def_type _ _ _ _ HI _ _ Hg) Hal Hnd Hdead) as P.
  pose proof (alloc_of_type_align Hc v X (LDef ty) l ty size align dedPref flags sub slots ded) as A.
  destruct (alloc_of_type c v (LDef ty) ty size align dedPref flags sub slots ded) as (v1 & r) eqn:Ea.
  destruct r as [[]|code| |]; try discriminate.
  - injection E as <-. eapply A; eauto. apply (vi_def_type _ _ _ _ HI _ _ Hg).
  - destruct (code =? VK_UNKNOWN); [discriminate|]. destruct P as (I1 & T1 & L1 & D1).
    destruct (find_type_index c (v_global v1) _ usage flags req pref ctb bufimg) as [ty'|]; [|discriminate].
    eapply IH; eauto.
Qed.

(* C02: a successful allocation places every block allocation with max(requested alignment, minimum alignment of
   its block list); with VamProps.alloc_denotes_valid_range (offset mod a_align = 0) the offset is a multiple
   of both *)
Theorem placed_alignment v size align typeBits reqDed prefDed ded bufimg usage flags0 req pref ctb pool sub slots v' :
  cfg_ok c -> VamInv c v -> NoDup slots -> dead_slots v slots ->
  multi_allocate c v size align typeBits reqDed prefDed ded bufimg usage flags0 req pref ctb pool sub slots = (v', OK tt) ->
  forall s, In s slots -> a_kind (get_alloc v' s) = 1 ->
  exists l, get_blist v' (a_lref (get_alloc v' s)) = Some l /\ a_align (get_alloc v' s) = Z.max align (bl_minalign l).
Proof.
  intros Hc HI Hnd Hdead E. unfold multi_allocate in E.
  destruct (is_pow2_or_zero align) eqn:Ea; cbn [negb] in E; [|discriminate]. pose proof (pow2_or_zero_spec _ Ea) as Hal.
  destruct (size <? 1); [discriminate|].
  destruct (calc_params usage flags0 reqDed _) as [flags|code| |] eqn:Ecp; try discriminate.
  destruct pool as [uid|].
  - destruct (get_blist v (LPool uid)) as [l|] eqn:Hg; [|discriminate]. eapply alloc_of_type_align; eauto.
  - destruct (find_type_index c (v_global v) typeBits usage flags req pref ctb bufimg) as [ty|]; [|discriminate].
    eapply type_loop_align; eauto.
Qed.

End WithCfg.
