(* VamDefrag.v — model of vam/defrag.go (DefragmentationContext: BeginDefragmentation's init, BeginDefragPass,
   EndDefragPass with completePassForMove / swapBlockAllocation, Finish) over the allocator state of
   VamBlockList.v.

   The move collection of a pass (memutils/defrag/context.go: BlockListCollectMoves and everything below it)
   is NOT modelled again: the block list is projected to the state of the validated model Defrag.v
   ([project]) and Defrag.collect_moves_f runs on it.  vam's CommitDefragAllocationRequest does things Defrag.v's
   reference block list does not have: RecordSuballocSubfree and Map on the destination block (before
   metadata.Alloc), AddAllocation after it.  A failing vkMapMemory makes the commit fail, and the planner then
   goes on (next block / lower offset / next allocation); so the planner is run with a commit oracle
   ([att_commit]: the RecordSuballocSubfree + Map part of a commit, executed on a copy of the allocator state,
   which carries the driver's fault state).  Its result is written back: the new TLSF states, and then the log
   of commit attempts is replayed in order on the allocator state itself ([replay_log]): a failed attempt leaves
   its device / SynchronizedMemory effects (the unmap of the hysteresis mapping, the failed vkMapMemory in the
   call log), a successful one is [commit_move] (the same effects, one temporary Allocation object, AddAllocation).
   The replay repeats exactly the oracle's computations (VamDefragNp: it never disagrees with it).

   Completing a pass is modelled directly, because the handler is vam's (frees go through
   memoryBlockList.Free with its retention policy, unmapping and budget counters).  Go iterates a map when it
   moves blocks with ignored moves to the front; the model takes first-occurrence order, which is exact when
   at most one block has ignored moves in a pass. *)
From Coq Require Import ZArith NArith List Bool Lia.
From Arsenal Require Util Gran Tlsf Linear SyncMem Budget Pass Defrag.
From Arsenal Require Import VamDev VamBlockList.
Import ListNotations.
Open Scope Z_scope.

(* one defrag.MetadataDefragContext (of a non-nil BlockList) *)
Record dfctx := mkDfctx { dc_lr : lref; dc_ctx : Defrag.dctx }.

(* DefragmentationContext *)
Record dfrun := mkDfrun {
  dr_ctxs : list dfctx;       (* c.context without the nil entries *)
  dr_progress : Z;            (* blockListProgress, as an index into dr_ctxs *)
  dr_max_bytes : Z;
  dr_max_allocs : Z;
  dr_pass : Pass.pass;
  dr_stats : Pass.pstats }.

Section WithCfg.
Variable c : vcfg.

(* ---------------------------------------------------------------- BeginDefragmentation *)

(* SortByFreeSize: sort.Slice on SumFreeSize; Go's pdqsort is an insertion sort (stable) up to 12 elements *)
Fixpoint insert_by_free (b : block) (sorted : list block) : list block :=
  match sorted with
  | [] => [b]
  | x :: tl =>
    if meta_sum_free (bk_meta b) <? meta_sum_free (bk_meta x) then b :: sorted
    else x :: insert_by_free b tl
  end.

Definition sort_by_free_size (bs : list block) : list block :=
  fold_left (fun acc b => insert_by_free b acc) bs [].

(* initForPool / initForAllocator, per block list: incrementalSort = false; SortByFreeSize *)
Definition prepare_list (v : vam) (lr : lref) : vam :=
  match get_blist v lr with
  | Some l => set_blist v lr (set_incsort (set_blocks l (sort_by_free_size (bl_blocks l))) false)
  | None => v
  end.

Fixpoint default_lrefs (v : vam) (n : nat) (t : Z) : list lref :=
  match n with
  | O => []
  | S k => (match get_blist v (LDef t) with Some _ => [LDef t] | None => [] end) ++ default_lrefs v k (t + 1)
  end.

Definition list_is_linear (v : vam) (lr : lref) : bool :=
  match get_blist v lr with Some l => bl_algo l =? 2 | None => false end.

(* MetadataDefragContext.Init: every block must support random access *)
Definition list_random_access (v : vam) (lr : lref) : bool :=
  match get_blist v lr with
  | Some l => forallb (fun b => match bk_meta b with MTlsf _ => true | MLin _ => false end) (bl_blocks l)
  | None => true
  end.

(* Allocator.BeginDefragmentation: DefragmentationInfo.validate first (a refused request changes nothing),
   then the linear-pool refusal, initForPool / initForAllocator and DefragmentationContext.init *)
Definition defrag_begin (v : vam) (flags : Z) (pool : option Z) (maxBytes maxAllocs : Z) : vam * out dfrun :=
  let algo := Z.land flags 3 in
  if (maxBytes <? 0) || (maxAllocs <? 0) then (v, ER VK_UNKNOWN)
  else if algo =? 3 then (v, ER VK_UNKNOWN)
  else if match pool with Some uid => list_is_linear v (LPool uid) | None => false end then (v, ER VK_NOFEATURE)
  else
    let lrs := match pool with
               | Some uid => [LPool uid]
               | None => default_lrefs v (length (c_types c)) 0
               end in
    let v1 := fold_left prepare_list lrs v in
    let mb := if maxBytes =? 0 then MAXINT else maxBytes in
    let ma := if maxAllocs =? 0 then MAXINT else maxAllocs in
    (* MetadataDefragContext.Init: a block without random access is refused (after the lists were prepared) *)
    if negb (forallb (list_random_access v1) lrs) then (v1, ER VK_UNKNOWN)
    else
      let a := if algo =? 1 then 1 else 2 in
      (v1, OK (mkDfrun (map (fun lr => mkDfctx lr (Defrag.mkC a [] 0)) lrs) 0 mb ma
                       (Pass.pass_init 0 0) Pass.ps_zero)).

(* ---------------------------------------------------------------- projection to Defrag.v *)

(* BlockList.MoveDataForUserData sees this Allocation object *)
Definition project_entry (lr : lref) (a : alloc) : option Defrag.uent :=
  if a_allocated a && (a_kind a =? 1) && lref_eqb (a_lref a) lr then
    Some (Defrag.mkU (a_blk a) (a_handle a) (a_size a) (a_align a) (a_sub a) (if a_temp a then -1 else 0) (a_temp a))
  else None.

Fixpoint project_blocks (bs : list block) : option (list (Z * Tlsf.tlsf)) :=
  match bs with
  | [] => Some []
  | b :: tl =>
    match bk_meta b, project_blocks tl with
    | MTlsf t, Some r => Some ((bk_id b, t) :: r)
    | _, _ => None
    end
  end.

Definition project (v : vam) (lr : lref) : option Defrag.dstate :=
  match get_blist v lr with
  | None => None
  | Some l =>
    match project_blocks (bl_blocks l) with
    | None => None
    | Some bl => Some (Defrag.mkD bl (map (project_entry lr) (v_tab v)) false)
    end
  end.

(* write the TLSF states back *)
Definition unproject_blocks (bs : list block) (bl : list (Z * Tlsf.tlsf)) : list block :=
  map (fun b => match Defrag.find_id (bk_id b) bl with
                | Some t => mkBlock (bk_id b) (bk_mem b) (bk_sm b) (MTlsf t)
                | None => b
                end) bs.

(* CommitDefragAllocationRequest for one collected move (the metadata part is already in the TLSF state) *)
Definition commit_move (v : vam) (lr : lref) (mv : Defrag.move) : vam * out unit :=
  let src := get_alloc v (Z.of_nat (Defrag.m_src mv)) in
  match get_blist v lr, get_block v lr (Defrag.m_dstblk mv) with
  | Some l, Some b =>
    if negb (Z.of_nat (Defrag.m_tmp mv) =? zlen (v_tab v)) then (v, STUCK)
    else
      let mapped := a_persist src in
      let allowed := a_mapallowed src in
      let '(m1, s1) := sm_sub (v_m v) (bk_mem b) (bk_sm b) in
      let '(m2, s2, mr) := if mapped then sm_map c m1 (bk_mem b) s1 else (m1, s1, OK tt) in
      let v2 := put_block (set_m v m2) lr (mkBlock (bk_id b) (bk_mem b) s2 (bk_meta b)) in
      match mr with
      | OK _ =>
        if mapped && negb allowed then (v2, PANIC)
        else
          let tmp := mkAlloc true 1 (Defrag.m_size mv) (a_align src) (bl_type l) (a_sub src) mapped allowed lr
                             (Defrag.m_dstblk mv) (Defrag.m_dstoff mv) (bk_mem b) SyncMem.sm_init true in
          let v3 := set_tab v2 (v_tab v2 ++ [tmp]) in
          (set_m v3 (add_allocation c (v_m v3) (type_heap c (bl_type l)) (Defrag.m_size mv)), OK tt)
      | PANIC => (v2, PANIC)
      | _ => (v2, STUCK)
      end
  | _, _ => (v, STUCK)
  end.

Fixpoint commit_moves (v : vam) (lr : lref) (mvs : list Defrag.move) : vam * out unit :=
  match mvs with
  | [] => (v, OK tt)
  | mv :: tl =>
    let '(v1, r) := commit_move v lr mv in
    match r with
    | OK _ => commit_moves v1 lr tl
    | other => (v1, other)
    end
  end.

(* the part of commitAllocationRequest before metadata.Alloc, on block dst of the list, for a temporary of the
   Allocation in [slot]: RecordSuballocSubfree, then Map when the source is persistently mapped *)
Definition commit_attempt (v : vam) (lr : lref) (slot : nat) (dst : Z) : vam * out unit :=
  let src := get_alloc v (Z.of_nat slot) in
  match get_block v lr dst with
  | Some b =>
    let '(m1, s1) := sm_sub (v_m v) (bk_mem b) (bk_sm b) in
    let '(m2, s2, mr) := if a_persist src then sm_map c m1 (bk_mem b) s1 else (m1, s1, OK tt) in
    (put_block (set_m v m2) lr (mkBlock (bk_id b) (bk_mem b) s2 (bk_meta b)), mr)
  | None => (v, STUCK)
  end.

(* the planner's commit oracle: the environment is (a copy of) the allocator state *)
Definition att_commit (lr : lref) (e : vam) (slot : nat) (dst : Z) : vam * bool :=
  let '(e', r) := commit_attempt e lr slot dst in
  (e', match r with OK _ => true | _ => false end).

(* the commit attempts of a collecting pass, in order, on the allocator state (after the write-back) *)
Fixpoint replay_log (v : vam) (lr : lref) (log : list Defrag.attempt) : vam * out unit :=
  match log with
  | [] => (v, OK tt)
  | Defrag.AtFail slot dst :: tl =>
    let '(v1, r) := commit_attempt v lr slot dst in
    match r with
    | ER _ => replay_log v1 lr tl
    | PANIC => (v1, PANIC)
    | _ => (v1, STUCK)        (* an attempt logged as failed was refused by the oracle: it fails here too (VamDefragNp) *)
    end
  | Defrag.AtOk mv :: tl =>
    let '(v1, r) := commit_move v lr mv in
    match r with
    | OK _ => replay_log v1 lr tl
    | other => (v1, other)
    end
  end.

(* BlockListCollectMoves of one context: new state, new context, pass counters *)
Definition collect_list (v : vam) (dc : dfctx) (p : Pass.pass) : vam * out (dfctx * Pass.pass) :=
  match project v (dc_lr dc), get_blist v (dc_lr dc) with
  | Some st, Some l =>
    let '((cs, _, log), wr) := Defrag.collect_moves_f vam (att_commit (dc_lr dc)) st (dc_ctx dc) p v in
    match wr with
    | Defrag.WPanic _ => (v, PANIC)
    | _ =>
      let v1 := set_blist v (dc_lr dc)
                          (set_blocks l (unproject_blocks (bl_blocks l) (Defrag.d_blocks (Defrag.cs_st cs)))) in
      let '(v2, r) := replay_log v1 (dc_lr dc) log in
      match r with
      | OK _ =>
        (v2, OK (mkDfctx (dc_lr dc) (Defrag.mkC (Defrag.c_algo (dc_ctx dc)) (Defrag.cs_moves cs)
                                                (Defrag.c_immovable (dc_ctx dc))),
                 Defrag.cs_pass cs))
      | PANIC => (v2, PANIC)
      | ER code => (v2, ER code)
      | STUCK => (v2, STUCK)
      end
    end
  | _, _ => (v, STUCK)
  end.

Definition set_nth_ctx (l : list dfctx) (i : Z) (x : dfctx) : list dfctx := set_nth_z l i x.

(* BeginDefragPass: the loop over the block lists from blockListProgress on *)
Fixpoint pass_loop (fuel : nat) (v : vam) (run : dfrun) (p : Pass.pass) : vam * dfrun * out (list Defrag.move) :=
  match fuel with
  | O => (v, run, STUCK)
  | S f =>
    match nth_z (dr_ctxs run) (dr_progress run) with
    | None =>
      (v, mkDfrun (dr_ctxs run) (dr_progress run) (dr_max_bytes run) (dr_max_allocs run) p (dr_stats run), OK [])
    | Some dc =>
      let '(v1, r) := collect_list v dc p in
      match r with
      | OK (dc', p') =>
        let run1 := mkDfrun (set_nth_ctx (dr_ctxs run) (dr_progress run) dc') (dr_progress run)
                            (dr_max_bytes run) (dr_max_allocs run) p' (dr_stats run) in
        match Defrag.c_moves (dc_ctx dc') with
        | [] =>
          pass_loop f v1 (mkDfrun (dr_ctxs run1) (dr_progress run1 + 1) (dr_max_bytes run1) (dr_max_allocs run1)
                                  (dr_pass run1) (dr_stats run1)) p'
        | mvs => (v1, run1, OK mvs)
        end
      | ER code => (v1, run, ER code)
      | PANIC => (v1, run, PANIC)
      | STUCK => (v1, run, STUCK)
      end
    end
  end.

(* BeginDefragPass *)
Definition defrag_pass (v : vam) (run : dfrun) : vam * dfrun * out (list Defrag.move) :=
  pass_loop (S (length (dr_ctxs run))) v run (Pass.pass_init (dr_max_bytes run) (dr_max_allocs run)).

(* ---------------------------------------------------------------- EndDefragPass *)

Definition meta_set_user_data (mt : meta) (h : Z) (tag : Z) : option meta :=
  match mt with
  | MTlsf t => match Tlsf.set_user_data t h (Some tag) with Some t' => Some (MTlsf t') | None => None end
  | MLin l => match Linear.set_user_data l h (Some tag) with Linear.SetOk l' => Some (MLin l') | _ => None end
  end.

Definition set_block_user_data (v : vam) (lr : lref) (bid h tag : Z) : option vam :=
  match get_block v lr bid with
  | None => None
  | Some b =>
    match meta_set_user_data (bk_meta b) h tag with
    | Some mt' => Some (put_block v lr (mkBlock (bk_id b) (bk_mem b) (bk_sm b) mt'))
    | None => None
    end
  end.

(* Allocation.swapBlockAllocation: swaps blockData and memory, nothing else *)
Definition swap_block_allocation (v : vam) (s t : Z) : vam * out unit :=
  let a := get_alloc v s in
  let b := get_alloc v t in
  if negb (a_kind a =? 1) || negb (a_kind b =? 1) then (v, PANIC)
  else
    match set_block_user_data v (a_lref a) (a_blk a) (a_handle a) t with
    | None => (v, PANIC)
    | Some v1 =>
      let a' := mkAlloc (a_allocated a) (a_kind a) (a_size a) (a_align a) (a_type a) (a_sub a) (a_persist a)
                        (a_mapallowed a) (a_lref b) (a_blk b) (a_handle b) (a_mem b) (a_sm a) (a_temp a) in
      let b' := mkAlloc (a_allocated b) (a_kind b) (a_size b) (a_align b) (a_type b) (a_sub b) (a_persist b)
                        (a_mapallowed b) (a_lref a) (a_blk a) (a_handle a) (a_mem a) (a_sm b) (a_temp b) in
      let v2 := set_alloc (set_alloc v1 s a') t b' in
      match set_block_user_data v2 (a_lref a') (a_blk a') (a_handle a') s with
      | None => (v2, PANIC)
      | Some v3 => (v3, OK tt)
      end
    end.

(* Allocation.free of a block allocation, as the handler uses it: any error is a panic *)
Definition free_or_panic (v : vam) (s : Z) : vam * out unit :=
  let a := get_alloc v s in
  if negb (a_allocated a) then (v, PANIC)
  else if negb (a_kind a =? 1) then (v, PANIC)
  else
    let '(v1, r) := bl_free c v (a_lref a) s false in
    match r with
    | OK _ => (set_alloc v1 s (set_allocated (get_alloc v1 s) false), OK tt)
    | STUCK => (v1, STUCK)
    | _ => (v1, PANIC)
    end.

(* completePassForMove; d: 0 copy, 1 ignore, 2 destroy *)
Definition complete_move (v : vam) (mv : Defrag.move) (d : Z) : vam * out unit :=
  let s := Z.of_nat (Defrag.m_src mv) in
  let t := Z.of_nat (Defrag.m_tmp mv) in
  let '(v1, r1) :=
    if d =? 0 then swap_block_allocation v s t
    else if d =? 2 then free_or_panic v s
    else (v, OK tt) in
  match r1 with
  | OK _ => free_or_panic v1 t
  | other => (v1, other)
  end.

(* BlockList.AddStatistics: (AllocationCount, AllocationBytes) over the blocks *)
Definition list_alloc_stats (v : vam) (lr : lref) : Z * Z :=
  match get_blist v lr with
  | Some l =>
    fold_left (fun acc b => (fst acc + meta_alloc_count (bk_meta b),
                             snd acc + (meta_size (bk_meta b) - meta_sum_free (bk_meta b))))
              (bl_blocks l) (0, 0)
  | None => (0, 0)
  end.

Definition norm_decision (d : Z) : Z := if (d =? 1) || (d =? 2) then d else 0.

(* the per-move loop of BlockListCompletePass: state, pass counters, blocks with ignored moves *)
Fixpoint complete_moves (v : vam) (lr : lref) (p : Pass.pass) (imm : list Z) (mvs : list Defrag.move) (ds : list Z)
  : vam * Pass.pass * list Z * out unit :=
  match mvs with
  | [] => (v, p, imm, OK tt)
  | mv :: rest =>
    let d := norm_decision (hd 0 ds) in
    let '(pc, pb) := list_alloc_stats v lr in
    let '(v1, r) := complete_move v mv d in
    match r with
    | OK _ =>
      let '(ac, ab) := list_alloc_stats v1 lr in
      let s := Pass.p_stats p in
      let s1 := Pass.mkPS (Pass.ps_bytes_moved s) (Pass.ps_bytes_freed s + (pb - ab)) (Pass.ps_allocs_moved s)
                          (Pass.ps_allocs_freed s + (pc - ac)) in
      let s2 := if (d =? 1) || (d =? 2)
                then Pass.mkPS (Pass.ps_bytes_moved s1 - Defrag.m_size mv) (Pass.ps_bytes_freed s1)
                               (Pass.ps_allocs_moved s1 - 1) (Pass.ps_allocs_freed s1)
                else s1 in
      let imm1 := if (d =? 1) && negb (Util.mem_z (Defrag.m_srcblk mv) imm) then imm ++ [Defrag.m_srcblk mv] else imm in
      complete_moves v1 lr (Pass.set_stats p s2) imm1 rest (tl ds)
    | other => (v1, p, imm, other)
    end
  end.

Fixpoint block_index_from (bs : list block) (id i : Z) : option Z :=
  match bs with
  | [] => None
  | b :: tl => if bk_id b =? id then Some i else block_index_from tl id (i + 1)
  end.

(* swapImmovableBlocks *)
Definition swap_immovable (bs : list block) (immc id : Z) : list block * Z :=
  match block_index_from (skipn (Z.to_nat immc) bs) id immc with
  | Some i => (Defrag.swap_nth (Z.to_nat i) (Z.to_nat immc) bs, immc + 1)
  | None => (bs, immc)
  end.

(* BlockListCompletePass *)
Definition complete_pass (v : vam) (dc : dfctx) (p : Pass.pass) (ds : list Z) : vam * dfctx * Pass.pass * out unit :=
  let lr := dc_lr dc in
  let '(v1, p1, imm, r) := complete_moves v lr p [] (Defrag.c_moves (dc_ctx dc)) ds in
  match r with
  | OK _ =>
    match get_blist v1 lr with
    | None => (v1, dc, p1, STUCK)
    | Some l =>
      let '(bs, immc) := fold_left (fun acc id => swap_immovable (fst acc) (snd acc) id) imm
                                   (bl_blocks l, Defrag.c_immovable (dc_ctx dc)) in
      (set_blist v1 lr (set_blocks l bs), mkDfctx lr (Defrag.mkC (Defrag.c_algo (dc_ctx dc)) [] immc), p1, OK tt)
    end
  | other => (v1, dc, p1, other)
  end.

(* EndDefragPass: the bool result is "the run has ended" *)
Definition defrag_end (v : vam) (run : dfrun) (ds : list Z) : vam * dfrun * out bool :=
  match nth_z (dr_ctxs run) (dr_progress run) with
  | None => (v, run, OK true)
  | Some dc =>
    match Defrag.c_moves (dc_ctx dc) with
    | [] => (v, run, OK true)
    | _ =>
      let '(v1, dc', p', r) := complete_pass v dc (dr_pass run) ds in
      let run' := mkDfrun (set_nth_ctx (dr_ctxs run) (dr_progress run) dc') (dr_progress run) (dr_max_bytes run)
                          (dr_max_allocs run) p' (Pass.ps_add (dr_stats run) (Pass.p_stats p')) in
      match r with
      | OK _ => (v1, run', OK false)
      | ER code => (v1, run', ER code)
      | PANIC => (v1, run', PANIC)
      | STUCK => (v1, run', STUCK)
      end
    end
  end.

(* Finish: incrementalSort = true on every block list of the context; the statistics of the run *)
Definition defrag_finish (v : vam) (run : dfrun) : vam * Pass.pstats :=
  (fold_left (fun v' dc => match get_blist v' (dc_lr dc) with
                           | Some l => set_blist v' (dc_lr dc) (set_incsort l true)
                           | None => v'
                           end) (dr_ctxs run) v,
   dr_stats run).

End WithCfg.
