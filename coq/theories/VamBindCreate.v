(* VamBindCreate.v — C08, the bind inside CreateBuffer / CreateImage (allocator.go createBuffer / CreateImage,
   allocation.go bindBufferMemory / bindImageMemory): a successful CreateBuffer / CreateImage without
   AllocationCreateDontBind ends with exactly one vkBind*Memory on the new resource, with the memory object of the
   Allocation just made and the offset of that Allocation inside the object (0 for a dedicated allocation, the
   offset of its region for a block allocation): inside the object, a multiple of the Allocation's alignment. *)
From Coq Require Import ZArith List Bool Lia.
From Arsenal Require Import Util Bits VamDev VamBlockList Vam VamInvMeta VamInv VamInvUpd VamInvDev VamInvStep VamInvStep2 VamInvThm.
From Arsenal Require Import VamAcct VamAcctStep VamAcctThm VamMap VamFlush.
Import ListNotations.
Open Scope Z_scope.

Definition bound_ok (v' : vam) (s : Z) (image : bool) (calls : list call) : Prop :=
  exists a res o code d tl, slot_is v' s a /\ calls = CBind image res (a_mem a) o code :: tl /\
    find_offset v' a = Some o /\ find_mem (m_mems (v_m v')) (a_mem a) = Some d /\
    0 <= o /\ o + a_size a <= dm_size d /\ (a_kind a = 1 -> o mod a_align a = 0) /\ (a_kind a = 2 -> o = 0).

Section WithCfg.
Variable c : vcfg.
Hypothesis Hc : cfg_ok c.

Ltac er_done :=
  match goal with |- match (let '(v5, fr) := ?e in _) with _ => _ end => destruct e as (v5 & fr); destruct fr as [[]|?| |]; exact I end.

Lemma create_resource_bind v s image kind sub devreq resusage minAlign usage flags req pref ctb pool :
  VamInvU c v [] [] -> 0 <= s < zlen (v_tab v) -> a_allocated (get_alloc v s) = false ->
  let '(v', r) := create_resource c v s image kind sub devreq resusage minAlign usage flags req pref ctb pool in
  match r with OK _ => fl flags F_DONTBIND = false -> bound_ok v' s image (m_calls (v_m v')) | _ => True end.
Proof.
  intros HI Hr Hd. unfold create_resource.
  pose proof (dev_create_res_same (v_m v) image kind devreq) as H1.
  destruct (dev_create_res (v_m v) image kind devreq) as ((m1 & code) & id). cbn [fst] in H1.
  destruct (negb (code =? 0)); [exact I|].
  destruct (get_requirements_spec c m1 image id) as (m2 & rq & rd & pd & Egr & H2). rewrite Egr.
  pose proof (mach_same_trans _ _ _ H1 H2) as H12.
  assert (I2 : VamInvU c (set_m v m2) [] []) by (apply VamInvU_mach_same; auto).
  assert (Hnd : NoDup [s]) by (constructor; [intros []|constructor]).
  assert (Hdead : dead_slots (set_m v m2) [s]) by (intros x [<-|[]]; auto).
  match goal with |- context [multi_allocate c (set_m v m2) ?a1 ?a2 ?a3 ?a4 ?a5 ?a6 ?a7 usage flags req pref ctb pool sub [s]] =>
    pose proof (multi_allocate_inv c Hc (set_m v m2) [] a1 a2 a3 a4 a5 a6 a7 usage flags req pref ctb pool sub [s] I2 Hnd Hdead) as MA;
    destruct (multi_allocate c (set_m v m2) a1 a2 a3 a4 a5 a6 a7 usage flags req pref ctb pool sub [s]) as (v3 & r) end.
  destruct r as [[]|acode| |]; auto.
  destruct MA as (I3 & T3 & L3 & D3). destruct (D3 s (or_introl eq_refl)) as (a & Sa).
  destruct (fl flags F_DONTBIND) eqn:Edb; [intros; discriminate|].
  (* bindBufferMemory / bindImageMemory with localOffset 0 *)
  unfold bind_memory. rewrite (get_alloc_slot _ _ _ Sa).
  destruct (id =? 0); [er_done|]. destruct Sa as (Sn & Sal). rewrite Sal. cbn [negb]. change (0 <? 0) with false. cbn iota.
  destruct (find_offset_valid c v3 s a I3 (conj Sn Sal)) as (o & d & Ho & Hf & O1 & O2 & O3 & O4).
  assert (Hkind : a_kind a = 1 \/ a_kind a = 2).
  { destruct (vi_slots _ _ _ _ I3 s _ (conj Sn Sal) ltac:(intros [])) as [(K & _)|(K & _)]; auto. }
  assert (Et : (if a_kind a =? 2 then OK 0
                else if a_kind a =? 1 then match find_offset v3 a with Some o => OK (0 + o) | None => PANIC end
                else ER VK_UNKNOWN) = OK o).
  { destruct Hkind as [K|K]; rewrite K; cbn [Z.eqb Pos.eqb]; [rewrite Ho; reflexivity|rewrite (O4 K); reflexivity]. }
  rewrite Et. destruct (dev_bind_calls (v_m v3) image id (a_mem a) o) as (bcode & Ecalls & Emems).
  destruct (dev_bind (v_m v3) image id (a_mem a) o) as (mb & code1). cbn [fst] in Ecalls, Emems.
  destruct (code1 =? 0); [|er_done]. intros _.
  exists a, id, o, bcode, d, (m_calls (v_m v3)). cbn [v_m set_m].
  split; [apply slot_is_set_m; exact (conj Sn Sal)|]. split; [exact Ecalls|]. split; [rewrite find_offset_set_m; exact Ho|].
  split; [rewrite Emems; exact Hf|]. auto.
Qed.

(* the last driver call of the API call is the bind *)
Definition bound_last (v' : vam) (s : Z) (image : bool) (calls : list call) : Prop :=
  exists a res o code d pre, slot_is v' s a /\ calls = pre ++ [CBind image res (a_mem a) o code] /\
    find_offset v' a = Some o /\ find_mem (m_mems (v_m v')) (a_mem a) = Some d /\
    0 <= o /\ o + a_size a <= dm_size d /\ (a_kind a = 1 -> o mod a_align a = 0) /\ (a_kind a = 2 -> o = 0).

Theorem create_bind_step v o f v' calls :
  VamInvU c v [] [] -> op_ok v o -> step c v o f = (v', ROk, calls) ->
  match o with
  | OCreateBuf slot _ _ _ _ _ flags _ _ _ _ => fl flags F_DONTBIND = false -> bound_last v' slot false calls
  | OCreateImg slot _ _ _ _ _ flags _ _ _ _ => fl flags F_DONTBIND = false -> bound_last v' slot true calls
  | _ => True
  end.
Proof.
  intros HI Hok Hs. unfold step in Hs.
  set (v0 := set_m v (clear_calls (set_fault (v_m v) f 0))) in *.
  assert (I0 : VamInvU c v0 [] []).
  { apply VamInvU_mach_same; [exact HI|]. eapply mach_same_trans; [apply mach_same_set_fault|apply mach_same_clear]. }
  assert (Hfin : forall v1 s image, bound_ok v1 s image (m_calls (v_m v1)) ->
            bound_last (set_m v1 (clear_calls (set_fault (v_m v1) no_fault (m_fired (v_m v1))))) s image (rev (m_calls (v_m v1)))).
  { intros v1 s image (a & res & o1 & code & d & tl & Sa & Ec & Ho & Hf & R). exists a, res, o1, code, d, (rev tl).
    split; [apply slot_is_set_m; exact Sa|]. split; [rewrite Ec; reflexivity|]. split; [rewrite find_offset_set_m; exact Ho|]. split; [exact Hf|exact R]. }
  destruct o; try exact I; cbn [exec op_ok] in *; intros Hdb.
  - unfold create_buffer in Hs. destruct (a_allocated (get_alloc v0 slot)) eqn:Ea; [discriminate|].
    destruct (_ && _); [discriminate|]. destruct (size =? 0); [discriminate|]. destruct (_ && _); [discriminate|].
    pose proof (create_resource_bind v0 slot false 1 2 devreq bufUsage minAlign usage flags req pref ctb pool I0 Hok Ea) as P.
    destruct (create_resource c v0 slot false 1 2 devreq bufUsage minAlign usage flags req pref ctb pool) as (v1 & r1).
    destruct r1 as [[]|code1| |]; cbn in Hs; try discriminate. injection Hs as <- <-. apply Hfin. apply P. exact Hdb.
  - unfold create_image in Hs. destruct (a_allocated (get_alloc v0 slot)) eqn:Ea; [discriminate|].
    destruct (width =? 0); [discriminate|].
    match type of Hs with context [create_resource c v0 slot true ?k ?sb devreq imgUsage 0 usage flags req pref ctb pool] =>
      pose proof (create_resource_bind v0 slot true k sb devreq imgUsage 0 usage flags req pref ctb pool I0 Hok Ea) as P;
      destruct (create_resource c v0 slot true k sb devreq imgUsage 0 usage flags req pref ctb pool) as (v1 & r1) end.
    destruct r1 as [[]|code1| |]; cbn in Hs; try discriminate. injection Hs as <- <-. apply Hfin. apply P. exact Hdb.
Qed.

End WithCfg.

Section Reach.
Variable c : vcfg.
Hypothesis Ha : cfg_acct c.

Theorem create_bind_valid v o f v' calls :
  reachA c v -> op_ok v o -> step c v o f = (v', ROk, calls) ->
  match o with
  | OCreateBuf slot _ _ _ _ _ flags _ _ _ _ => fl flags F_DONTBIND = false -> bound_last v' slot false calls
  | OCreateImg slot _ _ _ _ _ flags _ _ _ _ => fl flags F_DONTBIND = false -> bound_last v' slot true calls
  | _ => True
  end.
Proof.
  intros R. apply (create_bind_step c (ca_ok c Ha)). exact (VamAcctStep.va_s _ _ _ _ (reachA_inv c Ha v R)).
Qed.

End Reach.
