(* VamDefragThm.v — the representation invariant along histories that contain defragmentation.

   reachD: allocator creation, then ordinary API calls (while no defragmentation pass is open) and the
   defragmentation calls BeginDefragmentation / BeginDefragPass / EndDefragPass / Finish, each with any fault
   oracle, for any bufferImageGranularity (a power of two up to 2^32: VamInv.cfg_ok).  Explicit in the relation:
     - an ordinary call while a pass is open must leave the Allocation objects of the pending moves alone (op_avoids);
     - BeginDefragPass is allowed only when no pass is open.
   The granularity bookkeeping of the TLSF blocks (VamGran.GV: what the planner's precondition DefragGranProofs.WFp needs beyond
   VamInv) is an invariant of these histories: reachD_gv.
   Results PANIC / STUCK end a history, as in reach. *)
From Coq Require Import ZArith NArith List Bool Lia Permutation.
From Arsenal Require Util Bits SyncMem Budget Select Pass PassProofs Defrag.
From Arsenal Require Import VamDev VamBlockList VamDefrag Vam VamInvMeta VamInv VamInvUpd VamInvDev VamInvStep VamInvStep2 VamInvThm
  VamProps VamGran VamDefragInv VamDefragStep VamDefragPass VamDefragGran.
Import ListNotations.
Open Scope Z_scope.

Definition drun_ok (v : vam) (run : option dfrun) : Prop := match run with Some rn => run_ok v rn | None => True end.
Definition drun_idle (run : option dfrun) : Prop := match run with Some rn => run_idle rn | None => True end.

(* the domain of a defragmentation call *)
Definition dop_ok (v : vam) (run : option dfrun) (o : dop) : Prop :=
  match o, run with
  | DPass, Some rn => run_idle rn
  | _, _ => True
  end.

Lemma mv_ok_grown v v' lr m : grown v v' -> mv_ok v lr m -> mv_ok v' lr m.
Proof.
  intros (_ & G) (a & b & Sa & Sb & R). exists a, b.
  split; [split; [rewrite G by (apply (slot_is_range _ _ _ Sa)); apply Sa|apply Sa]|].
  split; [split; [rewrite G by (apply (slot_is_range _ _ _ Sb)); apply Sb|apply Sb]|exact R].
Qed.

Lemma run_ok_grown v v' run : grown v v' -> run_ok v run -> run_ok v' run.
Proof.
  intros G (Hb & Ha & H). split; [exact Hb|]. split; [exact Ha|]. intros i dc Hn. destruct (H i dc Hn) as (H1 & H2). split; [|exact H2].
  intros E. destruct (H1 E) as (Hnd & Hf). split; [exact Hnd|]. eapply Forall_impl; [|exact Hf]. intros m. apply mv_ok_grown. exact G.
Qed.

Lemma tab_frame_grown v v' : tab_frame v v' [] -> grown v v'.
Proof. intros (E & F). split; [lia|]. intros s _. apply F. intros []. Qed.

Lemma grown_len v v' : grown v v' -> zlen (v_tab v) <= zlen (v_tab v').
Proof. intros (H & _). exact H. Qed.

Section WithCfg.
Variable c : vcfg.
Hypothesis Hc : cfg_ok c.

Definition dexec_post (v v' : vam) (run' : option dfrun) (r : out unit) : Prop :=
  match r with PANIC | STUCK => True | _ => VamInv c v' /\ drun_ok v' run' /\ zlen (v_tab v) <= zlen (v_tab v') end.

Lemma dexec_inv v run o :
  VamInv c v -> GV c v -> drun_ok v run -> dop_ok v run o ->
  let '(v', run', r, dr) := dexec c v run o in dexec_post v v' run' r.
Proof.
  intros HI HV Hr Hok. destruct o as [flags pool mb ma| |ds|]; cbn [dexec].
  - (* BeginDefragmentation *)
    pose proof (defrag_begin_inv c v flags pool mb ma HI) as P.
    assert (Hnew : forall v1 rn, defrag_begin c v flags pool mb ma = (v1, OK rn) -> run_idle rn /\ 0 <= dr_max_bytes rn /\ 0 <= dr_max_allocs rn).
    { unfold defrag_begin. destruct ((mb <? 0) || (ma <? 0)) eqn:E0; [discriminate|]. apply orb_false_iff in E0. destruct E0 as (E1 & E2).
      apply Z.ltb_ge in E1. apply Z.ltb_ge in E2.
      destruct (_ =? 3); [discriminate|]. destruct (match pool with Some uid => list_is_linear v (LPool uid) | None => false end); [discriminate|].
      destruct (negb _); [discriminate|]. intros v1 rn E. injection E as _ <-. cbn [dr_ctxs dr_max_bytes dr_max_allocs]. split; [|split].
      - intros i dc Hn. apply nth_z_in in Hn. apply in_map_iff in Hn. destruct Hn as (lr & <- & _). reflexivity.
      - destruct (mb =? 0); [unfold MAXINT; lia|lia].
      - destruct (ma =? 0); [unfold MAXINT; lia|lia]. }
    destruct (defrag_begin c v flags pool mb ma) as (v1 & r). destruct P as (I1 & T1 & L1).
    pose proof (tab_frame_grown _ _ T1) as G1.
    destruct r as [rn|code| |]; cbn; auto.
    + destruct (Hnew v1 rn eq_refl) as (A & B & C). split; [exact I1|]. split; [apply run_idle_ok; auto|apply grown_len; exact G1].
    + split; [exact I1|]. split; [|apply grown_len; exact G1]. destruct run as [rn|]; [eapply run_ok_grown; eauto|exact I].
  - (* BeginDefragPass *)
    destruct run as [rn|]; [|exact I]. pose proof Hok as Hidle.
    pose proof (defrag_pass_inv c v rn HI Hr Hidle HV) as P.
    destruct (defrag_pass c v rn) as ((v1 & rn') & r). destruct r as [mvs|code| |]; cbn; auto; [|contradiction].
    destruct P as (I1 & L1 & G1 & R1 & _). split; [exact I1|]. split; [exact R1|apply grown_len; exact G1].
  - (* EndDefragPass *)
    destruct run as [rn|]; [|exact I].
    pose proof (defrag_end_inv c v rn ds HI Hr) as P.
    destruct (defrag_end c v rn ds) as ((v1 & rn') & r). destruct r as [b|code| |]; cbn; auto; [|contradiction].
    destruct P as (I1 & Z1 & L1 & R1 & _). split; [exact I1|]. split; [exact R1|lia].
  - (* Finish *)
    destruct run as [rn|]; [|exact I].
    pose proof (defrag_finish_inv c v rn HI) as P. destruct (defrag_finish v rn) as (v1 & st). destruct P as (I1 & T1 & L1).
    pose proof (tab_frame_grown _ _ T1) as G1. cbn. split; [exact I1|]. split; [eapply run_ok_grown; eauto|apply grown_len; exact G1].
Qed.

(* the granularity bookkeeping through one defragmentation call *)
Lemma dexec_G v run o :
  VamInv c v -> GV c v -> drun_ok v run -> dop_ok v run o ->
  let '(v', run', r, dr) := dexec c v run o in match r with PANIC | STUCK => True | _ => GV c v' end.
Proof.
  intros HI HV Hr Hok. destruct o as [flags pool mb ma| |ds|]; cbn [dexec].
  - pose proof (defrag_begin_G c v flags pool mb ma HV) as P. destruct (defrag_begin c v flags pool mb ma) as (v1 & r). destruct r; exact P || exact I.
  - destruct run as [rn|]; [|exact I].
    pose proof (defrag_pass_inv c v rn HI Hr Hok HV) as P0. pose proof (defrag_pass_G c v rn) as P.
    destruct (defrag_pass c v rn) as ((v1 & rn') & r). destruct r as [mvs|code| |]; try exact I; [|contradiction].
    eapply P; eauto.
  - destruct run as [rn|]; [|exact I].
    pose proof (defrag_end_inv c v rn ds HI Hr) as P0. pose proof (defrag_end_G c v rn ds HI Hr HV) as P.
    destruct (defrag_end c v rn ds) as ((v1 & rn') & r). destruct r as [b|code| |]; try exact I; [exact P|contradiction].
  - destruct run as [rn|]; [|exact I]. pose proof (defrag_finish_G c v rn HV) as P. destruct (defrag_finish v rn) as (v1 & st). exact P.
Qed.

Lemma run_ok_set_m v m run : run_ok v run -> run_ok (set_m v m) run.
Proof. apply run_ok_grown. split; [cbn; lia|intros; reflexivity]. Qed.

(* one defragmentation call, any fault oracle *)
Theorem dstep_preserves v run o f :
  VamInv c v -> GV c v -> drun_ok v run -> dop_ok v run o ->
  let '(v', run', r, calls, dr) := dstep c v run o f in
  r <> RPanic -> r <> RStuck -> VamInv c v' /\ drun_ok v' run' /\ zlen (v_tab v) <= zlen (v_tab v').
Proof.
  intros HI HV Hr Hok. unfold dstep.
  set (v0 := set_m v (clear_calls (set_fault (v_m v) f 0))).
  assert (I0 : VamInv c v0).
  { unfold v0, VamInv. apply VamInvU_mach_same; [exact HI|]. split; cbn; [apply mems_same_refl|lia]. }
  assert (Hr0 : drun_ok v0 run) by (destruct run as [rn|]; [apply run_ok_set_m; exact Hr|exact I]).
  assert (Hok0 : dop_ok v0 run o).
  { destruct o; cbn in *; auto. }
  pose proof (dexec_inv v0 run o I0 (GR_set_m c v _ HV) Hr0 Hok0) as E. destruct (dexec c v0 run o) as (((v1 & run1) & r) & dr).
  intros Hp Hs. destruct r as [[]|code| |]; cbn in Hp, Hs; try congruence; cbn in E; destruct E as (A & B & C);
    (split; [unfold VamInv; apply VamInvU_mach_same; [exact A|split; cbn; [apply mems_same_refl|lia]]|];
     split; [destruct run1 as [rn1|]; [apply run_ok_set_m; exact B|exact I]|exact C]).
Qed.

Theorem dstep_G v run o f :
  VamInv c v -> GV c v -> drun_ok v run -> dop_ok v run o ->
  let '(v', run', r, calls, dr) := dstep c v run o f in r <> RPanic -> r <> RStuck -> GV c v'.
Proof.
  intros HI HV Hr Hok. unfold dstep.
  set (v0 := set_m v (clear_calls (set_fault (v_m v) f 0))).
  assert (I0 : VamInv c v0).
  { unfold v0, VamInv. apply VamInvU_mach_same; [exact HI|]. split; cbn; [apply mems_same_refl|lia]. }
  assert (Hr0 : drun_ok v0 run) by (destruct run as [rn|]; [apply run_ok_set_m; exact Hr|exact I]).
  assert (Hok0 : dop_ok v0 run o) by (destruct o; cbn in *; auto).
  pose proof (dexec_G v0 run o I0 (GR_set_m c v _ HV) Hr0 Hok0) as E. destruct (dexec c v0 run o) as (((v1 & run1) & r) & dr).
  intros Hp Hs. destruct r as [[]|code| |]; cbn in Hp, Hs; try congruence; apply GR_set_m; exact E.
Qed.

(* an ordinary API call *)
Theorem step_G v o f : VamInv c v -> GV c v -> GV c (fst (fst (step c v o f))).
Proof.
  intros HI HV. unfold step. set (v0 := set_m v (clear_calls (set_fault (v_m v) f 0))).
  assert (I0 : VamInv c v0).
  { unfold v0, VamInv. apply VamInvU_mach_same; [exact HI|]. split; cbn; [apply mems_same_refl|lia]. }
  pose proof (exec_G c Hc v0 o I0 (GR_set_m c v _ HV)) as E. destruct (exec c v0 o) as (v1 & r). cbn [fst] in *. apply GR_set_m. exact E.
Qed.

(* the Allocation objects of the pending moves (sources and temporaries) of an open pass *)
Definition pending_slots (run : option dfrun) : list Z :=
  match run with
  | Some rn => flat_map (fun dc => mv_slots (Defrag.c_moves (dc_ctx dc))) (dr_ctxs rn)
  | None => []
  end.

(* an ordinary API call while a pass may be open: it does not touch the objects of the pending moves *)
Definition op_avoids (run : option dfrun) (o : op) : Prop := forall s, In s (op_slots o) -> ~ In s (pending_slots run).

Lemma pending_in run s : In s (pending_slots run) ->
  exists rn i dc, run = Some rn /\ nth_z (dr_ctxs rn) i = Some dc /\ In s (mv_slots (Defrag.c_moves (dc_ctx dc))).
Proof.
  destruct run as [rn|]; [|intros []]. cbn. intros H. apply in_flat_map in H. destruct H as (dc & Hdc & Hs).
  destruct (In_nth_error _ _ Hdc) as (n & Hn). exists rn, (Z.of_nat n), dc. split; [reflexivity|]. split; [|exact Hs].
  unfold nth_z. destruct (Z.of_nat n <? 0) eqn:E; [apply Z.ltb_lt in E; lia|]. rewrite Nat2Z.id. exact Hn.
Qed.

Lemma in_pending rn i dc s : nth_z (dr_ctxs rn) i = Some dc -> In s (mv_slots (Defrag.c_moves (dc_ctx dc))) -> In s (pending_slots (Some rn)).
Proof. intros Hn Hs. cbn. apply in_flat_map. exists dc. split; [eapply nth_z_in; eauto|exact Hs]. Qed.

Lemma idle_avoids run o : drun_idle run -> op_avoids run o.
Proof.
  intros Hi s _ Hp. destruct (pending_in _ _ Hp) as (rn & i & dc & -> & Hn & Hs). cbn in Hi. rewrite (Hi _ _ Hn) in Hs. destruct Hs.
Qed.

(* the pending moves survive a call that leaves their objects alone *)
Lemma run_ok_avoid_frame v v' rn S :
  run_ok v rn -> tab_frame v v' S -> (forall s, In s S -> ~ In s (pending_slots (Some rn))) -> run_ok v' rn.
Proof.
  intros (Hb & Ha & Hr) T Hav. split; [exact Hb|]. split; [exact Ha|]. intros i dc Hn. destruct (Hr _ _ Hn) as (H1 & H2). split; [|exact H2].
  intros E. apply (moves_ok_frame v v' (dc_lr dc) S _ T); [|apply H1; exact E].
  intros s Hs Hin. apply (Hav s Hs). eapply in_pending; eauto.
Qed.

(* histories with defragmentation; ordinary calls may come while a pass is open *)
Inductive reachD : vam -> option dfrun -> Prop :=
| reachD_new nslots v : vam_new c nslots = OK v -> reachD v None
| reachD_step v run o f v' r calls :
    reachD v run -> op_avoids run o -> op_ok v o -> step c v o f = (v', r, calls) -> r <> RPanic -> r <> RStuck -> reachD v' run
| reachD_dstep v run o f v' run' r calls dr :
    reachD v run -> dop_ok v run o -> dstep c v run o f = (v', run', r, calls, dr) -> r <> RPanic -> r <> RStuck ->
    reachD v' run'.

Theorem reachD_inv_gv v run : reachD v run -> (VamInv c v /\ drun_ok v run) /\ GV c v.
Proof.
  intros R. induction R as [nslots v H|v run o f v' r calls R IH Hav Hok Hs Hp Hk|v run o f v' run' r calls dr R IH Hok Hs Hp Hk].
  - split; [split; [eapply vam_new_inv; eauto|exact I]|eapply vam_new_G; eauto].
  - destruct IH as ((HI & Hr) & HV). pose proof (step_preserves c Hc v o f HI Hok) as P. rewrite Hs in P. destruct (P Hp Hk) as (I1 & _).
    pose proof (step_frame c Hc v o f HI Hok) as F. rewrite Hs in F. specialize (F Hp Hk).
    pose proof (step_G v o f HI HV) as V1. rewrite Hs in V1. cbn [fst] in V1.
    split; [|exact V1]. split; [exact I1|]. destruct run as [rn|]; [|exact I]. eapply run_ok_avoid_frame; eauto.
  - destruct IH as ((HI & Hr) & HV). pose proof (dstep_preserves v run o f HI HV Hr Hok) as P. rewrite Hs in P. destruct (P Hp Hk) as (I1 & R1 & _).
    pose proof (dstep_G v run o f HI HV Hr Hok) as V1. rewrite Hs in V1. auto.
Qed.

Theorem reachD_inv v run : reachD v run -> VamInv c v /\ drun_ok v run.
Proof. intros R. apply (reachD_inv_gv v run R). Qed.

(* the granularity bookkeeping of every TLSF block is sound in every state of every history *)
Theorem reachD_gv v run : reachD v run -> GV c v.
Proof. intros R. apply (reachD_inv_gv v run R). Qed.

(* the domain condition of BeginDefragPass is "no pass is open" (kept under its name from when granularity 1 was required) *)
Lemma dop_ok_eff v run o : eff_granularity c = 1 -> VamInv c v -> drun_idle run -> dop_ok v run o.
Proof. intros _ _ Hi. destruct o; cbn; auto; destruct run as [rn|]; auto. Qed.

(* BeginDefragmentation returns a context without pending moves *)
Lemma defrag_begin_idle v flags pool mb ma v1 rn : defrag_begin c v flags pool mb ma = (v1, OK rn) -> run_idle rn.
Proof.
  unfold defrag_begin. destruct (_ || _); [discriminate|]. destruct (_ =? 3); [discriminate|].
  destruct (match pool with Some uid => list_is_linear v (LPool uid) | None => false end); [discriminate|].
  destruct (negb _); [discriminate|]. intros E. injection E as _ <-. cbn [dr_ctxs].
  intros i dc Hn. apply nth_z_in in Hn. apply in_map_iff in Hn. destruct Hn as (lr & <- & _). reflexivity.
Qed.

(* every history without defragmentation is one with *)
Lemma reach_reachD v : reach c v -> reachD v None.
Proof.
  intros R. induction R as [nslots v H|v o f v' r calls R IH Hok Hs Hp Hk]; [eapply reachD_new; eauto|].
  eapply reachD_step; eauto. apply idle_avoids. exact I.
Qed.

End WithCfg.
