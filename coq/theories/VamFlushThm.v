(* VamFlushThm.v — C08: flush/invalidate never panics and uses valid ranges, on every reachable state (with or
   without an open defragmentation).  Configuration domain: nonCoherentAtomSize >= 1. *)
From Coq Require Import ZArith List Bool Lia.
From Arsenal Require Import Util Bits VamDev VamBlockList Vam VamInvMeta VamInv VamInvUpd VamInvDev VamInvStep VamInvStep2.
From Arsenal Require Import VamAcct VamAcctStep VamAcctThm VamMap VamFlush VamDefrag VamDefragThm VamDefragAcct.
Import ListNotations.
Open Scope Z_scope.

(* the same on reachable states, with or without an open defragmentation *)
Section Reach.
Variable c : vcfg.
Hypothesis Ha : cfg_acct c.
Let Hc := ca_ok c Ha.
Let Hatom := ca_atom c Ha.

Theorem flush_never_panics v inval s off size f v' r calls :
  reachA c v -> step c v (OFlush inval s off size) f = (v', r, calls) ->
  r <> RPanic /\ r <> RStuck /\ flushes_ok c (m_mems (v_m v)) calls.
Proof.
  intros R Hs. pose proof (VamAcctStep.va_s _ _ _ _ (reachA_inv c Ha v R)) as HI.
  destruct (flush_step_valid c Hc Hatom _ _ _ _ _ _ _ _ _ HI Hs) as (P1 & P2 & _).
  split; [exact P1|]. split; [exact P2|]. eapply flush_step_calls_ok; eauto.
Qed.

Theorem flush_never_panics_defrag v run inval s off size f v' r calls :
  reachDA c v run -> step c v (OFlush inval s off size) f = (v', r, calls) ->
  r <> RPanic /\ r <> RStuck /\ flushes_ok c (m_mems (v_m v)) calls.
Proof.
  intros R Hs. pose proof (VamAcctStep.va_s _ _ _ _ (proj1 (reachDA_inv c Ha v run R))) as HI.
  destruct (flush_step_valid c Hc Hatom _ _ _ _ _ _ _ _ _ HI Hs) as (P1 & P2 & _).
  split; [exact P1|]. split; [exact P2|]. eapply flush_step_calls_ok; eauto.
Qed.

(* BindBufferMemory / BindImageMemory on a reachable state: never panics; the driver is called with the allocation's
   live memory object and the offset = caller's offset + the allocation's offset inside that object *)
Theorem bind_never_panics v s image res off f v' r calls :
  reachA c v -> step c v (OBind s image res off) f = (v', r, calls) ->
  r <> RPanic /\ r <> RStuck /\
  (calls = [] \/
   exists o code d, calls = [CBind image res (a_mem (get_alloc v s)) (off + o) code] /\ a_allocated (get_alloc v s) = true /\
     find_offset v (get_alloc v s) = Some o /\ find_mem (m_mems (v_m v)) (a_mem (get_alloc v s)) = Some d /\
     0 <= o /\ o + a_size (get_alloc v s) <= dm_size d /\ (a_kind (get_alloc v s) = 1 -> o mod a_align (get_alloc v s) = 0)).
Proof.
  intros R Hs. pose proof (VamAcctStep.va_s _ _ _ _ (reachA_inv c Ha v R)) as HI.
  exact (bind_step_valid c v s image res off f v' r calls HI Hs).
Qed.

Theorem bind_never_panics_defrag v run s image res off f v' r calls :
  reachDA c v run -> step c v (OBind s image res off) f = (v', r, calls) ->
  r <> RPanic /\ r <> RStuck /\
  (calls = [] \/
   exists o code d, calls = [CBind image res (a_mem (get_alloc v s)) (off + o) code] /\ a_allocated (get_alloc v s) = true /\
     find_offset v (get_alloc v s) = Some o /\ find_mem (m_mems (v_m v)) (a_mem (get_alloc v s)) = Some d /\
     0 <= o /\ o + a_size (get_alloc v s) <= dm_size d /\ (a_kind (get_alloc v s) = 1 -> o mod a_align (get_alloc v s) = 0)).
Proof.
  intros R Hs. pose proof (VamAcctStep.va_s _ _ _ _ (proj1 (reachDA_inv c Ha v run R))) as HI.
  exact (bind_step_valid c v s image res off f v' r calls HI Hs).
Qed.

End Reach.
