(* BudgetProofs.v — theorems about the budget counters (Budget.v), for ALL operation sequences that
   respect the API domain (free/remove only what was allocated/added, no integer overflow):
     counters_equal_truth        the counters equal the ghost truth (also after failed allocations)
     heap_limit_respected        blockBytes h <= min (limit h) (heapSize h) whenever limit h > 0
     count_limit_respected       memoryCount <= maxMemoryAllocationCount
     no_panic_in_domain          no step panics
     usage_formula               HeapBudget's usage without the extension = blockBytes = truth
     cas_limit_all_interleavings the CAS loop respects the limit under EVERY interleaving *)
From Coq Require Import ZArith List Bool Lia.
From Arsenal Require Import Budget.
Import ListNotations.
Open Scope Z_scope.

(* ------------------------------------------------------------------ wrapping *)

Lemma wrap_i64_id x : -9223372036854775808 <= x < 9223372036854775808 -> wrap_i64 x = x.
Proof. intros H. unfold wrap_i64. rewrite Z.mod_small; lia. Qed.

Lemma wrap_i32_id x : -2147483648 <= x < 2147483648 -> wrap_i32 x = x.
Proof. intros H. unfold wrap_i32. rewrite Z.mod_small; lia. Qed.

Lemma wrap_u32_id x : 0 <= x < 4294967296 -> wrap_u32 x = x.
Proof. intros H. unfold wrap_u32. apply Z.mod_small. exact H. Qed.

Lemma dec_u32_pred x : 1 <= x < 4294967296 -> dec_u32 x = x - 1.
Proof.
  intros H. unfold dec_u32, wrap_u32.
  replace (x + 4294967295) with ((x - 1) + 1 * 4294967296) by lia.
  rewrite Z_mod_plus_full. apply Z.mod_small. lia.
Qed.

Local Opaque wrap_i64 wrap_i32 wrap_u32 dec_u32.

(* ------------------------------------------------------------------ ghost truth *)

(* live memory objects and live allocations, each as (heap, size) *)
Record ghost := mkG { g_mems : list (Z * Z); g_allocs : list (Z * Z) }.
Definition g0 : ghost := mkG [] [].

Fixpoint cnt (l : list (Z * Z)) (h : Z) : Z :=
  match l with
  | [] => 0
  | (h', _) :: tl => (if h' =? h then 1 else 0) + cnt tl h
  end.

Fixpoint sum (l : list (Z * Z)) (h : Z) : Z :=
  match l with
  | [] => 0
  | (h', sz) :: tl => (if h' =? h then sz else 0) + sum tl h
  end.

Definition len (l : list (Z * Z)) : Z := Z.of_nat (length l).

Definition pair_eqb (x y : Z * Z) : bool := (fst x =? fst y) && (snd x =? snd y).

Fixpoint mem_in (x : Z * Z) (l : list (Z * Z)) : bool :=
  match l with
  | [] => false
  | y :: tl => pair_eqb x y || mem_in x tl
  end.

Fixpoint remove1 (x : Z * Z) (l : list (Z * Z)) : list (Z * Z) :=
  match l with
  | [] => []
  | y :: tl => if pair_eqb x y then tl else y :: remove1 x tl
  end.

Definition g_upd (g : ghost) (o : bop) (r : bres) : ghost :=
  match o, r with
  | OAllocMem h sz _, BOk => mkG ((h, sz) :: g_mems g) (g_allocs g)
  | OFreeMem h sz, BOk => mkG (remove1 (h, sz) (g_mems g)) (g_allocs g)
  | OAddAlloc h sz, BOk => mkG (g_mems g) ((h, sz) :: g_allocs g)
  | ORemoveAlloc h sz, BOk => mkG (g_mems g) (remove1 (h, sz) (g_allocs g))
  | _, _ => g
  end.

(* the API domain of one operation, given the truth so far *)
Definition bop_ok (g : ghost) (o : bop) : bool :=
  match o with
  | OAllocMem h sz _ =>
    (0 <=? sz) && (sum (g_mems g) h + sz <? 9223372036854775808) && (len (g_mems g) + 1 <? 2147483648)
  | OFreeMem h sz => mem_in (h, sz) (g_mems g)
  | OAddAlloc h sz =>
    (0 <=? sz) && (sum (g_allocs g) h + sz <? 9223372036854775808) && (cnt (g_allocs g) h + 1 <? 2147483648)
  | ORemoveAlloc h sz => mem_in (h, sz) (g_allocs g)
  | OHeapBudget _ _ => true
  end.

(* run: final state, final truth, results *)
Fixpoint brun (cfg : bcfg) (s : bstate) (g : ghost) (ops : list bop) : bstate * ghost * list bres :=
  match ops with
  | [] => (s, g, [])
  | o :: tl =>
    let '(s', r, _) := bstep cfg s o in
    let '(sf, gf, rs) := brun cfg s' (g_upd g o r) tl in
    (sf, gf, r :: rs)
  end.

Fixpoint in_bdomain_from (cfg : bcfg) (s : bstate) (g : ghost) (ops : list bop) : bool :=
  match ops with
  | [] => true
  | o :: tl =>
    bop_ok g o && let '(s', r, _) := bstep cfg s o in in_bdomain_from cfg s' (g_upd g o r) tl
  end.

Definition in_bdomain (cfg : bcfg) (rep0 : Z -> Z * Z) (ops : list bop) : bool :=
  in_bdomain_from cfg (binit cfg rep0) g0 ops.

(* ------------------------------------------------------------------ list facts *)

Definition nonneg (x : Z * Z) : Prop := 0 <= snd x.

Lemma sum_nonneg l h : Forall nonneg l -> 0 <= sum l h.
Proof.
  induction 1 as [|[h' sz] tl Hx _ IH]; cbn [sum]; [lia|].
  unfold nonneg in Hx; cbn in Hx. destruct (h' =? h); lia.
Qed.

Lemma cnt_nonneg l h : 0 <= cnt l h.
Proof. induction l as [|[h' sz] tl IH]; cbn [cnt]; [lia|]. destruct (h' =? h); lia. Qed.

Lemma cnt_le_len l h : cnt l h <= len l.
Proof.
  unfold len. induction l as [|[h' sz] tl IH]; cbn [cnt length]; [lia|].
  rewrite Nat2Z.inj_succ. destruct (h' =? h); lia.
Qed.

Lemma pair_eqb_eq x y : pair_eqb x y = true -> x = y.
Proof.
  destruct x, y. unfold pair_eqb; cbn. intros H. apply andb_prop in H. destruct H as [A B].
  apply Z.eqb_eq in A. apply Z.eqb_eq in B. congruence.
Qed.

Lemma remove1_spec x l :
  mem_in x l = true ->
  (forall h, cnt (remove1 x l) h = cnt l h - (if fst x =? h then 1 else 0)) /\
  (forall h, sum (remove1 x l) h = sum l h - (if fst x =? h then snd x else 0)) /\
  len (remove1 x l) = len l - 1 /\
  (Forall nonneg l -> Forall nonneg (remove1 x l)).
Proof.
  induction l as [|y tl IH]; cbn [mem_in remove1]; [discriminate|].
  intros H. destruct (pair_eqb x y) eqn:E.
  - apply pair_eqb_eq in E. subst y. destruct x as [hx sx]. cbn [fst snd cnt sum].
    split; [intros h; lia|]. split; [intros h; lia|].
    split; [unfold len; cbn [length]; lia|]. intros HF. inversion HF; assumption.
  - cbn [orb] in H. destruct (IH H) as [A [B [C D]]]. destruct y as [hy sy]. cbn [cnt sum].
    split; [intros h; rewrite A; lia|]. split; [intros h; rewrite B; lia|].
    split; [unfold len in *; cbn [length]; lia|].
    intros HF. inversion HF; subst. constructor; [assumption|apply D; assumption].
Qed.

Lemma mem_in_bounds x l :
  mem_in x l = true -> Forall nonneg l ->
  0 <= snd x /\ snd x <= sum l (fst x) /\ 1 <= cnt l (fst x) /\ 1 <= len l.
Proof.
  intros H HF. destruct (remove1_spec x l H) as [A [B [C D]]].
  pose proof (sum_nonneg _ (fst x) (D HF)) as H1. rewrite B, Z.eqb_refl in H1.
  pose proof (cnt_nonneg (remove1 x l) (fst x)) as H2. rewrite A, Z.eqb_refl in H2.
  assert (H3 : 0 <= len (remove1 x l)) by (unfold len; lia).
  assert (H4 : 0 <= snd x).
  { clear - H HF. induction l as [|y tl IH]; cbn [mem_in] in H; [discriminate|].
    inversion HF; subst. destruct (pair_eqb x y) eqn:E.
    - apply pair_eqb_eq in E. subst y. assumption.
    - apply IH; assumption. }
  lia.
Qed.

(* ------------------------------------------------------------------ the invariant *)

Record BInv (s : bstate) (g : ghost) : Prop := mkBInv {
  i_heaps : forall h, heaps s h =
            mkHc (cnt (g_mems g) h) (cnt (g_allocs g) h) (sum (g_mems g) h) (sum (g_allocs g) h);
  i_mc : memCount s = len (g_mems g);
  i_nn_m : Forall nonneg (g_mems g);
  i_nn_a : Forall nonneg (g_allocs g);
  i_b_sum_m : forall h, sum (g_mems g) h < 9223372036854775808;
  i_b_len_m : len (g_mems g) < 2147483648;
  i_b_sum_a : forall h, sum (g_allocs g) h < 9223372036854775808;
  i_b_cnt_a : forall h, cnt (g_allocs g) h < 2147483648
}.

Definition Lim (cfg : bcfg) (g : ghost) : Prop :=
  forall h, 0 < heapLimit cfg h -> 0 <= heapSize cfg h ->
            sum (g_mems g) h <= Z.min (heapLimit cfg h) (heapSize cfg h).

Definition Cnt (cfg : bcfg) (g : ghost) : Prop :=
  0 <= maxCount cfg -> len (g_mems g) <= maxCount cfg.

Lemma upd_same {A} (f : Z -> A) h v : upd f h v h = v.
Proof. unfold upd. rewrite Z.eqb_refl. reflexivity. Qed.

Lemma upd_other {A} (f : Z -> A) h v x : x <> h -> upd f h v x = f x.
Proof. intros H. unfold upd. apply Z.eqb_neq in H. rewrite H. reflexivity. Qed.

Lemma binv_init cfg rep : BInv (binit cfg rep) g0.
Proof.
  unfold binit. destruct (budgetExt cfg); constructor; cbn; intros; try reflexivity;
    try constructor; try lia; unfold len; cbn; lia.
Qed.

(* removeBlockAllocation gives back exactly what was reserved, without panic *)
Lemma remove_block_exact s h sz c :
  heaps s h = c -> 0 <= sz <= bb c -> bb c < 9223372036854775808 -> 1 <= bc c < 2147483648 ->
  exists s', remove_block s h sz = (s', false) /\
             (forall x, heaps s' x = if x =? h then mkHc (bc c - 1) (ac c) (bb c - sz) (ab c) else heaps s x) /\
             memCount s' = memCount s /\ opsSince s' = opsSince s.
Proof.
  intros Hc Hsz Hbb Hbc. unfold remove_block. rewrite Hc.
  rewrite (wrap_i64_id (- sz)) by lia. rewrite (wrap_i64_id (bb c + - sz)) by lia.
  destruct (bb c + - sz <? 0) eqn:E1; [apply Z.ltb_lt in E1; lia|].
  cbn [set_heap heaps]. rewrite upd_same. cbn [set_bb bc].
  rewrite (wrap_i32_id (bc c - 1)) by lia.
  destruct (bc c - 1 <? 0) eqn:E2; [apply Z.ltb_lt in E2; lia|].
  eexists. split; [reflexivity|]. cbn [heaps memCount opsSince set_heap set_bc set_bb bc ac bb ab].
  split; [|split; reflexivity].
  intros x. unfold upd. destruct (x =? h); [|reflexivity].
  unfold set_bc, set_bb; cbn [bc ac bb ab]. f_equal; lia.
Qed.

Lemma bstep_inv cfg s g o s' r cs :
  BInv s g -> Lim cfg g -> Cnt cfg g -> bop_ok g o = true ->
  bstep cfg s o = (s', r, cs) ->
  BInv s' (g_upd g o r) /\ Lim cfg (g_upd g o r) /\ Cnt cfg (g_upd g o r) /\ r <> BPanic.
Proof.
  intros HI HL HC Hok H.
  destruct HI as [Hh Hmc Hnm Hna Hbsm Hblm Hbsa Hbca].
  destruct o as [h sz f|h sz|h sz|h sz|h rep]; cbn [bstep] in H; cbn [bop_ok] in Hok.
  - (* AllocateVulkanMemory *)
    apply andb_prop in Hok. destruct Hok as [Hok Hl]. apply andb_prop in Hok. destruct Hok as [H0 Hs].
    apply Z.leb_le in H0. apply Z.ltb_lt in Hs. apply Z.ltb_lt in Hl.
    pose proof (sum_nonneg _ h Hnm) as Hsn. pose proof (cnt_nonneg (g_mems g) h) as Hcn.
    pose proof (cnt_le_len (g_mems g) h) as Hcl.
    assert (Hlen0 : 0 <= len (g_mems g)) by (unfold len; lia).
    unfold alloc_mem in H. rewrite Hmc in H.
    rewrite (wrap_u32_id (len (g_mems g) + 1)) in H by lia.
    cbn [set_memCount memCount heaps] in H.
    rewrite (dec_u32_pred (len (g_mems g) + 1)) in H by lia.
    replace (len (g_mems g) + 1 - 1) with (len (g_mems g)) in H by lia.
    assert (Hsame : BInv (mkB (heaps s) (len (g_mems g)) (opsSince s) (vUsage s) (vBudget s) (bbAtFetch s)) g).
    { constructor; cbn; auto. }
    destruct (maxCount cfg <? len (g_mems g) + 1) eqn:Emax.
    { inversion H; subst. cbn [g_upd]. repeat split; auto. discriminate. }
    apply Z.ltb_ge in Emax.
    rewrite Hh in H. cbn [bb bc set_bb set_bc ac ab] in H.
    rewrite (wrap_i64_id (sum (g_mems g) h + sz)) in H by lia.
    rewrite (wrap_i32_id (cnt (g_mems g) h + 1)) in H by lia.
    (* the state after a successful reservation *)
    set (s2 := set_heap (mkB (heaps s) (len (g_mems g) + 1) (opsSince s) (vUsage s) (vBudget s) (bbAtFetch s)) h
                        (mkHc (cnt (g_mems g) h + 1) (cnt (g_allocs g) h) (sum (g_mems g) h + sz) (sum (g_allocs g) h))) in *.
    assert (Hres : forall (limit_ok : 0 < heapLimit cfg h -> 0 <= heapSize cfg h ->
                                      sum (g_mems g) h + sz <= Z.min (heapLimit cfg h) (heapSize cfg h)),
               (if f
                then let '(s3, p) := remove_block s2 h sz in
                     (set_memCount s3 (dec_u32 (memCount s3)), if p then BPanic else BErrDriver, [BAlloc false])
                else (set_ops s2 (wrap_u32 (opsSince s2 + 1)), BOk, [BAlloc true])) = (s', r, cs) ->
               BInv s' (g_upd g (OAllocMem h sz f) r) /\ Lim cfg (g_upd g (OAllocMem h sz f) r) /\
               Cnt cfg (g_upd g (OAllocMem h sz f) r) /\ r <> BPanic).
    { intros Hlim H'. destruct f.
      - (* the driver fails: exact rollback *)
        destruct (remove_block_exact s2 h sz _ (upd_same _ _ _)) as [s3 [E [Eh [Em _]]]];
          cbn [bb bc]; try lia.
        rewrite E in H'. inversion H'; subst s' r cs; clear H'. cbn [g_upd].
        split; [|repeat split; auto; discriminate].
        constructor; auto.
        + intros x. cbn [set_memCount heaps]. rewrite Eh. destruct (x =? h) eqn:Ex.
          * apply Z.eqb_eq in Ex. subst x. cbn [bc ac bb ab]. f_equal; lia.
          * unfold s2. cbn [set_heap heaps]. unfold upd. rewrite Ex. apply Hh.
        + cbn [set_memCount memCount]. rewrite Em. unfold s2. cbn [set_heap memCount].
          rewrite dec_u32_pred by lia. lia.
      - (* success *)
        inversion H'; subst s' r cs; clear H'. cbn [g_upd].
        split.
        { constructor; cbn [g_mems g_allocs]; auto.
          - intros x. unfold s2. cbn [set_ops set_heap heaps]. unfold upd. cbn [cnt sum].
            destruct (x =? h) eqn:Ex.
            + apply Z.eqb_eq in Ex. subst x. rewrite Z.eqb_refl. f_equal; lia.
            + rewrite Z.eqb_sym in Ex. rewrite Ex. rewrite Hh. f_equal; lia.
          - unfold s2. cbn [set_ops set_heap memCount]. unfold len. cbn [length]. unfold len in *. lia.
          - intros x. cbn [sum]. destruct (h =? x) eqn:Ex.
            + apply Z.eqb_eq in Ex. subst x. lia.
            + specialize (Hbsm x). lia.
          - unfold len in *. cbn [length]. lia. }
        split.
        { intros x Hpos Hhs. cbn [g_mems sum]. destruct (h =? x) eqn:Ex.
          - apply Z.eqb_eq in Ex. subst x. specialize (Hlim Hpos Hhs). lia.
          - specialize (HL x Hpos Hhs). lia. }
        split; [|discriminate].
        intros Hm. cbn [g_mems]. unfold len in *. cbn [length]. lia. }
    destruct (heapLimit cfg h =? 0) eqn:El.
    + apply Z.eqb_eq in El. apply Hres; [|exact H]. intros Hpos. lia.
    + destruct (heapSize cfg h <? heapLimit cfg h) eqn:Ehs.
      * apply Z.ltb_lt in Ehs.
        destruct (heapSize cfg h <? sum (g_mems g) h + sz) eqn:Et.
        { inversion H; subst. cbn [g_upd]. repeat split; auto. discriminate. }
        apply Z.ltb_ge in Et. apply Hres; [|exact H]. intros _ _. lia.
      * apply Z.ltb_ge in Ehs.
        destruct (heapLimit cfg h <? sum (g_mems g) h + sz) eqn:Et.
        { inversion H; subst. cbn [g_upd]. repeat split; auto. discriminate. }
        apply Z.ltb_ge in Et. apply Hres; [|exact H]. intros _ _. lia.
  - (* FreeVulkanMemory *)
    destruct (mem_in_bounds _ _ Hok Hnm) as [B0 [B1 [B2 B3]]]. cbn [fst snd] in *.
    destruct (remove1_spec _ _ Hok) as [R1 [R2 [R3 R4]]]. cbn [fst snd] in *.
    pose proof (cnt_le_len (g_mems g) h) as Hcl.
    unfold free_mem in H.
    destruct (remove_block_exact s h sz _ (Hh h)) as [s3 [E [Eh [Em _]]]]; cbn [bb bc]; try lia.
    { specialize (Hbsm h). lia. }
    rewrite E in H. inversion H; subst s' r cs; clear H. cbn [g_upd].
    split.
    { constructor; cbn [g_mems g_allocs]; auto.
      - intros x. cbn [set_memCount heaps]. rewrite Eh, R1, R2. rewrite (Z.eqb_sym x h).
        destruct (h =? x) eqn:Ex.
        + apply Z.eqb_eq in Ex. subst x. cbn [bc ac bb ab]. f_equal; lia.
        + rewrite Hh. f_equal; lia.
      - cbn [set_memCount memCount]. rewrite Em, Hmc, R3. apply dec_u32_pred. lia.
      - intros x. rewrite R2. specialize (Hbsm x). destruct (h =? x); lia.
      - lia. }
    split.
    { intros x Hpos Hhs. cbn [g_mems]. rewrite R2. specialize (HL x Hpos Hhs). destruct (h =? x); lia. }
    split; [|discriminate].
    intros Hm. cbn [g_mems]. specialize (HC Hm). lia.
  - (* AddAllocation *)
    apply andb_prop in Hok. destruct Hok as [Hok Hl]. apply andb_prop in Hok. destruct Hok as [H0 Hs].
    apply Z.leb_le in H0. apply Z.ltb_lt in Hs. apply Z.ltb_lt in Hl.
    pose proof (sum_nonneg _ h Hna) as Hsn. pose proof (cnt_nonneg (g_allocs g) h) as Hcn.
    unfold add_alloc in H. rewrite Hh in H. cbn [ab ac set_ab set_ac bc bb] in H.
    rewrite (wrap_i64_id (sum (g_allocs g) h + sz)) in H by lia.
    rewrite (wrap_i32_id (cnt (g_allocs g) h + 1)) in H by lia.
    inversion H; subst s' r cs; clear H. cbn [g_upd].
    split; [|repeat split; auto; discriminate].
    assert (Hco : forall x, heaps (count_op cfg x) = heaps x /\ memCount (count_op cfg x) = memCount x).
    { intros x. unfold count_op. destruct (budgetExt cfg); cbn; auto. }
    constructor; cbn [g_mems g_allocs]; auto.
    + intros x. rewrite (proj1 (Hco _)). cbn [set_heap heaps]. unfold upd. cbn [cnt sum].
      destruct (x =? h) eqn:Ex.
      * apply Z.eqb_eq in Ex. subst x. rewrite Z.eqb_refl.
        unfold set_ac, set_ab; cbn [bc ac bb ab]. f_equal; lia.
      * rewrite Z.eqb_sym in Ex. rewrite Ex. rewrite Hh. f_equal; lia.
    + rewrite (proj2 (Hco _)). cbn [set_heap memCount]. exact Hmc.
    + intros x. cbn [sum]. destruct (h =? x) eqn:Ex.
      * apply Z.eqb_eq in Ex. subst x. lia.
      * specialize (Hbsa x). lia.
    + intros x. cbn [cnt]. destruct (h =? x) eqn:Ex.
      * apply Z.eqb_eq in Ex. subst x. lia.
      * specialize (Hbca x). lia.
  - (* RemoveAllocation *)
    destruct (mem_in_bounds _ _ Hok Hna) as [B0 [B1 [B2 B3]]]. cbn [fst snd] in *.
    destruct (remove1_spec _ _ Hok) as [R1 [R2 [R3 R4]]]. cbn [fst snd] in *.
    pose proof (Hbsa h) as Hbs. pose proof (Hbca h) as Hbc.
    unfold remove_alloc in H. rewrite Hh in H. cbn [ab ac set_ab set_ac bc bb] in H.
    rewrite (wrap_i64_id (- sz)) in H by lia.
    rewrite (wrap_i64_id (sum (g_allocs g) h + - sz)) in H by lia.
    destruct (sum (g_allocs g) h + - sz <? 0) eqn:E1; [apply Z.ltb_lt in E1; lia|].
    cbn [set_heap heaps] in H. rewrite upd_same in H.
    unfold set_ab, set_ac in H. cbn [ac bc bb ab] in H.
    rewrite (wrap_i32_id (cnt (g_allocs g) h - 1)) in H by lia.
    destruct (cnt (g_allocs g) h - 1 <? 0) eqn:E2; [apply Z.ltb_lt in E2; lia|].
    inversion H; subst s' r cs; clear H. cbn [g_upd].
    split; [|repeat split; auto; discriminate].
    assert (Hco : forall x, heaps (count_op cfg x) = heaps x /\ memCount (count_op cfg x) = memCount x).
    { intros x. unfold count_op. destruct (budgetExt cfg); cbn; auto. }
    constructor; cbn [g_mems g_allocs]; auto.
    + intros x. rewrite (proj1 (Hco _)). cbn [heaps set_heap]. unfold upd. rewrite R1, R2.
      rewrite (Z.eqb_sym x h). destruct (h =? x) eqn:Ex.
      * apply Z.eqb_eq in Ex. subst x. f_equal; lia.
      * rewrite Hh. f_equal; lia.
    + rewrite (proj2 (Hco _)). cbn [memCount]. exact Hmc.
    + intros x. rewrite R2. specialize (Hbsa x). destruct (h =? x); lia.
    + intros x. rewrite R1. specialize (Hbca x). destruct (h =? x); lia.
  - (* HeapBudget *)
    unfold heap_budget in H. inversion H; subst s' r cs; clear H. cbn [g_upd].
    split; [|repeat split; auto; discriminate].
    destruct (budgetExt cfg && (30 <? opsSince s)); constructor; cbn; auto.
Qed.

(* ------------------------------------------------------------------ all histories *)

Lemma brun_inv cfg : forall ops s g,
  BInv s g -> Lim cfg g -> Cnt cfg g -> in_bdomain_from cfg s g ops = true ->
  BInv (fst (fst (brun cfg s g ops))) (snd (fst (brun cfg s g ops))) /\
  Lim cfg (snd (fst (brun cfg s g ops))) /\ Cnt cfg (snd (fst (brun cfg s g ops))) /\
  ~ In BPanic (snd (brun cfg s g ops)).
Proof.
  induction ops as [|o tl IH]; intros s g HI HL HC Hd.
  - cbn. split; [exact HI|]. split; [exact HL|]. split; [exact HC|]. intros [].
  - cbn [in_bdomain_from] in Hd. apply andb_prop in Hd. destruct Hd as [Hok Hd].
    cbn [brun]. destruct (bstep cfg s o) as [[s' r] cs] eqn:Es.
    destruct (bstep_inv _ _ _ _ _ _ _ HI HL HC Hok Es) as [A [B [C D]]].
    specialize (IH s' (g_upd g o r) A B C Hd).
    destruct (brun cfg s' (g_upd g o r) tl) as [[sf gf] rs]. cbn [fst snd] in *.
    destruct IH as [A' [B' [C' D']]]. split; [exact A'|]. split; [exact B'|]. split; [exact C'|].
    intros [Hc|Hc]; [congruence|exact (D' Hc)].
Qed.

Definition bfinal cfg rep0 ops : bstate := fst (fst (brun cfg (binit cfg rep0) g0 ops)).
Definition btruth cfg rep0 ops : ghost := snd (fst (brun cfg (binit cfg rep0) g0 ops)).
Definition bresults cfg rep0 ops : list bres := snd (brun cfg (binit cfg rep0) g0 ops).

Lemma lim0 cfg : Lim cfg g0.
Proof. intros h Hp Hs. cbn. lia. Qed.

Lemma cnt0 cfg : Cnt cfg g0.
Proof. intros H. cbn. exact H. Qed.

Theorem counters_equal_truth cfg rep0 ops :
  in_bdomain cfg rep0 ops = true ->
  let s := bfinal cfg rep0 ops in
  let g := btruth cfg rep0 ops in
  (forall h, bc (heaps s h) = cnt (g_mems g) h /\ bb (heaps s h) = sum (g_mems g) h /\
             ac (heaps s h) = cnt (g_allocs g) h /\ ab (heaps s h) = sum (g_allocs g) h) /\
  memCount s = len (g_mems g).
Proof.
  intros H s g.
  destruct (brun_inv cfg ops _ _ (binv_init cfg rep0) (lim0 cfg) (cnt0 cfg) H) as [A _].
  split; [|apply (i_mc _ _ A)].
  intros h. unfold s, g, bfinal, btruth. rewrite (i_heaps _ _ A h). cbn [bc ac bb ab]. auto.
Qed.

Theorem heap_limit_respected cfg rep0 ops h :
  in_bdomain cfg rep0 ops = true ->
  0 < heapLimit cfg h -> 0 <= heapSize cfg h ->
  bb (heaps (bfinal cfg rep0 ops) h) <= Z.min (heapLimit cfg h) (heapSize cfg h) /\
  sum (g_mems (btruth cfg rep0 ops)) h <= Z.min (heapLimit cfg h) (heapSize cfg h).
Proof.
  intros H Hp Hs.
  destruct (brun_inv cfg ops _ _ (binv_init cfg rep0) (lim0 cfg) (cnt0 cfg) H) as [A [B _]].
  unfold bfinal, btruth. rewrite (i_heaps _ _ A h). cbn [bb]. split; apply (B h Hp Hs).
Qed.

Theorem count_limit_respected cfg rep0 ops :
  in_bdomain cfg rep0 ops = true -> 0 <= maxCount cfg ->
  memCount (bfinal cfg rep0 ops) <= maxCount cfg /\
  len (g_mems (btruth cfg rep0 ops)) <= maxCount cfg.
Proof.
  intros H Hm.
  destruct (brun_inv cfg ops _ _ (binv_init cfg rep0) (lim0 cfg) (cnt0 cfg) H) as [A [_ [C _]]].
  unfold bfinal, btruth. rewrite (i_mc _ _ A). split; apply (C Hm).
Qed.

Theorem no_panic_in_domain cfg rep0 ops :
  in_bdomain cfg rep0 ops = true -> ~ In BPanic (bresults cfg rep0 ops).
Proof.
  intros H.
  destruct (brun_inv cfg ops _ _ (binv_init cfg rep0) (lim0 cfg) (cnt0 cfg) H) as [_ [_ [_ D]]].
  exact D.
Qed.

(* a failed AllocateVulkanMemory leaves every counter as it was (the rollback is exact) *)
Theorem failed_alloc_exact cfg rep0 ops h sz f s' r cs :
  in_bdomain cfg rep0 (ops ++ [OAllocMem h sz f]) = true ->
  bstep cfg (bfinal cfg rep0 ops) (OAllocMem h sz f) = (s', r, cs) -> r <> BOk ->
  (forall x, heaps s' x = heaps (bfinal cfg rep0 ops) x) /\
  memCount s' = memCount (bfinal cfg rep0 ops).
Proof.
  intros H Hs Hr. unfold in_bdomain in H.
  assert (Hsplit : forall ops1 s g ops2,
             in_bdomain_from cfg s g (ops1 ++ ops2) = true ->
             in_bdomain_from cfg s g ops1 = true /\
             in_bdomain_from cfg (fst (fst (brun cfg s g ops1))) (snd (fst (brun cfg s g ops1))) ops2 = true).
  { induction ops1 as [|o tl IH]; intros s g ops2 Hd; [cbn; auto|].
    cbn [app in_bdomain_from] in Hd. apply andb_prop in Hd. destruct Hd as [Hok Hd].
    cbn [in_bdomain_from brun]. destruct (bstep cfg s o) as [[s1 r1] cs1].
    destruct (IH _ _ _ Hd) as [A B].
    destruct (brun cfg s1 (g_upd g o r1) tl) as [[sf gf] rs]. cbn [fst snd] in *.
    rewrite Hok, A. auto. }
  destruct (Hsplit _ _ _ _ H) as [H1 H2].
  destruct (brun_inv cfg ops _ _ (binv_init cfg rep0) (lim0 cfg) (cnt0 cfg) H1) as [A [B [C _]]].
  fold (bfinal cfg rep0 ops) in *. fold (btruth cfg rep0 ops) in *.
  cbn [in_bdomain_from] in H2. apply andb_prop in H2. destruct H2 as [Hok _].
  destruct (bstep_inv _ _ _ _ _ _ _ A B C Hok Hs) as [A' _].
  assert (Hg : g_upd (btruth cfg rep0 ops) (OAllocMem h sz f) r = btruth cfg rep0 ops).
  { cbn [g_upd]. destruct r; try reflexivity. congruence. }
  rewrite Hg in A'. split.
  - intros x. rewrite (i_heaps _ _ A' x), (i_heaps _ _ A x). reflexivity.
  - rewrite (i_mc _ _ A'), (i_mc _ _ A). reflexivity.
Qed.

Theorem usage_formula cfg rep0 ops h rep s' r cs :
  in_bdomain cfg rep0 ops = true -> budgetExt cfg = false ->
  bstep cfg (bfinal cfg rep0 ops) (OHeapBudget h rep) = (s', r, cs) ->
  exists bcn acn abn,
    r = BBudget bcn acn (bb (heaps (bfinal cfg rep0 ops) h)) abn
                (bb (heaps (bfinal cfg rep0 ops) h)) (guess_budget cfg h) /\
    bb (heaps (bfinal cfg rep0 ops) h) = sum (g_mems (btruth cfg rep0 ops)) h /\
    cs = [] /\ s' = bfinal cfg rep0 ops.
Proof.
  intros H Hext Hs. cbn [bstep] in Hs. unfold heap_budget in Hs. rewrite Hext in Hs.
  cbn [andb negb fst snd] in Hs. inversion Hs; subst; clear Hs.
  do 3 eexists. split; [reflexivity|]. split; [|auto].
  destruct (counters_equal_truth cfg rep0 ops H) as [A _]. apply (A h).
Qed.

(* with VK_EXT_memory_budget (any state, any driver report): usage is the usage fetched from the driver
   plus what was allocated since the fetch, clamped at 0; the budget is capped by the heap size *)
Theorem usage_formula_ext cfg s h rep s' bcn acn bbn abn u b cs :
  budgetExt cfg = true ->
  bstep cfg s (OHeapBudget h rep) = (s', BBudget bcn acn bbn abn u b, cs) ->
  u = Z.max 0 (vUsage s' h + bb (heaps s' h) - bbAtFetch s' h) /\
  b = Z.min (heapSize cfg h) (vBudget s' h) /\
  bbn = bb (heaps s' h) /\
  (30 < opsSince s -> cs = [BFetch] /\ opsSince s' = 0 /\
     forall i, bbAtFetch s' i = if (0 <=? i) && (i <? nHeaps cfg) then bb (heaps s i) else bbAtFetch s i) /\
  (opsSince s <= 30 -> cs = [] /\ s' = s).
Proof.
  intros Hext Hs. cbn [bstep] in Hs. unfold heap_budget in Hs. rewrite Hext in Hs.
  cbn [andb negb fst snd] in Hs.
  remember (if 30 <? opsSince s then update_budget cfg s rep else s) as s1 eqn:Hs1.
  inversion Hs; subst s' bcn acn bbn abn u b cs; clear Hs.
  split.
  { destruct (bbAtFetch s1 h <? vUsage s1 h + bb (heaps s1 h)) eqn:E2;
      [apply Z.ltb_lt in E2|apply Z.ltb_ge in E2]; lia. }
  split.
  { destruct (heapSize cfg h <? vBudget s1 h) eqn:E3;
      [apply Z.ltb_lt in E3|apply Z.ltb_ge in E3]; lia. }
  split; [reflexivity|].
  destruct (30 <? opsSince s) eqn:E; [apply Z.ltb_lt in E|apply Z.ltb_ge in E]; subst s1.
  - split; [|lia]. intros _. split; [reflexivity|]. split; [reflexivity|]. intros i. reflexivity.
  - split; [lia|]. intros _. split; reflexivity.
Qed.

(* ------------------------------------------------------------------ the CAS loop *)

Fixpoint cas_ok (maxv : Z) (phs : list phase) (sizes : list Z) : Prop :=
  match phs, sizes with
  | ph :: pt, sz :: st =>
    (match ph with PCas cur => cur + sz <= maxv | _ => True end) /\ cas_ok maxv pt st
  | _, _ => True
  end.

Definition contrib (ph : phase) (sz : Z) : Z := match ph with PHold => sz | _ => 0 end.

Lemma held_set : forall t phs sizes ph sz ph',
  nth_error phs t = Some ph -> nth_error sizes t = Some sz ->
  held (set_nth t ph' phs) sizes = held phs sizes - contrib ph sz + contrib ph' sz.
Proof.
  induction t as [|t IH]; intros phs sizes ph sz ph' Hp Hs;
    destruct phs as [|p pt]; destruct sizes as [|z zt]; cbn in Hp, Hs; try discriminate.
  - inversion Hp; inversion Hs; subst. cbn [set_nth held]. unfold contrib. destruct ph, ph'; lia.
  - cbn [set_nth held]. rewrite (IH pt zt ph sz ph' Hp Hs). lia.
Qed.

Lemma cas_ok_set : forall maxv t phs sizes sz ph',
  cas_ok maxv phs sizes -> nth_error sizes t = Some sz ->
  (match ph' with PCas cur => cur + sz <= maxv | _ => True end) ->
  cas_ok maxv (set_nth t ph' phs) sizes.
Proof.
  induction t as [|t IH]; intros phs sizes sz ph' Hok Hs Hn;
    destruct phs as [|p pt]; destruct sizes as [|z zt]; cbn in Hs; try discriminate;
    cbn [set_nth cas_ok]; auto.
  - inversion Hs; subst. destruct Hok as [_ Hok]. split; assumption.
  - destruct Hok as [H1 Hok]. split; [exact H1|]. apply (IH pt zt sz ph' Hok Hs Hn).
Qed.

Lemma cas_ok_nth : forall maxv t phs sizes cur sz,
  cas_ok maxv phs sizes -> nth_error phs t = Some (PCas cur) -> nth_error sizes t = Some sz ->
  cur + sz <= maxv.
Proof.
  induction t as [|t IH]; intros phs sizes cur sz Hok Hp Hs;
    destruct phs as [|p pt]; destruct sizes as [|z zt]; cbn in Hp, Hs; try discriminate.
  - inversion Hp; inversion Hs; subst. destruct Hok as [H _]. exact H.
  - destruct Hok as [_ Hok]. apply (IH pt zt cur sz Hok Hp Hs).
Qed.

Definition CasInv (maxv : Z) (sizes : list Z) (bb0 : Z) (st : cas_state) : Prop :=
  c_bb st <= maxv /\ c_bb st = bb0 + held (c_ph st) sizes /\ cas_ok maxv (c_ph st) sizes.

Lemma cas_step_inv maxv sizes bb0 st t :
  Forall (fun sz => 0 <= sz) sizes ->
  CasInv maxv sizes bb0 st -> CasInv maxv sizes bb0 (cas_step maxv sizes st t).
Proof.
  intros Hnn [Hle [Heq Hok]]. unfold cas_step.
  destruct (nth_error (c_ph st) t) as [ph|] eqn:Ep; [|repeat split; assumption].
  destruct (nth_error sizes t) as [sz|] eqn:Es; [|repeat split; assumption].
  assert (Hsz : 0 <= sz).
  { rewrite Forall_forall in Hnn. apply Hnn. apply (nth_error_In _ _ Es). }
  destruct ph as [|cur| |].
  - destruct (maxv <? c_bb st + sz) eqn:E.
    + unfold CasInv; cbn [c_bb c_ph]. rewrite (held_set _ _ _ _ _ PFail Ep Es). cbn [contrib].
      split; [exact Hle|]. split; [lia|]. apply (cas_ok_set _ _ _ _ _ _ Hok Es). exact I.
    + apply Z.ltb_ge in E.
      unfold CasInv; cbn [c_bb c_ph]. rewrite (held_set _ _ _ _ _ (PCas (c_bb st)) Ep Es). cbn [contrib].
      split; [exact Hle|]. split; [lia|]. apply (cas_ok_set _ _ _ _ _ _ Hok Es). exact E.
  - pose proof (cas_ok_nth _ _ _ _ _ _ Hok Ep Es) as Hcur.
    destruct (c_bb st =? cur) eqn:E.
    + apply Z.eqb_eq in E.
      unfold CasInv; cbn [c_bb c_ph]. rewrite (held_set _ _ _ _ _ PHold Ep Es). cbn [contrib].
      split; [exact Hcur|]. split; [lia|]. apply (cas_ok_set _ _ _ _ _ _ Hok Es). exact I.
    + unfold CasInv; cbn [c_bb c_ph]. rewrite (held_set _ _ _ _ _ PLoad Ep Es). cbn [contrib].
      split; [exact Hle|]. split; [lia|]. apply (cas_ok_set _ _ _ _ _ _ Hok Es). exact I.
  - unfold CasInv; cbn [c_bb c_ph]. rewrite (held_set _ _ _ _ _ PLoad Ep Es). cbn [contrib].
    split; [lia|]. split; [lia|]. apply (cas_ok_set _ _ _ _ _ _ Hok Es). exact I.
  - unfold CasInv; cbn [c_bb c_ph]. rewrite (held_set _ _ _ _ _ PLoad Ep Es). cbn [contrib].
    split; [exact Hle|]. split; [lia|]. apply (cas_ok_set _ _ _ _ _ _ Hok Es). exact I.
Qed.

Lemma held_init : forall n sizes, held (repeat PLoad n) sizes = 0.
Proof. induction n as [|n IH]; intros [|z zt]; cbn; auto. Qed.

Lemma cas_ok_init : forall maxv n sizes, cas_ok maxv (repeat PLoad n) sizes.
Proof. induction n as [|n IH]; intros [|z zt]; cbn; auto. Qed.

(* For EVERY interleaving of the threads' atomic steps, blockBytes never exceeds the limit and equals
   the initial value plus the sum of the reservations that succeeded and were not yet given back. *)
Theorem cas_limit_all_interleavings maxv sizes bb0 (sched : list nat) :
  bb0 <= maxv -> Forall (fun sz => 0 <= sz) sizes ->
  let st := cas_run maxv sizes (cas_init bb0 (length sizes)) sched in
  c_bb st <= maxv /\ c_bb st = bb0 + held (c_ph st) sizes.
Proof.
  intros Hb Hnn.
  assert (Hgen : forall sched st, CasInv maxv sizes bb0 st ->
                                  CasInv maxv sizes bb0 (cas_run maxv sizes st sched)).
  { induction sched0 as [|t tl IH]; intros st Hst; cbn; [exact Hst|].
    apply IH. apply cas_step_inv; assumption. }
  assert (H0 : CasInv maxv sizes bb0 (cas_init bb0 (length sizes))).
  { unfold CasInv, cas_init; cbn [c_bb c_ph]. rewrite held_init.
    split; [exact Hb|]. split; [lia|]. apply cas_ok_init. }
  destruct (Hgen sched _ H0) as [A [B _]]. cbn zeta. split; assumption.
Qed.

(* it holds in every intermediate state too: a prefix of a schedule is a schedule *)
Corollary cas_limit_every_prefix maxv sizes bb0 (s1 s2 : list nat) :
  bb0 <= maxv -> Forall (fun sz => 0 <= sz) sizes ->
  c_bb (cas_run maxv sizes (cas_init bb0 (length sizes)) s1) <= maxv.
Proof. intros Hb Hnn. apply (cas_limit_all_interleavings maxv sizes bb0 s1 Hb Hnn). Qed.

(* a two-thread interleaving in which the second thread's CAS fails once and is retried, and both
   cannot fit: limit 10, two requests of 6 *)
Example cas_example :
  let st := cas_run 10 [6; 6] (cas_init 0 2) [0%nat; 1%nat; 0%nat; 1%nat; 1%nat] in
  c_bb st = 6 /\ c_ph st = [PHold; PFail].
Proof. vm_compute. auto. Qed.

(* ------------------------------------------------------------------ a non-trivial history in the domain *)

Definition ex_cfg : bcfg := cfg_of_lists [1000; 500] [300; 0] 3 false.
Definition ex_rep (h : Z) : Z * Z := (0, 0).
Definition ex_bops : list bop :=
  [OAllocMem 0 100 false; OAddAlloc 0 40; OAllocMem 0 200 false;
   OAllocMem 0 1 false;                (* heap limit 300 reached: refused *)
   OAllocMem 1 50 true;                (* the driver fails: rolled back *)
   OAllocMem 1 50 false;
   OAllocMem 1 10 false;               (* count limit 3 reached: refused *)
   OHeapBudget 0 ex_rep; ORemoveAlloc 0 40; OFreeMem 0 100; OAllocMem 0 100 false;
   OFreeMem 1 50; OFreeMem 0 200; OFreeMem 0 100].

Example ex_in_bdomain : in_bdomain ex_cfg ex_rep ex_bops = true.
Proof. vm_compute. reflexivity. Qed.

Example ex_bresults :
  bresults ex_cfg ex_rep ex_bops =
  [BOk; BOk; BOk; BErrOutOfDeviceMemory; BErrDriver; BOk; BErrTooManyObjects;
   BBudget 2 1 300 40 300 800; BOk; BOk; BOk; BOk; BOk; BOk].
Proof. vm_compute. reflexivity. Qed.

(* out of the domain the panic is real: removing an allocation that was never added *)
Example remove_unknown_panics :
  snd (fst (bstep ex_cfg (binit ex_cfg ex_rep) (ORemoveAlloc 0 8))) = BPanic.
Proof. vm_compute. reflexivity. Qed.

Print Assumptions counters_equal_truth.
Print Assumptions heap_limit_respected.
Print Assumptions count_limit_respected.
Print Assumptions no_panic_in_domain.
Print Assumptions failed_alloc_exact.
Print Assumptions usage_formula.
Print Assumptions usage_formula_ext.
Print Assumptions cas_limit_all_interleavings.
