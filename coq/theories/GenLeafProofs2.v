(* GenLeafProofs2.v — second tie (tools/go2coq), continued: memory type selection
   (vam/allocator.go findMemoryPreferences, findMemoryTypeIndex against Select.v) and
   shouldCompactFirstVector (memutils/metadata/linear.go against Linear.v).
   The Select model works on N (flag words as bitmasks), the generated definitions on Z with
   Go's int32/uint32 semantics; the first part bridges the two. *)
From Coq Require Import ZArith NArith Lia Bool List.
From Coq Require Import ZifyBool.
From Arsenal Require Import Util Linear Select GoSem GenLeaf.
Import ListNotations.
Open Scope Z_scope.
Ltac Zify.zify_post_hook ::= Z.to_euclidean_division_equations.

(* ------------------------------------------------------------------ N <-> Z bridging *)

Lemma Zeqb_of_N a b : (Z.of_N a =? Z.of_N b) = N.eqb a b.
Proof.
  destruct (N.eqb_spec a b) as [->|Hne]; [apply Z.eqb_refl|].
  apply Z.eqb_neq. intros H. apply Hne. now apply N2Z.inj.
Qed.

Lemma of_N_lor a b : Z.of_N (N.lor a b) = Z.lor (Z.of_N a) (Z.of_N b).
Proof. destruct a, b; reflexivity. Qed.
Lemma of_N_land a b : Z.of_N (N.land a b) = Z.land (Z.of_N a) (Z.of_N b).
Proof. destruct a, b; reflexivity. Qed.
Lemma of_N_ldiff a b : Z.of_N (N.ldiff a b) = Z.ldiff (Z.of_N a) (Z.of_N b).
Proof. destruct a, b; reflexivity. Qed.

Lemma Z_land_pow2 x k : 0 <= k -> Z.land x (2 ^ k) = if Z.testbit x k then 2 ^ k else 0.
Proof.
  intros Hk. apply Z.bits_inj'. intros n Hn. rewrite Z.land_spec, Z.pow2_bits_eqb by lia.
  destruct (Z.eqb_spec k n) as [->|Hne].
  - destruct (Z.testbit x n) eqn:E; [rewrite Z.pow2_bits_true by lia; reflexivity|].
    rewrite Z.bits_0. reflexivity.
  - rewrite andb_false_r. destruct (Z.testbit x k); [|now rewrite Z.bits_0].
    rewrite Z.pow2_bits_false by lia. reflexivity.
Qed.

(* o.Flags & bit != 0  is the model's N.testbit *)
Lemma flag_test aflags (k : N) p :
  p = 2 ^ Z.of_N k -> negb (Z.land (Z.of_N aflags) p =? 0) = N.testbit aflags k.
Proof.
  intros ->. rewrite Z_land_pow2 by lia. rewrite N2Z.inj_testbit.
  destruct (N.testbit aflags k); [|reflexivity].
  pose proof (Z.pow_pos_nonneg 2 (Z.of_N k) ltac:(lia) ltac:(lia)). destruct (Z.eqb_spec (2 ^ Z.of_N k) 0); [lia|reflexivity].
Qed.

(* x & ^m on uint32 is and-not *)
Lemma land_not_u32 u m : 0 <= u < 2 ^ 32 -> Z.land u (go_not_u32 m) = Z.ldiff u m.
Proof.
  intros Hu. unfold go_not_u32, wrap_u32. change 4294967296 with (2 ^ 32).
  rewrite <- Z.land_ones by lia. rewrite (Z.land_comm (Z.lnot m)), Z.land_assoc.
  rewrite Z.land_ones by lia. rewrite Z.mod_small by lia. symmetry. apply Z.ldiff_land.
Qed.

Lemma of_N_lt_pow2 n k : (n < 2 ^ k)%N -> 0 <= Z.of_N n < 2 ^ Z.of_N k.
Proof. intros H. split; [lia|]. change 2 with (Z.of_N 2). rewrite <- N2Z.inj_pow. lia. Qed.

(* ------------------------------------------------------------------ findMemoryPreferences *)

(* the model's bufferOrImageUsage : option N as the pair (pointer != nil, *pointer) *)
Definition bufimg_has (b : option N) : bool := match b with Some _ => true | None => false end.
Definition bufimg_val (b : option N) : Z := match b with Some u => Z.of_N u | None => 0 end.

Definition triple_of_N (t : N * N * N) : Z * Z * Z :=
  let '(a, b, c) := t in (Z.of_N a, Z.of_N b, Z.of_N c).

Lemma device_access_eq bufimg :
  (forall u, bufimg = Some u -> (u < 2 ^ 32)%N) ->
  (if bufimg_has bufimg then negb (Z.land (bufimg_val bufimg) (go_not_u32 3) =? 0) else false)
  = device_access bufimg.
Proof.
  intros Hu. destruct bufimg as [u|]; [|reflexivity]. cbn [bufimg_has bufimg_val device_access].
  pose proof (of_N_lt_pow2 u 32 (Hu u eq_refl)) as Hr. change (Z.of_N 32) with 32 in Hr.
  rewrite land_not_u32 by exact Hr. change 3 with (Z.of_N 3). rewrite <- of_N_ldiff.
  change 0 with (Z.of_N 0). rewrite Zeqb_of_N. reflexivity.
Qed.

(* findMemoryPreferences(o, bufferOrImageUsage): parameters are the directives' values
   (isIntegratedGPU, o.Usage, o.Flags, o.RequiredFlags, o.PreferredFlags, usage != nil, *usage).
   The only range condition: the buffer/image usage word is a uint32. *)
Theorem gen_find_prefs_eq integrated usage aflags req0 pref0 bufimg :
  (forall u, bufimg = Some u -> (u < 2 ^ 32)%N) ->
  GenLeaf.findMemoryPreferences integrated (Z.of_N usage) (Z.of_N aflags) (Z.of_N req0) (Z.of_N pref0)
                                (bufimg_has bufimg) (bufimg_val bufimg)
  = triple_of_N (find_prefs integrated usage aflags req0 pref0 bufimg).
Proof.
  intros Hu. pose proof (device_access_eq bufimg Hu) as HDA.
  unfold GenLeaf.findMemoryPreferences, find_prefs, is_auto, go_and, go_or. cbv zeta.
  (* the three host-access flag tests and the usage tests, in the model's vocabulary *)
  rewrite (flag_test aflags ACF_SEQ_WRITE_BIT 128 eq_refl).
  rewrite (flag_test aflags ACF_RANDOM_BIT 256 eq_refl).
  rewrite (flag_test aflags ACF_ALLOW_TRANSFER_BIT 512 eq_refl).
  change (Z.of_N usage =? 1) with (Z.of_N usage =? Z.of_N USAGE_LAZY).
  change (Z.of_N usage =? 2) with (Z.of_N usage =? Z.of_N USAGE_AUTO).
  change (Z.of_N usage =? 3) with (Z.of_N usage =? Z.of_N USAGE_AUTO_DEVICE).
  change (Z.of_N usage =? 4) with (Z.of_N usage =? Z.of_N USAGE_AUTO_HOST).
  rewrite !Zeqb_of_N.
  (* the AMD test at the end *)
  change 192 with (Z.of_N (N.lor DEVICE_COHERENT_AMD DEVICE_UNCACHED_AMD)).
  rewrite <- of_N_lor, <- of_N_land. change 0 with (Z.of_N 0) at 1.
  assert (Hamd : forall (X : Z * Z * Z) (Y : Z * Z * Z),
             (if (Z.of_N (N.land (N.lor req0 pref0) (N.lor DEVICE_COHERENT_AMD DEVICE_UNCACHED_AMD)) =? 0) then X else Y)
             = (if (N.land (N.lor req0 pref0) (N.lor DEVICE_COHERENT_AMD DEVICE_UNCACHED_AMD) =? 0)%N then X else Y)).
  { intros X Y. change 0 with (Z.of_N 0). rewrite Zeqb_of_N. reflexivity. }
  rewrite !Hamd. clear Hamd.
  destruct (N.land (N.lor req0 pref0) (N.lor DEVICE_COHERENT_AMD DEVICE_UNCACHED_AMD) =? 0)%N;
  destruct (usage =? USAGE_LAZY)%N;
  cbn [orb];
  try (cbn [triple_of_N]; rewrite ?of_N_lor; reflexivity);
  destruct (usage =? USAGE_AUTO)%N, (usage =? USAGE_AUTO_DEVICE)%N, (usage =? USAGE_AUTO_HOST)%N; cbn [orb negb andb];
  try (cbn [triple_of_N]; rewrite ?of_N_lor; reflexivity);
  rewrite <- HDA;
  destruct (bufimg_has bufimg), (N.testbit aflags ACF_RANDOM_BIT), (N.testbit aflags ACF_SEQ_WRITE_BIT),
    (N.testbit aflags ACF_ALLOW_TRANSFER_BIT), integrated;
  cbn [orb negb andb];
  try (cbn [triple_of_N]; rewrite ?of_N_lor; reflexivity);
  destruct (negb (Z.land (bufimg_val bufimg) (go_not_u32 3) =? 0));
  cbn [orb negb andb triple_of_N]; rewrite ?of_N_lor; reflexivity.
Qed.
Print Assumptions gen_find_prefs_eq.

(* the same against prefs_of, as Select.v packages it *)
Corollary gen_findMemoryPreferences_eq d rq bufimg :
  (forall u, bufimg = Some u -> (u < 2 ^ 32)%N) ->
  GenLeaf.findMemoryPreferences (d_integrated d) (Z.of_N (r_usage rq)) (Z.of_N (r_flags rq))
                                (Z.of_N (r_req rq)) (Z.of_N (r_pref rq)) (bufimg_has bufimg) (bufimg_val bufimg)
  = triple_of_N (prefs_of d rq bufimg).
Proof. intros Hu. unfold prefs_of. apply gen_find_prefs_eq. exact Hu. Qed.
Print Assumptions gen_findMemoryPreferences_eq.

(* ------------------------------------------------------------------ findMemoryTypeIndex *)

(* 32-bit words *)
Definition w32 (x : N) : Prop := N.shiftr x 32 = 0%N.

Lemma w32_iff x : w32 x <-> (x < 2 ^ 32)%N.
Proof.
  unfold w32. rewrite N.shiftr_div_pow2. split.
  - intros H. apply N.div_small_iff in H; [exact H|]. discriminate.
  - intros H. apply N.div_small. exact H.
Qed.

Lemma w32_lor a b : w32 a -> w32 b -> w32 (N.lor a b).
Proof. unfold w32. intros Ha Hb. rewrite N.shiftr_lor, Ha, Hb. reflexivity. Qed.
Lemma w32_land_l a b : w32 a -> w32 (N.land a b).
Proof. unfold w32. intros Ha. rewrite N.shiftr_land, Ha. reflexivity. Qed.
Lemma w32_land_r a b : w32 b -> w32 (N.land a b).
Proof. unfold w32. intros Hb. rewrite N.shiftr_land, Hb. apply N.land_0_r. Qed.
Lemma w32_ldiff a b : w32 a -> w32 (N.ldiff a b).
Proof. unfold w32. intros Ha. rewrite N.shiftr_ldiff, Ha. reflexivity. Qed.

Lemma w32_range x : w32 x -> 0 <= Z.of_N x < 4294967296.
Proof. intros H. apply w32_iff in H. change (2 ^ 32)%N with 4294967296%N in H. lia. Qed.

Lemma w32_high_bit x i : w32 x -> (32 <= i)%N -> N.testbit x i = false.
Proof.
  intros Hx Hi. replace i with ((i - 32) + 32)%N by lia. rewrite <- N.shiftr_spec by apply N.le_0_l.
  rewrite Hx. apply N.bits_0.
Qed.

(* the three results of findMemoryPreferences are 32-bit words when its two flag inputs are *)
Lemma find_prefs_w32 integrated usage aflags req0 pref0 bufimg req pref npref :
  w32 req0 -> w32 pref0 ->
  find_prefs integrated usage aflags req0 pref0 bufimg = (req, pref, npref) ->
  w32 req /\ w32 pref /\ w32 npref.
Proof.
  intros Hr Hp. unfold find_prefs.
  assert (Hc : forall c, (c < 256)%N -> w32 c).
  { intros c Hc. apply w32_iff. change (2 ^ 32)%N with 4294967296%N. lia. }
  assert (Hres : forall r p n, w32 r -> w32 p -> w32 n ->
            (r, p, if (N.land (N.lor req0 pref0) (N.lor DEVICE_COHERENT_AMD DEVICE_UNCACHED_AMD) =? 0)%N
                   then N.lor n DEVICE_UNCACHED_AMD else n) = (req, pref, npref) ->
            w32 req /\ w32 pref /\ w32 npref).
  { intros r p n H1 H2 H3 E.
    destruct (N.land (N.lor req0 pref0) (N.lor DEVICE_COHERENT_AMD DEVICE_UNCACHED_AMD) =? 0)%N;
      injection E as <- <- <-; repeat split; auto. apply w32_lor; [auto|apply Hc; reflexivity]. }
  cbv zeta.
  repeat match goal with
         | |- context [if ?c then _ else _] =>
             lazymatch c with
             | (N.land (N.lor req0 pref0) _ =? 0)%N => fail
             | _ => destruct c
             end
         end;
  intros E; refine (Hres _ _ _ _ _ _ E);
  repeat match goal with |- w32 (N.lor _ _) => apply w32_lor end; auto; apply Hc; reflexivity.
Qed.

(* popcount: the two definitions (Select.v, GoSem.v) agree; a crude bound *)
Lemma pos_popcount_eq p : GoSem.pos_popcount p = Select.pos_popcount p.
Proof. induction p as [q IH|q IH|]; cbn; congruence. Qed.

Lemma go_popcount_of_N n : go_popcount (Z.of_N n) = Z.of_nat (popcount n).
Proof. destruct n as [|p]; [reflexivity|]. cbn. now rewrite pos_popcount_eq. Qed.

Lemma pos_popcount_le p : Z.of_nat (Select.pos_popcount p) <= Z.pos p.
Proof. induction p as [q IH|q IH|]; cbn [Select.pos_popcount]; lia. Qed.

Lemma popcount_le n : Z.of_nat (popcount n) <= Z.of_N n.
Proof. destruct n as [|p]; [reflexivity|]. apply pos_popcount_le. Qed.

(* cost := OnesCount32(uint32(preferred & ^flags)) + OnesCount32(uint32(notPreferred & flags)) *)
Lemma cost_eq pref npref f :
  w32 pref -> w32 f ->
  wrap_i64 (popcnt32 (wrap_u32 (Z.land (Z.of_N pref) (Z.lnot (Z.of_N f))))
            + popcnt32 (wrap_u32 (Z.land (Z.of_N npref) (Z.of_N f))))
  = Z.of_nat (cost pref npref f).
Proof.
  intros Hp Hf. unfold cost, popcnt32.
  rewrite <- Z.ldiff_land, <- of_N_ldiff, <- of_N_land.
  pose proof (w32_range _ (w32_ldiff pref f Hp)) as H1.
  pose proof (w32_range _ (w32_land_r npref f Hf)) as H2.
  rewrite !wrap_u32_id by assumption. rewrite !go_popcount_of_N.
  pose proof (popcount_le (N.ldiff pref f)). pose proof (popcount_le (N.land npref f)).
  rewrite wrap_i64_id by lia. lia.
Qed.

(* memTypeBit&memoryTypeBits == 0  with memTypeBit := uint32(1 << memTypeIndex) *)
Lemma type_bit_test mask i :
  w32 mask ->
  (Z.land (go_shl_u32 1 (Z.of_nat i)) (Z.of_N mask) =? 0) = negb (N.testbit mask (N.of_nat i)).
Proof.
  intros Hm. unfold go_shl_u32. destruct (Z.leb_spec 32 (Z.of_nat i)) as [Hge|Hlt].
  - rewrite w32_high_bit by (auto; lia). reflexivity.
  - rewrite Z.shiftl_1_l. rewrite wrap_u32_id.
    2:{ split; [apply Z.pow_nonneg; lia|]. change 4294967296 with (2 ^ 32). apply Z.pow_lt_mono_r; lia. }
    rewrite Z.land_comm, Z_land_pow2 by lia.
    replace (Z.of_nat i) with (Z.of_N (N.of_nat i)) by lia. rewrite N2Z.inj_testbit.
    destruct (N.testbit mask (N.of_nat i)); [|reflexivity].
    pose proof (Z.pow_pos_nonneg 2 (Z.of_N (N.of_nat i)) ltac:(lia) ltac:(lia)).
    destruct (Z.eqb_spec (2 ^ Z.of_N (N.of_nat i)) 0); [lia|reflexivity].
Qed.

Lemma has_all_test req f :
  negb (Z.land (Z.of_N req) (Z.of_N f) =? Z.of_N req) = negb (has_all f req).
Proof. unfold has_all. rewrite <- of_N_land, Zeqb_of_N. reflexivity. Qed.

Lemma go_nth_app pre f rest :
  go_nth (map Z.of_N (pre ++ f :: rest)) (Z.of_nat (length pre)) = Z.of_N f.
Proof.
  unfold go_nth. rewrite Nat2Z.id, map_app. rewrite app_nth2 by (rewrite map_length; lia).
  rewrite map_length, Nat.sub_diag. reflexivity.
Qed.

(* the Go results (index, VkResult, error != nil) of the model's option *)
Definition found_outcome (r : option nat) : outcome (Z * Z * bool) unit :=
  match r with
  | Some i => Ret (Z.of_nat i, 0, false)          (* VKSuccess *)
  | None => Ret (-1, -8, true)                    (* VKErrorFeatureNotPresent *)
  end.

(* (bestMemoryTypeIndex, minCost) of the Go loop and the model's accumulator *)
Definition best_rel (best : option (nat * nat)) (bZ mcZ : Z) : Prop :=
  match best with
  | None => bZ = -1 /\ mcZ = 9223372036854775807
  | Some (b, mc) => bZ = Z.of_nat b /\ mcZ = Z.of_nat mc
  end.

(* findMemoryTypeIndex(memoryTypeBits, o, bufferOrImageUsage): parameters = a.globalMemoryTypeBits,
   the directives' values (as for findMemoryPreferences, then o.MemoryTypeBits and the table of the
   types' property flags), memoryTypeBits.  Result (index, VkResult, err != nil).
   The loop is a go_loop; the theorem shows in particular that it neither panics (shift count,
   slice index) nor runs out of fuel. *)
Theorem gen_findMemoryTypeIndex_eq integrated usage aflags req0 pref0 bufimg types global typeBits ctb :
  (forall u, bufimg = Some u -> (u < 2 ^ 32)%N) ->
  (req0 < 2 ^ 32)%N -> (pref0 < 2 ^ 32)%N -> (typeBits < 2 ^ 32)%N ->
  Forall (fun f => (f < 2 ^ 32)%N) types ->
  Z.of_nat (length types) < 2 ^ 62 ->
  GenLeaf.findMemoryTypeIndex (Z.of_N global) integrated (Z.of_N usage) (Z.of_N aflags) (Z.of_N req0) (Z.of_N pref0)
                              (bufimg_has bufimg) (bufimg_val bufimg) (Z.of_N ctb) (map Z.of_N types) (Z.of_N typeBits)
  = let '(req, pref, npref) := find_prefs integrated usage aflags req0 pref0 bufimg in
    found_outcome (find_type types global typeBits ctb req pref npref).
Proof.
  intros Hu Hreq0 Hpref0 HtB Hty Hlen.
  apply w32_iff in Hreq0, Hpref0, HtB.
  unfold GenLeaf.findMemoryTypeIndex.
  rewrite gen_find_prefs_eq by exact Hu.
  destruct (find_prefs integrated usage aflags req0 pref0 bufimg) as [[req pref] npref] eqn:Eprefs.
  destruct (find_prefs_w32 _ _ _ _ _ _ _ _ _ Hreq0 Hpref0 Eprefs) as (Wreq & Wpref & Wnpref).
  cbn [triple_of_N]. unfold find_type, eff_mask, go_and, go_not_i32.
  (* the loop, for any 32-bit mask *)
  assert (Hloop : forall mask, w32 mask ->
    forall rest pre best bZ mcZ fuel,
      types = pre ++ rest -> best_rel best bZ mcZ -> (length rest < fuel)%nat ->
      go_loop fuel
        (fun '(bestMemoryTypeIndex, minCost, memTypeIndex) => memTypeIndex <? Z.of_nat (length (map Z.of_N types)))
        (fun '(bestMemoryTypeIndex, minCost, memTypeIndex) next brk =>
           if memTypeIndex <? 0 then Panic tt else
           let memTypeBit := go_shl_u32 1 memTypeIndex in
           if Z.land memTypeBit (Z.of_N mask) =? 0 then
             (let memTypeIndex := wrap_i64 (memTypeIndex + 1) in next (bestMemoryTypeIndex, minCost, memTypeIndex))
           else
             (if (memTypeIndex <? 0) || (memTypeIndex >=? Z.of_nat (length (map Z.of_N types))) then Panic tt else
              let flags := go_nth (map Z.of_N types) memTypeIndex in
              if negb (Z.land (Z.of_N req) flags =? Z.of_N req) then
                (let memTypeIndex := wrap_i64 (memTypeIndex + 1) in next (bestMemoryTypeIndex, minCost, memTypeIndex))
              else
                (let missingPreferredFlags := Z.land (Z.of_N pref) (Z.lnot flags) in
                 let presentNotPreferredFlags := Z.land (Z.of_N npref) flags in
                 let cost := wrap_i64 (popcnt32 (wrap_u32 missingPreferredFlags) + popcnt32 (wrap_u32 presentNotPreferredFlags)) in
                 if cost =? 0 then Ret (memTypeIndex, 0, false)
                 else if cost <? minCost then
                        (let bestMemoryTypeIndex := memTypeIndex in
                         let minCost := cost in
                         let memTypeIndex := wrap_i64 (memTypeIndex + 1) in next (bestMemoryTypeIndex, minCost, memTypeIndex))
                      else
                        (let memTypeIndex := wrap_i64 (memTypeIndex + 1) in next (bestMemoryTypeIndex, minCost, memTypeIndex)))))
        (fun '(bestMemoryTypeIndex, minCost, memTypeIndex) =>
           if bestMemoryTypeIndex <? 0 then Ret (-1, -8, true) else Ret (bestMemoryTypeIndex, 0, false))
        Diverge (bZ, mcZ, Z.of_nat (length pre))
      = found_outcome (find_loop mask req pref npref rest (length pre) best)).
  { intros mask Wmask.
    match goal with
    | |- forall rest pre best bZ mcZ fuel, _ -> _ -> _ -> go_loop _ ?c ?b ?e _ _ = _ =>
        set (C := c); set (B := b); set (E := e)
    end.
    intros rest.
    induction rest as [|f rest' IH]; intros pre best bZ mcZ fuel Htypes Hbest Hfuel;
      (destruct fuel as [|fuel']; [cbn in Hfuel; lia|]); cbn [go_loop find_loop].
    - (* end of the table *)
      unfold C at 1. cbv beta iota. rewrite Htypes, app_nil_r, map_length.
      destruct (Z.ltb_spec (Z.of_nat (length pre)) (Z.of_nat (length pre))) as [Hlt|_]; [lia|].
      unfold E. cbv beta iota.
      destruct best as [[b mc]|]; cbn [best_rel] in Hbest; destruct Hbest as [-> Hmc]; cbn [found_outcome].
      + destruct (Z.ltb_spec (Z.of_nat b) 0); [lia|reflexivity].
      + reflexivity.
    - assert (Hlen' : Z.of_nat (length types) = Z.of_nat (length pre) + 1 + Z.of_nat (length rest')).
      { rewrite Htypes, app_length. cbn [length]. lia. }
      assert (Wf : w32 f).
      { apply w32_iff. rewrite Forall_forall in Hty. apply Hty. rewrite Htypes. apply in_or_app. right. left. reflexivity. }
      assert (Hnext : wrap_i64 (Z.of_nat (length pre) + 1) = Z.of_nat (length (pre ++ [f]))).
      { rewrite app_length. cbn [length]. apply eq_trans with (Z.of_nat (length pre) + 1); [|lia].
        apply wrap_i64_id. change (2 ^ 62) with 4611686018427387904 in Hlen. lia. }
      assert (Hl : length (pre ++ [f]) = S (length pre)) by (rewrite app_length; cbn [length]; lia).
      assert (Htypes' : types = (pre ++ [f]) ++ rest') by (rewrite <- app_assoc; exact Htypes).
      assert (Hfuel' : (length rest' < fuel')%nat) by (cbn [length] in Hfuel; lia).
      assert (Hnth : go_nth (map Z.of_N types) (Z.of_nat (length pre)) = Z.of_N f)
        by (rewrite Htypes; apply go_nth_app).
      unfold C at 1. unfold B at 1. cbv beta iota zeta. rewrite map_length.
      destruct (Z.ltb_spec (Z.of_nat (length pre)) (Z.of_nat (length types))) as [_|Hge]; [|lia].
      destruct (Z.ltb_spec (Z.of_nat (length pre)) 0) as [Hneg|_]; [lia|].
      rewrite (type_bit_test mask (length pre) Wmask).
      destruct (N.testbit mask (N.of_nat (length pre))); cbn [negb].
      2:{ rewrite Hnext, <- Hl. apply IH; assumption. }
      destruct (Z.geb_spec (Z.of_nat (length pre)) (Z.of_nat (length types))) as [Hge|_]; [lia|]. cbn [orb].
      rewrite !Hnth. rewrite has_all_test.
      destruct (has_all f req); cbn [negb].
      2:{ rewrite Hnext, <- Hl. apply IH; assumption. }
      rewrite !(cost_eq pref npref f Wpref Wf).
      destruct (Nat.eqb_spec (cost pref npref f) 0) as [Hc0|Hcne].
      + rewrite Hc0. cbn. reflexivity.
      + destruct (Z.eqb_spec (Z.of_nat (cost pref npref f)) 0) as [Hz|_]; [lia|].
        pose proof (popcount_le (N.ldiff pref f)) as P1. pose proof (popcount_le (N.land npref f)) as P2.
        pose proof (w32_range _ (w32_ldiff pref f Wpref)) as R1. pose proof (w32_range _ (w32_land_r npref f Wf)) as R2.
        assert (Hcb : Z.of_nat (cost pref npref f) < 9223372036854775807) by (unfold cost; lia).
        destruct best as [[b mc]|]; cbn [best_rel] in Hbest; destruct Hbest as [-> ->].
        * destruct (Nat.ltb_spec (cost pref npref f) mc) as [Hlt|Hnlt];
            (destruct (Z.ltb_spec (Z.of_nat (cost pref npref f)) (Z.of_nat mc)) as [Hzl|Hzn]; [|]); try lia;
            rewrite Hnext, <- Hl; apply IH; try assumption; cbn [best_rel]; rewrite ?Hl; auto.
        * destruct (Z.ltb_spec (Z.of_nat (cost pref npref f)) 9223372036854775807) as [_|Hzn]; [|lia].
          rewrite Hnext, <- Hl. apply IH; try assumption. cbn [best_rel]. auto. }
  (* the two copies of the loop (o.MemoryTypeBits != 0 or not) *)
  assert (Hfuel : (length types < S (Z.to_nat (Z.of_nat (length (map Z.of_N types)) - 0)))%nat)
    by (rewrite map_length; lia).
  change 0 with (Z.of_N 0) at 1. rewrite Zeqb_of_N.
  destruct (N.eqb_spec ctb 0) as [E0|Ene]; cbn [negb]; cbv zeta.
  - rewrite <- of_N_land.
    apply (Hloop (N.land typeBits global) (w32_land_l _ _ HtB) types [] None (-1) 9223372036854775807 _ eq_refl (conj eq_refl eq_refl) Hfuel).
  - rewrite <- !of_N_land.
    apply (Hloop (N.land (N.land typeBits global) ctb) (w32_land_l _ _ (w32_land_l _ _ HtB)) types [] None (-1) 9223372036854775807 _ eq_refl (conj eq_refl eq_refl) Hfuel).
Qed.
Print Assumptions gen_findMemoryTypeIndex_eq.

(* ... against Select.select: the allocator passes its globalMemoryTypeBits *)
Corollary gen_findMemoryTypeIndex_select d rq typeBits bufimg :
  (forall u, bufimg = Some u -> (u < 2 ^ 32)%N) ->
  (r_req rq < 2 ^ 32)%N -> (r_pref rq < 2 ^ 32)%N -> (typeBits < 2 ^ 32)%N ->
  Forall (fun f => (f < 2 ^ 32)%N) (d_types d) ->
  Z.of_nat (length (d_types d)) < 2 ^ 62 ->
  GenLeaf.findMemoryTypeIndex (Z.of_N (global_bits (d_amd d) (d_types d))) (d_integrated d)
                              (Z.of_N (r_usage rq)) (Z.of_N (r_flags rq)) (Z.of_N (r_req rq)) (Z.of_N (r_pref rq))
                              (bufimg_has bufimg) (bufimg_val bufimg) (Z.of_N (r_ctb rq))
                              (map Z.of_N (d_types d)) (Z.of_N typeBits)
  = found_outcome (select d rq typeBits bufimg).
Proof.
  intros Hu Hreq Hpref HtB Hty Hlen.
  rewrite gen_findMemoryTypeIndex_eq by assumption.
  unfold select, prefs_of.
  destruct (find_prefs (d_integrated d) (r_usage rq) (r_flags rq) (r_req rq) (r_pref rq) bufimg) as [[req pref] npref].
  reflexivity.
Qed.
Print Assumptions gen_findMemoryTypeIndex_select.

(* ------------------------------------------------------------------ memutils/metadata/linear.go *)

(* shouldCompactFirstVector(): parameters = the two null-item counters and len(firstVector) *)
Theorem gen_shouldCompactFirstVector_eq l :
  -2 ^ 59 <= l_null_begin l <= 2 ^ 59 -> -2 ^ 59 <= l_null_middle l <= 2 ^ 59 ->
  zlen (first l) <= 2 ^ 59 ->
  GenLeaf.shouldCompactFirstVector (l_null_begin l) (l_null_middle l) (zlen (first l)) = should_compact l.
Proof.
  intros Hb Hm Hn. change (2 ^ 59) with 576460752303423488 in *.
  unfold GenLeaf.shouldCompactFirstVector, should_compact. cbv zeta.
  assert (0 <= zlen (first l)) by (unfold zlen; lia).
  rewrite (wrap_i64_id (l_null_begin l + l_null_middle l)) by lia.
  rewrite (wrap_i64_id ((l_null_begin l + l_null_middle l) * 2)) by lia.
  rewrite (wrap_i64_id (zlen (first l) - (l_null_begin l + l_null_middle l))) by lia.
  rewrite wrap_i64_id by lia. reflexivity.
Qed.
Print Assumptions gen_shouldCompactFirstVector_eq.
