(* VamMapThm.v — the mapping theorem (C08 / C14 at allocator level): along every history of API calls with every
   fault oracle, in the domain of the budget counters,
     - every device memory object owned by the allocator is alive and its device mapping state agrees with the
       SynchronizedMemory object guarding it (reachA_map),
     - the driver calls of every API call, replayed from the device memory objects the call started with, are
       valid one by one: vkMapMemory only on a live, not mapped object; vkUnmapMemory only on a live, mapped
       object; vkFreeMemory only on a live object (driver_calls_valid). *)
From Coq Require Import ZArith List Bool Lia Permutation.
From Arsenal Require Import Util Budget BudgetProofs VamDev VamBlockList Vam VamInvMeta VamInv VamInvUpd VamInvDev.
From Arsenal Require Import VamInvStep VamInvStep2 VamInvThm VamProps VamAcct VamAcctStep VamAcctStep2 VamAcctThm VamMap VamMapStep VamMapStep2.
From Arsenal Require SyncMem SyncMemProofs.
Import ListNotations.
Open Scope Z_scope.

Section WithCfg.
Variable c : vcfg.
Hypothesis Ha : cfg_acct c.
Let Hc := ca_ok c Ha.
Let Hmax := ca_max c Ha.
Let Hlarge := ca_large c Ha.

Notation VamInvA := (VamAcctStep.VamInvA c).

Section Step.
Variable ms0 : list dmem.
Notation VamInvM := (VamMapStep.VamInvM c ms0).

Definition exec_postM (v v' : vam) (r : out unit) : Prop :=
  match r with PANIC | STUCK => True | _ => VamInvM v' [] [] /\ zlen (v_tab v') = zlen (v_tab v) end.

Lemma exec_invM v o : VamInvM v [] [] -> op_ok v o -> op_dom o -> let '(v', r) := exec c v o in exec_postM v v' r.
Proof.
  intros HI Hok Hd. destruct o; cbn [exec op_ok op_dom] in *.
  - pose proof (VamMapStep2.allocate_memory_inv c Hc Hmax Hlarge ms0 v [] slot size align typeBits usage flags req pref ctb pool HI Hd Hok) as P.
    destruct (allocate_memory c v slot size align typeBits usage flags req pref ctb pool) as (v' & r).
    destruct r as [[]|code| |]; cbn; auto; destruct P as (A & B & _); (split; [auto|eapply tab_frame_len; eauto]).
  - destruct Hok as (H0 & Hn).
    pose proof (VamMapStep2.allocate_memory_slice_inv c Hc Hmax Hlarge ms0 v [] slot n size align typeBits usage flags req pref ctb pool HI Hd H0 Hn) as P.
    destruct (allocate_memory_slice c v slot n size align typeBits usage flags req pref ctb pool) as (v' & r). cbn zeta in P.
    destruct r as [[]|code| |]; cbn; auto; destruct P as (A & B & _); (split; [auto|eapply tab_frame_len; eauto]).
  - pose proof (VamMapStep2.allocation_free_inv c Hc Hmax Hlarge ms0 v slot HI) as P. destruct (allocation_free c v slot) as (v' & r).
    destruct r as [[]|code| |]; cbn in *; auto; destruct P as (A & B); (split; [auto|eapply tab_frame_len; eauto]).
  - unfold free_allocation_slice. destruct (slot_range_nodup (Z.to_nat n) slot) as (Hnd & _).
    assert (Hlive : live_slots v [] (slot_range slot (Z.to_nat n))).
    { intros s Hs. split; [intros []|]. exists (get_alloc v s). apply get_alloc_allocated. auto. }
    pose proof (VamMapStep2.multi_free_inv c Hc Hmax Hlarge ms0 _ v [] HI Hnd Hlive) as P. destruct (multi_free c v _) as (v' & r).
    destruct r as [[]|code| |]; cbn; auto; destruct P as (A & B & _); (split; [auto|eapply tab_frame_len; eauto]).
  - pose proof (VamMapStep2.allocation_map_inv c Hc Hmax Hlarge ms0 v slot HI) as P. destruct (allocation_map c v slot) as (v' & r).
    destruct r as [[]|code| |]; cbn in *; auto; destruct P as (A & B & _); (split; [auto|eapply tab_frame_len; eauto]).
  - pose proof (VamMapStep2.allocation_unmap_inv c Hc Hmax Hlarge ms0 v slot HI) as P. destruct (allocation_unmap v slot) as (v' & r).
    destruct r as [[]|code| |]; cbn in *; auto; destruct P as (A & B & _); (split; [auto|eapply tab_frame_len; eauto]).
  - pose proof (VamMapStep2.allocation_flush_inv c Hc Hmax Hlarge ms0 v inval slot off size (ca_atom c Ha) HI) as P. destruct (allocation_flush c v inval slot off size) as (v' & r).
    destruct r as [[]|code| |]; cbn in *; auto; destruct P as (A & B & _); (split; [auto|eapply tab_frame_len; eauto]).
  - pose proof (VamMapStep2.harness_rw_inv c Hc Hmax Hlarge ms0 v slot HI) as P. destruct (harness_rw c v slot) as (v' & r).
    destruct r as [[]|code| |]; cbn in *; auto; destruct P as (A & B & _); (split; [auto|eapply tab_frame_len; eauto]).
  - pose proof (VamMapStep2.create_pool_inv c Hc Hmax Hlarge ms0 v ty flags blockSize minB maxB minAlign HI Hd) as P.
    destruct (create_pool c v ty flags blockSize minB maxB minAlign) as (v' & r).
    destruct r as [[]|code| |]; cbn in *; auto; destruct P as (A & B); (split; [auto|eapply tab_frame_len; eauto]).
  - pose proof (VamMapStep2.rmpool_inv c Hc Hmax Hlarge ms0 v uid HI) as P. destruct (pool_destroy c v uid) as (v' & r).
    destruct r as [[]|code| |]; cbn in *; auto; destruct P as (A & B); (split; [auto|eapply tab_frame_len; eauto]).
  - pose proof (VamMapStep2.build_stats_string_inv c Hc Hmax Hlarge ms0 v HI) as P. destruct (build_stats_string c v) as (v' & r).
    destruct r as [[]|code| |]; cbn in *; auto; destruct P as (A & B); (split; [auto|eapply tab_frame_len; eauto]).
  - pose proof (VamMapStep2.allocator_destroy_inv c Hc Hmax Hlarge ms0 v HI) as P. destruct (allocator_destroy c v) as (v' & r).
    destruct r as [[]|code| |]; cbn in *; auto; destruct P as (A & B); (split; [auto|eapply tab_frame_len; eauto]).
  - pose proof (VamMapStep2.create_buffer_inv c Hc Hmax Hlarge ms0 v slot size devreq bufUsage minAlign usage flags req pref ctb pool HI Hd Hok) as P.
    destruct (create_buffer c v slot size devreq bufUsage minAlign usage flags req pref ctb pool) as (v' & r).
    destruct r as [[]|code| |]; cbn in *; auto; destruct P as (A & B); (split; [auto|eapply tab_frame_len; eauto]).
  - pose proof (VamMapStep2.create_image_inv c Hc Hmax Hlarge ms0 v slot tiling width devreq imgUsage usage flags req pref ctb pool HI Hd Hok) as P.
    destruct (create_image c v slot tiling width devreq imgUsage usage flags req pref ctb pool) as (v' & r).
    destruct r as [[]|code| |]; cbn in *; auto; destruct P as (A & B); (split; [auto|eapply tab_frame_len; eauto]).
  - pose proof (VamMapStep2.destroy_with_resource_inv c Hc Hmax Hlarge ms0 v slot image res HI) as P. destruct (destroy_with_resource c v slot image res) as (v' & r).
    destruct r as [[]|code| |]; cbn in *; auto; destruct P as (A & B); (split; [auto|eapply tab_frame_len; eauto]).
  - pose proof (VamMapStep2.allocate_for_resource_inv c Hc Hmax Hlarge ms0 v slot image res usage flags req pref ctb pool HI Hok) as P.
    destruct (allocate_for_resource c v slot image res usage flags req pref ctb pool) as (v' & r).
    destruct r as [[]|code| |]; cbn in *; auto; destruct P as (A & B); (split; [auto|eapply tab_frame_len; eauto]).
  - pose proof (VamMapStep2.bind_memory_inv c Hc Hmax Hlarge ms0 v slot image res off HI) as P. destruct (bind_memory v slot image res off) as (v' & r).
    destruct r as [[]|code| |]; cbn in *; auto; destruct P as (A & B); (split; [auto|eapply tab_frame_len; eauto]).
  - unfold raw_create. pose proof (VamMapStep2.dev_create_res_sameX c Hc Hmax Hlarge (v_m v) image kind devreq Hd) as H.
    destruct (dev_create_res (v_m v) image kind devreq) as ((m1 & code) & id). cbn [fst] in H.
    assert (P : VamInvM (set_m v m1) [] [] /\ zlen (v_tab (set_m v m1)) = zlen (v_tab v)) by (split; [apply (VamMapStep.VamInvM_mach_same c Hc Hmax Hlarge ms0); auto|reflexivity]).
    destruct (code =? 0); exact P.
  - unfold raw_destroy. cbn. split; [apply (VamMapStep.VamInvM_mach_same c Hc Hmax Hlarge ms0); [auto|apply (VamMapStep2.dev_destroy_res_sameX c Hc Hmax Hlarge)]|reflexivity].
Qed.


End Step.

(* one API call, any fault oracle *)
Theorem step_preservesM v o f :
  VamInvA v [] [] -> MapInv v [] -> op_ok v o -> op_dom o ->
  let '(v', r, calls) := step c v o f in
  r <> RPanic -> r <> RStuck ->
  VamInvA v' [] [] /\ MapInv v' [] /\ zlen (v_tab v') = zlen (v_tab v) /\ replay (m_mems (v_m v)) calls (m_mems (v_m v')).
Proof.
  intros HI HM Hok Hd. unfold step.
  set (ms0 := m_mems (v_m v)).
  set (v0 := set_m v (clear_calls (set_fault (v_m v) f 0))).
  assert (Hms : forall m ff n, mach_sameA c m (clear_calls (set_fault m ff n))).
  { intros m ff n. eapply (mach_sameA_trans c Hc Hmax Hlarge); [apply (mach_sameA_set_fault c Hc Hmax Hlarge)|apply (mach_sameA_clear c Hc Hmax Hlarge)]. }
  assert (Hsub : forall w m', MapInv w [] -> m_mems m' = m_mems (v_m w) -> MapInv (set_m w m') []).
  { intros w m' I E. apply (MapInv_sub w []); [exact I|exact E|apply blocks_sub_eq; intros; apply get_blist_set_m|apply deds_sub_nil; apply tab_frame_set_m]. }
  assert (I0 : VamMapStep.VamInvM c ms0 v0 [] []).
  { split; [apply (VamAcctStep.VamInvA_mach_same c Hc Hmax Hlarge); [exact HI|apply Hms]|].
    split; [apply Hsub; [exact HM|reflexivity]|]. unfold LogOk, v0, ms0. cbn. constructor. }
  assert (Hok0 : op_ok v0 o) by (destruct o; exact Hok).
  pose proof (exec_invM ms0 v0 o I0 Hok0 Hd) as E. destruct (exec c v0 o) as (v1 & r).
  intros Hp Hs. destruct r as [[]|code| |]; cbn in Hp, Hs; try congruence; cbn in E; destruct E as ([A (M & L)] & B);
    (split; [apply (VamAcctStep.VamInvA_mach_same c Hc Hmax Hlarge); [exact A|apply Hms]|];
     split; [apply Hsub; [exact M|reflexivity]|]; split; [exact B|exact L]).
Qed.

(* the mapping invariant holds in every reachable state *)
Lemma vam_new_MapInv nslots v : vam_new c nslots = OK v -> MapInv v [].
Proof.
  intros E. pose proof (VamInvStep2.vam_new_inv c Hc nslots v E) as HI. unfold vam_new in E.
  destruct (negb _); [discriminate|]. destruct (negb _); [discriminate|]. injection E as <-. constructor.
  - intros lr l b Hg Hb. exfalso. destruct lr as [t|u]; [|cbn in Hg; discriminate]. cbn in Hg.
    destruct (nth_z (init_lists c _ _ 0) t) as [[x|]|] eqn:E; try discriminate. injection Hg as ->.
    destruct (VamInvStep2.init_lists_spec c _ _ _ _ _ E) as (_ & ->). destruct Hb.
  - intros s a (Sa & Aa) _ _. exfalso. cbn in Sa. apply nth_z_in in Sa. apply repeat_spec in Sa. subst a. discriminate.
Qed.

Theorem reachA_map v : reachA c v -> MapInv v [].
Proof.
  induction 1 as [nslots v H Hn|v o f v' r calls R IH Hok Hd Hs Hp Hk].
  - eapply vam_new_MapInv; eauto.
  - pose proof (step_preservesM v o f (reachA_inv c Ha v R) IH Hok Hd) as P. rewrite Hs in P. apply P; auto.
Qed.

(* C08: the driver calls of an API call respect the mapping / lifetime discipline of VkDeviceMemory *)
Theorem driver_calls_valid v o f v' r calls :
  reachA c v -> op_ok v o -> op_dom o -> step c v o f = (v', r, calls) -> r <> RPanic -> r <> RStuck ->
  replay (m_mems (v_m v)) calls (m_mems (v_m v')).
Proof.
  intros R Hok Hd Hs Hp Hk. pose proof (step_preservesM v o f (reachA_inv c Ha v R) (reachA_map v R) Hok Hd) as P.
  rewrite Hs in P. apply P; auto.
Qed.

Lemma app_last_cases {A} (pre : list A) k post cs k0 :
  pre ++ k :: post = cs ++ [k0] -> (post = [] /\ pre = cs /\ k = k0) \/ (exists post', post = post' ++ [k0] /\ cs = pre ++ k :: post').
Proof.
  destruct (exists_last (l := k :: post) ltac:(discriminate)) as (q & x & E). intros H.
  assert (H' : (pre ++ q) ++ [x] = cs ++ [k0]) by (rewrite <- app_assoc, <- E; exact H).
  apply app_inj_tail in H'. destruct H' as (E1 & ->). subst cs.
  destruct q as [|y q]; cbn in E.
  - injection E as -> ->. left. rewrite app_nil_r. auto.
  - injection E as -> ->. right. exists q. auto.
Qed.

(* every single call of a valid replay was valid in the state it was issued in *)
Lemma replay_call ms cs ms' : replay ms cs ms' -> forall pre k post, cs = pre ++ k :: post -> exists ms1, replay ms pre ms1 /\ call_ok ms1 k.
Proof.
  induction 1 as [ms|ms cs ms1 k0 ms2 R IH Hok He]; intros pre k post E.
  - destruct pre; discriminate.
  - destruct (app_last_cases pre k post cs k0 (eq_sym E)) as [(-> & -> & ->)|(post' & -> & ->)].
    + exists ms1. auto.
    + apply (IH pre k post'). reflexivity.
Qed.

(* C14: device and SynchronizedMemory agree on every block and every dedicated allocation *)
Theorem block_mapping_agrees v lr l b :
  reachA c v -> get_blist v lr = Some l -> In b (bl_blocks l) ->
  exists d, find_mem (m_mems (v_m v)) (bk_mem b) = Some d /\ dm_mapped d = SyncMem.mapped (bk_sm b) /\
            (SyncMem.mapped (bk_sm b) = true <-> 0 < SyncMem.mapRefs (bk_sm b) \/ SyncMem.extra (bk_sm b) = true) /\
            0 <= SyncMem.mapRefs (bk_sm b).
Proof.
  intros R Hg Hb. destruct (mi_blocks _ _ (reachA_map v R) _ _ _ Hg Hb) as (d & F & (H0 & H1 & _) & Fr).
  destruct (H1 Fr) as (_ & E & Hiff). exists d. cbn in E. auto.
Qed.

Theorem dedicated_mapping_agrees v s a :
  reachA c v -> slot_is v s a -> a_kind a = 2 ->
  exists d, find_mem (m_mems (v_m v)) (a_mem a) = Some d /\ dm_mapped d = SyncMem.mapped (a_sm a) /\
            (SyncMem.mapped (a_sm a) = true <-> 0 < SyncMem.mapRefs (a_sm a) \/ SyncMem.extra (a_sm a) = true) /\
            0 <= SyncMem.mapRefs (a_sm a).
Proof.
  intros R Sa Ka. destruct (mi_ded _ _ (reachA_map v R) s a Sa (fun H => H) Ka) as (d & F & (H0 & H1 & _) & Fr).
  destruct (H1 Fr) as (_ & E & Hiff). exists d. cbn in E. auto.
Qed.

End WithCfg.
