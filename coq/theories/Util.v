(* Util.v — model of memutils/util.go (AlignUp / AlignDown) and shared result types.
   Go: AlignUp(value int, alignment uint)   = (value + int(alignment) - 1) & int(^(alignment - 1))
       AlignDown(value int, alignment uint) = value & int(^(alignment - 1))
   On two's-complement 64-bit ints, for values in range this is Z.land with Z.lnot. *)
From Coq Require Import ZArith List Bool Lia.
Import ListNotations.
Open Scope Z_scope.

Definition align_up (v a : Z) : Z := Z.land (v + a - 1) (Z.lnot (a - 1)).
Definition align_down (v a : Z) : Z := Z.land v (Z.lnot (a - 1)).

(* outcome kinds shared by all block models *)
Inductive rkind := ROk | RRefused | RError | RPanic.

Definition rkind_eqb (a b : rkind) : bool :=
  match a, b with
  | ROk, ROk | RRefused, RRefused | RError, RError | RPanic, RPanic => true
  | _, _ => false
  end.

(* small list helpers used by the executable models *)
Fixpoint update_nth {A} (n : nat) (f : A -> A) (l : list A) : list A :=
  match l, n with
  | [], _ => []
  | x :: xs, O => f x :: xs
  | x :: xs, S n' => x :: update_nth n' f xs
  end.

Definition zlen {A} (l : list A) : Z := Z.of_nat (length l).

Fixpoint remove_z (x : Z) (l : list Z) : list Z :=
  match l with
  | [] => []
  | y :: ys => if y =? x then ys else y :: remove_z x ys
  end.

Fixpoint mem_z (x : Z) (l : list Z) : bool :=
  match l with
  | [] => false
  | y :: ys => (y =? x) || mem_z x ys
  end.
