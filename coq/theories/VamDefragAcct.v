(* VamDefragAcct.v — the accounting invariant (VamAcct.AInv: budget counters = device truth) through the
   defragmentation calls; with VamDefragThm this gives the combined invariant VamInvA along histories with
   defragmentation (reachDA) and the C04 / C11 statements for them.
   The composite proofs follow VamDefragStep.v / VamDefragThm.v with the accounting versions of the component
   lemmas (VamAcctStep); new here: swapBlockAllocation does not change what any Allocation object contributes,
   and the write-back of a collected pass adds exactly the temporaries to the allocation counters.
   Domain (as VamAcct): at most 2^22 Allocation objects — the temporaries of a pass are new objects, so a
   BeginDefragPass whose result exceeds the bound is outside the claim. *)
From Coq Require Import ZArith List Bool Lia Permutation.
From Arsenal Require Import Util Budget BudgetProofs VamDev VamBlockList VamDefrag Vam VamInvMeta VamInv VamInvUpd VamInvDev.
From Arsenal Require Import VamInvStep VamInvStep2 VamInvThm VamProps VamAcct VamAcctStep VamAcctStep2 VamAcctThm.
From Arsenal Require Import VamDefragInv VamDefragStep VamDefragPass VamDefragThm.
From Arsenal Require Pass PassProofs Defrag DefragProofs DefragGranProofs Gran GranInv GranTlsf VamGran SyncMem VamDefragBridge.
Import ListNotations.
Open Scope Z_scope.

Section WithCfg.
Variable c : vcfg.
Hypothesis Hc : cfg_ok c.
Hypothesis Hmax : 0 <= c_maxcount c < 2147483647.
Hypothesis Hlarge : 0 <= c_large c < 2 ^ 61.
Set Default Proof Using "Hc Hmax Hlarge".

Notation VamInvA := (VamAcctStep.VamInvA c).
Notation keptS := (VamAcctStep.keptS c).

(* ---------------------------------------------------------------- EndDefragPass *)

Lemma set_ud_m_tab w lr bid h tag w' : set_block_user_data w lr bid h tag = Some w' -> v_m w' = v_m w /\ v_tab w' = v_tab w.
Proof.
  unfold set_block_user_data. destruct (get_block w lr bid) as [b|]; [|discriminate].
  destruct (meta_set_user_data (bk_meta b) h tag) as [mt|]; [|discriminate]. intros E. injection E as <-.
  split; [apply put_block_m|apply put_block_tab].
Qed.

Lemma swap_m v s t : v_m (fst (swap_block_allocation v s t)) = v_m v.
Proof.
  unfold swap_block_allocation. destruct (_ || _); [reflexivity|].
  destruct (set_block_user_data v _ _ _ t) as [v1|] eqn:E1; [|reflexivity]. destruct (set_ud_m_tab _ _ _ _ _ _ E1) as (M1 & _).
  match goal with |- context [set_block_user_data ?w ?a1 ?a2 ?a3 s] => destruct (set_block_user_data w a1 a2 a3 s) as [v3|] eqn:E3 end; cbn [fst].
  - destruct (set_ud_m_tab _ _ _ _ _ _ E3) as (M3 & _). rewrite M3. cbn [set_alloc set_tab v_m]. exact M1.
  - cbn [set_alloc set_tab v_m]. exact M1.
Qed.

(* swapBlockAllocation: both objects keep their size and type, so the allocation counters are untouched *)
Lemma swap_inv v s t a b lr :
  VamInvA v [] [] -> s <> t -> slot_is v s a -> slot_is v t b ->
  a_kind a = 1 -> a_kind b = 1 -> a_lref a = lr -> a_lref b = lr -> a_size a = a_size b -> a_align a = a_align b ->
  let '(v', r) := swap_block_allocation v s t in
  r = OK tt /\ keptS v v' [] [] [s; t].
Proof.
  intros HI Hst Sa Sb Ka Kb La Lb Esz Eal.
  pose proof (VamDefragInv.swap_inv c v [] [] s t a b lr (va_s _ _ _ _ HI) Hst Sa Sb (fun H => H) (fun H => H) Ka Kb La Lb Esz Eal) as P.
  pose proof (swap_m v s t) as Hm.
  destruct (swap_block_allocation v s t) as (v' & r). cbn [fst] in Hm.
  destruct P as (-> & I1 & L1 & Z1 & O1 & Gs & Gt). split; [reflexivity|].
  assert (T1 : tab_frame v v' [s; t]).
  { split; [exact Z1|]. intros x Hx. apply O1; intros ->; apply Hx; [left|right; left]; reflexivity. }
  split; [|split; [exact T1|exact L1]].
  eapply (mkA c Hc Hmax Hlarge); [exact HI|exact I1| |exact T1|apply lists_frame_weak; exact L1].
  destruct (AInv_AM c Hc Hmax Hlarge _ _ (va_a _ _ _ _ HI)) as (A & D). split; [|rewrite Hm; exact D]. rewrite Hm.
  replace (allocs_truth c v' []) with (allocs_truth c v []); [exact A|]. symmetry.
  apply (allocs_truth_ext c Hc Hmax Hlarge); [exact Z1|]. intros x _. unfold contrib.
  destruct (Z.eq_dec x s) as [->|Hns]; [rewrite Gs, (get_alloc_slot _ _ _ Sa); reflexivity|].
  destruct (Z.eq_dec x t) as [->|Hnt]; [rewrite Gt, (get_alloc_slot _ _ _ Sb); reflexivity|].
  unfold get_alloc. rewrite O1 by auto. reflexivity.
Qed.

Lemma free_or_panic_inv v s :
  VamInvA v [] [] ->
  let '(v', r) := free_or_panic c v s in
  match r with
  | OK _ => keptS v v' [] [] [s] /\ a_allocated (get_alloc v' s) = false
  | ER _ => False
  | _ => True
  end.
Proof.
  intros HI. unfold free_or_panic. destruct (a_allocated (get_alloc v s)) eqn:Ea; cbn [negb]; [|exact I].
  destruct (a_kind (get_alloc v s) =? 1) eqn:Ek; cbn [negb]; [|exact I]. apply Z.eqb_eq in Ek.
  pose proof (VamAcctStep.free_block_slot_inv c Hc Hmax Hlarge v [] [] s (get_alloc v s) false HI (get_alloc_allocated _ _ Ea) (fun H => H) Ek) as P.
  destruct (bl_free c v (a_lref (get_alloc v s)) s false) as (v1 & r). destruct r as [[]|code| |]; auto.
Qed.

Lemma complete_move_inv v lr mv d :
  VamInvA v [] [] -> mv_ok v lr mv -> src_of mv <> tmp_of mv ->
  let '(v', r) := complete_move c v mv d in
  match r with OK _ => keptS v v' [] [] [src_of mv; tmp_of mv] | ER _ => False | _ => True end.
Proof.
  intros HI (a & b & Sa & Sb & Ka & Kb & La & Lb & Esz & Eal & _) Hne. unfold complete_move.
  fold (src_of mv). fold (tmp_of mv).
  assert (Hfin : forall v1, keptS v v1 [] [] [src_of mv; tmp_of mv] ->
            let '(v', r) := free_or_panic c v1 (tmp_of mv) in
            match r with OK _ => keptS v v' [] [] [src_of mv; tmp_of mv] | ER _ => False | _ => True end).
  { intros v1 K1. pose proof (free_or_panic_inv v1 (tmp_of mv) (proj1 K1)) as P.
    destruct (free_or_panic c v1 (tmp_of mv)) as (v' & r). destruct r as [[]|code| |]; auto.
    destruct P as (K2 & _). eapply (VamAcctStep.keptS_trans c Hc Hmax Hlarge); [exact K1|].
    eapply (VamAcctStep.keptS_weaken c Hc Hmax Hlarge); [exact K2|]. intros x [<-|[]]. right. left. reflexivity. }
  destruct (d =? 0) eqn:E0.
  - pose proof (swap_inv v (src_of mv) (tmp_of mv) a b lr HI Hne Sa Sb Ka Kb La Lb Esz Eal) as P.
    destruct (swap_block_allocation v (src_of mv) (tmp_of mv)) as (v1 & r1).
    destruct P as (-> & K1). apply Hfin. exact K1.
  - destruct (d =? 2) eqn:E2.
    + pose proof (free_or_panic_inv v (src_of mv) HI) as P.
      destruct (free_or_panic c v (src_of mv)) as (v1 & r1). destruct r1 as [[]|code| |]; auto.
      destruct P as (K1 & _). apply Hfin. eapply (VamAcctStep.keptS_weaken c Hc Hmax Hlarge); [exact K1|]. intros x [<-|[]]. left. reflexivity.
    + apply Hfin. split; [exact HI|]. split; [apply tab_frame_refl|apply lists_frame_refl].
Qed.

Lemma complete_moves_inv mvs : forall v lr p imm ds,
  VamInvA v [] [] -> moves_ok v lr mvs ->
  let '(v', p', imm', r) := complete_moves c v lr p imm mvs ds in
  match r with OK _ => keptS v v' [] [] (mv_slots mvs) | ER _ => False | _ => True end.
Proof.
  induction mvs as [|mv rest IH]; intros v lr p imm ds HI (Hnd & Hf); cbn [complete_moves].
  - split; [exact HI|]. split; [apply tab_frame_refl|apply lists_frame_refl].
  - destruct (list_alloc_stats v lr) as (pc & pb).
    inversion Hf as [|? ? Hmv Hrest]; subst.
    destruct (mv_slots_cons _ _ Hnd) as (Hne & Hs & Ht & Hnd').
    pose proof (complete_move_inv v lr mv (norm_decision (hd 0 ds)) HI Hmv Hne) as P.
    destruct (complete_move c v mv (norm_decision (hd 0 ds))) as (v1 & r). destruct r as [[]|code| |]; auto.
    destruct (list_alloc_stats v1 lr) as (ac & ab).
    assert (Hok1 : moves_ok v1 lr rest).
    { apply (moves_ok_frame v v1 lr [src_of mv; tmp_of mv] rest); [apply P| |split; auto].
      intros s [<-|[<-|[]]]; auto. }
    match goal with |- context [complete_moves c v1 lr ?p1 ?imm1 rest (tl ds)] =>
      pose proof (IH v1 lr p1 imm1 (tl ds) (proj1 P) Hok1) as Q; destruct (complete_moves c v1 lr p1 imm1 rest (tl ds)) as (((v2 & p2) & imm2) & r2) end.
    destruct r2 as [[]|code| |]; auto.
    assert (Hin1 : forall s, In s [src_of mv; tmp_of mv] -> In s (mv_slots (mv :: rest))).
    { unfold mv_slots. cbn [map app]. intros s [<-|[<-|[]]]; [left; reflexivity|right; apply in_app_iff; right; left; reflexivity]. }
    assert (Hin2 : forall s, In s (mv_slots rest) -> In s (mv_slots (mv :: rest))).
    { unfold mv_slots. cbn [map app]. intros s Hin. apply in_app_iff in Hin. right. apply in_app_iff. destruct Hin; [left|right; right]; auto. }
    eapply (VamAcctStep.keptS_trans c Hc Hmax Hlarge);
      [eapply (VamAcctStep.keptS_weaken c Hc Hmax Hlarge); [exact P|exact Hin1]|eapply (VamAcctStep.keptS_weaken c Hc Hmax Hlarge); [exact Q|exact Hin2]].
Qed.

Lemma complete_pass_inv v dc p ds :
  VamInvA v [] [] -> moves_ok v (dc_lr dc) (Defrag.c_moves (dc_ctx dc)) ->
  let '(v', dc', p', r) := complete_pass c v dc p ds in
  match r with
  | OK _ => keptS v v' [] [] (mv_slots (Defrag.c_moves (dc_ctx dc))) /\ Defrag.c_moves (dc_ctx dc') = [] /\ dc_lr dc' = dc_lr dc
  | ER _ => False
  | _ => True
  end.
Proof.
  intros HI Hok. unfold complete_pass.
  pose proof (complete_moves_inv (Defrag.c_moves (dc_ctx dc)) v (dc_lr dc) p [] ds HI Hok) as P.
  destruct (complete_moves c v (dc_lr dc) p [] (Defrag.c_moves (dc_ctx dc)) ds) as (((v1 & p1) & imm) & r).
  destruct r as [[]|code| |]; auto.
  destruct (get_blist v1 (dc_lr dc)) as [l|] eqn:Hg; [|exact I].
  pose proof (swap_immovable_fold imm (bl_blocks l) (Defrag.c_immovable (dc_ctx dc))) as Pm.
  destruct (fold_left _ imm (bl_blocks l, Defrag.c_immovable (dc_ctx dc))) as (bs & immc). cbn [fst] in Pm.
  destruct (VamAcctStep.permute_inv c Hc Hmax Hlarge v1 [] [] (dc_lr dc) l bs (proj1 P) Hg (Permutation_sym Pm)) as (I2 & T2 & L2).
  split; [|split; reflexivity].
  eapply (VamAcctStep.keptS_trans c Hc Hmax Hlarge); [exact P|]. split; [exact I2|]. split; [eapply tab_frame_weaken; [exact T2|intros ? []]|exact L2].
Qed.

Lemma defrag_end_inv v run ds :
  VamInvA v [] [] -> run_ok v run ->
  let '(v', run', r) := defrag_end c v run ds in
  match r with
  | OK _ => VamInvA v' [] [] /\ zlen (v_tab v') = zlen (v_tab v) /\ lists_frame v v' /\ run_ok v' run' /\ run_idle run'
  | ER _ => False
  | _ => True
  end.
Proof.
  intros HI (Hb & Ha & Hr). unfold defrag_end.
  assert (Hsame : run_idle run -> VamInvA v [] [] /\ zlen (v_tab v) = zlen (v_tab v) /\ lists_frame v v /\ run_ok v run /\ run_idle run).
  { intros Hi. split; [exact HI|]. split; [reflexivity|]. split; [apply lists_frame_refl|]. split; [apply run_idle_ok; auto|exact Hi]. }
  destruct (nth_z (dr_ctxs run) (dr_progress run)) as [dc|] eqn:En.
  - destruct (Defrag.c_moves (dc_ctx dc)) as [|m0 ms0] eqn:Em.
    + apply Hsame. intros i dc1 Hn1. destruct (Z.eq_dec i (dr_progress run)) as [->|Hne]; [|apply (Hr _ _ Hn1); exact Hne].
      rewrite En in Hn1. injection Hn1 as <-. exact Em.
    + destruct (Hr _ _ En) as (Hok & _). specialize (Hok eq_refl).
      pose proof (complete_pass_inv v dc (dr_pass run) ds HI Hok) as P.
      destruct (complete_pass c v dc (dr_pass run) ds) as (((v1 & dc') & p') & r).
      destruct r as [[]|code| |]; auto.
      destruct P as ((I1 & T1 & L1) & Hm' & Hl').
      assert (Hidle : run_idle (mkDfrun (set_nth_ctx (dr_ctxs run) (dr_progress run) dc') (dr_progress run) (dr_max_bytes run)
                                        (dr_max_allocs run) p' (Pass.ps_add (dr_stats run) (Pass.p_stats p')))).
      { intros i dc1 Hn1. cbn [dr_ctxs] in Hn1. unfold set_nth_ctx in Hn1.
        pose proof (nth_z_some_range _ _ _ En) as Hrg.
        destruct (Z.eq_dec i (dr_progress run)) as [->|Hne].
        - rewrite nth_z_set_same in Hn1 by exact Hrg. injection Hn1 as <-. exact Hm'.
        - rewrite nth_z_set_other in Hn1 by congruence. apply (Hr _ _ Hn1). exact Hne. }
      split; [exact I1|]. split; [apply T1|]. split; [exact L1|]. split; [apply run_idle_ok; auto|exact Hidle].
  - apply Hsame. intros i dc1 Hn1. apply (Hr _ _ Hn1). intros ->. congruence.
Qed.

(* ---------------------------------------------------------------- BeginDefragPass: the write-back *)

Lemma slot_range_snoc n : forall a, slot_range a (S n) = slot_range a n ++ [a + Z.of_nat n].
Proof using.
  induction n as [|n IH]; intros a; [cbn; rewrite Z.add_0_r; reflexivity|].
  change (slot_range a (S (S n))) with (a :: slot_range (a + 1) (S n)). rewrite IH. cbn [slot_range app]. f_equal. f_equal. f_equal. lia.
Qed.

(* a new allocated object at the end of the table *)
Lemma allocs_truth_snoc w w' a :
  v_tab w' = v_tab w ++ [a] -> a_allocated a = true ->
  allocs_truth c w' [] = allocs_truth c w [] ++ [(type_heap c (a_type a), a_size a)].
Proof.
  intros Et Ha. unfold allocs_truth. rewrite Et, app_length. cbn [length]. rewrite Nat.add_1_r, slot_range_snoc, flat_map_app.
  cbn [flat_map]. rewrite app_nil_r. f_equal.
  - apply flat_map_ext_in. intros x Hx. apply (proj2 (slot_range_spec _ 0)) in Hx. unfold contrib, get_alloc.
    rewrite Et, nth_z_app_old by (unfold zlen; lia). reflexivity.
  - unfold contrib, get_alloc. rewrite Et. change (0 + Z.of_nat (length (v_tab w))) with (zlen (v_tab w)).
    replace (zlen (v_tab w)) with (zlen (v_tab w) + Z.of_nat 0) by lia. rewrite nth_z_app_new. cbn. rewrite Ha. reflexivity.
Qed.

(* the accounting part of the state while the moves are committed (the structural invariant does not hold there) *)
Definition AMx (w : vam) : Prop :=
  MB c (v_m w) (allocs_truth c w []) /\ res_ok (v_m w) /\ Forall (fun p => snd p <= 2 ^ 39) (allocs_truth c w []).

Lemma commit_move_AM w lr mv :
  AMx w -> zlen (v_tab w) < 4194304 -> 0 < Defrag.m_size mv < 2 ^ 39 ->
  let '(w', r) := commit_move c w lr mv in
  match r with OK _ => AMx w' /\ zlen (v_tab w') = zlen (v_tab w) + 1 | _ => True end.
Proof.
  intros (A & D & F) Hlen Hsz. unfold commit_move.
  destruct (get_blist w lr) as [l|]; [|exact I]. destruct (get_block w lr (Defrag.m_dstblk mv)) as [b|]; [|exact I].
  destruct (negb _); [exact I|].
  pose proof (sm_sub_sameA c Hc Hmax Hlarge (v_m w) (bk_mem b) (bk_sm b)) as Hsub.
  destruct (sm_sub (v_m w) (bk_mem b) (bk_sm b)) as (m1 & s1). cbn [fst] in Hsub.
  assert (Hmap : forall m2 s2 (mr : out unit),
            (if a_persist (get_alloc w (Z.of_nat (Defrag.m_src mv))) then sm_map c m1 (bk_mem b) s1 else (m1, s1, OK tt)) = (m2, s2, mr) -> mach_sameA c m1 m2).
  { intros m2 s2 mr E. destruct (a_persist _).
    - pose proof (sm_map_sameA c Hc Hmax Hlarge m1 (bk_mem b) s1) as H. rewrite E in H. exact H.
    - injection E as <- _ _. apply (mach_sameA_refl c Hc Hmax Hlarge). }
  destruct (if a_persist (get_alloc w (Z.of_nat (Defrag.m_src mv))) then sm_map c m1 (bk_mem b) s1 else (m1, s1, OK tt)) as ((m2 & s2) & mr) eqn:Emap.
  specialize (Hmap _ _ _ eq_refl). pose proof (mach_sameA_trans c Hc Hmax Hlarge _ _ _ Hsub Hmap) as Hm12.
  destruct mr as [[]|code| |]; try exact I.
  destruct (_ && _); [exact I|].
  set (v2 := put_block (set_m w m2) lr (mkBlock (bk_id b) (bk_mem b) s2 (bk_meta b))).
  assert (Em2 : v_m v2 = m2) by (unfold v2; rewrite put_block_m; reflexivity).
  assert (Et2 : v_tab v2 = v_tab w) by (unfold v2; rewrite put_block_tab; reflexivity).
  set (h := type_heap c (bl_type l)).
  match goal with |- context [set_tab v2 (v_tab v2 ++ [?t])] => set (tmp := t) end.
  set (v3 := set_tab v2 (v_tab v2 ++ [tmp])).
  assert (Et3 : v_tab v3 = v_tab w ++ [tmp]) by (unfold v3; cbn [v_tab set_tab]; rewrite Et2; reflexivity).
  assert (Em3 : v_m v3 = m2) by exact Em2. rewrite Em3.
  pose proof (allocs_truth_len c Hc Hmax Hlarge w []) as Hl.
  pose proof (sum_le_len _ h (2 ^ 39) F ltac:(lia)) as H1. pose proof (cnt_le_len (allocs_truth c w []) h) as H2.
  assert (H0 : 0 <= len (allocs_truth c w [])) by (unfold len; lia).
  assert (H3 : len (allocs_truth c w []) * 2 ^ 39 <= 4194304 * 2 ^ 39) by (apply Z.mul_le_mono_nonneg_r; lia).
  assert (Esn : allocs_truth c (set_m v3 (add_allocation c m2 h (Defrag.m_size mv))) [] = allocs_truth c w [] ++ [(h, Defrag.m_size mv)]).
  { apply (allocs_truth_snoc w _ tmp); [exact Et3|reflexivity]. }
  split; [|cbn [v_tab set_m]; rewrite Et3; unfold zlen; rewrite app_length; cbn [length]; lia].
  split; [|split].
  - cbn [v_m set_m]. rewrite Esn. eapply (MB_perm c Hc Hmax Hlarge);
      [apply (add_allocation_MB c Hc Hmax Hlarge); [eapply (MB_same c Hc Hmax Hlarge); [exact A|exact Hm12]|lia|lia|lia]|].
    apply Permutation_cons_append.
  - cbn [v_m set_m]. unfold add_allocation. destruct (Budget.add_alloc _ _ _ _) as ((b' & r0) & cs). cbn. apply (proj2 (proj2 Hm12)). exact D.
  - rewrite Esn. apply Forall_app. split; [exact F|]. constructor; [cbn; lia|constructor].
Qed.

Lemma commit_moves_AM mvs : forall w lr,
  AMx w -> zlen (v_tab w) + Z.of_nat (length mvs) <= 4194304 -> Forall (fun mv => 0 < Defrag.m_size mv < 2 ^ 39) mvs ->
  let '(w', r) := commit_moves c w lr mvs in
  match r with OK _ => AMx w' | _ => True end.
Proof.
  induction mvs as [|mv tl IH]; intros w lr HA Hlen Hsz; cbn [commit_moves]; [exact HA|].
  inversion Hsz as [|? ? Hs1 Hs2]; subst. cbn [length] in Hlen.
  pose proof (commit_move_AM w lr mv HA ltac:(lia) Hs1) as P. destruct (commit_move c w lr mv) as (w1 & r).
  destruct r as [[]|code| |]; auto. destruct P as (A1 & L1).
  apply IH; [exact A1|lia|exact Hs2].
Qed.

Lemma commit_moves_len mvs : forall w lr,
  let '(w', r) := commit_moves c w lr mvs in
  match r with OK _ => zlen (v_tab w') = zlen (v_tab w) + Z.of_nat (length mvs) | _ => True end.
Proof using.
  induction mvs as [|mv tl IH]; intros w lr; cbn [commit_moves]; [cbn; lia|].
  assert (P : let '(w1, r) := commit_move c w lr mv in match r with OK _ => zlen (v_tab w1) = zlen (v_tab w) + 1 | _ => True end).
  { unfold commit_move. destruct (get_blist w lr) as [l|]; [|exact I]. destruct (get_block w lr _) as [b|]; [|exact I].
    destruct (negb _); [exact I|]. destruct (sm_sub _ _ _) as (m1 & s1).
    destruct (if a_persist _ then _ else _) as ((m2 & s2) & mr). destruct mr as [[]|code| |]; try exact I.
    destruct (_ && _); [exact I|]. cbn [v_tab set_m set_tab]. rewrite put_block_tab. cbn [v_tab set_m].
    unfold zlen. rewrite app_length. cbn [length]. lia. }
  destruct (commit_move c w lr mv) as (w1 & r). destruct r as [[]|code| |]; auto.
  specialize (IH w1 lr). destruct (commit_moves c w1 lr tl) as (w2 & r2). destruct r2 as [[]|code| |]; auto.
  cbn [length]. lia.
Qed.

Lemma commit_attempt_AM w lr slot dst :
  AMx w -> AMx (fst (commit_attempt c w lr slot dst)) /\ v_tab (fst (commit_attempt c w lr slot dst)) = v_tab w.
Proof.
  intros (A & D & F). unfold commit_attempt. destruct (get_block w lr dst) as [b|]; [|split; [split; auto|reflexivity]].
  pose proof (sm_sub_sameA c Hc Hmax Hlarge (v_m w) (bk_mem b) (bk_sm b)) as Hsub.
  destruct (sm_sub (v_m w) (bk_mem b) (bk_sm b)) as (m1 & s1). cbn [fst] in Hsub.
  assert (Hmap : mach_sameA c m1 (fst (fst (if a_persist (get_alloc w (Z.of_nat slot)) then sm_map c m1 (bk_mem b) s1 else (m1, s1, OK tt))))).
  { destruct (a_persist _); [apply (sm_map_sameA c Hc Hmax Hlarge)|apply (mach_sameA_refl c Hc Hmax Hlarge)]. }
  destruct (if a_persist (get_alloc w (Z.of_nat slot)) then sm_map c m1 (bk_mem b) s1 else (m1, s1, OK tt)) as ((m2 & s2) & mr). cbn [fst] in *.
  pose proof (mach_sameA_trans c Hc Hmax Hlarge _ _ _ Hsub Hmap) as Hm12.
  set (v2 := put_block (set_m w m2) lr (mkBlock (bk_id b) (bk_mem b) s2 (bk_meta b))).
  assert (Em2 : v_m v2 = m2) by (unfold v2; rewrite put_block_m; reflexivity).
  assert (Et2 : v_tab v2 = v_tab w) by (unfold v2; rewrite put_block_tab; reflexivity).
  split; [|exact Et2]. unfold AMx. rewrite Em2, (allocs_truth_tab c Hc Hmax Hlarge w v2 [] Et2).
  split; [eapply (MB_same c Hc Hmax Hlarge); eauto|]. split; [apply (proj2 (proj2 Hm12)); exact D|exact F].
Qed.

Lemma replay_AM log : forall w lr,
  AMx w -> zlen (v_tab w) + Z.of_nat (length (Defrag.log_moves log)) <= 4194304 -> Forall (fun mv => 0 < Defrag.m_size mv < 2 ^ 39) (Defrag.log_moves log) ->
  let '(w', r) := replay_log c w lr log in
  match r with OK _ => AMx w' | _ => True end.
Proof.
  induction log as [|[slot dst|mv] tl IH]; intros w lr HA Hlen Hsz; cbn [replay_log Defrag.log_moves] in *; [exact HA| |].
  - destruct (commit_attempt_AM w lr slot dst HA) as (A1 & T1). destruct (commit_attempt c w lr slot dst) as (w1 & r). cbn [fst] in *.
    destruct r as [[]|code| |]; try exact I; (apply IH; [exact A1|rewrite T1; exact Hlen|exact Hsz]).
  - inversion Hsz as [|? ? Hs1 Hs2]; subst. cbn [length] in Hlen.
    pose proof (commit_move_AM w lr mv HA ltac:(lia) Hs1) as P. destruct (commit_move c w lr mv) as (w1 & r).
    destruct r as [[]|code| |]; auto. destruct P as (A1 & L1).
    apply IH; [exact A1|lia|exact Hs2].
Qed.

Lemma replay_len log : forall w lr,
  let '(w', r) := replay_log c w lr log in
  match r with OK _ => zlen (v_tab w') = zlen (v_tab w) + Z.of_nat (length (Defrag.log_moves log)) | _ => True end.
Proof using.
  induction log as [|[slot dst|mv] tl IH]; intros w lr; cbn [replay_log Defrag.log_moves]; [cbn; lia| |].
  - assert (T1 : v_tab (fst (commit_attempt c w lr slot dst)) = v_tab w).
    { unfold commit_attempt. destruct (get_block w lr dst) as [b|]; [|reflexivity]. destruct (sm_sub _ _ _) as (m1 & s1).
      destruct (if a_persist _ then _ else _) as ((m2 & s2) & mr). cbn [fst]. rewrite put_block_tab. reflexivity. }
    destruct (commit_attempt c w lr slot dst) as (w1 & r). cbn [fst] in T1. specialize (IH w1 lr). rewrite T1 in IH.
    destruct r as [[]|code| |]; try exact I; exact IH.
  - pose proof (commit_moves_len [mv] w lr) as P. cbn [commit_moves] in P.
    destruct (commit_move c w lr mv) as (w1 & r). destruct r as [[]|code| |]; auto. cbn [length] in P.
    specialize (IH w1 lr). destruct (replay_log c w1 lr tl) as (w2 & r2). destruct r2 as [[]|code| |]; auto.
    cbn [length]. lia.
Qed.

(* BlockListCollectMoves of one context *)
Lemma collect_list_inv v dc p :
  VamInvA v [] [] -> Defrag.c_moves (dc_ctx dc) = [] -> PassProofs.pass_running p ->
  VamGran.GV c v ->
  let '(v', r) := collect_list c v dc p in
  match r with
  | OK (dc', p') =>
      zlen (v_tab v') <= 4194304 ->
      VamInvA v' [] [] /\ lists_frame v v' /\ grown v v' /\ dc_lr dc' = dc_lr dc /\
      moves_ok v' (dc_lr dc) (Defrag.c_moves (dc_ctx dc')) /\ PassProofs.pass_running p'
  | ER _ => False
  | _ => True
  end.
Proof.
  intros HI Hidle Hrun HG1. pose proof (va_s _ _ _ _ HI) as HS. pose proof (va_a _ _ _ _ HI) as HA.
  pose proof (VamDefragPass.collect_list_inv c v dc p HS HG1 Hidle Hrun) as P. unfold collect_list in *.
  destruct (project v (dc_lr dc)) as [st|] eqn:Ep; [|exact I].
  destruct (get_blist v (dc_lr dc)) as [l|] eqn:Hg; [|exact I].
  assert (Est : exists bl, project_blocks (bl_blocks l) = Some bl /\ st = Defrag.mkD bl (map (project_entry (dc_lr dc)) (v_tab v)) false).
  { unfold project in Ep. rewrite Hg in Ep. destruct (project_blocks (bl_blocks l)) as [bl|]; [|discriminate]. injection Ep as <-. eauto. }
  destruct Est as (bl & Epb & Est).
  pose proof (project_wf c v (dc_lr dc) l st HS HG1 Hg Ep) as HW.
  destruct (VamDefragBridge.collect_moves_f_inv_p (bl_gran l) vam (att_commit c (dc_lr dc)) st (dc_ctx dc) p v HW Hrun) as (new & HC & _).
  destruct (VamDefragBridge.collect_moves_f_log_p vam (att_commit c (dc_lr dc)) st (dc_ctx dc) p v) as (Hlg & _).
  destruct (Defrag.collect_moves_f vam (att_commit c (dc_lr dc)) st (dc_ctx dc) p v) as (((cs & env) & log) & wr).
  unfold Defrag.res_f, Defrag.log_f in *. cbn [fst snd] in HC, Hlg.
  pose proof (DefragGranProofs.ci_moves Gran.HVam (bl_gran l) (GranTlsf.GInv (bl_gran l)) GranInv.kind_ok _ _ _ _ _ _ HC) as Hms. rewrite Hidle in Hms, Hlg. cbn [app] in Hms, Hlg.
  assert (Hnew : new = Defrag.log_moves log) by congruence.
  rewrite Hms in *.
  (* sizes of the moves *)
  assert (Hsz : Forall (fun mv => 0 < Defrag.m_size mv < 2 ^ 39) new).
  { apply Forall_forall. intros m Hm. subst st.
    destruct (tmp_region_exists (bl_gran l) _ _ _ _ cs new m HW eq_refl HC Hm) as (_ & _ & es & _ & _ & E1 & _ & E3 & _).
    destruct (entry_project _ _ _ _ _ _ E1) as (a & Sa & Ka & La & ->). cbn [Defrag.u_size] in E3. rewrite <- E3.
    apply (slot_size_bound c Hc Hmax Hlarge v [] [] _ _ a HS (ai_mb _ _ _ HA) Sa). intros []. }
  set (v1 := set_blist v (dc_lr dc) (set_blocks l (unproject_blocks (bl_blocks l) (Defrag.d_blocks (Defrag.cs_st cs))))) in *.
  assert (HA1 : AMx v1).
  { assert (Et : v_tab v1 = v_tab v) by apply set_blist_tab. assert (Em : v_m v1 = v_m v) by apply set_blist_m.
    unfold AMx. rewrite Em, (allocs_truth_tab c Hc Hmax Hlarge v v1 [] Et). split; [apply (ai_mb _ _ _ HA)|]. split; [apply (ai_res _ _ _ HA)|].
    apply (allocs_bound c Hc Hmax Hlarge v [] [] _ HS (ai_mb _ _ _ HA)). }
  pose proof (replay_len log v1 (dc_lr dc)) as PL. rewrite <- Hnew in PL.
  assert (PA : zlen (v_tab v1) + Z.of_nat (length new) <= 4194304 ->
               let '(w', r) := replay_log c v1 (dc_lr dc) log in match r with OK _ => AMx w' | _ => True end).
  { intros Hb. apply replay_AM; try rewrite <- Hnew; auto. }
  destruct wr as [| |why]; [| |exact I];
    (destruct (replay_log c v1 (dc_lr dc) log) as (v2 & r); destruct r as [[]|code| |]; auto;
     intros Hbound; destruct P as (I2 & L2 & G2 & Elr & M2 & R2);
     (split; [|auto 10]); split; [exact I2|];
     destruct (PA ltac:(lia)) as (A2 & D2 & _);
     constructor; [exact A2|exact Hbound|exact (prefs_frame c Hc Hmax Hlarge v v2 (ai_pref _ _ _ HA) L2)|exact D2]).
Qed.

(* BeginDefragPass: the accounting half (the structural half is VamDefragPass.pass_loop_inv) *)
Lemma pass_loop_acct fuel : forall v run p,
  VamInvA v [] [] -> run_idle run -> 0 <= dr_max_bytes run -> 0 <= dr_max_allocs run -> PassProofs.pass_running p -> VamGran.GV c v ->
  let '(v', run', r) := pass_loop c fuel v run p in
  match r with
  | OK _ => zlen (v_tab v') <= 4194304 -> AInv c v' []
  | _ => True
  end.
Proof.
  induction fuel as [|f IH]; intros v run p HI Hidle Hb Ha Hrun HG; cbn [pass_loop]; [exact I|].
  pose proof (va_s _ _ _ _ HI) as HS.
  destruct (nth_z (dr_ctxs run) (dr_progress run)) as [dc|] eqn:En; [|intros _; apply (va_a _ _ _ _ HI)].
  assert (Hdc : Defrag.c_moves (dc_ctx dc) = []) by (eapply Hidle; eauto).
  pose proof (VamDefragPass.collect_list_inv_gv c v dc p HS HG Hdc Hrun) as PS.
  pose proof (collect_list_inv v dc p HI Hdc Hrun HG) as P.
  destruct (collect_list c v dc p) as (v1 & r). destruct r as [(dc' & p')|code| |]; auto.
  destruct PS as ((S1 & LS1 & GS1 & Elr & MS1 & Hrun') & HG1).
  pose proof (nth_z_some_range _ _ _ En) as Hrg.
  destruct (Defrag.c_moves (dc_ctx dc')) as [|m0 ms0] eqn:Em.
  - match goal with |- context [pass_loop c f v1 ?rr p'] => set (run1 := rr) end.
    assert (Hidle1 : run_idle run1).
    { intros i dc1 Hn1. unfold run1 in Hn1. cbn [dr_ctxs] in Hn1. unfold set_nth_ctx in Hn1.
      destruct (Z.eq_dec i (dr_progress run)) as [->|Hne].
      - rewrite nth_z_set_same in Hn1 by exact Hrg. injection Hn1 as <-. exact Em.
      - rewrite nth_z_set_other in Hn1 by congruence. eapply Hidle; eauto. }
    pose proof (VamDefragPass.pass_loop_inv c f v1 run1 p' S1 Hidle1 Hb Ha Hrun' HG1) as QS.
    assert (Q : VamInvA v1 [] [] -> let '(v', run', r) := pass_loop c f v1 run1 p' in
                                     match r with OK _ => zlen (v_tab v') <= 4194304 -> AInv c v' [] | _ => True end).
    { intros I1. apply IH; auto. }
    destruct (pass_loop c f v1 run1 p') as ((v2 & run2) & r2). destruct r2 as [mvs|code| |]; auto.
    intros Hbound. destruct QS as (_ & _ & (G2 & _) & _).
    destruct (P ltac:(lia)) as (I1 & _). exact (Q I1 Hbound).
  - intros Hbound. destruct (P Hbound) as (I1 & _). apply (va_a _ _ _ _ I1).
Qed.

(* ---------------------------------------------------------------- BeginDefragmentation, Finish *)

Lemma prepare_lists_m lrs : forall v, v_m (fold_left prepare_list lrs v) = v_m v.
Proof using.
  induction lrs as [|lr tl IH]; intros v; cbn [fold_left]; [reflexivity|]. rewrite IH. unfold prepare_list.
  destruct (get_blist v lr); [apply set_blist_m|reflexivity].
Qed.

Lemma defrag_begin_m v flags pool mb ma : v_m (fst (defrag_begin c v flags pool mb ma)) = v_m v.
Proof using.
  unfold defrag_begin. destruct (_ || _); [reflexivity|]. destruct (_ =? 3); [reflexivity|].
  destruct (match pool with Some uid => list_is_linear v (LPool uid) | None => false end); [reflexivity|].
  destruct (negb _); cbn [fst]; apply prepare_lists_m.
Qed.

Lemma defrag_finish_m v run : v_m (fst (defrag_finish v run)) = v_m v.
Proof using.
  unfold defrag_finish. cbn [fst]. revert v. induction (dr_ctxs run) as [|dc tl IH]; intros v; cbn [fold_left]; [reflexivity|].
  rewrite IH. destruct (get_blist v (dc_lr dc)); [apply set_blist_m|reflexivity].
Qed.

(* ---------------------------------------------------------------- one defragmentation call *)

Definition dexec_postA (v v' : vam) (run' : option dfrun) (r : out unit) : Prop :=
  match r with
  | PANIC | STUCK => True
  | _ => zlen (v_tab v') <= 4194304 -> VamInvA v' [] [] /\ drun_ok v' run' /\ zlen (v_tab v) <= zlen (v_tab v')
  end.

Lemma dexec_invA v run o :
  VamInvA v [] [] -> VamGran.GV c v -> drun_ok v run -> dop_ok v run o ->
  let '(v', run', r, dr) := dexec c v run o in dexec_postA v v' run' r.
Proof.
  intros HI HV Hr Hok. pose proof (va_s _ _ _ _ HI) as HS.
  pose proof (dexec_inv c v run o HS HV Hr Hok) as PS.
  destruct o as [flags pool mb ma| |ds|]; cbn [dexec] in *.
  - pose proof (defrag_begin_inv c v flags pool mb ma HS) as P. pose proof (defrag_begin_m v flags pool mb ma) as Hm.
    destruct (defrag_begin c v flags pool mb ma) as (v1 & r). cbn [fst] in Hm. destruct P as (I1 & T1 & L1).
    assert (IA : VamInvA v1 [] []).
    { eapply (mkA_same c Hc Hmax Hlarge); [exact HI|exact I1|exact T1|exact L1|rewrite Hm; apply (mach_sameA_refl c Hc Hmax Hlarge)]. }
    destruct r as [rn|code| |]; cbn in *; auto; intros _; destruct PS as (_ & R1 & Z1); auto.
  - destruct run as [rn|]; [|exact I]. pose proof Hok as Hidle. pose proof HV as HG.
    pose proof (defrag_pass_inv c v rn HS Hr Hidle HG) as PS2. destruct Hr as (Hb & Ha & Hr).
    pose proof (pass_loop_acct (S (length (dr_ctxs rn))) v rn (Pass.pass_init (dr_max_bytes rn) (dr_max_allocs rn)) HI Hidle Hb Ha
                  (PassProofs.pass_init_running _ _ Hb Ha) HG) as P.
    unfold defrag_pass in *. destruct (pass_loop c _ v rn _) as ((v1 & rn') & r). destruct r as [mvs|code| |]; cbn in *; auto; [|contradiction].
    intros Hbound. destruct PS as (I1 & R1 & Z1). split; [split; [exact I1|exact (P Hbound)]|auto].
  - destruct run as [rn|]; [|exact I].
    pose proof (defrag_end_inv v rn ds HI Hr) as P.
    destruct (defrag_end c v rn ds) as ((v1 & rn') & r). destruct r as [b|code| |]; cbn in *; auto; [|contradiction].
    intros _. destruct P as (I1 & Z1 & L1 & R1 & _). split; [exact I1|]. split; [exact R1|lia].
  - destruct run as [rn|]; [|exact I].
    pose proof (defrag_finish_inv c v rn HS) as P. pose proof (defrag_finish_m v rn) as Hm.
    destruct (defrag_finish v rn) as (v1 & st). cbn [fst] in Hm. destruct P as (I1 & T1 & L1). cbn in *. intros _.
    destruct PS as (_ & R1 & Z1). split; [|auto].
    eapply (mkA_same c Hc Hmax Hlarge); [exact HI|exact I1|exact T1|exact L1|rewrite Hm; apply (mach_sameA_refl c Hc Hmax Hlarge)].
Qed.

Theorem dstep_preservesA v run o f :
  VamInvA v [] [] -> VamGran.GV c v -> drun_ok v run -> dop_ok v run o ->
  let '(v', run', r, calls, dr) := dstep c v run o f in
  r <> RPanic -> r <> RStuck -> zlen (v_tab v') <= 4194304 ->
  VamInvA v' [] [] /\ drun_ok v' run' /\ zlen (v_tab v) <= zlen (v_tab v').
Proof.
  intros HI HV Hr Hok. unfold dstep.
  set (v0 := set_m v (clear_calls (set_fault (v_m v) f 0))).
  assert (Hms : forall m ff n, mach_sameA c m (clear_calls (set_fault m ff n))).
  { intros m ff n. eapply (mach_sameA_trans c Hc Hmax Hlarge); [apply (mach_sameA_set_fault c Hc Hmax Hlarge)|apply (mach_sameA_clear c Hc Hmax Hlarge)]. }
  assert (I0 : VamInvA v0 [] []) by (apply (VamInvA_mach_same c Hc Hmax Hlarge); [exact HI|apply Hms]).
  assert (Hr0 : drun_ok v0 run) by (destruct run as [rn|]; [apply run_ok_set_m; exact Hr|exact I]).
  assert (Hok0 : dop_ok v0 run o) by (destruct o; cbn in *; auto).
  pose proof (dexec_invA v0 run o I0 (VamGran.GR_set_m c v _ HV) Hr0 Hok0) as E. destruct (dexec c v0 run o) as (((v1 & run1) & r) & dr).
  intros Hp Hs Hbound. cbn [v_tab set_m] in Hbound.
  destruct r as [[]|code| |]; cbn in Hp, Hs; try congruence; cbn in E; destruct (E Hbound) as (A & B & C0);
    (split; [apply (VamInvA_mach_same c Hc Hmax Hlarge); [exact A|apply Hms]|];
     split; [destruct run1 as [rn1|]; [apply run_ok_set_m; exact B|exact I]|exact C0]).
Qed.

End WithCfg.

(* ---------------------------------------------------------------- histories with defragmentation, accounting domain *)

Section Thm.
Variable c : vcfg.
Hypothesis Ha : cfg_acct c.
Let Hc := ca_ok c Ha.
Let Hmax := ca_max c Ha.
Let Hlarge := ca_large c Ha.

Notation VamInvA := (VamAcctStep.VamInvA c).

(* reachD in the domain of the budget counters: sizes below 2^62 (op_dom), at most 2^22 Allocation objects (the
   temporaries of a pass are new objects: a defragmentation call whose result exceeds the bound ends the claim) *)
Inductive reachDA : vam -> option dfrun -> Prop :=
| reachDA_new nslots v : vam_new c nslots = OK v -> Z.of_nat nslots <= 4194304 -> reachDA v None
| reachDA_step v run o f v' r calls :
    reachDA v run -> op_avoids run o -> op_ok v o -> op_dom o -> step c v o f = (v', r, calls) -> r <> RPanic -> r <> RStuck ->
    reachDA v' run
| reachDA_dstep v run o f v' run' r calls dr :
    reachDA v run -> dop_ok v run o -> dstep c v run o f = (v', run', r, calls, dr) -> r <> RPanic -> r <> RStuck ->
    zlen (v_tab v') <= 4194304 -> reachDA v' run'.

Lemma reachDA_reachD v run : reachDA v run -> reachD c v run.
Proof.
  induction 1; [eapply reachD_new; eauto|eapply reachD_step; eauto|eapply reachD_dstep; eauto].
Qed.

Theorem reachDA_inv v run : reachDA v run -> VamInvA v [] [] /\ drun_ok v run.
Proof.
  intros R. induction R as [nslots v H Hn|v run o f v' r calls R IH Hidle Hok Hd Hs Hp Hk|v run o f v' run' r calls dr R IH Hok Hs Hp Hk Hb].
  - split; [eapply (vam_new_inv c Hc Hmax Hlarge); eauto|exact I].
  - destruct IH as (HI & Hr). pose proof (step_preservesA c Ha v o f HI Hok Hd) as P. rewrite Hs in P. destruct (P Hp Hk) as (I1 & _).
    pose proof (step_frame c Hc v o f (va_s _ _ _ _ HI) Hok) as F. rewrite Hs in F. specialize (F Hp Hk).
    split; [exact I1|]. destruct run as [rn|]; [|exact I]. eapply run_ok_avoid_frame; eauto.
  - destruct IH as (HI & Hr). pose proof (dstep_preservesA c Hc Hmax Hlarge v run o f HI (reachD_gv c Hc v run (reachDA_reachD v run R)) Hr Hok) as P. rewrite Hs in P.
    destruct (P Hp Hk Hb) as (I1 & R1 & _). auto.
Qed.


Lemma reachA_reachDA v : reachA c v -> reachDA v None.
Proof. induction 1; [eapply reachDA_new; eauto|eapply reachDA_step; eauto; apply idle_avoids; exact I]. Qed.

(* C04: the budget counters equal device truth, also between and after the passes of a defragmentation *)
Theorem budget_equals_truth_defrag v run :
  reachDA v run ->
  (forall h, heaps (m_bud (v_m v)) h = mkHc (dev_count c v h) (alloc_count c v h) (dev_bytes c v h) (alloc_bytes c v h)) /\
  memCount (m_bud (v_m v)) = zlen (m_mems (v_m v)).
Proof.
  intros R. pose proof (ai_mb _ _ _ (VamAcctStep.va_a _ _ _ _ (proj1 (reachDA_inv v run R)))) as M. split.
  - intros h. apply (MB_counters c Hc Hmax Hlarge). exact M.
  - eapply (MB_memcount c Hc Hmax Hlarge). exact M.
Qed.

Theorem usage_equals_truth_defrag v run h :
  reachDA v run -> budget_active c = false ->
  let '(m', usage, budget) := heap_budget c (v_m v) h in usage = dev_bytes c v h.
Proof.
  intros R Hext. destruct (budget_equals_truth_defrag v run R) as (Hh & _). unfold heap_budget, Budget.heap_budget.
  assert (E : budgetExt (bcfg_of c) = false) by exact Hext. rewrite E. cbn [andb negb fst snd]. rewrite Hh. reflexivity.
Qed.

(* C04: the statistics walk equals device truth *)
Theorem stats_equal_truth_defrag v run t :
  reachDA v run -> exists d, type_dstats v t = Some d /\ basic d = type_truth v t.
Proof. intros R. apply (stats_equal_truth c). apply (va_s _ _ _ _ (proj1 (reachDA_inv v run R))). Qed.

(* C11 *)
Theorem heap_size_respected_defrag v run h : reachDA v run -> dev_bytes c v h <= heap_size c h.
Proof.
  intros R. destruct (ai_mb _ _ _ (VamAcctStep.va_a _ _ _ _ (proj1 (reachDA_inv v run R)))) as (g & _ & _ & _ & _ & _ & Cap & _). apply Cap.
Qed.

Theorem count_limit_respected_defrag v run : reachDA v run -> zlen (m_mems (v_m v)) <= c_maxcount c.
Proof.
  intros R. destruct (ai_mb _ _ _ (VamAcctStep.va_a _ _ _ _ (proj1 (reachDA_inv v run R)))) as (g & B & L & C0 & Pm & _).
  assert (E : zlen (m_mems (v_m v)) = len (g_mems g)).
  { rewrite (perm_len _ _ Pm). unfold len, mems_truth, zlen. rewrite map_length. reflexivity. }
  rewrite E. apply C0. cbn. lia.
Qed.

End Thm.
