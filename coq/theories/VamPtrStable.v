(* VamPtrStable.v — C14, the stability half of the pointer value: while an Allocation on a memory object has an outstanding
   user Map or is persistently mapped, and still has it after the call, the call contains no vkUnmapMemory, no vkFreeMemory
   and no successful vkMapMemory of that object - the mapping the user's pointer points into is the same mapping afterwards.

   The argument is made at the boundary of the call where it can be: a vkUnmapMemory of the object that is not followed,
   in the same call, by a successful vkMapMemory of it leaves the object unmapped (replay_star), but the object is mapped
   after the call because it still has a user (VamBalThm.mapped_while_in_use(_defrag)).  That settles every call whose log
   cannot contain "unmap M ... map M" for reasons of the code alone (VamCallPass: the functions never reach
   SynchronizedMemory.Map, or reach it only before any Unmap). *)
From Coq Require Import ZArith List Bool Lia Permutation.
From Arsenal Require Import Util Budget VamDev VamBlockList VamDefrag Vam VamInvMeta VamInv VamInvUpd VamInvDev VamInvStep VamInvStep2.
From Arsenal Require Import VamMap.
From Arsenal Require SyncMem.
Import ListNotations.
Open Scope Z_scope.

(* ---------------------------------------------------------------- replaying a log: what an unmap / a free leaves *)

Definition cntM (M : Z) (ms : list dmem) : nat := length (filter (fun d => dm_id d =? M) ms).

Lemma cnt_set_mapped M ms id b : cntM M (set_mem_mapped ms id b) = cntM M ms.
Proof.
  unfold cntM. induction ms as [|x ms IH]; cbn; [reflexivity|]. destruct (dm_id x =? id); cbn; [destruct (dm_id x =? M); reflexivity|]. destruct (dm_id x =? M); cbn; rewrite IH; reflexivity.
Qed.

Lemma cnt_remove_other M ms id : id <> M -> cntM M (remove_mem ms id) = cntM M ms.
Proof.
  intros Hne. unfold cntM. induction ms as [|x ms IH]; cbn; [reflexivity|]. destruct (dm_id x =? id) eqn:E.
  - apply Z.eqb_eq in E. destruct (dm_id x =? M) eqn:E2; [apply Z.eqb_eq in E2; congruence|reflexivity].
  - cbn. destruct (dm_id x =? M); cbn; rewrite IH; reflexivity.
Qed.

Lemma cnt_remove_same M ms d : find_mem ms M = Some d -> S (cntM M (remove_mem ms M)) = cntM M ms.
Proof.
  unfold cntM. induction ms as [|x ms IH]; cbn; [discriminate|]. destruct (dm_id x =? M) eqn:E; cbn; [reflexivity|]. rewrite E. exact IH.
Qed.

Lemma cnt_zero_find M ms : cntM M ms = O -> find_mem ms M = None.
Proof. unfold cntM. induction ms as [|x ms IH]; cbn; [reflexivity|]. destruct (dm_id x =? M); cbn; [discriminate|exact IH]. Qed.

Lemma find_none_cnt M ms : find_mem ms M = None -> cntM M ms = O.
Proof. unfold cntM. induction ms as [|x ms IH]; cbn; [reflexivity|]. destruct (dm_id x =? M); cbn; [discriminate|exact IH]. Qed.

Lemma cnt_app M ms d : cntM M (ms ++ [d]) = (cntM M ms + (if Z.eqb (dm_id d) M then 1 else 0))%nat.
Proof. unfold cntM. rewrite filter_app, app_length. cbn. destruct (dm_id d =? M); reflexivity. Qed.

Lemma nodup_cnt M ms : NoDup (map dm_id ms) -> (cntM M ms <= 1)%nat.
Proof.
  unfold cntM. induction ms as [|x ms IH]; cbn; [lia|]. intros H. inversion H as [|? ? Hx Hr]; subst. destruct (dm_id x =? M) eqn:E; cbn; [|apply IH; exact Hr].
  apply Z.eqb_eq in E. assert (Hz : length (filter (fun d => dm_id d =? M) ms) = O); [|lia].
  destruct (filter (fun d => dm_id d =? M) ms) as [|y l] eqn:Ef; [reflexivity|]. exfalso. assert (Hy : In y (filter (fun d => dm_id d =? M) ms)) by (rewrite Ef; left; reflexivity).
  apply filter_In in Hy. destruct Hy as (Hy & Ey). apply Z.eqb_eq in Ey. apply Hx. rewrite E, <- Ey. apply in_map. exact Hy.
Qed.

Lemma find_set_mapped_none ms id b M : find_mem ms M = None -> find_mem (set_mem_mapped ms id b) M = None.
Proof. intros H. apply cnt_zero_find. rewrite cnt_set_mapped. apply find_none_cnt. exact H. Qed.

Lemma snoc_cases {A} (l : list A) : l = [] \/ exists l' x, l = l' ++ [x].
Proof. destruct l as [|a l]; [left; reflexivity|]. right. destruct (exists_last (l := a :: l)) as (l' & x & E); [discriminate|eauto]. Qed.

Definition succ_alloc_ne (M : Z) (cs : list call) : Prop := forall id ty size ded, In (CAlloc id ty size ded 0) cs -> id <> M.

(* what one call does to "the object M is gone" / "the object M is unmapped" *)
Lemma eff_keeps_none M ms k ms' : call_eff ms k ms' -> (forall id ty size ded, k = CAlloc id ty size ded 0 -> id <> M) ->
  find_mem ms M = None -> find_mem ms' M = None.
Proof.
  intros He Hk Hn. destruct k; cbn in He; subst ms'; auto.
  - destruct (result =? 0) eqn:E; [|exact Hn]. apply Z.eqb_eq in E. subst result. rewrite find_mem_app, Hn. cbn.
    destruct (mem =? M) eqn:E2; [apply Z.eqb_eq in E2; exfalso; eapply Hk; eauto|reflexivity].
  - apply cnt_zero_find. destruct (Z.eq_dec mem M) as [->|Hne]; [|rewrite cnt_remove_other by exact Hne; apply find_none_cnt; exact Hn].
    pose proof (find_none_cnt _ _ Hn) as H0. unfold cntM in *. clear - H0. induction ms as [|x ms IH]; cbn in *; [reflexivity|].
    destruct (dm_id x =? M) eqn:E; cbn in *; [discriminate|]. rewrite E. cbn. apply IH. exact H0.
  - destruct (result =? 0); [apply find_set_mapped_none|]; exact Hn.
  - apply find_set_mapped_none. exact Hn.
Qed.

Lemma eff_cnt M ms k ms' : call_eff ms k ms' -> (forall id ty size ded, k = CAlloc id ty size ded 0 -> id <> M) ->
  (cntM M ms' <= cntM M ms)%nat.
Proof.
  intros He Hk. destruct k; cbn in He; subst ms'; auto.
  - destruct (result =? 0) eqn:E; [|lia]. apply Z.eqb_eq in E. subst result. rewrite cnt_app. cbn.
    destruct (mem =? M) eqn:E2; [apply Z.eqb_eq in E2; exfalso; eapply Hk; eauto|lia].
  - destruct (Z.eq_dec mem M) as [->|Hne]; [|rewrite cnt_remove_other by exact Hne; lia].
    destruct (find_mem ms M) as [d|] eqn:Ef; [pose proof (cnt_remove_same _ _ _ Ef); lia|].
    pose proof (find_none_cnt _ _ Ef) as H0. assert (find_mem (remove_mem ms M) M = None) by (eapply (eff_keeps_none M ms (CFree M)); [reflexivity|intros; discriminate|exact Ef]).
    rewrite (find_none_cnt _ _ H). lia.
  - destruct (result =? 0); [rewrite cnt_set_mapped|]; lia.
  - rewrite cnt_set_mapped. lia.
Qed.

Definition unmapped (M : Z) (ms : list dmem) : Prop := forall d, find_mem ms M = Some d -> dm_mapped d = false.

Lemma eff_keeps_unmapped M ms k ms' : call_eff ms k ms' -> (forall id ty size ded, k = CAlloc id ty size ded 0 -> id <> M) ->
  (forall off size, k <> CMap M off size 0) -> (cntM M ms <= 1)%nat -> unmapped M ms -> unmapped M ms'.
Proof.
  intros He Hk Hm Hc Hu. destruct k; cbn in He; subst ms'; auto.
  - destruct (result =? 0) eqn:E; [|exact Hu]. apply Z.eqb_eq in E. subst result. intros d. rewrite find_mem_app.
    destruct (find_mem ms M) as [x|] eqn:Ef; [intros H; injection H as <-; apply Hu; exact Ef|]. cbn.
    destruct (mem =? M) eqn:E2; [apply Z.eqb_eq in E2; exfalso; eapply Hk; eauto|discriminate].
  - destruct (Z.eq_dec mem M) as [->|Hne]; [|intros d; rewrite find_remove_mem_other' by (intros E; apply Hne; symmetry; exact E); apply Hu].
    intros d Hd. exfalso. destruct (find_mem ms M) as [x|] eqn:Ef.
    + pose proof (cnt_remove_same _ _ _ Ef) as H1. assert (Hz : cntM M (remove_mem ms M) = O) by lia. rewrite (cnt_zero_find _ _ Hz) in Hd. discriminate.
    + rewrite (eff_keeps_none M ms (CFree M) _ eq_refl ltac:(intros; discriminate) Ef) in Hd. discriminate.
  - destruct (result =? 0) eqn:E; [|exact Hu]. apply Z.eqb_eq in E. subst result. destruct (Z.eq_dec mem M) as [->|Hne]; [exfalso; eapply Hm; reflexivity|].
    intros d. rewrite find_set_mapped_other by (intros E; apply Hne; symmetry; exact E). apply Hu.
  - destruct (Z.eq_dec mem M) as [->|Hne].
    + intros d Hd. destruct (find_mem ms M) as [x|] eqn:Ef; [rewrite (find_set_mapped_same _ _ false _ Ef) in Hd; injection Hd as <-; reflexivity|].
      rewrite (find_set_mapped_none _ _ _ _ Ef) in Hd. discriminate.
    + intros d. rewrite find_set_mapped_other by (intros E; apply Hne; symmetry; exact E). apply Hu.
Qed.

(* a vkFreeMemory of M leaves M dead; a vkUnmapMemory of M that no successful vkMapMemory of M follows leaves M unmapped *)
Lemma replay_star M ms cs ms' :
  replay ms cs ms' -> (cntM M ms <= 1)%nat -> succ_alloc_ne M cs ->
  (cntM M ms' <= 1)%nat /\
  (In (CFree M) cs -> find_mem ms' M = None) /\
  (forall pre post, cs = pre ++ CUnmap M :: post -> (forall off size, ~ In (CMap M off size 0) post) -> unmapped M ms').
Proof.
  induction 1 as [ms|ms cs ms1 k ms2 R IH Hok He]; intros Hc Ha.
  - split; [exact Hc|]. split; [intros []|]. intros pre post E. destruct pre; discriminate.
  - assert (Ha1 : succ_alloc_ne M cs) by (intros id ty size ded Hin; apply (Ha id ty size ded); apply in_app_iff; left; exact Hin).
    assert (Hk : forall id ty size ded, k = CAlloc id ty size ded 0 -> id <> M) by (intros id ty size ded ->; apply (Ha id ty size ded); apply in_app_iff; right; left; reflexivity).
    destruct (IH Hc Ha1) as (C1 & F1 & U1). pose proof (eff_cnt M ms1 k ms2 He Hk) as C2.
    split; [lia|]. split.
    + intros Hin. apply in_app_iff in Hin. destruct Hin as [Hin|[Ek|[]]]; [apply (eff_keeps_none M ms1 k ms2 He Hk); apply F1; exact Hin|]. subst k.
      cbn in Hok, He. destruct Hok as (d & Hd). subst ms2. pose proof (cnt_remove_same _ _ _ Hd). apply cnt_zero_find. lia.
    + intros pre post E Hnm. destruct (snoc_cases post) as [->|(post' & x & ->)].
      * apply app_inj_tail in E. destruct E as (-> & ->). cbn in Hok, He. destruct Hok as (d & Hd & _). subst ms2.
        intros d' Hd'. rewrite (find_set_mapped_same _ _ false _ Hd) in Hd'. injection Hd' as <-. reflexivity.
      * rewrite app_comm_cons, app_assoc in E. apply app_inj_tail in E. destruct E as (-> & ->).
        apply (eff_keeps_unmapped M ms1 x ms2 He Hk); [intros off size ->; apply (Hnm off size); apply in_app_iff; right; left; reflexivity|exact C1|].
        apply (U1 pre post' eq_refl). intros off size Hin. apply (Hnm off size). apply in_app_iff. left. exact Hin.
Qed.

(* a mapped object stays mapped as long as it is neither unmapped nor freed, and then nobody can map it *)
Definition mappedM (M : Z) (ms : list dmem) : Prop := exists d, find_mem ms M = Some d /\ dm_mapped d = true.

Lemma replay_no_map M ms cs ms' :
  replay ms cs ms' -> mappedM M ms -> ~ In (CUnmap M) cs -> ~ In (CFree M) cs ->
  mappedM M ms' /\ forall off size r, ~ In (CMap M off size r) cs.
Proof.
  induction 1 as [ms|ms cs ms1 k ms2 R IH Hok He]; intros Hm Hu Hf.
  - split; [exact Hm|]. intros off size r [].
  - destruct (IH Hm ltac:(intros H; apply Hu; apply in_app_iff; auto) ltac:(intros H; apply Hf; apply in_app_iff; auto)) as ((d & Fd & Md) & Nm).
    assert (Hk : mappedM M ms2 /\ forall off size r, k <> CMap M off size r).
    { destruct k; cbn in Hok, He; subst ms2.
      - split; [|intros; discriminate]. destruct (result =? 0); [|exists d; auto]. exists d. split; [apply find_mem_app_old; exact Fd|exact Md].
      - split; [|intros; discriminate]. assert (mem <> M) by (intros ->; apply Hf; apply in_app_iff; right; left; reflexivity).
        exists d. split; [rewrite find_remove_mem_other' by congruence; exact Fd|exact Md].
      - destruct (Z.eq_dec mem M) as [->|Hne].
        + exfalso. destruct Hok as (d0 & F0 & M0). congruence.
        + split; [|intros o s r E; injection E as E _ _ _; contradiction]. destruct (result =? 0); [|exists d; auto].
          exists d. split; [rewrite find_set_mapped_other by congruence; exact Fd|exact Md].
      - split; [|intros; discriminate]. assert (mem <> M) by (intros ->; apply Hu; apply in_app_iff; right; left; reflexivity).
        exists d. split; [rewrite find_set_mapped_other by congruence; exact Fd|exact Md].
      - split; [exists d; auto|intros; discriminate].
      - split; [exists d; auto|intros; discriminate].
      - split; [exists d; auto|intros; discriminate].
      - split; [exists d; auto|intros; discriminate].
      - split; [exists d; auto|intros; discriminate]. }
    destruct Hk as (Hm2 & Hnk). split; [exact Hm2|]. intros off size r Hin. apply in_app_iff in Hin. destruct Hin as [Hin|[E|[]]]; [eapply Nm; eauto|eapply Hnk; eauto].
Qed.

(* no vkUnmapMemory of M is followed by a successful vkMapMemory of M *)
Definition no_remap (M : Z) (cs : list call) : Prop :=
  forall pre post, cs = pre ++ CUnmap M :: post -> forall off size, ~ In (CMap M off size 0) post.

(* the argument at the boundary of a call *)
Lemma boundary_keeps_mapping M ms cs ms' :
  replay ms cs ms' -> NoDup (map dm_id ms) -> mappedM M ms -> mappedM M ms' -> succ_alloc_ne M cs -> no_remap M cs ->
  ~ In (CUnmap M) cs /\ ~ In (CFree M) cs /\ forall off size r, ~ In (CMap M off size r) cs.
Proof.
  intros R Hnd Hm (d' & Fd' & Md') Ha Hnr. destruct (replay_star M ms cs ms' R (nodup_cnt M ms Hnd) Ha) as (_ & HF & HU).
  assert (N1 : ~ In (CUnmap M) cs).
  { intros Hin. apply in_split in Hin. destruct Hin as (pre & post & E). pose proof (HU pre post E (Hnr pre post E) d' Fd'). congruence. }
  assert (N2 : ~ In (CFree M) cs) by (intros Hin; rewrite (HF Hin) in Fd'; discriminate).
  split; [exact N1|]. split; [exact N2|]. apply (replay_no_map M ms cs ms' R Hm N1 N2).
Qed.

(* ---------------------------------------------------------------- on reachable states *)

From Arsenal Require Import VamInvThm VamProps VamAcct VamAcctStep VamAcctThm VamMapThm VamBal VamBalThm.
From Arsenal Require Import VamDefragThm VamDefragAcct VamDefragMap VamDefragBal VamDefragMem VamCallPass VamMonoRefs.
From Arsenal Require VamPointer.

(* slot s holds an Allocation on memory object M that is in use: an outstanding user Map, or persistently mapped *)
Definition used (v : vam) (G : Z -> Z) (s M : Z) : Prop :=
  exists a, slot_is v s a /\ a_mem a = M /\ (1 <= G s \/ a_persist a = true).

(* the calls of a log that concern the mapping of M *)
Definition keeps_mapping (M : Z) (calls : list call) : Prop :=
  ~ In (CUnmap M) calls /\ ~ In (CFree M) calls /\ forall off size r, ~ In (CMap M off size r) calls.

Section Reach.
Variable c : vcfg.
Hypothesis Ha : cfg_acct c.

Lemma used_mapped v run G s M : reachDB c v run G -> used v G s M -> mappedM M (m_mems (v_m v)).
Proof. intros R (a & Sa & <- & Hu). apply (mapped_while_in_use_defrag c Ha v run G s a R Sa Hu). Qed.

Lemma reachDB_nodup v run G : reachDB c v run G -> NoDup (map dm_id (m_mems (v_m v))).
Proof. intros R. apply (vi_dev_nodup _ _ _ _ (va_s _ _ _ _ (proj1 (reachDA_inv c Ha v run (reachDB_reachDA c Ha v run G R))))). Qed.

(* an API call *)
Lemma step_keeps_mapping_of v run G o f v' r calls p p' M :
  reachDB c v run G -> op_avoids run o -> op_ok v o -> op_dom o -> op_bal G o -> step c v o f = (v', r, calls) -> r <> RPanic -> r <> RStuck ->
  used v G p M -> used v' (gstep G o r) p' M -> succ_alloc_ne M calls -> no_remap M calls -> keeps_mapping M calls.
Proof.
  intros R Hav Hok Hd Hbal Hs Hp Hk U U' Hal Hnr.
  pose proof (reachDB_step c v run G o f v' r calls R Hav Hok Hd Hbal Hs Hp Hk) as R'.
  pose proof (reachDB_reachDA c Ha v run G R) as RA. destruct (reachDA_inv c Ha v run RA) as (HI & _).
  assert (Rp : replay (m_mems (v_m v)) calls (m_mems (v_m v'))).
  { pose proof (step_preservesM c Ha v o f HI (reachDA_map c Ha v run RA) Hok Hd) as P. rewrite Hs in P. apply P; auto. }
  apply (boundary_keeps_mapping M _ _ _ Rp (reachDB_nodup v run G R) (used_mapped v run G p M R U) (used_mapped v' run _ p' M R' U') Hal Hnr).
Qed.

(* a defragmentation call *)
Lemma dstep_keeps_mapping_of v run G o f v' run' r calls dr p p' M :
  reachDB c v run G -> dop_ok v run o -> dop_bal G run o -> dstep c v run o f = (v', run', r, calls, dr) -> r <> RPanic -> r <> RStuck ->
  zlen (v_tab v') <= 4194304 ->
  used v G p M -> used v' G p' M -> succ_alloc_ne M calls -> no_remap M calls -> keeps_mapping M calls.
Proof.
  intros R Hok Hbal Hs Hp Hk Hz U U' Hal Hnr.
  pose proof (reachDB_dstep c v run G o f v' run' r calls dr R Hok Hbal Hs Hp Hk Hz) as R'.
  pose proof (reachDB_reachDA c Ha v run G R) as RA.
  pose proof (dstep_calls_valid c Ha v run o f v' run' r calls dr RA Hok Hs Hp Hk) as Rp.
  apply (boundary_keeps_mapping M _ _ _ Rp (reachDB_nodup v run G R) (used_mapped v run G p M R U) (used_mapped v' run' G p' M R' U') Hal Hnr).
Qed.

(* ---- what the code alone says about the logs *)

Definition quiet_call (k : call) : Prop := match k with CMap _ _ _ _ | CAlloc _ _ _ _ _ => False | _ => True end.
Definition map_only (k : call) : Prop := match k with CMap _ _ _ _ | CFlush _ _ _ _ _ => True | _ => False end.
Definition unmap_only (k : call) : Prop := match k with CUnmap _ => True | _ => False end.

Lemma quiet_log M cs : Forall quiet_call cs -> succ_alloc_ne M cs /\ no_remap M cs.
Proof.
  intros F. rewrite Forall_forall in F. split.
  - intros id ty size ded Hin. destruct (F _ Hin).
  - intros pre post -> off size Hin. apply (F (CMap M off size 0)). apply in_app_iff. right. right. exact Hin.
Qed.

Lemma step_log (P : call -> Prop) v o f v' r calls :
  (forall w, NAv P w (fst (exec c w o))) -> step c v o f = (v', r, calls) -> Forall P calls.
Proof.
  intros H Hs. unfold step in Hs. set (v0 := set_m v (clear_calls (set_fault (v_m v) f 0))) in *. specialize (H v0).
  destruct (exec c v0 o) as (v1 & r1). cbn [fst] in H. injection Hs as _ _ <-. destruct H as (l & E & F). cbn in E. rewrite app_nil_r in E. rewrite E. apply Forall_rev. exact F.
Qed.

Lemma dstep_log (P : call -> Prop) v run o f v' run' r calls dr :
  (forall w, NAv P w (fst (fst (fst (dexec c w run o))))) -> dstep c v run o f = (v', run', r, calls, dr) -> Forall P calls.
Proof.
  intros H Hs. unfold dstep in Hs. set (v0 := set_m v (clear_calls (set_fault (v_m v) f 0))) in *. specialize (H v0).
  destruct (dexec c v0 run o) as (((v1 & run1) & r1) & dr1). cbn [fst] in H. injection Hs as _ _ _ <- _. destruct H as (l & E & F). cbn in E. rewrite app_nil_r in E. rewrite E. apply Forall_rev. exact F.
Qed.

(* the API calls that never reach SynchronizedMemory.Map or vkAllocateMemory *)
Definition op_quiet (o : op) : Prop :=
  match o with
  | OFree _ | OFreeN _ _ | OUnmap _ | OFlush _ _ _ _ | ORmPool _ | OStats _ | ODestroy | ODestroyRes _ _ _ | OBind _ _ _ _
  | ORawCreate _ _ _ | ORawDestroy _ _ => True
  | _ => False
  end.

Lemma exec_quiet w o : op_quiet o -> NAv quiet_call w (fst (exec c w o)).
Proof.
  intros Hq. destruct o; try destruct Hq; cbn [exec].
  - apply allocation_free_L; intros; exact I.
  - apply multi_free_L; intros; exact I.
  - apply allocation_unmap_L; intros; exact I.
  - apply allocation_flush_L; intros; exact I.
  - apply pool_destroy_L; intros; exact I.
  - apply build_stats_string_L; intros; exact I.
  - apply allocator_destroy_L; intros; exact I.
  - apply destroy_with_resource_L; intros; exact I.
  - apply bind_memory_L; intros; exact I.
  - apply raw_create_L; intros; exact I.
  - apply raw_destroy_L; intros; exact I.
Qed.

Lemma only_map_log M cs : Forall map_only cs -> succ_alloc_ne M cs /\ no_remap M cs.
Proof.
  intros F. rewrite Forall_forall in F. split.
  - intros id ty size ded Hin. destruct (F _ Hin).
  - intros pre post -> off size _. apply (F (CUnmap M)). apply in_app_iff. right. left. reflexivity.
Qed.

Lemma exec_map w s : NAv map_only w (fst (exec c w (OMap s))).
Proof. cbn [exec]. apply allocation_map_L. intros; exact I. Qed.

(* the harness' read/write: Map, then Unmap *)
Lemma exec_rw w s : exists l1 l2, m_calls (v_m (fst (exec c w (ORw s)))) = l2 ++ l1 ++ m_calls (v_m w) /\ Forall map_only l1 /\ Forall unmap_only l2.
Proof.
  cbn [exec]. unfold harness_rw. pose proof (allocation_map_L c map_only ltac:(intros; exact I) w s) as H. destruct (allocation_map c w s) as (v1 & r). cbn [fst] in H.
  destruct H as (l1 & E1 & F1).
  destruct r as [[]|code| |]; cbn [fst]; try (exists l1, []; split; [exact E1|split; [exact F1|constructor]]).
  pose proof (allocation_unmap_L unmap_only ltac:(intros; exact I) v1 s) as H2. destruct (allocation_unmap v1 s) as (v2 & ur). cbn [fst] in *.
  destruct H2 as (l2 & E2 & F2). exists l1, l2. rewrite E2, E1. auto.
Qed.

Lemma rw_log M l1 l2 : Forall map_only l1 -> Forall unmap_only l2 -> succ_alloc_ne M (rev l1 ++ rev l2) /\ no_remap M (rev l1 ++ rev l2).
Proof.
  intros F1 F2. apply Forall_rev in F1. apply Forall_rev in F2. rewrite Forall_forall in F1, F2. split.
  - intros id ty size ded Hin. apply in_app_iff in Hin. destruct Hin as [Hin|Hin]; [destruct (F1 _ Hin)|destruct (F2 _ Hin)].
  - intros pre post E off size Hin. apply app_eq_app in E. destruct E as (l & [(E1 & E2)|(E1 & E2)]).
    + destruct l as [|x l]; [cbn in E2; apply (F2 (CMap M off size 0)); rewrite <- E2; right; exact Hin|].
      injection E2 as <- E2. apply (F1 (CUnmap M)). rewrite E1. apply in_app_iff. right. left. reflexivity.
    + apply (F2 (CMap M off size 0)). rewrite E2. apply in_app_iff. right. right. exact Hin.
Qed.

(* BeginDefragmentation, EndDefragPass, Finish never reach SynchronizedMemory.Map or vkAllocateMemory *)
Lemma dexec_quiet w run o : o <> DPass -> NAv quiet_call w (fst (fst (fst (dexec c w run o)))).
Proof.
  intros Hne. destruct o as [flags pool mb ma| |ds|]; [|contradiction| |]; cbn [dexec].
  - pose proof (defrag_begin_R c (NA quiet_call) (NA_refl quiet_call) w flags pool mb ma) as H. destruct (defrag_begin c w flags pool mb ma) as (v1 & r). cbn [fst] in H. destruct r; exact H.
  - destruct run as [rn|]; [|apply NAv_refl].
    pose proof (defrag_end_R c (NA quiet_call) (NA_refl quiet_call) (NA_trans quiet_call) (fun v lr s keep => bl_free_L c quiet_call ltac:(intros; exact I) ltac:(intros; exact I) v lr s keep) w rn ds) as H.
    destruct (defrag_end c w rn ds) as ((v1 & rn') & r). cbn [fst] in H. destruct r; exact H.
  - destruct run as [rn|]; [|apply NAv_refl]. pose proof (defrag_finish_m w rn) as H. destruct (defrag_finish w rn) as (v1 & st). cbn [fst] in *. apply NAv_eq. exact H.
Qed.

Lemma dop_eq_pass (o : dop) : o = DPass \/ o <> DPass.
Proof. destruct o; [right; discriminate|left; reflexivity|right; discriminate|right; discriminate]. Qed.

(* ---- BeginDefragPass only adds references *)

Lemma used_RG v run G p M : reachDB c v run G -> used v G p M -> RG M 1 v /\ M <= m_next (v_m v).
Proof.
  intros R (a & Sa & Em & Hu). pose proof (reachDB_reachDA c Ha v run G R) as RA. pose proof (reachDB_bal c Ha v run G R) as HB.
  pose proof (va_s _ _ _ _ (proj1 (reachDA_inv c Ha v run RA))) as HU.
  destruct (mapped_while_in_use_defrag c Ha v run G p a R Sa Hu) as (d & Fd & _). rewrite Em in Fd.
  split.
  - intros b (lr & l & Hg & Hb) Eb. rewrite (bb_blocks _ _ _ HB _ _ _ Hg Hb), Eb.
    destruct (vi_slots _ _ _ _ HU p a Sa (fun H => H)) as [(K & _)|(K & _)].
    + assert (Hp : 1 <= users v G [] M p).
      { rewrite users_live; [|rewrite (get_alloc_slot _ _ _ Sa); apply Sa|intros []|rewrite (get_alloc_slot _ _ _ Sa); exact K|rewrite (get_alloc_slot _ _ _ Sa); exact Em].
        rewrite (get_alloc_slot _ _ _ Sa). pose proof (bb_G _ _ _ HB p). unfold pcount. destruct Hu as [Hu|Hu]; [destruct (a_persist a); lia|rewrite Hu; lia]. }
      pose proof (refs_truth_ge v G [] M p (bb_G _ _ _ HB) (slot_is_range _ _ _ Sa)). lia.
    + exfalso. apply (vi_ded_not_block _ _ _ _ HU p a lr l b Sa K Hg Hb). congruence.
  - destruct (find_mem_in _ _ _ Fd) as (Hin & Hid). pose proof (vi_dev_next _ _ _ _ HU) as Hn. rewrite Forall_forall in Hn. specialize (Hn d Hin). lia.
Qed.

Lemma no_unmap_log M cs : ~ In (CUnmap M) cs -> no_remap M cs.
Proof. intros H pre post -> off size _. apply H. apply in_app_iff. right. left. reflexivity. Qed.

Lemma dpass_no_unmap v run G f v' run' r calls dr p M :
  reachDB c v run G -> used v G p M -> dstep c v run DPass f = (v', run', r, calls, dr) -> ~ In (CUnmap M) calls.
Proof.
  intros R U Hs. destruct (used_RG v run G p M R U) as (HR & Hn). unfold dstep in Hs.
  set (v0 := set_m v (clear_calls (set_fault (v_m v) f 0))) in *. cbn [dexec] in Hs.
  assert (H : RG M 1 v0 -> M <= m_next (v_m v0) -> NA (P M) (v_m v0) (v_m (fst (fst (fst (match run with Some rn => let '(v1, rn', r) := defrag_pass c v0 rn in
      match r with OK mvs => (v1, Some rn', OK tt, DRMoves mvs) | ER code => (v1, Some rn', ER code, DRNone) | PANIC => (v1, Some rn', PANIC, DRNone) | STUCK => (v1, Some rn', STUCK, DRNone) end
      | None => (v0, run, STUCK, DRNone) end)))))).
  { intros HR0 Hn0. destruct run as [rn|]; [|apply NA_refl]. pose proof (defrag_pass_F c M v0 rn Hn0) as (_ & _ & N).
    destruct (defrag_pass c v0 rn) as ((v1 & rn') & r1). cbn [fst] in N. destruct r1; cbn [fst]; apply N; exact HR0. }
  specialize (H ltac:(eapply RG_same; [|exact HR]; intros; apply get_blist_set_m) Hn).
  destruct (match run with Some rn => _ | None => _ end) as (((v1 & run1) & r1) & dr1). cbn [fst] in H. injection Hs as _ _ _ <- _.
  destruct H as (l & E & F). cbn in E. rewrite app_nil_r in E. rewrite E. intros Hin. apply in_rev in Hin. rewrite Forall_forall in F. apply (proj1 (F _ Hin)). reflexivity.
Qed.

Lemma noalloc_ne M cs : Forall VamPropsOps.not_alloc_call cs -> succ_alloc_ne M cs.
Proof. intros F id ty size ded Hin. rewrite Forall_forall in F. destruct (F _ Hin). Qed.

(* C14: a defragmentation call leaves the mapping of every memory object alone that has a user before and after it *)
Theorem dstep_keeps_mapping v run G o f v' run' r calls dr p p' M :
  reachDB c v run G -> dop_ok v run o -> dop_bal G run o -> dstep c v run o f = (v', run', r, calls, dr) -> r <> RPanic -> r <> RStuck ->
  zlen (v_tab v') <= 4194304 -> used v G p M -> used v' G p' M -> keeps_mapping M calls.
Proof.
  intros R Hok Hbal Hs Hp Hk Hz U U'. apply (dstep_keeps_mapping_of v run G o f v' run' r calls dr p p' M R Hok Hbal Hs Hp Hk Hz U U').
  - apply noalloc_ne. apply (dstep_never_allocates c v run o f v' run' r calls dr Hs).
  - destruct (dop_eq_pass o) as [->|Hne].
    + apply no_unmap_log. apply (dpass_no_unmap v run G f v' run' r calls dr p M R U Hs).
    + apply (quiet_log M). apply (dstep_log quiet_call v run o f v' run' r calls dr (fun w => dexec_quiet w run o Hne) Hs).
Qed.

(* the API calls that do not allocate *)
Definition op_allocates (o : op) : Prop :=
  match o with
  | OAlloc _ _ _ _ _ _ _ _ _ _ | OAllocN _ _ _ _ _ _ _ _ _ _ _ | OMkPool _ _ _ _ _ _ | OCreateBuf _ _ _ _ _ _ _ _ _ _ _
  | OCreateImg _ _ _ _ _ _ _ _ _ _ _ | OAllocFor _ _ _ _ _ _ _ _ _ => True
  | _ => False
  end.

Lemma step_log_nonalloc v o f v' r calls M : ~ op_allocates o -> step c v o f = (v', r, calls) -> succ_alloc_ne M calls /\ no_remap M calls.
Proof.
  intros Hna Hs. destruct o; try (exfalso; apply Hna; exact I);
    try (match type of Hs with step c v ?o f = _ => apply quiet_log; apply (step_log quiet_call v o f v' r calls (fun w => exec_quiet w o I) Hs) end).
  - apply only_map_log. apply (step_log map_only _ _ _ _ _ _ (fun w => exec_map w slot) Hs).
  - unfold step in Hs. set (v0 := set_m v (clear_calls (set_fault (v_m v) f 0))) in *. destruct (exec_rw v0 slot) as (l1 & l2 & E & F1 & F2).
    destruct (exec c v0 (ORw slot)) as (v1 & r1). cbn [fst] in E. injection Hs as _ _ <-. rewrite E. cbn. rewrite app_nil_r, rev_app_distr. apply rw_log; auto.
Qed.

Theorem step_keeps_mapping_nonalloc v run G o f v' r calls p p' M :
  reachDB c v run G -> op_avoids run o -> op_ok v o -> op_dom o -> op_bal G o -> step c v o f = (v', r, calls) -> r <> RPanic -> r <> RStuck ->
  ~ op_allocates o -> used v G p M -> used v' (gstep G o r) p' M -> keeps_mapping M calls.
Proof.
  intros R Hav Hok Hd Hbal Hs Hp Hk Hna U U'. destruct (step_log_nonalloc v o f v' r calls M Hna Hs) as (A & B).
  apply (step_keeps_mapping_of v run G o f v' r calls p p' M R Hav Hok Hd Hbal Hs Hp Hk U U' A B).
Qed.

End Reach.

