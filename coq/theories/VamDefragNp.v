(* VamDefragNp.v — C13 for the defragmentation calls (defragmentation.go, block_list.go defrag part):
   BeginDefragmentation, BeginDefragPass, EndDefragPass and Finish never panic and never leave the model, whatever the
   driver faults.  For BeginDefragPass this includes a vkMapMemory that fails while a move is committed: the planner
   (Defrag.collect_moves_f) goes on to the next candidate like the real code, and the replay of its attempt log on the
   allocator state repeats the commit oracle's computations exactly (replay_np over VamDefragSim.sim and the planner's
   trace theorem DefragGranProofs.collect_moves_f_strace), so it never disagrees with it.
   dop_live: a run exists for DPass / DEnd / DFin. *)
From Coq Require Import ZArith List Bool Lia Permutation.
From Arsenal Require Import Util Budget BudgetProofs VamDev VamBlockList VamDefrag Vam VamInvMeta VamInv VamInvUpd VamInvDev.
From Arsenal Require Import VamInvStep VamInvStep2 VamInvThm VamProps VamAcct VamAcctStep VamAcctStep2 VamAcctThm VamMap VamMapStep VamMapStep2 VamMapThm.
From Arsenal Require Import VamBal VamBalStep VamBalStep2 VamBalThm VamNpStep VamNpThm.
From Arsenal Require Import VamDefragInv VamDefragStep VamDefragPass VamDefragThm VamDefragAcct VamDefragMap VamDefragBal.
From Arsenal Require Pass PassProofs Defrag DefragProofs DefragGranProofs Gran GranInv GranTlsf VamGran SyncMem SyncMemProofs VamDefragBridge VamDefragSim VamFlush.
Import ListNotations.
Open Scope Z_scope.

Lemma nth_z_none_range {A} (l : list A) i : nth_z l i = None -> i < 0 \/ zlen l <= i.
Proof.
  unfold nth_z. destruct (Z.ltb_spec i 0) as [Hl|Hl]; [left; lia|]. intros Hn. apply nth_error_None in Hn. right. unfold zlen. lia.
Qed.

Section WithCfg.
Variable c : vcfg.
Hypothesis Hc : cfg_ok c.
Hypothesis Hmax : 0 <= c_maxcount c < 2147483647.
Hypothesis Hlarge : 0 <= c_large c < 2 ^ 61.
Variable ms0 : list dmem.
Variable G : Z -> Z.
Set Default Proof Using "Hc Hmax Hlarge".

Notation VamInvB := (VamBalStep.VamInvB c ms0 G).
Notation vb_a := (VamDefragBal.vb_a c ms0 G).
Notation free_or_panic_invB := (VamDefragBal.free_or_panic_invB c Hc Hmax Hlarge ms0 G).
Notation swap_invB := (VamDefragBal.swap_invB c Hc Hmax Hlarge ms0 G).

(* ---------------------------------------------------------------- EndDefragPass *)

Lemma free_or_panic_ok v s a :
  VamInvB v [] [] -> slot_is v s a -> a_kind a = 1 -> G s = 0 -> snd (free_or_panic c v s) = OK tt.
Proof.
  intros HI Sa Ka HG0. unfold free_or_panic. rewrite (get_alloc_slot _ _ _ Sa). destruct Sa as (Sn & Sal). rewrite Sal, Ka. cbn [negb Z.eqb Pos.eqb].
  pose proof (bl_free_ok c Hc Hmax Hlarge ms0 G v [] [] s a false HI (conj Sn Sal) (fun H => H) Ka HG0) as E.
  destruct (bl_free c v (a_lref a) s false) as (v1 & r). cbn [snd] in E. subst r. reflexivity.
Qed.

Lemma complete_move_ok v lr mv d :
  VamInvB v [] [] -> mv_ok v lr mv -> src_of mv <> tmp_of mv -> G (src_of mv) = 0 -> G (tmp_of mv) = 0 ->
  snd (complete_move c v mv d) = OK tt.
Proof.
  intros HI (a & b & Sa & Sb & Ka & Kb & La & Lb & Esz & Eal & _ & _ & _ & _ & _ & _ & Hp) Hne Gs Gt. unfold complete_move.
  fold (src_of mv). fold (tmp_of mv).
  destruct (d =? 0).
  - pose proof (swap_invB v (src_of mv) (tmp_of mv) a b lr HI Hne Sa Sb Ka Kb La Lb Esz Eal ltac:(unfold pcount; rewrite Hp, Gs, Gt; reflexivity)) as P.
    pose proof (VamDefragInv.swap_inv c v [] [] (src_of mv) (tmp_of mv) a b lr (va_s _ _ _ _ (vb_a _ HI)) Hne Sa Sb (fun H => H) (fun H => H) Ka Kb La Lb Esz Eal) as Q.
    destruct (swap_block_allocation v (src_of mv) (tmp_of mv)) as (v1 & r1).
    destruct P as (-> & I1 & T1). destruct Q as (_ & _ & _ & Z1 & _ & _ & Gt1).
    assert (St : slot_is v1 (tmp_of mv) (swapped b a)).
    { split; [|cbn; apply Sb]. unfold get_alloc in Gt1. destruct (nth_z (v_tab v1) (tmp_of mv)) as [x|] eqn:E; [congruence|].
      exfalso. pose proof (slot_is_range _ _ _ Sb) as Hr. rewrite <- Z1 in Hr. apply nth_z_none_range in E. lia. }
    apply (free_or_panic_ok v1 (tmp_of mv) (swapped b a) I1 St Kb Gt).
  - destruct (d =? 2).
    + pose proof (free_or_panic_ok v (src_of mv) a HI Sa Ka Gs) as E.
      pose proof (free_or_panic_invB v (src_of mv) HI Gs) as P.
      destruct (free_or_panic c v (src_of mv)) as (v1 & r1). cbn [snd] in E. subst r1. destruct P as (I1 & T1).
      apply (free_or_panic_ok v1 (tmp_of mv) b I1); auto. apply (slot_is_frame _ _ _ _ _ T1); [intros [E|[]]; congruence|exact Sb].
    + apply (free_or_panic_ok v (tmp_of mv) b HI Sb Kb Gt).
Qed.

Lemma complete_moves_ok mvs : forall v lr p imm ds,
  VamInvB v [] [] -> moves_ok v lr mvs -> (forall s, In s (mv_slots mvs) -> G s = 0) ->
  snd (complete_moves c v lr p imm mvs ds) = OK tt.
Proof.
  induction mvs as [|mv rest IH]; intros v lr p imm ds HI (Hnd & Hf) HG0; cbn [complete_moves]; [reflexivity|].
  destruct (list_alloc_stats v lr) as (pc & pb).
  inversion Hf as [|? ? Hmv Hrest]; subst.
  destruct (mv_slots_cons _ _ Hnd) as (Hne & Hs & Ht & Hnd').
  assert (Gs : G (src_of mv) = 0) by (apply HG0; unfold mv_slots; cbn [map app]; left; reflexivity).
  assert (Gt : G (tmp_of mv) = 0) by (apply HG0; unfold mv_slots; cbn [map app]; right; apply in_app_iff; right; left; reflexivity).
  pose proof (VamDefragAcct.complete_move_inv c Hc Hmax Hlarge v lr mv (norm_decision (hd 0 ds)) (vb_a _ HI) Hmv Hne) as PA.
  pose proof (VamDefragBal.complete_move_BB c Hc Hmax Hlarge ms0 G v lr mv (norm_decision (hd 0 ds)) HI Hmv Hne Gs Gt) as PB.
  pose proof (complete_move_ok v lr mv (norm_decision (hd 0 ds)) HI Hmv Hne Gs Gt) as E.
  destruct (complete_move c v mv (norm_decision (hd 0 ds))) as (v1 & r). cbn [snd] in E. subst r.
  destruct (list_alloc_stats v1 lr) as (ac & ab).
  assert (Hok1 : moves_ok v1 lr rest).
  { apply (moves_ok_frame v v1 lr [src_of mv; tmp_of mv] rest); [apply PA| |split; auto].
    intros s [<-|[<-|[]]]; auto. }
  apply IH; [exact PB|exact Hok1|].
  intros s Hin. apply HG0. unfold mv_slots in *. cbn [map app]. apply in_app_iff in Hin. right. apply in_app_iff. destruct Hin; [left|right; right]; auto.
Qed.

Lemma defrag_end_np v run ds :
  VamInvB v [] [] -> run_ok v run ->
  (forall i dc m, nth_z (dr_ctxs run) i = Some dc -> In m (Defrag.c_moves (dc_ctx dc)) -> G (src_of m) = 0 /\ G (tmp_of m) = 0) ->
  npu (snd (defrag_end c v run ds)).
Proof.
  intros HI (Hb & Ha & Hr) HG0. unfold defrag_end.
  destruct (nth_z (dr_ctxs run) (dr_progress run)) as [dc|] eqn:En; [|apply npu_ok].
  destruct (Defrag.c_moves (dc_ctx dc)) as [|m0 ms1] eqn:Em; [apply npu_ok|].
  destruct (Hr _ _ En) as (Hok & _). specialize (Hok eq_refl). rewrite Em in Hok.
  unfold complete_pass. rewrite Em.
  assert (HG1 : forall s, In s (mv_slots (m0 :: ms1)) -> G s = 0).
  { intros s Hin. unfold mv_slots in Hin. apply in_app_iff in Hin. destruct Hin as [Hin|Hin]; apply in_map_iff in Hin; destruct Hin as (m & <- & Hm);
      (destruct (HG0 _ _ m En ltac:(rewrite Em; exact Hm)); auto). }
  pose proof (complete_moves_ok (m0 :: ms1) v (dc_lr dc) (dr_pass run) [] ds HI Hok HG1) as E.
  pose proof (VamDefragStep.complete_moves_inv c (m0 :: ms1) v (dc_lr dc) (dr_pass run) [] ds (va_s _ _ _ _ (vb_a _ HI)) Hok) as P.
  destruct (complete_moves c v (dc_lr dc) (dr_pass run) [] (m0 :: ms1) ds) as (((v1 & p1) & imm) & r). cbn [snd] in E. subst r.
  destruct P as (_ & _ & L1).
  (* the block list of the moves is still there *)
  inversion Hok as (_ & Hf). inversion Hf as [|? ? Hm0 _]; subst. destruct Hm0 as (a & _ & Sa & _ & Ka & _ & La & _).
  destruct (vi_slots _ _ _ _ (va_s _ _ _ _ (vb_a _ HI)) _ a Sa (fun H => H)) as [(_ & l & _ & _ & Hg & _)|(K & _)]; [|congruence].
  rewrite La in Hg. destruct (lf_some _ _ L1 _ _ Hg) as (l1 & Hg1 & _). rewrite Hg1.
  destruct (fold_left _ imm (bl_blocks l1, Defrag.c_immovable (dc_ctx dc))) as (bs & immc). apply npu_ok.
Qed.


(* ---------------------------------------------------------------- BeginDefragPass *)

(* a vkMapMemory in the log of the running call failed *)
Definition map_failed (m : mach) : Prop := exists mem off size code, code <> 0 /\ In (CMap mem off size code) (m_calls m).

Lemma dev_map_log m id : m_calls (fst (dev_map c m id)) = CMap id 0 (-1) (snd (dev_map c m id)) :: m_calls m.
Proof using.
  clear G.
  unfold dev_map. destruct (find_mem (m_mems m) id) as [d|]; [|reflexivity].
  destruct (negb (host_visible c (dm_type d))); [reflexivity|]. destruct (dm_size d <=? 0); [reflexivity|].
  destruct (dev_fault (m_fault m) (m_fired m) 2) as ((f1 & fired1) & r). destruct (negb (r =? 0)) eqn:E; cbn; [reflexivity|].
  apply negb_false_iff in E. apply Z.eqb_eq in E. subst r. reflexivity.
Qed.

(* SynchronizedMemory.Map on a guarded object: success, or the driver call failed (and is the last entry of the log) *)
Lemma sm_map_fail m mem s :
  sm_ok (m_mems m) mem s ->
  let '(m', s', r) := sm_map c m mem s in r = OK tt \/ map_failed m'.
Proof using.
  clear G.
  intros (d & F & I & Fr). unfold sm_map. pose proof (dev_map_log m mem) as L.
  destruct (dev_map c m mem) as (m1 & code). cbn [fst snd] in L.
  destruct (SyncMem.do_map s 1 (negb (code =? 0))) as ((s' & r) & cs) eqn:Edo.
  destruct (SyncMemProofs.map_inv s (dv d) 1 _ s' r cs I Fr ltac:(lia) Edo) as (d' & _ & _ & Hnd & _).
  unfold SyncMem.do_map in Edo. cbn [Z.eqb] in Edo. destruct (SyncMem.post_map_unmap s) as (s1 & sw).
  destruct (0 <? SyncMem.references s).
  - destruct (SyncMem.mapped _); injection Edo as _ <- _; [left; reflexivity|congruence].
  - destruct (negb (code =? 0)) eqn:En; injection Edo as _ <- <-; [|left; reflexivity].
    right. apply negb_true_iff in En. apply Z.eqb_neq in En. exists mem, 0, (-1), code. split; [exact En|]. rewrite L. left. reflexivity.
Qed.

Definition is_tlsf (mt : meta) : bool := match mt with MTlsf _ => true | MLin _ => false end.

(* the block list exists and every block has random access (TLSF metadata) *)
Definition projectable (v : vam) (lr : lref) : Prop :=
  exists l, get_blist v lr = Some l /\ forallb (fun b => is_tlsf (bk_meta b)) (bl_blocks l) = true.

Lemma project_blocks_tlsf bs : forallb (fun b => is_tlsf (bk_meta b)) bs = true -> exists bl, project_blocks bs = Some bl.
Proof using.
  clear G.
  induction bs as [|b tl IH]; cbn; [eauto|]. intros H. apply andb_true_iff in H. destruct H as (Hb & Ht).
  destruct (IH Ht) as (bl & ->). destruct (bk_meta b); [eauto|discriminate].
Qed.

Lemma projectable_project v lr : projectable v lr -> exists l st, get_blist v lr = Some l /\ project v lr = Some st.
Proof using.
  clear G.
  intros (l & Hg & Ht). destruct (project_blocks_tlsf _ Ht) as (bl & E). exists l. unfold project. rewrite Hg, E. eauto.
Qed.

(* a persistently mapped Allocation allows mapping *)
Definition pa_ok (v : vam) : Prop := forall s a, slot_is v s a -> a_persist a = true -> a_mapallowed a = true.

(* the result of a collecting step (kept for reference: before the planner followed failing commits, a failed vkMapMemory
   inside BeginDefragPass left the model) *)
Definition np_map (w : vam) {A} (r : out A) : Prop := r <> PANIC /\ (r = STUCK -> map_failed (v_m w)).

Definition mv_pre (v1 : vam) (l1 : blist) (mv : Defrag.move) : Prop :=
  src_of mv < zlen (v_tab v1) /\ In (Defrag.m_dstblk mv) (map bk_id (bl_blocks l1)) /\
  (a_persist (get_alloc v1 (src_of mv)) = true -> a_mapallowed (get_alloc v1 (src_of mv)) = true).

Lemma in_ids_block bs id : In id (map bk_id bs) -> exists b, In b bs /\ bk_id b = id.
Proof using. clear G. intros H. apply in_map_iff in H. destruct H as (b & E & Hb). eauto. Qed.

Lemma seq_of_nat n len : map Z.of_nat (seq n len) = map (fun i => Z.of_nat n + Z.of_nat i) (seq 0 len).
Proof using.
  clear G. revert n. induction len as [|k IH]; intros n; cbn [seq map]; [reflexivity|]. f_equal; [lia|].
  rewrite IH, <- seq_shift, map_map. apply map_ext. intros i. lia.
Qed.

(* ---- the replay of the attempt log agrees with the oracle *)

Definition has_block (e : vam) (lr : lref) (id : Z) : Prop := exists b, get_block e lr id = Some b.

Lemma find_block_replace l nb id b : find_block l id = Some b -> exists b', find_block (replace_block l nb) id = Some b'.
Proof using.
  clear G. induction l as [|x l IH]; cbn [find_block replace_block]; [discriminate|]. destruct (bk_id x =? id) eqn:E.
  - intros _. destruct (bk_id x =? bk_id nb) eqn:E2; cbn [find_block].
    + apply Z.eqb_eq in E, E2. replace (bk_id nb =? id) with true by (symmetry; apply Z.eqb_eq; lia). eauto.
    + rewrite E. eauto.
  - intros H. destruct (bk_id x =? bk_id nb) eqn:E2; cbn [find_block].
    + apply Z.eqb_eq in E2. replace (bk_id nb =? id) with false by (symmetry; apply Z.eqb_neq; apply Z.eqb_neq in E; lia). eauto.
    + rewrite E. apply IH. exact H.
Qed.

Lemma commit_attempt_has_block e lr slot dst id : has_block e lr id -> has_block (fst (commit_attempt c e lr slot dst)) lr id.
Proof using.
  clear G. intros (b0 & H0). unfold commit_attempt. destruct (get_block e lr dst) as [b|] eqn:Hgb; [|exists b0; exact H0].
  destruct (sm_sub _ _ _) as (m1 & s1). destruct (if a_persist _ then _ else _) as ((m2 & s2) & mr). cbn [fst].
  unfold has_block, get_block in *. destruct (get_blist e lr) as [l|] eqn:Hg; [|discriminate].
  assert (Hgm : get_blist (set_m e m2) lr = Some l) by (rewrite get_blist_set_m; exact Hg).
  rewrite (VamDefragSim.put_block_get _ _ _ _ Hgm). cbn [bl_blocks set_blocks]. eapply find_block_replace; eauto.
Qed.

Lemma commit_attempt_npu e lr slot dst : has_block e lr dst -> npu (snd (commit_attempt c e lr slot dst)).
Proof using.
  clear G. intros (b & Hb). unfold commit_attempt. rewrite Hb. destruct (sm_sub _ _ _) as (m1 & s1).
  destruct (a_persist _); [|apply npu_ok]. pose proof (sm_map_np c m1 (bk_mem b) s1) as N. destruct (sm_map c m1 (bk_mem b) s1) as ((m2 & s2) & mr). exact N.
Qed.

Lemma att_commit_fst lr e slot dst : fst (att_commit c lr e slot dst) = fst (commit_attempt c e lr slot dst).
Proof using. clear G. unfold att_commit. destruct (commit_attempt c e lr slot dst) as (e' & r). reflexivity. Qed.

Lemma att_commit_snd lr e slot dst : snd (att_commit c lr e slot dst) = true <-> snd (commit_attempt c e lr slot dst) = OK tt.
Proof using.
  clear G. unfold att_commit. destruct (commit_attempt c e lr slot dst) as (e' & r). cbn [snd]. destruct r as [[]|code| |]; split; intros H; try discriminate; reflexivity.
Qed.

Definition pa_slot (e : vam) (s : Z) : Prop := a_persist (get_alloc e s) = true -> a_mapallowed (get_alloc e s) = true.

Lemma replay_np lr n log : forall e e' w,
  DefragGranProofs.strace vam (att_commit c lr) e log e' ->
  VamDefragSim.sim e w lr n -> n <= zlen (v_tab w) ->
  Forall (fun a => Z.of_nat (DefragGranProofs.at_slot a) < n /\ has_block e lr (Defrag.at_dst a) /\ pa_slot e (Z.of_nat (DefragGranProofs.at_slot a))) log ->
  map tmp_of (Defrag.log_moves log) = map (fun i => zlen (v_tab w) + Z.of_nat i) (seq 0 (length (Defrag.log_moves log))) ->
  npu (snd (replay_log c w lr log)).
Proof using.
  clear G. intros e e' w T. revert w. induction T as [e|e s d tl e' Hatt T IH|e m tl e' Hatt T IH]; intros w S Hn Hall Htmp; cbn [replay_log].
  - apply npu_ok.
  - inversion Hall as [|? ? (Hs & Hb & _) Hall']; subst. cbn [DefragGranProofs.at_slot Defrag.at_dst] in Hs, Hb.
    destruct (VamDefragSim.attempt_sim c e w lr n s d S Hs) as (Er & S1).
    pose proof (commit_attempt_npu e lr s d Hb) as (N1 & N2).
    pose proof (VamDefragSim.commit_attempt_tab c w lr s d) as Etw. pose proof (VamDefragSim.commit_attempt_tab c e lr s d) as Ete.
    assert (Hno : snd (commit_attempt c e lr s d) <> OK tt) by (intros E; apply (att_commit_snd lr e s d) in E; congruence).
    rewrite att_commit_fst in IH.
    destruct (commit_attempt c w lr s d) as (w1 & r). cbn [fst snd] in *. rewrite Er.
    destruct (snd (commit_attempt c e lr s d)) as [[]|code| |]; try congruence.
    apply IH; [exact S1|rewrite Etw; exact Hn| |rewrite Etw; exact Htmp].
    eapply Forall_impl; [|exact Hall']. intros a (A1 & A2 & A3). split; [exact A1|]. split; [apply commit_attempt_has_block; exact A2|].
    unfold pa_slot, get_alloc. rewrite Ete. exact A3.
  - inversion Hall as [|? ? (Hs & Hb & Hpa) Hall']; subst. cbn [DefragGranProofs.at_slot Defrag.at_dst] in Hs, Hb, Hpa.
    cbn [Defrag.log_moves map length seq] in Htmp. injection Htmp as Et Htl.
    apply (att_commit_snd lr e (Defrag.m_src m) (Defrag.m_dstblk m)) in Hatt.
    destruct (VamDefragSim.commit_move_sim c e w lr n m S Hs Hn Hatt ltac:(unfold tmp_of in Et; lia) Hpa) as (Eok & S1).
    pose proof (VamDefragSim.commit_attempt_tab c e lr (Defrag.m_src m) (Defrag.m_dstblk m)) as Ete.
    rewrite att_commit_fst in IH.
    assert (Etw : zlen (v_tab (fst (commit_move c w lr m))) = zlen (v_tab w) + 1).
    { pose proof (VamDefragAcct.commit_moves_len c [m] w lr) as L. cbn [commit_moves] in L. destruct (commit_move c w lr m) as (w1 & r). cbn [fst snd] in *. subst r. cbn [length] in L. lia. }
    destruct (commit_move c w lr m) as (w1 & r). cbn [fst snd] in *. subst r.
    apply IH; [exact S1|lia| |].
    + eapply Forall_impl; [|exact Hall']. intros a (A1 & A2 & A3). split; [exact A1|]. split; [apply commit_attempt_has_block; exact A2|].
      unfold pa_slot, get_alloc. rewrite Ete. exact A3.
    + rewrite Htl, <- seq_shift, map_map. apply map_ext. intros i. lia.
Qed.

Lemma unproject_sim bs bl' : Forall2 VamDefragSim.bsim bs (unproject_blocks bs bl').
Proof using.
  clear G. unfold unproject_blocks. induction bs as [|b tl IH]; cbn [map]; constructor; [|exact IH].
  unfold VamDefragSim.bsim. destruct (Defrag.find_id (bk_id b) bl'); cbn; auto.
Qed.

(* BlockListCollectMoves of one context *)
Lemma collect_list_np v dc p :
  VamInv c v -> MM ms0 v [] -> Defrag.c_moves (dc_ctx dc) = [] -> PassProofs.pass_running p ->
  VamGran.GV c v ->
  projectable v (dc_lr dc) -> (Defrag.c_algo (dc_ctx dc) = 1 \/ Defrag.c_algo (dc_ctx dc) = 2) -> pa_ok v ->
  npu (snd (collect_list c v dc p)).
Proof.
  intros HI HM Hidle Hrun HG1 Hproj Halgo Hpa. unfold collect_list.
  destruct (projectable_project v (dc_lr dc) Hproj) as (l & st & Hg & Ep). rewrite Ep, Hg.
  pose proof (project_wf c v (dc_lr dc) l st HI HG1 Hg Ep) as HW.
  assert (Est : exists bl, project_blocks (bl_blocks l) = Some bl /\ st = Defrag.mkD bl (map (project_entry (dc_lr dc)) (v_tab v)) false).
  { unfold project in Ep. rewrite Hg in Ep. destruct (project_blocks (bl_blocks l)) as [bl|]; [|discriminate]. injection Ep as <-. eauto. }
  destruct Est as (bl & Epb & ->).
  set (st := Defrag.mkD bl (map (project_entry (dc_lr dc)) (v_tab v)) false) in *.
  destruct (VamDefragBridge.collect_moves_f_inv_p (bl_gran l) vam (att_commit c (dc_lr dc)) st (dc_ctx dc) p v HW Hrun) as (new & HC & _).
  destruct (VamDefragBridge.collect_moves_f_log_p vam (att_commit c (dc_lr dc)) st (dc_ctx dc) p v) as (Hlg & Hdst).
  destruct (VamDefragBridge.collect_moves_f_strace_p (bl_gran l) vam (att_commit c (dc_lr dc)) st (dc_ctx dc) p v HW Hrun) as (HT & Hsl).
  pose proof (VamDefragBridge.collect_f_never_panics_p (bl_gran l) vam (att_commit c (dc_lr dc)) st (dc_ctx dc) p v HW Hrun Halgo) as Hnp.
  destruct (Defrag.collect_moves_f vam (att_commit c (dc_lr dc)) st (dc_ctx dc) p v) as (((cs & env) & log) & wr).
  unfold Defrag.res_f, Defrag.log_f, Defrag.env_f in *. cbn [fst snd] in *.
  pose proof (DefragGranProofs.ci_moves Gran.HVam (bl_gran l) (GranTlsf.GInv (bl_gran l)) GranInv.kind_ok _ _ _ _ _ _ HC) as Hms. rewrite Hidle in Hms, Hlg. cbn [app] in Hms, Hlg.
  assert (Hnew : new = Defrag.log_moves log) by congruence.
  set (bl' := Defrag.d_blocks (Defrag.cs_st cs)). set (l1 := set_blocks l (unproject_blocks (bl_blocks l) bl')). set (v1 := set_blist v (dc_lr dc) l1).
  assert (PR : npu (snd (replay_log c v1 (dc_lr dc) log))).
  { apply (replay_np (dc_lr dc) (zlen (v_tab v)) log v env v1 HT).
    - constructor.
      + unfold v1. rewrite set_blist_m, VamDefragSim.set_bud_self. reflexivity.
      + exists l, l1. split; [exact Hg|]. split; [unfold v1; eapply get_set_blist_same; eauto|]. unfold l1. cbn [bl_blocks set_blocks]. apply unproject_sim.
      + intros s _. unfold get_alloc, v1. rewrite set_blist_tab. reflexivity.
    - unfold v1. rewrite set_blist_tab. lia.
    - rewrite Forall_forall in *. intros a Ha. destruct (Hsl a Ha) as (es & E1 & _). subst st.
      destruct (entry_project _ _ _ _ _ _ E1) as (a0 & Sa & _). split; [apply (slot_is_range _ _ _ Sa)|].
      split; [|unfold pa_slot; rewrite (get_alloc_slot _ _ _ Sa); apply (Hpa _ _ Sa)].
      specialize (Hdst a Ha). cbn [Defrag.d_blocks] in Hdst. destruct (project_blocks_spec _ _ Epb) as (Hids & _). rewrite Hids in Hdst.
      destruct (in_ids_block _ _ Hdst) as (b & Hb & Hbid). exists b. rewrite <- Hbid.
      apply (VamFlush.get_block_of v (dc_lr dc) l b Hg (bw_nodup _ _ (vi_lists _ _ _ _ HI _ _ Hg)) Hb).
    - rewrite <- Hnew. destruct (DefragGranProofs.ci_reg Gran.HVam (bl_gran l) (GranTlsf.GInv (bl_gran l)) GranInv.kind_ok _ _ _ _ _ _ HC) as [_ Htm _].
      unfold tmp_of. rewrite <- (map_map Defrag.m_tmp Z.of_nat), Htm, seq_of_nat. apply map_ext. intros i.
      unfold v1. rewrite set_blist_tab. unfold st. cbn [Defrag.d_table]. rewrite map_length. unfold zlen. lia. }
  destruct wr as [| |why]; [| |exfalso; exact (Hnp why eq_refl)];
    (fold bl' l1 v1; destruct (replay_log c v1 (dc_lr dc) log) as (v2 & r); cbn [snd] in PR; destruct PR as (P1 & P2);
     destruct r as [[]|code| |]; cbn [snd]; try congruence; split; discriminate).
Qed.


(* ---- the loop over the block lists *)

Lemma project_blocks_some_tlsf bs bl : project_blocks bs = Some bl -> forallb (fun b => is_tlsf (bk_meta b)) bs = true.
Proof using.
  clear G. revert bl. induction bs as [|b tl IH]; intros bl H; cbn in *; [reflexivity|].
  destruct (bk_meta b) as [t|x]; [|discriminate]. destruct (project_blocks tl) as [r|]; [|discriminate]. cbn. eauto.
Qed.

Lemma unproject_tlsf bs bl' : forallb (fun b => is_tlsf (bk_meta b)) bs = true -> forallb (fun b => is_tlsf (bk_meta b)) (unproject_blocks bs bl') = true.
Proof using.
  clear G. unfold unproject_blocks. induction bs as [|b tl IH]; cbn; [reflexivity|]. intros H. apply andb_true_iff in H. destruct H as (Hb & Ht).
  rewrite (IH Ht), andb_true_r. destruct (Defrag.find_id (bk_id b) bl'); [reflexivity|exact Hb].
Qed.

Lemma replace_block_tlsf bs nb : forallb (fun b => is_tlsf (bk_meta b)) bs = true -> is_tlsf (bk_meta nb) = true ->
  forallb (fun b => is_tlsf (bk_meta b)) (replace_block bs nb) = true.
Proof using.
  clear G. induction bs as [|b tl IH]; cbn [replace_block forallb]; [reflexivity|]. intros H Hn. apply andb_true_iff in H. destruct H as (Hb & Ht).
  destruct (bk_id b =? bk_id nb); cbn [forallb]; [rewrite Hn, Ht; reflexivity|rewrite Hb, (IH Ht Hn); reflexivity].
Qed.

Lemma forallb_in {A} (f : A -> bool) l x : forallb f l = true -> In x l -> f x = true.
Proof using. clear G. intros H Hx. rewrite forallb_forall in H. auto. Qed.

Lemma commit_attempt_projectable w lr slot dst lr' : projectable w lr' -> projectable (fst (commit_attempt c w lr slot dst)) lr'.
Proof using.
  clear G. intros (l' & Hg' & Ht'). unfold commit_attempt. destruct (get_block w lr dst) as [b|] eqn:Hgb; [|exists l'; auto].
  destruct (sm_sub _ _ _) as (m1 & s1). destruct (if a_persist _ then _ else _) as ((m2 & s2) & mr). cbn [fst].
  destruct (get_block_in _ _ _ _ Hgb) as (l & Hg & Hb & Hbid).
  assert (Hgm : get_blist (set_m w m2) lr = Some l) by (rewrite get_blist_set_m; exact Hg).
  destruct (lref_eq_dec lr' lr) as [->|Hne].
  - assert (l' = l) by congruence. subst l'. eexists. split; [apply (VamDefragSim.put_block_get _ _ _ _ Hgm)|]. cbn [bl_blocks set_blocks].
    apply replace_block_tlsf; [exact Ht'|]. cbn [bk_meta]. apply (forallb_in _ _ _ Ht' Hb).
  - exists l'. split; [|exact Ht']. rewrite put_block_other by exact Hne. rewrite get_blist_set_m. exact Hg'.
Qed.

(* a log without a successful commit: the replay leaves the Allocation table and the kinds of metadata alone *)
Lemma replay_nomoves log : forall w lr w' r,
  Defrag.log_moves log = [] -> replay_log c w lr log = (w', r) ->
  v_tab w' = v_tab w /\ (forall lr', projectable w lr' -> projectable w' lr').
Proof using.
  clear G. induction log as [|[slot dst|mv] tl IH]; intros w lr w' r Hm E; cbn [replay_log Defrag.log_moves] in *; [injection E as <- _; auto| |discriminate].
  pose proof (VamDefragSim.commit_attempt_tab c w lr slot dst) as Et. pose proof (commit_attempt_projectable w lr slot dst) as Hp.
  destruct (commit_attempt c w lr slot dst) as (w1 & r1). cbn [fst] in *.
  destruct r1 as [[]|code| |]; try (injection E as <- _; auto).
  destruct (IH w1 lr w' r Hm E) as (A & B). split; [congruence|auto].
Qed.

(* a collecting step that found nothing to move only wrote the TLSF states back (and may have made failing commit attempts) *)
Lemma collect_list_idle v dc p v1 dc' p' :
  collect_list c v dc p = (v1, OK (dc', p')) -> Defrag.c_moves (dc_ctx dc) = [] -> Defrag.c_moves (dc_ctx dc') = [] ->
  v_tab v1 = v_tab v /\ (forall lr', projectable v lr' -> projectable v1 lr') /\
  Defrag.c_algo (dc_ctx dc') = Defrag.c_algo (dc_ctx dc) /\ dc_lr dc' = dc_lr dc.
Proof using.
  clear G. intros H Hidle Em. unfold collect_list in H.
  destruct (project v (dc_lr dc)) as [st|] eqn:Ep; [|discriminate]. destruct (get_blist v (dc_lr dc)) as [l|] eqn:Hg; [|discriminate].
  assert (Ht : forallb (fun b => is_tlsf (bk_meta b)) (bl_blocks l) = true).
  { unfold project in Ep. rewrite Hg in Ep. destruct (project_blocks (bl_blocks l)) as [bl|] eqn:E; [|discriminate]. eapply project_blocks_some_tlsf; eauto. }
  destruct (VamDefragBridge.collect_moves_f_log_p vam (att_commit c (dc_lr dc)) st (dc_ctx dc) p v) as (Hlg & _).
  destruct (Defrag.collect_moves_f vam (att_commit c (dc_lr dc)) st (dc_ctx dc) p v) as (((cs & env) & log) & wr).
  unfold Defrag.res_f, Defrag.log_f in Hlg. cbn [fst snd] in Hlg. rewrite Hidle in Hlg. cbn [app] in Hlg.
  set (l1 := set_blocks l (unproject_blocks (bl_blocks l) (Defrag.d_blocks (Defrag.cs_st cs)))) in *.
  assert (Hfin : forall w r, replay_log c (set_blist v (dc_lr dc) l1) (dc_lr dc) log = (w, r) ->
            match r with
            | OK _ => (w, OK (mkDfctx (dc_lr dc) (Defrag.mkC (Defrag.c_algo (dc_ctx dc)) (Defrag.cs_moves cs) (Defrag.c_immovable (dc_ctx dc))), Defrag.cs_pass cs))
            | PANIC => (w, PANIC) | ER code => (w, ER code) | STUCK => (w, STUCK)
            end = (v1, OK (dc', p')) ->
            v_tab v1 = v_tab v /\ (forall lr', projectable v lr' -> projectable v1 lr') /\
            Defrag.c_algo (dc_ctx dc') = Defrag.c_algo (dc_ctx dc) /\ dc_lr dc' = dc_lr dc).
  { intros w r Ec E. destruct r as [[]|code| |]; try discriminate. injection E as <- <- _. cbn [dc_ctx dc_lr Defrag.c_moves Defrag.c_algo] in *.
    rewrite Em in Hlg. destruct (replay_nomoves log _ _ _ _ (eq_sym Hlg) Ec) as (A & B).
    split; [rewrite A; apply set_blist_tab|]. split; [|auto]. intros lr' (l' & Hg' & Ht'). apply B.
    destruct (lref_eq_dec lr' (dc_lr dc)) as [->|Hne].
    - exists l1. split; [eapply get_set_blist_same; eauto|]. unfold l1. cbn [bl_blocks set_blocks]. apply unproject_tlsf. exact Ht.
    - exists l'. split; [rewrite get_set_blist_other by congruence; exact Hg'|exact Ht']. }
  destruct wr as [| |why]; [| |discriminate];
    (destruct (replay_log c (set_blist v (dc_lr dc) l1) (dc_lr dc) log) as (w & r) eqn:Ec; exact (Hfin w r eq_refl H)).
Qed.

(* what BeginDefragPass needs of the block lists of the context (see the file comment of VamDefragNpThm.v) *)
Definition dpass_inv (v : vam) (rn : dfrun) : Prop :=
  (forall i dc, nth_z (dr_ctxs rn) i = Some dc ->
     projectable v (dc_lr dc) /\ (Defrag.c_algo (dc_ctx dc) = 1 \/ Defrag.c_algo (dc_ctx dc) = 2)) /\ pa_ok v.

Lemma pass_loop_np fuel : forall v run p,
  VamInv c v -> MM ms0 v [] -> run_idle run -> 0 <= dr_max_bytes run -> 0 <= dr_max_allocs run -> PassProofs.pass_running p ->
  VamGran.GV c v -> dpass_inv v run ->
  (1 <= fuel)%nat -> (0 <= dr_progress run -> (length (dr_ctxs run) - Z.to_nat (dr_progress run) < fuel)%nat) ->
  npu (snd (pass_loop c fuel v run p)).
Proof.
  clear G. induction fuel as [|f IH]; intros v run p HI HM Hidle Hb Ha Hrun HG HD Hf1 Hfuel; [lia|]. cbn [pass_loop].
  destruct (nth_z (dr_ctxs run) (dr_progress run)) as [dc|] eqn:En; [|apply npu_ok].
  assert (Hdc : Defrag.c_moves (dc_ctx dc) = []) by (eapply Hidle; eauto).
  destruct HD as (HDl & Hpa). destruct (HDl _ _ En) as (Hproj & Halgo).
  pose proof (collect_list_np v dc p HI HM Hdc Hrun HG Hproj Halgo Hpa) as N.
  pose proof (VamDefragPass.collect_list_inv_gv c v dc p HI HG Hdc Hrun) as PS.
  pose proof (VamDefragMap.collect_list_MM c Hc Hmax Hlarge ms0 v dc p HI HM) as PM.
  destruct (collect_list c v dc p) as (v1 & r) eqn:Ecl. cbn [snd] in N. destruct N as (N1 & N2).
  destruct r as [(dc' & p')|code| |]; [|apply npu_er|congruence|congruence].
  destruct PS as ((S1 & LS1 & GS1 & Elr & MS1 & Hrun') & HG1).
  pose proof (nth_z_some_range _ _ _ En) as Hrg.
  destruct (Defrag.c_moves (dc_ctx dc')) as [|m0 ms1] eqn:Em; [|apply npu_ok].
  destruct (collect_list_idle v dc p v1 dc' p' Ecl Hdc Em) as (Htab & Hpr & Halg & _).
  match goal with |- context [pass_loop c f v1 ?rr p'] => set (run1 := rr) end.
  assert (Hidle1 : run_idle run1).
  { intros i dc1 Hn1. unfold run1 in Hn1. cbn [dr_ctxs] in Hn1. unfold set_nth_ctx in Hn1.
    destruct (Z.eq_dec i (dr_progress run)) as [->|Hne].
    - rewrite nth_z_set_same in Hn1 by exact Hrg. injection Hn1 as <-. exact Em.
    - rewrite nth_z_set_other in Hn1 by congruence. eapply Hidle; eauto. }
  assert (HD1 : dpass_inv v1 run1).
  { split.
    - intros i dc1 Hn1. unfold run1 in Hn1. cbn [dr_ctxs] in Hn1. unfold set_nth_ctx in Hn1.
      destruct (Z.eq_dec i (dr_progress run)) as [->|Hne].
      + rewrite nth_z_set_same in Hn1 by exact Hrg. injection Hn1 as <-. rewrite Elr, Halg. split; [apply Hpr; exact Hproj|exact Halgo].
      + rewrite nth_z_set_other in Hn1 by congruence. destruct (HDl _ _ Hn1) as (A & B). split; [apply Hpr; exact A|exact B].
    - intros s a Sa. apply (Hpa s a). unfold slot_is in *. rewrite <- Htab. exact Sa. }
  assert (Hlen1 : length (dr_ctxs run1) = length (dr_ctxs run)).
  { unfold run1. cbn [dr_ctxs]. unfold set_nth_ctx, set_nth_z. destruct (dr_progress run <? 0); [reflexivity|].
    generalize (Z.to_nat (dr_progress run)). generalize (dr_ctxs run). induction l as [|x l IHl]; intros [|n]; cbn; auto. }
  assert (Hlt : (Z.to_nat (dr_progress run) < length (dr_ctxs run))%nat) by (unfold zlen in Hrg; lia).
  specialize (Hfuel (proj1 Hrg)).
  apply (IH v1 run1 p' S1 PM Hidle1 Hb Ha Hrun' HG1 HD1); [lia|].
  intros _. rewrite Hlen1. unfold run1. cbn [dr_progress]. rewrite Z2Nat.inj_add by lia. change (Z.to_nat 1) with 1%nat. lia.
Qed.

Lemma defrag_pass_np v run :
  VamInv c v -> MM ms0 v [] -> run_ok v run -> run_idle run -> VamGran.GV c v -> dpass_inv v run ->
  npu (snd (defrag_pass c v run)).
Proof.
  clear G. intros HI HM (Hb & Ha & _) Hidle HG HD. unfold defrag_pass.
  apply pass_loop_np; auto; [apply PassProofs.pass_init_running; auto|lia|lia].
Qed.

End WithCfg.

(* ---------------------------------------------------------------- the defragmentation calls *)

(* a run exists for BeginDefragPass / EndDefragPass / Finish; for BeginDefragPass the block lists of the context are
   alive, hold TLSF blocks only, the algorithm is one the context can have, and persistently mapped Allocations
   allow mapping (dpass_inv: all of it is established by BeginDefragmentation and kept by every call except
   destroying the pool under defragmentation - that it is an invariant of the histories is NOT proved here) *)
Definition dop_live (v : vam) (run : option dfrun) (o : dop) : Prop :=
  match o, run with
  | DBegin _ _ _ _, _ => True
  | DPass, Some rn => dpass_inv v rn
  | _, Some _ => True
  | _, None => False
  end.

Lemma dpass_inv_set_m v m rn : dpass_inv v rn -> dpass_inv (set_m v m) rn.
Proof using.
  intros (A & B). split.
  - intros i dc Hn. destruct (A i dc Hn) as ((l & Hg & Ht) & Al). split; [exists l; rewrite get_blist_set_m; auto|exact Al].
  - intros s a Sa. apply (B s a). apply (proj1 (slot_is_set_m _ _ _ _)) in Sa. exact Sa.
Qed.

Section Thm.
Variable c : vcfg.
Hypothesis Ha : cfg_acct c.
Let Hc := ca_ok c Ha.
Let Hmax := ca_max c Ha.
Let Hlarge := ca_large c Ha.

Lemma dexec_np ms0 G v run o :
  VamBalStep.VamInvB c ms0 G v [] [] -> VamGran.GV c v -> drun_ok v run -> dop_ok v run o -> tmps_unmapped G run -> dop_bal G run o -> dop_live v run o ->
  npu (snd (fst (dexec c v run o))).
Proof using Ha.
  intros HI HV Hr Hok Htm Hbal Hlive. pose proof (va_s _ _ _ _ (VamDefragBal.vb_a c ms0 G _ HI)) as HU.
  destruct o as [flags pool mb ma| |ds|]; cbn [dexec].
  - assert (N : npu (snd (defrag_begin c v flags pool mb ma))).
    { unfold defrag_begin. destruct (_ || _); [apply npu_er|]. destruct (_ =? 3); [apply npu_er|].
      destruct (match pool with Some uid => list_is_linear v (LPool uid) | None => false end); [apply npu_er|].
      destruct (negb _); [apply npu_er|apply npu_ok]. }
    destruct (defrag_begin c v flags pool mb ma) as (v1 & r). cbn [snd] in N. destruct N as (N1 & N2).
    destruct r as [rn|code| |]; try congruence; split; discriminate.
  - destruct run as [rn|]; [|destruct Hlive]. pose proof Hok as Hidle. pose proof HV as HG. cbn [dop_live] in Hlive.
    pose proof (defrag_pass_np c Hc Hmax Hlarge ms0 v rn HU (VamDefragBal.vb_mmx c ms0 G _ HI) Hr Hidle HG Hlive) as N.
    destruct (defrag_pass c v rn) as ((v1 & rn') & r). cbn [snd] in N. destruct N as (N1 & N2).
    destruct r as [mvs|code| |]; try congruence; split; discriminate.
  - destruct run as [rn|]; [|destruct Hlive].
    assert (HG0 : forall i dc m, nth_z (dr_ctxs rn) i = Some dc -> In m (Defrag.c_moves (dc_ctx dc)) -> G (src_of m) = 0 /\ G (tmp_of m) = 0).
    { intros i dc m Hn Hm. split; [eapply Hbal; eauto|eapply Htm; eauto]. }
    pose proof (defrag_end_np c Hc Hmax Hlarge ms0 G v rn ds HI Hr HG0) as N.
    destruct (defrag_end c v rn ds) as ((v1 & rn') & r). cbn [snd] in N. destruct N as (N1 & N2).
    destruct r as [b|code| |]; try congruence; split; discriminate.
  - destruct run as [rn|]; [|destruct Hlive]. destruct (defrag_finish v rn) as (v1 & st). split; discriminate.
Qed.

(* one defragmentation call in the domain, any fault oracle *)
Theorem dstep_np G v run o f :
  VamAcctStep.VamInvA c v [] [] -> MapInv v [] -> BInv v G [] -> VamGran.GV c v -> drun_ok v run -> dop_ok v run o -> tmps_unmapped G run -> dop_bal G run o ->
  dop_live v run o ->
  let '(v', run', r, calls, dr) := dstep c v run o f in r <> RPanic /\ r <> RStuck.
Proof using Ha.
  intros HI HM HB HV Hr Hok Htm Hbal Hlive. unfold dstep.
  set (ms0 := m_mems (v_m v)).
  set (v0 := set_m v (clear_calls (set_fault (v_m v) f 0))).
  assert (Hms : forall m ff n, mach_sameA c m (clear_calls (set_fault m ff n))).
  { intros m ff n. eapply (mach_sameA_trans c Hc Hmax Hlarge); [apply (mach_sameA_set_fault c Hc Hmax Hlarge)|apply (mach_sameA_clear c Hc Hmax Hlarge)]. }
  assert (I0 : VamBalStep.VamInvB c ms0 G v0 [] []).
  { split; [|apply BInv_mach; exact HB]. split; [apply (VamAcctStep.VamInvA_mach_same c Hc Hmax Hlarge); [exact HI|apply Hms]|].
    split; [apply (MapInv_sub v []); [exact HM|reflexivity|apply blocks_sub_eq; intros; apply get_blist_set_m|apply deds_sub_nil; apply tab_frame_set_m]|].
    unfold LogOk, v0, ms0. cbn. constructor. }
  assert (Hr0 : drun_ok v0 run) by (destruct run as [rn|]; [apply run_ok_set_m; exact Hr|exact I]).
  assert (Hok0 : dop_ok v0 run o) by (destruct o; cbn in *; auto).
  assert (Hlive0 : dop_live v0 run o).
  { destruct o; exact Hlive. }
  pose proof (dexec_np ms0 G v0 run o I0 (VamGran.GR_set_m c v _ HV) Hr0 Hok0 Htm Hbal Hlive0) as E.
  destruct (dexec c v0 run o) as (((v1 & run1) & r) & dr) eqn:Ed. cbn [fst snd] in E. destruct E as (E1 & E2).
  split; destruct r as [[]|code| |]; cbn; congruence.
Qed.

(* C13 for the defragmentation calls, along every history of the domain: never a panic, never outside the model *)
Theorem dstep_never_fails v run G o f v' run' r calls dr :
  reachDB c v run G -> dop_ok v run o -> dop_bal G run o -> dop_live v run o ->
  dstep c v run o f = (v', run', r, calls, dr) -> r <> RPanic /\ r <> RStuck.
Proof using Ha.
  intros R Hok Hbal Hlive Hs.
  pose proof (reachDB_reachDA c Ha _ _ _ R) as RA. destruct (reachDA_inv c Ha v run RA) as (HI & Hr).
  destruct (reachDB_inv c Ha v run G R) as (HB & Htm).
  pose proof (dstep_np G v run o f HI (reachDA_map c Ha v run RA) HB (reachD_gv c Hc v run (reachDA_reachD c Ha v run RA)) Hr Hok Htm Hbal Hlive) as P. rewrite Hs in P. exact P.
Qed.

(* the earlier, weaker form (from when a vkMapMemory failing inside BeginDefragPass left the model); kept under its name *)
Theorem dstep_never_panics v run G o f v' run' r calls dr :
  reachDB c v run G -> dop_ok v run o -> dop_bal G run o -> dop_live v run o ->
  dstep c v run o f = (v', run', r, calls, dr) ->
  r <> RPanic /\ (r = RStuck -> o = DPass /\ exists mem off size code, code <> 0 /\ In (CMap mem off size code) calls).
Proof using Ha.
  intros R Hok Hbal Hlive Hs. destruct (dstep_never_fails v run G o f v' run' r calls dr R Hok Hbal Hlive Hs) as (A & B).
  split; [exact A|]. intros E. contradiction.
Qed.

(* an ordinary API call while a defragmentation is running *)
Theorem step_never_panics_defrag v run G o f v' r calls :
  reachDB c v run G -> op_ok v o -> op_dom o -> op_bal G o -> VamNpThm.op_live v o ->
  step c v o f = (v', r, calls) -> r <> RPanic /\ r <> RStuck.
Proof using Ha.
  intros R Hok Hd Hbal Hlive Hs.
  pose proof (reachDB_reachDA c Ha _ _ _ R) as RA. destruct (reachDA_inv c Ha v run RA) as (HI & _).
  pose proof (VamNpThm.step_np c Ha v G o f HI (reachDA_map c Ha v run RA) (reachDB_bal c Ha v run G R) Hok Hd Hbal Hlive) as P.
  rewrite Hs in P. exact P.
Qed.

End Thm.
