(* VamAcctProps.v — consequences of the accounting invariant beyond the counters: on reachable states (reachA)
   the budget functions never panic, so that Allocator.Destroy of an allocator without allocations and pools
   SUCCEEDS (C20, strengthening VamProps.destroy_succeeds). *)
From Coq Require Import ZArith List Bool Lia Permutation.
From Arsenal Require Import Util Budget BudgetProofs VamDev VamBlockList Vam VamInvMeta VamInv VamInvUpd VamInvDev.
From Arsenal Require Import VamInvStep VamInvStep2 VamInvThm VamProps VamAcct VamAcctStep VamAcctStep2 VamAcctThm.
Import ListNotations.
Open Scope Z_scope.

Section WithCfg.
Variable c : vcfg.
Hypothesis Ha : cfg_acct c.
Let Hc := ca_ok c Ha.
Let Hmax := ca_max c Ha.
Let Hlarge := ca_large c Ha.

Notation VamInvA := (VamAcctStep.VamInvA c).

(* memoryBlockList.Destroy of an existing list neither panics nor gets stuck *)
Lemma bl_destroy_total v U X lr l :
  VamInvA v U X -> get_blist v lr = Some l ->
  match snd (bl_destroy c v lr) with PANIC | STUCK => False | _ => True end.
Proof.
  intros HI Hg. unfold bl_destroy. rewrite Hg. destruct (existsb _ _); [exact I|].
  pose proof (vi_lists _ _ _ _ (VamAcctStep.va_s _ _ _ _ HI) _ _ Hg) as Hwf.
  pose proof (destroy_blocks_AM c Hc Hmax Hlarge (bl_blocks l) v X (bl_type l) (AInv_AM c Hc Hmax Hlarge _ _ (VamAcctStep.va_a _ _ _ _ HI))) as D.
  match type of D with ?A -> ?B -> _ => assert (HA : A); [|assert (HB : B)] end.
  { eapply nodup_map_inj; [apply (bw_nodup _ _ Hwf)|]. intros x y Hx Hy E.
    destruct (vi_block_mem_inj _ _ _ _ (VamAcctStep.va_s _ _ _ _ HI) _ _ _ _ _ _ Hg Hx Hg Hy E) as (_ & Eid). exact Eid. }
  { intros b Hb. destruct (vi_block_mem _ _ _ _ (VamAcctStep.va_s _ _ _ _ HI) _ _ _ Hg Hb) as (d & Hf & Hdt & Hds).
    exists d. split; [exact Hf|]. split; [rewrite Hdt; reflexivity|auto]. }
  specialize (D HA HB).
  destruct (destroy_blocks_machine c (bl_blocks l) v (bl_type l)) as (m' & Em).
  destruct (destroy_blocks c v (bl_type l) (bl_blocks l)) as (v1 & r1). cbn [fst] in Em. subst v1.
  destruct r1 as [[]|code| |]; try contradiction; try exact I.
  rewrite get_blist_set_m, Hg. exact I.
Qed.

Lemma destroy_lists_total n : forall v t, VamInvA v [] [] ->
  match snd (destroy_lists c v n t) with PANIC | STUCK => False | _ => True end.
Proof.
  induction n as [|k IH]; intros v t HI; cbn [destroy_lists]; [exact I|].
  destruct (get_blist v (LDef t)) as [l0|] eqn:Hg; [|apply IH; auto].
  pose proof (bl_destroy_total v [] [] (LDef t) l0 HI Hg) as T.
  pose proof (VamAcctStep.bl_destroy_inv c Hc Hmax Hlarge v [] [] (LDef t) HI) as BD.
  destruct (bl_destroy c v (LDef t)) as (v1 & r). cbn [snd] in T. destruct r as [[]|code| |]; try contradiction; try exact I.
  destruct BD as ((I1 & _ & _) & _). apply IH. exact I1.
Qed.

(* C20: an allocator without allocations and pools is destroyed successfully *)
Theorem destroy_never_fails v :
  reachA c v -> (forall s a, ~ slot_is v s a) -> v_pools v = [] -> exists v', allocator_destroy c v = (v', OK tt).
Proof.
  intros R Hno Hp. pose proof (reachA_inv c Ha v R) as HI.
  destruct (allocator_destroy c v) as (v' & r) eqn:E.
  destruct (destroy_succeeds c v v' r Hc (VamAcctStep.va_s _ _ _ _ HI) Hno Hp E) as [->|[->| ->]]; [eauto| |].
  - exfalso. unfold allocator_destroy in E. rewrite Hp in E. destruct (existsb _ (v_ded v)); [discriminate|].
    destruct (existsb list_nonempty _); [discriminate|].
    pose proof (destroy_lists_total (length (c_types c)) v 0 HI) as T. rewrite E in T. exact T.
  - exfalso. unfold allocator_destroy in E. rewrite Hp in E. destruct (existsb _ (v_ded v)); [discriminate|].
    destruct (existsb list_nonempty _); [discriminate|].
    pose proof (destroy_lists_total (length (c_types c)) v 0 HI) as T. rewrite E in T. exact T.
Qed.

End WithCfg.
