(* SyncMemProofs.v — theorems about the mapping state machine (SyncMem.v), for ALL operation
   sequences from the initial state:
     driver_calls_valid   the driver-call trace is accepted by the Vulkan device automaton
     mapped_iff           device mapped <-> mapData != nil <-> (mapRefs > 0 \/ extraMapping)
     refs_balance         mapRefs = references handed out; memory stays mapped while mapRefs > 0
     unmap_keeps_others   an Unmap that leaves references makes no driver call and leaves it mapped
     failed_map_no_trace  a failed Map leaves (mapRefs, mapData, extraMapping) and the device as before
     no_nodata_error      the "references but no mapped memory" error is unreachable *)
From Coq Require Import ZArith List Bool Lia.
From Arsenal Require Import SyncMem.
Import ListNotations.
Open Scope Z_scope.

Local Opaque wrap_u32 wrap_i32.

(* ------------------------------------------------------------------ the invariant *)

Definition Inv (s : sm) (d : devstate) : Prop :=
  0 <= mapRefs s /\
  (freed s = false ->
   d_alive d = true /\ d_mapped d = mapped s /\
   (mapped s = true <-> (0 < mapRefs s \/ extra s = true))) /\
  (freed s = true -> d_alive d = false).

Lemma inv_init : Inv sm_init dev_init.
Proof.
  unfold Inv, sm_init, dev_init; cbn. split; [lia|]. split.
  - intros _. split; [reflexivity|]. split; [reflexivity|]. split.
    + discriminate.
    + intros [H|H]; [lia|discriminate].
  - discriminate.
Qed.

Lemma pmu_spec s s1 b :
  post_map_unmap s = (s1, b) ->
  mapRefs s1 = mapRefs s /\ mapped s1 = mapped s /\ freed s1 = freed s /\
  (b = true -> extra s1 = true) /\ (b = false -> extra s1 = extra s).
Proof.
  unfold post_map_unmap. intros H.
  destruct (map_delay <=? wrap_u32 (delayCounter s + 1)).
  - destruct (1 <=? wrap_i32 (statusCounter s + 1)); inversion H; subst; cbn;
      repeat split; auto; discriminate.
  - inversion H; subst; cbn. repeat split; auto; discriminate.
Qed.

Lemma dev_run_app d cs1 cs2 :
  dev_run d (cs1 ++ cs2) =
  match dev_run d cs1 with Some d' => dev_run d' cs2 | None => None end.
Proof.
  revert d; induction cs1 as [|c cs1 IH]; intros d; cbn; [reflexivity|].
  destruct (dev_step d c); [apply IH|reflexivity].
Qed.

(* ------------------------------------------------------------------ one step *)

Lemma map_inv s d n f s' r cs :
  Inv s d -> freed s = false -> 0 <= n ->
  do_map s n f = (s', r, cs) ->
  exists d', dev_run d cs = Some d' /\ Inv s' d' /\ r <> RErrNoData /\
             freed s' = false /\
             ((forall p, r <> ROk p) ->
              mapRefs s' = mapRefs s /\ mapped s' = mapped s /\ extra s' = extra s /\ d' = d).
Proof.
  intros [Hnn [Hlive Hdead]] Hfr Hn H.
  destruct (Hlive Hfr) as [Hal [Hdm Hiff]].
  unfold do_map in H.
  destruct (n =? 0) eqn:En.
  { inversion H; subst. exists d. cbn. split; [reflexivity|].
    split; [split; [exact Hnn|split; assumption]|].
    split; [discriminate|]. split; [exact Hfr|]. intros Hne. exfalso. apply (Hne false). reflexivity. }
  apply Z.eqb_neq in En.
  destruct (post_map_unmap s) as [s1 sw] eqn:Ep.
  destruct (pmu_spec _ _ _ Ep) as [P1 [P2 [P3 [P4 P5]]]].
  unfold references in H.
  destruct (0 <? mapRefs s + (if extra s then 1 else 0)) eqn:Eo.
  - (* already mapped *)
    apply Z.ltb_lt in Eo.
    assert (Hm : mapped s = true).
    { apply Hiff. destruct (extra s); [right; reflexivity|left; lia]. }
    cbn [set_refs mapped] in H. rewrite P2, Hm in H. inversion H; subst; clear H.
    exists d. cbn [dev_run]. split; [reflexivity|].
    split.
    { unfold Inv; cbn [set_refs mapRefs mapped extra freed]. rewrite P1, P2, P3.
      split; [lia|]. split; [|exact Hdead].
      intros _. split; [exact Hal|]. split; [exact Hdm|]. split.
      - intros _. left. lia.
      - intros _. exact Hm. }
    split; [discriminate|]. split; [cbn; rewrite P3; exact Hfr|].
    intros Hne. exfalso. apply (Hne true). reflexivity.
  - (* not mapped: the driver is called *)
    apply Z.ltb_ge in Eo.
    assert (Hr0 : mapRefs s = 0) by (destruct (extra s); lia).
    assert (Hex : extra s = false) by (destruct (extra s); [lia|reflexivity]).
    assert (Hm : mapped s = false).
    { destruct (mapped s) eqn:Em; [|reflexivity]. exfalso.
      destruct Hiff as [Hi _]. destruct (Hi eq_refl) as [Hc|Hc]; [lia|congruence]. }
    assert (Hdm' : d_mapped d = false) by congruence.
    destruct f.
    + (* vkMapMemory fails *)
      inversion H; subst; clear H.
      exists d. cbn [dev_run dev_step]. rewrite Hal, Hdm'. cbn [andb negb].
      assert (Hd : mkDev true false = d) by (destruct d; cbn in *; congruence).
      rewrite Hd. split; [reflexivity|].
      assert (Hex' : extra (if sw then set_extra s1 false else s1) = false).
      { destruct sw; cbn; [reflexivity|]. rewrite (P5 eq_refl). exact Hex. }
      assert (Hrf : mapRefs (if sw then set_extra s1 false else s1) = mapRefs s)
        by (destruct sw; cbn; exact P1).
      assert (Hmp : mapped (if sw then set_extra s1 false else s1) = mapped s)
        by (destruct sw; cbn; exact P2).
      assert (Hfd : freed (if sw then set_extra s1 false else s1) = freed s)
        by (destruct sw; cbn; exact P3).
      split.
      { unfold Inv. rewrite Hrf, Hmp, Hfd, Hex'. split; [lia|]. split; [|exact Hdead].
        intros _. split; [exact Hal|]. split; [exact Hdm|]. rewrite Hm, Hr0. split.
        - discriminate.
        - intros [Hc|Hc]; [lia|discriminate]. }
      split; [discriminate|]. split; [rewrite Hfd; exact Hfr|].
      intros _. rewrite Hrf, Hmp, Hex', Hex. repeat split; reflexivity.
    + (* vkMapMemory succeeds *)
      inversion H; subst; clear H.
      exists (mkDev true true). cbn [dev_run dev_step]. rewrite Hal, Hdm'. cbn [andb negb].
      split; [reflexivity|].
      split.
      { unfold Inv; cbn [set_refs set_mapped mapRefs mapped extra freed d_alive d_mapped].
        rewrite P3. split; [lia|]. split.
        - intros _. split; [reflexivity|]. split; [reflexivity|]. split.
          + intros _. left. lia.
          + reflexivity.
        - rewrite Hfr. discriminate. }
      split; [discriminate|]. split; [cbn; rewrite P3; exact Hfr|].
      intros Hne. exfalso. apply (Hne true). reflexivity.
Qed.

Lemma unmap_inv s d n s' r cs :
  Inv s d -> freed s = false ->
  do_unmap s n = (s', r, cs) ->
  exists d', dev_run d cs = Some d' /\ Inv s' d' /\ r <> RErrNoData /\ freed s' = false /\
             (0 < mapRefs s' -> cs = [] /\ mapped s' = true).
Proof.
  intros [Hnn [Hlive Hdead]] Hfr H.
  destruct (Hlive Hfr) as [Hal [Hdm Hiff]].
  unfold do_unmap in H.
  destruct (mapRefs s =? 0) eqn:E0.
  { inversion H; subst. exists d. cbn. split; [reflexivity|].
    split; [split; [exact Hnn|split; assumption]|].
    split; [discriminate|]. split; [exact Hfr|]. intros Hp. split; [reflexivity|].
    apply Hiff. left. exact Hp. }
  apply Z.eqb_neq in E0.
  destruct (mapRefs s <? n) eqn:En.
  { inversion H; subst. exists d. cbn. split; [reflexivity|].
    split; [split; [exact Hnn|split; assumption]|].
    split; [discriminate|]. split; [exact Hfr|]. intros Hp. split; [reflexivity|].
    apply Hiff. left. exact Hp. }
  apply Z.ltb_ge in En.
  assert (Hm : mapped s = true) by (apply Hiff; left; lia).
  remember (if mapRefs s - n <? 0 then 0 else mapRefs s - n) as m eqn:Hmdef.
  assert (Hm0 : 0 <= m).
  { subst m. destruct (mapRefs s - n <? 0) eqn:E; [lia|]. apply Z.ltb_ge in E. exact E. }
  destruct (post_map_unmap (set_refs s m)) as [s1 sw] eqn:Ep.
  destruct (pmu_spec _ _ _ Ep) as [P1 [P2 [P3 [P4 P5]]]].
  cbn [set_refs mapRefs mapped freed extra] in P1, P2, P3, P5.
  unfold references in H.
  destruct (mapRefs s1 + (if extra s1 then 1 else 0) <=? 0) eqn:Er.
  - apply Z.leb_le in Er.
    assert (Hr0 : mapRefs s1 = 0) by (destruct (extra s1); lia).
    assert (Hex : extra s1 = false) by (destruct (extra s1); [lia|reflexivity]).
    inversion H; subst s' r cs; clear H.
    exists (mkDev true false). cbn [dev_run dev_step]. rewrite Hal, Hdm, Hm. cbn [andb].
    split; [reflexivity|].
    split.
    { unfold Inv; cbn [set_mapped mapRefs mapped extra freed d_alive d_mapped].
      rewrite P3, Hr0, Hex. split; [lia|]. split.
      - intros _. split; [reflexivity|]. split; [reflexivity|]. split.
        + discriminate.
        + intros [Hc|Hc]; [lia|discriminate].
      - rewrite Hfr. discriminate. }
    split; [discriminate|]. split; [cbn; rewrite P3; exact Hfr|].
    cbn [set_mapped mapRefs]. rewrite Hr0. lia.
  - apply Z.leb_gt in Er.
    inversion H; subst s' r cs; clear H.
    exists d. cbn [dev_run]. split; [reflexivity|].
    split.
    { unfold Inv. rewrite P1, P2, P3. split; [exact Hm0|]. split; [|exact Hdead].
      intros _. split; [exact Hal|]. split; [exact Hdm|]. split.
      - intros _. destruct (extra s1); [right; reflexivity|left; lia].
      - intros _. exact Hm. }
    split; [discriminate|]. split; [rewrite P3; exact Hfr|].
    intros _. split; [reflexivity|]. rewrite P2. exact Hm.
Qed.

Lemma sub_inv s d s' r cs :
  Inv s d -> freed s = false ->
  do_sub s = (s', r, cs) ->
  exists d', dev_run d cs = Some d' /\ Inv s' d' /\ r <> RErrNoData /\ freed s' = false /\
             mapRefs s' = mapRefs s /\ (0 < mapRefs s' -> cs = [] /\ mapped s' = true).
Proof.
  intros [Hnn [Hlive Hdead]] Hfr H.
  destruct (Hlive Hfr) as [Hal [Hdm Hiff]].
  assert (Hsame : forall a b,
             exists d', dev_run d [] = Some d' /\ Inv (set_counters s a b) d' /\
                        ROkB false <> RErrNoData /\ freed (set_counters s a b) = false /\
                        mapRefs (set_counters s a b) = mapRefs s /\
                        (0 < mapRefs (set_counters s a b) ->
                         @nil call = [] /\ mapped (set_counters s a b) = true)).
  { intros a b. exists d. cbn. split; [reflexivity|].
    split; [split; [exact Hnn|split; assumption]|].
    split; [discriminate|]. split; [exact Hfr|]. split; [reflexivity|].
    intros Hp. split; [reflexivity|]. apply Hiff. left. exact Hp. }
  unfold do_sub in H.
  destruct (map_delay <=? wrap_u32 (delayCounter s + 1)).
  2:{ inversion H; subst. apply Hsame. }
  destruct (wrap_i32 (statusCounter s - 1) <=? -2).
  2:{ inversion H; subst. apply Hsame. }
  destruct (extra s) eqn:Hex.
  2:{ inversion H; subst. exists d. cbn. split; [reflexivity|].
      split; [split; [exact Hnn|split; [|exact Hdead]]|].
      { intros _. cbn. rewrite Hex. split; [exact Hal|]. split; [exact Hdm|]. exact Hiff. }
      split; [discriminate|]. split; [exact Hfr|]. split; [reflexivity|].
      intros Hp. split; [reflexivity|]. apply Hiff. left. exact Hp. }
  assert (Hm : mapped s = true) by (apply Hiff; right; reflexivity).
  destruct (mapRefs s =? 0) eqn:E0.
  - apply Z.eqb_eq in E0. rewrite Hm in H. cbn [andb] in H.
    inversion H; subst s' r cs; clear H.
    exists (mkDev true false). cbn [dev_run dev_step]. rewrite Hal, Hdm, Hm. cbn [andb].
    split; [reflexivity|].
    split.
    { unfold Inv; cbn. rewrite E0. split; [lia|]. split.
      - intros _. split; [reflexivity|]. split; [reflexivity|]. split.
        + discriminate.
        + intros [Hc|Hc]; [lia|discriminate].
      - rewrite Hfr. discriminate. }
    split; [discriminate|]. split; [cbn; exact Hfr|]. split; [reflexivity|].
    cbn. rewrite E0. lia.
  - apply Z.eqb_neq in E0. cbn [andb] in H.
    inversion H; subst s' r cs; clear H.
    exists d. cbn [dev_run]. split; [reflexivity|].
    split.
    { unfold Inv; cbn. split; [exact Hnn|]. split; [|exact Hdead].
      intros _. split; [exact Hal|]. split; [exact Hdm|]. split.
      - intros _. left. lia.
      - intros _. exact Hm. }
    split; [discriminate|]. split; [cbn; exact Hfr|]. split; [reflexivity|].
    intros _. split; [reflexivity|]. cbn. exact Hm.
Qed.

Lemma free_inv s d s' r cs :
  Inv s d -> freed s = false ->
  do_free s = (s', r, cs) ->
  exists d', dev_run d cs = Some d' /\ Inv s' d' /\ r <> RErrNoData.
Proof.
  intros [Hnn [Hlive Hdead]] Hfr H.
  destruct (Hlive Hfr) as [Hal _].
  unfold do_free in H. inversion H; subst; clear H.
  exists (mkDev false false). cbn [dev_run dev_step]. rewrite Hal.
  split; [reflexivity|]. split; [|discriminate].
  unfold Inv; cbn. split; [exact Hnn|]. split; [discriminate|reflexivity].
Qed.

Lemma step_inv s d o s' r cs :
  Inv s d -> op_ok_weak s o = true -> step s o = (s', r, cs) ->
  exists d', dev_run d cs = Some d' /\ Inv s' d' /\ r <> RErrNoData.
Proof.
  intros HI Hok H. unfold op_ok_weak in Hok. apply andb_prop in Hok. destruct Hok as [Hf Hok].
  apply negb_true_iff in Hf.
  destruct o as [n f|n| |]; cbn [step] in H.
  - apply Z.leb_le in Hok.
    destruct (map_inv _ _ _ _ _ _ _ HI Hf Hok H) as [d' [A [B [C _]]]]. exists d'. auto.
  - destruct (unmap_inv _ _ _ _ _ _ HI Hf H) as [d' [A [B [C _]]]]. exists d'. auto.
  - destruct (sub_inv _ _ _ _ _ HI Hf H) as [d' [A [B [C _]]]]. exists d'. auto.
  - apply (free_inv _ _ _ _ _ HI Hf H).
Qed.

(* ------------------------------------------------------------------ all histories *)

Lemma run_inv : forall ops s d out,
  Inv s d -> in_weak_domain_from s ops = true ->
  exists df, dev_run d (snd (fst (run s out ops))) = Some df /\
             Inv (fst (fst (fst (run s out ops)))) df /\
             ~ In RErrNoData (snd (run s out ops)).
Proof.
  induction ops as [|o tl IH]; intros s d out HI Hd.
  - cbn. exists d. split; [reflexivity|]. split; [exact HI|]. intros [].
  - cbn [in_weak_domain_from] in Hd. apply andb_prop in Hd. destruct Hd as [Hok Hd].
    cbn [run]. destruct (step s o) as [[s' r] cs] eqn:Es.
    destruct (step_inv _ _ _ _ _ _ HI Hok Es) as [d' [A [B C]]].
    specialize (IH s' d' (out_upd out o r) B Hd).
    destruct (run s' (out_upd out o r) tl) as [[[sf outf] tr] rs] eqn:Er.
    cbn [fst snd] in *. destruct IH as [df [A' [B' C']]].
    exists df. rewrite dev_run_app, A. split; [exact A'|]. split; [exact B'|].
    intros [Hc|Hc]; [congruence|exact (C' Hc)].
Qed.

Lemma weaken_from : forall ops s out,
  in_domain_from s out ops = true -> in_weak_domain_from s ops = true.
Proof.
  induction ops as [|o tl IH]; intros s out H; [reflexivity|].
  cbn [in_domain_from] in H. apply andb_prop in H. destruct H as [Hok H].
  cbn [in_weak_domain_from]. destruct (step s o) as [[s' r] cs].
  apply andb_true_intro. split.
  - unfold op_ok in Hok. unfold op_ok_weak. apply andb_prop in Hok. destruct Hok as [Hf Hok].
    rewrite Hf. cbn [andb]. destruct o; auto.
  - apply (IH _ _ H).
Qed.

Lemma in_domain_weaken ops : in_domain ops = true -> in_weak_domain ops = true.
Proof. apply weaken_from. Qed.

Definition final (ops : list op) : sm := fst (fst (fst (run sm_init 0 ops))).
Definition outstanding (ops : list op) : Z := snd (fst (fst (run sm_init 0 ops))).
Definition trace (ops : list op) : list call := snd (fst (run sm_init 0 ops)).
Definition results (ops : list op) : list res := snd (run sm_init 0 ops).

(* (a) *)
Theorem driver_calls_valid_weak ops :
  in_weak_domain ops = true -> exists df, dev_run dev_init (trace ops) = Some df.
Proof.
  intros H. destruct (run_inv ops sm_init dev_init 0 inv_init H) as [df [A _]].
  exists df. exact A.
Qed.

Theorem driver_calls_valid ops :
  in_domain ops = true -> exists df, dev_run dev_init (trace ops) = Some df.
Proof. intros H. apply driver_calls_valid_weak, in_domain_weaken, H. Qed.

(* (b) the invariant is exactly the one asked for *)
Theorem mapped_iff ops :
  in_weak_domain ops = true ->
  exists df, dev_run dev_init (trace ops) = Some df /\
             (freed (final ops) = false ->
              d_alive df = true /\
              (d_mapped df = true <-> mapped (final ops) = true) /\
              (mapped (final ops) = true <-> (0 < mapRefs (final ops) \/ extra (final ops) = true))).
Proof.
  intros H. destruct (run_inv ops sm_init dev_init 0 inv_init H) as [df [A [[_ [B _]] _]]].
  exists df. split; [exact A|]. intros Hf. destruct (B Hf) as [B1 [B2 B3]].
  split; [exact B1|]. split; [|exact B3]. rewrite B2. tauto.
Qed.

Theorem no_nodata_error ops :
  in_weak_domain ops = true -> ~ In RErrNoData (results ops).
Proof.
  intros H. destruct (run_inv ops sm_init dev_init 0 inv_init H) as [df [_ [_ C]]]. exact C.
Qed.

(* (c) *)
Lemma step_balance s d out o s' r cs :
  Inv s d -> op_ok s out o = true -> mapRefs s = out -> step s o = (s', r, cs) ->
  mapRefs s' = out_upd out o r.
Proof.
  intros HI Hok Hb H. unfold op_ok in Hok. apply andb_prop in Hok. destruct Hok as [Hf Hok].
  apply negb_true_iff in Hf.
  destruct o as [n f|n| |]; cbn [step] in H.
  - apply Z.leb_le in Hok.
    destruct (map_inv _ _ _ _ _ _ _ HI Hf Hok H) as [d' [_ [_ [Hnd [_ Hfail]]]]].
    destruct HI as [Hnn [Hlive _]]. destruct (Hlive Hf) as [_ [_ Hiff]].
    unfold do_map in H. destruct (n =? 0) eqn:En.
    { apply Z.eqb_eq in En. inversion H; subst. cbn. lia. }
    destruct (post_map_unmap s) as [s1 sw] eqn:Ep.
    destruct (pmu_spec _ _ _ Ep) as [P1 [P2 _]].
    unfold references in H.
    destruct (0 <? mapRefs s + (if extra s then 1 else 0)) eqn:Eo.
    + cbn [set_refs mapped] in H.
      destruct (mapped s1); inversion H; subst; cbn [out_upd set_refs mapRefs].
      * rewrite P1. reflexivity.
      * exfalso. apply Hnd. reflexivity.
    + apply Z.ltb_ge in Eo.
      assert (Hr0 : mapRefs s = 0) by (destruct (extra s); lia).
      destruct f; inversion H; subst; cbn [out_upd].
      * destruct sw; cbn; rewrite P1; reflexivity.
      * cbn. lia.
  - apply andb_prop in Hok. destruct Hok as [H0 Hle]. apply Z.leb_le in H0. apply Z.leb_le in Hle.
    unfold do_unmap in H.
    destruct (mapRefs s =? 0) eqn:E0.
    { apply Z.eqb_eq in E0. inversion H; subst. cbn. lia. }
    destruct (mapRefs s <? n) eqn:En.
    { inversion H; subst. cbn. reflexivity. }
    apply Z.ltb_ge in En.
    remember (if mapRefs s - n <? 0 then 0 else mapRefs s - n) as m eqn:Hmdef.
    assert (Hm : m = mapRefs s - n).
    { subst m. destruct (mapRefs s - n <? 0) eqn:E; [apply Z.ltb_lt in E; lia|reflexivity]. }
    destruct (post_map_unmap (set_refs s m)) as [s1 sw] eqn:Ep.
    destruct (pmu_spec _ _ _ Ep) as [P1 _]. cbn [set_refs mapRefs] in P1.
    destruct (references s1 <=? 0); inversion H; subst s' r cs; cbn [out_upd set_mapped mapRefs];
      rewrite P1; lia.
  - destruct (sub_inv _ _ _ _ _ HI Hf H) as [d' [_ [_ [_ [_ [E _]]]]]].
    rewrite E. unfold do_sub in H.
    destruct (map_delay <=? wrap_u32 (delayCounter s + 1));
      [destruct (wrap_i32 (statusCounter s - 1) <=? -2);
       [destruct (extra s); [destruct ((mapRefs s =? 0) && mapped s)|]|]|];
      inversion H; subst; cbn; reflexivity.
  - unfold do_free in H. inversion H; subst. cbn. reflexivity.
Qed.

Lemma run_balance : forall ops s d out,
  Inv s d -> mapRefs s = out -> in_domain_from s out ops = true ->
  mapRefs (fst (fst (fst (run s out ops)))) = snd (fst (fst (run s out ops))).
Proof.
  induction ops as [|o tl IH]; intros s d out HI Hb Hd.
  - cbn. exact Hb.
  - cbn [in_domain_from] in Hd. apply andb_prop in Hd. destruct Hd as [Hok Hd].
    cbn [run]. destruct (step s o) as [[s' r] cs] eqn:Es.
    assert (Hokw : op_ok_weak s o = true).
    { unfold op_ok in Hok. unfold op_ok_weak. apply andb_prop in Hok. destruct Hok as [Hf Hok].
      rewrite Hf. cbn [andb]. destruct o; auto. }
    destruct (step_inv _ _ _ _ _ _ HI Hokw Es) as [d' [_ [B _]]].
    pose proof (step_balance _ _ _ _ _ _ _ HI Hok Hb Es) as Hb'.
    specialize (IH s' d' (out_upd out o r) B Hb' Hd).
    destruct (run s' (out_upd out o r) tl) as [[[sf outf] tr] rs]. cbn [fst snd] in *. exact IH.
Qed.

Theorem refs_balance ops :
  in_domain ops = true ->
  mapRefs (final ops) = outstanding ops /\
  exists df, dev_run dev_init (trace ops) = Some df /\
             (freed (final ops) = false -> 0 < outstanding ops ->
              d_mapped df = true /\ mapped (final ops) = true).
Proof.
  intros H.
  pose proof (run_balance ops sm_init dev_init 0 inv_init eq_refl H) as Hb.
  destruct (mapped_iff ops (in_domain_weaken _ H)) as [df [A B]].
  split; [exact Hb|]. exists df. split; [exact A|]. intros Hf Hpos.
  destruct (B Hf) as [_ [B2 B3]].
  assert (Hm : mapped (final ops) = true).
  { apply B3. left. unfold final, outstanding in *. rewrite Hb. exact Hpos. }
  split; [apply B2; exact Hm|exact Hm].
Qed.

(* reachable states *)
Definition reachable (s : sm) (d : devstate) : Prop :=
  exists ops, in_weak_domain ops = true /\ final ops = s /\ dev_run dev_init (trace ops) = Some d.

Lemma reachable_inv s d : reachable s d -> Inv s d.
Proof.
  intros [ops [H [Hs Hd]]].
  destruct (run_inv ops sm_init dev_init 0 inv_init H) as [df [A [B _]]].
  unfold final, trace in *. rewrite Hs in B. rewrite Hd in A. inversion A; subst. exact B.
Qed.

(* "no unmap by one user unmaps memory another still relies on": in every reachable state, an
   Unmap (or a suballocation event) after which references remain makes no driver call at all and
   leaves the memory mapped. *)
Theorem unmap_keeps_others s d o s' r cs :
  reachable s d -> freed s = false ->
  (o = OSubAllocFree \/ exists n, o = OUnmap n) ->
  step s o = (s', r, cs) -> 0 < mapRefs s' ->
  cs = [] /\ mapped s' = true /\ dev_run d cs = Some d /\ d_mapped d = true.
Proof.
  intros HR Hf Ho H Hp. pose proof (reachable_inv _ _ HR) as HI.
  assert (Hcs : cs = [] /\ mapped s' = true /\ exists d', dev_run d cs = Some d' /\ Inv s' d' /\ freed s' = false).
  { destruct Ho as [Ho|[n Ho]]; subst o; cbn [step] in H.
    - destruct (sub_inv _ _ _ _ _ HI Hf H) as [d' [A [B [_ [C [_ D]]]]]].
      destruct (D Hp) as [D1 D2]. split; [exact D1|]. split; [exact D2|]. exists d'. auto.
    - destruct (unmap_inv _ _ _ _ _ _ HI Hf H) as [d' [A [B [_ [C D]]]]].
      destruct (D Hp) as [D1 D2]. split; [exact D1|]. split; [exact D2|]. exists d'. auto. }
  destruct Hcs as [E [Hm [d' [A [B C]]]]]. subst cs. cbn in A. inversion A; subst d'.
  split; [reflexivity|]. split; [exact Hm|]. split; [reflexivity|].
  destruct B as [_ [B _]]. destruct (B C) as [_ [B2 _]]. congruence.
Qed.

(* (d) *)
Theorem failed_map_no_trace s d n f s' r cs :
  reachable s d -> freed s = false -> 0 <= n ->
  step s (OMap n f) = (s', r, cs) -> (forall p, r <> ROk p) ->
  mapRefs s' = mapRefs s /\ mapped s' = mapped s /\ extra s' = extra s /\
  dev_run d cs = Some d.
Proof.
  intros HR Hf Hn H Hne. pose proof (reachable_inv _ _ HR) as HI. cbn [step] in H.
  destruct (map_inv _ _ _ _ _ _ _ HI Hf Hn H) as [d' [A [_ [_ [_ D]]]]].
  destruct (D Hne) as [D1 [D2 [D3 D4]]]. subst d'. auto.
Qed.

(* the lenient device of the trace driver agrees with the automaton on every accepted call *)
Lemma dev_apply_agrees d c d' v : dev_step d c = Some d' -> dev_apply (d, v) c = (d', v).
Proof.
  destruct d as [al mp]; destruct c as [ok| |]; cbn; destruct al, mp; cbn; try discriminate;
    intros H; inversion H; subst; try reflexivity.
  destruct ok; reflexivity.
Qed.

(* ------------------------------------------------------------------ a non-trivial history in the domain *)

Definition ex_ops : list op :=
  [OMap 1 false; OUnmap 1; OMap 2 false; OMap 1 true; OUnmap 2; OUnmap 1;
   OMap 1 false;                      (* 7th event: the hysteresis takes its extra mapping *)
   OUnmap 1;                          (* no vkUnmapMemory: the extra mapping holds it *)
   OMap 3 true; OUnmap 3;             (* already mapped: the driver is not called, the fault cannot fire *)
   OSubAllocFree; OSubAllocFree; OSubAllocFree; OSubAllocFree; OSubAllocFree; OSubAllocFree;
   OSubAllocFree; OSubAllocFree; OSubAllocFree; OSubAllocFree; OSubAllocFree; OSubAllocFree;
   OSubAllocFree; OSubAllocFree; OSubAllocFree; OSubAllocFree;   (* extra mapping dropped: vkUnmapMemory *)
   OMap 1 true;                       (* vkMapMemory fails *)
   OMap 1 false; OFree].

Example ex_in_domain : in_domain ex_ops = true.
Proof. vm_compute. reflexivity. Qed.

Example ex_trace :
  trace ex_ops = [DMap true; DUnmap; DMap true; DUnmap; DMap true; DUnmap; DMap false; DMap true; DFree].
Proof. vm_compute. reflexivity. Qed.

(* out of the domain the property is really lost: an operation after FreeMemory *)
Example after_free_refuted : dev_run dev_init (trace [OMap 1 false; OFree; OUnmap 1]) = None.
Proof. vm_compute. reflexivity. Qed.

Print Assumptions driver_calls_valid.
Print Assumptions driver_calls_valid_weak.
Print Assumptions mapped_iff.
Print Assumptions refs_balance.
Print Assumptions unmap_keeps_others.
Print Assumptions failed_map_no_trace.
Print Assumptions no_nodata_error.
