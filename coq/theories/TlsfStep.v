(* TlsfStep.v — every operation of the TLSF model preserves Inv1; what each operation does to the
   set of live (taken) blocks.  Basis of C01, C06, C17, C18 (first part) for TLSF. *)
From Coq Require Import ZArith List Bool Lia.
From Arsenal Require Import Util Bits Gran Tlsf TlsfGeom TlsfInv1 TlsfFree TlsfAlloc.
Import ListNotations.
Open Scope Z_scope.

(* ------------------------------------------------------------------ the request really comes from a free block *)

Definition same_shape (t t' : tlsf) : Prop :=
  t_chain t' = t_chain t /\ t_null t' = t_null t /\ t_size t' = t_size t /\ t_gran t' = t_gran t /\
  t_alloc_count t' = t_alloc_count t.

Lemma same_shape_refl t : same_shape t t.
Proof. unfold same_shape; auto. Qed.

Lemma Inv1_shape t t' : same_shape t t' -> Inv1 t -> Inv1 t'.
Proof.
  intros (Hc & Hn & Hs & _) [[H1 H2 H3 H4 H5] Hg Ha Hl].
  constructor; [constructor|..]; rewrite ?Hc, ?Hn, ?Hs; auto.
Qed.

Definition granted_by (t : tlsf) (allocSize align atype maxOffset : Z) (t' : tlsf) (r : request) : Prop :=
  exists b li, check_block t b li allocSize align atype maxOffset = CBOk t' r /\
               ((li = None /\ b = t_null t) \/ (exists idx, li = Some idx) /\ In b (t_chain t)).

Lemma check_list_granted t idx offs a al ty mo t' r :
  check_list t idx offs a al ty mo = SFound t' r -> granted_by t a al ty mo t' r.
Proof.
  induction offs as [|o offs IH]; cbn; [discriminate|].
  destruct (find_blk o (t_chain t)) as [b|] eqn:Hf; [|discriminate].
  destruct (check_block t b (Some idx) a al ty mo) eqn:Hc; try discriminate; auto.
  intros H; injection H as <- <-. exists b, (Some idx). split; auto. right. split; eauto.
  apply find_blk_in in Hf. tauto.
Qed.

Lemma check_null_granted t a al ty mo t' r :
  check_null t a al ty mo = SFound t' r -> granted_by t a al ty mo t' r.
Proof.
  unfold check_null. destruct (check_block _ _ _ _ _ _ _) eqn:Hc; try discriminate.
  intros H; injection H as <- <-. exists (t_null t), None. auto.
Qed.

Lemma full_search_granted t idx fuel a al ty mo t' r :
  full_search t idx fuel a al ty mo = SFound t' r -> granted_by t a al ty mo t' r.
Proof.
  revert idx; induction fuel as [|f IH]; intros idx; cbn; [discriminate|].
  destruct (_ <=? idx); [discriminate|].
  destruct (check_list t idx _ a al ty mo) eqn:Hc; try discriminate.
  - intros H; injection H as <- <-. eapply check_list_granted; eauto.
  - apply IH.
Qed.

Lemma min_offset_walk_granted t c a al ty mo t' r :
  incl c (t_chain t) ->
  min_offset_walk t c a al ty mo = SFound t' r -> granted_by t a al ty mo t' r.
Proof.
  induction c as [|b c IH]; intros Hin; cbn; [discriminate|].
  assert (Hin' : incl c (t_chain t)) by (intros x Hx; apply Hin; right; auto).
  destruct (mo <=? b_off b); [discriminate|].
  destruct (b_free b && (a <=? b_size b)).
  - destruct (check_block t b _ a al ty mo) eqn:Hc; try discriminate; auto.
    intros H; injection H as <- <-. exists b, (Some (list_of_size (b_size b))). split; auto.
    right. split; eauto. apply Hin. left; reflexivity.
  - auto.
Qed.

Lemma orelse_found a f t' r :
  orelse a f = SFound t' r -> a = SFound t' r \/ (a = SNotFound /\ f tt = SFound t' r).
Proof. destruct a; cbn; auto; discriminate. Qed.

Lemma of_sres_granted s t' r : of_sres s = QGranted t' r -> s = SFound t' r.
Proof. destruct s; cbn; intros H; try discriminate. injection H as <- <-. reflexivity. Qed.

Ltac granted_tac :=
  repeat match goal with
         | H : orelse _ _ = SFound _ _ |- _ => apply orelse_found in H; destruct H as [H|[_ H]]
         | H : check_list _ _ _ _ _ _ _ = SFound _ _ |- _ => eapply check_list_granted; exact H
         | H : check_null _ _ _ _ _ = SFound _ _ |- _ => eapply check_null_granted; exact H
         | H : full_search _ _ _ _ _ _ _ = SFound _ _ |- _ => eapply full_search_granted; exact H
         | H : min_offset_walk _ _ _ _ _ _ = SFound _ _ |- _ => eapply min_offset_walk_granted; [|exact H]; apply incl_refl
         | H : SNotFound = SFound _ _ |- _ => discriminate H
         | H : SPanic = SFound _ _ |- _ => discriminate H
         | H : match ?x with _ => _ end = SFound _ _ |- _ => destruct x eqn:?
         end.

Lemma create_request_granted t size0 align0 upper atype strategy maxOffset t' r :
  create_request t size0 align0 upper atype strategy maxOffset = QGranted t' r ->
  1 <= size0 /\ upper = false /\
  granted_by t (fst (round_up (t_gran t) atype size0 align0)) (snd (round_up (t_gran t) atype size0 align0))
             atype maxOffset t' r.
Proof.
  unfold create_request.
  destruct (size0 <? 1) eqn:E1; [discriminate|].
  destruct upper; [discriminate|].
  destruct (round_up (t_gran t) atype size0 align0) as [allocSize align] eqn:Hru. cbn [fst snd].
  destruct (sum_free_size t <? allocSize); [discriminate|].
  intros H. split; [lia|]. split; [reflexivity|]. revert H.
  destruct (t_free_count t =? 0).
  { destruct (_ && _); [discriminate|]. intros H. apply of_sres_granted in H. granted_tac. }
  destruct (Z.testbit strategy 1).
  { destruct (find_free_block t (size_for_next_list allocSize)) eqn:Hff; try discriminate;
      intros H; apply of_sres_granted in H; granted_tac. }
  destruct (Z.testbit strategy 0).
  { destruct (find_free_block t allocSize) eqn:Hff; try discriminate;
      intros H; apply of_sres_granted in H; granted_tac. }
  destruct (Z.testbit strategy 2).
  { intros H; apply of_sres_granted in H; granted_tac. }
  destruct (find_free_block t (size_for_next_list allocSize)) eqn:Hff; try discriminate;
    intros H; apply of_sres_granted in H; granted_tac.
Qed.

(* ------------------------------------------------------------------ from "granted" to "fits" *)

Lemma check_conflict_spec g a sz ro rs ty a' :
  check_conflict g a sz ro rs ty = Some (a', false) ->
  a' = a \/ (a' = align_up a (g_g g) /\ sz + a' - ro <= rs).
Proof.
  unfold check_conflict. destruct (negb (enabled g)).
  { intros H; injection H as <-. auto. }
  destruct (region_at g (start_slot g a)) as [r1|]; [|discriminate].
  destruct (slot_conflicts r1 ty).
  - destruct (rs <? sz + align_up a (g_g g) - ro) eqn:E; [intros H; injection H; discriminate|].
    destruct (region_at g (start_slot g (align_up a (g_g g)))) as [r2|]; [|discriminate].
    destruct (slot_conflicts r2 ty); [intros H; injection H; discriminate|].
    destruct (_ =? _).
    + intros H; injection H as <-. right. split; auto. lia.
    + destruct (region_at g _); [|discriminate]. intros H; injection H as <- _. right. split; auto. lia.
  - destruct (_ =? _).
    + intros H; injection H as <-. auto.
    + destruct (region_at g _); [|discriminate]. intros H; injection H as <- _. auto.
Qed.

Lemma round_up_spec g atype size0 align0 :
  pow2 (g_g g) -> pow2 align0 ->
  let '(size', align') := round_up g atype size0 align0 in
  size0 <= size' /\ pow2 align' /\ align0 <= align'.
Proof.
  intros Hg Ha. unfold round_up. destruct (g_h g); [split; [lia|split; [auto|lia]]|].
  destruct (g_g g >? 1); [|split; [lia|split; [auto|lia]]].
  destruct (_ || _); [|split; [lia|split; [auto|lia]]].
  pose proof (align_up_bounds size0 (g_g g) Hg) as ((Hlo & _) & _).
  split; [lia|]. destruct (align0 <? g_g g) eqn:E; split; auto; lia.
Qed.

Lemma granted_fits t size0 align0 atype maxOffset t' r :
  pow2 (g_g (t_gran t)) -> pow2 align0 -> 1 <= size0 ->
  granted_by t (fst (round_up (t_gran t) atype size0 align0)) (snd (round_up (t_gran t) atype size0 align0))
             atype maxOffset t' r ->
  same_shape t t' /\ rq_offset r < maxOffset /\ rq_type r = atype /\
  ((rq_is_null r = true /\ fits r (t_null t) size0 align0) \/
   (rq_is_null r = false /\ exists b, In b (t_chain t) /\ rq_block r = b_off b /\ b_free b = true /\ fits r b size0 align0)).
Proof.
  intros Hg Ha Hs (b & li & Hcb & Hwhere).
  pose proof (round_up_spec (t_gran t) atype size0 align0 Hg Ha) as Hru.
  destruct (round_up (t_gran t) atype size0 align0) as [size' align']. cbn [fst snd] in *.
  destruct Hru as (Hsz & Hpa & Hale).
  apply check_block_spec in Hcb.
  destruct Hcb as (Hbf & Hrb & Hrs & Hrt & Hrn & Hmo & Hc & Hn & Hsize & Hgr & Hac & al & Hcc & Hro & Hfit).
  split; [unfold same_shape; auto|]. split; [auto|]. split; [auto|].
  assert (Hfits : fits r b size0 align0).
  { pose proof (align_up_bounds (b_off b) align' Hpa) as ((Hlo & _) & Hmod).
    apply check_conflict_spec in Hcc.
    assert (Hoff : b_off b <= al /\ size' + al - b_off b <= b_size b /\ al mod align' = 0).
    { destruct Hcc as [->|(-> & Hfit2)].
      - repeat split; auto; lia.
      - pose proof (align_up_bounds (align_up (b_off b) align') (g_g (t_gran t)) Hg) as ((Hlo2 & _) & Hmod2).
        repeat split; try lia.
        destruct (Z_le_gt_dec align' (g_g (t_gran t))).
        + eapply pow2_mod_mono; [exact Hpa|exact Hg|lia|exact Hmod2].
        + rewrite align_up_id; auto. eapply pow2_mod_mono; [exact Hg|exact Hpa|lia|exact Hmod]. }
    destruct Hoff as (H1 & H2 & H3).
    constructor; rewrite ?Hro, ?Hrs; try lia.
    - apply pow2_pos; auto.
    - eapply pow2_mod_mono; [exact Ha|exact Hpa|lia|exact H3]. }
  destruct Hwhere as [(-> & ->)|((idx & ->) & Hin)].
  - left. split; auto.
  - right. split; auto. exists b. auto.
Qed.

(* ------------------------------------------------------------------ Inv1 is preserved by every step *)

Definition op_ok (o : op) : Prop :=
  match o with
  | OAlloc _ align _ _ _ _ _ => pow2 align
  | ORequest _ align _ _ _ _ => pow2 align
  | _ => True
  end.

Definition TInv (t : tlsf) : Prop := Inv1 t /\ pow2 (g_g (t_gran t)).

Lemma upd_region_g g s f g' : upd_region g s f = Some g' -> g_g g' = g_g g /\ g_h g' = g_h g.
Proof. unfold upd_region. destruct (region_at g s); [|discriminate]. intros H; injection H as <-. auto. Qed.

Lemma alloc_regions_g g ty off sz g' : alloc_regions g ty off sz = Some g' -> g_g g' = g_g g.
Proof.
  unfold alloc_regions. destruct (negb (enabled g)); [intros H; injection H as <-; auto|].
  destruct (upd_region g _ _) as [g1|] eqn:E1; [|discriminate].
  apply upd_region_g in E1. destruct (_ =? _); [intros H; injection H as <-; tauto|].
  intros H. apply upd_region_g in H. destruct E1, H. congruence.
Qed.

Lemma free_regions_g g off sz g' : free_regions g off sz = Some g' -> g_g g' = g_g g.
Proof.
  unfold free_regions. destruct (negb (enabled g)); [intros H; injection H as <-; auto|].
  destruct (upd_region g _ _) as [g1|] eqn:E1; [|discriminate].
  apply upd_region_g in E1. destruct (_ =? _); [intros H; injection H as <-; tauto|].
  intros H. apply upd_region_g in H. destruct E1, H. congruence.
Qed.

Lemma in_split_chain (b : blk) c : In b c -> exists pre post, c = pre ++ b :: post.
Proof. apply in_split. Qed.

(* the new taken block of a successful OAlloc *)
Definition new_blk (off size : Z) (tag : option Z) (atype rs ra : Z) : blk :=
  mkBlk off size false tag atype rs ra.

Definition with_tag (b : blk) (tag : option Z) : blk :=
  set_blk b (b_off b) (b_size b) false tag.

(* effect of one step on the list of live (taken) blocks, in chain order *)
Definition live_effect (t : tlsf) (o : op) (t' : tlsf) (out : outcome) : Prop :=
  match o, o_kind out with
  | OAlloc size align atype _ _ _ tag, ROk =>
    exists l1 l2, live t = l1 ++ l2 /\
                  live t' = l1 ++ new_blk (o_off out) (o_size out) tag atype size align :: l2
  | OFree h, ROk =>
    exists l1 b l2, live t = l1 ++ b :: l2 /\ b_off b = h /\ live t' = l1 ++ l2
  | OSetUD h tag, ROk =>
    exists l1 b l2, live t = l1 ++ b :: l2 /\ b_off b = h /\ live t' = l1 ++ with_tag b tag :: l2
  | OClear, _ => live t' = []
  | _, _ => live t' = live t
  end.

Lemma set_user_data_spec t h tag t' :
  Inv1 t -> set_user_data t h tag = Some t' ->
  Inv1 t' /\ t_gran t' = t_gran t /\
  exists pre b post, t_chain t = pre ++ b :: post /\ b_off b = h /\ b_free b = false /\
                     t_chain t' = pre ++ with_tag b tag :: post.
Proof.
  intros [Hgeo Hgh Hnaf Hlast]. unfold set_user_data.
  destruct (find_blk h (t_chain t)) as [b|] eqn:Hf; [|discriminate].
  destruct (b_free b) eqn:Hbf; [discriminate|].
  intros H; injection H as <-.
  destruct (find_blk_split _ _ _ Hf) as (pre & post & Hc & Hoff & Hbel).
  unfold with_chain; cbn [t_chain t_gran].
  rewrite Hc, replace_blk_app by auto.
  destruct Hgeo as [Hch Hnoff Hnsz Htot Hnfree]. rewrite Hc in *.
  split; [|split; [reflexivity|exists pre, b, post; auto]].
  constructor; cbn [t_chain t_null t_size].
  - constructor; cbn [t_chain t_null t_size]; auto.
    + apply chain_from_app in Hch. apply chain_from_app. cbn in *. tauto.
    + rewrite Hnoff, !chain_end_app. reflexivity.
  - apply Forall_app in Hgh. destruct Hgh as (H1 & H2). inversion H2; subst.
    apply Forall_app. split; auto. constructor; auto.
    unfold gh_ok in *. cbn. intuition congruence.
  - unfold no_adj_free in *. apply naf_app in Hnaf. apply naf_app. cbn [naf set_blk b_free] in *.
    rewrite Hbf in Hnaf. exact Hnaf.
  - unfold last_taken in *. rewrite last_free_app in *. cbn [last_free set_blk b_free] in *.
    rewrite Hbf in Hlast. exact Hlast.
Qed.

Lemma clear_inv1 t : Inv1 t -> Inv1 (tlsf_clear t).
Proof.
  intros [[Hch Hnoff Hnsz Htot Hnfree] _ _ _].
  pose proof (chain_end_ge _ _ Hch).
  constructor; [constructor|..]; cbn; auto; try lia. reflexivity.
Qed.

Lemma init_inv1 h gr size : 0 <= size -> Inv1 (tlsf_init h gr size).
Proof.
  intros. constructor; [constructor|..]; cbn; auto; try lia. reflexivity.
Qed.

Theorem step_preserves t o :
  TInv t -> op_ok o ->
  TInv (fst (step t o)) /\ live_effect t o (fst (step t o)) (snd (step t o)) /\
  t_size (fst (step t o)) = t_size t.
Proof.
  intros [Hinv Hpg] Hok. destruct o as [size align atype strat upper mo tag|size align atype strat upper mo|h|h tag| |atype size];
    cbn [step op_ok] in *.
  - (* OAlloc *)
    destruct (create_request t size align upper atype strat mo) as [t1 r| | |] eqn:Hcr;
      cbn [fst snd live_effect o_kind out]; [|split; [split; auto|split; auto]|split; [split; auto|split; auto]|split; [split; auto|split; auto]].
    apply create_request_granted in Hcr. destruct Hcr as (Hs1 & -> & Hgr).
    apply granted_fits in Hgr; auto.
    destruct Hgr as (Hshape & _ & Hty & Hcase).
    pose proof (Inv1_shape _ _ Hshape Hinv) as Hinv1.
    destruct Hshape as (Hc1 & Hn1 & Hsz1 & Hg1 & Ha1).
    destruct (alloc t1 r tag size align) as [t2 h| |] eqn:Hal;
      cbn [fst snd live_effect o_kind out]; [|split; [split; auto|split; auto]|split; [split; auto|split; auto]].
    pose proof (alloc_gran _ _ _ _ _ _ _ Hal) as Hgg.
    destruct Hcase as [(Hnull & Hfits)|(Hnull & b & Hin & Hrb & Hbf & Hfits)].
    + rewrite <- Hn1 in Hfits.
      destruct (alloc_null_spec _ _ _ _ _ _ _ Hinv1 Hnull Hfits Hal) as (Hinv2 & -> & Hsz2 & _ & Hc2).
      split; [split; [auto|rewrite Hgg, Hg1; exact Hpg]|]. split; [|congruence].
      exists (live t), []. rewrite app_nil_r. split; auto.
      rewrite !live_livef, Hc2, Hc1, !livef_app. f_equal.
      unfold pad_blks. destruct (_ =? 0); cbn; unfold new_blk, taken_blk; rewrite Hty; reflexivity.
    + rewrite <- Hc1 in Hin. destruct (in_split _ _ Hin) as (pre & post & Hc).
      destruct (alloc_blk_spec _ _ _ _ _ _ _ _ _ _ Hinv1 Hnull Hc Hrb Hbf Hfits Hal)
        as (Hinv2 & -> & Hsz2 & _ & _ & Hc2).
      split; [split; [auto|rewrite Hgg, Hg1; exact Hpg]|]. split; [|congruence].
      exists (livef pre), (livef post). rewrite !live_livef, Hc2, <- Hc1, Hc, !livef_app.
      cbn [livef filter]. rewrite Hbf. cbn [negb]. split; auto. f_equal.
      unfold pad_blks, rest_blks. destruct (_ =? 0); destruct (_ =? 0); cbn;
        unfold new_blk, taken_blk; rewrite Hty; reflexivity.
  - (* ORequest *)
    destruct (create_request t size align upper atype strat mo) as [t1 r| | |] eqn:Hcr;
      cbn [fst snd live_effect o_kind out]; [|split; [split; auto|split; auto]|split; [split; auto|split; auto]|split; [split; auto|split; auto]].
    apply create_request_granted in Hcr. destruct Hcr as (Hs1 & -> & Hgr).
    apply granted_fits in Hgr; auto. destruct Hgr as (Hshape & _).
    pose proof (Inv1_shape _ _ Hshape Hinv) as Hinv1.
    destruct Hshape as (Hc1 & Hn1 & Hsz1 & Hg1 & Ha1).
    split; [split; [auto|rewrite Hg1; exact Hpg]|]. split; [|congruence].
    rewrite !live_livef, Hc1. reflexivity.
  - (* OFree *)
    destruct (tlsf_free t h) as [t1| |] eqn:Hfr; cbn [fst snd live_effect o_kind out];
      [|split; [split; auto|split; auto]|split; [split; auto|split; auto]].
    destruct (tlsf_free_inv1 _ _ _ Hinv Hfr) as (Hinv1 & Hsz & _ & (b0 & g' & _ & Hfreg & Hg) & pre & b & post & Hc & Hoff & Hbf & Hlive).
    split; [split; [auto|]|]. { rewrite Hg. erewrite free_regions_g; eauto. }
    split; [|auto].
    exists (livef pre), b, (livef post). rewrite !live_livef, Hlive, Hc, livef_app.
    cbn [livef filter]. rewrite Hbf. cbn. auto.
  - (* OSetUD *)
    destruct (set_user_data t h tag) as [t1|] eqn:Hsu; cbn [fst snd live_effect o_kind out];
      [|split; [split; auto|split; auto]].
    destruct (set_user_data_spec _ _ _ _ Hinv Hsu) as (Hinv1 & Hg & pre & b & post & Hc & Hoff & Hbf & Hc').
    split; [split; [auto|rewrite Hg; exact Hpg]|]. split.
    + exists (livef pre), b, (livef post). rewrite !live_livef, Hc', Hc, !livef_app.
      cbn [livef filter with_tag set_blk b_free]. rewrite Hbf. cbn. auto.
    + unfold set_user_data in Hsu. destruct (find_blk _ _); [|discriminate]. destruct (b_free _); [discriminate|].
      injection Hsu as <-. reflexivity.
  - (* OClear *)
    cbn [fst snd live_effect o_kind out]. split; [split; [apply clear_inv1; auto|exact Hpg]|]. split; reflexivity.
  - (* OMayHave *)
    cbn [fst snd live_effect]. split; [split; auto|]. split; [|reflexivity].
    destruct (may_have_free t atype size); reflexivity.
Qed.
